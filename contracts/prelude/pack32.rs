// 64-bit digits holding 32-bit words two by two (little-endian): value-level link between val and val32
pub open spec fn w32(s: Seq<u32>, i: int) -> nat { if 0 <= i < s.len() { s[i] as nat } else { 0 } }
pub open spec fn pw32(k: nat) -> nat
    decreases k
{
    if k == 0 { 1 } else { B32() * pw32((k - 1) as nat) }
}
pub proof fn lemma_pw32_pw(k: nat)
    ensures pw32(2 * k) == pw(k)
    decreases k
{
    if k > 0 {
        lemma_pw32_pw((k - 1) as nat);
        assert(pw32(2 * k) == B32() * pw32((2 * k - 1) as nat));
        assert(pw32((2 * k - 1) as nat) == B32() * pw32((2 * k - 2) as nat));
        assert(B32() * (B32() * pw32((2 * k - 2) as nat)) == B() * pw32((2 * k - 2) as nat)) by (nonlinear_arith) requires B32() * B32() == B();
    }
}
pub proof fn lemma_val32_append(s: Seq<u32>, t: Seq<u32>)
    ensures val32(s + t) == val32(s) + pw32(s.len()) * val32(t)
    decreases s.len()
{
    if s.len() == 0 {
        assert(s + t =~= t);
        assert(pw32(0) * val32(t) == val32(t)) by (nonlinear_arith) requires pw32(0) == 1;
    } else {
        let u = s + t;
        assert(u.subrange(1, u.len() as int) =~= s.subrange(1, s.len() as int) + t);
        lemma_val32_append(s.subrange(1, s.len() as int), t);
        let st = s.subrange(1, s.len() as int);
        assert(val32(u) == (u[0] as nat) + B32() * val32(u.subrange(1, u.len() as int)));
        assert(val32(s) == (s[0] as nat) + B32() * val32(st));
        assert(pw32(s.len()) == B32() * pw32(st.len()));
        assert(B32() * (val32(st) + pw32(st.len()) * val32(t)) == B32() * val32(st) + (B32() * pw32(st.len())) * val32(t)) by (nonlinear_arith);
    }
}
/// val32 of at most two words
pub proof fn lemma_val32_small(t: Seq<u32>)
    requires t.len() <= 2
    ensures val32(t) == w32(t, 0) + 0x1_0000_0000 * w32(t, 1)
{
    if t.len() >= 1 {
        let t1 = t.subrange(1, t.len() as int);
        assert(val32(t) == (t[0] as nat) + B32() * val32(t1));
        if t.len() == 2 {
            assert(val32(t1) == (t1[0] as nat) + B32() * val32(t1.subrange(1, 1)));
            assert(val32(t1.subrange(1, 1)) == 0);
            assert(t1[0] == t[1]);
        } else {
            assert(val32(t1) == 0);
        }
    }
}
pub open spec fn imin(a: int, b: int) -> int { if a <= b { a } else { b } }
/// 64-bit digits that hold the words two by two (little-endian) have the base-2^32 value of the words
pub proof fn lemma_pack(d: Seq<u64>, w: Seq<u32>, n: nat)
    requires n <= d.len(), w.len() <= 2 * d.len(),
        forall|i: int| 0 <= i < d.len() ==> #[trigger] d[i] as nat == w32(w, 2 * i) + 0x1_0000_0000 * w32(w, 2 * i + 1)
    ensures valp(d, n) == val32(w.subrange(0, imin(2 * (n as int), w.len() as int)))
    decreases n
{
    if n == 0 {
        assert(val32(w.subrange(0, 0)) == 0);
    } else {
        let m = (n - 1) as nat;
        lemma_pack(d, w, m);
        let mi = m as int;
        let a = imin(2 * mi, w.len() as int);
        let b = imin(2 * (n as int), w.len() as int);
        let pre = w.subrange(0, a);
        let ch = w.subrange(a, b);
        assert(w.subrange(0, b) =~= pre + ch);
        lemma_val32_append(pre, ch);
        lemma_val32_small(ch);
        assert(d[mi] as nat == w32(w, 2 * mi) + 0x1_0000_0000 * w32(w, 2 * mi + 1));
        if 2 * m <= w.len() {
            lemma_pw32_pw(m);
            assert(w32(ch, 0) == w32(w, 2 * mi));
            assert(w32(ch, 1) == w32(w, 2 * mi + 1));
            assert(pre.len() == 2 * m);
            assert(val32(ch) == d[mi] as nat);
            assert(pw(m) * (d[mi] as nat) == (d[mi] as nat) * pw(m)) by (nonlinear_arith);
            assert(valp(d, n) == valp(d, m) + (d[mi] as nat) * pw(m));
        } else {
            assert(ch.len() == 0);
            assert(val32(ch) == 0);
            assert(pw32(pre.len()) * 0 == 0) by (nonlinear_arith);
            assert(d[mi] as nat == 0);
            assert(0 * pw(m) == 0) by (nonlinear_arith);
            assert(valp(d, n) == valp(d, m) + (d[mi] as nat) * pw(m));
        }
    }
}
