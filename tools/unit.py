"""Build one Verus unit file from a contract unit (contracts/units/<name>.rs) and /repo's tree,
run Verus on it, and classify the diagnostics.

Directives in a unit file (each on its own line):

  //@ include <path relative to contracts/>
  //@ extract <src file> :: <item path> [rules=R0,R1] [rename=<new fn name>] [label=<label>]
        [subst=$a=>self;$b=>other]  [props=C01,C14]
      ... annotated copy of the item (see rtok.split_annotated) ...
  //@ end
  //@ stub <unit>/<label>          external_body stub generated from that unit's annotated signature
  //@ assume <name> : <reason>     declares that the next external_body / assume_specification item is an
                                   assumed contract (listed in evidence); unlisted hatches make the run UNDECIDED
"""
import json
import os
import re
import subprocess
import time

import rtok

ROOT = os.path.dirname(os.path.dirname(os.path.abspath(__file__)))
CONTRACTS = os.path.join(ROOT, "contracts")
UNITS = os.path.join(CONTRACTS, "units")

VERIF_FAIL = re.compile(
    r"postcondition not satisfied|precondition not satisfied|invariant not satisfied|assertion failed|"
    r"possible arithmetic (under|over)flow|possible division by zero|decreases not satisfied|"
    r"possible bit shift|cannot show|could not prove|failed this postcondition|"
    r"loop invariant not satisfied|constructed value may fail|unreachable|might not be allowed|"
    r"possible truncation|recursive function may fail to terminate|may not terminate|"
    r"cannot prove termination|value may be out of range|index out of bounds|unable to prove|"
    r"closure .* (requires|ensures)|call to non-static function fails to satisfy")
RLIMIT = re.compile(r"[Rr]esource limit|rlimit|timed? ?out|time limit")


class UnitError(Exception):
    """Anchor lost / malformed unit: UNDECIDED, never a violation."""


def parse_kv(rest):
    kv = {}
    for m in re.finditer(r"(\w+)=(\S+)", rest):
        kv[m.group(1)] = m.group(2)
    return kv


def read_unit(name):
    path = os.path.join(UNITS, name + ".rs")
    with open(path) as f:
        return f.read()


def unit_sections(name):
    """Parse a unit file into a list of sections."""
    return parse_sections(read_unit(name), name)


def parse_sections(text, name):
    lines = text.split("\n")
    secs = []
    i = 0
    buf = []

    def flush():
        if buf:
            secs.append({"kind": "text", "text": "\n".join(buf) + "\n"})
            buf.clear()

    while i < len(lines):
        ln = lines[i]
        m = re.match(r"\s*//@\s*(\w+)\s*(.*)$", ln)
        if not m:
            buf.append(ln)
            i += 1
            continue
        cmd, rest = m.group(1), m.group(2).strip()
        if cmd == "include":
            flush()
            secs.append({"kind": "include", "path": rest})
        elif cmd == "extract":
            flush()
            mm = re.match(r"(\S+)\s*::\s*(.*?)((?:\s+\w+=\S+)*)\s*$", rest)
            if not mm:
                raise UnitError("bad extract directive: " + ln)
            src, spec, kvs = mm.group(1), mm.group(2).strip(), parse_kv(mm.group(3))
            j = i + 1
            body = []
            while j < len(lines) and not re.match(r"\s*//@\s*end\b", lines[j]):
                body.append(lines[j])
                j += 1
            if j >= len(lines):
                raise UnitError("unterminated extract in unit %s" % name)
            secs.append({"kind": "extract", "src": src, "spec": spec, "kv": kvs,
                         "annot": "\n".join(body) + "\n"})
            i = j
        elif cmd == "stub":
            flush()
            secs.append({"kind": "stub", "ref": rest.split()[0]})
        elif cmd == "assume":
            buf.append(ln)
        elif cmd in ("unit", "end", "note"):
            pass
        else:
            raise UnitError("unknown directive %s in %s" % (cmd, name))
        i += 1
    flush()
    return secs


def section_label(sec):
    kv = sec["kv"]
    if "label" in kv:
        return kv["label"]
    if "rename" in kv:
        return kv["rename"]
    last = sec["spec"].split(" :: ")[-1].split()
    return last[-1]


def annotated_signature(annot):
    """Text of the annotated copy up to (not including) the body's opening brace."""
    segs = rtok.split_annotated(annot)
    full = "".join(t for _, t in segs)
    toks = rtok.tokenize(full)  # markers are comments: ignored
    # find `fn`, then the first `{` at depth 0
    k = 0
    while toks[k].s != "fn":
        k += 1
    # the body is the brace group that closes the item (an `ensures` clause may contain `match .. { }`)
    last = len(toks) - 1
    while last >= 0 and toks[last].s != "}":
        last -= 1
    while k < len(toks):
        s = toks[k].s
        if s in ("(", "[", "{"):
            c = rtok.match_close(toks, k)
            if s == "{" and c == last:
                return full[:toks[k].a]
            k = c + 1
            continue
        k += 1
    raise UnitError("no body in annotated copy")


_sig_cache = {}


def stub_text(ref):
    uname, label = ref.split("/")
    if ref not in _sig_cache:
        for sec in unit_sections(uname):
            if sec["kind"] == "extract" and section_label(sec) == label:
                _sig_cache[ref] = annotated_signature(sec["annot"])
                break
        else:
            raise UnitError("stub target not found: " + ref)
    return "#[verifier::external_body]\n" + _sig_cache[ref].rstrip() + "\n{ unimplemented!() }\n"


def real_tokens(repo, sec, log):
    """Extract the item from the working tree and apply the enabled mechanical rules."""
    path = os.path.join(repo, sec["src"])
    try:
        with open(path) as f:
            text = f.read()
    except OSError as e:
        raise UnitError("anchor lost: cannot read %s (%s)" % (sec["src"], e))
    try:
        toks, span = rtok.extract(text, sec["spec"], with_attrs=sec["kv"].get("attrs") == "1")
    except rtok.ExtractError as e:
        raise UnitError(str(e))
    except ValueError as e:
        raise UnitError("anchor lost: %s" % e)
    ss = rtok.strs(toks)
    label = section_label(sec)
    kv = sec["kv"]
    ss = rtok.drop_attrs(ss)
    if "subst" in kv:
        subst = {}
        for item in kv["subst"].split(";"):
            a, b = item.split("=>")
            subst[a] = rtok.strs(rtok.tokenize(b.replace("~", " ")))
        ss = rtok.substitute(ss, subst)
        log.append({"rule": "R6", "function": label, "from": "macro parameters", "to": kv["subst"]})
    if "macro" in kv:
        for mname in kv["macro"].split(","):
            msrc = kv.get("macrosrc", sec["src"])
            with open(os.path.join(repo, msrc)) as f:
                mtext = f.read()
            try:
                ss = rtok.expand_macro(ss, mname, mtext, log, label)
            except rtok.ExtractError as e:
                raise UnitError(str(e))
    if "tysub" in kv:
        # R18: associated type written out (`Self::Item` of the trait impl the method is re-homed from)
        for item in kv["tysub"].split(";"):
            a, b = item.split("=>")
            at = rtok.strs(rtok.tokenize(a.replace("~", " ")))
            bt = rtok.strs(rtok.tokenize(b.replace("~", " ")))
            out_ss = []
            i = 0
            while i < len(ss):
                if ss[i:i + len(at)] == at:
                    out_ss.extend(bt)
                    i += len(at)
                    log.append({"rule": "R18", "function": label, "from": a, "to": b})
                else:
                    out_ss.append(ss[i])
                    i += 1
            ss = out_ss
    if "ufcs" in kv:
        ss = rtok.apply_ufcs(ss, kv["ufcs"].split(","), log, label)
    rules = [r for r in kv.get("rules", "R0").split(",") if r]
    for r in rules:
        if r == "R0":
            ss = rtok.apply_cfg_rule(ss, log, label)
        elif r == "R5":
            ss = rtok.apply_mut_self(ss, log, label)
        elif r == "R0d":
            ss = rtok.apply_cfg_digit_expr(ss, log, label)
        elif r == "R27":
            ss = rtok.apply_inline_closure(ss, log, label)
        elif r == "R39":
            ss = rtok.apply_cut_loop(ss, log, label)
        else:
            if r not in rtok.RULES:
                raise UnitError("unknown rewrite rule %s in the directive of %s" % (r, label))
            ss, n = rtok.RULES[r].apply(ss, log, label)
    if "rename" in kv:
        old = sec["spec"].split(" :: ")[-1].split()[-1]
        for k in range(len(ss) - 1):
            if ss[k] == "fn" and ss[k + 1] == old:
                ss[k + 1] = kv["rename"]
                log.append({"rule": "R8", "function": label, "from": "fn " + old, "to": "fn " + kv["rename"] + " (second instance: must-panic)"})
                break
    return ss, span



# ----------------------------------------------------------------------------- stub / SpecImpl consistency
# A stub of an operator-trait method carries the proved `ensures`; its precondition lives in the `*SpecImpl::*_req`
# block that each unit writes next to the impl. A weaker `_req` in the using unit would apply the proved contract
# outside the domain it was proved for, so the block (and every spec fn it mentions) must be token-identical to the
# one in the proving unit.

def _flat_text(secs):
    out = []
    for sec in secs:
        k = sec["kind"]
        if k == "text":
            out.append(sec["text"])
        elif k == "include":
            with open(os.path.join(CONTRACTS, sec["path"])) as f:
                inc = f.read()
            out.append(_flat_text(parse_sections(inc if inc.endswith("\n") else inc + "\n", sec["path"])))
        elif k == "extract":
            out.append("/*@@extract %s@@*/\n" % section_label(sec))
            out.append("".join(t for _, t in rtok.split_annotated(sec["annot"])))
        elif k == "stub":
            out.append("/*@@stub %s@@*/\n" % sec["ref"])
    return "".join(out)


_flat_cache = {}


def _unit_flat(uname):
    if uname not in _flat_cache:
        _flat_cache[uname] = _flat_text(unit_sections(uname))
    return _flat_cache[uname]


def _enclosing_impl_header(text, marker):
    """Header tokens of the `impl ... {` that directly encloses the position of `marker` (or None)."""
    pos = text.find(marker)
    if pos < 0:
        return None
    toks = rtok.tokenize(text[:pos])
    ss = rtok.strs(toks)
    depth = 0
    k = len(ss) - 1
    while k >= 0:
        if ss[k] in ("}", ")", "]"):
            depth += 1
        elif ss[k] in ("{", "(", "["):
            if depth == 0:
                if ss[k] != "{":
                    return None
                # walk back to the start of the item header
                j = k - 1
                while j >= 0 and ss[j] not in (";", "}", "{"):
                    j -= 1
                hdr = ss[j + 1:k]
                while hdr and hdr[0] != "impl":
                    hdr = hdr[1:]
                return hdr if hdr and hdr[0] == "impl" else None
            depth -= 1
        k -= 1
    return None


def _find_block(text, header):
    """Tokens of the first item `header { ... }` in text (or None)."""
    ss = rtok.strs(rtok.tokenize(text))
    toks = rtok.tokenize(text)
    n = len(header)
    for i in range(len(ss) - n):
        if ss[i:i + n] == header and ss[i + n] == "{":
            e = rtok.match_close(toks, i + n)
            return ss[i:e + 1]
    return None


def _spec_fn_defs(text):
    ss = rtok.strs(rtok.tokenize(text))
    toks = rtok.tokenize(text)
    defs = {}
    for i in range(len(ss) - 3):
        if ss[i] == "spec" and ss[i + 1] == "fn":
            name = ss[i + 2]
            k = i + 3
            while k < len(ss) and ss[k] != "{" and ss[k] != ";":
                if ss[k] in ("(", "["):
                    k = rtok.match_close(toks, k)
                k += 1
            if k < len(ss) and ss[k] == "{":
                e = rtok.match_close(toks, k)
                defs.setdefault(name, []).append(ss[i:e + 1])
    return defs


def check_stub_specimpl(ref, woven_text):
    uname, label = ref.split("/")
    src = _unit_flat(uname)
    hdr = _enclosing_impl_header(src, "/*@@extract %s@@*/" % label)
    if not hdr or "for" not in hdr:
        return
    # `impl [<..>] Trait<Args> for Type`  ->  `impl [<..>] TraitSpecImpl<Args> for Type`
    k = 1
    if hdr[k] == "<":
        d = 0
        while True:
            if hdr[k] == "<":
                d += 1
            elif hdr[k] == ">":
                d -= 1
                if d == 0:
                    break
            k += 1
        k += 1
    trait_pos = k
    # path prefix (a :: b :: Trait)
    while trait_pos + 2 < len(hdr) and hdr[trait_pos + 1] == "::":
        trait_pos += 2
    trait = hdr[trait_pos]
    variants = []
    for prefix in ([], ["vstd", "::", "std_specs", "::", "ops", "::"], ["vstd", "::", "std_specs", "::", "convert", "::"], ["vstd", "::", "std_specs", "::", "cmp", "::"]):
        variants.append(hdr[:k] + prefix + [trait + "SpecImpl"] + hdr[trait_pos + 1:])
    blk = None
    for v in variants:
        blk = _find_block(src, v)
        if blk:
            break
    if not blk:
        return          # no SpecImpl in the proving unit: the impl has no precondition there (Verus default: none)
    mine = None
    for v in variants:
        mine = _find_block(woven_text, v)
        if mine:
            break
    def body(b):
        return b[b.index("{"):]
    if mine is None:
        raise UnitError("stub %s: the proving unit declares %s but this unit does not" % (ref, " ".join(variants[0])))
    if body(mine) != body(blk):
        raise UnitError("stub %s: `%s` differs from the block in the proving unit %s (a different *_req would apply the proved contract outside its proved domain)" % (ref, " ".join(variants[0]), uname))
    src_defs = _spec_fn_defs(src)
    my_defs = _spec_fn_defs(woven_text)
    for i, t in enumerate(blk[:-1]):
        if blk[i + 1] == "(" and t in src_defs and (i == 0 or blk[i - 1] != "fn") and t not in ("wf", "v", "wfi", "iv", "dg", "sg", "mag", "mp"):
            if t not in my_defs or my_defs[t][0] != src_defs[t][0]:
                raise UnitError("stub %s: spec fn `%s` used by its precondition is defined differently here than in unit %s" % (ref, t, uname))

def build(name, repo, outdir, hints=True):
    """Weave unit `name`. Returns dict(path, functions=[...], rewrites, assumptions, linemap).
    hints: add `@eqv-hint` bit-vector equality obligations for expression-level edits (rtok.add_eqv_hints)."""
    out = []
    funcs = []
    rewrites = []
    eqv = []

    def cur_line():
        return "".join(out).count("\n") + 1

    def emit_sections(secs, top):
        for sec in secs:
            k = sec["kind"]
            if k == "text":
                out.append(sec["text"])
            elif k == "include":
                with open(os.path.join(CONTRACTS, sec["path"])) as f:
                    inc = f.read()
                out.append("// ---- include %s\n" % sec["path"])
                emit_sections(parse_sections(inc if inc.endswith("\n") else inc + "\n", sec["path"]), False)
            elif k == "stub":
                l0 = cur_line()
                out.append("// ---- stub %s (contract proved in that unit)\n" % sec["ref"])
                out.append(stub_text(sec["ref"]))
                funcs.append({"label": sec["ref"], "kind": "stub", "lines": [l0, cur_line() - 1]})
            elif k == "extract":
                label = section_label(sec)
                ss, span = real_tokens(repo, sec, rewrites)
                base_ss = rtok.strs(rtok.base_tokens(rtok.split_annotated(sec["annot"])))
                if ss != base_ss and ss.count("loop") > base_ss.count("loop") and ss.count("while") < base_ss.count("while"):
                    ss2, nn = rtok.norm_loop_break(ss)
                    if nn:
                        ss = ss2
                        rewrites.append({"rule": "RN1", "function": label, "from": "loop { if C { break; } B }",
                                         "to": "while !(C) { B }  (%d loop(s); the annotated base has `while` there: definitional unfolding of `while`)" % nn})
                annot, hs = sec["annot"], []
                if hints:
                    try:
                        annot, hs = rtok.add_eqv_hints(sec["annot"], ss)
                    except Exception:
                        annot, hs = sec["annot"], []
                woven, info = rtok.transplant(annot, ss)
                if rtok.erase(woven) != ss:
                    if hs:      # a hint that disturbs the weave is simply not used
                        annot, hs = sec["annot"], []
                        woven, info = rtok.transplant(annot, ss)
                    if rtok.erase(woven) != ss:
                        raise UnitError("erasure mismatch in %s/%s" % (name, label))
                for h in hs:
                    eqv.append(dict(h, function=label))
                    rewrites.append({"rule": "EQV", "function": label, "from": h["old"],
                                     "to": h["new"] + "  [not a rewrite of the code: the equality of the edited expression with the annotated one is added as a bit-vector proof obligation in front of the statement; dropped if it does not verify]"})
                l0 = cur_line()
                out.append("// ---- extracted %s :: %s  (%s)\n" % (sec["src"], sec["spec"],
                           "identical to annotated base" if info["identical"] else
                           "CHANGED: %d edit(s), %d displaced annotation(s), %d proof hint(s) dropped with deleted code" % (info["edits"], info["displaced"], info.get("dropped", 0))))
                out.append(woven if woven.endswith("\n") else woven + "\n")
                funcs.append({"label": label, "kind": "extract", "src": sec["src"], "spec": sec["spec"],
                              "lines": [l0, cur_line() - 1], "info": info, "src_span": list(span),
                              "props": sec["kv"].get("props", "").split(",") if sec["kv"].get("props") else [],
                              "item_kind": "type" if sec["spec"].split(" :: ")[-1].split()[0] in ("struct", "enum", "type", "const") else "fn"})

    emit_sections(unit_sections(name), True)
    text = "".join(out)
    for fn in funcs:
        if fn["kind"] == "stub":
            check_stub_specimpl(fn["label"], text)
    os.makedirs(outdir, exist_ok=True)
    path = os.path.join(outdir, name + ".rs")
    with open(path, "w") as f:
        f.write(text)
    # assumption scan
    assumptions = []
    lines = text.split("\n")
    declared = {}
    for i, ln in enumerate(lines):
        m = re.match(r"\s*//@\s*assume\s+(\S+)\s*:\s*(.*)$", ln)
        if m:
            declared[i] = (m.group(1), m.group(2))
    hatch = re.compile(r"external_body|assume_specification|\bassume\s*\(|\badmit\s*\(|external_fn_specification|#\[verifier::external\b|external_type_specification|external_trait_specification|#\[verifier::(truncate|trusted)")
    unlisted = []
    stub_lines = set()
    for fn in funcs:
        if fn["kind"] == "stub":
            stub_lines.update(range(fn["lines"][0], fn["lines"][1] + 1))
    for i, ln in enumerate(lines):
        if ln.lstrip().startswith("//"):
            continue
        if hatch.search(ln):
            if (i + 1) in stub_lines:
                continue
            # look back up to 6 lines for a declaration
            d = None
            for b in range(1, 7):
                if (i - b) in declared:
                    d = declared[i - b]
                    break
            if d:
                assumptions.append({"name": d[0], "reason": d[1], "line": i + 1})
            else:
                unlisted.append({"line": i + 1, "text": ln.strip()})
    hint_lines = [i + 1 for i, ln in enumerate(lines) if rtok.EQV_MARK in ln]
    return {"unit": name, "path": path, "functions": funcs, "rewrites": rewrites,
            "assumptions": assumptions, "unlisted_hatches": unlisted, "text": text,
            "eqv_hints": eqv, "hint_lines": hint_lines}


def run_verus(path, rlimit=None, seed=None, timeout=900, extra=None):
    cmd = ["verus", path, "--output-json", "--time", "--error-format=json"]
    if rlimit:
        cmd += ["--rlimit", str(rlimit)]
    if seed:
        cmd += ["--smt-option", "smt.random_seed=%d" % (seed % 100000)]
    if extra:
        cmd += extra
    t0 = time.time()
    try:
        p = subprocess.run(cmd, capture_output=True, text=True, timeout=timeout, cwd=os.path.dirname(path))
        rc, so, se = p.returncode, p.stdout, p.stderr
    except subprocess.TimeoutExpired as e:
        rc, so, se = -9, (e.stdout or b"").decode() if isinstance(e.stdout, bytes) else (e.stdout or ""), "TIMEOUT"
    wall = time.time() - t0
    res = {"cmd": " ".join(cmd), "rc": rc, "wall_s": wall, "diagnostics": [], "functions": [], "verified": 0, "errors": 0,
           "raw_stderr": se[-20000:]}
    try:
        j = json.loads(so[so.index("{"):]) if "{" in so else {}
    except Exception:
        j = {}
    vr = j.get("verification-results", {})
    res["verified"] = vr.get("verified", 0)
    res["errors"] = vr.get("errors", 0)
    res["success"] = bool(vr.get("success"))
    res["vir_error"] = bool(vr.get("encountered-vir-error"))
    try:
        for mt in j["times-ms"]["smt"]["smt-run-module-times"]:
            for fb in mt.get("function-breakdown", []):
                res["functions"].append({"function": fb["function"], "mode": fb.get("mode:"), "ms": fb["time"],
                                         "rlimit": fb.get("rlimit"), "success": fb["success"]})
        res["smt_ms"] = j["times-ms"]["smt"]["total"]
    except Exception:
        res["smt_ms"] = 0
    for ln in se.split("\n"):
        ln = ln.strip()
        if not ln.startswith("{"):
            continue
        try:
            d = json.loads(ln)
        except Exception:
            continue
        if d.get("level") not in ("error",):
            continue
        msg = d.get("message", "")
        if msg.startswith("aborting due to"):
            continue
        line = None
        text = ""
        for sp in d.get("spans", []):
            if sp.get("is_primary") and os.path.basename(sp.get("file_name", "")) == os.path.basename(path):
                line = sp["line_start"]
                text = (sp.get("text") or [{}])[0].get("text", "").strip()
        if line is None:
            for sp in d.get("spans", []):
                if os.path.basename(sp.get("file_name", "")) == os.path.basename(path):
                    line = sp["line_start"]
                    text = (sp.get("text") or [{}])[0].get("text", "").strip()
        secondary = []
        for sp in d.get("spans", []):
            if not sp.get("is_primary"):
                t = (sp.get("text") or [{}])
                secondary.append({"file": sp.get("file_name"), "line": sp.get("line_start"), "label": sp.get("label"),
                                  "text": (t[0].get("text", "").strip() if t else "")})
        if d.get("code"):
            cls = "tool"
        elif RLIMIT.search(msg):
            cls = "rlimit"
        elif VERIF_FAIL.search(msg):
            cls = "obligation"
        else:
            cls = "tool"
        res["diagnostics"].append({"class": cls, "message": msg, "line": line, "text": text, "secondary": secondary,
                                   "rendered": d.get("rendered", "")})
    if rc != 0 and not res["diagnostics"]:
        res["diagnostics"].append({"class": "tool", "message": "verus exited %s without diagnostics: %s" % (rc, se[-400:]),
                                   "line": None, "text": "", "secondary": [], "rendered": se[-2000:]})
    return res


def attribute(built, res):
    """Attach each diagnostic to the function section its line falls in."""
    for d in res["diagnostics"]:
        d["function"] = None
        d["fkind"] = None
        if d["line"] is None:
            continue
        for fn in built["functions"]:
            if fn["lines"][0] <= d["line"] <= fn["lines"][1]:
                d["function"] = fn["label"]
                d["fkind"] = fn["kind"]
                d["changed"] = not fn.get("info", {}).get("identical", True)
                d["displaced"] = fn.get("info", {}).get("displaced", 0)
                break
    return res


if __name__ == "__main__":
    import sys
    repo = os.environ.get("VERIF_REPO", "/repo")
    name = sys.argv[1]
    b = build(name, repo, os.path.join(ROOT, "build", "dev"))
    print("woven:", b["path"], "functions:", [(f["label"], f["kind"]) for f in b["functions"]])
    print("unlisted:", b["unlisted_hatches"])
    r = attribute(b, run_verus(b["path"], extra=sys.argv[2:]))
    if b.get("hint_lines"):
        print("eqv hints:", b["eqv_hints"])
        if [d for d in r["diagnostics"] if d["class"] != "obligation" or d.get("line") in set(b["hint_lines"])]:
            print("eqv hints not discharged -> re-woven without them")
            b = build(name, repo, os.path.join(ROOT, "build", "dev"), hints=False)
            r = attribute(b, run_verus(b["path"], extra=sys.argv[2:]))
    print("rc", r["rc"], "verified", r["verified"], "errors", r["errors"], "wall %.1f" % r["wall_s"])
    for d in r["diagnostics"]:
        print("[%s] %s fn=%s" % (d["class"], d["message"], d["function"]))
        print(d["rendered"])
    for f in sorted(r["functions"], key=lambda f: -f["ms"])[:8]:
        print("  %6d ms %s %s" % (f["ms"], f["function"], f["success"]))
