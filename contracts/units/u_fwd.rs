//@ unit u_fwd : macro-generated BigUint operator forwarders proved from their macro bodies (src/macros.rs instances used by src/biguint/*.rs)
#![feature(allocator_api)]
use vstd::prelude::*;
use vstd::std_specs::iter::IteratorSpec;
use vstd::std_specs::ops::*;
use core::ops::{Add, Sub, Rem, Div, Mul, RemAssign};
verus! {
//@ include prelude/core.rs
//@ include prelude/std_specs.rs
//@ include prelude/panic.rs
pub mod u {
use super::*;

//@ extract src/biguint.rs :: struct BigUint
pub struct BigUint {
    data: Vec<BigDigit>,
}
//@ end
//@ include prelude/biguint_view.rs
pub open spec fn udiv_ok(a: nat, b: nat, q: nat, m: nat) -> bool { a == q * b + m && m < b }
impl AddSpecImpl<&BigUint> for BigUint {
    open spec fn obeys_add_spec() -> bool { false }
    open spec fn add_req(self, rhs: &BigUint) -> bool { self.wf() && rhs.wf() }
    open spec fn add_spec(self, rhs: &BigUint) -> BigUint { arbitrary() }
}
impl SubSpecImpl<&BigUint> for BigUint {
    open spec fn obeys_sub_spec() -> bool { false }
    open spec fn sub_req(self, rhs: &BigUint) -> bool { self.wf() && rhs.wf() && (!mp() ==> self.v() >= rhs.v()) }
    open spec fn sub_spec(self, rhs: &BigUint) -> BigUint { arbitrary() }
}
impl BigUint {
    // contract-only re-homing of `IntDigits::capacity` (crate-private trait)
//@ extract src/biguint.rs :: impl IntDigits for BigUint :: fn capacity props=C10
    fn capacity(&self) -> /*+*/(r: /*-*/usize/*+*/)/*-*/
    {
        self.data.capacity()
    }
//@ end
}
impl Add<&BigUint> for BigUint {
    type Output = BigUint;
//@ stub u_addsub/add_val_ref
}
impl Sub<&BigUint> for BigUint {
    type Output = BigUint;
//@ stub u_addsub/sub_val_ref
}
impl RemSpecImpl<&BigUint> for &BigUint {
    open spec fn obeys_rem_spec() -> bool { false }
    open spec fn rem_req(self, rhs: &BigUint) -> bool { self.wf() && rhs.wf() && (!mp() ==> rhs.v() != 0) }
    open spec fn rem_spec(self, rhs: &BigUint) -> BigUint { arbitrary() }
}
impl Rem<&BigUint> for &BigUint {
    type Output = BigUint;
//@ stub u_divscalar/rem_ref_ref
}

impl AddSpecImpl<BigUint> for BigUint {
    open spec fn obeys_add_spec() -> bool { false }
    open spec fn add_req(self, rhs: BigUint) -> bool { self.wf() && rhs.wf() }
    open spec fn add_spec(self, rhs: BigUint) -> BigUint { arbitrary() }
}
impl Add<BigUint> for BigUint {
    type Output = BigUint;
//@ extract src/macros.rs :: macro_rules! forward_val_val_binop_commutative :: arm 0 :: fn $method subst=$imp=>Add;$res=>BigUint;$method=>add props=C10,C01 label=add_val_val
    fn add(self, other: BigUint) -> /*+*/(r: /*-*/BigUint/*+*/)/*-*/
//+{
        ensures r.wf(), r.v() == self.v() + other.v()
//+}
    {
        // forward to val-ref, with the larger capacity as val
        if self.capacity() >= other.capacity() {
            Add::add(self, &other)
        } else {
            Add::add(other, &self)
        }
    }
//@ end
}
impl SubSpecImpl<BigUint> for BigUint {
    open spec fn obeys_sub_spec() -> bool { false }
    open spec fn sub_req(self, rhs: BigUint) -> bool { self.wf() && rhs.wf() && (!mp() ==> self.v() >= rhs.v()) }
    open spec fn sub_spec(self, rhs: BigUint) -> BigUint { arbitrary() }
}
impl Sub<BigUint> for BigUint {
    type Output = BigUint;
//@ extract src/macros.rs :: macro_rules! forward_val_val_binop :: arm 0 :: fn $method subst=$imp=>Sub;$res=>BigUint;$method=>sub props=C10,C01,C14 label=sub_val_val
    fn sub(self, other: BigUint) -> /*+*/(r: /*-*/BigUint/*+*/)/*-*/
//+{
        ensures r.wf(), mp() ==> self.v() >= other.v(), r.v() + other.v() == self.v()
//+}
    {
        // forward to val-ref
        Sub::sub(self, &other)
    }
//@ end
}
impl RemSpecImpl<&BigUint> for BigUint {
    open spec fn obeys_rem_spec() -> bool { false }
    open spec fn rem_req(self, rhs: &BigUint) -> bool { self.wf() && rhs.wf() && (!mp() ==> rhs.v() != 0) }
    open spec fn rem_spec(self, rhs: &BigUint) -> BigUint { arbitrary() }
}
impl Rem<&BigUint> for BigUint {
    type Output = BigUint;
//@ extract src/macros.rs :: macro_rules! forward_val_ref_binop :: arm 0 :: fn $method subst=$imp=>Rem;$res=>BigUint;$method=>rem props=C10,C03,C14 label=rem_val_ref
    fn rem(self, other: &BigUint) -> /*+*/(r: /*-*/BigUint/*+*/)/*-*/
//+{
        ensures mp() ==> other.v() != 0, r.wf(), exists|q: nat| udiv_ok(self.v(), other.v(), q, r.v())
//+}
    {
        // forward to ref-ref
        Rem::rem(&self, other)
    }
//@ end
}
impl AddSpecImpl<BigUint> for &BigUint {
    open spec fn obeys_add_spec() -> bool { false }
    open spec fn add_req(self, rhs: BigUint) -> bool { self.wf() && rhs.wf() }
    open spec fn add_spec(self, rhs: BigUint) -> BigUint { arbitrary() }
}
impl Add<BigUint> for &BigUint {
    type Output = BigUint;
//@ extract src/macros.rs :: macro_rules! forward_ref_val_binop_commutative :: arm 0 :: fn $method subst=$imp=>Add;$res=>BigUint;$method=>add props=C10,C01 label=add_ref_val
    fn add(self, other: BigUint) -> /*+*/(r: /*-*/BigUint/*+*/)/*-*/
//+{
        ensures r.wf(), r.v() == self.v() + other.v()
//+}
    {
        // reverse, forward to val-ref
        Add::add(other, self)
    }
//@ end
}

// ---- Div<BigUint> for &BigUint -> Div<&BigUint> for &BigUint
impl DivSpecImpl<&BigUint> for &BigUint {
    open spec fn obeys_div_spec() -> bool { false }
    open spec fn div_req(self, rhs: &BigUint) -> bool { self.wf() && rhs.wf() && (!mp() ==> rhs.v() != 0) }
    open spec fn div_spec(self, rhs: &BigUint) -> BigUint { arbitrary() }
}
impl Div<&BigUint> for &BigUint {
    type Output = BigUint;
//@ stub u_divapi/div_ref_ref
}
impl DivSpecImpl<BigUint> for &BigUint {
    open spec fn obeys_div_spec() -> bool { false }
    open spec fn div_req(self, rhs: BigUint) -> bool { self.wf() && rhs.wf() && (!mp() ==> rhs.v() != 0) }
    open spec fn div_spec(self, rhs: BigUint) -> BigUint { arbitrary() }
}
impl Div<BigUint> for &BigUint {
    type Output = BigUint;
//@ extract src/macros.rs :: macro_rules! forward_ref_val_binop :: arm 0 :: fn $method subst=$imp=>Div;$res=>BigUint;$method=>div props=C10,C03,C14 label=div_ref_val
    fn div(self, other: BigUint) -> /*+*/(r: /*-*/BigUint/*+*/)/*-*/
//+{
        ensures mp() ==> other.v() != 0, r.wf(), exists|m: nat| udiv_ok(self.v(), other.v(), r.v(), m)
//+}
    {
        // forward to ref-ref
        Div::div(self, &other)
    }
//@ end
}

// ---- u32 * &BigUint -> u32 * BigUint -> BigUint * u32
impl BigUint {
//@ stub u_core/clone
}
impl MulSpecImpl<u32> for BigUint {
    open spec fn obeys_mul_spec() -> bool { false }
    open spec fn mul_req(self, rhs: u32) -> bool { self.wf() }
    open spec fn mul_spec(self, rhs: u32) -> BigUint { arbitrary() }
}
impl Mul<u32> for BigUint {
    type Output = BigUint;
//@ stub u_scalar/mul_u32
}
impl MulSpecImpl<BigUint> for u32 {
    open spec fn obeys_mul_spec() -> bool { false }
    open spec fn mul_req(self, rhs: BigUint) -> bool { rhs.wf() }
    open spec fn mul_spec(self, rhs: BigUint) -> BigUint { arbitrary() }
}
impl Mul<BigUint> for u32 {
    type Output = BigUint;
//@ extract src/macros.rs :: macro_rules! forward_scalar_val_val_binop_commutative :: arm 0 :: fn $method subst=$imp=>Mul;$res=>BigUint;$method=>mul;$scalar=>u32 props=C10,C02 label=u32_mul_val
    fn mul(self, other: BigUint) -> /*+*/(r: /*-*/BigUint/*+*/)/*-*/
//+{
        ensures r.wf(), r.v() == (self as nat) * other.v()
//+}
    {
//+{
        proof { assert((self as nat) * other.v() == other.v() * (self as nat)) by (nonlinear_arith); }
//+}
        Mul::mul(other, self)
    }
//@ end
}
impl MulSpecImpl<&BigUint> for u32 {
    open spec fn obeys_mul_spec() -> bool { false }
    open spec fn mul_req(self, rhs: &BigUint) -> bool { rhs.wf() }
    open spec fn mul_spec(self, rhs: &BigUint) -> BigUint { arbitrary() }
}
impl Mul<&BigUint> for u32 {
    type Output = BigUint;
//@ extract src/macros.rs :: macro_rules! forward_scalar_ref_val_binop_to_val_val :: arm 0 :: impl $imp<&$res> for $scalar :: fn $method subst=$imp=>Mul;$res=>BigUint;$method=>mul;$scalar=>u32 props=C10,C02 label=u32_mul_ref
    fn mul(self, other: &BigUint) -> /*+*/(r: /*-*/BigUint/*+*/)/*-*/
//+{
        ensures r.wf(), r.v() == (self as nat) * other.v()
//+}
    {
        Mul::mul(self, other.clone())
    }
//@ end
}

impl RemAssignSpecImpl<&BigUint> for BigUint {
    open spec fn obeys_rem_assign_spec() -> bool { false }
    open spec fn rem_assign_req(&self, rhs: &BigUint) -> bool { self.wf() && rhs.wf() && (!mp() ==> rhs.v() != 0) }
    open spec fn rem_assign_spec(&self, rhs: &BigUint) -> &BigUint { arbitrary() }
}
impl RemAssign<&BigUint> for BigUint {
//@ extract src/biguint/division.rs :: impl RemAssign<&BigUint> for BigUint :: fn rem_assign rules=R0,R3zr props=C10,C03,C14 label=rem_assign_ref
    fn rem_assign(&mut self, other: &BigUint)
//+{
        ensures mp() ==> other.v() != 0, final(self).wf(), exists|q: nat| udiv_ok(old(self).v(), other.v(), q, final(self).v())
//+}
    {
        *self = Rem::rem(&*self, other);
    }
//@ end
}

} // mod u
} // verus!
fn main() {}
