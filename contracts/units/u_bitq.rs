//@ unit u_bitq : BigUint bit queries and updates at value level: trailing_zeros, bit, set_bit (src/biguint.rs)
#![feature(allocator_api)]
use vstd::prelude::*;
use vstd::std_specs::iter::IteratorSpec;
use vstd::arithmetic::power2::pow2;
verus! {
//@ include prelude/core.rs
//@ include prelude/std_specs.rs
//@ include prelude/highbits.rs
//@ include prelude/bitval.rs
pub mod u {
use super::*;

pub mod big_digit {
    use vstd::prelude::*;
    pub type BigDigit = u64;
//@ extract src/lib.rs :: mod big_digit :: const BITS
    pub(crate) const BITS: u8 = BigDigit::BITS as u8;
//@ end
}

//@ extract src/biguint.rs :: struct BigUint
pub struct BigUint {
    data: Vec<BigDigit>,
}
//@ end
//@ include prelude/biguint_view.rs
pub open spec fn p2(k: nat) -> nat { pow2(k) }

/// a non-zero digit is 2^tz times an odd number
pub proof fn lemma_tz_digit(d: u64)
    requires d != 0
    ensures ({
        let tz = vstd::std_specs::bits::u64_trailing_zeros(d) as nat;
        &&& tz < 64
        &&& (d as nat) % p2(tz) == 0
        &&& ((d as nat) / p2(tz)) % 2 == 1
    })
{
    vstd::std_specs::bits::axiom_u64_trailing_zeros(d);
    let tz = vstd::std_specs::bits::u64_trailing_zeros(d);
    let t = tz as u64;
    assert(t < 64);
    let o = d >> t;
    assert(o & 1 == 1);
    assert(((d >> t) << t) == d) by (bit_vector)
        requires t < 64, forall|j: u64| j < t ==> #[trigger] ((d >> j) & 1) == 0;
    assert((o & 1 == 1) == (o % 2 == 1)) by (bit_vector);
    vstd::bits::lemma_u64_shr_is_div(d, t);
    vstd::arithmetic::power2::lemma_pow2_pos(t as nat);
    // o * 2^t == d  (no overflow since (o << t) >> t == o)
    assert(((o << t) >> t) == o) by (bit_vector) requires t < 64, o == d >> t;
    lemma_shl_no_overflow_(o, t);
    assert((o as nat) * p2(t as nat) == d as nat);
    vstd::arithmetic::div_mod::lemma_mod_multiples_basic(o as int, p2(t as nat) as int);
}

/// if (t << l) >> l == t then t * 2^l == t << l (no overflow)
pub proof fn lemma_shl_no_overflow_(t: u64, l: u64)
    requires l < 64, ((t << l) >> l) == t
    ensures (t as nat) * p2(l as nat) == (t << l) as nat
{
    vstd::arithmetic::power2::lemma2_to64();
    assert(t <= (0xffff_ffff_ffff_ffffu64 >> l)) by (bit_vector) requires l < 64, ((t << l) >> l) == t;
    vstd::bits::lemma_u64_shr_is_div(0xffff_ffff_ffff_ffffu64, l);
    let m = (0xffff_ffff_ffff_ffffu64 >> l) as nat;
    let p = p2(l as nat);
    vstd::arithmetic::power2::lemma_pow2_pos(l as nat);
    vstd::arithmetic::div_mod::lemma_fundamental_div_mod(0xffff_ffff_ffff_ffffint, p as int);
    assert(m * p <= 0xffff_ffff_ffff_ffffnat) by (nonlinear_arith)
        requires 0xffff_ffff_ffff_ffffint == (p as int) * (m as int) + (0xffff_ffff_ffff_ffffint % (p as int)), 0xffff_ffff_ffff_ffffint % (p as int) >= 0;
    assert((t as nat) * p <= m * p) by (nonlinear_arith) requires (t as nat) <= m;
    vstd::bits::lemma_u64_shl_is_mul(t, l);
}

/// lowest non-zero digit i with tz trailing zero bits: the value is 2^(64 i + tz) times an odd number
pub proof fn lemma_tz_value(s: Seq<u64>, i: nat)
    requires i < s.len(), s[i as int] != 0, forall|j: int| 0 <= j < i ==> s[j] == 0
    ensures ({
        let t = 64 * i + vstd::std_specs::bits::u64_trailing_zeros(s[i as int]) as nat;
        &&& val(s) % p2(t) == 0
        &&& bitv(val(s), t)
        &&& val(s) != 0
    })
{
    let d = s[i as int];
    let tz = vstd::std_specs::bits::u64_trailing_zeros(d) as nat;
    let t = 64 * i + tz;
    let hi = val(s.subrange(i as int + 1, s.len() as int));
    let v = val(s);
    lemma_tz_digit(d);
    lemma_digit_split(s, i);
    lemma_valp_zeros(s, i);
    lemma_shift_out(v, 0, i, d as nat, hi, tz);
    let ptz = p2(tz); let pc = p2((64 - tz) as nat); let o = (d as nat) / ptz;
    // parity of the quotient
    let h2 = pc / 2;
    vstd::arithmetic::div_mod::lemma_fundamental_div_mod(pc as int, 2);
    assert(pc * hi == 2 * (h2 * hi)) by (nonlinear_arith) requires pc == 2 * h2;
    vstd::arithmetic::div_mod::lemma_mod_multiples_vanish((h2 * hi) as int, o as int, 2);
    // v is a multiple of 2^t
    lemma_pw_p2_(i);
    vstd::arithmetic::power2::lemma_pow2_adds(64 * i, tz);
    vstd::arithmetic::power2::lemma_pow2_adds(tz, (64 - tz) as nat);
    vstd::arithmetic::power2::lemma2_to64();
    vstd::arithmetic::power2::lemma_pow2_pos(tz);
    vstd::arithmetic::power2::lemma_pow2_pos(t);
    vstd::arithmetic::div_mod::lemma_fundamental_div_mod(d as int, ptz as int);
    assert(v == (o + pc * hi) * p2(t)) by (nonlinear_arith)
        requires v == pw(i) * ((d as nat) + B() * hi), d as nat == ptz * o, ptz * pc == B(), p2(t) == pw(i) * ptz;
    vstd::arithmetic::div_mod::lemma_mod_multiples_basic((o + pc * hi) as int, p2(t) as int);
    lemma_pw_pos(i);
    assert(v >= 1) by (nonlinear_arith) requires v == (o + pc * hi) * p2(t), p2(t) >= 1, o % 2 == 1;
}

impl BigUint {
//@ extract src/biguint.rs :: impl BigUint :: fn trailing_zeros rules=R0,R12b,R3k props=C07,C13
    pub fn trailing_zeros(&self) -> /*+*/(r: /*-*/Option<u64>/*+*/)/*-*/
//+{
        ensures r is None <==> self.v() == 0,
            r is Some ==> self.v() % p2(r.unwrap() as nat) == 0 && bitv(self.v(), r.unwrap() as nat),
            r is Some ==> ({
                let t = r.unwrap() as nat; let i = (t / 64) as int;
                &&& i < self.dg().len()
                &&& forall|j: int| 0 <= j < i ==> self.dg()[j] == 0
                &&& self.dg()[i] != 0
                &&& t % 64 == vstd::std_specs::bits::u64_trailing_zeros(self.dg()[i]) as nat
            }),
//+}
    {
//+{
        proof { axiom_vec_u64_len(&self.data); if forall|j: int| 0 <= j < self.data@.len() ==> self.data@[j] == 0 { lemma_valp_zeros(self.data@, self.data@.len()); } }
//+}
        let i = __pos_nz(&self.data)?;
//+{
        proof { lemma_tz_value(self.data@, i as nat); lemma_tz_digit(self.data@[i as int]); }
//+}
        let zeros: u64 = From::from(self.data[i].trailing_zeros());
        Some(i as u64 * u64::from(big_digit::BITS) + zeros)
    }
//@ end
}

// local model of num_traits::ToPrimitive::to_usize on u64 (external crate): Some(v) iff the value fits usize
pub trait ToPrimitive: Sized {
    spec fn as_int(self) -> int;
    fn to_usize(self) -> (r: Option<usize>)
        ensures r is Some <==> 0 <= self.as_int() <= usize::MAX, r is Some ==> r.unwrap() as int == self.as_int();
}
impl ToPrimitive for u64 {
    open spec fn as_int(self) -> int { self as int }
    //@ assume num_traits::<u64 as ToPrimitive>::to_usize : external crate; contract on the trait declaration above
    #[verifier::external_body]
    fn to_usize(self) -> (r: Option<usize>) { unimplemented!() }
}

pub proof fn lemma_mask_bit(d: u64, b: u64)
    requires b < 64
    ensures ((d & (1u64 << b)) != 0) == ((d >> b) & 1 == 1),
        (d >> b) & 1 == 1 ==> (d | (1u64 << b)) == d && (d & !(1u64 << b)) == sub(d, 1u64 << b) && d >= (1u64 << b),
        (d >> b) & 1 != 1 ==> (d | (1u64 << b)) == add(d, 1u64 << b) && (d & !(1u64 << b)) == d && d <= u64::MAX - (1u64 << b),
        (1u64 << b) != 0,
{
    assert(((d & (1u64 << b)) != 0) == ((d >> b) & 1 == 1)) by (bit_vector) requires b < 64;
    assert((d >> b) & 1 == 1 ==> (d | (1u64 << b)) == d && (d & !(1u64 << b)) == sub(d, 1u64 << b) && d >= (1u64 << b)) by (bit_vector) requires b < 64;
    assert((d >> b) & 1 != 1 ==> (d | (1u64 << b)) == add(d, 1u64 << b) && (d & !(1u64 << b)) == d && d <= 0xffff_ffff_ffff_ffffu64 - (1u64 << b)) by (bit_vector) requires b < 64;
    assert((1u64 << b) != 0) by (bit_vector) requires b < 64;
}

impl BigUint {
//@ stub u_core/normalize
//@ extract src/biguint.rs :: impl BigUint :: fn bit rules=R0,R3b props=C07
    pub fn bit(&self, bit: u64) -> /*+*/(r: /*-*/bool/*+*/)/*-*/
//+{
        ensures r == bitv(self.v(), bit as nat)
//+}
    {
        let bits_per_digit = u64::from(big_digit::BITS);
//+{
        proof { lemma_bit_of_digit(self.data@, (bit / 64) as nat, bit % 64); }
//+}
        if let Some(digit_index) = (bit / bits_per_digit).to_usize() {
            if let Some(digit) = self.data.get(digit_index) {
                let bit_mask = (1 as BigDigit) << (bit % bits_per_digit);
//+{
                proof { lemma_mask_bit(*digit, bit % 64); }
//+}
                return (*digit & bit_mask) != 0;
            }
        }
        false
    }
//@ end
}

/// 2^(64 i + b) as a digit mask at position i
pub proof fn lemma_mask_value(i: nat, b: u64)
    requires b < 64
    ensures ((1u64 << b) as nat) * pw(i) == p2(64 * i + b as nat)
{
    vstd::arithmetic::power2::lemma2_to64();
    vstd::arithmetic::power2::lemma_pow2_strictly_increases(b as nat, 64);
    assert(1 * p2(b as nat) <= u64::MAX);
    vstd::bits::lemma_u64_shl_is_mul(1u64, b);
    lemma_pw_p2_(i);
    vstd::arithmetic::power2::lemma_pow2_adds(64 * i, b as nat);
    assert(p2(b as nat) * pw(i) == pw(i) * p2(b as nat)) by (nonlinear_arith);
}

impl BigUint {
//@ extract src/biguint.rs :: impl BigUint :: fn set_bit props=C07,C04
    pub fn set_bit(&mut self, bit: u64, value: bool)
//+{
        requires old(self).wf()
        ensures final(self).wf(),
            final(self).v() == (if value == bitv(old(self).v(), bit as nat) { old(self).v() }
                                else if value { old(self).v() + p2(bit as nat) } else { (old(self).v() - p2(bit as nat)) as nat }),
//+}
    {
        // Note: we're saturating `digit_index` and `new_len` -- any such case is guaranteed to
        // fail allocation, and that's more consistent than adding our own overflow panics.
        let bits_per_digit = u64::from(big_digit::BITS);
        let digit_index = (bit / bits_per_digit).to_usize().unwrap_or(usize::MAX);
        let bit_mask = (1 as BigDigit) << (bit % bits_per_digit);
//+{
        let ghost s0 = self.data@;
        let ghost i = (bit / 64) as nat;
        let ghost b = bit % 64;
        proof {
            lemma_bit_of_digit(s0, i, b);
            lemma_mask_value(i, b);
            assert(64 * i + b as nat == bit as nat);
            assert(digit_index == i);
        }
//+}
        if value {
            if digit_index >= self.data.len() {
                let new_len = digit_index.saturating_add(1);
                self.data.resize(new_len, 0);
//+{
                proof { lemma_val_zero_ext(s0, self.data@); }
//+}
            }
//+{
            let ghost s1 = self.data@;
            proof {
                lemma_mask_bit(s1[digit_index as int], b);
                lemma_val_update_(s1, digit_index as int, s1[digit_index as int] | bit_mask);
                let d = s1[digit_index as int] as nat; let mk = bit_mask as nat; let p = pw(i);
                assert((d + mk) * p == d * p + mk * p) by (nonlinear_arith);
            }
//+}
            self.data[digit_index] |= bit_mask;
//+{
            proof {
                assert(self.data@ =~= s1.update(digit_index as int, s1[digit_index as int] | bit_mask));
                assert(digit_index == i);
                assert(val(s1) == val(s0));
                let f = self.data@;
                assert(f[digit_index as int] != 0) by {
                    let d = s1[digit_index as int];
                    assert((d | bit_mask) != 0) by (bit_vector) requires bit_mask != 0;
                }
                assert(wf(f));
                assert(bitv(val(s0), bit as nat) == (i < s0.len() && (s0[i as int] >> b) & 1 == 1));
                if i < s0.len() { assert(s1 =~= s0); } else { assert(s1[i as int] == 0); }
                let d = s1[i as int];
                let k = bit as nat;
                assert(64 * i + b as nat == k);
                if (d >> b) & 1 == 1 {
                    assert(val(f) == val(s0));
                } else {
                    assert((d | bit_mask) as nat == d as nat + bit_mask as nat);
                    assert(val(f) == val(s0) + p2(k));
                }
            }
//+}
        } else if digit_index < self.data.len() {
//+{
            proof {
                lemma_mask_bit(s0[digit_index as int], b);
                lemma_val_update_(s0, digit_index as int, s0[digit_index as int] & !bit_mask);
                let d = s0[digit_index as int] as nat; let mk = bit_mask as nat; let p = pw(i);
                if d >= mk { assert(((d - mk) as nat) * p + mk * p == d * p) by (nonlinear_arith) requires d >= mk; }
            }
//+}
            self.data[digit_index] &= !bit_mask;
//+{
            proof {
                assert(self.data@ =~= s0.update(digit_index as int, s0[digit_index as int] & !bit_mask));
                assert(digit_index == i);
                let d = s0[i as int];
                let k = bit as nat;
                assert(64 * i + b as nat == k);
                if (d >> b) & 1 == 1 {
                    assert((d & !bit_mask) as nat == d as nat - bit_mask as nat);
                    assert(val(self.data@) + p2(k) == val(s0));
                } else {
                    assert(val(self.data@) == val(s0));
                }
            }
//+}
            // the top bit may have been cleared, so normalize
            self.normalize();
        }
    }
//@ end
}

} // mod u
} // verus!
fn main() {}
