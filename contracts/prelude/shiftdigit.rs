// one-digit facts for shifting by 0 < s < 64 bits with carry between digits
/// one digit of a left shift by 0 < s < 64 bits with incoming carry c < 2^s
pub proof fn lemma_shl_digit(x: u64, s: u64, c: u64)
    requires 0 < s < 64, c < (1u64 << s)
    ensures
        (((x << s) | c) as nat) + ((x >> ((64 - s) as u64)) as nat) * B() == (x as nat) * vstd::arithmetic::power2::pow2(s as nat) + (c as nat),
        (x >> ((64 - s) as u64)) < (1u64 << s),
        // the carry occupies bits the shifted digit has cleared: |, ^ and + coincide
        ((x << s) | c) == ((x << s) ^ c), ((x << s) | c) == add(x << s, c),
{
    let t = (64 - s) as u64;
    let hi = x >> t;
    assert(((x << s) | c) == ((x << s) ^ c) && ((x << s) | c) == add(x << s, c)) by (bit_vector) requires 0 < s < 64, c < (1u64 << s);
    let mask = ((1u64 << t) - 1) as u64;
    let lo = x & mask;
    vstd::arithmetic::power2::lemma2_to64();
    vstd::arithmetic::power2::lemma_pow2_adds(t as nat, s as nat);
    vstd::arithmetic::power2::lemma_pow2_pos(t as nat);
    vstd::arithmetic::power2::lemma_pow2_pos(s as nat);
    let pt = vstd::arithmetic::power2::pow2(t as nat); let ps = vstd::arithmetic::power2::pow2(s as nat);
    assert(pt * ps == B());
    assert(ps >= 2) by { vstd::arithmetic::power2::lemma_pow2_strictly_increases(0, s as nat); }
    assert(pt >= 2) by { vstd::arithmetic::power2::lemma_pow2_strictly_increases(0, t as nat); }
    // x == hi * 2^t + lo with lo < 2^t
    assert(x == hi * (1u64 << t) + lo && lo < (1u64 << t) && hi < (1u64 << s)) by (bit_vector)
        requires t == 64 - s, 0 < s < 64, hi == x >> t, lo == x & (((1u64 << t) - 1) as u64);
    assert((1u64 << t) as nat == pt) by {
        assert(1 * pt <= u64::MAX) by (nonlinear_arith) requires pt * ps == B(), ps >= 2, B() == 0x1_0000_0000_0000_0000nat;
        vstd::bits::lemma_u64_shl_is_mul(1u64, t);
    }
    // x << s == lo << s == lo * 2^s
    assert((x << s) == (lo << s)) by (bit_vector) requires t == 64 - s, 0 < s < 64, lo == x & (((1u64 << t) - 1) as u64);
    assert((lo as nat) * ps <= u64::MAX) by (nonlinear_arith) requires (lo as nat) < pt, pt * ps == 0x1_0000_0000_0000_0000nat, ps >= 1;
    vstd::bits::lemma_u64_shl_is_mul(lo, s);
    assert(((x << s) | c) == (x << s) + c) by (bit_vector) requires 0 < s < 64, c < (1u64 << s);
    assert((x as nat) * ps == (hi as nat) * B() + (lo as nat) * ps) by (nonlinear_arith)
        requires (x as nat) == (hi as nat) * pt + (lo as nat), pt * ps == B();
    // (x << s) + c does not wrap: (x << s) <= 2^64 - 2^s and c < 2^s
    assert((1u64 << s) as nat == ps) by {
        assert(1 * ps <= u64::MAX) by (nonlinear_arith) requires pt * ps == B(), pt >= 2, B() == 0x1_0000_0000_0000_0000nat;
        vstd::bits::lemma_u64_shl_is_mul(1u64, s);
    }
    assert((lo as nat) * ps + (c as nat) < B()) by (nonlinear_arith)
        requires (lo as nat) + 1 <= pt, pt * ps == B(), (c as nat) < ps;
}

