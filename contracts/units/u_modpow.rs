//@ unit u_modpow : Montgomery modular exponentiation with 4-bit windows (src/biguint/monty.rs :: monty_modpow, MontyReducer)
#![feature(allocator_api)]
use vstd::prelude::*;
use vstd::std_specs::iter::IteratorSpec;
use vstd::std_specs::ops::*;
use vstd::arithmetic::power::pow;
use vstd::arithmetic::power2::pow2;
use core::ops::{Shl, Rem, RemAssign, SubAssign};
use core::cmp::Ordering;
use core::mem;
verus! {
//@ include prelude/core.rs
//@ include prelude/std_specs.rs
//@ include prelude/panic.rs
//@ include prelude/highbits.rs
//@ include prelude/bitval.rs
//@ include prelude/congm.rs
pub mod u {
use super::*;

pub mod big_digit {
    use vstd::prelude::*;
    pub type BigDigit = u64;
    pub type DoubleBigDigit = u128;
//@ extract src/lib.rs :: mod big_digit :: const BITS
    pub(crate) const BITS: u8 = BigDigit::BITS as u8;
//@ end
}

//@ extract src/biguint.rs :: struct BigUint
pub struct BigUint {
    data: Vec<BigDigit>,
}
//@ end
//@ include prelude/biguint_view.rs
pub open spec fn BI() -> int { 0x1_0000_0000_0000_0000int }
pub open spec fn p2(k: nat) -> nat { pow2(k) }
pub open spec fn udiv_ok(a: nat, b: nat, q: nat, m: nat) -> bool { a == q * b + m && m < b }
pub open spec fn ord_of(a: nat, b: nat) -> Ordering {
    if a < b { Ordering::Less } else if a == b { Ordering::Equal } else { Ordering::Greater }
}
impl BigUint {
//@ extract src/biguint.rs :: impl BigUint :: const ZERO rules=R9,R13 label=BigUint_ZERO
    exec const ZERO: Self /*+*/ensures Self::ZERO.data@.len() == 0 /*-*/{ BigUint { data: Vec::new() } }
//@ end
//@ stub u_core/clone
//@ stub u_core/one
//@ stub u_core/normalize
//@ stub u_cmp/cmp
}
//@ stub k_monty/inv_mod_alt
//@ stub k_monty/montgomery
impl ShlSpecImpl<u64> for BigUint {
    open spec fn obeys_shl_spec() -> bool { false }
    open spec fn shl_req(self, rhs: u64) -> bool { self.wf() }
    open spec fn shl_spec(self, rhs: u64) -> BigUint { arbitrary() }
}
impl Shl<u64> for BigUint {
    type Output = BigUint;
//@ stub u_shiftops/shl_u64
}
impl RemSpecImpl<&BigUint> for BigUint {
    open spec fn obeys_rem_spec() -> bool { false }
    open spec fn rem_req(self, rhs: &BigUint) -> bool { self.wf() && rhs.wf() && (!mp() ==> rhs.v() != 0) }
    open spec fn rem_spec(self, rhs: &BigUint) -> BigUint { arbitrary() }
}
impl Rem<&BigUint> for BigUint {
    type Output = BigUint;
//@ stub u_fwd/rem_val_ref
}
impl RemAssignSpecImpl<&BigUint> for BigUint {
    open spec fn obeys_rem_assign_spec() -> bool { false }
    open spec fn rem_assign_req(&self, rhs: &BigUint) -> bool { self.wf() && rhs.wf() && (!mp() ==> rhs.v() != 0) }
    open spec fn rem_assign_spec(&self, rhs: &BigUint) -> &BigUint { arbitrary() }
}
impl RemAssign<&BigUint> for BigUint {
//@ stub u_fwd/rem_assign_ref
}
impl SubAssignSpecImpl<&BigUint> for BigUint {
    open spec fn obeys_sub_assign_spec() -> bool { false }
    open spec fn sub_assign_req(&self, rhs: &BigUint) -> bool { self.wf() && rhs.wf() && (!mp() ==> self.v() >= rhs.v()) }
    open spec fn sub_assign_spec(&self, rhs: &BigUint) -> &BigUint { arbitrary() }
}
impl SubAssign<&BigUint> for BigUint {
//@ stub u_addsub/sub_assign
}

/// the i most significant digits of s
pub open spec fn top(s: Seq<u64>, i: int) -> Seq<u64> { s.subrange(s.len() - i, s.len() as int) }

pub proof fn lemma_top_step(s: Seq<u64>, i: int)
    requires 0 <= i < s.len()
    ensures val(top(s, i + 1)) == (s[s.len() - 1 - i] as nat) + B() * val(top(s, i))
{
    let d = s[s.len() - 1 - i];
    assert(top(s, i + 1) =~= seq![d] + top(s, i));
    lemma_val_concat(seq![d], top(s, i));
    lemma_val_single(d);
    assert(pw(1) == B() * pw(0));
}

/// z represents X in the Montgomery domain with R = B^n: z == X * R (mod m)
pub open spec fn rep(z: nat, x: int, r: int, m: int) -> bool { congm(z as int, x * r, m) }

/// product in the Montgomery domain: r*R == a*b, a ~ X, b ~ Y  ==>  r ~ X*Y
pub proof fn lemma_rep_mul(rv: nat, a: nat, b: nat, x: int, y: int, n: nat, m: int)
    requires m % 2 == 1, m > 0, congm(((rv * pw(n)) as int), (a * b) as int, m), rep(a, x, pw(n) as int, m), rep(b, y, pw(n) as int, m)
    ensures rep(rv, x * y, pw(n) as int, m)
{
    let r = pw(n) as int;
    lemma_pw_p2_(n);
    lemma_congm_mul(a as int, x * r, b as int, y * r, m);
    assert((a as int) * (b as int) == (a * b) as int) by (nonlinear_arith);
    assert((x * r) * (y * r) == ((x * y) * r) * r) by (nonlinear_arith);
    assert((rv * pw(n)) as int == (rv as int) * r) by (nonlinear_arith) requires r == pw(n) as int;
    lemma_congm_trans((rv as int) * r, (a * b) as int, ((x * y) * r) * r, m);
    lemma_congm_cancel_pow2(rv as int, (x * y) * r, m, 64 * n);
}

/// leaving the Montgomery domain: r*R == z*1, z ~ X  ==>  r == X (mod m)
pub proof fn lemma_rep_out(rv: nat, z: nat, x: int, n: nat, m: int)
    requires m % 2 == 1, m > 0, congm(((rv * pw(n)) as int), (z * 1) as int, m), rep(z, x, pw(n) as int, m)
    ensures congm(rv as int, x, m)
{
    let r = pw(n) as int;
    lemma_pw_p2_(n);
    assert((z * 1) as int == z as int) by (nonlinear_arith);
    assert((rv * pw(n)) as int == (rv as int) * r) by (nonlinear_arith) requires r == pw(n) as int;
    lemma_congm_trans((rv as int) * r, z as int, x * r, m);
    lemma_congm_cancel_pow2(rv as int, x, m, 64 * n);
}

/// entering the domain through R^2: r*R == a*RR with RR == R^2 (mod m)  ==>  r ~ a
pub proof fn lemma_rep_in(rv: nat, a: nat, rr: nat, n: nat, m: int)
    requires m % 2 == 1, m > 0, congm(((rv * pw(n)) as int), (a * rr) as int, m), congm(rr as int, (pw(n) * pw(n)) as int, m)
    ensures rep(rv, a as int, pw(n) as int, m)
{
    let r = pw(n) as int;
    lemma_pw_p2_(n);
    lemma_congm_refl(a as int, m);
    lemma_congm_mul(a as int, a as int, rr as int, (pw(n) * pw(n)) as int, m);
    assert((a as int) * (rr as int) == (a * rr) as int) by (nonlinear_arith);
    assert((a as int) * ((pw(n) * pw(n)) as int) == ((a as int) * r) * r) by (nonlinear_arith) requires r == pw(n) as int;
    assert((rv * pw(n)) as int == (rv as int) * r) by (nonlinear_arith) requires r == pw(n) as int;
    lemma_congm_trans((rv as int) * r, (a * rr) as int, ((a as int) * r) * r, m);
    lemma_congm_cancel_pow2(rv as int, (a as int) * r, m, 64 * n);
}

/// the top j bits of a digit (j a multiple of 4), and how one more 4-bit window extends them
pub open spec fn pre_bits(yd: u64, j: u8) -> u64 { if j == 0 { 0 } else if j >= 64 { yd } else { yd >> ((64 - j) as u8) } }

pub proof fn lemma_window(yd: u64, j: u8)
    requires j <= 60, j % 4 == 0
    ensures pre_bits(yd, (j + 4) as u8) as nat == (pre_bits(yd, j) as nat) * 16 + (((yd << j) >> 60u8) as nat), ((yd << j) >> 60u8) < 16,
        j < 60 ==> ((yd << j) << 4u8) == (yd << ((j + 4) as u8)), yd << 0u8 == yd
{
    assert(((yd << j) >> 60u8) < 16) by (bit_vector);
    assert((yd << 0u8) == yd) by (bit_vector);
    assert(j < 60 ==> ((yd << j) << 4u8) == (yd << ((j + 4) as u8))) by (bit_vector);
    if j == 0 {
    } else if j == 60 {
        assert(yd == (yd >> 4u8) * 16 + ((yd << 60u8) >> 60u8)) by (bit_vector);
    } else {
        assert(0 < j < 60 && j % 4 == 0 ==> (yd >> ((60 - j) as u8)) == (yd >> ((64 - j) as u8)) * 16 + ((yd << j) >> 60u8)) by (bit_vector);
    }
}

/// r*R == a*b with a ~ X^e1, b ~ X^e2  ==>  r ~ X^(e1+e2)
pub proof fn lemma_rep_pow(rv: nat, a: nat, b: nat, x: int, e1: nat, e2: nat, n: nat, m: int)
    requires m % 2 == 1, m > 0, congm(((rv * pw(n)) as int), (a * b) as int, m), rep(a, pow(x, e1), pw(n) as int, m), rep(b, pow(x, e2), pw(n) as int, m)
    ensures rep(rv, pow(x, e1 + e2), pw(n) as int, m)
{
    lemma_rep_mul(rv, a, b, pow(x, e1), pow(x, e2), n, m);
    vstd::arithmetic::power::lemma_pow_adds(x, e1, e2);
}

pub open spec fn is_modpow(b: int, e: nat, m: int, r: int) -> bool { exists|k: int| r == pow(b, e) + #[trigger] (k * m) }

pub closed spec fn pw_ok(p: BigUint, e: nat, x: int, n: nat, m: int) -> bool { p.data@.len() == n && rep(val(p.data@), pow(x, e), pw(n) as int, m) }

pub proof fn lemma_len_le(a: Seq<u64>, b: Seq<u64>)
    requires wf(a), val(a) < val(b)
    ensures a.len() <= b.len()
{
    if a.len() > b.len() {
        lemma_wf_lower(a);
        lemma_valp_bound(b, b.len());
        lemma_pw_mono(b.len(), (a.len() - 1) as nat);
    }
}

pub proof fn lemma_val_one(s: Seq<u64>)
    requires wf(s), val(s) == 1
    ensures s =~= seq![1u64]
{
    lemma_wf_zero(s);
    if s.len() >= 2 {
        lemma_wf_lower(s);
        lemma_pw_mono(1, (s.len() - 1) as nat);
        assert(pw(1) == B() * pw(0));
    }
    assert(s =~= seq![s[0]]);
    lemma_val_single(s[0]);
}

pub proof fn lemma_one_padded(s: Seq<u64>)
    requires s.len() >= 1, s[0] == 1, forall|j: int| 1 <= j < s.len() ==> s[j] == 0
    ensures val(s) == 1
{
    lemma_val_zero_ext(seq![1u64], s);
    lemma_val_single(1u64);
}

//@ extract src/biguint/monty.rs :: struct MontyReducer
struct MontyReducer {
    n0inv: BigDigit,
}
//@ end

impl MontyReducer {
//@ extract src/biguint/monty.rs :: impl MontyReducer :: fn new props=C05 label=monty_reducer_new
    fn new(n: &BigUint) -> /*+*/(r: /*-*/Self/*+*/)/*-*/
//+{
        requires n.wf(), n.v() % 2 == 1
        ensures ((r.n0inv as int) * (n.data@[0] as int) + 1) % BI() == 0
//+}
    {
//+{
        proof {
            lemma_wf_zero(n.data@);
            lemma_digit_split(n.data@, 0);
            let h = val(n.data@.subrange(1, n.data@.len() as int));
            assert(pw(0) * ((n.data@[0] as nat) + B() * h) == (n.data@[0] as nat) + B() * h) by (nonlinear_arith) requires pw(0) == 1;
            assert(((n.data@[0] as nat) + B() * h) % 2 == (n.data@[0] as nat) % 2) by (nonlinear_arith) requires B() == 0x1_0000_0000_0000_0000nat;
        }
//+}
        let n0inv = inv_mod_alt(n.data[0]);
        MontyReducer { n0inv }
    }
//@ end
}

//@ extract src/biguint/monty.rs :: fn monty_modpow rules=R0,R11,R3ma,R3ms,R3mr,R10q,R10p,R16ge props=C05,C14
pub(super) fn monty_modpow(x: &BigUint, y: &BigUint, m: &BigUint) -> /*+*/(res: /*-*/BigUint/*+*/)/*-*/
//+{
    requires x.wf(), y.wf(), m.wf(), m.v() % 2 == 1
    ensures res.wf(), res.v() < m.v(), is_modpow(x.v() as int, y.v(), m.v() as int, res.v() as int)
//+}
{
//+{
    let ghost x0 = x.v() as int;
    let ghost mv = m.v() as int;
    let ghost ys = y.data@;
    proof {
        lemma_wf_zero(m.data@);
        lemma_digit_split(m.data@, 0);
        let h = val(m.data@.subrange(1, m.data@.len() as int));
        assert(pw(0) * ((m.data@[0] as nat) + B() * h) == (m.data@[0] as nat) + B() * h) by (nonlinear_arith) requires pw(0) == 1;
        assert(((m.data@[0] as nat) + B() * h) % 2 == (m.data@[0] as nat) % 2) by (nonlinear_arith) requires B() == 0x1_0000_0000_0000_0000nat;
        let d0 = m.data@[0];
        assert(d0 as nat % 2 == 1 ==> d0 & 1 == 1) by (bit_vector);
        axiom_vec_u64_len(&m.data);
    }
//+}
    __assert(m.data[0] & 1 == 1);
    let mr = MontyReducer::new(m);
    let num_words = m.data.len();
//+{
    let ghost nw = num_words as nat;
    let ghost rr_ = pw(nw) as int;
    proof { lemma_pw_p2_(nw); lemma_pw_pos(nw); }
//+}

    let mut x = x.clone();

    // We want the lengths of x and m to be equal.
    // It is OK if x >= m as long as len(x) == len(m).
    if x.data.len() > num_words {
        RemAssign::rem_assign(&mut x, m);
        // Note: now len(x) <= numWords, not guaranteed ==.
//+{
        proof {
            lemma_len_le(x.data@, m.data@);
            let q = choose|q: nat| #[trigger] udiv_ok(x0 as nat, m.v(), q, x.v());
            lemma_congm_add_multiple(x.v() as int, q as int, mv);
            lemma_congm_sym(x0, x.v() as int, mv);
        }
//+}
    }
//+{
    else { proof { lemma_congm_refl(x0, mv); } }
    let ghost xs1 = x.data@;
//+}
    if x.data.len() < num_words {
        x.data.resize(num_words, 0);
//+{
        proof { lemma_val_zero_ext(xs1, x.data@); }
//+}
    }
//+{
    assert(x.data@.len() == nw && congm(val(x.data@) as int, x0, mv));
//+}

    // rr = 2**(2*_W*len(m)) mod m
    let mut rr = BigUint::one();
//+{
    proof {
        assert(2 * (nw as int) * 64 < 0x1_0000_0000_0000_0000) by (nonlinear_arith) requires nw < 0x200_0000_0000_0000;
    }
//+}
    rr = Rem::rem(rr.shl(2 * num_words as u64 * u64::from(big_digit::BITS)), m);
//+{
    let ghost rs1 = rr.data@;
    proof {
        lemma_len_le(rr.data@, m.data@);
        vstd::arithmetic::power2::lemma_pow2_adds(64 * nw, 64 * nw);
        let sh = (2 * num_words as u64 * 64u64) as nat;
        assert(sh == 64 * nw + 64 * nw);
        let q = choose|q: nat| #[trigger] udiv_ok(1 * p2(sh), m.v(), q, rr.v());
        lemma_congm_add_multiple(rr.v() as int, q as int, mv);
        lemma_congm_sym((rr.v() + q * m.v()) as int, rr.v() as int, mv);
        assert((rr.v() + q * m.v()) as int == rr.v() as int + (q as int) * mv) by (nonlinear_arith) requires mv == m.v() as int;
        assert(congm(rr.v() as int, (pw(nw) * pw(nw)) as int, mv));
    }
//+}
    if rr.data.len() < num_words {
        rr.data.resize(num_words, 0);
//+{
        proof { lemma_val_zero_ext(rs1, rr.data@); }
//+}
    }
    // one = 1, with equal length to that of m
    let mut one = BigUint::one();
//+{
    proof { lemma_val_one(one.data@); }
//+}
    one.data.resize(num_words, 0);
//+{
    proof { lemma_one_padded(one.data@); }
//+}

    let n = 4;
    // powers[i] contains x^i
    let mut powers = Vec::with_capacity(1 << n);
    powers.push(montgomery(&one, &rr, m, mr.n0inv, num_words));
//+{
    proof {
        lemma_rep_in(val(powers@[0].data@), 1, val(rr.data@), nw, mv);
        vstd::arithmetic::power::lemma_pow0(x0);
        assert(pw_ok(powers@[0], 0, x0, nw, mv));
    }
//+}
    powers.push(montgomery(&x, &rr, m, mr.n0inv, num_words));
//+{
    proof {
        lemma_rep_in(val(powers@[1].data@), val(x.data@), val(rr.data@), nw, mv);
        // val(x) == x0 (mod m)  ==>  val(x)*R == x0*R
        lemma_congm_refl(rr_, mv);
        lemma_congm_mul(val(x.data@) as int, x0, rr_, rr_, mv);
        lemma_congm_trans(val(powers@[1].data@) as int, (val(x.data@) as int) * rr_, x0 * rr_, mv);
        vstd::arithmetic::power::lemma_pow1(x0);
        assert(pw_ok(powers@[1], 1, x0, nw, mv));
        assert(1usize << 4u8 == 16) by (bit_vector);
    }
//+}
    { let mut i__ = 2; let e__ = 1 << n; while i__ < e__
//+{
        invariant
            e__ == 16, 2 <= i__ <= 16, n == 4, powers@.len() == i__, nw == num_words, nw >= 1, nw < 0x200_0000_0000_0000, m.data@.len() == nw,
            mv == val(m.data@) as int, mv % 2 == 1, mv > 0,
            ((mr.n0inv as int) * (m.data@[0] as int) + 1) % BI() == 0,
            forall|k: int| 0 <= k < powers@.len() ==> pw_ok(#[trigger] powers@[k], k as nat, x0, nw, mv),
        decreases e__ - i__
//+}
    { let i = i__; i__ += 1;
        let r = montgomery(&powers[i - 1], &powers[1], m, mr.n0inv, num_words);
//+{
        proof {
            lemma_rep_pow(val(r.data@), val(powers@[i - 1].data@), val(powers@[1].data@), x0, (i - 1) as nat, 1, nw, mv);
            assert(pw_ok(r, i as nat, x0, nw, mv));
        }
//+}
        powers.push(r);
    } }

    // initialize z = 1 (Montgomery 1)
    let mut z = powers[0].clone();
    z.data.resize(num_words, 0);
//+{
    proof { assert(z.data@ =~= powers@[0].data@); }
//+}
    let mut zz = BigUint::ZERO;
    zz.data.resize(num_words, 0);
//+{
    let ghost mut e: nat = 0;
    proof { assert(top(ys, 0) =~= Seq::<u64>::empty()); }
//+}

    // same windowed exponent, but with Montgomery multiplications
    { let mut i__ = y.data.len(); while i__ > 0
//+{
        invariant
            i__ <= ys.len(), ys == y.data@, powers@.len() == 16, n == 4, nw == num_words, nw >= 1, nw < 0x200_0000_0000_0000, m.data@.len() == nw,
            mv == val(m.data@) as int, mv % 2 == 1, mv > 0,
            ((mr.n0inv as int) * (m.data@[0] as int) + 1) % BI() == 0,
            forall|k: int| 0 <= k < powers@.len() ==> pw_ok(#[trigger] powers@[k], k as nat, x0, nw, mv),
            pw_ok(z, e, x0, nw, mv), e == val(top(ys, ys.len() - i__)),
        decreases i__
//+}
    { i__ -= 1; let i = i__;
        let mut yi = y.data[i];
        let mut j = 0;
//+{
        let ghost yd = yi;
        let ghost hi = e;
        proof {
            lemma_window(yd, 0);
            vstd::arithmetic::power2::lemma2_to64();
            assert(hi * p2(0) == hi) by (nonlinear_arith) requires p2(0) == 1;
        }
//+}
        while j < big_digit::BITS
//+{
            invariant
                j % 4 == 0, j <= 64, j < 64 ==> yi == yd << j, n == 4, i < ys.len(), ys == y.data@,
                powers@.len() == 16, nw == num_words, nw >= 1, nw < 0x200_0000_0000_0000, m.data@.len() == nw,
                mv == val(m.data@) as int, mv % 2 == 1, mv > 0,
                ((mr.n0inv as int) * (m.data@[0] as int) + 1) % BI() == 0,
                forall|k: int| 0 <= k < powers@.len() ==> pw_ok(#[trigger] powers@[k], k as nat, x0, nw, mv),
                pw_ok(z, e, x0, nw, mv), e == hi * p2(j as nat) + pre_bits(yd, j) as nat,
                hi == val(top(ys, ys.len() - 1 - i)),
            decreases 64 - j
//+}
        {
//+{
            let ghost e0 = e;
            let ghost w = (yd << j) >> 60u8;
            proof {
                lemma_window(yd, j);
                vstd::arithmetic::power2::lemma_pow2_adds(j as nat, 4);
                vstd::arithmetic::power2::lemma2_to64();
                assert(hi * (p2(j as nat) * 16) + ((pre_bits(yd, j) as nat) * 16 + w as nat) == (hi * p2(j as nat) + pre_bits(yd, j) as nat) * 16 + w as nat) by (nonlinear_arith);
            }
//+}
            if i != y.data.len() - 1 || j != 0 {
                zz = montgomery(&z, &z, m, mr.n0inv, num_words);
//+{
                proof { lemma_rep_pow(val(zz.data@), val(z.data@), val(z.data@), x0, e0, e0, nw, mv); }
//+}
                z = montgomery(&zz, &zz, m, mr.n0inv, num_words);
//+{
                proof { lemma_rep_pow(val(z.data@), val(zz.data@), val(zz.data@), x0, e0 + e0, e0 + e0, nw, mv); }
//+}
                zz = montgomery(&z, &z, m, mr.n0inv, num_words);
//+{
                proof { lemma_rep_pow(val(zz.data@), val(z.data@), val(z.data@), x0, 4 * e0, 4 * e0, nw, mv); }
//+}
                z = montgomery(&zz, &zz, m, mr.n0inv, num_words);
//+{
                proof { lemma_rep_pow(val(z.data@), val(zz.data@), val(zz.data@), x0, 8 * e0, 8 * e0, nw, mv); }
//+}
            }
//+{
            else {
                proof {
                    assert(top(ys, 0) =~= Seq::<u64>::empty());
                    assert(e0 == 0);
                }
            }
            assert(pw_ok(z, 16 * e0, x0, nw, mv));
//+}
            zz = montgomery(
                &z,
                &powers[(yi >> (big_digit::BITS - n)) as usize],
                m,
                mr.n0inv,
                num_words,
            );
//+{
            proof {
                lemma_rep_pow(val(zz.data@), val(z.data@), val(powers@[w as int].data@), x0, 16 * e0, w as nat, nw, mv);
                e = 16 * e0 + w as nat;
            }
//+}
            mem::swap(&mut z, &mut zz);
            yi <<= n;
            j += n;
        }
//+{
        proof {
            lemma_top_step(ys, ys.len() - 1 - i);
            vstd::arithmetic::power2::lemma2_to64_rest();
            assert(j == 64);
            assert(hi * p2(64) == B() * hi) by (nonlinear_arith) requires p2(64) == B();
        }
//+}
    } }
//+{
    proof { assert(top(ys, ys.len() as int) =~= ys); }
//+}

    // convert to regular number
    zz = montgomery(&z, &one, m, mr.n0inv, num_words);
//+{
    proof { lemma_rep_out(val(zz.data@), val(z.data@), pow(x0, e), nw, mv); }
//+}

    zz.normalize();
    // One last reduction, just in case.
    // See golang.org/issue/13907.
    if !(zz.cmp(&*m) == core::cmp::Ordering::Less) {
        // Common case is m has high bit set; in that case,
        // since zz is the same length as m, there can be just
        // one multiple of m to remove. Just subtract.
        // We think that the subtract should be sufficient in general,
        // so do that unconditionally, but double-check,
        // in case our beliefs are wrong.
        // The div is not expected to be reached.
//+{
        let ghost v1 = zz.v() as int;
//+}
        SubAssign::sub_assign(&mut zz, m);
//+{
        proof {
            lemma_congm_add_multiple(v1, 1, mv);
            lemma_congm_trans(zz.v() as int, v1, pow(x0, e), mv);
        }
        let ghost v2 = zz.v();
//+}
        if !(zz.cmp(&*m) == core::cmp::Ordering::Less) {
            RemAssign::rem_assign(&mut zz, m);
//+{
            proof {
                let q = choose|q: nat| #[trigger] udiv_ok(v2, m.v(), q, zz.v());
                lemma_congm_add_multiple(zz.v() as int, q as int, mv);
                lemma_congm_sym(v2 as int, zz.v() as int, mv);
                assert(v2 as int == zz.v() as int + (q as int) * mv) by (nonlinear_arith) requires v2 == q * m.v() + zz.v(), mv == m.v() as int;
                lemma_congm_trans(zz.v() as int, v2 as int, pow(x0, e), mv);
            }
//+}
        }
    }

    zz.normalize();
    zz
}
//@ end

} // mod u
} // verus!
fn main() {}
