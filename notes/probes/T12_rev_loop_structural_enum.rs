use vstd::prelude::*;
verus! {
type BigDigit = u64;
// rev loop like high_bits_to_u64 / rem_digit
fn t_rev(v: &Vec<BigDigit>) -> (s: u64)
    ensures v@.len() == 0 ==> s == 0
{
    let mut s = 0u64;
    for d in it: v.iter().rev()
        invariant v@.len() == 0 ==> s == 0, it.seq().len() == v@.len(),
            forall|i: int| 0 <= i < it.seq().len() ==> *(#[trigger] it.seq()[i]) == v@[v@.len() - 1 - i],
    {
        s = s ^ *d;
    }
    s
}

#[derive(Structural, PartialEq, Eq, Copy, Clone)]
pub enum Sign { Minus, NoSign, Plus }
use Sign::*;
fn t_sign(s: Sign) -> (r: bool) ensures r == (s == NoSign) { s == NoSign }
fn t_neg(s: Sign) -> (r: Sign)
    ensures r == (match s { Minus => Plus, NoSign => NoSign, Plus => Minus })
{
    match s { Minus => Plus, NoSign => NoSign, Plus => Minus }
}
} // verus!
fn main() {}
