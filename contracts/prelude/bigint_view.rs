// View of BigInt: the integer sgn(sign) * |data|, and the representation invariant (NoSign <=> zero, canonical magnitude).
pub open spec fn sgn(s: Sign) -> int {
    match s { Sign::Minus => -1int, Sign::NoSign => 0int, Sign::Plus => 1int }
}

impl BigInt {
    pub closed spec fn iv(&self) -> int { sgn(self.sign) * (self.data.v() as int) }
    pub closed spec fn wfi(&self) -> bool { self.data.wf() && ((self.sign == Sign::NoSign) <==> (self.data.v() == 0)) }
    pub closed spec fn sg(&self) -> Sign { self.sign }
    pub closed spec fn mag(&self) -> BigUint { self.data }
}

pub proof fn lemma_sgn_mul(s: Sign, m: nat)
    ensures
        s == Sign::Plus ==> sgn(s) * (m as int) == m as int,
        s == Sign::Minus ==> sgn(s) * (m as int) == -(m as int),
        s == Sign::NoSign ==> sgn(s) * (m as int) == 0,
{
    assert(1int * (m as int) == m as int) by (nonlinear_arith);
    assert(-1int * (m as int) == -(m as int)) by (nonlinear_arith);
    assert(0int * (m as int) == 0) by (nonlinear_arith);
}

/// quantified form of lemma_sgn_mul (for magnitudes that are unnamed temporaries)
pub proof fn lemma_sgn_mul_all(s: Sign)
    ensures forall|m: nat| #[trigger] (sgn(s) * (m as int)) == (match s { Sign::Minus => -(m as int), Sign::NoSign => 0int, Sign::Plus => m as int })
{
    assert forall|m: nat| #[trigger] (sgn(s) * (m as int)) == (match s { Sign::Minus => -(m as int), Sign::NoSign => 0int, Sign::Plus => m as int }) by {
        lemma_sgn_mul(s, m);
    }
}
