// ---- contract-only: the spec-trait plumbing Verus needs to attach requires to operator impls
impl AddAssignSpecImpl<&BigUint> for BigUint {
    open spec fn obeys_add_assign_spec() -> bool { false }
    open spec fn add_assign_req(&self, rhs: &BigUint) -> bool { self.wf() && rhs.wf() }
    open spec fn add_assign_spec(&self, rhs: &BigUint) -> &BigUint { arbitrary() }
}
impl AddSpecImpl<&BigUint> for BigUint {
    open spec fn obeys_add_spec() -> bool { false }
    open spec fn add_req(self, rhs: &BigUint) -> bool { self.wf() && rhs.wf() }
    open spec fn add_spec(self, rhs: &BigUint) -> BigUint { arbitrary() }
}
impl SubAssignSpecImpl<&BigUint> for BigUint {
    open spec fn obeys_sub_assign_spec() -> bool { false }
    open spec fn sub_assign_req(&self, rhs: &BigUint) -> bool { self.wf() && rhs.wf() && (!mp() ==> self.v() >= rhs.v()) }
    open spec fn sub_assign_spec(&self, rhs: &BigUint) -> &BigUint { arbitrary() }
}
impl SubSpecImpl<&BigUint> for BigUint {
    open spec fn obeys_sub_spec() -> bool { false }
    open spec fn sub_req(self, rhs: &BigUint) -> bool { self.wf() && rhs.wf() && (!mp() ==> self.v() >= rhs.v()) }
    open spec fn sub_spec(self, rhs: &BigUint) -> BigUint { arbitrary() }
}
impl SubSpecImpl<BigUint> for &BigUint {
    open spec fn obeys_sub_spec() -> bool { false }
    open spec fn sub_req(self, rhs: BigUint) -> bool { self.wf() && rhs.wf() && (!mp() ==> self.v() >= rhs.v()) }
    open spec fn sub_spec(self, rhs: BigUint) -> BigUint { arbitrary() }
}

