//@ unit u_checked : BigUint checked_add / checked_sub / checked_mul (num_traits Checked* impls in src/biguint/addition.rs, subtraction.rs, multiplication.rs)
#![feature(allocator_api)]
use vstd::prelude::*;
use vstd::std_specs::iter::IteratorSpec;
use vstd::std_specs::ops::*;
use core::ops::{Add, Sub, Mul};
use core::cmp::Ordering;
use core::cmp::Ordering::{Equal, Greater, Less};
verus! {
//@ include prelude/core.rs
//@ include prelude/std_specs.rs
//@ include prelude/panic.rs
pub mod u {
use super::*;

//@ extract src/biguint.rs :: struct BigUint
pub struct BigUint {
    data: Vec<BigDigit>,
}
//@ end
//@ include prelude/biguint_view.rs
pub open spec fn ord_of(a: nat, b: nat) -> Ordering {
    if a < b { Ordering::Less } else if a == b { Ordering::Equal } else { Ordering::Greater }
}
//@ include prelude/biguint_ops_forms.rs
impl MulSpecImpl<&BigUint> for &BigUint {
    open spec fn obeys_mul_spec() -> bool { false }
    open spec fn mul_req(self, rhs: &BigUint) -> bool { self.wf() && rhs.wf() }
    open spec fn mul_spec(self, rhs: &BigUint) -> BigUint { arbitrary() }
}
impl Mul<&BigUint> for &BigUint {
    type Output = BigUint;
//@ stub u_mul/mul_rr
}

impl BigUint {
//@ extract src/biguint.rs :: impl BigUint :: const ZERO rules=R9,R13 label=BigUint_ZERO
    exec const ZERO: Self /*+*/ensures Self::ZERO.data@.len() == 0 /*-*/{ BigUint { data: Vec::new() } }
//@ end
//@ stub u_cmp/cmp

    // contract-only re-homing of `impl CheckedAdd / CheckedSub / CheckedMul for BigUint` (num_traits: external traits)
//@ extract src/biguint/addition.rs :: impl CheckedAdd for BigUint :: fn checked_add props=C01,C14
    fn checked_add(&self, v: &BigUint) -> /*+*/(r: /*-*/Option<BigUint>/*+*/)/*-*/
//+{
        requires self.wf(), v.wf()
        ensures r is Some, r.unwrap().wf(), r.unwrap().v() == self.v() + v.v()
//+}
    {
        Some(self.add(v))
    }
//@ end

//@ extract src/biguint/subtraction.rs :: impl CheckedSub for BigUint :: fn checked_sub props=C01,C14
    fn checked_sub(&self, v: &BigUint) -> /*+*/(r: /*-*/Option<BigUint>/*+*/)/*-*/
//+{
        requires self.wf(), v.wf()
        ensures r is None <==> self.v() < v.v(),
            r is Some ==> r.unwrap().wf() && r.unwrap().v() + v.v() == self.v(),
//+}
    {
        match self.cmp(v) {
            Less => None,
            Equal => Some(Self::ZERO),
            Greater => Some(self.sub(v)),
        }
    }
//@ end

//@ extract src/biguint/multiplication.rs :: impl CheckedMul for BigUint :: fn checked_mul props=C02,C14
    fn checked_mul(&self, v: &BigUint) -> /*+*/(r: /*-*/Option<BigUint>/*+*/)/*-*/
//+{
        requires self.wf(), v.wf()
        ensures r is Some, r.unwrap().wf(), r.unwrap().v() == self.v() * v.v()
//+}
    {
        Some(self.mul(v))
    }
//@ end
}

} // mod u
} // verus!
fn main() {}
