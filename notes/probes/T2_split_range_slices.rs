use vstd::prelude::*;
verus! {
type BigDigit = u64;
fn t_split(a: &mut [BigDigit], n: usize)
    requires n <= old(a).len(), n >= 1
    ensures final(a).len() == old(a).len(), final(a)[0] == 5, forall|i: int| 1 <= i < old(a).len() ==> final(a)[i] == old(a)[i]
{
    let (a_lo, a_hi) = a.split_at_mut(n);
    a_lo[0] = 5;
}
fn t_range(a: &mut [BigDigit], n: usize)
    requires n < old(a).len()
    ensures final(a).len() == old(a).len(), forall|i: int| n <= i < old(a).len() ==> final(a)[i] == 9,
            forall|i: int| 0 <= i < n ==> final(a)[i] == old(a)[i]
{
    let ghost fa = final(a)@;
    for x in it: a[n..].iter_mut()
        invariant
            it.seq().len() == fa.len() - n,
            forall|i: int| 0 <= i < it.seq().len() ==> *final(#[trigger] it.seq()[i]) == fa[i + n],
            forall|i: int| 0 <= i < it.index@ ==> #[trigger] fa[i + n] == 9,
    {
        *x = 9;
    }
}
fn t_break(a_hi: &mut [BigDigit]) -> (c: u8)
{
    let mut carry = 1u8;
    for a in a_hi {
        if *a == 0 { carry = 0; break; }
        *a = 0;
    }
    carry
}
} // verus!
fn main() {}
