//@ unit k_div : single-digit division kernels (src/biguint/division.rs)
#![feature(allocator_api)]
use vstd::prelude::*;
use vstd::std_specs::iter::IteratorSpec;
verus! {
//@ include prelude/core.rs
//@ include prelude/std_specs.rs
//@ include prelude/panic.rs
pub mod u {
use super::*;

pub mod big_digit {
    use vstd::prelude::*;
    pub type BigDigit = u64;
//@ extract src/lib.rs :: mod big_digit :: const BITS
    pub(crate) const BITS: u8 = BigDigit::BITS as u8;
//@ end
//@ extract src/lib.rs :: mod big_digit :: const HALF_BITS
    pub(crate) const HALF_BITS: u8 = BITS / 2;
//@ end
//@ extract src/lib.rs :: mod big_digit :: const HALF rules=R13
    pub(crate) exec const HALF: BigDigit /*+*/ensures HALF == 0xffff_ffffu64 /*-*/{ /*+*/proof { assert(1u64 << 32u8 == 0x1_0000_0000u64) by (bit_vector); }/*-*/ (1 << HALF_BITS) - 1 }
//@ end
}

//@ extract src/biguint.rs :: struct BigUint
pub struct BigUint {
    data: Vec<BigDigit>,
}
//@ end
//@ include prelude/biguint_view.rs
impl BigUint {
//@ stub u_core/normalized
}

//@ extract src/biguint/division.rs :: const FAST_DIV_WIDE rules=R0c
pub(super) const FAST_DIV_WIDE: bool = true;
//@ end

//@ assume div_wide : x86 `div` instruction (asm!): contract from the instruction definition; the #DE precondition hi < divisor is proved at every call site under contract
#[verifier::external_body]
fn div_wide(hi: BigDigit, lo: BigDigit, divisor: BigDigit) -> (r: (BigDigit, BigDigit))
    requires hi < divisor
    ensures (hi as nat) * B() + (lo as nat) == (r.0 as nat) * (divisor as nat) + (r.1 as nat), r.1 < divisor
{ unimplemented!() }

//@ assume div_half : not reachable on this target (FAST_DIV_WIDE is true); body uses num_integer::Integer::div_rem on u64
#[verifier::external_body]
fn div_half(rem: BigDigit, digit: BigDigit, divisor: BigDigit) -> (r: (BigDigit, BigDigit))
    requires rem < divisor, divisor <= 0xffff_ffffu64
    ensures (rem as nat) * B() + (digit as nat) == (r.0 as nat) * (divisor as nat) + (r.1 as nat), r.1 < divisor
{ unimplemented!() }

/// the i most significant digits of s
pub open spec fn top(s: Seq<u64>, i: int) -> Seq<u64> { s.subrange(s.len() - i, s.len() as int) }

pub proof fn lemma_top_step(s: Seq<u64>, i: int)
    requires 0 <= i < s.len()
    ensures val(top(s, i + 1)) == (s[s.len() - 1 - i] as nat) + B() * val(top(s, i))
{
    let d = s[s.len() - 1 - i];
    assert(top(s, i + 1) =~= seq![d] + top(s, i));
    lemma_val_concat(seq![d], top(s, i));
    lemma_val_single(d);
    assert(pw(1) == B() * pw(0));
}

pub proof fn lemma_divstep(vq: nat, vs: nat, rem: nat, b: nat, d: nat, q: nat, r: nat)
    requires vq * b + rem == vs, rem * B() + d == q * b + r
    ensures (q + B() * vq) * b + r == d + B() * vs
{
    assert((q + B() * vq) * b == q * b + B() * (vq * b)) by (nonlinear_arith);
    assert(B() * (vq * b + rem) == B() * (vq * b) + rem * B()) by (nonlinear_arith);
}

//@ extract src/biguint/division.rs :: fn div_rem_digit rules=R0,R10r,R11b props=C03,C14,C15
pub(super) fn div_rem_digit(mut a: BigUint, b: BigDigit) -> /*+*/(r: /*-*/(BigUint, BigDigit)/*+*/)/*-*/
//+{
    requires !mp() ==> b != 0
    ensures mp() ==> b != 0, r.0.wf(), a.v() == r.0.v() * (b as nat) + (r.1 as nat), r.1 < b
//+}
{
    if b == 0 {
        __panic()
    }
//+{
    let ghost s = a.data@;
    let ghost n = s.len() as int;
    proof { assert(top(s, 0) =~= Seq::<u64>::empty()); assert(0nat * (b as nat) == 0) by (nonlinear_arith); }
//+}

    let mut rem = 0;

    if !FAST_DIV_WIDE && b <= big_digit::HALF {
        { let mut i__ = a.data.len() ; while i__ > 0
//+{
            invariant false
            decreases i__
//+}
        { i__ -= 1 ; let d = &mut a.data.as_mut_slice()[i__] ;
            let (q, r) = div_half(rem, *d, b);
            *d = q;
            rem = r;
        } }
    } else {
        { let mut i__ = a.data.len() ; while i__ > 0
//+{
            invariant
                a.data@.len() == n, n == s.len(), i__ <= n, rem < b,
                forall|j: int| 0 <= j < i__ ==> a.data@[j] == s[j],
                val(top(a.data@, n - i__)) * (b as nat) + (rem as nat) == val(top(s, n - i__)),
            decreases i__
//+}
        { i__ -= 1 ;
//+{
            let ghost prev = a.data@;
            let ghost k = n - 1 - i__;
            proof { lemma_top_step(s, k); }
//+}
            let d = &mut a.data.as_mut_slice()[i__] ;
//+{
            let ghost dv = *d;
            let ghost rem0 = rem;
//+}
            let (q, r) = div_wide(rem, *d, b);
            *d = q;
            rem = r;
//+{
            proof {
                assert(top(a.data@, k) =~= top(prev, k));
                lemma_top_step(a.data@, k);
                lemma_divstep(val(top(prev, k)), val(top(s, k)), rem0 as nat, b as nat, dv as nat, q as nat, r as nat);
            }
//+}
        } }
    }
//+{
    proof {
        assert(top(a.data@, n) =~= a.data@);
        assert(top(s, n) =~= s);
    }
//+}

    (a.normalized(), rem)
}
//@ end

//@ extract src/biguint/division.rs :: fn rem_digit rules=R0,R4c,R11b props=C03,C14,C15
fn rem_digit(a: &BigUint, b: BigDigit) -> /*+*/(r: /*-*/BigDigit/*+*/)/*-*/
//+{
    requires !mp() ==> b != 0
    ensures mp() ==> b != 0, r < b, exists|q: nat| a.v() == #[trigger] (q * (b as nat)) + (r as nat)
//+}
{
    if b == 0 {
        __panic()
    }
//+{
    let ghost s = a.data@;
    let ghost n = s.len() as int;
    let ghost mut qv: nat = 0;
    proof { assert(top(s, 0) =~= Seq::<u64>::empty()); assert(0nat * (b as nat) == 0) by (nonlinear_arith); }
//+}

    let mut rem = 0;

    if !FAST_DIV_WIDE && b <= big_digit::HALF {
        for x_r__ in /*+*/it: /*-*/a.data.iter().rev()
//+{
            invariant false
//+}
        { let digit = *x_r__ ;
            let (_, r) = div_half(rem, digit, b);
            rem = r;
        }
    } else {
        for x_r__ in /*+*/it: /*-*/a.data.iter().rev()
//+{
            invariant
                s == a.data@, n == s.len(), it.seq().len() == n, rem < b,
                forall|i: int| 0 <= i < it.seq().len() ==> *(#[trigger] it.seq()[i]) == s[n - 1 - i],
                qv * (b as nat) + (rem as nat) == val(top(s, it.index@ as int)),
//+}
        { let digit = *x_r__ ;
//+{
            let ghost k = it.index@ as int;
            let ghost rem0 = rem;
            proof { lemma_top_step(s, k); }
//+}
            let (_, r) = div_wide(rem, digit, b);
            rem = r;
//+{
            proof {
                assert(exists|q: nat| (rem0 as nat) * B() + (digit as nat) == #[trigger] (q * (b as nat)) + (r as nat));
                let q_ = choose|q: nat| (rem0 as nat) * B() + (digit as nat) == #[trigger] (q * (b as nat)) + (r as nat);
                lemma_divstep(qv, val(top(s, k)), rem0 as nat, b as nat, digit as nat, q_ as nat, r as nat);
                qv = (q_ as nat) + B() * qv;
            }
//+}
        }
    }
//+{
    proof { assert(top(s, n) =~= s); }
//+}

    rem
}
//@ end

} // mod u
} // verus!
fn main() {}
