// Ghost model of core::fmt::Formatter for integer formatting: the formatter carries a log of pad_integral calls. std's
// pad_integral applies sign, `+`, `#` prefix, width, fill, alignment and zero padding to (is_nonnegative, prefix, digits);
// that part is std's and is not modelled - the contracts below pin down exactly what the crate hands to it.
pub struct PadCall { pub nonneg: bool, pub prefix: Seq<char>, pub text: Seq<char> }
pub uninterp spec fn flog(f: &core::fmt::Formatter<'_>) -> Seq<PadCall>;
//@ assume core::fmt::Formatter::pad_integral : std: formats one integer from (is_nonnegative, prefix, digit text) under the formatter's flags; ghost log of the call
pub assume_specification<'a>[ core::fmt::Formatter::<'a>::pad_integral ](f: &mut core::fmt::Formatter<'a>, is_nonnegative: bool, prefix: &str, buf: &str) -> (r: Result<(), core::fmt::Error>)
    ensures flog(final(f)) == flog(old(f)).push(PadCall { nonneg: is_nonnegative, prefix: prefix@, text: buf@ });
/// ASCII upper-casing of one character
pub open spec fn upc(c: char) -> char { if 'a' <= c <= 'z' { ((c as u32 - 32) as char) } else { c } }
//@ assume str::make_ascii_uppercase : rule R49 (called on a String through DerefMut): every ASCII lower-case letter is replaced by its upper-case form, everything else unchanged
#[verifier::external_body]
pub fn __make_ascii_uppercase(s: &mut String)
    ensures final(s)@ == old(s)@.map_values(|c: char| upc(c))
{ unimplemented!() }
