use vstd::prelude::*;
use core::ops::{Mul, MulAssign};
use vstd::std_specs::ops::*;
verus! {
pub struct BigUint { pub data: Vec<u64> }
impl BigUint { pub uninterp spec fn v(&self) -> nat; }

impl<'a, 'b> MulSpecImpl<&'b BigUint> for &'a BigUint {
    open spec fn obeys_mul_spec() -> bool { false }
    open spec fn mul_req(self, rhs: &BigUint) -> bool { true }
    open spec fn mul_spec(self, rhs: &BigUint) -> BigUint { arbitrary() }
}
impl<'a, 'b> Mul<&'b BigUint> for &'a BigUint {
    type Output = BigUint;
    #[verifier::external_body]
    fn mul(self, other: &BigUint) -> (r: BigUint)
        ensures r.v() == self.v() * other.v()
    { unimplemented!() }
}
impl MulAssignSpecImpl<&BigUint> for BigUint {
    open spec fn obeys_mul_assign_spec() -> bool { false }
    open spec fn mul_assign_req(self, rhs: &BigUint) -> bool { true }
    open spec fn mul_assign_spec(self, rhs: &BigUint) -> BigUint { arbitrary() }
}
impl MulAssign<&BigUint> for BigUint {
    #[verifier::external_body]
    fn mul_assign(&mut self, other: &BigUint)
        ensures final(self).v() == old(self).v() * other.v()
    { unimplemented!() }
}
fn sq2(a: &BigUint, b: &BigUint) -> (r: BigUint)
    ensures r.v() == a.v() * b.v()
{
    Mul::mul(a, b)
}
fn sq3(a: &mut BigUint, b: &BigUint)
    ensures final(a).v() == old(a).v() * b.v()
{
    *a *= b;
}
} // verus!
fn main() {}
