//@ unit u_shift : BigUint shift cores biguint_shl2 / biguint_shr2: x << k == x * 2^k, x >> k == floor(x / 2^k) (src/biguint/shift.rs)
#![feature(allocator_api)]
use vstd::prelude::*;
use vstd::std_specs::iter::IteratorSpec;
use vstd::arithmetic::power2::pow2;
verus! {
//@ include prelude/core.rs
//@ include prelude/std_specs.rs
pub mod u {
use super::*;

pub mod big_digit {
    use vstd::prelude::*;
    pub type BigDigit = u64;
//@ extract src/lib.rs :: mod big_digit :: const BITS
    pub(crate) const BITS: u8 = BigDigit::BITS as u8;
//@ end
}

//@ extract src/biguint.rs :: struct BigUint
pub struct BigUint {
    data: Vec<BigDigit>,
}
//@ end
//@ include prelude/biguint_view.rs
impl BigUint {
//@ stub u_core/clone
//@ stub u_core/set_zero
}
//@ stub u_core/biguint_from_vec
//@ include prelude/cow.rs

pub open spec fn p2(k: nat) -> nat { pow2(k) }

//@ include prelude/shiftdigit.rs

pub proof fn lemma_shl_step(cur1: Seq<u64>, cur0: Seq<u64>, d0: Seq<u64>, i: nat, c0: nat, c1: nat, ps: nat)
    requires i < d0.len(), cur0.len() == d0.len(), cur1.len() == d0.len(),
        forall|k: int| 0 <= k < i ==> cur1[k] == cur0[k],
        valp(cur0, i) + c0 * pw(i) == ps * valp(d0, i),
        (cur1[i as int] as nat) + c1 * B() == (d0[i as int] as nat) * ps + c0,
    ensures valp(cur1, i + 1) + c1 * pw(i + 1) == ps * valp(d0, i + 1)
{
    lemma_valp_ext(cur1, cur0, i);
    let p = pw(i);
    let x = cur1[i as int] as nat; let o = d0[i as int] as nat;
    assert(valp(cur1, i + 1) == valp(cur1, i) + x * p);
    assert(valp(d0, i + 1) == valp(d0, i) + o * p);
    assert(pw(i + 1) == B() * p);
    assert(ps * (valp(d0, i) + o * p) == ps * valp(d0, i) + (o * ps) * p) by (nonlinear_arith);
    assert((x + c1 * B()) * p == x * p + c1 * (B() * p)) by (nonlinear_arith);
    assert((o * ps + c0) * p == (o * ps) * p + c0 * p) by (nonlinear_arith);
}

//@ extract src/biguint/shift.rs :: fn biguint_shl2 rules=R0,R12h,R10s props=C07,C10,C14
fn biguint_shl2(n: Cow<'_, BigUint>, digits: usize, shift: u8) -> /*+*/(r: /*-*/BigUint/*+*/)/*-*/
//+{
    requires n.get().wf(), shift < 64
    ensures r.wf(), r.v() == n.get().v() * pw(digits as nat) * p2(shift as nat)
//+}
{
//+{
    let ghost nd = n.get().data@;
    let ghost zs = Seq::new(digits as nat, |i: int| 0u64);
    proof { axiom_vec_u64_len(&n.get().data); }
//+}
    let mut data = match digits {
        0 => n.into_owned().data,
        _ => {
            let len = digits.saturating_add(n.data.len() + 1);
            let mut data = Vec::with_capacity(len);
            data.resize(digits, 0);
            data.extend_from_slice(&n.data);
            data
        }
    };
//+{
    let ghost d0 = data@;
    let ghost ps = p2(shift as nat);
    proof {
        assert(d0 =~= zs + nd);
        lemma_val_concat(zs, nd);
        lemma_valp_zeros(zs, digits as nat);
        lemma_valp_zeros(d0, digits as nat);
        vstd::arithmetic::power2::lemma2_to64();
        assert(val(d0) * 1 == val(d0)) by (nonlinear_arith);
        assert(val(nd) * pw(digits as nat) == pw(digits as nat) * val(nd)) by (nonlinear_arith);
    }
//+}

    if shift > 0 {
        let mut carry = 0;
        let carry_shift = big_digit::BITS - shift;
//+{
        let ghost ll = data@.len();
        proof {
            assert(ps * 0 == 0) by (nonlinear_arith);
            assert(0 * pw(digits as nat) == 0) by (nonlinear_arith);
            let s = shift as u64;
            assert(0u64 < (1u64 << s)) by (bit_vector) requires 0 < s < 64;
        }
//+}
        { let mut i__ = digits ; while i__ < data.len()
//+{
            invariant
                data@.len() == ll, d0.len() == ll, digits <= i__ <= ll, 0 < shift < 64, carry_shift == 64 - shift,
                ps == p2(shift as nat),
                forall|k: int| i__ <= k < ll ==> data@[k] == d0[k],
                valp(data@, i__ as nat) + (carry as nat) * pw(i__ as nat) == ps * valp(d0, i__ as nat),
                carry < (1u64 << (shift as u64)),
            decreases ll - i__
//+}
        {
//+{
            let ghost prev = data@;
            let ghost k = i__ as nat;
            let ghost c0 = carry;
//+}
            let elem = &mut data.as_mut_slice()[i__] ; i__ += 1 ;
//+{
            let ghost x = *elem;
            proof { lemma_shl_digit(x, shift as u64, c0); }
//+}
            let new_carry = *elem >> carry_shift;
            *elem = (*elem << shift) | carry;
            carry = new_carry;
//+{
            proof {
                lemma_shl_step(data@, prev, d0, k, c0 as nat, carry as nat, ps);
            }
//+}
        } }
        if carry != 0 {
//+{
            proof { lemma_val_push(data@, carry); assert(pw(ll) * (carry as nat) == (carry as nat) * pw(ll)) by (nonlinear_arith); }
//+}
            data.push(carry);
        }
//+{
        proof {
            assert(0 * pw(ll) == 0) by (nonlinear_arith);
            assert(ps * (pw(digits as nat) * val(nd)) == val(nd) * pw(digits as nat) * ps) by (nonlinear_arith);
        }
//+}
    }

    biguint_from_vec(data)
}
//@ end

/// the i most significant digits of s
pub open spec fn top(s: Seq<u64>, i: int) -> Seq<u64> { s.subrange(s.len() - i, s.len() as int) }

pub proof fn lemma_top_step(s: Seq<u64>, i: int)
    requires 0 <= i < s.len()
    ensures val(top(s, i + 1)) == (s[s.len() - 1 - i] as nat) + B() * val(top(s, i))
{
    let d = s[s.len() - 1 - i];
    assert(top(s, i + 1) =~= seq![d] + top(s, i));
    lemma_val_concat(seq![d], top(s, i));
    lemma_val_single(d);
    assert(pw(1) == B() * pw(0));
}

/// one digit of a right shift by 0 < s < 64 bits; y is the next higher digit (whose low s bits come in on top)
pub proof fn lemma_shr_digit(x: u64, y: u64, s: u64)
    requires 0 < s < 64
    ensures
        (((x >> s) | (y << ((64 - s) as u64))) as nat) == (x as nat) / p2(s as nat) + ((y as nat) % p2(s as nat)) * p2((64 - s) as nat),
        p2(s as nat) * p2((64 - s) as nat) == B(), p2(s as nat) > 0,
        // disjoint bit ranges: |, ^ and + coincide
        ((x >> s) | (y << ((64 - s) as u64))) == ((x >> s) ^ (y << ((64 - s) as u64))),
        ((x >> s) | (y << ((64 - s) as u64))) == add(x >> s, y << ((64 - s) as u64)),
{
    let t = (64 - s) as u64;
    assert(((x >> s) | (y << t)) == ((x >> s) ^ (y << t)) && ((x >> s) | (y << t)) == add(x >> s, y << t)) by (bit_vector) requires t == 64 - s, 0 < s < 64;
    vstd::arithmetic::power2::lemma2_to64();
    vstd::arithmetic::power2::lemma_pow2_adds(s as nat, t as nat);
    vstd::arithmetic::power2::lemma_pow2_pos(t as nat);
    vstd::arithmetic::power2::lemma_pow2_pos(s as nat);
    let pt = p2(t as nat); let ps = p2(s as nat);
    assert(ps * pt == B());
    assert(ps >= 2) by { vstd::arithmetic::power2::lemma_pow2_strictly_increases(0, s as nat); }
    assert(pt >= 2) by { vstd::arithmetic::power2::lemma_pow2_strictly_increases(0, t as nat); }
    vstd::bits::lemma_u64_shr_is_div(x, s);
    let mask = ((1u64 << s) - 1) as u64;
    let m = y & mask;
    assert((1u64 << s) as nat == ps) by {
        assert(1 * ps <= u64::MAX) by (nonlinear_arith) requires ps * pt == B(), pt >= 2, B() == 0x1_0000_0000_0000_0000nat;
        vstd::bits::lemma_u64_shl_is_mul(1u64, s);
    }
    vstd::bits::lemma_u64_low_bits_mask_is_mod(y, s as nat);
    assert(vstd::bits::low_bits_mask(s as nat) == ps - 1) by { vstd::bits::lemma_low_bits_mask_values(); reveal(vstd::bits::low_bits_mask); }
    assert(m as nat == (y as nat) % ps);
    assert((y << t) == (m << t)) by (bit_vector) requires t == 64 - s, 0 < s < 64, m == y & (((1u64 << s) - 1) as u64);
    assert((m as nat) * pt <= u64::MAX) by (nonlinear_arith) requires (m as nat) < ps, ps * pt == 0x1_0000_0000_0000_0000nat, pt >= 1;
    vstd::bits::lemma_u64_shl_is_mul(m, t);
    assert(((x >> s) | (m << t)) == (x >> s) + (m << t)) by (bit_vector) requires t == 64 - s, 0 < s < 64, m < (1u64 << s);
    assert(m < (1u64 << s));
    // no wrap: x >> s < 2^t and m * 2^t <= 2^64 - 2^t
    assert((x >> s) < (1u64 << t)) by (bit_vector) requires t == 64 - s, 0 < s < 64;
    assert((1u64 << t) as nat == pt) by {
        assert(1 * pt <= u64::MAX) by (nonlinear_arith) requires ps * pt == B(), ps >= 2, B() == 0x1_0000_0000_0000_0000nat;
        vstd::bits::lemma_u64_shl_is_mul(1u64, t);
    }
    assert(((x >> s) as nat) + (m as nat) * pt < B()) by (nonlinear_arith)
        requires ((x >> s) as nat) < pt, (m as nat) + 1 <= ps, ps * pt == B();
}

pub proof fn lemma_shr_step(hc: nat, ho: nat, low_y: nat, x: nat, e1: nat, ps: nat, pt: nat)
    requires ps * hc + low_y == ho, e1 == x / ps + low_y * pt, ps * pt == B(), ps > 0
    ensures ps * (e1 + B() * hc) + x % ps == x + B() * ho
{
    vstd::arithmetic::div_mod::lemma_fundamental_div_mod(x as int, ps as int);
    assert(ps * (x / ps + low_y * pt + B() * hc) == ps * (x / ps) + low_y * (ps * pt) + B() * (ps * hc)) by (nonlinear_arith);
    assert(B() * (ps * hc + low_y) == B() * (ps * hc) + low_y * B()) by (nonlinear_arith);
}

//@ extract src/biguint/shift.rs :: fn biguint_shr2 rules=R0,R12i,R10r props=C07,C10,C14
fn biguint_shr2(n: Cow<'_, BigUint>, digits: usize, shift: u8) -> /*+*/(r: /*-*/BigUint/*+*/)/*-*/
//+{
    requires n.get().wf(), shift < 64
    ensures r.wf(), r.v() == n.get().v() / (pw(digits as nat) * p2(shift as nat))
//+}
{
//+{
    let ghost nd = n.get().data@;
    let ghost ps = p2(shift as nat);
    let ghost pd = pw(digits as nat);
    proof {
        vstd::arithmetic::power2::lemma_pow2_pos(shift as nat);
        lemma_pw_pos(digits as nat);
        lemma_valp_bound(nd, nd.len());
        assert(pd * ps >= pd) by (nonlinear_arith) requires ps >= 1, pd >= 1;
    }
//+}
    if digits >= n.data.len() {
//+{
        proof {
            lemma_pw_mono(nd.len(), digits as nat);
            vstd::arithmetic::div_mod::lemma_basic_div(val(nd) as int, (pd * ps) as int);
        }
//+}
        let mut n = n.into_owned();
        n.set_zero();
        return n;
    }
    let mut data = match n {
        Cow::Borrowed(n) => n.data[digits..].to_vec(),
        Cow::Owned(mut n) => {
            __vec_drain_front(&mut n.data, digits);
            n.data
        }
    };
//+{
    let ghost d0 = data@;
    let ghost ll = d0.len();
    proof {
        assert(d0 =~= nd.subrange(digits as int, nd.len() as int));
        lemma_valp_split(nd, digits as nat, ll);
        lemma_valp_bound(nd, digits as nat);
        assert(pd * val(d0) == val(d0) * pd) by (nonlinear_arith);
        vstd::arithmetic::div_mod::lemma_fundamental_div_mod_converse(val(nd) as int, pd as int, val(d0) as int, valp(nd, digits as nat) as int);
        vstd::arithmetic::div_mod::lemma_div_denominator(val(nd) as int, pd as int, ps as int);
        vstd::arithmetic::power2::lemma2_to64();
        vstd::arithmetic::div_mod::lemma_div_basics(val(d0) as int);
    }
//+}

    if shift > 0 {
        let mut borrow = 0;
        let borrow_shift = big_digit::BITS - shift;
//+{
        let ghost yprev = 0u64;
        proof {
            let t = borrow_shift as u64;
            assert(0u64 << t == 0u64) by (bit_vector);
            assert(ps * 0 == 0) by (nonlinear_arith);
            assert(top(d0, 0) =~= Seq::<u64>::empty());
            vstd::arithmetic::div_mod::lemma_small_mod(0, ps);
        }
//+}
        { let mut i__ = data.len() ; while i__ > 0
//+{
            invariant
                data@.len() == ll, d0.len() == ll, i__ <= ll, 0 < shift < 64, borrow_shift == 64 - shift, ps == p2(shift as nat), ps > 0,
                forall|k: int| 0 <= k < i__ ==> data@[k] == d0[k],
                borrow == yprev << (borrow_shift as u64),
                ps * val(top(data@, ll - i__)) + (yprev as nat) % ps == val(top(d0, ll - i__)),
            decreases i__
//+}
        {
//+{
            let ghost prev = data@;
            let ghost y0 = yprev;
//+}
            i__ -= 1 ; let elem = &mut data.as_mut_slice()[i__] ;
//+{
            let ghost x = prev[i__ as int];
            proof { lemma_shr_digit(x, y0, shift as u64); }
//+}
            let new_borrow = *elem << borrow_shift;
            *elem = (*elem >> shift) | borrow;
            borrow = new_borrow;
//+{
            proof {
                yprev = x;
                let j = ll - 1 - i__;
                assert(top(data@, j) =~= top(prev, j));
                lemma_top_step(data@, j);
                lemma_top_step(d0, j);
                lemma_shr_step(val(top(prev, j)), val(top(d0, j)), (y0 as nat) % ps, x as nat, data@[i__ as int] as nat, ps, p2((64 - shift) as nat));
            }
//+}
        } }
//+{
        proof {
            assert(top(data@, ll as int) =~= data@);
            assert(top(d0, ll as int) =~= d0);
            vstd::arithmetic::div_mod::lemma_mod_bound(yprev as int, ps as int);
            assert(ps * val(data@) == val(data@) * ps) by (nonlinear_arith);
            vstd::arithmetic::div_mod::lemma_fundamental_div_mod_converse(val(d0) as int, ps as int, val(data@) as int, ((yprev as nat) % ps) as int);
        }
//+}
    }

    biguint_from_vec(data)
}
//@ end

} // mod u
} // verus!
fn main() {}
