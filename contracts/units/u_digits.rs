//@ unit u_digits : power-of-two radix digit export (bit regrouping, aligned widths): to_bitwise_digits_le (src/biguint/convert.rs)
#![feature(allocator_api)]
use vstd::prelude::*;
use vstd::std_specs::iter::IteratorSpec;
use vstd::arithmetic::power2::pow2;
verus! {
//@ include prelude/core.rs
//@ include prelude/std_specs.rs
//@ include prelude/highbits.rs
//@ include prelude/bitval.rs
//@ include prelude/radixval.rs
//@ include prelude/shiftdigit.rs
pub mod u {
use super::*;

pub mod big_digit {
    use vstd::prelude::*;
    pub type BigDigit = u64;
//@ extract src/lib.rs :: mod big_digit :: const BITS
    pub(crate) const BITS: u8 = BigDigit::BITS as u8;
//@ end
}

//@ extract src/biguint.rs :: struct BigUint
pub struct BigUint {
    data: Vec<BigDigit>,
}
//@ end
//@ include prelude/biguint_view.rs
pub open spec fn p2(k: nat) -> nat { pow2(k) }
impl BigUint {
//@ extract src/biguint.rs :: impl BigUint :: const ZERO rules=R9,R13 label=BigUint_ZERO
    exec const ZERO: Self /*+*/ensures Self::ZERO.data@.len() == 0 /*-*/{ BigUint { data: Vec::new() } }
//@ end
//@ stub u_conv/bits
//@ stub u_core/is_zero
}
//@ stub u_core/biguint_from_vec

//@ assume __cap_hint : rule R12m: capacity hint computed through num_integer::Integer::div_ceil / num_traits::ToPrimitive on u64 (external crates); no property of the value is used
#[verifier::external_body]
fn __cap_hint(a: u64, b: u64) -> (r: usize)
{ unimplemented!() }

/// one output digit of `bits` bits taken from the running remainder r = d / 2^(bits*t)
pub proof fn lemma_take_digit(d: u64, r: u64, bits: u8, t: nat)
    requires 1 <= bits <= 8, bits as nat * t < 64, r as nat == (d as nat) / p2(bits as nat * t)
    ensures
        ((r & (((1u64 << bits) - 1) as u64)) as nat) == ((d as nat) / p2(bits as nat * t)) % p2(bits as nat),
        (r & (((1u64 << bits) - 1) as u64)) < 256,
        ((r >> bits) as nat) == (d as nat) / p2(bits as nat * (t + 1)),
        (d as nat) % p2(bits as nat * (t + 1)) == (d as nat) % p2(bits as nat * t) + (((d as nat) / p2(bits as nat * t)) % p2(bits as nat)) * p2(bits as nat * t),
{
    let b = bits as u64;
    vstd::arithmetic::power2::lemma2_to64();
    vstd::bits::lemma_u64_shr_is_div(r, b);
    vstd::bits::lemma_u64_low_bits_mask_is_mod(r, bits as nat);
    assert(vstd::bits::low_bits_mask(bits as nat) == p2(bits as nat) - 1) by { reveal(vstd::bits::low_bits_mask); }
    assert(1 * p2(b as nat) <= u64::MAX) by { vstd::arithmetic::power2::lemma_pow2_strictly_increases(b as nat, 64); }
    vstd::bits::lemma_u64_shl_is_mul(1u64, b);
    assert((r & (((1u64 << b) - 1) as u64)) < 256) by (bit_vector) requires 1 <= b <= 8;
    lemma_mod_pow2_split(d as nat, bits as nat * t, bits as nat);
    assert(bits as nat * t + bits as nat == bits as nat * (t + 1)) by (nonlinear_arith);
}

/// 2^bits as a u32 shift for 1 <= bits <= 8
pub proof fn lemma_p2_small(bits: u8)
    requires 1 <= bits <= 8
    ensures (1u32 << bits) as nat == p2(bits as nat)
{
    vstd::arithmetic::power2::lemma2_to64();
    assert((1u32 << 1u8) == 2 && (1u32 << 2u8) == 4 && (1u32 << 3u8) == 8 && (1u32 << 4u8) == 16 && (1u32 << 5u8) == 32 && (1u32 << 6u8) == 64 && (1u32 << 7u8) == 128 && (1u32 << 8u8) == 256) by (bit_vector);
}


/// folding one more digit in from the top: acc' = acc * 2^bits + c
pub proof fn lemma_fold_digit(acc: u64, c: u8, bits: u8, n: nat)
    requires 1 <= bits <= 8, (acc as nat) < p2(bits as nat * n), bits as nat * (n + 1) <= 64, (c as nat) < p2(bits as nat)
    ensures (((acc << bits) | (c as u64)) as nat) == (acc as nat) * p2(bits as nat) + (c as nat)
{
    let b = bits as u64;
    let bn = bits as nat;
    vstd::arithmetic::power2::lemma2_to64();
    vstd::arithmetic::power2::lemma_pow2_adds(bn * n, bn);
    assert(bn * n + bn == bn * (n + 1)) by (nonlinear_arith);
    vstd::arithmetic::power2::lemma_pow2_pos(bn);
    if bn * (n + 1) < 64 { vstd::arithmetic::power2::lemma_pow2_strictly_increases(bn * (n + 1), 64); }
    assert((acc as nat) * p2(bn) <= u64::MAX) by (nonlinear_arith)
        requires (acc as nat) + 1 <= p2(bn * n), p2(bn * n) * p2(bn) <= 0x1_0000_0000_0000_0000, p2(bn) >= 1;
    vstd::bits::lemma_u64_shl_is_mul(acc, b);
    lemma_p2_small(bits);
    let cc = c as u64;
    assert((1u32 << bits) as u64 == (1u64 << b)) by (bit_vector) requires 1 <= bits <= 8, b == bits as u64;
    assert(((acc << b) | cc) == add(acc << b, cc)) by (bit_vector) requires 1 <= b <= 8, cc < (1u64 << b);
    assert((acc as nat) * p2(bn) + (c as nat) < 0x1_0000_0000_0000_0000) by (nonlinear_arith)
        requires (acc as nat) + 1 <= p2(bn * n), p2(bn * n) * p2(bn) <= 0x1_0000_0000_0000_0000, (c as nat) < p2(bn);
}


/// dropping zero digits from the top keeps the value
pub proof fn lemma_valb_drop_zero(s: Seq<u8>, bits: nat)
    requires s.len() > 0, s[s.len() - 1] == 0
    ensures valb(s.drop_last(), bits, (s.len() - 1) as nat) == valb(s, bits, s.len())
{
    lemma_valb_ext(s.drop_last(), s, bits, (s.len() - 1) as nat);
    assert(0 * p2(bits * ((s.len() - 1) as nat)) == 0) by (nonlinear_arith);
}

/// the digit taken from a 64-bit window that may have lost high bits: window == T mod 2^64
pub proof fn lemma_take_digit_trunc(tt: nat, r: u64, h: nat, bits: u8)
    requires 1 <= bits <= 8, tt == (r as nat) + h * p2(64)
    ensures ((r & (((1u64 << bits) - 1) as u64)) as nat) == tt % p2(bits as nat), (r & (((1u64 << bits) - 1) as u64)) < 256,
        ((r >> bits) as nat) == (r as nat) / p2(bits as nat),
{
    let b = bits as u64;
    vstd::arithmetic::power2::lemma2_to64();
    vstd::bits::lemma_u64_shr_is_div(r, b);
    vstd::bits::lemma_u64_low_bits_mask_is_mod(r, bits as nat);
    assert(vstd::bits::low_bits_mask(bits as nat) == p2(bits as nat) - 1) by { reveal(vstd::bits::low_bits_mask); }
    assert(1 * p2(b as nat) <= u64::MAX) by { vstd::arithmetic::power2::lemma_pow2_strictly_increases(b as nat, 64); }
    vstd::bits::lemma_u64_shl_is_mul(1u64, b);
    assert((r & (((1u64 << b) - 1) as u64)) < 256) by (bit_vector) requires 1 <= b <= 8;
    lemma_low_bits_of_trunc(tt, r as nat, h, bits as nat);
}

/// a < b * c  ==>  a / b < c
pub proof fn lemma_div_upper_(a: nat, b: nat, c: nat)
    requires b > 0, a < b * c
    ensures a / b < c
{
    vstd::arithmetic::div_mod::lemma_fundamental_div_mod(a as int, b as int);
    vstd::arithmetic::div_mod::lemma_mod_bound(a as int, b as int);
    let q = a / b;
    if q >= c { assert(b * q >= b * c) by (nonlinear_arith) requires q >= c; }
}

/// appending one digit at position n
pub proof fn lemma_valb_push(s: Seq<u8>, bits: nat, x: u8)
    ensures valb(s.push(x), bits, s.len() + 1) == valb(s, bits, s.len()) + (x as nat) * p2(bits * s.len())
{
    lemma_valb_ext(s.push(x), s, bits, s.len());
}

pub mod convert {
use super::*;
//@ extract src/biguint/convert.rs :: fn to_bitwise_digits_le rules=R0,R14,R12m,R10c props=C06,C09,C14
pub(super) fn to_bitwise_digits_le(u: &BigUint, bits: u8) -> /*+*/(res: /*-*/Vec<u8>/*+*/)/*-*/
//+{
    requires u.wf(), u.v() != 0, 1 <= bits <= 8, 64int % (bits as int) == 0
    ensures res@.len() >= 1, valb(res@, bits as nat, res@.len()) == u.v(),
        forall|i: int| 0 <= i < res@.len() ==> (#[trigger] res@[i] as nat) < p2(bits as nat),
        res@[res@.len() - 1] != 0,
        forall|i: int| 0 <= i < res@.len() ==> (#[trigger] res@[i] as u32) < (1u32 << bits),
//+}
{

//+{
    let ghost data = u.data@;
    let ghost bn = bits as nat;
    proof {
        lemma_wf_zero(data);
        vstd::arithmetic::power2::lemma2_to64();
        let b = bits as u64;
        assert(1 * p2(b as nat) <= u64::MAX) by { vstd::arithmetic::power2::lemma_pow2_strictly_increases(b as nat, 64); }
        vstd::bits::lemma_u64_shl_is_mul(1u64, b);
    }
//+}
    let last_i = u.data.len() - 1;
    let mask: BigDigit = (1 << bits) - 1;
    let digits_per_big_digit = big_digit::BITS / bits;
    let digits = __cap_hint(u.bits(), u64::from(bits));
    let mut res = Vec::with_capacity(digits);
//+{
    let ghost kk = digits_per_big_digit as nat;
    proof {
        assert(bn * kk == 64) by { if bits == 1 {} else if bits == 2 {} else if bits == 4 {} else if bits == 8 {} else { assert(false); } }
        assert(0 * kk == 0) by (nonlinear_arith);
    }
//+}

    { let mut i__ = 0 ; while i__ < last_i
//+{
        invariant
            data == u.data@, last_i == data.len() - 1, i__ <= last_i, 1 <= bits <= 8, bn == bits as nat, kk == digits_per_big_digit as nat, bn * kk == 64,
            mask == (((1u64 << bits) - 1) as u64),
            res@.len() == i__ * kk,
            valb(res@, bn, res@.len()) == valp(data, i__ as nat),
            forall|j: int| 0 <= j < res@.len() ==> (#[trigger] res@[j] as nat) < p2(bn),
        decreases last_i - i__
//+}
    { let mut r = u.data[i__] ; i__ += 1 ;
//+{
        let ghost d = r;
        let ghost base_len = res@.len();
        let ghost iv = (i__ - 1) as nat;
        proof {
            vstd::arithmetic::power2::lemma2_to64();
            assert(bn * 0 == 0) by (nonlinear_arith);
            assert(p2(bn * 0) == 1);
            assert((d as nat) / 1 == d as nat && (d as nat) % 1 == 0) by (nonlinear_arith);
            assert(0 * p2(64 * iv) == 0) by (nonlinear_arith);
            vstd::arithmetic::power2::lemma_pow2_pos(bn);
        }
//+}
        for _t in /*+*/it: /*-*/0..digits_per_big_digit
//+{
            invariant
                1 <= bits <= 8, bn == bits as nat, kk == digits_per_big_digit as nat, bn * kk == 64, mask == (((1u64 << bits) - 1) as u64),
                it.index@ <= kk, it.seq().len() == kk,
                res@.len() == base_len + it.index@, base_len == iv * kk,
                r as nat == (d as nat) / p2(bn * (it.index@ as nat)),
                valb(res@, bn, res@.len()) == valp(data, iv) + ((d as nat) % p2(bn * (it.index@ as nat))) * p2(64 * iv),
                forall|j: int| 0 <= j < res@.len() ==> (#[trigger] res@[j] as nat) < p2(bn),
//+}
        {
//+{
            let ghost t = it.index@ as nat;
            let ghost r0 = res@;
            proof {
                vstd::arithmetic::power2::lemma2_to64();
                vstd::arithmetic::power2::lemma_pow2_pos(bn);
                assert(bn * t < 64) by (nonlinear_arith) requires t < kk, bn * kk == 64, bn >= 1;
                lemma_take_digit(d, r, bits, t);
                vstd::arithmetic::div_mod::lemma_mod_bound((r as nat) as int, p2(bn) as int);
            }
//+}
            res.push((r & mask) as u8);
            r >>= bits;
//+{
            proof {
                let x = r0.len();
                lemma_valb_push(r0, bn, res@[x as int]);
                assert(res@ =~= r0.push(res@[x as int]));
                // position weight: bits * (iv*kk + t) == 64*iv + bits*t
                assert(bn * (iv * kk + t) == 64 * iv + bn * t) by (nonlinear_arith) requires bn * kk == 64;
                vstd::arithmetic::power2::lemma_pow2_adds(64 * iv, bn * t);
                let dg = ((d as nat) / p2(bn * t)) % p2(bn);
                assert(dg * (p2(64 * iv) * p2(bn * t)) == (dg * p2(bn * t)) * p2(64 * iv)) by (nonlinear_arith);
                let a1 = (d as nat) % p2(bn * t); let b1 = dg * p2(bn * t); let c1 = p2(64 * iv);
            assert((a1 + b1) * c1 == a1 * c1 + b1 * c1) by (nonlinear_arith);
            }
//+}
        }
//+{
        proof {
            // all 64 bits consumed: d % 2^64 == d
            vstd::arithmetic::power2::lemma2_to64();
            vstd::arithmetic::div_mod::lemma_small_mod(d as nat, p2(64));
            lemma_pw_p2_(iv);
            assert(valp(data, iv + 1) == valp(data, iv) + (data[iv as int] as nat) * pw(iv));
            assert((iv + 1) * kk == iv * kk + kk) by (nonlinear_arith);
        }
//+}
    } }

    let mut r = u.data[last_i];
//+{
    let ghost d = r;
    let ghost base_len = res@.len();
    let ghost iv = last_i as nat;
    let ghost t: nat = 0;
    proof {
        assert(bn * 0 == 0) by (nonlinear_arith);
        assert(p2(bn * 0) == 1);
        assert((d as nat) / 1 == d as nat && (d as nat) % 1 == 0) by (nonlinear_arith);
        assert(0 * p2(64 * iv) == 0) by (nonlinear_arith);
        vstd::arithmetic::power2::lemma_pow2_pos(bn);
    }
//+}
    while r != 0
//+{
        invariant
            1 <= bits <= 8, bn == bits as nat, kk == digits_per_big_digit as nat, bn * kk == 64, mask == (((1u64 << bits) - 1) as u64),
            res@.len() == base_len + t, base_len == iv * kk, bn * t <= 64,
            r as nat == (d as nat) / p2(bn * t),
            valb(res@, bn, res@.len()) == valp(data, iv) + ((d as nat) % p2(bn * t)) * p2(64 * iv),
            forall|j: int| 0 <= j < res@.len() ==> (#[trigger] res@[j] as nat) < p2(bn),
            t > 0 && r == 0 ==> res@[res@.len() - 1] != 0,
            d != 0, t == 0 ==> r == d,
        decreases r
//+}
    {
//+{
        let ghost r0 = res@;
        let ghost rr = r;
        proof {
            vstd::arithmetic::power2::lemma2_to64();
            vstd::arithmetic::power2::lemma_pow2_pos(bn);
            if bn * t >= 64 {
                assert(bn * t == 64);
                vstd::arithmetic::div_mod::lemma_basic_div(d as int, p2(bn * t) as int);
                assert(false);
            }
            lemma_take_digit(d, r, bits, t);
            vstd::arithmetic::div_mod::lemma_mod_bound((r as nat) as int, p2(bn) as int);
            let b = bits as u64;
            assert(rr != 0 && (rr >> b) == 0 ==> (rr & (((1u64 << b) - 1) as u64)) != 0) by (bit_vector) requires 1 <= b <= 8;
            assert(rr != 0 ==> (rr >> b) < rr) by (bit_vector) requires 1 <= b <= 8;
        }
//+}
        res.push((r & mask) as u8);
        r >>= bits;
//+{
        proof {
            let x = r0.len();
            lemma_valb_push(r0, bn, res@[x as int]);
            assert(res@ =~= r0.push(res@[x as int]));
            assert(bn * (iv * kk + t) == 64 * iv + bn * t) by (nonlinear_arith) requires bn * kk == 64;
            vstd::arithmetic::power2::lemma_pow2_adds(64 * iv, bn * t);
            let dg = ((d as nat) / p2(bn * t)) % p2(bn);
            assert(dg * (p2(64 * iv) * p2(bn * t)) == (dg * p2(bn * t)) * p2(64 * iv)) by (nonlinear_arith);
            let a1 = (d as nat) % p2(bn * t); let b1 = dg * p2(bn * t); let c1 = p2(64 * iv);
            assert((a1 + b1) * c1 == a1 * c1 + b1 * c1) by (nonlinear_arith);
            assert(t < kk) by (nonlinear_arith) requires bn * t < bn * kk, bn >= 1;
            assert(bn * (t + 1) <= bn * kk) by (nonlinear_arith) requires t + 1 <= kk;
            t = t + 1;
        }
//+}
    }
//+{
    proof {
        // r == 0: d < 2^(bits*t), so d % 2^(bits*t) == d
        vstd::arithmetic::power2::lemma_pow2_pos(bn * t);
        if (d as nat) >= p2(bn * t) { vstd::arithmetic::div_mod::lemma_div_non_zero(d as int, p2(bn * t) as int); }
        vstd::arithmetic::div_mod::lemma_small_mod(d as nat, p2(bn * t));
        lemma_pw_p2_(iv);
        assert(valp(data, iv + 1) == valp(data, iv) + (data[iv as int] as nat) * pw(iv));
    }
//+}

//+{
    proof { lemma_p2_small(bits); }
//+}
    res
}
//@ end
//@ extract src/biguint/convert.rs :: fn from_bitwise_digits_le rules=R0,R14,R26 props=C06,C09,C14
pub(super) fn from_bitwise_digits_le(v: &[u8], bits: u8) -> /*+*/(res: /*-*/BigUint/*+*/)/*-*/
//+{
    requires 1 <= bits <= 8, 64int % (bits as int) == 0, forall|i: int| 0 <= i < v@.len() ==> (#[trigger] v@[i] as nat) < p2(bits as nat)
    ensures res.wf(), res.v() == valb(v@, bits as nat, v@.len())
//+}
{

    let digits_per_big_digit = big_digit::BITS / bits;
//+{
    let ghost bn = bits as nat;
    let ghost kk = digits_per_big_digit as nat;
    let ghost vs = v@;
    proof {
        if bits == 3 { assert(64int % 3 != 0); } if bits == 5 { assert(64int % 5 != 0); } if bits == 6 { assert(64int % 6 != 0); } if bits == 7 { assert(64int % 7 != 0); }
        assert(bits == 1 || bits == 2 || bits == 4 || bits == 8);
        assert(bn * kk == 64) by { if bits == 1 {} else if bits == 2 {} else if bits == 4 {} else if bits == 8 {} }
        assert(kk >= 8) by { if bits == 1 {} else if bits == 2 {} else if bits == 4 {} else if bits == 8 {} }
        assert(bn * 0 == 0) by (nonlinear_arith);
        assert(0 * kk == 0) by (nonlinear_arith);
    }
//+}

    let data = { let mut out__ = Vec::new() ; let n__ : usize = digits_per_big_digit.into() ; let mut i__ = 0 ; while i__ < v.len()
//+{
        invariant
            vs == v@, 1 <= bits <= 8, bn == bits as nat, kk == digits_per_big_digit as nat, n__ == kk, bn * kk == 64, kk >= 8,
            i__ <= v.len(), i__ == out__@.len() * kk || i__ == v.len(), i__ <= out__@.len() * kk,
            val(out__@) == valb(vs, bn, i__ as nat),
            forall|i: int| 0 <= i < vs.len() ==> (#[trigger] vs[i] as nat) < p2(bn),
        decreases v.len() - i__
//+}
    { let e__ = if v.len() - i__ < n__ { v.len() } else { i__ + n__ } ; let chunk = &v[i__..e__] ; let mut acc = 0 ; let mut j__ = chunk.len() ;
//+{
        let ghost cs = chunk@;
        let ghost cl = cs.len();
        let ghost o0 = out__@;
        proof {
            assert(cs =~= vs.subrange(i__ as int, e__ as int));
            assert(cs.subrange(cl as int, cl as int) =~= Seq::<u8>::empty());
            vstd::arithmetic::power2::lemma2_to64();
            assert(bn * 0 == 0) by (nonlinear_arith);
        }
//+}
        while j__ > 0
//+{
            invariant
                cs == chunk@, cl == cs.len(), cl <= kk, j__ <= cl, 1 <= bits <= 8, bn == bits as nat, bn * kk == 64,
                acc as nat == valb(cs.subrange(j__ as int, cl as int), bn, (cl - j__) as nat),
                (acc as nat) < p2(bn * ((cl - j__) as nat)),
                forall|i: int| 0 <= i < cl ==> (#[trigger] cs[i] as nat) < p2(bn),
            decreases j__
//+}
        { j__ -= 1 ; let c = chunk[j__] ;
//+{
            proof {
                let n = (cl - j__ - 1) as nat;
                assert(bn * (n + 1) <= bn * kk) by (nonlinear_arith) requires n + 1 <= kk;
                lemma_fold_digit(acc, c, bits, n);
                let sub = cs.subrange(j__ as int, cl as int);
                lemma_valb_cons(sub, bn, n + 1);
                assert(sub.subrange(1, sub.len() as int) =~= cs.subrange(j__ + 1, cl as int));
                assert(p2(bn) * valb(cs.subrange(j__ + 1, cl as int), bn, n) == valb(cs.subrange(j__ + 1, cl as int), bn, n) * p2(bn)) by (nonlinear_arith);
                assert forall|i: int| 0 <= i < n + 1 implies (#[trigger] sub[i] as nat) < p2(bn) by { assert(sub[i] == cs[j__ + i]); }
                lemma_valb_bound(sub, bn, n + 1);
            }
//+}
            acc = (acc << bits) | BigDigit::from(c) ; }
//+{
        proof {
            assert(cs.subrange(0, cl as int) =~= cs);
            lemma_valb_split(vs, bn, i__ as nat, cl);
            lemma_valb_ext(vs.subrange(i__ as int, vs.len() as int), cs, bn, cl);
            lemma_val_push(o0, acc);
            lemma_pw_p2_(o0.len());
            assert(bn * (i__ as nat) == 64 * o0.len()) by (nonlinear_arith) requires i__ == o0.len() * kk, bn * kk == 64;
            assert((o0.len() + 1) * kk == o0.len() * kk + kk) by (nonlinear_arith);
        }
//+}
        out__.push(acc) ; i__ = e__ ; } out__ };

    biguint_from_vec(data)
}
//@ end

//@ extract src/biguint/convert.rs :: fn to_inexact_bitwise_digits_le rules=R0,R14,R12m,R10d,R12n props=C06,C14
fn to_inexact_bitwise_digits_le(u: &BigUint, bits: u8) -> /*+*/(res: /*-*/Vec<u8>/*+*/)/*-*/
//+{
    requires u.wf(), u.v() != 0, 1 <= bits <= 8, 64int % (bits as int) != 0
    ensures res@.len() >= 1, valb(res@, bits as nat, res@.len()) == u.v(),
        forall|i: int| 0 <= i < res@.len() ==> (#[trigger] res@[i] as nat) < p2(bits as nat),
        res@[res@.len() - 1] != 0,
        forall|i: int| 0 <= i < res@.len() ==> (#[trigger] res@[i] as u32) < (1u32 << bits),
//+}
{

//+{
    let ghost data = u.data@;
    let ghost bn = bits as nat;
    proof {
        vstd::arithmetic::power2::lemma2_to64();
        let b = bits as u64;
        assert(1 * p2(b as nat) <= u64::MAX) by { vstd::arithmetic::power2::lemma_pow2_strictly_increases(b as nat, 64); }
        vstd::bits::lemma_u64_shl_is_mul(1u64, b);
        assert(bits >= 3) by { if bits == 1 { assert(64int % 1 == 0); } if bits == 2 { assert(64int % 2 == 0); } }
        assert(bn * 0 == 0) by (nonlinear_arith);
        assert(0nat / 1 == 0 && 0nat % 1 == 0) by (nonlinear_arith);
    }
//+}
    let mask: BigDigit = (1 << bits) - 1;
    let digits = __cap_hint(u.bits(), u64::from(bits));
    let mut res = Vec::with_capacity(digits);

    let mut r = 0;
    let mut rbits = 0;

    { let mut i__ = 0 ; while i__ < u.data.len()
//+{
        invariant
            data == u.data@, 3 <= bits <= 8, bn == bits as nat, mask == (((1u64 << bits) - 1) as u64), i__ <= data.len(),
            rbits < bits, rbits as nat + bn * res@.len() == 64 * (i__ as nat),
            r as nat == valp(data, i__ as nat) / p2(bn * res@.len()),
            (r as nat) < p2(rbits as nat),
            valb(res@, bn, res@.len()) == valp(data, i__ as nat) % p2(bn * res@.len()),
            forall|j: int| 0 <= j < res@.len() ==> (#[trigger] res@[j] as nat) < p2(bn),
        decreases data.len() - i__
//+}
    { let c = &u.data[i__] ; i__ += 1 ;
//+{
        let ghost iv = (i__ - 1) as nat;
        let ghost cc = *c;
        let ghost k = rbits as nat;
        let ghost r_old = r;
        let ghost n0 = res@.len();
        let ghost uu = valp(data, iv);
        let ghost u1 = valp(data, iv + 1);
        let ghost hi: nat = if k == 0 { 0 } else { (cc >> ((64 - rbits) as u64)) as nat };
        proof {
            vstd::arithmetic::power2::lemma2_to64();
            lemma_pw_p2_(iv);
            assert(u1 == uu + (cc as nat) * pw(iv));
            assert(64 * iv == bn * n0 + k);
            lemma_add_high(uu, cc as nat, bn * n0, k);
            // window after the OR: r_new + hi * 2^64 == r_old + c * 2^k
            if k > 0 {
                let kk = rbits as u64;
                vstd::arithmetic::power2::lemma_pow2_strictly_increases(k, 64);
                assert(1 * p2(kk as nat) <= u64::MAX);
                vstd::bits::lemma_u64_shl_is_mul(1u64, kk);
                lemma_shl_digit(cc, kk, r_old);
                assert((r_old | (cc << kk)) == ((cc << kk) | r_old)) by (bit_vector);
            } else {
                assert(r_old == 0);
                assert(cc << 0u8 == cc) by (bit_vector);
                assert((0u64 | cc) == cc) by (bit_vector);
                assert((cc as nat) * 1 == cc as nat) by (nonlinear_arith);
            }
        }
//+}
        r |= *c << rbits;
        rbits += big_digit::BITS;
//+{
        proof {
            assert((r as nat) + hi * p2(64) == (r_old as nat) + (cc as nat) * p2(k));
        }
//+}

        while rbits >= bits
//+{
            invariant
                3 <= bits <= 8, bn == bits as nat, mask == (((1u64 << bits) - 1) as u64), k < bn, n0 <= res@.len(),
                rbits as nat + bn * res@.len() == 64 * (iv + 1), rbits <= 64 + k,
                u1 == valp(data, iv + 1),
                rbits <= 64 ==> r as nat == u1 / p2(bn * res@.len()),
                rbits > 64 ==> res@.len() == n0 && rbits == 64 + k && (r as nat) + hi * p2(64) == u1 / p2(bn * n0)
                    && u1 / p2(bn * n0) == (r_old as nat) + (cc as nat) * p2(k) && (r_old as nat) < p2(k),
                valb(res@, bn, res@.len()) == u1 % p2(bn * res@.len()),
                forall|j: int| 0 <= j < res@.len() ==> (#[trigger] res@[j] as nat) < p2(bn),
                cc == *c,
            decreases rbits
//+}
        {
//+{
            let ghost n = res@.len();
            let ghost r0s = res@;
            let ghost tt = u1 / p2(bn * n);
            let ghost rb = rbits;
            proof {
                vstd::arithmetic::power2::lemma2_to64();
                vstd::arithmetic::power2::lemma_pow2_pos(bn);
                lemma_take_digit_trunc(tt, r, if rb > 64 { hi } else { 0 }, bits);
                assert(0 * p2(64) == 0) by (nonlinear_arith);
                lemma_mod_pow2_split(u1, bn * n, bn);
                assert(bn * n + bn == bn * (n + 1)) by (nonlinear_arith);
                vstd::arithmetic::div_mod::lemma_mod_bound(tt as int, p2(bn) as int);
                if rb > 64 {
                    lemma_div_skip_low(r_old as nat, cc as nat, k, bn);
                    vstd::bits::lemma_u64_shr_is_div(cc, ((bits as u64) - (k as u64)) as u64);
                }
            }
//+}
            res.push((r & mask) as u8);
            r >>= bits;

            // r had more bits than it could fit - grab the bits we lost
            if rbits > big_digit::BITS {
                r = *c >> (big_digit::BITS - (rbits - bits));
            }

            rbits -= bits;
//+{
            proof {
                let x = r0s.len();
                lemma_valb_push(r0s, bn, res@[x as int]);
                assert(res@ =~= r0s.push(res@[x as int]));
                assert((tt % p2(bn)) * p2(bn * n) == ((u1 / p2(bn * n)) % p2(bn)) * p2(bn * n));
            }
//+}
        }
//+{
        proof {
            // rbits < bits <= 64: the window is exact and below 2^rbits
            let n = res@.len();
            assert(bn * n + rbits as nat == 64 * (iv + 1));
            lemma_valp_bound(data, iv + 1);
            lemma_pw_p2_(iv + 1);
            vstd::arithmetic::power2::lemma_pow2_adds(bn * n, rbits as nat);
            vstd::arithmetic::power2::lemma_pow2_pos(bn * n);
            lemma_div_upper_(u1, p2(bn * n), p2(rbits as nat));
        }
//+}
    } }

//+{
    let ghost n = res@.len();
    let ghost r0s = res@;
    proof {
        assert(valp(data, data.len()) == u.v());
        vstd::arithmetic::power2::lemma2_to64();
        vstd::arithmetic::power2::lemma_pow2_pos(bn * n);
        lemma_mod_pow2_split(u.v(), bn * n, rbits as nat);
        vstd::arithmetic::div_mod::lemma_fundamental_div_mod(u.v() as int, p2(bn * n) as int);
        if rbits > 0 { vstd::arithmetic::power2::lemma_pow2_strictly_increases(rbits as nat, bn); }
    }
//+}
    if rbits != 0 {
        res.push(r as u8);
//+{
        proof {
            lemma_valb_push(r0s, bn, res@[n as int]);
            assert(res@ =~= r0s.push(res@[n as int]));
            assert(p2(bn * n) * (r as nat) == (r as nat) * p2(bn * n)) by (nonlinear_arith);
        }
//+}
    }
//+{
    proof {
        if rbits == 0 {
            assert((r as nat) < 1);
            assert(p2(bn * n) * 0 == 0) by (nonlinear_arith);
        }
        assert(valb(res@, bn, res@.len()) == u.v());
    }
//+}

    while __last_is_zero(&res)
//+{
        invariant valb(res@, bn, res@.len()) == u.v(), forall|j: int| 0 <= j < res@.len() ==> (#[trigger] res@[j] as nat) < p2(bn),
        decreases res@.len()
//+}
    {
//+{
        proof { lemma_valb_drop_zero(res@, bn); }
//+}
        res.pop();
    }
//+{
    proof { lemma_p2_small(bits); }
//+}

    res
}
//@ end

//@ extract src/biguint/convert.rs :: fn from_inexact_bitwise_digits_le rules=R0,R14,R12m,R10e props=C06,C14
fn from_inexact_bitwise_digits_le(v: &[u8], bits: u8) -> /*+*/(res: /*-*/BigUint/*+*/)/*-*/
//+{
    requires 1 <= bits <= 8, 64int % (bits as int) != 0, forall|i: int| 0 <= i < v@.len() ==> (#[trigger] v@[i] as nat) < p2(bits as nat)
    ensures res.wf(), res.v() == valb(v@, bits as nat, v@.len())
//+}
{

    let total_bits = (v.len() as u64).saturating_mul(bits.into());
    let big_digits = __cap_hint(total_bits, big_digit::BITS.into());
    let mut data = Vec::with_capacity(big_digits);

    let mut d = 0;
    let mut dbits = 0; // number of bits we currently have in d
//+{
    let ghost vs = v@;
    let ghost bn = bits as nat;
    proof {
        vstd::arithmetic::power2::lemma2_to64();
        assert(bits >= 3) by { if bits == 1 { assert(64int % 1 == 0); } if bits == 2 { assert(64int % 2 == 0); } }
        assert(bn * 0 == 0 && 64 * 0 == 0) by (nonlinear_arith);
        assert(0nat / 1 == 0 && 0nat % 1 == 0) by (nonlinear_arith);
    }
//+}

    // walk v accumululating bits in d; whenever we accumulate big_digit::BITS in d, spit out a
    // big_digit:
    { let mut i__ = 0 ; while i__ < v.len()
//+{
        invariant
            vs == v@, 3 <= bits <= 8, bn == bits as nat, i__ <= vs.len(),
            dbits < 64, dbits as nat + 64 * data@.len() == bn * (i__ as nat),
            d as nat == valb(vs, bn, i__ as nat) / p2(64 * data@.len()),
            (d as nat) < p2(dbits as nat),
            val(data@) == valb(vs, bn, i__ as nat) % p2(64 * data@.len()),
            forall|i: int| 0 <= i < vs.len() ==> (#[trigger] vs[i] as nat) < p2(bn),
        decreases vs.len() - i__
//+}
    { let c = v[i__] ; i__ += 1 ;
//+{
        let ghost jv = (i__ - 1) as nat;
        let ghost k = dbits as nat;
        let ghost d_old = d;
        let ghost m0 = data@.len();
        let ghost dat0 = data@;
        let ghost vv = valb(vs, bn, jv);
        let ghost v1 = valb(vs, bn, jv + 1);
        let ghost cc = c as u64;
        let ghost hi: nat = if k == 0 { 0 } else { (cc >> ((64 - dbits) as u64)) as nat };
        proof {
            vstd::arithmetic::power2::lemma2_to64();
            assert(v1 == vv + (c as nat) * p2(bn * jv));
            assert(bn * jv == 64 * m0 + k);
            assert(bn * (jv + 1) == bn * jv + bn) by (nonlinear_arith);
            lemma_add_high(vv, c as nat, 64 * m0, k);
            if k > 0 {
                let kk = dbits as u64;
                vstd::arithmetic::power2::lemma_pow2_strictly_increases(k, 64);
                assert(1 * p2(kk as nat) <= u64::MAX);
                vstd::bits::lemma_u64_shl_is_mul(1u64, kk);
                lemma_shl_digit(cc, kk, d_old);
                assert((d_old | (cc << kk)) == ((cc << kk) | d_old)) by (bit_vector);
            } else {
                assert(d_old == 0);
                assert(cc << 0u8 == cc) by (bit_vector);
                assert((0u64 | cc) == cc) by (bit_vector);
                assert((cc as nat) * 1 == cc as nat) by (nonlinear_arith);
            }
            // c < 2^bits: below 64 bits in total nothing is lost
            vstd::arithmetic::power2::lemma_pow2_adds(k, bn);
            if k + bn < 64 { vstd::arithmetic::power2::lemma_pow2_strictly_increases(k + bn, 64); }
            assert((d_old as nat) + (c as nat) * p2(k) < p2(k + bn)) by (nonlinear_arith)
                requires (d_old as nat) < p2(k), (c as nat) + 1 <= p2(bn), p2(k + bn) == p2(k) * p2(bn);
        }
//+}
        d |= BigDigit::from(c) << dbits;
        dbits += bits;
//+{
        proof {
            assert((d as nat) + hi * p2(64) == (d_old as nat) + (c as nat) * p2(k));
            if k + bn < 64 {
                // no overflow: hi == 0
                if hi > 0 { assert(hi * p2(64) >= p2(64)) by (nonlinear_arith) requires hi >= 1; assert(false); }
            }
        }
//+}

        if dbits >= big_digit::BITS {
//+{
            proof {
                // the pushed digit is the low 64 bits of v1 / 2^(64 m0); the rest is c >> (64 - k)
                let tt = v1 / p2(64 * m0);
                assert(tt == (d as nat) + hi * p2(64));
                assert(hi * p2(64) == p2(64) * hi) by (nonlinear_arith);
                vstd::arithmetic::div_mod::lemma_fundamental_div_mod_converse(tt as int, p2(64) as int, hi as int, d as int);
                lemma_mod_pow2_split(v1, 64 * m0, 64);
                assert(64 * m0 + 64 == 64 * (m0 + 1));
                lemma_val_push(dat0, d);
                lemma_pw_p2_(m0);
                assert(pw(m0) * (d as nat) == (d as nat) * p2(64 * m0)) by (nonlinear_arith) requires pw(m0) == p2(64 * m0);
                if k > 0 {
                    lemma_div_skip_low(d_old as nat, c as nat, k, 64);
                    vstd::bits::lemma_u64_shr_is_div(cc, (64 - k) as u64);
                } else {
                    // k == 0 cannot reach 64 bits with one digit of at most 8 bits
                    assert(false);
                }
                // the new partial digit is below 2^(k + bits - 64)
                vstd::arithmetic::power2::lemma_pow2_adds((k + bn - 64) as nat, 64);
                lemma_div_upper_(tt, p2(64), p2((k + bn - 64) as nat));
            }
//+}
            data.push(d);
            dbits -= big_digit::BITS;
            // if dbits was > big_digit::BITS, we dropped some of the bits in c (they couldn't fit
            // in d) - grab the bits we lost here:
            d = BigDigit::from(c) >> (bits - dbits);
//+{
            proof { assert(data@ =~= dat0.push(data@[m0 as int])); }
//+}
        }
    } }

//+{
    let ghost m = data@.len();
    let ghost dat0 = data@;
    proof {
        vstd::arithmetic::power2::lemma2_to64();
        let vt = valb(vs, bn, vs.len());
        vstd::arithmetic::power2::lemma_pow2_pos(64 * m);
        vstd::arithmetic::div_mod::lemma_fundamental_div_mod(vt as int, p2(64 * m) as int);
        lemma_val_push(dat0, d);
        lemma_pw_p2_(m);
    }
//+}
    if dbits > 0 {
        data.push(d as BigDigit);
//+{
        proof { assert(data@ =~= dat0.push(d)); }
//+}
    }
//+{
    proof {
        if dbits == 0 { assert((d as nat) < 1); assert(p2(64 * m) * 0 == 0) by (nonlinear_arith); }
    }
//+}

    biguint_from_vec(data)
}
//@ end
} // mod convert

/// big-endian value of digits in base 2^bits: the reverse of the little-endian digits

impl BigUint {
//@ extract src/biguint.rs :: impl BigUint :: fn to_bytes_le props=C09,C04
    pub fn to_bytes_le(&self) -> /*+*/(res: /*-*/Vec<u8>/*+*/)/*-*/
//+{
        requires self.wf()
        ensures res@.len() >= 1, valb(res@, 8, res@.len()) == self.v(),
            self.v() == 0 ==> res@ =~= seq![0u8],
            self.v() != 0 ==> res@[res@.len() - 1] != 0,
//+}
    {
        if self.is_zero() {
//+{
            proof { assert(valb(seq![0u8], 8, 1) == valb(seq![0u8], 8, 0) + 0 * p2(8 * 0)); assert(0 * p2(8 * 0) == 0) by (nonlinear_arith); }
//+}
            /*+*/let r = /*-*/vec![0]/*+*/; proof { assert(r@ =~= seq![0u8]); } r/*-*/
        } else {
            convert::to_bitwise_digits_le(self, 8)
        }
    }
//@ end

//@ extract src/biguint.rs :: impl BigUint :: fn to_bytes_be props=C09,C04
    pub fn to_bytes_be(&self) -> /*+*/(res: /*-*/Vec<u8>/*+*/)/*-*/
//+{
        requires self.wf()
        ensures res@.len() >= 1, valb(rev8(res@), 8, res@.len()) == self.v(),
            self.v() == 0 ==> res@ =~= seq![0u8],
            self.v() != 0 ==> res@[0] != 0,
//+}
    {
        let mut v = self.to_bytes_le();
//+{
        let ghost le = v@;
//+}
        v.reverse();
//+{
        proof { assert(rev8(v@) =~= le); }
//+}
        v
    }
//@ end
}


impl BigUint {
//@ extract src/biguint.rs :: impl BigUint :: fn from_bytes_le props=C09,C04
    pub fn from_bytes_le(bytes: &[u8]) -> /*+*/(res: /*-*/BigUint/*+*/)/*-*/
//+{
        ensures res.wf(), res.v() == valb(bytes@, 8, bytes@.len())
//+}
    {
//+{
        proof { vstd::arithmetic::power2::lemma2_to64(); }
//+}
        if bytes.is_empty() {
            Self::ZERO
        } else {
            convert::from_bitwise_digits_le(bytes, 8)
        }
    }
//@ end

//@ extract src/biguint.rs :: impl BigUint :: fn from_bytes_be props=C09,C04
    pub fn from_bytes_be(bytes: &[u8]) -> /*+*/(res: /*-*/BigUint/*+*/)/*-*/
//+{
        ensures res.wf(), res.v() == valb(rev8(bytes@), 8, bytes@.len())
//+}
    {
        if bytes.is_empty() {
            Self::ZERO
        } else {
            let mut v = bytes.to_vec();
            v.reverse();
//+{
            proof { assert(v@ =~= rev8(bytes@)); }
//+}
            BigUint::from_bytes_le(&v)
        }
    }
//@ end

    // contract-only re-homing of `impl num_traits::FromBytes / ToBytes for BigUint` (external traits)
//@ extract src/biguint.rs :: impl num_traits::FromBytes for BigUint :: fn from_be_bytes tysub=&Self::Bytes=>&[u8] props=C09,C04
    fn from_be_bytes(bytes: &[u8]) -> /*+*/(res: /*-*/Self/*+*/)/*-*/
//+{
        ensures res.wf(), res.v() == valb(rev8(bytes@), 8, bytes@.len())
//+}
    {
        Self::from_bytes_be(bytes)
    }
//@ end
//@ extract src/biguint.rs :: impl num_traits::FromBytes for BigUint :: fn from_le_bytes tysub=&Self::Bytes=>&[u8] props=C09,C04
    fn from_le_bytes(bytes: &[u8]) -> /*+*/(res: /*-*/Self/*+*/)/*-*/
//+{
        ensures res.wf(), res.v() == valb(bytes@, 8, bytes@.len())
//+}
    {
        Self::from_bytes_le(bytes)
    }
//@ end
//@ extract src/biguint.rs :: impl num_traits::ToBytes for BigUint :: fn to_be_bytes tysub=Self::Bytes=>Vec<u8> props=C09
    fn to_be_bytes(&self) -> /*+*/(res: /*-*/Vec<u8>/*+*/)/*-*/
//+{
        requires self.wf()
        ensures res@.len() >= 1, valb(rev8(res@), 8, res@.len()) == self.v(),
            self.v() == 0 ==> res@ =~= seq![0u8],
            self.v() != 0 ==> res@[0] != 0,
//+}
    {
        self.to_bytes_be()
    }
//@ end
//@ extract src/biguint.rs :: impl num_traits::ToBytes for BigUint :: fn to_le_bytes tysub=Self::Bytes=>Vec<u8> props=C09
    fn to_le_bytes(&self) -> /*+*/(res: /*-*/Vec<u8>/*+*/)/*-*/
//+{
        requires self.wf()
        ensures res@.len() >= 1, valb(res@, 8, res@.len()) == self.v(),
            self.v() == 0 ==> res@ =~= seq![0u8],
            self.v() != 0 ==> res@[res@.len() - 1] != 0,
//+}
    {
        self.to_bytes_le()
    }
//@ end
}

} // mod u
} // verus!
fn main() {}
