//@ unit i_core : BigInt representation: sign/magnitude constructors, negation, identities (src/bigint.rs, src/bigint/convert.rs)
#![feature(allocator_api)]
use vstd::prelude::*;
use vstd::std_specs::iter::IteratorSpec;
use vstd::std_specs::ops::*;
use core::ops::Neg;
verus! {
//@ include prelude/core.rs
//@ include prelude/std_specs.rs
//@ include prelude/val32.rs
// the Sign enum lives at the crate root of the unit: `derive(Structural)` inside a nested module crashes this Verus build
//@ extract src/bigint.rs :: enum Sign attrs=1
#[derive(/*+*/Structural, /*-*/PartialEq, PartialOrd, Eq, Ord, Copy, Clone, Debug, Hash)]
pub enum Sign {
    Minus,
    NoSign,
    Plus,
}
//@ end
pub mod u {
use super::*;
use Sign::*;

//@ extract src/biguint.rs :: struct BigUint
pub struct BigUint {
    data: Vec<BigDigit>,
}
//@ end
//@ include prelude/biguint_view.rs

impl BigUint {
//@ extract src/biguint.rs :: impl BigUint :: const ZERO rules=R9,R13 label=BigUint_ZERO
    exec const ZERO: Self /*+*/ensures Self::ZERO.data@.len() == 0 /*-*/{ BigUint { data: Vec::new() } }
//@ end
//@ stub u_core/clone
//@ stub u_core/is_zero
//@ stub u_core/set_zero
//@ stub u_core/one
//@ stub u_core/set_one
//@ stub u_core/normalize
//@ stub u_ctor/assign_from_slice
//@ stub u_ctor/from_slice
//@ stub u_ctor/new
//@ stub u_core/is_one
}


//@ extract src/bigint.rs :: struct BigInt
pub struct BigInt {
    sign: Sign,
    data: BigUint,
}
//@ end
//@ include prelude/bigint_view.rs

// contract-only: spec-trait plumbing
impl NegSpecImpl for Sign {
    open spec fn obeys_neg_spec() -> bool { false }
    open spec fn neg_req(self) -> bool { true }
    open spec fn neg_spec(self) -> Sign { arbitrary() }
}
impl NegSpecImpl for BigInt {
    open spec fn obeys_neg_spec() -> bool { false }
    open spec fn neg_req(self) -> bool { true }
    open spec fn neg_spec(self) -> BigInt { arbitrary() }
}
impl NegSpecImpl for &BigInt {
    open spec fn obeys_neg_spec() -> bool { false }
    open spec fn neg_req(self) -> bool { true }
    open spec fn neg_spec(self) -> BigInt { arbitrary() }
}

impl Neg for Sign {
    type Output = Sign;
//@ extract src/bigint.rs :: impl Neg for Sign :: fn neg props=C19 label=sign_neg
    fn neg(self) -> /*+*/(r: /*-*/Sign/*+*/)/*-*/
//+{
        ensures sgn(r) == -sgn(self)
//+}
    {
        match self {
            Minus => Plus,
            NoSign => NoSign,
            Plus => Minus,
        }
    }
//@ end
}

impl BigInt {
//@ extract src/bigint.rs :: impl BigInt :: const ZERO rules=R9,R13
    exec const ZERO: Self /*+*/ensures Self::ZERO.wfi(), Self::ZERO.iv() == 0 /*-*/{ BigInt {
        sign: NoSign,
        data: BigUint::ZERO,
    } }
//@ end

//@ extract src/bigint.rs :: impl BigInt :: fn from_biguint props=C19,C04
    pub fn from_biguint(mut sign: Sign, mut data: BigUint) -> /*+*/(r: /*-*/BigInt/*+*/)/*-*/
//+{
        requires data.wf()
        ensures r.wfi(), r.iv() == sgn(sign) * (data.v() as int),
            sign == Sign::NoSign ==> r.iv() == 0,
            data.v() == 0 ==> r.sg() == Sign::NoSign,
            sign != Sign::NoSign && data.v() != 0 ==> r.sg() == sign && r.mag().v() == data.v(),
//+}
    {
//+{
        let ghost s0 = sign;
        let ghost d0 = data;
        proof { lemma_sgn_mul(s0, d0.v()); }
//+}
        if sign == NoSign {
            data.assign_from_slice(&[]);
        } else if data.is_zero() {
            sign = NoSign;
        }
//+{
        proof { lemma_sgn_mul(sign, data.v()); assert(val32(seq![]) == 0); }
//+}

        BigInt { sign, data }
    }
//@ end

//@ extract src/bigint.rs :: impl BigInt :: fn sign props=C19
    pub fn sign(&self) -> /*+*/(r: /*-*/Sign/*+*/)/*-*/
//+{
        ensures r == self.sg(), self.wfi() ==> sgn(r) == (if self.iv() > 0 { 1int } else if self.iv() < 0 { -1int } else { 0int })
//+}
    {
//+{
        proof { lemma_sgn_mul(self.sign, self.data.v()); }
//+}
        self.sign
    }
//@ end

//@ extract src/bigint.rs :: impl BigInt :: fn magnitude props=C19
    pub fn magnitude(&self) -> /*+*/(r: /*-*/&BigUint/*+*/)/*-*/
//+{
        ensures *r == self.mag(), self.wfi() ==> r.wf() && r.v() as int == (if self.iv() >= 0 { self.iv() } else { -self.iv() })
//+}
    {
//+{
        proof { lemma_sgn_mul(self.sign, self.data.v()); }
//+}
        &self.data
    }
//@ end

//@ extract src/bigint.rs :: impl BigInt :: fn into_parts props=C19
    pub fn into_parts(self) -> /*+*/(r: /*-*/(Sign, BigUint)/*+*/)/*-*/
//+{
        ensures r.0 == self.sg(), r.1 == self.mag(),
            self.wfi() ==> r.1.wf() && sgn(r.0) * (r.1.v() as int) == self.iv() && ((r.0 == Sign::NoSign) <==> r.1.v() == 0),
//+}
    {
        (self.sign, self.data)
    }
//@ end

//@ extract src/bigint.rs :: impl BigInt :: fn to_biguint props=C19
    pub fn to_biguint(&self) -> /*+*/(r: /*-*/Option<BigUint>/*+*/)/*-*/
//+{
        ensures self.wfi() ==> (r is Some <==> self.iv() >= 0), self.wfi() && r is Some ==> r.unwrap().wf() && r.unwrap().v() as int == self.iv()
//+}
    {
//+{
        proof { lemma_sgn_mul(self.sign, self.data.v()); }
//+}
        match self.sign {
            Plus => Some(self.data.clone()),
            NoSign => Some(BigUint::ZERO),
            Minus => None,
        }
    }
//@ end

    // contract-only re-homing of external-trait methods (Clone, Zero, One, Signed, IntDigits for BigInt)
//@ extract src/bigint.rs :: impl Clone for BigInt :: fn clone props=C04
    fn clone(&self) -> /*+*/(r: /*-*/Self/*+*/)/*-*/
//+{
        ensures r.wfi() == self.wfi(), r.iv() == self.iv(), r.sg() == self.sg(), r.mag().v() == self.mag().v()
//+}
    {
        BigInt {
            sign: self.sign,
            data: self.data.clone(),
        }
    }
//@ end

//@ extract src/bigint.rs :: impl Zero for BigInt :: fn zero props=C19
    fn zero() -> /*+*/(r: /*-*/BigInt/*+*/)/*-*/
//+{
        ensures r.wfi(), r.iv() == 0
//+}
    {
        Self::ZERO
    }
//@ end

//@ extract src/bigint.rs :: impl Zero for BigInt :: fn set_zero props=C19
    fn set_zero(&mut self)
//+{
        ensures final(self).wfi(), final(self).iv() == 0
//+}
    {
        self.data.set_zero();
        self.sign = NoSign;
//+{
        proof { lemma_sgn_mul(self.sign, self.data.v()); }
//+}
    }
//@ end

//@ extract src/bigint.rs :: impl Zero for BigInt :: fn is_zero props=C19
    fn is_zero(&self) -> /*+*/(r: /*-*/bool/*+*/)/*-*/
//+{
        ensures self.wfi() ==> r == (self.iv() == 0)
//+}
    {
//+{
        proof { lemma_sgn_mul(self.sign, self.data.v()); }
//+}
        self.sign == NoSign
    }
//@ end

//@ extract src/bigint.rs :: impl One for BigInt :: fn one props=C19
    fn one() -> /*+*/(r: /*-*/BigInt/*+*/)/*-*/
//+{
        ensures r.wfi(), r.iv() == 1
//+}
    {
//+{
        proof { lemma_sgn_mul(Plus, 1); }
//+}
        BigInt {
            sign: Plus,
            data: BigUint::one(),
        }
    }
//@ end

//@ extract src/bigint.rs :: impl One for BigInt :: fn set_one props=C19
    fn set_one(&mut self)
//+{
        ensures final(self).wfi(), final(self).iv() == 1
//+}
    {
        self.data.set_one();
        self.sign = Plus;
//+{
        proof { lemma_sgn_mul(Plus, 1); }
//+}
    }
//@ end

//@ extract src/bigint.rs :: impl One for BigInt :: fn is_one props=C19
    fn is_one(&self) -> /*+*/(r: /*-*/bool/*+*/)/*-*/
//+{
        ensures self.wfi() ==> r == (self.iv() == 1)
//+}
    {
//+{
        proof { lemma_sgn_mul(self.sign, self.data.v()); }
//+}
        self.sign == Plus && self.data.is_one()
    }
//@ end

//@ extract src/bigint.rs :: impl Signed for BigInt :: fn is_positive props=C19
    fn is_positive(&self) -> /*+*/(r: /*-*/bool/*+*/)/*-*/
//+{
        ensures self.wfi() ==> r == (self.iv() > 0)
//+}
    {
//+{
        proof { lemma_sgn_mul(self.sign, self.data.v()); }
//+}
        self.sign == Plus
    }
//@ end

//@ extract src/bigint.rs :: impl Signed for BigInt :: fn is_negative props=C19
    fn is_negative(&self) -> /*+*/(r: /*-*/bool/*+*/)/*-*/
//+{
        ensures self.wfi() ==> r == (self.iv() < 0)
//+}
    {
//+{
        proof { lemma_sgn_mul(self.sign, self.data.v()); }
//+}
        self.sign == Minus
    }
//@ end

//@ extract src/bigint.rs :: impl IntDigits for BigInt :: fn normalize props=C04 label=bigint_normalize
    fn normalize(&mut self)
//+{
        ensures
            final(self).mag().v() == old(self).mag().v(),
            (old(self).sg() != Sign::NoSign || old(self).mag().v() == 0) ==> final(self).wfi() && final(self).iv() == sgn(old(self).sg()) * (old(self).mag().v() as int),
//+}
    {
        self.data.normalize();
        if self.data.is_zero() {
            self.sign = NoSign;
        }
//+{
        proof { lemma_sgn_mul(self.sign, self.data.v()); lemma_sgn_mul(old(self).sign, old(self).data.v()); }
//+}
    }
//@ end

//@ extract src/bigint.rs :: impl BigInt :: fn assign_from_slice props=C04,C09 label=bigint_assign_from_slice
    pub fn assign_from_slice(&mut self, sign: Sign, slice: &[u32])
//+{
        ensures final(self).wfi(), final(self).iv() == sgn(sign) * (val32(slice@) as int)
//+}
    {
        if sign == NoSign {
            self.set_zero();
        } else {
            self.data.assign_from_slice(slice);
            self.sign = if self.data.is_zero() { NoSign } else { sign };
        }
//+{
        proof { lemma_sgn_mul(self.sign, self.data.v()); lemma_sgn_mul(sign, val32(slice@)); }
//+}
    }
//@ end

//@ extract src/bigint.rs :: impl BigInt :: fn from_slice props=C04,C09 label=bigint_from_slice
    pub fn from_slice(sign: Sign, slice: &[u32]) -> /*+*/(r: /*-*/BigInt/*+*/)/*-*/
//+{
        ensures r.wfi(), r.iv() == sgn(sign) * (val32(slice@) as int)
//+}
    {
        BigInt::from_biguint(sign, BigUint::from_slice(slice))
    }
//@ end

//@ extract src/bigint.rs :: impl BigInt :: fn new props=C04,C09 label=bigint_new
    pub fn new(sign: Sign, digits: Vec<u32>) -> /*+*/(r: /*-*/BigInt/*+*/)/*-*/
//+{
        ensures r.wfi(), r.iv() == sgn(sign) * (val32(digits@) as int)
//+}
    {
        BigInt::from_biguint(sign, BigUint::new(digits))
    }
//@ end
}

impl Neg for BigInt {
    type Output = BigInt;
//@ extract src/bigint.rs :: impl Neg for BigInt :: fn neg rules=R0,R5 props=C19,C04 label=bigint_neg
    fn neg(self) -> /*+*/(r: /*-*/BigInt/*+*/)/*-*/
//+{
        ensures r.wfi() == self.wfi(), r.iv() == -self.iv(), r.mag().v() == self.mag().v(), sgn(r.sg()) == -sgn(self.sg())
//+}
    {
        let mut self__ = self;
        self__.sign = -self__.sign;
//+{
        proof {
            let m = self.data.v() as int;
            assert(sgn(self__.sign) * m == -(sgn(self.sign) * m)) by (nonlinear_arith) requires sgn(self__.sign) == -sgn(self.sign);
        }
//+}
        self__
    }
//@ end
}

impl Neg for &BigInt {
    type Output = BigInt;
//@ extract src/bigint.rs :: impl Neg for &BigInt :: fn neg props=C19,C04 label=bigint_neg_ref
    fn neg(self) -> /*+*/(r: /*-*/BigInt/*+*/)/*-*/
//+{
        ensures r.wfi() == self.wfi(), r.iv() == -self.iv()
//+}
    {
        -self.clone()
    }
//@ end
}

} // mod u
} // verus!
fn main() {}
