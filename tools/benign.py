#!/usr/bin/env python3
"""Measure false alarms: run the checks over HARMLESS (semantics-preserving) patches, in isolation.
   benign.py <verif copy> <repo scratch worktree> <out.json> <patch.diff>...
For each patch: apply it to the scratch worktree, find the functions whose text changed, select the units that extract
one of them, and run `./check` (from the copy of /verif, VERIF_REPO = the worktree) for every property that runs one of
these units - restricted to those units, with the property's bounded stand-in. Exit code 0 = PASS, 2 = UNDECIDED (no
alarm), 1 = VIOLATION = a FALSE ALARM, since the patch does not change behaviour."""
import json
import os
import re
import subprocess
import sys
import time


def sh(cmd, cwd=None, env=None, timeout=3600):
    p = subprocess.run(cmd, shell=True, cwd=cwd, capture_output=True, text=True, timeout=timeout, env=env)
    return p.returncode, p.stdout + p.stderr


def changed_functions(wt, patch):
    """(file, fn name) of every function enclosing a changed line of the patched tree"""
    out = set()
    cur = None
    lines_of = {}
    for ln in open(patch):
        m = re.match(r"\+\+\+ b/(\S+)", ln)
        if m:
            cur = m.group(1)
            continue
        m = re.match(r"@@ -\d+(?:,\d+)? \+(\d+)(?:,(\d+))? @@", ln)
        if m and cur:
            pos = int(m.group(1))
            continue
        if cur is None or ln.startswith("---") or ln.startswith("diff ") or ln.startswith("index "):
            continue
        if ln.startswith("+"):
            lines_of.setdefault(cur, set()).add(pos)
            pos += 1
        elif ln.startswith("-"):
            lines_of.setdefault(cur, set()).add(pos)
        else:
            pos += 1
    for f, ls in lines_of.items():
        try:
            src = open(os.path.join(wt, f)).read().split("\n")
        except OSError:
            continue
        # function bodies by brace matching (comments and strings are not expected to unbalance braces in this crate)
        spans = []
        for i, t in enumerate(src):
            m = re.match(r"\s*(?:pub(?:\([a-z]+\))?\s+)?(?:const\s+)?(?:unsafe\s+)?fn\s+(\w+)", t)
            if not m:
                continue
            depth, j, opened = 0, i, False
            while j < len(src):
                code = src[j].split("//")[0]
                for ch in code:
                    if ch == "{":
                        depth += 1
                        opened = True
                    elif ch == "}":
                        depth -= 1
                if opened and depth <= 0:
                    break
                if not opened and code.rstrip().endswith(";"):
                    break
                j += 1
            spans.append((i + 1, j + 1, m.group(1)))
        for l in ls:
            inside = [sp for sp in spans if sp[0] <= l <= sp[1]]
            if inside:
                out.add((f, min(inside, key=lambda sp: sp[1] - sp[0])[2]))
    return sorted(out)


def units_for(vcopy, fns):
    udir = os.path.join(vcopy, "contracts", "units")
    sel = {}
    for fn in sorted(os.listdir(udir)):
        if not fn.endswith(".rs"):
            continue
        for ln in open(os.path.join(udir, fn)):
            m = re.match(r"\s*//@ extract (\S+) :: (.*)$", ln)
            if not m:
                continue
            for f, name in fns:
                if m.group(1) == f and re.search(r":: fn %s\b" % re.escape(name), " :: " + m.group(2)):
                    sel.setdefault(fn[:-3], set()).add(name)
    return sel


def main():
    vcopy, wt, outp = sys.argv[1], sys.argv[2], sys.argv[3]
    env = dict(os.environ, VERIF_REPO=wt, CARGO_NET_OFFLINE="true")
    props_path = os.path.join(vcopy, "contracts", "props.json")
    props0 = json.load(open(props_path))
    res = json.load(open(outp)) if os.path.exists(outp) else {}
    for patch in sys.argv[4:]:
        name = os.path.basename(patch)
        sh("git checkout -- .", cwd=wt)
        rc, out = sh("git apply %s" % patch, cwd=wt)
        if rc != 0:
            res[name] = {"applies": False, "msg": out[-300:]}
            continue
        fns = changed_functions(wt, patch)
        units = units_for(vcopy, fns)
        rec = {"applies": True, "functions": ["%s::%s" % x for x in fns], "units": {u: sorted(v) for u, v in units.items()}, "checks": {}}
        pids = [p for p in sorted(props0) if not props0[p].get("not_applicable") and p != "C14" and set(props0[p].get("units", [])) & set(units)]
        if not pids and units:
            pids = ["C14"]
        worst = 0
        for pid in pids:
            props = json.loads(json.dumps(props0))
            spec = props[pid]
            spec["units"] = [u for u in spec["units"] if u in units]
            spec["engines"] = [e for e in spec.get("engines", []) if e == "bounded"]
            json.dump(props, open(props_path, "w"), indent=1)
            t0 = time.time()
            try:
                rcc, outc = sh("./check %s --tier quick" % pid, cwd=vcopy, env=env, timeout=2400)
            except subprocess.TimeoutExpired:
                rcc, outc = 124, "timeout"
            finally:
                json.dump(props0, open(props_path, "w"), indent=1)
            lines = [l[:300] for l in outc.split("\n") if l.startswith(("VIOLATION", "UNDECIDED", "OBLIGATION-FAILED", "BOUNDED-STANDIN"))]
            rec["checks"][pid] = {"exit": rcc, "lines": lines[:6], "wall_s": round(time.time() - t0, 1)}
            worst = 1 if rcc == 1 or worst == 1 else max(worst, rcc)
        rec["verdict"] = {0: "pass", 1: "FALSE-ALARM", 2: "undecided"}.get(worst, "error") if units else "not-under-contract"
        res[name] = rec
        sh("git checkout -- .", cwd=wt)
        json.dump(res, open(outp, "w"), indent=1)
        print(name, rec["verdict"], sorted(units), flush=True)
    json.dump(res, open(outp, "w"), indent=1)


if __name__ == "__main__":
    main()
