#!/usr/bin/env python3
"""Re-evaluate every kept seeded change against the current machinery, in isolation:
   seedmatrix.py <verif copy> <repo scratch worktree> <out.json>
For each /verif/seeded/<name>: apply patch.diff to the scratch worktree, run `./check <property> --tier quick` from the
copy of /verif with VERIF_REPO pointing at the worktree, undo the patch, record exit code and which engine reported."""
import json
import os
import subprocess
import sys
import time


def sh(cmd, cwd=None, env=None, timeout=3600):
    p = subprocess.run(cmd, shell=True, cwd=cwd, capture_output=True, text=True, timeout=timeout, env=env)
    return p.returncode, p.stdout + p.stderr


def main():
    vcopy, wt, outp = sys.argv[1], sys.argv[2], sys.argv[3]
    env = dict(os.environ, VERIF_REPO=wt, CARGO_NET_OFFLINE="true")
    res = {}
    seeds = sorted(x for x in os.listdir(os.path.join(vcopy, "seeded")) if os.path.isdir(os.path.join(vcopy, "seeded", x)))
    only = sys.argv[4:] or seeds
    for name in seeds:
        if name not in only:
            continue
        d = os.path.join(vcopy, "seeded", name)
        meta = json.load(open(os.path.join(d, "meta.json")))
        prop = meta["breaks_property"]
        sh("git checkout -- .", cwd=wt)
        rc, out = sh("git apply %s" % os.path.join(d, "patch.diff"), cwd=wt)
        if rc != 0:
            res[name] = {"property": prop, "applies": False, "msg": out[-300:]}
            continue
        t0 = time.time()
        try:
            rcc, outc = sh("./check %s --tier quick" % prop, cwd=vcopy, env=env, timeout=2400)
        except subprocess.TimeoutExpired:
            rcc, outc = 124, "timeout"
        lines = [l for l in outc.split("\n") if l.startswith(("VIOLATION", "UNDECIDED", "OBLIGATION-FAILED", "BOUNDED-STANDIN"))]
        ded = [l for l in lines if l.startswith("OBLIGATION-FAILED") and not l.startswith("OBLIGATION-FAILED: bounded")]
        bnd = [l for l in lines if l.startswith("OBLIGATION-FAILED: bounded") or l.startswith("BOUNDED-STANDIN")]
        res[name] = {"property": prop, "applies": True, "exit": rcc, "deductive": [l[:260] for l in ded[:3]],
                     "bounded": [l[:200] for l in bnd[:2]], "undecided": [l[:260] for l in lines if l.startswith("UNDECIDED")][:2],
                     "wall_s": round(time.time() - t0, 1)}
        sh("git checkout -- .", cwd=wt)
        json.dump(res, open(outp, "w"), indent=1)
        print(name, prop, rcc, "deductive" if ded else ("bounded" if bnd else "-"), flush=True)
    json.dump(res, open(outp, "w"), indent=1)


if __name__ == "__main__":
    main()
