// Infinite two's-complement view of integers (property C07): bit k of an integer x is floor(x / 2^k) mod 2.
// Magnitude digits s of a negative number -val(s): its two's-complement digit i is ndig(s, i) = !s[i] + carry,
// the carry being 1 exactly while all lower digits are zero (the recurrence computed by negate_carry in src/bigint/bits.rs).
pub open spec fn ibit(x: int, k: nat) -> bool { (x / (vstd::arithmetic::power2::pow2(k) as int)) % 2 == 1 }
pub open spec fn dbit(d: u64, j: nat) -> bool { (d >> (j as u64)) & 1 == 1 }

pub open spec fn ncar(s: Seq<u64>, i: nat) -> nat
    decreases i
{
    if i == 0 { 1 } else if ncar(s, (i - 1) as nat) == 1 && dig(s, i - 1) == 0 { 1 } else { 0 }
}
pub open spec fn ndig(s: Seq<u64>, i: nat) -> u64 { ((((!dig(s, i as int)) as nat) + ncar(s, i)) % B()) as u64 }
pub open spec fn twd(s: Seq<u64>, n: nat) -> Seq<u64> { Seq::new(n, |i: int| ndig(s, i as nat)) }

/// value of the first i digits of s extended by zeros
pub open spec fn dval(s: Seq<u64>, i: nat) -> nat
    decreases i
{
    if i == 0 { 0 } else { dval(s, (i - 1) as nat) + (dig(s, i - 1) as nat) * pw((i - 1) as nat) }
}

pub proof fn lemma_dval(s: Seq<u64>, i: nat)
    ensures i <= s.len() ==> dval(s, i) == valp(s, i), i >= s.len() ==> dval(s, i) == val(s)
    decreases i
{
    if i > 0 {
        lemma_dval(s, (i - 1) as nat);
        if i > s.len() {
            assert((dig(s, i - 1) as nat) * pw((i - 1) as nat) == 0) by (nonlinear_arith) requires dig(s, i - 1) == 0;
        }
    }
}

pub proof fn lemma_ncar_dval(s: Seq<u64>, i: nat)
    ensures ncar(s, i) <= 1, (ncar(s, i) == 1) == (dval(s, i) == 0)
    decreases i
{
    if i > 0 {
        lemma_ncar_dval(s, (i - 1) as nat);
        lemma_pw_pos((i - 1) as nat);
        let d = dig(s, i - 1) as nat;
        let p = pw((i - 1) as nat);
        if d == 0 { assert(d * p == 0) by (nonlinear_arith) requires d == 0; }
        else { assert(d * p > 0) by (nonlinear_arith) requires d > 0, p > 0; }
    }
}

/// one step of the negate-carry recurrence, as computed by `negate_carry`
pub proof fn lemma_ncar_step(s: Seq<u64>, i: nat, a: u64, c: nat)
    requires a == dig(s, i as int), c == ncar(s, i)
    ensures ((((!a) as nat) + c) % B()) as u64 == ndig(s, i), (((!a) as nat) + c) / B() == ncar(s, i + 1),
        ndig(s, i) as nat + B() * ncar(s, i + 1) == B() - 1 - a as nat + c
{
    lemma_ncar_dval(s, i);
    assert(!a == 0xffff_ffff_ffff_ffffu64 - a) by (bit_vector);
    let t = ((!a) as nat) + c;
    if c == 1 && a == 0 {
        assert(t == B());
        assert(t % B() == 0 && t / B() == 1) by (nonlinear_arith) requires t == B(), B() == 0x1_0000_0000_0000_0000nat;
    } else {
        assert(t < B());
        vstd::arithmetic::div_mod::lemma_small_mod(t, B());
        vstd::arithmetic::div_mod::lemma_basic_div(t as int, B() as int);
    }
}

/// the chain computes B^i - (low i digits), the pending carry standing for B^i when they are all zero
pub proof fn lemma_twd_valp(s: Seq<u64>, n: nat, i: nat)
    requires i <= n
    ensures valp(twd(s, n), i) + ncar(s, i) * pw(i) == pw(i) - dval(s, i)
    decreases i
{
    if i == 0 {
        assert(ncar(s, 0) * pw(0) == 1) by (nonlinear_arith) requires ncar(s, 0) == 1, pw(0) == 1;
    } else {
        let j = (i - 1) as nat;
        lemma_twd_valp(s, n, j);
        lemma_ncar_step(s, j, dig(s, j as int), ncar(s, j));
        let t = twd(s, n);
        let d = dig(s, j as int) as nat;
        let c = ncar(s, j);
        let c1 = ncar(s, i);
        let nd = ndig(s, j) as nat;
        let p = pw(j);
        assert(t[j as int] == ndig(s, j));
        assert(pw(i) == B() * p);
        assert(valp(t, j) + nd * p + c1 * (B() * p) == pw(i) - (dval(s, j) + d * p)) by (nonlinear_arith)
            requires valp(t, j) + c * p == p - dval(s, j), nd + B() * c1 == B() - 1 - d + c, pw(i) == B() * p;
    }
}

pub proof fn lemma_twd_val(s: Seq<u64>, n: nat)
    requires n >= s.len()
    ensures val(twd(s, n)) + ncar(s, n) * pw(n) == pw(n) - val(s), val(s) > 0 ==> ncar(s, n) == 0
{
    lemma_twd_valp(s, n, n);
    lemma_dval(s, n);
    lemma_ncar_dval(s, n);
}

/// beyond the magnitude's digits the two's-complement digits of a negative number are all ones
pub proof fn lemma_ndig_high(s: Seq<u64>, i: nat)
    requires i >= s.len(), val(s) > 0
    ensures ndig(s, i) == 0xffff_ffff_ffff_ffffu64
{
    lemma_dval(s, i);
    lemma_ncar_dval(s, i);
    assert(!0u64 == 0xffff_ffff_ffff_ffffu64) by (bit_vector);
    vstd::arithmetic::div_mod::lemma_small_mod(0xffff_ffff_ffff_ffffnat, B());
}

/// bits below 64n depend only on the residue mod B^n
pub proof fn lemma_ibit_window(x: int, n: nat, k: nat)
    requires k < 64 * n
    ensures ibit(x, k) == bitv((x % (pw(n) as int)) as nat, k)
{
    let pn = pw(n) as int;
    let pk = vstd::arithmetic::power2::pow2(k) as int;
    let ph = vstd::arithmetic::power2::pow2((64 * n - k) as nat) as int;
    lemma_pw_p2_(n);
    lemma_pw_pos(n);
    vstd::arithmetic::power2::lemma_pow2_pos(k);
    vstd::arithmetic::power2::lemma_pow2_adds(k, (64 * n - k) as nat);
    vstd::arithmetic::power2::lemma_pow2_unfold((64 * n - k) as nat);
    let ph2 = vstd::arithmetic::power2::pow2((64 * n - k - 1) as nat) as int;
    assert(ph == 2 * ph2);
    let q = x / pn;
    let r = x % pn;
    vstd::arithmetic::div_mod::lemma_fundamental_div_mod(x, pn);
    vstd::arithmetic::div_mod::lemma_mod_bound(x, pn);
    let r1 = r / pk;
    let r0 = r % pk;
    vstd::arithmetic::div_mod::lemma_fundamental_div_mod(r, pk);
    vstd::arithmetic::div_mod::lemma_mod_bound(r, pk);
    assert(x == pk * (ph * q + r1) + r0) by (nonlinear_arith)
        requires x == pn * q + r, r == pk * r1 + r0, pn == pk * ph;
    vstd::arithmetic::div_mod::lemma_fundamental_div_mod_converse(x, pk, ph * q + r1, r0);
    assert(ph * q + r1 == 2 * (ph2 * q) + r1) by (nonlinear_arith) requires ph == 2 * ph2;
    vstd::arithmetic::div_mod::lemma_mod_multiples_vanish(ph2 * q, r1, 2);
}

/// beyond the window every bit is the sign
pub proof fn lemma_ibit_high(x: int, n: nat, k: nat)
    requires -(pw(n) as int) <= x < pw(n) as int, k >= 64 * n
    ensures ibit(x, k) == (x < 0)
{
    let pk = vstd::arithmetic::power2::pow2(k) as int;
    lemma_pw_p2_(n);
    vstd::arithmetic::power2::lemma_pow2_pos(k);
    if k > 64 * n { vstd::arithmetic::power2::lemma_pow2_strictly_increases(64 * n, k); }
    if x >= 0 {
        vstd::arithmetic::div_mod::lemma_basic_div(x, pk);
    } else {
        vstd::arithmetic::div_mod::lemma_fundamental_div_mod_converse(x, pk, -1, x + pk);
        vstd::arithmetic::div_mod::lemma_fundamental_div_mod_converse(-1, 2, -1, 1);
    }
}

/// bit k of a non-negative number, from its digits
pub proof fn lemma_ibit_pos(s: Seq<u64>, k: nat)
    ensures ibit(val(s) as int, k) == dbit(dig(s, (k / 64) as int), k % 64)
{
    let i = k / 64;
    let b = (k % 64) as u64;
    lemma_bit_of_digit(s, i, b);
    assert(64 * i + b as nat == k);
    if i >= s.len() { assert((0u64 >> b) & 1 == 0) by (bit_vector); }
}

/// bit k of a negative number -val(s), from the negate-carry digits of its magnitude
pub proof fn lemma_ibit_neg(s: Seq<u64>, k: nat)
    requires val(s) > 0
    ensures ibit(-(val(s) as int), k) == dbit(ndig(s, k / 64), k % 64)
{
    let i = k / 64;
    let b = (k % 64) as u64;
    let n: nat = if i + 1 > s.len() { i + 1 } else { s.len() };
    let x = -(val(s) as int);
    let t = twd(s, n);
    lemma_twd_val(s, n);
    lemma_valp_bound(s, s.len());
    lemma_pw_mono(s.len(), n);
    lemma_pw_pos(n);
    assert(ncar(s, n) * pw(n) == 0) by (nonlinear_arith) requires ncar(s, n) == 0;
    // x == -1 * B^n + val(t), 0 <= val(t) < B^n
    vstd::arithmetic::div_mod::lemma_fundamental_div_mod_converse(x, pw(n) as int, -1, val(t) as int);
    lemma_ibit_window(x, n, k);
    lemma_bit_of_digit(t, i, b);
    assert(64 * i + b as nat == k);
    assert(t[i as int] == ndig(s, i));
}

/// a negative result assembled from its two's-complement digits w (all ones beyond n): magnitude r = B^n - val(w)
pub proof fn lemma_neg_result(r: Seq<u64>, w: Seq<u64>, n: nat)
    requires w.len() == n, r =~= (if ncar(w, n) == 1 { twd(w, n).push(1u64) } else { twd(w, n) })
    ensures val(r) > 0, val(r) == pw(n) - val(w),
        forall|k: nat| #[trigger] ibit(-(val(r) as int), k) == (if k < 64 * n { dbit(w[(k / 64) as int], k % 64) } else { true })
{
    let t = twd(w, n);
    lemma_twd_val(w, n);
    lemma_valp_bound(w, n);
    lemma_pw_pos(n);
    lemma_ncar_dval(w, n);
    if ncar(w, n) == 1 {
        lemma_val_concat(t, seq![1u64]);
        lemma_val_single(1u64);
        assert(t.push(1u64) =~= t + seq![1u64]);
        assert(ncar(w, n) * pw(n) == pw(n)) by (nonlinear_arith) requires ncar(w, n) == 1;
        assert(pw(n) * 1 == pw(n)) by (nonlinear_arith);
    } else {
        assert(ncar(w, n) * pw(n) == 0) by (nonlinear_arith) requires ncar(w, n) == 0;
    }
    let x = -(val(r) as int);
    assert(x == val(w) as int - pw(n) as int);
    vstd::arithmetic::div_mod::lemma_fundamental_div_mod_converse(x, pw(n) as int, -1, val(w) as int);
    assert forall|k: nat| #[trigger] ibit(x, k) == (if k < 64 * n { dbit(w[(k / 64) as int], k % 64) } else { true }) by {
        if k < 64 * n {
            lemma_ibit_window(x, n, k);
            lemma_bit_of_digit(w, k / 64, (k % 64) as u64);
            assert(64 * (k / 64) + (k % 64) == k);
        } else {
            lemma_ibit_high(x, n, k);
        }
    }
}
