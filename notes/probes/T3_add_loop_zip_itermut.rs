use vstd::prelude::*;
use vstd::std_specs::iter::IteratorSpec;
verus! {
type BigDigit = u64;

pub open spec fn B() -> nat { 0x1_0000_0000_0000_0000nat }

pub open spec fn pw(k: nat) -> nat decreases k { if k == 0 { 1 } else { B() * pw((k - 1) as nat) } }

// little-endian value of the first k digits
pub open spec fn valp(s: Seq<u64>, k: nat) -> nat
    decreases k
{
    if k == 0 { 0 } else { valp(s, (k - 1) as nat) + (s[(k - 1) as int] as nat) * pw((k - 1) as nat) }
}

proof fn lemma_valp_ext(s: Seq<u64>, t: Seq<u64>, k: nat)
    requires k <= s.len(), k <= t.len(), forall|i: int| 0 <= i < k ==> s[i] == t[i]
    ensures valp(s, k) == valp(t, k)
    decreases k
{
    if k > 0 { lemma_valp_ext(s, t, (k - 1) as nat); }
}

#[verifier::external_body]
fn adc(carry: u8, a: u64, b: u64, out: &mut u64) -> (r: u8)
    requires carry <= 1
    ensures r <= 1, (*final(out) as nat) + B() * (r as nat) == (a as nat) + (b as nat) + (carry as nat)
{ unimplemented!() }

fn add_loop(a_lo: &mut [BigDigit], b: &[BigDigit]) -> (carry: u8)
    requires old(a_lo).len() == b.len()
    ensures
        final(a_lo).len() == b.len(),
        carry <= 1,
        valp(final(a_lo)@, b.len() as nat) + pw(b.len() as nat) * (carry as nat) == valp(old(a_lo)@, b.len() as nat) + valp(b@, b.len() as nat),
{
    let ghost fa = final(a_lo)@;
    let ghost oa = old(a_lo)@;
    let ghost bs = b@;
    let mut carry = 0u8;
    for (a, b) in it: a_lo.iter_mut().zip(b.iter())
        invariant
            it.seq().len() == bs.len(),
            fa.len() == bs.len(), oa.len() == bs.len(),
            carry <= 1,
            forall|i: int| 0 <= i < it.seq().len() ==> *(#[trigger] it.seq()[i]).1 == bs[i],
            forall|i: int| 0 <= i < it.seq().len() ==> *((#[trigger] it.seq()[i]).0) == oa[i],
            forall|i: int| 0 <= i < it.seq().len() ==> *final((#[trigger] it.seq()[i]).0) == fa[i],
            valp(fa, it.index@ as nat) + pw(it.index@ as nat) * (carry as nat) == valp(oa, it.index@ as nat) + valp(bs, it.index@ as nat),
    {
        let ghost k = it.index@ as nat;
        let ghost c0 = carry;
        carry = adc(carry, *a, *b, a);
        proof {
            assert(fa[k as int] == *a);
            assert((fa[k as int] as nat) + B() * (carry as nat) == (oa[k as int] as nat) + (bs[k as int] as nat) + (c0 as nat));
            assert(pw(k + 1) == B() * pw(k));
            assert(valp(fa, k + 1) + pw(k + 1) * (carry as nat) == valp(oa, k + 1) + valp(bs, k + 1)) by (nonlinear_arith)
                requires
                    valp(fa, k) + pw(k) * (c0 as nat) == valp(oa, k) + valp(bs, k),
                    (fa[k as int] as nat) + B() * (carry as nat) == (oa[k as int] as nat) + (bs[k as int] as nat) + (c0 as nat),
                    pw(k + 1) == B() * pw(k),
                    valp(fa, k + 1) == valp(fa, k) + (fa[k as int] as nat) * pw(k),
                    valp(oa, k + 1) == valp(oa, k) + (oa[k as int] as nat) * pw(k),
                    valp(bs, k + 1) == valp(bs, k) + (bs[k as int] as nat) * pw(k);
        }
    }
    carry
}
} // verus!
fn main() {}
