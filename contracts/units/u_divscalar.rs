//@ unit u_divscalar : BigUint division / remainder leaves with scalars and the Rem leaves with the u32 fast path (src/biguint/division.rs)
#![feature(allocator_api)]
use vstd::prelude::*;
use vstd::std_specs::iter::IteratorSpec;
use vstd::std_specs::ops::*;
use core::ops::{Div, Rem};
verus! {
//@ include prelude/core.rs
//@ include prelude/std_specs.rs
//@ include prelude/panic.rs
pub mod u {
use super::*;

//@ extract src/biguint.rs :: struct BigUint
pub struct BigUint {
    data: Vec<BigDigit>,
}
//@ end
//@ include prelude/biguint_view.rs
pub open spec fn udiv_ok(a: nat, b: nat, q: nat, m: nat) -> bool { a == q * b + m && m < b }

impl BigUint {
//@ extract src/biguint.rs :: impl BigUint :: const ZERO rules=R9,R13 label=BigUint_ZERO
    exec const ZERO: Self /*+*/ensures Self::ZERO.data@.len() == 0 /*-*/{ BigUint { data: Vec::new() } }
//@ end
//@ stub u_divapi/div_rem
    //@ assume BigUint::to_u32 : num_traits::ToPrimitive default method: `self.to_u64().as_ref().and_then(u64::to_u32)` over the proved to_u64 (unit u_conv); external crate code
    #[verifier::external_body]
    fn to_u32(&self) -> (r: Option<u32>)
        requires self.wf()
        ensures r is Some <==> self.v() < 0x1_0000_0000, r is Some ==> r.unwrap() as nat == self.v()
    { unimplemented!() }
}
impl vstd::std_specs::convert::FromSpecImpl<u64> for BigUint {
    open spec fn obeys_from_spec() -> bool { false }
    open spec fn from_spec(v: u64) -> BigUint { arbitrary() }
}
impl From<u64> for BigUint {
//@ stub u_conv/from_u64
}
impl vstd::std_specs::convert::FromSpecImpl<u32> for BigUint {
    open spec fn obeys_from_spec() -> bool { false }
    open spec fn from_spec(v: u32) -> BigUint { arbitrary() }
}
impl From<u32> for BigUint {
//@ stub u_conv/from_u32
}
impl vstd::std_specs::convert::FromSpecImpl<u128> for BigUint {
    open spec fn obeys_from_spec() -> bool { false }
    open spec fn from_spec(v: u128) -> BigUint { arbitrary() }
}
impl From<u128> for BigUint {
//@ stub u_conv/from_u128
}
//@ stub k_div/div_rem_digit
//@ stub k_div/rem_digit
//@ stub u_div/div_rem

impl DivSpecImpl<u32> for BigUint {
    open spec fn obeys_div_spec() -> bool { false }
    open spec fn div_req(self, rhs: u32) -> bool { self.wf() && (!mp() ==> rhs != 0) }
    open spec fn div_spec(self, rhs: u32) -> BigUint { arbitrary() }
}
impl Div<u32> for BigUint {
    type Output = BigUint;
//@ extract src/biguint/division.rs :: impl Div<u32> for BigUint :: fn div props=C10,C03,C14 label=div_u32
    fn div(self, other: u32) -> /*+*/(r: /*-*/BigUint/*+*/)/*-*/
//+{
        ensures mp() ==> other != 0, r.wf(), exists|m: nat| udiv_ok(self.v(), other as nat, r.v(), m)
//+}
    {
        let (q, _) = div_rem_digit(self, other as BigDigit);
//+{
        proof { assert(udiv_ok(self.v(), other as nat, q.v(), (self.v() - q.v() * (other as nat)) as nat)); }
//+}
        q
    }
//@ end
}

impl DivSpecImpl<u64> for BigUint {
    open spec fn obeys_div_spec() -> bool { false }
    open spec fn div_req(self, rhs: u64) -> bool { self.wf() && (!mp() ==> rhs != 0) }
    open spec fn div_spec(self, rhs: u64) -> BigUint { arbitrary() }
}
impl Div<u64> for BigUint {
    type Output = BigUint;
//@ extract src/biguint/division.rs :: impl Div<u64> for BigUint :: fn div props=C10,C03,C14 label=div_u64
    fn div(self, other: u64) -> /*+*/(r: /*-*/BigUint/*+*/)/*-*/
//+{
        ensures mp() ==> other != 0, r.wf(), exists|m: nat| udiv_ok(self.v(), other as nat, r.v(), m)
//+}
    {
        let (q, _) = div_rem(self, From::from(other));
        q
    }
//@ end
}

impl DivSpecImpl<u128> for BigUint {
    open spec fn obeys_div_spec() -> bool { false }
    open spec fn div_req(self, rhs: u128) -> bool { self.wf() && (!mp() ==> rhs != 0) }
    open spec fn div_spec(self, rhs: u128) -> BigUint { arbitrary() }
}
impl Div<u128> for BigUint {
    type Output = BigUint;
//@ extract src/biguint/division.rs :: impl Div<u128> for BigUint :: fn div props=C10,C03,C14 label=div_u128
    fn div(self, other: u128) -> /*+*/(r: /*-*/BigUint/*+*/)/*-*/
//+{
        ensures mp() ==> other != 0, r.wf(), exists|m: nat| udiv_ok(self.v(), other as nat, r.v(), m)
//+}
    {
        let (q, _) = div_rem(self, From::from(other));
        q
    }
//@ end
}

impl RemSpecImpl<u64> for BigUint {
    open spec fn obeys_rem_spec() -> bool { false }
    open spec fn rem_req(self, rhs: u64) -> bool { self.wf() && (!mp() ==> rhs != 0) }
    open spec fn rem_spec(self, rhs: u64) -> BigUint { arbitrary() }
}
impl Rem<u64> for BigUint {
    type Output = BigUint;
//@ extract src/biguint/division.rs :: impl Rem<u64> for BigUint :: fn rem props=C10,C03,C14 label=rem_u64
    fn rem(self, other: u64) -> /*+*/(r: /*-*/BigUint/*+*/)/*-*/
//+{
        ensures mp() ==> other != 0, r.wf(), exists|q: nat| udiv_ok(self.v(), other as nat, q, r.v())
//+}
    {
        let (_, r) = div_rem(self, From::from(other));
        r
    }
//@ end
}

impl RemSpecImpl<u128> for BigUint {
    open spec fn obeys_rem_spec() -> bool { false }
    open spec fn rem_req(self, rhs: u128) -> bool { self.wf() && (!mp() ==> rhs != 0) }
    open spec fn rem_spec(self, rhs: u128) -> BigUint { arbitrary() }
}
impl Rem<u128> for BigUint {
    type Output = BigUint;
//@ extract src/biguint/division.rs :: impl Rem<u128> for BigUint :: fn rem props=C10,C03,C14 label=rem_u128
    fn rem(self, other: u128) -> /*+*/(r: /*-*/BigUint/*+*/)/*-*/
//+{
        ensures mp() ==> other != 0, r.wf(), exists|q: nat| udiv_ok(self.v(), other as nat, q, r.v())
//+}
    {
        let (_, r) = div_rem(self, From::from(other));
        r
    }
//@ end
}

impl RemSpecImpl<u32> for &BigUint {
    open spec fn obeys_rem_spec() -> bool { false }
    open spec fn rem_req(self, rhs: u32) -> bool { self.wf() && (!mp() ==> rhs != 0) }
    open spec fn rem_spec(self, rhs: u32) -> BigUint { arbitrary() }
}
impl Rem<u32> for &BigUint {
    type Output = BigUint;
//@ extract src/biguint/division.rs :: impl Rem<u32> for &BigUint :: fn rem rules=R0,R3j props=C10,C03,C14 label=rem_ref_u32
    fn rem(self, other: u32) -> /*+*/(r: /*-*/BigUint/*+*/)/*-*/
//+{
        ensures mp() ==> other != 0, r.wf(), exists|q: nat| udiv_ok(self.v(), other as nat, q, r.v())
//+}
    {
        /*+*/let res: BigUint = /*-*/From::from(rem_digit(self, other as BigDigit))/*+*/;
        proof {
            let q = choose|q: nat| self.v() == #[trigger] (q * (other as nat)) + res.v();
            assert(udiv_ok(self.v(), other as nat, q, res.v()));
        }
        res/*-*/
    }
//@ end
}

impl RemSpecImpl<&BigUint> for &BigUint {
    open spec fn obeys_rem_spec() -> bool { false }
    open spec fn rem_req(self, rhs: &BigUint) -> bool { self.wf() && rhs.wf() && (!mp() ==> rhs.v() != 0) }
    open spec fn rem_spec(self, rhs: &BigUint) -> BigUint { arbitrary() }
}
impl Rem<&BigUint> for &BigUint {
    type Output = BigUint;
//@ extract src/biguint/division.rs :: impl Rem<&BigUint> for &BigUint :: fn rem rules=R0,R3r props=C10,C03,C14 label=rem_ref_ref
    fn rem(self, other: &BigUint) -> /*+*/(r: /*-*/BigUint/*+*/)/*-*/
//+{
        ensures mp() ==> other.v() != 0, r.wf(), exists|q: nat| udiv_ok(self.v(), other.v(), q, r.v())
//+}
    {
        if let Some(other) = other.to_u32() {
            Rem::rem(self, other)
        } else {
            let (_, r) = self.div_rem(other);
            r
        }
    }
//@ end
}

impl DivSpecImpl<BigUint> for BigUint {
    open spec fn obeys_div_spec() -> bool { false }
    open spec fn div_req(self, rhs: BigUint) -> bool { self.wf() && rhs.wf() && (!mp() ==> rhs.v() != 0) }
    open spec fn div_spec(self, rhs: BigUint) -> BigUint { arbitrary() }
}
impl Div<BigUint> for BigUint {
    type Output = BigUint;
//@ extract src/biguint/division.rs :: impl Div<BigUint> for BigUint :: fn div props=C10,C03,C14 label=div_val_val
    fn div(self, other: BigUint) -> /*+*/(r: /*-*/BigUint/*+*/)/*-*/
//+{
        ensures mp() ==> other.v() != 0, r.wf(), exists|m: nat| udiv_ok(self.v(), other.v(), r.v(), m)
//+}
    {
        let (q, _) = div_rem(self, other);
        q
    }
//@ end
}
impl RemSpecImpl<BigUint> for BigUint {
    open spec fn obeys_rem_spec() -> bool { false }
    open spec fn rem_req(self, rhs: BigUint) -> bool { self.wf() && rhs.wf() && (!mp() ==> rhs.v() != 0) }
    open spec fn rem_spec(self, rhs: BigUint) -> BigUint { arbitrary() }
}
impl Rem<BigUint> for BigUint {
    type Output = BigUint;
//@ extract src/biguint/division.rs :: impl Rem<BigUint> for BigUint :: fn rem rules=R0,R3q props=C10,C03,C14 label=rem_val_val
    fn rem(self, other: BigUint) -> /*+*/(r: /*-*/BigUint/*+*/)/*-*/
//+{
        ensures mp() ==> other.v() != 0, r.wf(), exists|q: nat| udiv_ok(self.v(), other.v(), q, r.v())
//+}
    {
        if let Some(other) = other.to_u32() {
            Rem::rem(&self, other)
        } else {
            let (_, r) = div_rem(self, other);
            r
        }
    }
//@ end
}

impl DivSpecImpl<BigUint> for u32 {
    open spec fn obeys_div_spec() -> bool { false }
    open spec fn div_req(self, rhs: BigUint) -> bool { rhs.wf() && (!mp() ==> rhs.v() != 0) }
    open spec fn div_spec(self, rhs: BigUint) -> BigUint { arbitrary() }
}
impl Div<BigUint> for u32 {
    type Output = BigUint;
//@ extract src/biguint/division.rs :: impl Div<BigUint> for u32 :: fn div rules=R0,R11b props=C10,C03,C14 label=u32_div_big
    fn div(self, other: BigUint) -> /*+*/(r: /*-*/BigUint/*+*/)/*-*/
//+{
        ensures mp() ==> other.v() != 0, r.wf(), exists|m: nat| udiv_ok(self as nat, other.v(), r.v(), m)
//+}
    {
//+{
        proof { lemma_small_over_big(self as nat, other.data@); }
//+}
        /*+*/let res: BigUint = /*-*/match other.data.len() {
            0 => __panic(),
            1 => From::from(self as BigDigit / other.data[0]),
            _ => BigUint::ZERO,
        }/*+*/;
        proof {
            let d = other.data@;
            if d.len() == 1 { assert(res.v() == (self as nat) / (d[0] as nat)); assert(udiv_ok(self as nat, other.v(), res.v(), (self as nat) % (d[0] as nat))); }
            else { assert(udiv_ok(self as nat, other.v(), res.v(), self as nat)); }
        }
        res/*-*/
    }
//@ end
}

impl DivSpecImpl<BigUint> for u64 {
    open spec fn obeys_div_spec() -> bool { false }
    open spec fn div_req(self, rhs: BigUint) -> bool { rhs.wf() && (!mp() ==> rhs.v() != 0) }
    open spec fn div_spec(self, rhs: BigUint) -> BigUint { arbitrary() }
}
impl Div<BigUint> for u64 {
    type Output = BigUint;
//@ extract src/biguint/division.rs :: impl Div<BigUint> for u64 :: fn div rules=R0,R11b props=C10,C03,C14 label=u64_div_big
    fn div(self, other: BigUint) -> /*+*/(r: /*-*/BigUint/*+*/)/*-*/
//+{
        ensures mp() ==> other.v() != 0, r.wf(), exists|m: nat| udiv_ok(self as nat, other.v(), r.v(), m)
//+}
    {
//+{
        proof { lemma_small_over_big(self as nat, other.data@); }
//+}
        /*+*/let res: BigUint = /*-*/match other.data.len() {
            0 => __panic(),
            1 => From::from(self / other.data[0]),
            _ => BigUint::ZERO,
        }/*+*/;
        proof {
            let d = other.data@;
            if d.len() == 1 { assert(res.v() == (self as nat) / (d[0] as nat)); assert(udiv_ok(self as nat, other.v(), res.v(), (self as nat) % (d[0] as nat))); }
            else { assert(udiv_ok(self as nat, other.v(), res.v(), self as nat)); }
        }
        res/*-*/
    }
//@ end
}

/// dividing a one-digit scalar by a canonical big number: zero digits = zero divisor, one digit = machine division,
/// more digits = quotient 0
pub proof fn lemma_small_over_big(s: nat, d: Seq<u64>)
    requires wf(d), s < B()
    ensures
        d.len() == 0 ==> val(d) == 0,
        d.len() == 1 ==> val(d) == d[0] as nat && d[0] != 0 && udiv_ok(s, val(d), s / (d[0] as nat), s % (d[0] as nat)),
        d.len() >= 2 ==> udiv_ok(s, val(d), 0, s),
{
    if d.len() == 1 {
        lemma_val_single(d[0]);
        assert(d =~= seq![d[0]]);
        let b = d[0] as nat;
        assert(s == (s / b) * b + s % b && s % b < b) by (nonlinear_arith) requires b > 0;
    }
    if d.len() >= 2 {
        lemma_wf_lower(d);
        lemma_pw_mono(1, (d.len() - 1) as nat);
        assert(pw(1) == B() * pw(0));
        assert(0nat * val(d) == 0) by (nonlinear_arith);
    }
}

} // mod u
} // verus!
fn main() {}
