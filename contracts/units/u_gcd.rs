//@ unit u_gcd : Stein's binary gcd for BigUint (src/biguint.rs :: impl Integer for BigUint :: fn gcd)
#![feature(allocator_api)]
use vstd::prelude::*;
use vstd::std_specs::iter::IteratorSpec;
use vstd::std_specs::ops::*;
use vstd::arithmetic::power2::pow2;
use core::ops::{Shl, ShrAssign, SubAssign};
use core::cmp::Ordering;
use core::cmp::Ordering::{Equal, Greater, Less};
use core::cmp;
use core::mem;
verus! {
//@ include prelude/core.rs
//@ include prelude/std_specs.rs
//@ include prelude/panic.rs
//@ include prelude/bitval.rs
//@ include prelude/gcdspec.rs
//@ include prelude/gcdtheory.rs
pub mod u {
use super::*;

//@ extract src/biguint.rs :: struct BigUint
pub struct BigUint {
    data: Vec<BigDigit>,
}
//@ end
//@ include prelude/biguint_view.rs
pub open spec fn p2(k: nat) -> nat { pow2(k) }
pub open spec fn ord_of(a: nat, b: nat) -> Ordering {
    if a < b { Ordering::Less } else if a == b { Ordering::Equal } else { Ordering::Greater }
}
impl BigUint {
//@ stub u_core/is_zero
//@ stub u_core/clone
//@ stub u_cmp/cmp
//@ stub u_bitq/trailing_zeros
}
impl ShrAssignSpecImpl<u64> for BigUint {
    open spec fn obeys_shr_assign_spec() -> bool { false }
    open spec fn shr_assign_req(&self, rhs: u64) -> bool { self.wf() }
    open spec fn shr_assign_spec(&self, rhs: u64) -> &BigUint { arbitrary() }
}
impl ShrAssign<u64> for BigUint {
//@ stub u_shiftops/shr_assign_u64
}
impl ShlSpecImpl<u64> for BigUint {
    open spec fn obeys_shl_spec() -> bool { false }
    open spec fn shl_req(self, rhs: u64) -> bool { self.wf() }
    open spec fn shl_spec(self, rhs: u64) -> BigUint { arbitrary() }
}
impl Shl<u64> for BigUint {
    type Output = BigUint;
//@ stub u_shiftops/shl_u64
}
impl SubAssignSpecImpl<&BigUint> for BigUint {
    open spec fn obeys_sub_assign_spec() -> bool { false }
    open spec fn sub_assign_req(&self, rhs: &BigUint) -> bool { self.wf() && rhs.wf() && (!mp() ==> self.v() >= rhs.v()) }
    open spec fn sub_assign_spec(&self, rhs: &BigUint) -> &BigUint { arbitrary() }
}
impl SubAssign<&BigUint> for BigUint {
//@ stub u_addsub/sub_assign
}

/// the exponent of two in v (v != 0)
pub open spec fn tzs(v: nat) -> nat { choose|t: nat| v % p2(t) == 0 && bitv(v, t) }

/// two exponents t1, t2 with v = 2^t * odd coincide
pub proof fn lemma_tz_unique(v: nat, t1: nat, t2: nat)
    requires v % p2(t1) == 0, bitv(v, t1), v % p2(t2) == 0, bitv(v, t2)
    ensures t1 == t2
{
    lemma_tz_round(v, t1, t2);
    lemma_tz_round(v, t2, t1);
}

/// v = 2^t * (v / 2^t) with odd quotient
pub proof fn lemma_tz_split(v: nat, t: nat)
    requires v % p2(t) == 0, bitv(v, t)
    ensures v == p2(t) * (v / p2(t)), odd(v / p2(t)), v / p2(t) > 0, v / p2(t) <= v
{
    vstd::arithmetic::power2::lemma_pow2_pos(t);
    vstd::arithmetic::div_mod::lemma_fundamental_div_mod(v as int, p2(t) as int);
    let q = v / p2(t);
    assert(p2(t) * q >= q) by (nonlinear_arith) requires p2(t) >= 1;
}

/// conclusion of Stein's algorithm: from gcd(a, b1) = n to gcd(a, b) = n * 2^min(ta, tb)
pub proof fn lemma_stein_final(a: nat, b: nat, ta: nat, tb: nat, n: nat, s: nat)
    requires a % p2(ta) == 0, bitv(a, ta), b % p2(tb) == 0, bitv(b, tb), s == (if ta <= tb { ta } else { tb }),
        is_gcd(a, b / p2(tb), n)
    ensures is_gcd(a, b, n * p2(s))
{
    lemma_tz_split(a, ta);
    lemma_tz_split(b, tb);
    let a1 = a / p2(ta); let b1 = b / p2(tb);
    vstd::arithmetic::power2::lemma_pow2_adds(s, (ta - s) as nat);
    vstd::arithmetic::power2::lemma_pow2_adds(s, (tb - s) as nat);
    vstd::arithmetic::power2::lemma2_to64();
    let x = p2((ta - s) as nat) * a1;
    let y = p2((tb - s) as nat) * b1;
    assert(a == p2(s) * x) by (nonlinear_arith) requires a == p2(ta) * a1, p2(ta) == p2(s) * p2((ta - s) as nat), x == p2((ta - s) as nat) * a1;
    assert(b == p2(s) * y) by (nonlinear_arith) requires b == p2(tb) * b1, p2(tb) == p2(s) * p2((tb - s) as nat), y == p2((tb - s) as nat) * b1;
    // remove 2^s from a (b1 is odd)
    lemma_gcd_pow2_odd(x, b1, n, s);
    assert(is_gcd(x, b1, n));
    // put 2^(tb - s) back on the b side
    if tb == s {
        assert(y == b1) by (nonlinear_arith) requires y == p2(0) * b1, p2(0) == 1;
    } else {
        assert(x == a1) by (nonlinear_arith) requires x == p2(0) * a1, p2(0) == 1;
        lemma_gcd_sym(x, b1, n);
        lemma_gcd_pow2_odd(b1, x, n, (tb - s) as nat);
        lemma_gcd_sym(y, x, n);
    }
    assert(is_gcd(x, y, n));
    lemma_gcd_scale_pow2(x, y, n, s);
    assert(p2(s) * n == n * p2(s)) by (nonlinear_arith);
}

impl BigUint {
//@ extract src/biguint.rs :: impl Integer for BigUint :: fn gcd rules=R0,R16g,R12j props=C13,C14
    fn gcd(&self, other: &Self) -> /*+*/(r: /*-*/Self/*+*/)/*-*/
//+{
        requires self.wf(), other.wf()
        ensures r.wf(), is_gcd(self.v(), other.v(), r.v())
//+}
    {
        fn twos(x: &BigUint) -> /*+*/(r: /*-*/u64/*+*/)/*-*/
//+{
            ensures x.v() != 0 ==> r as nat == tzs(x.v()) && x.v() % p2(r as nat) == 0 && bitv(x.v(), r as nat)
//+}
        {
//+{
            let ghost v = x.v();
//+}
            /*+*/let r = /*-*/x.trailing_zeros().unwrap_or(0)/*+*/;
            proof { if v != 0 { lemma_tz_unique(v, r as nat, tzs(v)); } }
            r/*-*/
        }

        // Stein's algorithm
        if self.is_zero() {
//+{
            proof { lemma_gcd_zero_left(other.v()); }
//+}
            return other.clone();
        }
        if other.is_zero() {
//+{
            proof { lemma_gcd_zero_left(self.v()); lemma_gcd_sym(0, self.v(), self.v()); }
//+}
            return self.clone();
        }
        let mut m = self.clone();
        let mut n = other.clone();
//+{
        let ghost a = self.v();
        let ghost b = other.v();
//+}

        // find common factors of 2
        let shift = Ord::min(twos(&n), twos(&m));

        // divide m and n by 2 until odd
        // m inside loop
//+{
        let ghost tb0 = tzs(b);
//+}
        n >>= twos(&n);
//+{
        let ghost b1 = n.v();
        proof { lemma_tz_split(b, tb0); }
//+}

        while !m.is_zero()
//+{
            invariant
                m.wf(), n.wf(), odd(n.v()), n.v() > 0,
                forall|g: nat| #[trigger] is_gcd(m.v(), n.v(), g) ==> is_gcd(a, b1, g),
            decreases m.v() + n.v()
//+}
        {
//+{
            let ghost m0 = m.v();
            let ghost n0 = n.v();
            let ghost t = tzs(m0);
//+}
            m >>= twos(&m);
//+{
            let ghost m1 = m.v();
            proof { lemma_tz_split(m0, t); }
//+}
            if n > m {
                mem::swap(&mut n, &mut m)
            }
//+{
            let ghost big = m.v();
            let ghost small = n.v();
//+}
            m -= &n;
//+{
            proof {
                assert forall|g: nat| #[trigger] is_gcd(m.v(), n.v(), g) implies is_gcd(a, b1, g) by {
                    lemma_gcd_sub(big, small, g);
                    lemma_gcd_sym(m1, n0, g);
                    lemma_gcd_pow2_odd(m1, n0, g, t);
                    assert(is_gcd(m0, n0, g));
                }
            }
//+}
        }
//+{
        proof {
            lemma_gcd_zero_left(n.v());
            assert(is_gcd(a, b1, n.v()));
            lemma_stein_final(a, b, tzs(a), tzs(b), n.v(), shift as nat);
        }
//+}

        n << shift
    }
//@ end
}

} // mod u
} // verus!
fn main() {}
