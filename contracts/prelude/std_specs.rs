// Assumed specifications of std items that this vstd lacks. Each mirrors the std documentation.
//@ assume std::<&mut [T]>::into_iter : mirrors vstd's spec of <[T]>::iter_mut (std: `impl IntoIterator for &mut [T]` is `self.iter_mut()`)
pub assume_specification<'a, T>[ <&'a mut [T] as core::iter::IntoIterator>::into_iter ](slice: &'a mut [T]) -> (iter: core::slice::IterMut<'a, T>)
    ensures
        iter.remaining().len() == old(slice)@.len(),
        old(slice)@.len() == final(slice)@.len(),
        forall|i: int| 0 <= i < old(slice)@.len() ==> *(#[trigger] iter.remaining()[i]) == old(slice)@[i],
        forall|i: int| 0 <= i < old(slice)@.len() ==> *final(#[trigger] iter.remaining()[i]) == final(slice)@[i],
        iter.obeys_prophetic_iter_laws(),
        iter.will_return_none(),
        iter.decrease() is Some,
;

//@ assume std::Vec::capacity : std documentation: capacity() >= len()
pub assume_specification<T, A: core::alloc::Allocator>[ Vec::<T, A>::capacity ](v: &Vec<T, A>) -> (r: usize)
    ensures r >= v@.len();

//@ assume std::Vec::shrink_to_fit : std documentation: contents unchanged
pub assume_specification<T, A: core::alloc::Allocator>[ Vec::<T, A>::shrink_to_fit ](v: &mut Vec<T, A>)
    ensures final(v)@ == old(v)@;

//@ assume __rpos_nz_len : rule R12a: std semantics of `s.iter().rposition(|&d| d != 0).map_or(0, |i| i + 1)`
#[verifier::external_body]
pub fn __rpos_nz_len(s: &[u64]) -> (r: usize)
    ensures r <= s.len(), r == 0 || s[r - 1] != 0, forall|j: int| r <= j < s.len() ==> s[j] == 0
{ unimplemented!() }

//@ assume __pos_nz : rule R12b: std semantics of `s.iter().position(|&d| d != 0)`
#[verifier::external_body]
pub fn __pos_nz(s: &[u64]) -> (r: Option<usize>)
    ensures
        match r {
            Some(i) => i < s.len() && s[i as int] != 0 && forall|j: int| 0 <= j < i ==> s[j] == 0,
            None => forall|j: int| 0 <= j < s.len() ==> s[j] == 0,
        }
{ unimplemented!() }

//@ assume std::<T as From<T>>::from : reflexive conversion is the identity (std: `impl<T> From<T> for T { fn from(t: T) -> T { t } }`)
pub assume_specification<T>[ <T as core::convert::From<T>>::from ](x: T) -> (r: T)
    ensures r == x;

//@ assume __cmp_rev : rule R12c: std semantics of `Iterator::cmp(a.iter().rev(), b.iter().rev())` for equal lengths: lexicographic comparison from the last element down
#[verifier::external_body]
pub fn __cmp_rev(a: &[u64], b: &[u64]) -> (r: core::cmp::Ordering)
    requires a.len() == b.len()
    ensures
        (r == core::cmp::Ordering::Equal) <==> (a@ == b@),
        (r == core::cmp::Ordering::Less) <==> (exists|k: int| 0 <= k < a.len() && a[k] < b[k] && forall|j: int| k < j < a.len() ==> a[j] == b[j]),
        (r == core::cmp::Ordering::Greater) <==> (exists|k: int| 0 <= k < a.len() && a[k] > b[k] && forall|j: int| k < j < a.len() ==> a[j] == b[j]),
{ unimplemented!() }
