// Divisibility facts behind Stein's binary gcd (C13): parity, halving, subtraction, scaling by powers of two.
pub open spec fn odd(n: nat) -> bool { n % 2 == 1 }

pub proof fn lemma_divides_mul(d: nat, a: nat, c: nat)
    requires divides(d, a)
    ensures divides(d, c * a)
{
    let k = choose|k: nat| a == #[trigger] (k * d);
    assert(c * a == (c * k) * d) by (nonlinear_arith) requires a == k * d;
    assert(c * a == #[trigger] ((c * k) * d));
}

pub proof fn lemma_divides_self(d: nat)
    ensures divides(d, d), divides(d, 0)
{
    assert(d == #[trigger] (1nat * d)) by (nonlinear_arith);
    assert(0 == #[trigger] (0nat * d)) by (nonlinear_arith);
}

/// a divisor of an odd number is odd
pub proof fn lemma_divisor_of_odd(d: nat, n: nat)
    requires odd(n), divides(d, n)
    ensures odd(d)
{
    let k = choose|k: nat| n == #[trigger] (k * d);
    if d % 2 == 0 {
        let h = d / 2;
        assert(k * d == 2 * (k * h)) by (nonlinear_arith) requires d == 2 * h;
        assert((2 * (k * h)) % 2 == 0) by (nonlinear_arith);
    }
}

/// an odd divisor of 2m divides m
pub proof fn lemma_odd_divides_half(d: nat, m: nat)
    requires odd(d), divides(d, 2 * m)
    ensures divides(d, m)
{
    let k = choose|k: nat| 2 * m == #[trigger] (k * d);
    if k % 2 == 1 {
        let kh = k / 2; let dh = d / 2;
        assert(k * d == 2 * (2 * kh * dh + kh + dh) + 1) by (nonlinear_arith) requires k == 2 * kh + 1, d == 2 * dh + 1;
        assert(false);
    }
    let k2 = k / 2;
    assert(m == k2 * d) by (nonlinear_arith) requires 2 * m == k * d, k == 2 * k2;
    assert(m == #[trigger] (k2 * d));
}

/// for odd n: gcd(2m, n) == gcd(m, n)
pub proof fn lemma_gcd_double_odd(m: nat, n: nat, g: nat)
    requires odd(n)
    ensures is_gcd(2 * m, n, g) <==> is_gcd(m, n, g)
{
    if is_gcd(2 * m, n, g) {
        lemma_divisor_of_odd(g, n);
        lemma_odd_divides_half(g, m);
        assert forall|d: nat| divides(d, m) && divides(d, n) implies #[trigger] divides(d, g) by {
            lemma_divides_mul(d, m, 2);
        }
    }
    if is_gcd(m, n, g) {
        lemma_divides_mul(g, m, 2);
        assert forall|d: nat| divides(d, 2 * m) && divides(d, n) implies #[trigger] divides(d, g) by {
            lemma_divisor_of_odd(d, n);
            lemma_odd_divides_half(d, m);
        }
    }
}

/// for odd n: gcd(2^t * m, n) == gcd(m, n)
pub proof fn lemma_gcd_pow2_odd(m: nat, n: nat, g: nat, t: nat)
    requires odd(n)
    ensures is_gcd(vstd::arithmetic::power2::pow2(t) * m, n, g) <==> is_gcd(m, n, g)
    decreases t
{
    vstd::arithmetic::power2::lemma2_to64();
    if t == 0 {
        assert(vstd::arithmetic::power2::pow2(0) * m == m) by (nonlinear_arith) requires vstd::arithmetic::power2::pow2(0) == 1;
    } else {
        let p = vstd::arithmetic::power2::pow2((t - 1) as nat);
        vstd::arithmetic::power2::lemma_pow2_unfold(t);
        assert(vstd::arithmetic::power2::pow2(t) * m == 2 * (p * m)) by (nonlinear_arith) requires vstd::arithmetic::power2::pow2(t) == 2 * p;
        lemma_gcd_double_odd(p * m, n, g);
        lemma_gcd_pow2_odd(m, n, g, (t - 1) as nat);
    }
}

pub proof fn lemma_gcd_sym(a: nat, b: nat, g: nat)
    ensures is_gcd(a, b, g) <==> is_gcd(b, a, g)
{
}

/// gcd(m - n, n) == gcd(m, n)
pub proof fn lemma_gcd_sub(m: nat, n: nat, g: nat)
    requires m >= n
    ensures is_gcd((m - n) as nat, n, g) <==> is_gcd(m, n, g)
{
    let r = (m - n) as nat;
    // d | r, d | n ==> d | m   and   d | m, d | n ==> d | r
    assert forall|d: nat| divides(d, r) && divides(d, n) implies divides(d, m) by {
        let k1 = choose|k: nat| r == #[trigger] (k * d);
        let k2 = choose|k: nat| n == #[trigger] (k * d);
        assert(m == (k1 + k2) * d) by (nonlinear_arith) requires m == r + n, r == k1 * d, n == k2 * d;
        assert(m == #[trigger] ((k1 + k2) * d));
    }
    assert forall|d: nat| divides(d, m) && divides(d, n) implies divides(d, r) by {
        let k1 = choose|k: nat| m == #[trigger] (k * d);
        let k2 = choose|k: nat| n == #[trigger] (k * d);
        if k1 < k2 {
            assert(k1 * d + d <= k2 * d) by (nonlinear_arith) requires k1 + 1 <= k2;
            assert(d == 0);
            assert(k1 * d == 0) by (nonlinear_arith) requires d == 0;
            assert(k2 * d == 0) by (nonlinear_arith) requires d == 0;
            assert(r == #[trigger] (0nat * d)) by (nonlinear_arith) requires r == 0;
        } else {
            assert(r == (k1 - k2) * d) by (nonlinear_arith) requires r == m - n, m == k1 * d, n == k2 * d, k1 >= k2;
            assert(r == #[trigger] (((k1 - k2) as nat) * d));
        }
    }
    if is_gcd(r, n, g) {
        assert forall|d: nat| divides(d, m) && divides(d, n) implies #[trigger] divides(d, g) by { assert(divides(d, r)); }
    }
    if is_gcd(m, n, g) {
        assert forall|d: nat| divides(d, r) && divides(d, n) implies #[trigger] divides(d, g) by { assert(divides(d, m)); }
    }
}

/// gcd(0, n) == n
pub proof fn lemma_gcd_zero_left(n: nat)
    ensures is_gcd(0, n, n)
{
    lemma_divides_self(n);
}

/// gcd(2a, 2b) == 2 gcd(a, b)
pub proof fn lemma_gcd_scale2(a: nat, b: nat, g: nat)
    requires is_gcd(a, b, g)
    ensures is_gcd(2 * a, 2 * b, 2 * g)
{
    // 2g | 2a, 2g | 2b
    let ka = choose|k: nat| a == #[trigger] (k * g);
    let kb = choose|k: nat| b == #[trigger] (k * g);
    assert(2 * a == ka * (2 * g)) by (nonlinear_arith) requires a == ka * g;
    assert(2 * a == #[trigger] (ka * (2 * g)));
    assert(2 * b == kb * (2 * g)) by (nonlinear_arith) requires b == kb * g;
    assert(2 * b == #[trigger] (kb * (2 * g)));
    assert forall|d: nat| divides(d, 2 * a) && divides(d, 2 * b) implies #[trigger] divides(d, 2 * g) by {
        if d % 2 == 1 {
            lemma_odd_divides_half(d, a);
            lemma_odd_divides_half(d, b);
            assert(divides(d, g));
            lemma_divides_mul(d, g, 2);
        } else {
            let h = d / 2;
            let k1 = choose|k: nat| 2 * a == #[trigger] (k * d);
            let k2 = choose|k: nat| 2 * b == #[trigger] (k * d);
            assert(a == k1 * h) by (nonlinear_arith) requires 2 * a == k1 * d, d == 2 * h;
            assert(a == #[trigger] (k1 * h));
            assert(b == k2 * h) by (nonlinear_arith) requires 2 * b == k2 * d, d == 2 * h;
            assert(b == #[trigger] (k2 * h));
            assert(divides(h, g));
            let k3 = choose|k: nat| g == #[trigger] (k * h);
            assert(2 * g == k3 * d) by (nonlinear_arith) requires g == k3 * h, d == 2 * h;
            assert(2 * g == #[trigger] (k3 * d));
        }
    }
}

/// gcd(2^s a, 2^s b) == 2^s gcd(a, b)
pub proof fn lemma_gcd_scale_pow2(a: nat, b: nat, g: nat, s: nat)
    requires is_gcd(a, b, g)
    ensures is_gcd(vstd::arithmetic::power2::pow2(s) * a, vstd::arithmetic::power2::pow2(s) * b, vstd::arithmetic::power2::pow2(s) * g)
    decreases s
{
    vstd::arithmetic::power2::lemma2_to64();
    let ps = vstd::arithmetic::power2::pow2(s);
    if s == 0 {
        assert(ps * a == a && ps * b == b && ps * g == g) by (nonlinear_arith) requires ps == 1;
    } else {
        let p = vstd::arithmetic::power2::pow2((s - 1) as nat);
        vstd::arithmetic::power2::lemma_pow2_unfold(s);
        lemma_gcd_scale_pow2(a, b, g, (s - 1) as nat);
        lemma_gcd_scale2(p * a, p * b, p * g);
        assert(ps * a == 2 * (p * a) && ps * b == 2 * (p * b) && ps * g == 2 * (p * g)) by (nonlinear_arith) requires ps == 2 * p;
    }
}

pub proof fn lemma_divides_add(d: nat, a: nat, b: nat)
    requires divides(d, a), divides(d, b)
    ensures divides(d, a + b)
{
    let k1 = choose|k: nat| a == #[trigger] (k * d);
    let k2 = choose|k: nat| b == #[trigger] (k * d);
    assert(a + b == (k1 + k2) * d) by (nonlinear_arith) requires a == k1 * d, b == k2 * d;
    assert(a + b == #[trigger] ((k1 + k2) * d));
}

pub proof fn lemma_divides_sub(d: nat, a: nat, b: nat)
    requires divides(d, a), divides(d, b), a >= b
    ensures divides(d, (a - b) as nat)
{
    let k1 = choose|k: nat| a == #[trigger] (k * d);
    let k2 = choose|k: nat| b == #[trigger] (k * d);
    let r = (a - b) as nat;
    if k1 < k2 {
        assert(k1 * d + d <= k2 * d) by (nonlinear_arith) requires k1 + 1 <= k2;
        assert(d == 0);
        assert(k1 * d == 0) by (nonlinear_arith) requires d == 0;
        assert(k2 * d == 0) by (nonlinear_arith) requires d == 0;
        assert(r == #[trigger] (0nat * d)) by (nonlinear_arith) requires r == 0;
    } else {
        assert(r == (k1 - k2) * d) by (nonlinear_arith) requires r == a - b, a == k1 * d, b == k2 * d, k1 >= k2;
        assert(r == #[trigger] (((k1 - k2) as nat) * d));
    }
}

/// one Euclid step: x = q*y + z  ==>  gcd(y, z) == gcd(x, y)
pub proof fn lemma_gcd_divstep(x: nat, y: nat, q: nat, z: nat, g: nat)
    requires x == q * y + z
    ensures is_gcd(y, z, g) <==> is_gcd(x, y, g)
{
    assert forall|d: nat| divides(d, y) && divides(d, z) implies divides(d, x) by {
        lemma_divides_mul(d, y, q);
        lemma_divides_add(d, q * y, z);
    }
    assert forall|d: nat| divides(d, x) && divides(d, y) implies divides(d, z) by {
        lemma_divides_mul(d, y, q);
        lemma_divides_sub(d, x, q * y);
    }
    if is_gcd(y, z, g) {
        assert forall|d: nat| divides(d, x) && divides(d, y) implies #[trigger] divides(d, g) by { assert(divides(d, z)); }
    }
    if is_gcd(x, y, g) {
        assert forall|d: nat| divides(d, y) && divides(d, z) implies #[trigger] divides(d, g) by { assert(divides(d, x)); }
    }
}

/// gcd(x, 0) == x
pub proof fn lemma_gcd_zero_right(n: nat)
    ensures is_gcd(n, 0, n)
{
    lemma_divides_self(n);
}

pub proof fn lemma_divides_one(d: nat)
    requires divides(d, 1)
    ensures d == 1
{
    let k = choose|k: nat| 1 == #[trigger] (k * d);
    assert(k == 1 && d == 1) by (nonlinear_arith) requires k * d == 1;
}

pub proof fn lemma_one_divides(a: nat)
    ensures divides(1, a)
{
    assert(a == #[trigger] (a * 1nat)) by (nonlinear_arith);
}
