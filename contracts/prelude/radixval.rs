// little-endian value of digits in base 2^bits (power-of-two radix import/export, bytes)
pub open spec fn valb(s: Seq<u8>, bits: nat, k: nat) -> nat
    decreases k
{
    if k == 0 { 0 } else { valb(s, bits, (k - 1) as nat) + (s[k - 1] as nat) * vstd::arithmetic::power2::pow2(bits * ((k - 1) as nat)) }
}

pub proof fn lemma_valb_ext(s: Seq<u8>, t: Seq<u8>, bits: nat, k: nat)
    requires forall|i: int| 0 <= i < k ==> s[i] == t[i]
    ensures valb(s, bits, k) == valb(t, bits, k)
    decreases k
{
    if k > 0 { lemma_valb_ext(s, t, bits, (k - 1) as nat); }
}

/// x % 2^(a+b) == x % 2^a + ((x / 2^a) % 2^b) * 2^a
pub proof fn lemma_mod_pow2_split(x: nat, a: nat, b: nat)
    ensures x % vstd::arithmetic::power2::pow2(a + b) == x % vstd::arithmetic::power2::pow2(a) + ((x / vstd::arithmetic::power2::pow2(a)) % vstd::arithmetic::power2::pow2(b)) * vstd::arithmetic::power2::pow2(a),
        (x / vstd::arithmetic::power2::pow2(a)) / vstd::arithmetic::power2::pow2(b) == x / vstd::arithmetic::power2::pow2(a + b),
{
    let pa = vstd::arithmetic::power2::pow2(a); let pb = vstd::arithmetic::power2::pow2(b);
    vstd::arithmetic::power2::lemma_pow2_pos(a);
    vstd::arithmetic::power2::lemma_pow2_pos(b);
    vstd::arithmetic::power2::lemma_pow2_adds(a, b);
    vstd::arithmetic::div_mod::lemma_mod_breakdown(x as int, pa as int, pb as int);
    vstd::arithmetic::div_mod::lemma_div_denominator(x as int, pa as int, pb as int);
    assert(pa * ((x / pa) % pb) == ((x / pa) % pb) * pa) by (nonlinear_arith);
}

/// value of the digits from position j on, as a number of its own: valb(s[j..], n)
pub proof fn lemma_valb_split(s: Seq<u8>, bits: nat, j: nat, n: nat)
    requires j + n <= s.len()
    ensures valb(s, bits, j + n) == valb(s, bits, j) + vstd::arithmetic::power2::pow2(bits * j) * valb(s.subrange(j as int, s.len() as int), bits, n)
    decreases n
{
    let t = s.subrange(j as int, s.len() as int);
    if n == 0 {
        assert(vstd::arithmetic::power2::pow2(bits * j) * 0 == 0) by (nonlinear_arith);
    } else {
        lemma_valb_split(s, bits, j, (n - 1) as nat);
        let m = (n - 1) as nat;
        assert(t[m as int] == s[(j + m) as int]);
        vstd::arithmetic::power2::lemma_pow2_adds(bits * j, bits * m);
        assert(bits * (j + m) == bits * j + bits * m) by (nonlinear_arith);
        let pj = vstd::arithmetic::power2::pow2(bits * j); let pm = vstd::arithmetic::power2::pow2(bits * m);
        let x = s[(j + m) as int] as nat;
        assert(pj * (valb(t, bits, m) + x * pm) == pj * valb(t, bits, m) + x * (pj * pm)) by (nonlinear_arith);
    }
}

/// head form: valb(s, n) == s[0] + 2^bits * valb(s[1..], n-1)
pub proof fn lemma_valb_cons(s: Seq<u8>, bits: nat, n: nat)
    requires 1 <= n <= s.len()
    ensures valb(s, bits, n) == (s[0] as nat) + vstd::arithmetic::power2::pow2(bits) * valb(s.subrange(1, s.len() as int), bits, (n - 1) as nat)
{
    lemma_valb_split(s, bits, 1, (n - 1) as nat);
    vstd::arithmetic::power2::lemma2_to64();
    assert(bits * 0 == 0 && bits * 1 == bits) by (nonlinear_arith);
    assert(valb(s, bits, 1) == valb(s, bits, 0) + (s[0] as nat) * vstd::arithmetic::power2::pow2(bits * 0));
    assert((s[0] as nat) * 1 == s[0] as nat) by (nonlinear_arith);
}

/// digits below 2^bits give a value below 2^(bits*n)
pub proof fn lemma_valb_bound(s: Seq<u8>, bits: nat, n: nat)
    requires n <= s.len(), forall|i: int| 0 <= i < n ==> (#[trigger] s[i] as nat) < vstd::arithmetic::power2::pow2(bits)
    ensures valb(s, bits, n) < vstd::arithmetic::power2::pow2(bits * n)
    decreases n
{
    vstd::arithmetic::power2::lemma2_to64();
    if n == 0 {
        assert(bits * 0 == 0) by (nonlinear_arith);
    } else {
        let m = (n - 1) as nat;
        lemma_valb_bound(s, bits, m);
        vstd::arithmetic::power2::lemma_pow2_adds(bits * m, bits);
        assert(bits * m + bits == bits * n) by (nonlinear_arith) requires m + 1 == n;
        let pm = vstd::arithmetic::power2::pow2(bits * m); let pb = vstd::arithmetic::power2::pow2(bits);
        let x = s[m as int] as nat;
        assert(valb(s, bits, m) + x * pm < pm * pb) by (nonlinear_arith) requires valb(s, bits, m) < pm, x + 1 <= pb;
    }
}

/// adding a multiple of 2^c above the cut: (u + x * 2^(c+k)) / 2^c == u / 2^c + x * 2^k and the low c bits are unchanged
pub proof fn lemma_add_high(u: nat, x: nat, c: nat, k: nat)
    ensures
        (u + x * vstd::arithmetic::power2::pow2(c + k)) / vstd::arithmetic::power2::pow2(c) == u / vstd::arithmetic::power2::pow2(c) + x * vstd::arithmetic::power2::pow2(k),
        (u + x * vstd::arithmetic::power2::pow2(c + k)) % vstd::arithmetic::power2::pow2(c) == u % vstd::arithmetic::power2::pow2(c),
{
    let pc = vstd::arithmetic::power2::pow2(c); let pk = vstd::arithmetic::power2::pow2(k);
    vstd::arithmetic::power2::lemma_pow2_pos(c);
    vstd::arithmetic::power2::lemma_pow2_adds(c, k);
    let q = u / pc; let r = u % pc;
    vstd::arithmetic::div_mod::lemma_fundamental_div_mod(u as int, pc as int);
    vstd::arithmetic::div_mod::lemma_mod_bound(u as int, pc as int);
    let w = u + x * (pc * pk);
    assert(w == (q + x * pk) * pc + r) by (nonlinear_arith) requires u == pc * q + r, w == u + x * (pc * pk);
    vstd::arithmetic::div_mod::lemma_fundamental_div_mod_converse(w as int, pc as int, (q + x * pk) as int, r as int);
}

/// (lo + c * 2^k) / 2^b == c / 2^(b-k) for lo < 2^k, k <= b
pub proof fn lemma_div_skip_low(lo: nat, c: nat, k: nat, b: nat)
    requires lo < vstd::arithmetic::power2::pow2(k), k <= b
    ensures (lo + c * vstd::arithmetic::power2::pow2(k)) / vstd::arithmetic::power2::pow2(b) == c / vstd::arithmetic::power2::pow2((b - k) as nat)
{
    let pk = vstd::arithmetic::power2::pow2(k); let pd = vstd::arithmetic::power2::pow2((b - k) as nat);
    vstd::arithmetic::power2::lemma_pow2_pos(k);
    vstd::arithmetic::power2::lemma_pow2_pos((b - k) as nat);
    vstd::arithmetic::power2::lemma_pow2_adds(k, (b - k) as nat);
    let w = lo + c * pk;
    assert(w == c * pk + lo);
    assert(c * pk == pk * c) by (nonlinear_arith);
    vstd::arithmetic::div_mod::lemma_fundamental_div_mod_converse(w as int, pk as int, c as int, lo as int);
    vstd::arithmetic::div_mod::lemma_div_denominator(w as int, pk as int, pd as int);
}

/// congruent values modulo 2^64 have the same low b bits (b <= 64)
pub proof fn lemma_low_bits_of_trunc(t: nat, r: nat, h: nat, b: nat)
    requires t == r + h * vstd::arithmetic::power2::pow2(64), b <= 64
    ensures t % vstd::arithmetic::power2::pow2(b) == r % vstd::arithmetic::power2::pow2(b)
{
    let pb = vstd::arithmetic::power2::pow2(b);
    vstd::arithmetic::power2::lemma_pow2_pos(b);
    vstd::arithmetic::power2::lemma_pow2_adds(b, (64 - b) as nat);
    let m = h * vstd::arithmetic::power2::pow2((64 - b) as nat);
    assert(t == m * pb + r) by (nonlinear_arith) requires t == r + h * (pb * vstd::arithmetic::power2::pow2((64 - b) as nat)), m == h * vstd::arithmetic::power2::pow2((64 - b) as nat);
    vstd::arithmetic::div_mod::lemma_mod_multiples_vanish(m as int, r as int, pb as int);
}

/// little-endian value of digits in an arbitrary radix
pub open spec fn valr(s: Seq<u8>, radix: nat, k: nat) -> nat
    decreases k
{
    if k == 0 { 0 } else { valr(s, radix, (k - 1) as nat) + (s[k - 1] as nat) * (vstd::arithmetic::power::pow(radix as int, (k - 1) as nat) as nat) }
}

/// for radix 2^bits the two valuations coincide
pub proof fn lemma_valb_is_valr(s: Seq<u8>, bits: nat, k: nat)
    ensures valb(s, bits, k) == valr(s, vstd::arithmetic::power2::pow2(bits), k)
    decreases k
{
    if k > 0 {
        lemma_valb_is_valr(s, bits, (k - 1) as nat);
        let m = (k - 1) as nat;
        vstd::arithmetic::power2::lemma_pow2(bits);
        vstd::arithmetic::power::lemma_pow_multiplies(2, bits, m);
        vstd::arithmetic::power2::lemma_pow2(bits * m);
        vstd::arithmetic::power2::lemma_pow2_pos(bits * m);
    }
}

/// byte order reversal (big-endian byte forms)
pub open spec fn rev8(s: Seq<u8>) -> Seq<u8> { Seq::new(s.len(), |i: int| s[s.len() - 1 - i]) }

/// big-endian (Horner) value of the first k digits
pub open spec fn valbe(s: Seq<u8>, radix: nat, k: nat) -> nat
    decreases k
{
    if k == 0 { 0 } else { valbe(s, radix, (k - 1) as nat) * radix + (s[k - 1] as nat) }
}

pub proof fn lemma_valbe_ext(s: Seq<u8>, t: Seq<u8>, radix: nat, k: nat)
    requires forall|i: int| 0 <= i < k ==> s[i] == t[i]
    ensures valbe(s, radix, k) == valbe(t, radix, k)
    decreases k
{
    if k > 0 { lemma_valbe_ext(s, t, radix, (k - 1) as nat); }
}


/// head form of valr: t[0] + radix * value of the rest
pub proof fn lemma_valr_shift(t: Seq<u8>, radix: nat, n: nat)
    requires n + 1 <= t.len(), radix >= 1
    ensures valr(t, radix, n + 1) == (t[0] as nat) + radix * valr(t.subrange(1, t.len() as int), radix, n)
    decreases n
{
    let u = t.subrange(1, t.len() as int);
    vstd::arithmetic::power::lemma_pow0(radix as int);
    if n == 0 {
        assert((t[0] as nat) * 1 == t[0] as nat && radix * 0 == 0) by (nonlinear_arith);
        assert(valr(t, radix, 1) == valr(t, radix, 0) + (t[0] as nat) * (vstd::arithmetic::power::pow(radix as int, 0) as nat));
        assert(valr(u, radix, 0) == 0);
    } else {
        lemma_valr_shift(t, radix, (n - 1) as nat);
        assert(u[n - 1] == t[n as int]);
        vstd::arithmetic::power::lemma_pow_positive(radix as int, (n - 1) as nat);
        vstd::arithmetic::power::lemma_pow_positive(radix as int, n);
        vstd::arithmetic::power::lemma_pow_adds(radix as int, 1, (n - 1) as nat);
        vstd::arithmetic::power::lemma_pow1(radix as int);
        let pn1 = vstd::arithmetic::power::pow(radix as int, (n - 1) as nat) as nat;
        let pn = vstd::arithmetic::power::pow(radix as int, n) as nat;
        assert(pn == radix * pn1);
        let x = t[n as int] as nat;
        let a = valr(u, radix, (n - 1) as nat);
        assert(radix * (a + x * pn1) == radix * a + x * (radix * pn1)) by (nonlinear_arith);
        assert(valr(t, radix, n + 1) == valr(t, radix, n) + x * pn);
        assert(valr(u, radix, n) == a + x * pn1);
    }
}

/// the Horner (big-endian) value of s is the little-endian value of s reversed
pub proof fn lemma_valbe_is_valr(s: Seq<u8>, radix: nat)
    requires radix >= 1
    ensures valbe(s, radix, s.len()) == valr(rev8(s), radix, s.len())
    decreases s.len()
{
    if s.len() > 0 {
        let n = (s.len() - 1) as nat;
        let p = s.subrange(0, n as int);
        lemma_valbe_is_valr(p, radix);
        lemma_valbe_ext(p, s, radix, n);
        let t = rev8(s);
        lemma_valr_shift(t, radix, n);
        assert(t.subrange(1, t.len() as int) =~= rev8(p));
        assert(t[0] == s[n as int]);
        assert(radix * valbe(p, radix, n) == valbe(p, radix, n) * radix) by (nonlinear_arith);
    }
}
