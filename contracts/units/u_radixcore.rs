//@ unit u_radixcore : non-power-of-two radix export: the radix-base tables and to_radix_digits_le (src/biguint/convert.rs)
#![feature(allocator_api)]
use vstd::prelude::*;
use vstd::std_specs::iter::IteratorSpec;
use vstd::std_specs::ops::*;
use vstd::arithmetic::power::pow;
use core::ops::Mul;
use core::cmp::Ordering;
verus! {
//@ include prelude/core.rs
//@ include prelude/std_specs.rs
//@ include prelude/panic.rs
//@ include prelude/radixval.rs
pub mod u {
use super::*;

pub mod big_digit {
    use vstd::prelude::*;
    pub type BigDigit = u64;
    pub type DoubleBigDigit = u128;
//@ extract src/lib.rs :: mod big_digit :: const BITS
    pub(crate) const BITS: u8 = BigDigit::BITS as u8;
//@ end
//@ extract src/lib.rs :: mod big_digit :: const MAX
    pub(crate) const MAX: BigDigit = BigDigit::MAX;
//@ end
}

//@ extract src/biguint.rs :: struct BigUint
pub struct BigUint {
    data: Vec<BigDigit>,
}
//@ end
//@ include prelude/biguint_view.rs
pub open spec fn p2(k: nat) -> nat { vstd::arithmetic::power2::pow2(k) }
pub open spec fn ord_of(a: nat, b: nat) -> Ordering {
    if a < b { Ordering::Less } else if a == b { Ordering::Equal } else { Ordering::Greater }
}
pub open spec fn udiv_ok(a: nat, b: nat, q: nat, m: nat) -> bool { a == q * b + m && m < b }
impl BigUint {
//@ stub u_core/clone
//@ stub u_cmp/cmp
//@ stub u_divapi/div_rem
}
//@ stub k_div/div_rem_digit
//@ stub k_mul/mac_with_carry
//@ stub k_mac3/add2
//@ stub u_core/biguint_from_vec
impl vstd::std_specs::convert::FromSpecImpl<u64> for BigUint {
    open spec fn obeys_from_spec() -> bool { false }
    open spec fn from_spec(v: u64) -> BigUint { arbitrary() }
}
impl From<u64> for BigUint {
//@ stub u_conv/from_u64
}
impl MulSpecImpl<&BigUint> for &BigUint {
    open spec fn obeys_mul_spec() -> bool { false }
    open spec fn mul_req(self, rhs: &BigUint) -> bool { self.wf() && rhs.wf() }
    open spec fn mul_spec(self, rhs: &BigUint) -> BigUint { arbitrary() }
}
impl Mul<&BigUint> for &BigUint {
    type Output = BigUint;
//@ stub u_mul/mul_rr
}

/// radix^k as a natural number
pub open spec fn rpw(r: nat, k: nat) -> nat { pow(r as int, k) as nat }

pub proof fn lemma_rpw(r: nat, k: nat)
    requires r >= 1
    ensures rpw(r, 0) == 1, rpw(r, k + 1) == rpw(r, k) * r, rpw(r, k) >= 1, pow(r as int, k) >= 1, rpw(r, 1) == r
{
    vstd::arithmetic::power::lemma_pow0(r as int);
    vstd::arithmetic::power::lemma_pow1(r as int);
    vstd::arithmetic::power::lemma_pow_positive(r as int, k);
    vstd::arithmetic::power::lemma_pow_positive(r as int, k + 1);
    vstd::arithmetic::power::lemma_pow_adds(r as int, k, 1);
}

pub proof fn lemma_rpw_add(r: nat, a: nat, b: nat)
    requires r >= 1
    ensures rpw(r, a + b) == rpw(r, a) * rpw(r, b)
{
    vstd::arithmetic::power::lemma_pow_adds(r as int, a, b);
    vstd::arithmetic::power::lemma_pow_positive(r as int, a);
    vstd::arithmetic::power::lemma_pow_positive(r as int, b);
    vstd::arithmetic::power::lemma_pow_positive(r as int, a + b);
}

pub proof fn lemma_rpw_mul(r: nat, a: nat, b: nat)
    requires r >= 1
    ensures rpw(rpw(r, a), b) == rpw(r, a * b), rpw(r, a) >= 1
{
    vstd::arithmetic::power::lemma_pow_multiplies(r as int, a, b);
    vstd::arithmetic::power::lemma_pow_positive(r as int, a);
}

pub proof fn lemma_rpw_mono(r: nat, a: nat, b: nat)
    requires r >= 2, a < b
    ensures rpw(r, a) < rpw(r, b)
{
    vstd::arithmetic::power::lemma_pow_strictly_increases(r, a, b);
    vstd::arithmetic::power::lemma_pow_positive(r as int, a);
}

/// one entry of the radix-base table: the largest power of the radix that does not exceed max
pub open spec fn base_ok(radix: nat, max: nat, e: (u64, usize)) -> bool {
    e.1 >= 1 && e.0 as nat == rpw(radix, e.1 as nat) && e.0 as nat <= max && (e.0 as nat) * radix > max
}

pub mod convert {
use super::*;
pub open spec fn digits_below(s: Seq<u8>, radix: u32) -> bool { forall|i: int| 0 <= i < s.len() ==> (#[trigger] s[i] as u32) < radix }


//@ extract src/biguint/division.rs :: const FAST_DIV_WIDE rules=R0c,R9
const FAST_DIV_WIDE: bool = true;
//@ end

//@ assume __cap_hint : rule R12m2: stands for the floating-point size estimate that only sets the initial capacity of the result vector
#[verifier::external_body]
fn __cap_hint() -> (r: usize)
{ unimplemented!() }

//@ assume __usize_sqrt : num_integer::Roots::sqrt on usize (external crate, rule R3us): the floor square root; only used to choose how often the chunk base is squared
#[verifier::external_body]
fn __usize_sqrt(n: usize) -> (r: usize)
    ensures r * r <= n
{ unimplemented!() }

pub proof fn lemma_valr_ext(s: Seq<u8>, t: Seq<u8>, radix: nat, k: nat)
    requires forall|i: int| 0 <= i < k ==> s[i] == t[i]
    ensures valr(s, radix, k) == valr(t, radix, k)
    decreases k
{
    if k > 0 { lemma_valr_ext(s, t, radix, (k - 1) as nat); }
}

/// pushing one digit
pub proof fn lemma_emit(s: Seq<u8>, d: u8, radix: nat)
    ensures valr(s.push(d), radix, s.len() + 1) == valr(s, radix, s.len()) + (d as nat) * rpw(radix, s.len())
{
    lemma_valr_ext(s, s.push(d), radix, s.len());
}

/// one step of writing out the digits of r
pub proof fn lemma_chunk_step(v: nat, len: nat, r: nat, radix: nat, m: nat)
    requires radix >= 2, m >= 1, r < rpw(radix, m)
    ensures v + rpw(radix, len) * r == (v + (r % radix) * rpw(radix, len)) + rpw(radix, len + 1) * (r / radix),
        r / radix < rpw(radix, (m - 1) as nat), r % radix < radix
{
    lemma_rpw(radix, len);
    lemma_rpw(radix, (m - 1) as nat);
    vstd::arithmetic::div_mod::lemma_fundamental_div_mod(r as int, radix as int);
    vstd::arithmetic::div_mod::lemma_mod_bound(r as int, radix as int);
    let q = r / radix; let d = r % radix; let p = rpw(radix, len);
    assert(p * r == d * p + (p * radix) * q) by (nonlinear_arith) requires r == radix * q + d;
    let b = rpw(radix, (m - 1) as nat);
    assert(q < b) by (nonlinear_arith) requires radix * q + d < b * radix, d >= 0, radix >= 1;
}

/// a quotient by `base` of a number below base^(m) is below base^(m-1)
pub proof fn lemma_quot_bound(v: nat, base: nat, q: nat, r: nat, m: nat)
    requires base >= 2, m >= 1, v == q * base + r, v < rpw(base, m)
    ensures q < rpw(base, (m - 1) as nat)
{
    lemma_rpw(base, (m - 1) as nat);
    let b = rpw(base, (m - 1) as nat);
    assert(q < b) by (nonlinear_arith) requires q * base + r < b * base, base >= 1;
}

/// after a whole chunk: value bookkeeping
pub proof fn lemma_chunk_done(v0: nat, k0: nat, r0: nat, v1: nat, radix: nat, power: nat, q: nat, hi: nat)
    requires radix >= 2, v1 == v0 + rpw(radix, k0) * r0, hi == q * rpw(radix, power) + r0
    ensures v1 + rpw(radix, k0 + power) * q == v0 + rpw(radix, k0) * hi
{
    lemma_rpw_add(radix, k0, power);
    let p = rpw(radix, k0); let b = rpw(radix, power);
    assert(p * r0 + (p * b) * q == p * (q * b + r0)) by (nonlinear_arith);
}

/// squaring a canonical number of at least 2^32 makes it longer
pub proof fn lemma_square_longer(v: Seq<u64>, w: Seq<u64>)
    requires wf(v), wf(w), val(v) >= 0x1_0000_0000, val(w) == val(v) * val(v)
    ensures w.len() > v.len()
{
    let l = v.len();
    lemma_wf_zero(v);
    lemma_wf_lower(v);
    lemma_valp_bound(w, w.len());
    if w.len() <= l {
        lemma_pw_mono(w.len(), l);
        if l >= 2 {
            lemma_pw_mono(1, (l - 1) as nat);
            assert(pw(1) == B() * pw(0));
            assert(val(v) * val(v) >= pw((l - 1) as nat) * B()) by (nonlinear_arith) requires val(v) >= pw((l - 1) as nat), val(v) >= B();
            assert(pw(l) == B() * pw((l - 1) as nat));
        } else {
            assert(pw(1) == B() * pw(0));
            assert(val(v) * val(v) >= 0x1_0000_0000_0000_0000) by (nonlinear_arith) requires val(v) >= 0x1_0000_0000;
        }
    }
}

pub proof fn lemma_pw_p2_nat(k: nat)
    ensures pw(k) == p2(64 * k)
    decreases k
{
    vstd::arithmetic::power2::lemma2_to64();
    vstd::arithmetic::power2::lemma2_to64_rest();
    if k > 0 {
        lemma_pw_p2_nat((k - 1) as nat);
        vstd::arithmetic::power2::lemma_pow2_adds(64 * ((k - 1) as nat), 64);
    }
}

/// 2^k <= r^k for r >= 2
pub proof fn lemma_rpw_ge_p2(r: nat, k: nat)
    requires r >= 2
    ensures p2(k) <= rpw(r, k)
    decreases k
{
    vstd::arithmetic::power2::lemma2_to64();
    lemma_rpw(r, 0);
    if k > 0 {
        lemma_rpw_ge_p2(r, (k - 1) as nat);
        lemma_rpw(r, (k - 1) as nat);
        vstd::arithmetic::power2::lemma_pow2_unfold(k);
        assert(rpw(r, (k - 1) as nat) * r >= 2 * p2((k - 1) as nat)) by (nonlinear_arith) requires rpw(r, (k - 1) as nat) >= p2((k - 1) as nat), r >= 2;
    }
}


pub proof fn lemma_valbe_bound(s: Seq<u8>, radix: nat, k: nat)
    requires radix >= 2, k <= s.len(), forall|i: int| 0 <= i < k ==> (#[trigger] s[i] as nat) < radix
    ensures valbe(s, radix, k) < rpw(radix, k)
    decreases k
{
    lemma_rpw(radix, 0);
    if k > 0 {
        lemma_valbe_bound(s, radix, (k - 1) as nat);
        lemma_rpw(radix, (k - 1) as nat);
        let a = valbe(s, radix, (k - 1) as nat); let p = rpw(radix, (k - 1) as nat); let d = s[k - 1] as nat;
        assert(a * radix + d < p * radix) by (nonlinear_arith) requires a < p, d < radix;
    }
}

/// Horner value of a concatenation: first a digits, then m more
pub proof fn lemma_valbe_concat(s: Seq<u8>, radix: nat, a: nat, m: nat)
    requires radix >= 1, a + m <= s.len()
    ensures valbe(s, radix, a + m) == valbe(s, radix, a) * rpw(radix, m) + valbe(s.subrange(a as int, (a + m) as int), radix, m)
    decreases m
{
    lemma_rpw(radix, 0);
    let t = s.subrange(a as int, (a + m) as int);
    if m == 0 {
        assert(valbe(s, radix, a) * 1 == valbe(s, radix, a)) by (nonlinear_arith);
    } else {
        let m1 = (m - 1) as nat;
        lemma_valbe_concat(s, radix, a, m1);
        lemma_valbe_ext(s.subrange(a as int, (a + m1) as int), t, radix, m1);
        lemma_rpw(radix, m1);
        let x = valbe(s, radix, a); let p = rpw(radix, m1); let y = valbe(t, radix, m1); let d = s[(a + m1) as int] as nat;
        assert(t[m1 as int] == s[(a + m1) as int]);
        assert((x * p + y) * radix + d == x * (p * radix) + (y * radix + d)) by (nonlinear_arith);
    }
}

/// one digit of the scalar multiplication chain (carry form)
pub proof fn lemma_mul_step(f: Seq<u64>, o: Seq<u64>, c: nat, k: nat, c0: nat, c1: nat)
    requires k < f.len(), k < o.len(),
        valp(f, k) + pw(k) * c0 == valp(o, k) * c,
        (f[k as int] as nat) + B() * c1 == (o[k as int] as nat) * c + c0,
    ensures valp(f, k + 1) + pw(k + 1) * c1 == valp(o, k + 1) * c
{
    assert(pw(k + 1) == B() * pw(k));
    let p = pw(k);
    let fk = f[k as int] as nat; let ok = o[k as int] as nat;
    assert(fk * p + (B() * p) * c1 == (ok * p) * c + p * c0) by (nonlinear_arith)
        requires fk + B() * c1 == ok * c + c0;
    assert((valp(o, k) + ok * p) * c == valp(o, k) * c + (ok * p) * c) by (nonlinear_arith);
}

/// data * base + n fits when the top digit of data is zero
pub proof fn lemma_scale_fits(d: Seq<u64>, base: nat, n: nat)
    requires d.len() >= 1, d[d.len() - 1] == 0, base < B(), n < base
    ensures val(d) * base + n < pw(d.len()), val(d) * base < pw(d.len())
{
    let l = (d.len() - 1) as nat;
    lemma_val_drop_last_zero(d);
    lemma_valp_bound(d.drop_last(), l);
    assert(pw(l + 1) == B() * pw(l));
    assert(val(d) * base + n < pw(l) * B()) by (nonlinear_arith) requires val(d) < pw(l), n < base, base < B();
}

//@ extract src/biguint/convert.rs :: fn generate_radix_bases props=C06
const fn generate_radix_bases(max: BigDigit) -> /*+*/(r: /*-*/[(BigDigit, usize); 257]/*+*/)/*-*/
//+{
    requires max >= 255
    ensures forall|k: int| 3 <= k < 256 && !is_pow2_u64(k as u64) ==> base_ok(k as nat, max as nat, #[trigger] r@[k])
//+}
{
    let mut bases = [(0, 0); 257];

    let mut radix: BigDigit = 3;
    while radix < 256
//+{
        invariant 3 <= radix <= 256, max >= 255, bases@.len() == 257,
            forall|k: int| 3 <= k < radix && !is_pow2_u64(k as u64) ==> base_ok(k as nat, max as nat, #[trigger] bases@[k]),
        decreases 256 - radix
//+}
    {
        if !radix.is_power_of_two() {
            let mut power = 1;
            let mut base = radix;
//+{
            proof { lemma_rpw(radix as nat, 0); vstd::arithmetic::power2::lemma2_to64(); }
//+}

            while let Some(b) = base.checked_mul(radix)
//+{
                invariant 3 <= radix < 256, power >= 1, power <= 64, base as nat == rpw(radix as nat, power as nat), base <= max,
                    p2(power as nat) <= base,
                ensures base as nat == rpw(radix as nat, power as nat), base <= max, (base as nat) * (radix as nat) > max, power >= 1,
                decreases 0xffff_ffff_ffff_ffff - base
//+}
            {
                if b > max {
                    break;
                }
//+{
                proof {
                    lemma_rpw(radix as nat, power as nat);
                    vstd::arithmetic::power2::lemma_pow2_unfold((power + 1) as nat);
                    assert(2 * p2(power as nat) <= (base as nat) * (radix as nat)) by (nonlinear_arith) requires p2(power as nat) <= base as nat, radix >= 2;
                    if power >= 64 { vstd::arithmetic::power2::lemma2_to64_rest(); vstd::arithmetic::power2::lemma_pow2_strictly_increases(64, (power + 1) as nat); }
                    assert((base as nat) * (radix as nat) > base as nat) by (nonlinear_arith) requires base >= 1, radix >= 2;
                }
//+}
                base = b;
                power += 1;
            }
            bases[radix as usize] = (base, power)
        }
        radix += 1;
    }

    bases
}
//@ end

//@ extract src/biguint/convert.rs :: fn get_radix_base rules=R0,R14,R42 props=C06
fn get_radix_base(radix: u32) -> /*+*/(r: /*-*/(BigDigit, usize)/*+*/)/*-*/
//+{
    requires 3 <= radix < 256, !is_pow2_u64(radix as u64)
    ensures base_ok(radix as nat, 0xffff_ffff_ffff_ffff, r)
//+}
{
    let BASES: [(BigDigit, usize); 257] = generate_radix_bases(big_digit::MAX);
    BASES[radix as usize]
}
//@ end

//@ assume get_half_radix_base : dead on this target (called only when FAST_DIV_WIDE is false); same table function with max = 2^32 - 1
#[verifier::external_body]
fn get_half_radix_base(radix: u32) -> (r: (BigDigit, usize))
    requires 3 <= radix < 256, !is_pow2_u64(radix as u64)
    ensures base_ok(radix as nat, 0xffff_ffff, r)
{ unimplemented!() }


//@ extract src/biguint/convert.rs :: fn to_radix_digits_le rules=R0,R0c,R14,R12m2,R3us,R3bb2,R16w2,R10n,R10n props=C06,C14
pub(super) fn to_radix_digits_le(u: &BigUint, radix: u32) -> /*+*/(r: /*-*/Vec<u8>/*+*/)/*-*/
//+{
    requires u.wf(), u.v() != 0, 3 <= radix <= 255, !is_pow2_u32(radix)
    ensures r@.len() >= 1, digits_below(r@, radix), valr(r@, radix as nat, r@.len()) == u.v(), r@[r@.len() - 1] != 0
//+}
{
//+{
    let ghost uv = u.v();
    let ghost r32 = radix;
    let ghost rr = radix as nat;
    proof {
        let x = radix;
        assert(is_pow2_u32(x) == is_pow2_u64(x as u64)) by (bit_vector) requires 3 <= x <= 255;
        lemma_rpw(rr, 0);
    }
//+}

    // Estimate how big the result will be, so we can pre-allocate it.
    let mut res = Vec::with_capacity(__cap_hint());

    let mut digits = u.clone();

    // X86 DIV can quickly divide by a full digit, otherwise we choose a divisor
    // that's suitable for `div_half` to avoid slow `DoubleBigDigit` division.
    let (base, power) = if FAST_DIV_WIDE {
        get_radix_base(radix)
    } else {
        get_half_radix_base(radix)
    };
    let radix = radix as BigDigit;
//+{
    let ghost bn = base as nat;
    proof {
        assert(res@ =~= Seq::<u8>::empty());
        assert(rpw(rr, 0) * uv == uv) by (nonlinear_arith) requires rpw(rr, 0) == 1;
        assert(bn >= 0x1_0000_0000) by (nonlinear_arith) requires bn * rr > 0xffff_ffff_ffff_ffff, rr <= 255;
    }
//+}

    // For very large numbers, the O(n²) loop of repeated `div_rem_digit` dominates the
    // performance. We can mitigate this by dividing into chunks of a larger base first.
    // The threshold for this was chosen by anecdotal performance measurements to
    // approximate where this starts to make a noticeable difference.
    if digits.data.len() >= 64 {
        let mut big_base = BigUint::from(base);
        let mut big_power = 1usize;
//+{
        proof { lemma_rpw(bn, 0); axiom_vec_u64_len(&big_base.data); }
//+}

        // Choose a target base length near √n.
        let target_len = __usize_sqrt(digits.data.len());
        while big_base.data.len() < target_len
//+{
            invariant big_base.wf(), big_base.v() == rpw(bn, big_power as nat), big_power >= 1, bn >= 0x1_0000_0000,
                big_base.v() >= 0x1_0000_0000,
            decreases (if target_len > big_base.data@.len() { target_len - big_base.data@.len() } else { 0 })
//+}
        {
//+{
            let ghost old_bb = big_base.data@;
            let ghost bp = big_power as nat;
            proof {
                axiom_vec_u64_len(&big_base.data);
                lemma_rpw_ge_p2(bn, bp);
                lemma_valp_bound(old_bb, old_bb.len());
                lemma_pw_p2_nat(old_bb.len());
                if bp >= 64 * old_bb.len() { if bp > 64 * old_bb.len() { vstd::arithmetic::power2::lemma_pow2_strictly_increases(64 * old_bb.len(), bp); } }
                lemma_rpw_add(bn, bp, bp);
                assert(val(old_bb) * val(old_bb) >= 0x1_0000_0000) by (nonlinear_arith) requires val(old_bb) >= 0x1_0000_0000;
            }
//+}
            big_base = Mul::mul(&big_base, &big_base);
            big_power *= 2;
//+{
            proof {
                assert(big_base.v() == val(old_bb) * val(old_bb));
                lemma_square_longer(old_bb, big_base.data@);
                assert(big_base.data@.len() > old_bb.len());
            }
//+}
        }

        // This outer loop will run approximately √n times.
        while (digits.cmp(&big_base) == core::cmp::Ordering::Greater)
//+{
            invariant big_base.wf(), big_base.v() == rpw(bn, big_power as nat), big_power >= 1, bn >= 0x1_0000_0000, big_base.v() >= 0x1_0000_0000,
                radix == rr, rr >= 3, rr <= 255, r32 as nat == rr, bn == rpw(rr, power as nat), power >= 1, base as nat == bn,
                digits.wf(), digits.v() >= 1, digits_below(res@, r32),
                valr(res@, rr, res@.len()) + rpw(rr, res@.len()) * digits.v() == uv,
            decreases digits.v()
//+}
        {
            // This is still the dominating factor, with n digits divided by √n digits.
            let (q, mut big_r) = digits.div_rem(&big_base);
//+{
            let ghost k0 = res@.len();
            let ghost v0 = valr(res@, rr, k0);
            let ghost br0 = big_r.v();
            let ghost dold = digits.v();
            let ghost bbv = big_base.v();
            proof {
                assert(q.v() >= 1 && q.v() < dold) by (nonlinear_arith) requires dold == q.v() * bbv + br0, br0 < bbv, dold > bbv, bbv >= 2;
                lemma_rpw(rr, k0);
                assert(power * 0 == 0);
            }
//+}
            digits = q;

            // This inner loop now has O(√n²)=O(n) behavior altogether.
            { let mut i__ = 0; let e__ = big_power; while i__ < e__
//+{
                invariant
                    e__ == big_power, i__ <= big_power, radix == rr, rr >= 3, rr <= 255, r32 as nat == rr, bn == rpw(rr, power as nat), power >= 1, base as nat == bn, bn >= 0x1_0000_0000,
                    res@.len() == k0 + power * i__, digits_below(res@, r32),
                    valr(res@, rr, res@.len()) + rpw(rr, res@.len()) * big_r.v() == v0 + rpw(rr, k0) * br0,
                    big_r.v() < rpw(bn, (big_power - i__) as nat),
                decreases big_power - i__
//+}
            { i__ += 1;
//+{
                let ghost brv = big_r.v();
                let ghost kc = res@.len();
                let ghost vc = valr(res@, rr, kc);
//+}
                let (q, mut r) = div_rem_digit(big_r, base);
                big_r = q;
//+{
                let ghost cc = vc + rpw(rr, kc) * (r as nat);
                let ghost r0 = r as nat;
                proof { lemma_quot_bound(brv, bn, q.v(), r as nat, (big_power - (i__ - 1)) as nat); }
//+}
                { let mut i__ = 0; let e__ = power; while i__ < e__
//+{
                    invariant
                        e__ == power, i__ <= power, radix == rr, rr >= 3, rr <= 255, r32 as nat == rr,
                        res@.len() == kc + i__, digits_below(res@, r32),
                        valr(res@, rr, res@.len()) + rpw(rr, res@.len()) * (r as nat) == cc,
                        (r as nat) < rpw(rr, (power - i__) as nat),
                    decreases power - i__
//+}
                { i__ += 1;
//+{
                    let ghost old_res = res@;
                    proof {
                        lemma_chunk_step(valr(old_res, rr, old_res.len()), old_res.len(), r as nat, rr, (power - (i__ - 1)) as nat);
                        lemma_emit(old_res, (r % radix) as u8, rr);
                    }
//+}
                    res.push((r % radix) as u8);
                    r /= radix;
                } }
//+{
                proof {
                    lemma_rpw(rr, 0);
                    assert(r == 0);
                    assert(rpw(rr, res@.len()) * 0 == 0) by (nonlinear_arith);
                    lemma_chunk_done(vc, kc, r0, valr(res@, rr, res@.len()), rr, power as nat, big_r.v(), brv);
                    assert(power * (i__ as nat) == power * ((i__ - 1) as nat) + power) by (nonlinear_arith) requires i__ >= 1;
                }
//+}
            } }
//+{
            proof {
                lemma_rpw(bn, 0);
                assert(big_r.v() == 0);
                assert(rpw(rr, res@.len()) * 0 == 0) by (nonlinear_arith);
                lemma_rpw_mul(rr, power as nat, big_power as nat);
                lemma_chunk_done(v0, k0, br0, valr(res@, rr, res@.len()), rr, (power * big_power) as nat, digits.v(), dold);
            }
//+}
        }
    }

    while digits.data.len() > 1
//+{
        invariant
            radix == rr, rr >= 3, rr <= 255, r32 as nat == rr, bn == rpw(rr, power as nat), power >= 1, base as nat == bn, bn >= 0x1_0000_0000,
            digits.wf(), digits.v() >= 1, digits_below(res@, r32),
            valr(res@, rr, res@.len()) + rpw(rr, res@.len()) * digits.v() == uv,
        decreases digits.v()
//+}
    {
//+{
        let ghost dold = digits.v();
        let ghost kc = res@.len();
        let ghost vc = valr(res@, rr, kc);
        proof { lemma_wf_lower(digits.data@); lemma_pw_mono(1, (digits.data@.len() - 1) as nat); assert(pw(1) == B() * pw(0)); }
//+}
        let (q, mut r) = div_rem_digit(digits, base);
//+{
        let ghost cc = vc + rpw(rr, kc) * (r as nat);
        let ghost r0 = r as nat;
        proof {
            assert(q.v() >= 1 && q.v() < dold) by (nonlinear_arith) requires dold == q.v() * bn + r0, r0 < bn, dold >= 0x1_0000_0000_0000_0000, bn < 0x1_0000_0000_0000_0000, bn >= 2;
        }
//+}
        { let mut i__ = 0; let e__ = power; while i__ < e__
//+{
            invariant
                e__ == power, i__ <= power, radix == rr, rr >= 3, rr <= 255, r32 as nat == rr,
                res@.len() == kc + i__, digits_below(res@, r32),
                valr(res@, rr, res@.len()) + rpw(rr, res@.len()) * (r as nat) == cc,
                (r as nat) < rpw(rr, (power - i__) as nat),
            decreases power - i__
//+}
        { i__ += 1;
//+{
            let ghost old_res = res@;
            proof {
                lemma_chunk_step(valr(old_res, rr, old_res.len()), old_res.len(), r as nat, rr, (power - (i__ - 1)) as nat);
                lemma_emit(old_res, (r % radix) as u8, rr);
            }
//+}
            res.push((r % radix) as u8);
            r /= radix;
        } }
//+{
        proof {
            lemma_rpw(rr, 0);
            assert(r == 0);
            assert(rpw(rr, res@.len()) * 0 == 0) by (nonlinear_arith);
            lemma_chunk_done(vc, kc, r0, valr(res@, rr, res@.len()), rr, power as nat, q.v(), dold);
        }
//+}
        digits = q;
    }

//+{
    proof {
        lemma_wf_zero(digits.data@);
        assert(digits.data@ =~= seq![digits.data@[0]]);
        lemma_val_single(digits.data@[0]);
    }
//+}
    let mut r = digits.data[0];
    while r != 0
//+{
        invariant radix == rr, rr >= 3, rr <= 255, r32 as nat == rr, digits_below(res@, r32),
            valr(res@, rr, res@.len()) + rpw(rr, res@.len()) * (r as nat) == uv,
            r == 0 ==> res@.len() >= 1 && res@[res@.len() - 1] != 0,
        decreases r
//+}
    {
//+{
        let ghost old_res = res@;
        proof {
            lemma_rpw_ge_p2(rr, 64);
            vstd::arithmetic::power2::lemma2_to64_rest();
            lemma_chunk_step(valr(old_res, rr, old_res.len()), old_res.len(), r as nat, rr, 64);
            lemma_emit(old_res, (r % radix) as u8, rr);
            vstd::arithmetic::div_mod::lemma_fundamental_div_mod(r as int, radix as int);
            vstd::arithmetic::div_mod::lemma_div_decreases(r as int, radix as int);
            assert((r / radix == 0) ==> ((r % radix) as u8 != 0)) by {
                if r / radix == 0 {
                    assert(radix * (r / radix) == 0) by (nonlinear_arith) requires r / radix == 0;
                    assert(r % radix == r);
                }
            }
        }
        let ghost dpush = (r % radix) as u8;
//+}
        res.push((r % radix) as u8);
        r /= radix;
//+{
        assert(res@[res@.len() - 1] == dpush);
//+}
    }
//+{
    proof { assert(rpw(rr, res@.len()) * 0 == 0) by (nonlinear_arith); }
//+}

    res
}
//@ end

//@ extract src/biguint/convert.rs :: fn from_radix_digits_be rules=R0,R14,R12m3,R12o,R43,R44,R10w props=C06,C14
fn from_radix_digits_be(v: &[u8], radix: u32) -> /*+*/(res: /*-*/BigUint/*+*/)/*-*/
//+{
    requires v@.len() >= 1, 3 <= radix <= 255, !is_pow2_u32(radix), digits_below(v@, radix)
    ensures res.wf(), res.v() == valbe(v@, radix as nat, v@.len())
//+}
{
//+{
    let ghost r32 = radix;
    let ghost rr = radix as nat;
    let ghost vs = v@;
    proof {
        let x = radix;
        assert(is_pow2_u32(x) == is_pow2_u64(x as u64)) by (bit_vector) requires 3 <= x <= 255;
        lemma_rpw(rr, 0);
    }
//+}

    // Estimate how big the result will be, so we can pre-allocate it.
    let mut data = Vec::with_capacity(__cap_hint());

    let (base, power) = get_radix_base(radix);
    let radix = radix as BigDigit;
//+{
    let ghost bn = base as nat;
//+}

    let r = v.len() % power;
    let i = if r == 0 { power } else { r };
//+{
    proof {
        vstd::arithmetic::div_mod::lemma_fundamental_div_mod(vs.len() as int, power as int);
        vstd::arithmetic::div_mod::lemma_mod_bound(vs.len() as int, power as int);
        let q = (vs.len() as int) / (power as int);
        if r == 0 { assert(q >= 1) by (nonlinear_arith) requires vs.len() as int == (power as int) * q, vs.len() >= 1, power >= 1; assert((power as int) * q >= power as int) by (nonlinear_arith) requires q >= 1, power >= 1; }
    }
//+}
    let (head, tail) = v.split_at(i);
//+{
    proof {
        assert(head@ =~= vs.subrange(0, i as int));
        assert(tail@ =~= vs.subrange(i as int, vs.len() as int));
        lemma_valbe_ext(head@, vs, rr, i as nat);
    }
//+}

    let first = { let mut acc = 0; let mut i__ = 0; while i__ < head.len()
//+{
        invariant i__ <= head@.len(), head@.len() <= power, radix == rr, rr >= 3, acc as nat == valbe(head@, rr, i__ as nat), (acc as nat) < rpw(rr, i__ as nat),
            bn == rpw(rr, power as nat), bn <= 0xffff_ffff_ffff_ffff, forall|j: int| 0 <= j < head@.len() ==> (#[trigger] head@[j] as nat) < rr,
        decreases head@.len() - i__
//+}
    { let d = head[i__]; i__ += 1;
//+{
        proof {
            lemma_rpw(rr, (i__ - 1) as nat);
            if i__ < power { lemma_rpw_mono(rr, i__ as nat, power as nat); }
            let a = acc as nat; let p = rpw(rr, (i__ - 1) as nat);
            assert(a * rr + (d as nat) < p * rr) by (nonlinear_arith) requires a < p, (d as nat) < rr;
        }
//+}
        acc = acc * radix + BigDigit::from(d); } acc };
    data.push(first);
//+{
    proof {
        assert(data@ =~= seq![first]);
        lemma_val_single(first);
        vstd::arithmetic::div_mod::lemma_fundamental_div_mod(vs.len() as int, power as int);
        assert((tail@.len() as int) % (power as int) == 0) by {
            let q = (vs.len() as int) / (power as int);
            assert((power as int) * (q - 1) == (power as int) * q - power as int) by (nonlinear_arith);
            if r == 0 {
                vstd::arithmetic::div_mod::lemma_fundamental_div_mod_converse(tail@.len() as int, power as int, q - 1, 0);
            } else {
                vstd::arithmetic::div_mod::lemma_fundamental_div_mod_converse(tail@.len() as int, power as int, q, 0);
            }
        }
    }
//+}

    { __assert(power != 0); let mut i__ = 0; while i__ < tail.len()
//+{
        invariant
            i__ <= tail@.len(), (tail@.len() - i__) % (power as int) == 0, power >= 1, tail@ =~= vs.subrange(i as int, vs.len() as int), i as nat + tail@.len() == vs.len(),
            radix == rr, rr >= 3, rr <= 255, r32 as nat == rr, bn == rpw(rr, power as nat), base as nat == bn, bn <= 0xffff_ffff_ffff_ffff,
            digits_below(vs, r32), vs == v@,
            data@.len() >= 1, val(data@) == valbe(vs, rr, (i + i__) as nat),
        decreases tail@.len() - i__
//+}
    {
//+{
        proof {
            // a whole chunk is left
            let rem = (tail@.len() - i__) as int;
            vstd::arithmetic::div_mod::lemma_fundamental_div_mod(rem, power as int);
            let q = rem / (power as int);
            assert(q >= 1) by (nonlinear_arith) requires rem == (power as int) * q, rem >= 1, power >= 1;
            assert((power as int) * q >= power as int) by (nonlinear_arith) requires q >= 1, power >= 1;
            assert((power as int) * (q - 1) == (power as int) * q - power as int) by (nonlinear_arith);
            vstd::arithmetic::div_mod::lemma_fundamental_div_mod_converse(rem - power as int, power as int, q - 1, 0);
        }
        let ghost i0 = i__;
//+}
        let e__ = if tail.len() - i__ < power { tail.len() } else { i__ + power };
        let chunk = &tail[i__..e__];
        i__ = e__;
//+{
        let ghost a0 = (i + i0) as nat;
        proof {
            assert(chunk@ =~= vs.subrange(a0 as int, (a0 + power) as int));
            lemma_valbe_concat(vs, rr, a0, power as nat);
        }
        let ghost d_in = data@;
//+}
        if !__last_is_zero64(&data) {
            data.push(0);
//+{
            proof { lemma_val_concat(d_in, seq![0u64]); lemma_val_single(0u64); assert(data@ =~= d_in + seq![0u64]); assert(pw(d_in.len()) * 0 == 0) by (nonlinear_arith); }
//+}
        }
//+{
        let ghost d0 = data@;
        let ghost n0 = d0.len();
        proof { lemma_rpw(rr, power as nat); lemma_scale_fits(d0, bn, 0); lemma_rpw(rr, 0); }
//+}

        let mut carry = 0;
//+{
        proof { assert(pw(0) * 0 == 0 && 0 * bn == 0) by (nonlinear_arith); }
//+}
        { let mut i__ = 0; while i__ < data.len()
//+{
            invariant i__ <= n0, data@.len() == n0, d0.len() == n0, carry <= 0xffff_ffff_ffff_ffffu128, base as nat == bn,
                valp(data@, i__ as nat) + pw(i__ as nat) * (carry as nat) == valp(d0, i__ as nat) * bn,
                forall|j: int| i__ <= j < n0 ==> data@[j] == d0[j],
            decreases n0 - i__
//+}
        {
//+{
            let ghost pre = data@;
            let ghost c0 = carry as nat;
//+}
            { let d = &mut data.as_mut_slice()[i__]; i__ += 1;
            *d = mac_with_carry(0, *d, base, &mut carry); }
//+{
            proof {
                let k = (i__ - 1) as nat;
                lemma_valp_ext(pre, data@, k);
                lemma_mul_step(data@, d0, bn, k, c0, carry as nat);
            }
//+}
        } }
//+{
        proof {
            lemma_pw_pos(n0);
            assert(carry == 0) by (nonlinear_arith) requires val(data@) + pw(n0) * (carry as nat) == val(d0) * bn, val(d0) * bn < pw(n0), pw(n0) >= 1;
            assert(pw(n0) * 0 == 0) by (nonlinear_arith);
        }
//+}

        let n = { let mut acc = 0; let mut i__ = 0; while i__ < chunk.len()
//+{
            invariant i__ <= chunk@.len(), chunk@.len() == power, radix == rr, rr >= 3, acc as nat == valbe(chunk@, rr, i__ as nat), (acc as nat) < rpw(rr, i__ as nat),
                bn == rpw(rr, power as nat), bn <= 0xffff_ffff_ffff_ffff, forall|j: int| 0 <= j < chunk@.len() ==> (#[trigger] chunk@[j] as nat) < rr,
            decreases chunk@.len() - i__
//+}
        { let d = chunk[i__]; i__ += 1;
//+{
            proof {
                lemma_rpw(rr, (i__ - 1) as nat);
                if i__ < power { lemma_rpw_mono(rr, i__ as nat, power as nat); }
                let a = acc as nat; let p = rpw(rr, (i__ - 1) as nat);
                assert(a * rr + (d as nat) < p * rr) by (nonlinear_arith) requires a < p, (d as nat) < rr;
            }
//+}
            acc = acc * radix + BigDigit::from(d); } acc };
//+{
        proof {
            assert([n]@ =~= seq![n]);
            lemma_val_single(n);
            lemma_scale_fits(d0, bn, n as nat);
            assert(valbe(vs, rr, a0) * bn == val(d0) * bn);
        }
//+}
        add2(&mut data, &[n]);
    } }

    biguint_from_vec(data)
}
//@ end

} // mod convert
} // mod u
} // verus!
fn main() {}
