"""placeholder"""
import json, os
ROOT = os.path.dirname(os.path.dirname(os.path.abspath(__file__)))
def find_and_write(pid, viol, repo, tier, seed):
    out = []
    for name, u, d in viol:
        path = os.path.join(ROOT, "replay", "out", "%s-%s.json" % (pid, u))
        with open(path, "w") as f:
            json.dump({"property": pid, "obligation": name, "verifier_output": d.get("rendered") or d, "failing_input": None}, f, indent=1, default=str)
        out.append((path, False))
    return out
def replay_file(path, repo):
    print(open(path).read()); return 0
