//@ unit i_roots : Roots for BigInt: sign transfer and the imaginary-root assertions (src/bigint.rs)
#![feature(allocator_api)]
use vstd::prelude::*;
use vstd::std_specs::iter::IteratorSpec;
use vstd::std_specs::ops::*;
use vstd::arithmetic::power::pow;
use core::ops::Neg;
verus! {
//@ include prelude/core.rs
//@ include prelude/std_specs.rs
//@ include prelude/panic.rs
//@ include prelude/val32.rs
//@ extract src/bigint.rs :: enum Sign attrs=1
#[derive(/*+*/Structural, /*-*/PartialEq, PartialOrd, Eq, Ord, Copy, Clone, Debug, Hash)]
pub enum Sign {
    Minus,
    NoSign,
    Plus,
}
//@ end
pub mod u {
use super::*;
use Sign::*;

//@ extract src/biguint.rs :: struct BigUint
pub struct BigUint {
    data: Vec<BigDigit>,
}
//@ end
//@ include prelude/biguint_view.rs

/// r is the floor n-th root of x:  r^n <= x < (r+1)^n
pub open spec fn is_root(x: nat, n: nat, r: nat) -> bool { pow(r as int, n) <= x < pow(r as int + 1, n) }

impl BigUint {
//@ extract src/biguint.rs :: impl BigUint :: const ZERO rules=R9,R13 label=BigUint_ZERO
    exec const ZERO: Self /*+*/ensures Self::ZERO.data@.len() == 0 /*-*/{ BigUint { data: Vec::new() } }
//@ end
//@ stub u_core/is_zero
//@ stub u_core/clone
//@ stub u_roots/nth_root
//@ stub u_roots/sqrt
//@ stub u_roots/cbrt
}

//@ extract src/bigint.rs :: struct BigInt
pub struct BigInt {
    sign: Sign,
    data: BigUint,
}
//@ end
//@ include prelude/bigint_view.rs
//@ include prelude/bigint_core_stubs.rs

//@ assume u32::is_even : num_integer::Integer::is_even on u32 (external crate): n % 2 == 0
#[verifier::external_body]
fn __u32_is_even(n: u32) -> (r: bool) ensures r == (n % 2 == 0) { unimplemented!() }

/// the only root of zero is zero
pub proof fn lemma_root_of_zero(n: nat)
    requires n >= 1
    ensures is_root(0, n, 0), forall|t: nat| is_root(0, n, t) ==> t == 0
{
    vstd::arithmetic::power::lemma0_pow(n);
    vstd::arithmetic::power::lemma1_pow(n);
    assert forall|t: nat| is_root(0, n, t) implies t == 0 by {
        if t >= 1 { vstd::arithmetic::power::lemma_pow_positive(t as int, n); }
    }
}

/// result r of a root of the signed x: |r| is the floor root of |x| and r carries the sign of x (truncation toward zero)
pub open spec fn is_signed_root(x: int, n: nat, r: int) -> bool {
    is_root((if x < 0 { -x } else { x }) as nat, n, (if r < 0 { -r } else { r }) as nat) && (r == 0 || (r > 0) == (x > 0))
}

impl BigInt {
    // contract-only re-homing of `impl Roots for BigInt` (num_integer::Roots is an external trait)
//@ extract src/bigint.rs :: impl Roots for BigInt :: fn nth_root rules=R0,R11,R15e props=C11,C14
    fn nth_root(&self, n: u32) -> /*+*/(r: /*-*/Self/*+*/)/*-*/
//+{
        requires self.wfi(), !mp() ==> n >= 1 && !(self.iv() < 0 && n % 2 == 0)
        ensures mp() ==> n >= 1 && !(self.iv() < 0 && n % 2 == 0), r.wfi(), is_signed_root(self.iv(), n as nat, r.iv())
//+}
    {
//+{
        proof { lemma_sgn_mul_all(self.sign); }
//+}
        __assert(
            !(self.is_negative() && __u32_is_even(n))
        );

        /*+*/let res = /*-*/BigInt::from_biguint(self.sign, self.data.nth_root(n))/*+*/;
        proof { if n >= 1 { vstd::arithmetic::power::lemma0_pow(n as nat); vstd::arithmetic::power::lemma1_pow(n as nat); lemma_root_of_zero(n as nat); } }
        res/*-*/
    }
//@ end

//@ extract src/bigint.rs :: impl Roots for BigInt :: fn sqrt rules=R0,R11 props=C11,C14
    fn sqrt(&self) -> /*+*/(r: /*-*/Self/*+*/)/*-*/
//+{
        requires self.wfi(), !mp() ==> self.iv() >= 0
        ensures mp() ==> self.iv() >= 0, r.wfi(), is_signed_root(self.iv(), 2, r.iv())
//+}
    {
//+{
        proof { lemma_sgn_mul_all(self.sign); }
//+}
        __assert(!self.is_negative());

        /*+*/let res = /*-*/BigInt::from_biguint(self.sign, self.data.sqrt())/*+*/;
        proof { lemma_root_of_zero(2); }
        res/*-*/
    }
//@ end

//@ extract src/bigint.rs :: impl Roots for BigInt :: fn cbrt props=C11,C14
    fn cbrt(&self) -> /*+*/(r: /*-*/Self/*+*/)/*-*/
//+{
        requires self.wfi()
        ensures r.wfi(), is_signed_root(self.iv(), 3, r.iv())
//+}
    {
//+{
        proof { lemma_sgn_mul_all(self.sign); }
//+}
        /*+*/let res = /*-*/BigInt::from_biguint(self.sign, self.data.cbrt())/*+*/;
        proof { lemma_root_of_zero(3); }
        res/*-*/
    }
//@ end
}

} // mod u
} // verus!
fn main() {}
