"""Engine F: verification conditions for the macro-generated operator forwarding layer (C10).

Source of truth: rustc's own macro expansion of /repo's working tree
(`cargo +nightly rustc --lib -- -Zunpretty=expanded`), i.e. exactly the impls the compiler sees for this target.

Every impl of an operator trait (Add..Shr, *Assign, Pow, Checked*) whose method body lies inside the
*forwarding grammar* is a forwarder. For each one this engine proves with z3, for all operand values in
the operand types' ranges:

    op(value(arg1'), value(arg2')) == op(value(self), value(other))

with `op` an uninterpreted function per operator family (commutativity is an axiom only for
Add, Mul, BitAnd, BitOr, BitXor), where arg1', arg2' are the argument expressions of the call the body
makes (`x as T` is encoded exactly: truncation / sign extension at the widths involved), and checks that
the callee impl exists, that the forwarding graph is acyclic and that every chain ends in a leaf.
Leaves (bodies outside the grammar) are listed with the unit that holds their contract, or as
unverified leaves. A small family of primitive-only leaves (`iN %= &BigUint`, `iN /= &BigUint` from
impl_rem_assign_scalar!/impl_div_assign_scalar!) is encoded directly.
"""
import json
import os
import re
import subprocess
import time

import z3

import rtok

ROOT = os.path.dirname(os.path.dirname(os.path.abspath(__file__)))

PRIMS = {"u8": (0, 8), "u16": (0, 16), "u32": (0, 32), "u64": (0, 64), "u128": (0, 128), "usize": (0, 64),
         "i8": (1, 8), "i16": (1, 16), "i32": (1, 32), "i64": (1, 64), "i128": (1, 128), "isize": (1, 64)}
FAMILY = {}
for _b in ("Add", "Sub", "Mul", "Div", "Rem", "BitAnd", "BitOr", "BitXor", "Shl", "Shr"):
    FAMILY[_b] = _b
    FAMILY[_b + "Assign"] = _b
FAMILY["Pow"] = "Pow"
CHECKED = {"CheckedAdd": "Add", "CheckedSub": "Sub", "CheckedMul": "Mul", "CheckedDiv": "Div"}
COMMUTATIVE = {"Add", "Mul", "BitAnd", "BitOr", "BitXor"}
METHOD_OF = {"add": "Add", "sub": "Sub", "mul": "Mul", "div": "Div", "rem": "Rem", "bitand": "BitAnd", "bitor": "BitOr",
             "bitxor": "BitXor", "shl": "Shl", "shr": "Shr", "pow": "Pow"}
for _m, _t in list(METHOD_OF.items()):
    if _t != "Pow":
        METHOD_OF[_m + "_assign"] = _t + "Assign"


class Undecided(Exception):
    pass


def expand(repo, outdir):
    tgt = os.path.join(ROOT, "build", "expand-target")
    env = dict(os.environ, CARGO_NET_OFFLINE="true", CARGO_TARGET_DIR=tgt)
    p = subprocess.run(["cargo", "+nightly", "rustc", "--lib", "--offline", "--", "-Zunpretty=expanded"],
                       cwd=repo, env=env, capture_output=True, text=True, timeout=900)
    if p.returncode != 0 or "impl" not in p.stdout:
        raise Undecided("rustc expansion failed: " + p.stderr[-600:])
    with open(os.path.join(outdir, "expanded.rs"), "w") as f:
        f.write(p.stdout)
    return p.stdout


def norm_ty(ts):
    """token list -> canonical type string: drops lifetimes"""
    ts = [t for t in ts if not t.startswith("'")]
    s = "".join(ts)
    s = s.replace("&mut", "&mut ")
    return s


def parse_impls(text):
    toks = rtok.tokenize(text)
    ss = rtok.strs(toks)
    aliases = {}
    for m in re.finditer(r"type (\w+) = (\w+);", text):
        aliases[m.group(1)] = m.group(2)
    impls = []
    i, n = 0, len(ss)
    while i < n:
        if ss[i] == "macro_rules":
            # skip the macro definition group
            j = i
            while ss[j] not in rtok.OPEN:
                j += 1
            i = rtok.match_close(toks, j) + 1
            continue
        if ss[i] == "impl":
            j = i + 1
            depth = 0
            while ss[j] != "{" or depth > 0:
                if ss[j] == "<":
                    depth += 1
                elif ss[j] == ">":
                    depth -= 1
                elif ss[j] == ">>":
                    depth -= 2
                elif ss[j] == ";":
                    break
                j += 1
            if ss[j] != "{":
                i = j + 1
                continue
            hdr = ss[i + 1:j]
            e = rtok.match_close(toks, j)
            if "$" not in hdr:
                impls.append((hdr, j, e))
            i = j + 1
        else:
            i += 1
    out = []
    for hdr, j, e in impls:
        k = 0
        if hdr and hdr[0] == "<":
            d = 0
            while True:
                if hdr[k] == "<":
                    d += 1
                elif hdr[k] == ">":
                    d -= 1
                k += 1
                if d == 0:
                    break
        if "for" not in hdr[k:]:
            continue
        fi = len(hdr) - 1 - hdr[::-1].index("for")
        trait_toks = hdr[k:fi]
        self_ty = norm_ty(hdr[fi + 1:])
        tr = trait_toks[0]
        if tr not in FAMILY and tr not in CHECKED:
            continue
        rhs = None
        if len(trait_toks) > 1 and trait_toks[1] == "<":
            rhs = norm_ty(trait_toks[2:-1])
        else:
            rhs = self_ty
        # methods
        p = j + 1
        while p < e:
            if ss[p] == "fn":
                name = ss[p + 1]
                q = p
                while ss[q] != "(":
                    q += 1
                pe = rtok.match_close(toks, q)
                params = ss[q + 1:pe]
                b = pe
                while ss[b] != "{":
                    b += 1
                be = rtok.match_close(toks, b)
                out.append({"trait": tr, "rhs": rhs, "self": self_ty, "fn": name, "params": params, "body": ss[b + 1:be],
                            "hdr": "impl %s<%s> for %s" % (tr, rhs, self_ty) if tr not in CHECKED else "impl %s for %s" % (tr, self_ty)})
                p = be + 1
            else:
                p += 1
    return out, aliases


# ----------------------------------------------------------------------------- forwarding grammar

class NotForwarder(Exception):
    pass


def split_args(ts):
    args, cur, d = [], [], 0
    for t in ts:
        if t in rtok.OPEN:
            d += 1
        elif t in rtok.CLOSE:
            d -= 1
        if t == "," and d == 0:
            args.append(cur)
            cur = []
        else:
            cur.append(t)
    if cur:
        args.append(cur)
    return args


def parse_operand(ts):
    """operand expression of the grammar -> ('var', name) | ('deref', e) | ('ref', e) | ('clone', e) | ('cast', e, T)"""
    if len(ts) == 1 and re.match(r"^[a-z_]\w*$", ts[0]):
        return ("var", ts[0])
    if ts[0] == "*":
        return ("deref", parse_operand(ts[1:]))
    if ts[0] == "&":
        return ("ref", parse_operand(ts[1:]))
    if len(ts) >= 5 and ts[-4:] == [".", "clone", "(", ")"]:
        return ("clone", parse_operand(ts[:-4]))
    if len(ts) >= 3 and ts[-2] == "as":
        return ("cast", parse_operand(ts[:-2]), ts[-1])
    if ts[0] == "(" and ts[-1] == ")" and rtok.OPEN.get("(") and _balanced(ts[1:-1]):
        return parse_operand(ts[1:-1])
    raise NotForwarder("operand outside grammar: " + " ".join(ts))


def _balanced(ts):
    d = 0
    for t in ts:
        if t in rtok.OPEN:
            d += 1
        elif t in rtok.CLOSE:
            d -= 1
            if d < 0:
                return False
    return d == 0


def parse_call(ts):
    """Trait::method(a, b)  |  a.method(b)   ->  ('call', TraitOrNone, method, arg1, arg2)"""
    if len(ts) >= 6 and ts[1] == "::" and ts[3] == "(" and ts[-1] == ")" and ts[0] in FAMILY:
        args = split_args(ts[4:-1])
        if len(args) != 2:
            raise NotForwarder("call arity")
        return ("call", ts[0], ts[2], parse_operand(args[0]), parse_operand(args[1]))
    # method call: recv . m ( arg )
    if ts[-1] == ")":
        # find the last '.' at depth 0 followed by ident and '('
        d = 0
        for k in range(len(ts) - 1, -1, -1):
            if ts[k] in rtok.CLOSE:
                d += 1
            elif ts[k] in rtok.OPEN:
                d -= 1
            elif ts[k] == "." and d == 0 and k + 2 < len(ts) and ts[k + 2] == "(" and ts[k + 1] in METHOD_OF:
                args = split_args(ts[k + 3:-1])
                if len(args) != 1:
                    raise NotForwarder("method arity")
                return ("call", None, ts[k + 1], parse_operand(ts[:k]), parse_operand(args[0]))
    raise NotForwarder("not a call: " + " ".join(ts)[:80])


BINOPS = {"+": "add", "-": "sub", "*": "mul", "/": "div", "%": "rem", "&": "bitand", "|": "bitor", "^": "bitxor", "<<": "shl", ">>": "shr"}


def parse_body(body):
    """Returns a list of alternatives [(cond_desc, call)] for a forwarder body; raises NotForwarder otherwise."""
    ts = list(body)
    if ts and ts[-1] == ";":
        ts = ts[:-1]
    # if x.capacity() >= y.capacity() { E } else { E }   /  .len()
    if ts and ts[0] == "if":
        m = None
        if len(ts) > 12 and ts[2] == "." and ts[3] in ("capacity", "len") and ts[6] == ">=" and ts[8] == "." and ts[9] == ts[3]:
            ob = 12
            if ts[ob] == "{":
                # find matching close
                d = 0
                for k in range(ob, len(ts)):
                    if ts[k] == "{":
                        d += 1
                    elif ts[k] == "}":
                        d -= 1
                        if d == 0:
                            break
                then = ts[ob + 1:k]
                if ts[k + 1] == "else" and ts[k + 2] == "{" and ts[-1] == "}":
                    els = ts[k + 3:-1]
                    return [("then", parse_call(then)), ("else", parse_call(els))]
        raise NotForwarder("if-shape outside grammar")
    # Some(E)
    if len(ts) > 3 and ts[0] == "Some" and ts[1] == "(" and ts[-1] == ")":
        return [("some", parse_call(ts[2:-1]))]
    # self OP= other ; self
    if len(ts) == 5 and ts[0] == "self" and ts[1].endswith("=") and ts[1][:-1] in BINOPS and ts[3] == ";" and ts[4] == "self":
        return [("assign-then-return", ("call", None, BINOPS[ts[1][:-1]] + "_assign", ("ref_mut", ("var", "self")), parse_operand([ts[2]])))]
    # let n = mem::replace(self, Self::ZERO); *self = n OP other;
    if len(ts) >= 18 and ts[:4] == ["let", "n", "=", "mem"] and "replace" in ts[:8]:
        semi = ts.index(";")
        rest = ts[semi + 1:]
        if rest[:4] == ["*", "self", "=", "n"] and rest[4] in BINOPS and len(rest) == 6:
            return [("replace-then-op", ("call", None, BINOPS[rest[4]], ("deref", ("var", "self")), parse_operand([rest[5]])))]
        raise NotForwarder("mem::replace shape")
    # *self = &*self OP other
    if len(ts) == 8 and ts[:6] == ["*", "self", "=", "&", "*", "self"] and ts[6] in BINOPS:
        return [("reborrow-op", ("call", None, BINOPS[ts[6]], ("ref", ("deref", ("var", "self"))), parse_operand([ts[7]])))]
    return [("direct", parse_call(ts))]


# ----------------------------------------------------------------------------- typing

def param_types(params, self_ty):
    """{'self': type, name: type}"""
    args = split_args(params)
    tys = {}
    for a in args:
        a = [t for t in a if t != "mut" or True]
        if a[-1] == "self" and ":" not in a:
            if a[0] == "&":
                tys["self"] = "&mut " + self_ty if "mut" in a else "&" + self_ty
            else:
                tys["self"] = self_ty
        else:
            k = a.index(":")
            name = [t for t in a[:k] if t != "mut"][-1]
            tys[name] = norm_ty(a[k + 1:])
    return tys


def type_of(e, env, aliases):
    k = e[0]
    if k == "var":
        if e[1] not in env:
            raise NotForwarder("unknown variable " + e[1])
        return env[e[1]]
    if k == "deref":
        t = type_of(e[1], env, aliases)
        if t.startswith("&mut "):
            return t[5:]
        if t.startswith("&"):
            return t[1:]
        raise NotForwarder("deref of non-reference")
    if k == "ref":
        return "&" + type_of(e[1], env, aliases)
    if k == "ref_mut":
        return "&mut " + type_of(e[1], env, aliases)
    if k == "clone":
        t = type_of(e[1], env, aliases)
        return t[1:] if t.startswith("&") and not t.startswith("&mut ") else (t[5:] if t.startswith("&mut ") else t)
    if k == "cast":
        t = e[2]
        return aliases.get(t, t)
    raise NotForwarder("bad expr")


def strip_ref(t):
    if t.startswith("&mut "):
        return t[5:]
    return t[1:] if t.startswith("&") else t


def value_of(e, vals, env, aliases):
    """z3 Int value of an operand expression; casts are exact machine conversions"""
    k = e[0]
    if k == "var":
        return vals[e[1]]
    if k in ("deref", "ref", "ref_mut", "clone"):
        return value_of(e[1], vals, env, aliases)
    if k == "cast":
        src_t = strip_ref(type_of(e[1], env, aliases))
        dst_t = aliases.get(e[2], e[2])
        v = value_of(e[1], vals, env, aliases)
        if src_t not in PRIMS or dst_t not in PRIMS:
            raise NotForwarder("cast between non-primitives")
        ssig, sw = PRIMS[src_t]
        dsig, dw = PRIMS[dst_t]
        # wrap to dw bits, interpret with dst signedness
        m = z3.IntVal(2 ** dw)
        w = v % m
        if dsig:
            return z3.If(w >= 2 ** (dw - 1), w - m, w)
        return w
    raise NotForwarder("bad expr")


def range_constraint(t, v):
    t = strip_ref(t)
    if t == "BigUint":
        return v >= 0
    if t == "BigInt":
        return z3.BoolVal(True)
    if t in PRIMS:
        sig, w = PRIMS[t]
        return z3.And(v >= -(2 ** (w - 1)), v < 2 ** (w - 1)) if sig else z3.And(v >= 0, v < 2 ** w)
    raise NotForwarder("operand type outside scope: " + t)


# ----------------------------------------------------------------------------- scalar leaves encoded directly

def scalar_assign_leaf(im, aliases):
    """`impl RemAssign<&BigUint> for iN/uN` and DivAssign twins from impl_rem_assign_scalar!/impl_div_assign_scalar!:
         *self = match other.to_T() { None => X, Some(0) => panic, Some(v) => *self OP v };
       Returns (obligations) or None if the body has another shape."""
    b = " ".join(im["body"])
    MINARM = (r"\{ if \* self == < (\w+) > :: MIN && other \. bits \( \) == u64 :: from \( < \w+ > :: BITS \) && "
              r"other \. trailing_zeros \( \) == Some \( u64 :: from \( < \w+ > :: BITS \) - 1 \) \{ 0 \} else \{ \* self \} \}")
    b = re.sub(MINARM + " Some", "MINARM , Some", b)
    m = re.match(r"^\* self = match other \. to_(\w+) \( \) \{ None => (\* self|0|MINARM) , Some \( 0 \) => \{ :: core :: panicking :: panic_fmt \( .*? \) ; \} Some \( v \) => \* self ([%/]) v , \} ;$", b)
    if not m:
        return None
    t, none_val, op = m.group(1), m.group(2), m.group(3)
    self_t = im["self"]
    if self_t not in PRIMS or t != self_t:
        return [{"name": "leaf:%s::%s / shape" % (im["hdr"], im["fn"]), "status": "failed", "detail": "conversion to %s in an impl for %s" % (t, self_t), "model": None}]
    sig, w = PRIMS[self_t]
    s = z3.Solver()
    x, o = z3.Ints("self other")
    lo, hi = (-(2 ** (w - 1)), 2 ** (w - 1) - 1) if sig else (0, 2 ** w - 1)
    s.add(x >= lo, x <= hi, o >= 1)  # other == 0 is the panic case (checked syntactically: Some(0) => panic)

    def tdiv(a, b_):
        q = z3.If(a >= 0, a / b_, -((-a) / b_))
        return q, a - q * b_
    fits = z3.And(o >= lo, o <= hi)
    q, r = tdiv(x, o)
    spec = r if op == "%" else q
    got_some = spec
    if none_val == "MINARM":
        # *self == MIN && other == 2^(BITS-1)  (bits() == BITS and trailing_zeros() == BITS-1)  => 0, else *self
        got_none = z3.If(z3.And(x == lo, o == 2 ** (w - 1)), z3.IntVal(0), x)
    else:
        got_none = x if none_val == "* self" else z3.IntVal(0)
    got = z3.If(fits, got_some, got_none)
    res = []
    s.push()
    s.add(got != spec)
    rr = s.check()
    model = None
    if rr == z3.sat:
        mm = s.model()
        model = {"self": str(mm[x]), "other": str(mm[o]), "type": self_t, "op": op}
    s.pop()
    res.append({"name": "leaf:%s::%s / result-equals-truncated-%s-of-converted-operands" % (im["hdr"], im["fn"], "remainder" if op == "%" else "quotient"),
                "status": "discharged" if rr == z3.unsat else ("failed" if rr == z3.sat else "unknown"), "model": model,
                "detail": "primitive-only leaf encoded directly; None arm returns %s" % none_val})
    # overflow of `*self / v` for MIN / -1 cannot occur: v >= 1
    return res


# ----------------------------------------------------------------------------- main

def unit_leaf_index():
    """impl headers that some Verus unit extracts (leaf under contract)"""
    idx = {}
    udir = os.path.join(ROOT, "contracts", "units")
    for fn in os.listdir(udir):
        if not fn.endswith(".rs"):
            continue
        with open(os.path.join(udir, fn)) as f:
            for ln in f:
                m = re.match(r"\s*//@ extract (\S+) :: (.*?) :: fn (\S+)(.*)$", ln)
                if not m:
                    continue
                src, path, fname, rest = m.group(1), m.group(2), m.group(3), m.group(4)
                subst = {}
                ms = re.search(r"\bsubst=(\S+)", rest)
                if ms:
                    for pair in ms.group(1).split(";"):
                        if "=>" in pair:
                            k, v = pair.split("=>", 1)
                            subst[k] = v
                hdrs = []
                comps = [c for c in path.split(" :: ") if c.startswith("impl ") or c.startswith("impl<")]
                if comps:
                    hdrs.append(comps[-1])
                elif "macro_rules! impl_mul_assign" in path and "$Other" in subst:
                    hdrs.append("impl MulAssign<$Other> for %s" % ("BigInt" if "/bigint/" in src else "BigUint"))
                elif "macro_rules! impl_mul" in path and "$Other" in subst and "$Self" in subst:
                    hdrs.append("impl Mul<$Other> for $Self")
                for h in hdrs:
                    fnm = fname
                    for k, v in subst.items():
                        h = h.replace(k, v)
                        fnm = fnm.replace(k, v)
                    hdr = re.sub(r"\s+", "", h.replace("impl ", "impl#"))
                    idx[(hdr, fnm)] = fn[:-3]
    return idx


def run(repo, tier, outdir):
    t0 = time.time()
    obligations = []
    status, reason = "pass", None
    try:
        text = expand(repo, outdir)
        impls, aliases = parse_impls(text)
    except Undecided as e:
        return {"engine": "fwd", "status": "undecided", "reason": str(e), "obligations": [], "n_obligations": 0, "n_discharged": 0,
                "assumptions": [], "wall_s": round(time.time() - t0, 2)}
    table = {}
    for im in impls:
        table[(im["trait"], strip_lt(im["rhs"]), strip_lt(im["self"]))] = im
    leaf_idx = unit_leaf_index()
    forwarders, leaves = [], []
    edges = {}
    fam_fn = {}
    for im in impls:
        key = (im["trait"], strip_lt(im["rhs"]), strip_lt(im["self"]))
        name = "fwd:%s::%s" % (im["hdr"], im["fn"])
        try:
            alts = parse_body(im["body"])
        except NotForwarder as e:
            sl = scalar_assign_leaf(im, aliases)
            if sl is not None:
                obligations.extend(sl)
                leaves.append((im, "encoded"))
            else:
                leaves.append((im, str(e)))
            continue
        env = param_types(im["params"], strip_lt(im["self"]))
        fam = FAMILY.get(im["trait"]) or CHECKED.get(im["trait"])
        ok_all = True
        targets = []
        for cond, call in alts:
            _, tr, meth, a1, a2 = call
            try:
                t1 = type_of(a1, env, aliases)
                t2 = type_of(a2, env, aliases)
                mtrait = METHOD_OF.get(meth)
                if mtrait is None or FAMILY.get(mtrait) != fam:
                    raise NotForwarder("forwards to another operator family: %s" % meth)
                if tr is not None and tr != mtrait:
                    raise NotForwarder("trait/method mismatch")
                # resolve callee
                recv = t1
                if mtrait.endswith("Assign"):
                    recv = strip_ref(t1)
                tkey = (mtrait, strip_lt(t2), strip_lt(recv))
                if tkey not in table and tr is None and not mtrait.endswith("Assign"):
                    # method-call autoref/deref: try the dereferenced receiver
                    tkey2 = (mtrait, strip_lt(t2), strip_lt(strip_ref(recv)))
                    if tkey2 in table:
                        tkey = tkey2
                if tkey not in table:
                    obligations.append({"name": name + " / callee-exists[%s]" % cond, "status": "failed", "model": None,
                                        "detail": "no impl %s<%s> for %s" % (mtrait, t2, recv)})
                    ok_all = False
                    continue
                if tkey == key:
                    obligations.append({"name": name + " / not-self-recursive[%s]" % cond, "status": "failed", "model": None, "detail": "forwards to itself"})
                    ok_all = False
                    continue
                targets.append(tkey)
                # value agreement
                vals = {}
                s = z3.Solver()
                for pname, pty in env.items():
                    vals[pname] = z3.Int(pname)
                    s.add(range_constraint(pty, vals[pname]))
                op = z3.Function("op_" + fam, z3.IntSort(), z3.IntSort(), z3.IntSort())
                if fam in COMMUTATIVE:
                    a_, b_ = z3.Ints("a_ b_")
                    s.add(z3.ForAll([a_, b_], op(a_, b_) == op(b_, a_)))
                other_name = [p for p in env if p != "self"]
                if len(other_name) != 1:
                    raise NotForwarder("unexpected parameter list")
                lhs = op(value_of(a1, vals, env, aliases), value_of(a2, vals, env, aliases))
                rhs = op(vals["self"], vals[other_name[0]])
                s.add(lhs != rhs)
                r = s.check()
                model = None
                if r == z3.sat:
                    m = s.model()
                    model = {str(d): str(m[d]) for d in m.decls() if str(d) in vals}
                obligations.append({"name": name + " / value-agreement[%s] -> %s<%s> for %s" % (cond, tkey[0], tkey[1], tkey[2]),
                                    "status": "discharged" if r == z3.unsat else ("failed" if r == z3.sat else "unknown"), "model": model,
                                    "detail": " ".join(im["body"])[:200]})
            except NotForwarder as e:
                obligations.append({"name": name + " / in-grammar[%s]" % cond, "status": "failed", "model": None, "detail": str(e)})
                ok_all = False
        forwarders.append(im)
        edges[key] = targets
    # acyclicity and termination in a leaf
    leafkeys = set((im["trait"], strip_lt(im["rhs"]), strip_lt(im["self"])) for im, _ in leaves)
    memo = {}

    def ends_in_leaf(k, seen):
        if k in leafkeys:
            return True
        if k in memo:
            return memo[k]
        if k in seen or k not in edges:
            return False
        r = bool(edges[k]) and all(ends_in_leaf(t, seen | {k}) for t in edges[k])
        memo[k] = r
        return r
    bad = [k for k in edges if not ends_in_leaf(k, frozenset())]
    obligations.append({"name": "fwd:graph / acyclic-and-every-chain-ends-in-a-leaf", "status": "discharged" if not bad else "failed",
                        "model": None, "detail": "%d forwarders, %d leaves; offending: %s" % (len(edges), len(leafkeys), bad[:5])})
    # leaves: which are under contract
    leaf_report = []
    for im, why in leaves:
        hdr = re.sub(r"\s+", "", im["hdr"].replace("impl ", "impl#"))
        unit = leaf_idx.get((hdr, im["fn"]))
        leaf_report.append({"impl": im["hdr"], "fn": im["fn"], "contract": ("unit " + unit) if unit else ("encoded by engine F" if why == "encoded" else "unverified leaf")})
    if any(o["status"] == "unknown" for o in obligations):
        status, reason = "undecided", "solver returned unknown"
    if any(o["status"] == "failed" for o in obligations):
        status = "failed"
    if len(forwarders) < 500:
        status, reason = "undecided", "only %d forwarders recognised: parser or expansion changed" % len(forwarders)
    with open(os.path.join(outdir, "fwd_leaves.json"), "w") as f:
        json.dump(leaf_report, f, indent=1)
    n_under = sum(1 for l in leaf_report if l["contract"] != "unverified leaf")
    return {"engine": "fwd", "status": status, "reason": reason, "obligations": obligations,
            "n_obligations": len(obligations), "n_discharged": sum(1 for o in obligations if o["status"] == "discharged"),
            "wall_s": round(time.time() - t0, 2),
            "cmd": "cargo +nightly rustc --lib -- -Zunpretty=expanded; python3-vt tools/fwd.py (z3 %s)" % z3.get_version_string(),
            "detail": {"forwarders": len(forwarders), "leaves": len(leaves), "leaves_under_contract": n_under,
                       "leaf_units": sorted(set(l["contract"][5:] for l in leaf_report if l["contract"].startswith("unit "))),
                       "unverified_leaves": [l["impl"] + "::" + l["fn"] for l in leaf_report if l["contract"] == "unverified leaf"]},
            "assumptions": ["engine F: rustc's -Zunpretty=expanded output is the code that is compiled for this target",
                            "engine F: clone(), & and * preserve the denoted integer; trait method resolution as encoded in fwd.py (receiver type first, then auto-deref)",
                            "engine F: %d of %d leaf impls are not under any contract (listed in evidence.engines[].detail.unverified_leaves)" % (len(leaf_report) - n_under, len(leaf_report))],
            "samples": [o["name"] for o in obligations[:2]] + [o["name"] for o in obligations if o["name"].startswith("leaf:")][:2]}


def strip_lt(t):
    return re.sub(r"'\w+\s*", "", t)


if __name__ == "__main__":
    import sys
    out = os.path.join(ROOT, "build", "dev")
    os.makedirs(out, exist_ok=True)
    r = run(sys.argv[1] if len(sys.argv) > 1 else "/repo", "quick", out)
    for o in r["obligations"]:
        if o["status"] != "discharged":
            print(o["status"].upper(), o["name"], "--", o.get("detail"), o.get("model"))
    print(r["status"], r["reason"], r["n_discharged"], "/", r["n_obligations"], r["wall_s"], "s", json.dumps(r.get("detail"))[:3000])
