// Replay driver: executes public-API operations of the real crate (path dependency on VERIF_REPO) on inputs
// read from stdin, one case per line:  <op> <arg> <arg> ...   Integers are hex with optional leading '-'.
// Prints one line per case: the result, or PANIC. Never decides a property: it only replays inputs.
use num_bigint::{BigInt, BigUint, Sign};
use num_integer::{Integer, Roots};
use num_traits::{CheckedSub, CheckedDiv, CheckedEuclid, Euclid, Pow, ToPrimitive, Zero, One, Signed, Num, FromPrimitive};
use std::io::{self, BufRead, Write};
use std::convert::TryFrom;

fn pu(s: &str) -> BigUint {
    let s = s.trim_start_matches('+');
    let mut digits: Vec<u32> = Vec::new();
    let bytes = s.as_bytes();
    let mut end = bytes.len();
    while end > 0 {
        let start = end.saturating_sub(8);
        digits.push(u32::from_str_radix(&s[start..end], 16).unwrap());
        end = start;
    }
    BigUint::new(digits)
}
fn pi(s: &str) -> BigInt {
    if let Some(r) = s.strip_prefix('-') { BigInt::from_biguint(Sign::Minus, pu(r)) } else { BigInt::from_biguint(Sign::Plus, pu(s)) }
}
fn fu(u: &BigUint) -> String {
    let d = u.to_u32_digits();
    if d.is_empty() { return "0".into(); }
    let mut s = format!("{:x}", d[d.len() - 1]);
    for x in d[..d.len() - 1].iter().rev() { s.push_str(&format!("{:08x}", x)); }
    s
}
fn fi(i: &BigInt) -> String {
    let (s, m) = (i.sign(), i.magnitude());
    match s { Sign::Minus => format!("-{}", fu(m)), Sign::NoSign => { if m.is_zero() { "0".into() } else { format!("NOSIGN!{}", fu(m)) } }, Sign::Plus => { if m.is_zero() { "PLUS!0".into() } else { fu(m) } } }
}
fn opt<T, F: Fn(&T) -> String>(o: Option<T>, f: F) -> String { match o { Some(v) => format!("Some({})", f(&v)), None => "None".into() } }
fn pu64(s: &str) -> u64 { u64::from_str_radix(s, 16).unwrap() }
fn pi64(s: &str) -> i64 { if let Some(r) = s.strip_prefix('-') { (-(i128::from_str_radix(r, 16).unwrap())) as i64 } else { i64::from_str_radix(s, 16).unwrap() } }

macro_rules! scalar_ops {
    ($big:ident, $parse:ident, $fmt:ident, $a:expr, $ty:ty, $sv:expr, $op:expr, $side:expr) => {{
        let x = $parse($a);
        let s: $ty = $sv;
        match ($op, $side) {
            ("add", "r") => $fmt(&(x + s)), ("add", "l") => $fmt(&(s + x)),
            ("sub", "r") => $fmt(&(x - s)), ("sub", "l") => $fmt(&(s - x)),
            ("mul", "r") => $fmt(&(x * s)), ("mul", "l") => $fmt(&(s * x)),
            ("div", "r") => $fmt(&(x / s)), ("div", "l") => $fmt(&(s / x)),
            ("rem", "r") => $fmt(&(x % s)), ("rem", "l") => $fmt(&(s % x)),
            ("add", "a") => { let mut y = x; y += s; $fmt(&y) }
            ("sub", "a") => { let mut y = x; y -= s; $fmt(&y) }
            ("mul", "a") => { let mut y = x; y *= s; $fmt(&y) }
            ("div", "a") => { let mut y = x; y /= s; $fmt(&y) }
            ("rem", "a") => { let mut y = x; y %= s; $fmt(&y) }
            ("add", "rr") => $fmt(&(&x + &s)), ("sub", "rr") => $fmt(&(&x - &s)), ("mul", "rr") => $fmt(&(&x * &s)),
            ("div", "rr") => $fmt(&(&x / &s)), ("rem", "rr") => $fmt(&(&x % &s)),
            _ => "UNKNOWN-SC".to_string(),
        }
    }};
}
fn pi128(s: &str) -> i128 { if let Some(r) = s.strip_prefix('-') { (u128::from_str_radix(r, 16).unwrap() as i128).wrapping_neg() } else { u128::from_str_radix(s, 16).unwrap() as i128 } }
fn sc(a: &[&str]) -> String {
    // sc <u|i> <scalar type> <op> <side: r|l|a|rr> <big> <scalar>
    let (big, ty, op, side, x, s) = (a[1], a[2], a[3], a[4], a[5], a[6]);
    match (big, ty) {
        ("u", "u8") => scalar_ops!(BigUint, pu, fu, x, u8, pu64(s) as u8, op, side),
        ("u", "u16") => scalar_ops!(BigUint, pu, fu, x, u16, pu64(s) as u16, op, side),
        ("u", "u32") => scalar_ops!(BigUint, pu, fu, x, u32, pu64(s) as u32, op, side),
        ("u", "u64") => scalar_ops!(BigUint, pu, fu, x, u64, pu64(s), op, side),
        ("u", "u128") => scalar_ops!(BigUint, pu, fu, x, u128, u128::from_str_radix(s, 16).unwrap(), op, side),
        ("u", "usize") => scalar_ops!(BigUint, pu, fu, x, usize, pu64(s) as usize, op, side),
        ("i", "u8") => scalar_ops!(BigInt, pi, fi, x, u8, pu64(s) as u8, op, side),
        ("i", "u16") => scalar_ops!(BigInt, pi, fi, x, u16, pu64(s) as u16, op, side),
        ("i", "u32") => scalar_ops!(BigInt, pi, fi, x, u32, pu64(s) as u32, op, side),
        ("i", "u64") => scalar_ops!(BigInt, pi, fi, x, u64, pu64(s), op, side),
        ("i", "u128") => scalar_ops!(BigInt, pi, fi, x, u128, u128::from_str_radix(s, 16).unwrap(), op, side),
        ("i", "usize") => scalar_ops!(BigInt, pi, fi, x, usize, pu64(s) as usize, op, side),
        ("i", "i8") => scalar_ops!(BigInt, pi, fi, x, i8, pi128(s) as i8, op, side),
        ("i", "i16") => scalar_ops!(BigInt, pi, fi, x, i16, pi128(s) as i16, op, side),
        ("i", "i32") => scalar_ops!(BigInt, pi, fi, x, i32, pi128(s) as i32, op, side),
        ("i", "i64") => scalar_ops!(BigInt, pi, fi, x, i64, pi128(s) as i64, op, side),
        ("i", "i128") => scalar_ops!(BigInt, pi, fi, x, i128, pi128(s), op, side),
        ("i", "isize") => scalar_ops!(BigInt, pi, fi, x, isize, pi128(s) as isize, op, side),
        _ => "UNKNOWN-SC-TYPE".to_string(),
    }
}

macro_rules! cv_one {
    ($x:expr, $ty:ty, $to:ident, $fmtbig:ident) => {{
        let x = $x;
        let a = format!("{:?}", x.$to());
        let b = match <$ty as std::convert::TryFrom<_>>::try_from(&x) { Ok(v) => format!("Ok({})", v), Err(e) => { let () = e.into_original(); "Err".to_string() } };
        let c = match <$ty as std::convert::TryFrom<_>>::try_from(x.clone()) { Ok(v) => format!("Ok({})", v), Err(e) => format!("Err({})", $fmtbig(&e.into_original())) };
        format!("{} {} {}", a, b, c)
    }};
}
macro_rules! cv_all {
    ($x:expr, $t:expr, $fmtbig:ident) => {
        match $t {
            "u8" => cv_one!($x, u8, to_u8, $fmtbig), "u16" => cv_one!($x, u16, to_u16, $fmtbig), "u32" => cv_one!($x, u32, to_u32, $fmtbig),
            "u64" => cv_one!($x, u64, to_u64, $fmtbig), "u128" => cv_one!($x, u128, to_u128, $fmtbig), "usize" => cv_one!($x, usize, to_usize, $fmtbig),
            "i8" => cv_one!($x, i8, to_i8, $fmtbig), "i16" => cv_one!($x, i16, to_i16, $fmtbig), "i32" => cv_one!($x, i32, to_i32, $fmtbig),
            "i64" => cv_one!($x, i64, to_i64, $fmtbig), "i128" => cv_one!($x, i128, to_i128, $fmtbig), "isize" => cv_one!($x, isize, to_isize, $fmtbig),
            _ => "UNKNOWN-CV-TYPE".to_string(),
        }
    };
}
// cv <u|i> <type> <big>: to_T, T::try_from(&big), T::try_from(big) (with the original carried back on failure)
fn cv(a: &[&str]) -> String {
    match a[1] {
        "u" => cv_all!(pu(a[3]), a[2], fu),
        "i" => cv_all!(pi(a[3]), a[2], fi),
        // BigUint::try_from(BigInt) both forms, to_biguint, to_bigint
        "iu" => {
            let x = pi(a[3]);
            let r1 = match BigUint::try_from(&x) { Ok(v) => format!("Ok({})", fu(&v)), Err(e) => { let () = e.into_original(); "Err".to_string() } };
            let r2 = match BigUint::try_from(x.clone()) { Ok(v) => format!("Ok({})", fu(&v)), Err(e) => format!("Err({})", fi(&e.into_original())) };
            let r3 = opt(num_bigint::ToBigUint::to_biguint(&x), fu);
            let r4 = opt(num_bigint::ToBigInt::to_bigint(&x), fi);
            format!("{} {} {} {}", r1, r2, r3, r4)
        }
        "ui" => {
            let x = pu(a[3]);
            format!("{} {} {}", fi(&BigInt::from(x.clone())), opt(num_bigint::ToBigInt::to_bigint(&x), fi), opt(num_bigint::ToBigUint::to_biguint(&x), fu))
        }
        _ => "UNKNOWN-CV".to_string(),
    }
}
macro_rules! fr_unsigned {
    ($v:expr, $ty:ty, $fp:ident) => {{
        let v: $ty = $v;
        format!("{} {} {} {} {} {}", fu(&BigUint::from(v)), fi(&BigInt::from(v)), opt(BigUint::$fp(v), fu), opt(BigInt::$fp(v), fi),
            opt(num_bigint::ToBigUint::to_biguint(&v), fu), opt(num_bigint::ToBigInt::to_bigint(&v), fi))
    }};
}
macro_rules! fr_signed {
    ($v:expr, $ty:ty, $fp:ident) => {{
        let v: $ty = $v;
        let t = match BigUint::try_from(v) { Ok(x) => format!("Ok({})", fu(&x)), Err(e) => { let () = e.into_original(); "Err".to_string() } };
        format!("{} {} {} {} {} {}", t, fi(&BigInt::from(v)), opt(BigUint::$fp(v), fu), opt(BigInt::$fp(v), fi),
            opt(num_bigint::ToBigUint::to_biguint(&v), fu), opt(num_bigint::ToBigInt::to_bigint(&v), fi))
    }};
}
// fr <type> <value>: From / TryFrom / FromPrimitive / ToBigUint / ToBigInt of a primitive
fn fr(a: &[&str]) -> String {
    let s = a[2];
    match a[1] {
        "u8" => fr_unsigned!(pu64(s) as u8, u8, from_u8), "u16" => fr_unsigned!(pu64(s) as u16, u16, from_u16), "u32" => fr_unsigned!(pu64(s) as u32, u32, from_u32),
        "u64" => fr_unsigned!(pu64(s), u64, from_u64), "usize" => fr_unsigned!(pu64(s) as usize, usize, from_usize),
        "u128" => fr_unsigned!(u128::from_str_radix(s, 16).unwrap(), u128, from_u128),
        "i8" => fr_signed!(pi128(s) as i8, i8, from_i8), "i16" => fr_signed!(pi128(s) as i16, i16, from_i16), "i32" => fr_signed!(pi128(s) as i32, i32, from_i32),
        "i64" => fr_signed!(pi128(s) as i64, i64, from_i64), "isize" => fr_signed!(pi128(s) as isize, isize, from_isize),
        "i128" => fr_signed!(pi128(s), i128, from_i128),
        _ => "UNKNOWN-FR-TYPE".to_string(),
    }
}

// ---- feature `rand` (C18): a generator that replays a given stream of 32-bit words (little-endian bytes for fill_bytes)
#[cfg(feature = "withrand")]
mod rnd {
    use super::*;
    use num_bigint::{RandBigInt, RandomBits};
    use rand::distributions::uniform::UniformSampler;
    use rand::distributions::Distribution;
    pub struct Stream { pub w: Vec<u32>, pub pos: usize }
    impl rand::RngCore for Stream {
        fn next_u32(&mut self) -> u32 { let v = self.w[self.pos % self.w.len()]; self.pos += 1; v }
        fn next_u64(&mut self) -> u64 { let lo = self.next_u32() as u64; let hi = self.next_u32() as u64; lo | (hi << 32) }
        fn fill_bytes(&mut self, dest: &mut [u8]) {
            // whole words, little-endian; a trailing partial word consumes one word
            for chunk in dest.chunks_mut(4) { let b = self.next_u32().to_le_bytes(); chunk.copy_from_slice(&b[..chunk.len()]); }
        }
        fn try_fill_bytes(&mut self, dest: &mut [u8]) -> Result<(), rand::Error> { self.fill_bytes(dest); Ok(()) }
    }
    fn stream(a: &[&str], from: usize) -> Stream { Stream { w: a[from..].iter().map(|x| u32::from_str_radix(x, 16).unwrap()).collect(), pos: 0 } }
    pub fn run(a: &[&str]) -> String {
        match a[0] {
            "rgen_biguint" => { let mut r = stream(a, 2); let v = r.gen_biguint(pu64(a[1])); format!("{} {}", fu(&v), r.pos) }
            "rgen_bigint" => { let mut r = stream(a, 2); let v = r.gen_bigint(pu64(a[1])); format!("{} {}", fi(&v), r.pos) }
            "rbits_u" => { let mut r = stream(a, 2); let v: BigUint = RandomBits::new(pu64(a[1])).sample(&mut r); format!("{} {}", fu(&v), r.pos) }
            "rbits_i" => { let mut r = stream(a, 2); let v: BigInt = RandomBits::new(pu64(a[1])).sample(&mut r); format!("{} {}", fi(&v), r.pos) }
            "rgen_below" => { let mut r = stream(a, 2); let v = r.gen_biguint_below(&pu(a[1])); format!("{} {}", fu(&v), r.pos) }
            "rgen_urange" => { let mut r = stream(a, 3); let v = r.gen_biguint_range(&pu(a[1]), &pu(a[2])); format!("{} {}", fu(&v), r.pos) }
            "rgen_irange" => { let mut r = stream(a, 3); let v = r.gen_bigint_range(&pi(a[1]), &pi(a[2])); format!("{} {}", fi(&v), r.pos) }
            "runiform_u" => { let mut r = stream(a, 4); let s = if a[1] == "incl" { num_bigint::UniformBigUint::new_inclusive(pu(a[2]), pu(a[3])) } else { num_bigint::UniformBigUint::new(pu(a[2]), pu(a[3])) }; let v = s.sample(&mut r); format!("{} {}", fu(&v), r.pos) }
            "runiform_i" => { let mut r = stream(a, 4); let s = if a[1] == "incl" { num_bigint::UniformBigInt::new_inclusive(pi(a[2]), pi(a[3])) } else { num_bigint::UniformBigInt::new(pi(a[2]), pi(a[3])) }; let v = s.sample(&mut r); format!("{} {}", fi(&v), r.pos) }
            "rsingle_u" => { let mut r = stream(a, 3); let v = num_bigint::UniformBigUint::sample_single(pu(a[1]), pu(a[2]), &mut r); format!("{} {}", fu(&v), r.pos) }
            "rsingle_i" => { let mut r = stream(a, 3); let v = num_bigint::UniformBigInt::sample_single(pi(a[1]), pi(a[2]), &mut r); format!("{} {}", fi(&v), r.pos) }
            _ => "UNKNOWN".into(),
        }
    }
}
#[cfg(not(feature = "withrand"))]
mod rnd { pub fn run(_a: &[&str]) -> String { "UNSUPPORTED".into() } }

// ---- feature `serde` (C17): JSON as the observable form of serde's data model
#[cfg(feature = "withserde")]
mod srd {
    use super::*;
    // a serializer that records the calls it receives (the announced sequence length is invisible in JSON)
    use serde::ser::{Impossible, Serialize, SerializeSeq, SerializeTuple, Serializer};
    type E = serde::de::value::Error;
    pub struct Rec { pub out: String }
    fn no<T>(what: &str) -> Result<T, E> { Err(serde::ser::Error::custom(format!("unexpected {}", what))) }
    impl<'a> Serializer for &'a mut Rec {
        type Ok = (); type Error = E;
        type SerializeSeq = Self; type SerializeTuple = Self;
        type SerializeTupleStruct = Impossible<(), E>; type SerializeTupleVariant = Impossible<(), E>; type SerializeMap = Impossible<(), E>;
        type SerializeStruct = Impossible<(), E>; type SerializeStructVariant = Impossible<(), E>;
        fn serialize_seq(self, len: Option<usize>) -> Result<Self, E> { self.out.push_str(&match len { Some(n) => format!("S{} ", n), None => "S? ".into() }); Ok(self) }
        fn serialize_tuple(self, len: usize) -> Result<Self, E> { self.out.push_str(&format!("T{} ", len)); Ok(self) }
        fn serialize_u32(self, v: u32) -> Result<(), E> { self.out.push_str(&format!("u:{} ", v)); Ok(()) }
        fn serialize_i8(self, v: i8) -> Result<(), E> { self.out.push_str(&format!("I:{} ", v)); Ok(()) }
        fn serialize_bool(self, _: bool) -> Result<(), E> { no("bool") }
        fn serialize_i16(self, _: i16) -> Result<(), E> { no("i16") }
        fn serialize_i32(self, _: i32) -> Result<(), E> { no("i32") }
        fn serialize_i64(self, _: i64) -> Result<(), E> { no("i64") }
        fn serialize_u8(self, _: u8) -> Result<(), E> { no("u8") }
        fn serialize_u16(self, _: u16) -> Result<(), E> { no("u16") }
        fn serialize_u64(self, _: u64) -> Result<(), E> { no("u64") }
        fn serialize_f32(self, _: f32) -> Result<(), E> { no("f32") }
        fn serialize_f64(self, _: f64) -> Result<(), E> { no("f64") }
        fn serialize_char(self, _: char) -> Result<(), E> { no("char") }
        fn serialize_str(self, _: &str) -> Result<(), E> { no("str") }
        fn serialize_bytes(self, _: &[u8]) -> Result<(), E> { no("bytes") }
        fn serialize_none(self) -> Result<(), E> { no("none") }
        fn serialize_some<T: ?Sized + Serialize>(self, _: &T) -> Result<(), E> { no("some") }
        fn serialize_unit(self) -> Result<(), E> { no("unit") }
        fn serialize_unit_struct(self, _: &'static str) -> Result<(), E> { no("unit_struct") }
        fn serialize_unit_variant(self, _: &'static str, _: u32, _: &'static str) -> Result<(), E> { no("unit_variant") }
        fn serialize_newtype_struct<T: ?Sized + Serialize>(self, _: &'static str, _: &T) -> Result<(), E> { no("newtype_struct") }
        fn serialize_newtype_variant<T: ?Sized + Serialize>(self, _: &'static str, _: u32, _: &'static str, _: &T) -> Result<(), E> { no("newtype_variant") }
        fn serialize_tuple_struct(self, _: &'static str, _: usize) -> Result<Self::SerializeTupleStruct, E> { no("tuple_struct") }
        fn serialize_tuple_variant(self, _: &'static str, _: u32, _: &'static str, _: usize) -> Result<Self::SerializeTupleVariant, E> { no("tuple_variant") }
        fn serialize_map(self, _: Option<usize>) -> Result<Self::SerializeMap, E> { no("map") }
        fn serialize_struct(self, _: &'static str, _: usize) -> Result<Self::SerializeStruct, E> { no("struct") }
        fn serialize_struct_variant(self, _: &'static str, _: u32, _: &'static str, _: usize) -> Result<Self::SerializeStructVariant, E> { no("struct_variant") }
        fn collect_str<T: ?Sized + core::fmt::Display>(self, _: &T) -> Result<(), E> { no("collect_str") }
    }
    impl<'a> SerializeSeq for &'a mut Rec {
        type Ok = (); type Error = E;
        fn serialize_element<T: ?Sized + Serialize>(&mut self, value: &T) -> Result<(), E> { value.serialize(&mut **self) }
        fn end(self) -> Result<(), E> { self.out.push_str("E "); Ok(()) }
    }
    impl<'a> SerializeTuple for &'a mut Rec {
        type Ok = (); type Error = E;
        fn serialize_element<T: ?Sized + Serialize>(&mut self, value: &T) -> Result<(), E> { value.serialize(&mut **self) }
        fn end(self) -> Result<(), E> { Ok(()) }
    }
    fn rec<T: Serialize>(x: &T) -> String { let mut r = Rec { out: String::new() }; match x.serialize(&mut r) { Ok(()) => r.out.trim_end().to_string(), Err(e) => format!("ERR {}", e) } }
    pub fn run(a: &[&str]) -> String {
        match a[0] {
            "srec_u" => rec(&pu(a[1])),
            "srec_i" => rec(&pi(a[1])),
            "sser_u" => serde_json::to_string(&pu(a[1])).unwrap_or_else(|e| format!("ERR {}", e)),
            "sser_i" => serde_json::to_string(&pi(a[1])).unwrap_or_else(|e| format!("ERR {}", e)),
            "sde_u" => match serde_json::from_str::<BigUint>(a[1]) { Ok(v) => format!("Ok({})", fu(&v)), Err(_) => "Err".into() },
            "sde_i" => match serde_json::from_str::<BigInt>(a[1]) { Ok(v) => format!("Ok({})", fi(&v)), Err(_) => "Err".into() },
            "sround_u" => { let x = pu(a[1]); let t = serde_json::to_string(&x).unwrap(); let y: BigUint = serde_json::from_str(&t).unwrap(); format!("{} {}", x == y, fu(&y)) }
            "sround_i" => { let x = pi(a[1]); let t = serde_json::to_string(&x).unwrap(); let y: BigInt = serde_json::from_str(&t).unwrap(); format!("{} {}", x == y, fi(&y)) }
            _ => "UNKNOWN".into(),
        }
    }
}
#[cfg(not(feature = "withserde"))]
mod srd { pub fn run(_a: &[&str]) -> String { "UNSUPPORTED".into() } }

fn hash_of<T: std::hash::Hash>(x: &T) -> u64 { use std::hash::Hasher; let mut h = std::collections::hash_map::DefaultHasher::new(); x.hash(&mut h); h.finish() }
fn sg(s: &str) -> Sign { match s { "-" => Sign::Minus, "0" => Sign::NoSign, _ => Sign::Plus } }

/// shf <u|i> <shift type> <l|r> <v|r|a> <x> <k>: every shift form (by value, by reference, assign) for every shift-amount type
fn shf(a: &[&str]) -> String {
    macro_rules! forms { ($x:expr, $k:expr, $f:ident) => { match (a[3], a[4]) {
        ("l", "v") => $f(&($x << $k)), ("l", "r") => $f(&(&$x << $k)), ("l", _) => { let mut y = $x; y <<= $k; $f(&y) }
        (_, "v") => $f(&($x >> $k)), (_, "r") => $f(&(&$x >> $k)), (_, _) => { let mut y = $x; y >>= $k; $f(&y) } } } }
    macro_rules! tys { ($x:expr, $f:ident) => { match a[2] {
        "u8" => forms!($x, pi128(a[6]) as u8, $f), "u16" => forms!($x, pi128(a[6]) as u16, $f), "u32" => forms!($x, pi128(a[6]) as u32, $f),
        "u64" => forms!($x, pi128(a[6]) as u64, $f), "u128" => forms!($x, pi128(a[6]) as u128, $f), "usize" => forms!($x, pi128(a[6]) as usize, $f),
        "i8" => forms!($x, pi128(a[6]) as i8, $f), "i16" => forms!($x, pi128(a[6]) as i16, $f), "i32" => forms!($x, pi128(a[6]) as i32, $f),
        "i64" => forms!($x, pi128(a[6]) as i64, $f), "i128" => forms!($x, pi128(a[6]), $f), _ => forms!($x, pi128(a[6]) as isize, $f) } } }
    if a[1] == "u" { tys!(pu(a[5]), fu) } else { tys!(pi(a[5]), fi) }
}

/// powf <u|i> <exponent type> <vv|vr|rv|rr> <base> <exponent>: every Pow form (base by value / reference, exponent by value / reference)
fn powf(a: &[&str]) -> String {
    macro_rules! forms { ($b:expr, $e:expr, $f:ident) => { match a[3] {
        "vv" => $f(&Pow::pow($b, $e)), "vr" => $f(&Pow::pow($b, &$e)), "rv" => $f(&Pow::pow(&$b, $e)), _ => $f(&Pow::pow(&$b, &$e)) } } }
    macro_rules! tys { ($b:expr, $f:ident) => { match a[2] {
        "u8" => forms!($b, pu64(a[5]) as u8, $f), "u16" => forms!($b, pu64(a[5]) as u16, $f), "u32" => forms!($b, pu64(a[5]) as u32, $f),
        "u64" => forms!($b, pu64(a[5]), $f), "usize" => forms!($b, pu64(a[5]) as usize, $f),
        "u128" => forms!($b, u128::from_str_radix(a[5], 16).unwrap(), $f), _ => forms!($b, pu(a[5]), $f) } } }
    if a[1] == "u" { tys!(pu(a[4]), fu) } else { tys!(pi(a[4]), fi) }
}

fn run(a: &[&str]) -> String {
    let op = a[0];
    if op == "sc" { return sc(a); }
    if op == "cv" { return cv(a); }
    if op == "powf" { return powf(a); }
    if op == "shf" { return shf(a); }
    if op == "shlf" {
        // shlf <u|+|-> <64|32> <k hex>: (1 << k).to_f64() / to_f32() for shifts too large to pass as text
        let k = pu64(a[3]) as usize;
        let x = BigUint::from(1u32) << k;
        return match (a[1], a[2]) {
            ("u", "64") => format!("{:016x}", x.to_f64().unwrap().to_bits()),
            ("u", _) => format!("{:08x}", x.to_f32().unwrap().to_bits()),
            (s_, "64") => format!("{:016x}", BigInt::from_biguint(sg(s_), x).to_f64().unwrap().to_bits()),
            (s_, _) => format!("{:08x}", BigInt::from_biguint(sg(s_), x).to_f32().unwrap().to_bits()),
        };
    }
    if op == "fr" { return fr(a); }
    if op.starts_with("sser_") || op.starts_with("sde_") || op.starts_with("sround_") || op.starts_with("srec_") { return srd::run(a); }
    if op.starts_with('r') && (op.starts_with("rgen_") || op.starts_with("rbits_") || op.starts_with("runiform_") || op.starts_with("rsingle_")) { return rnd::run(a); }
    match op {
        // ---- BigUint arithmetic
        "uadd" => fu(&(&pu(a[1]) + &pu(a[2]))),
        "uadd_vv" => fu(&(pu(a[1]) + pu(a[2]))),
        "uadd_vr" => fu(&(pu(a[1]) + &pu(a[2]))),
        "usub_u128" => fu(&(pu(a[1]) - u128::from_str_radix(a[2], 16).unwrap())),
        "uadd_assign" => { let mut x = pu(a[1]); x += &pu(a[2]); fu(&x) }
        "uadd_u32" => fu(&(pu(a[1]) + (pu64(a[2]) as u32))),
        "uadd_u64" => fu(&(pu(a[1]) + pu64(a[2]))),
        "uadd_u128" => fu(&(pu(a[1]) + u128::from_str_radix(a[2], 16).unwrap())),
        "usub" => fu(&(&pu(a[1]) - &pu(a[2]))),
        "usub_rv" => fu(&(&pu(a[1]) - pu(a[2]))),
        "usub_assign" => { let mut x = pu(a[1]); x -= &pu(a[2]); fu(&x) }
        "usub_u64" => fu(&(pu(a[1]) - pu64(a[2]))),
        "u64_sub_u" => fu(&(pu64(a[1]) - pu(a[2]))),
        "uchecked_sub" => opt(pu(a[1]).checked_sub(&pu(a[2])), fu),
        "umul" => fu(&(&pu(a[1]) * &pu(a[2]))),
        "umul_vv" => fu(&(pu(a[1]) * pu(a[2]))),
        "umul_vr" => fu(&(pu(a[1]) * &pu(a[2]))),
        "umul_rv" => fu(&(&pu(a[1]) * pu(a[2]))),
        "umul_assign" => { let mut x = pu(a[1]); x *= &pu(a[2]); fu(&x) }
        "umul_assign_v" => { let mut x = pu(a[1]); x *= pu(a[2]); fu(&x) }
        "udiv_vv" => fu(&(pu(a[1]) / pu(a[2]))),
        "udiv_assign" => { let mut x = pu(a[1]); x /= &pu(a[2]); fu(&x) }
        "urem_vv" => fu(&(pu(a[1]) % pu(a[2]))),
        "urem_assign" => { let mut x = pu(a[1]); x %= &pu(a[2]); fu(&x) }
        "umul_u64" => fu(&(pu(a[1]) * pu64(a[2]))),
        "udivrem" => { let (q, r) = pu(a[1]).div_rem(&pu(a[2])); format!("{} {}", fu(&q), fu(&r)) }
        "udiv" => fu(&(&pu(a[1]) / &pu(a[2]))),
        "urem" => fu(&(&pu(a[1]) % &pu(a[2]))),
        "udiv_u64" => fu(&(pu(a[1]) / pu64(a[2]))),
        "urem_u64" => fu(&(pu(a[1]) % pu64(a[2]))),
        "u64_div_u" => fu(&(pu64(a[1]) / pu(a[2]))),
        "u64_rem_u" => fu(&(pu64(a[1]) % pu(a[2]))),
        "udiv_ceil" => fu(&pu(a[1]).div_ceil(&pu(a[2]))),
        "uchecked_div" => opt(pu(a[1]).checked_div(&pu(a[2])), fu),
        "uchecked_div_euclid" => opt(pu(a[1]).checked_div_euclid(&pu(a[2])), fu),
        "uchecked_rem_euclid" => opt(pu(a[1]).checked_rem_euclid(&pu(a[2])), fu),
        "uchecked_div_rem_euclid" => opt(pu(a[1]).checked_div_rem_euclid(&pu(a[2])), |p: &(BigUint, BigUint)| format!("{} {}", fu(&p.0), fu(&p.1))),
        // hashing / partial order after different histories (the second operand is rebuilt through a detour that leaves spare capacity)
        "uhash_eq" => { let x = pu(a[1]); let big = BigUint::one() << 300usize; let y = (pu(a[2]) + &big) - &big; format!("{} {:?}", hash_of(&x) == hash_of(&y), x.partial_cmp(&y)) }
        "ihash_eq" => { let x = pi(a[1]); let big = BigInt::one() << 300usize; let y = (pi(a[2]) - &big) + &big; format!("{} {:?}", hash_of(&x) == hash_of(&y), x.partial_cmp(&y)) }
        "udefault" => fu(&BigUint::default()),
        "idefault" => fi(&BigInt::default()),
        "uchecked_add" => opt(num_traits::CheckedAdd::checked_add(&pu(a[1]), &pu(a[2])), fu),
        "uchecked_mul" => opt(num_traits::CheckedMul::checked_mul(&pu(a[1]), &pu(a[2])), fu),
        "ichecked_add" => opt(pi(a[1]).checked_add(&pi(a[2])), fi),
        "ichecked_sub" => opt(pi(a[1]).checked_sub(&pi(a[2])), fi),
        "ichecked_mul" => opt(pi(a[1]).checked_mul(&pi(a[2])), fi),
        "ichecked_add_t" => opt(num_traits::CheckedAdd::checked_add(&pi(a[1]), &pi(a[2])), fi),
        "ichecked_sub_t" => opt(num_traits::CheckedSub::checked_sub(&pi(a[1]), &pi(a[2])), fi),
        "ichecked_mul_t" => opt(num_traits::CheckedMul::checked_mul(&pi(a[1]), &pi(a[2])), fi),
        "usum" => { let v: Vec<BigUint> = a[1..].iter().map(|x| pu(x)).collect(); fu(&v.iter().sum::<BigUint>()) }
        "uproduct" => { let v: Vec<BigUint> = a[1..].iter().map(|x| pu(x)).collect(); fu(&v.iter().product::<BigUint>()) }
        "isum" => { let v: Vec<BigInt> = a[1..].iter().map(|x| pi(x)).collect(); fi(&v.iter().sum::<BigInt>()) }
        "iproduct" => { let v: Vec<BigInt> = a[1..].iter().map(|x| pi(x)).collect(); fi(&v.into_iter().product::<BigInt>()) }
        "ito_bytes_le" => { let (s, b) = pi(a[1]).to_bytes_le(); format!("{:?} {:?}", s, b) }
        "ito_bytes_be" => { let (s, b) = pi(a[1]).to_bytes_be(); format!("{:?} {:?}", s, b) }
        "ifrom_bytes_le" => { let d: Vec<u8> = a[2..].iter().map(|x| u8::from_str_radix(x, 16).unwrap()).collect(); fi(&BigInt::from_bytes_le(sg(a[1]), &d)) }
        "ifrom_bytes_be" => { let d: Vec<u8> = a[2..].iter().map(|x| u8::from_str_radix(x, 16).unwrap()).collect(); fi(&BigInt::from_bytes_be(sg(a[1]), &d)) }
        "ito_u32_digits" => { let (s, d) = pi(a[1]).to_u32_digits(); format!("{:?} {:x?}", s, d) }
        "ito_u64_digits" => { let (s, d) = pi(a[1]).to_u64_digits(); format!("{:?} {:x?}", s, d) }
        "uiter64_nth" => { let x = pu(a[1]); let mut it = x.iter_u64_digits(); let k = pu64(a[2]) as usize; let r = it.nth(k); format!("{:x?} {} {:x?}", r, it.len(), it.next()) }
        "ibits" => format!("{}", pi(a[1]).bits()),
        "iis_even" => format!("{} {}", pi(a[1]).is_even(), pi(a[1]).is_odd()),
        "idivides" => { #[allow(deprecated)] let r = pi(a[1]).divides(&pi(a[2])); format!("{}", r) }
        "iextended_gcd_lcm" => { let (e, l) = pi(a[1]).extended_gcd_lcm(&pi(a[2])); format!("{} {} {} {}", fi(&e.gcd), fi(&e.x), fi(&e.y), fi(&l)) }
        "ucmp" => format!("{:?}", pu(a[1]).cmp(&pu(a[2]))),
        "ueq" => format!("{}", pu(a[1]) == pu(a[2])),
        "umodpow" => fu(&pu(a[1]).modpow(&pu(a[2]), &pu(a[3]))),
        "umodinv" => opt(pu(a[1]).modinv(&pu(a[2])), fu),
        "upow" => fu(&pu(a[1]).pow(pu64(a[2]) as u32)),
        "upow_big" => fu(&Pow::pow(pu(a[1]), &pu(a[2]))),
        "upow_big_rv" => fu(&Pow::pow(&pu(a[1]), pu(a[2]))),
        "upow_big_rr" => fu(&Pow::pow(&pu(a[1]), &pu(a[2]))),
        "ipow_big" => fi(&Pow::pow(pi(a[1]), pu(a[2]))),
        "ipow_big_rv" => fi(&Pow::pow(&pi(a[1]), pu(a[2]))),
        "ipow_u8" => fi(&Pow::pow(pi(a[1]), pu64(a[2]) as u8)),
        "ipow_u128" => fi(&Pow::pow(&pi(a[1]), u128::from_str_radix(a[2], 16).unwrap())),
        "upow_u64" => fu(&Pow::pow(pu(a[1]), pu64(a[2]))),
        "ugcd" => fu(&pu(a[1]).gcd(&pu(a[2]))),
        "ulcm" => fu(&pu(a[1]).lcm(&pu(a[2]))),
        "usqrt" => fu(&pu(a[1]).sqrt()),
        "ucbrt" => fu(&pu(a[1]).cbrt()),
        "unth_root" => fu(&pu(a[1]).nth_root(pu64(a[2]) as u32)),
        "uis_multiple_of" => format!("{}", pu(a[1]).is_multiple_of(&pu(a[2]))),
        "unext_multiple_of" => fu(&pu(a[1]).next_multiple_of(&pu(a[2]))),
        "uprev_multiple_of" => fu(&pu(a[1]).prev_multiple_of(&pu(a[2]))),
        // bits
        "uand" => fu(&(&pu(a[1]) & &pu(a[2]))),
        "uor" => fu(&(&pu(a[1]) | &pu(a[2]))),
        "uxor" => fu(&(&pu(a[1]) ^ &pu(a[2]))),
        "ushl" => fu(&(pu(a[1]) << (pu64(a[2]) as usize))),
        "ushr" => fu(&(pu(a[1]) >> (pu64(a[2]) as usize))),
        "ushl_i32" => fu(&(pu(a[1]) << (pi64(a[2]) as i32))),
        "ubits" => format!("{}", pu(a[1]).bits()),
        "ubit" => format!("{}", pu(a[1]).bit(pu64(a[2]))),
        "uset_bit" => { let mut x = pu(a[1]); x.set_bit(pu64(a[2]), a[3] == "1"); fu(&x) }
        "utrailing_zeros" => format!("{:?}", pu(a[1]).trailing_zeros()),
        "utrailing_ones" => format!("{}", pu(a[1]).trailing_ones()),
        "ucount_ones" => format!("{}", pu(a[1]).count_ones()),
        // conversions
        "uto_u64" => format!("{:?}", pu(a[1]).to_u64()),
        "uto_u128" => format!("{:?}", pu(a[1]).to_u128()),
        "uto_i64" => format!("{:?}", pu(a[1]).to_i64()),
        "uto_u32" => format!("{:?}", pu(a[1]).to_u32()),
        "uto_f64" => format!("{:016x}", pu(a[1]).to_f64().unwrap().to_bits()),
        "uto_f32" => format!("{:08x}", pu(a[1]).to_f32().unwrap().to_bits()),
        "ufrom_f32" => opt(BigUint::from_f32(f32::from_bits(pu64(a[1]) as u32)), fu),
        "ifrom_f32" => opt(BigInt::from_f32(f32::from_bits(pu64(a[1]) as u32)), fi),
        "ufrom_f64" => opt(BigUint::from_f64(f64::from_bits(pu64(a[1]))), fu),
        "ifrom_f64" => opt(BigInt::from_f64(f64::from_bits(pu64(a[1]))), fi),
        "ufrom_u64" => fu(&BigUint::from(pu64(a[1]))),
        "ufrom_u128" => fu(&BigUint::from(u128::from_str_radix(a[1], 16).unwrap())),
        "ito_i64" => format!("{:?}", pi(a[1]).to_i64()),
        "ito_i128" => format!("{:?}", pi(a[1]).to_i128()),
        "ito_u64" => format!("{:?}", pi(a[1]).to_u64()),
        "ito_i8" => format!("{:?}", pi(a[1]).to_i8()),
        "ito_f64" => format!("{:016x}", pi(a[1]).to_f64().unwrap().to_bits()),
        "ifrom_i64" => fi(&BigInt::from(pi64(a[1]))),
        "ifrom_i128" => fi(&BigInt::from(i128::from_str_radix(a[1], 16).unwrap_or_else(|_| -(i128::from_str_radix(&a[1][1..], 16).unwrap())))),
        // text
        "uto_str" => pu(a[1]).to_str_radix(pu64(a[2]) as u32),
        "ito_str" => pi(a[1]).to_str_radix(pu64(a[2]) as u32),
        "uparse_bytes" => { let d: Vec<u8> = a[2..].iter().map(|x| u8::from_str_radix(x, 16).unwrap()).collect(); opt(BigUint::parse_bytes(&d, pu64(a[1]) as u32), fu) }
        "iparse_bytes" => { let d: Vec<u8> = a[2..].iter().map(|x| u8::from_str_radix(x, 16).unwrap()).collect(); opt(BigInt::parse_bytes(&d, pu64(a[1]) as u32), fi) }
        "uparse" => match a[1].trim_matches('"').parse::<BigUint>() { Ok(v) => format!("Ok({})", fu(&v)), Err(_) => "Err".into() },
        "iparse" => match a[1].trim_matches('"').parse::<BigInt>() { Ok(v) => format!("Ok({})", fi(&v)), Err(_) => "Err".into() },
        // one object through a sequence of in-place operations (capacity grows and shrinks), then compared with a freshly built equal value
        "imut" => { let mut x = pi(a[1]); let mut k = 2; while k + 1 < a.len() { let y = pi(a[k + 1]); match a[k] {
                "add" => x += &y, "sub" => x -= &y, "mul" => x *= &y, "div" => x /= &y, "rem" => x %= &y, "and" => x &= &y, "or" => x |= &y, "xor" => x ^= &y,
                "shl" => x <<= y.to_u64().unwrap() as usize, "shr" => x >>= y.to_u64().unwrap() as usize,
                "setbit" => x.set_bit(y.to_u64().unwrap(), true), "clrbit" => x.set_bit(y.to_u64().unwrap(), false),
                "zero" => x.set_zero(), "one" => x.set_one(), "clone_from" => x.clone_from(&y), "neg" => x = -x,
                _ => return "UNKNOWN".into() } k += 2; }
            let fresh = pi(&fi(&x)); format!("{} {} {:?} {}", fi(&x), x == fresh, x.cmp(&fresh), hash_of(&x) == hash_of(&fresh)) }
        "ufrom_str" => match BigUint::from_str_radix(a[1].trim_matches('"'), pu64(a[2]) as u32) { Ok(v) => format!("Ok({})", fu(&v)), Err(_) => "Err".into() },
        "ifrom_str" => match BigInt::from_str_radix(a[1].trim_matches('"'), pu64(a[2]) as u32) { Ok(v) => format!("Ok({})", fi(&v)), Err(_) => "Err".into() },
        "uto_radix_le" => format!("{:?}", pu(a[1]).to_radix_le(pu64(a[2]) as u32)),
        "uto_radix_be" => format!("{:?}", pu(a[1]).to_radix_be(pu64(a[2]) as u32)),
        "ufrom_radix_le" => { let d: Vec<u8> = a[2..].iter().map(|x| u8::from_str_radix(x, 16).unwrap()).collect(); opt(BigUint::from_radix_le(&d, pu64(a[1]) as u32), fu) }
        "ufrom_radix_be" => { let d: Vec<u8> = a[2..].iter().map(|x| u8::from_str_radix(x, 16).unwrap()).collect(); opt(BigUint::from_radix_be(&d, pu64(a[1]) as u32), fu) }
        "ufmt" => match a[2] { "x" => format!("{:x}", pu(a[1])), "X" => format!("{:X}", pu(a[1])), "o" => format!("{:o}", pu(a[1])), "b" => format!("{:b}", pu(a[1])), "#x" => format!("{:#x}", pu(a[1])), "08x" => format!("{:08x}", pu(a[1])), "+" => format!("{:+}", pu(a[1])), _ => format!("{}", pu(a[1])) },
        "ifmt" => match a[2] { "x" => format!("{:x}", pi(a[1])), "X" => format!("{:X}", pi(a[1])), "o" => format!("{:o}", pi(a[1])), "b" => format!("{:b}", pi(a[1])), "#x" => format!("{:#x}", pi(a[1])), "08x" => format!("{:08x}", pi(a[1])), "+" => format!("{:+}", pi(a[1])), _ => format!("{}", pi(a[1])) },
        // bytes / digits
        "uto_bytes_le" => format!("{:?}", pu(a[1]).to_bytes_le()),
        "uto_bytes_be" => format!("{:?}", pu(a[1]).to_bytes_be()),
        "ufrom_bytes_le" => { let d: Vec<u8> = a[1..].iter().map(|x| u8::from_str_radix(x, 16).unwrap()).collect(); fu(&BigUint::from_bytes_le(&d)) }
        "ufrom_bytes_be" => { let d: Vec<u8> = a[1..].iter().map(|x| u8::from_str_radix(x, 16).unwrap()).collect(); fu(&BigUint::from_bytes_be(&d)) }
        "ito_signed_bytes_le" => format!("{:?}", pi(a[1]).to_signed_bytes_le()),
        "ito_signed_bytes_be" => format!("{:?}", pi(a[1]).to_signed_bytes_be()),
        "ifrom_signed_bytes_le" => { let d: Vec<u8> = a[1..].iter().map(|x| u8::from_str_radix(x, 16).unwrap()).collect(); fi(&BigInt::from_signed_bytes_le(&d)) }
        "ifrom_signed_bytes_be" => { let d: Vec<u8> = a[1..].iter().map(|x| u8::from_str_radix(x, 16).unwrap()).collect(); fi(&BigInt::from_signed_bytes_be(&d)) }
        "uto_u64_digits" => format!("{:x?}", pu(a[1]).to_u64_digits()),
        "unew" => { let d: Vec<u32> = a[1..].iter().map(|x| u32::from_str_radix(x, 16).unwrap()).collect(); fu(&BigUint::new(d)) }
        "uassign_from_slice" => { let d: Vec<u32> = a[2..].iter().map(|x| u32::from_str_radix(x, 16).unwrap()).collect(); let mut x = pu(a[1]); x.assign_from_slice(&d); fu(&x) }
        // iterator script: ops string of n (next) b (next_back) l (len) L (last) c (count) tK (nth K)
        "uiter32" => {
            let x = pu(a[1]); let mut it = x.iter_u32_digits(); let mut out = String::new();
            let mut chars = a[2].chars().peekable();
            while let Some(c) = chars.next() {
                match c {
                    'n' => out.push_str(&format!("{:x?};", it.next())),
                    'b' => out.push_str(&format!("{:x?};", it.next_back())),
                    'l' => out.push_str(&format!("{};", it.len())),
                    'L' => { out.push_str(&format!("{:x?};", it.last())); break; }
                    'c' => { out.push_str(&format!("{};", it.count())); break; }
                    't' => { let k = chars.next().unwrap().to_digit(10).unwrap() as usize; out.push_str(&format!("{:x?};", it.nth(k))); }
                    _ => {}
                }
            }
            out
        }
        "uiter64" => {
            let x = pu(a[1]); let mut it = x.iter_u64_digits(); let mut out = String::new();
            let mut chars = a[2].chars().peekable();
            while let Some(c) = chars.next() {
                match c {
                    'n' => out.push_str(&format!("{:x?};", it.next())),
                    'b' => out.push_str(&format!("{:x?};", it.next_back())),
                    'l' => out.push_str(&format!("{};", it.len())),
                    'L' => { out.push_str(&format!("{:x?};", it.last())); break; }
                    'c' => { out.push_str(&format!("{};", it.count())); break; }
                    't' => { let k = chars.next().unwrap().to_digit(10).unwrap() as usize; out.push_str(&format!("{:x?};", it.nth(k))); }
                    _ => {}
                }
            }
            out
        }
        // ---- BigInt
        "iadd" => fi(&(&pi(a[1]) + &pi(a[2]))),
        "iadd_vv" => fi(&(pi(a[1]) + pi(a[2]))),
        "iadd_vr" => fi(&(pi(a[1]) + &pi(a[2]))),
        "iadd_rv" => fi(&(&pi(a[1]) + pi(a[2]))),
        "iadd_assign" => { let mut x = pi(a[1]); x += &pi(a[2]); fi(&x) }
        "iadd_i64" => fi(&(pi(a[1]) + pi64(a[2]))),
        "isub" => fi(&(&pi(a[1]) - &pi(a[2]))),
        "isub_vv" => fi(&(pi(a[1]) - pi(a[2]))),
        "isub_vr" => fi(&(pi(a[1]) - &pi(a[2]))),
        "isub_rv" => fi(&(&pi(a[1]) - pi(a[2]))),
        "isub_assign" => { let mut x = pi(a[1]); x -= &pi(a[2]); fi(&x) }
        "isub_i64" => fi(&(pi(a[1]) - pi64(a[2]))),
        "i64_sub_i" => fi(&(pi64(a[1]) - pi(a[2]))),
        "imul" => fi(&(&pi(a[1]) * &pi(a[2]))),
        "imul_vv" => fi(&(pi(a[1]) * pi(a[2]))),
        "imul_vr" => fi(&(pi(a[1]) * &pi(a[2]))),
        "imul_rv" => fi(&(&pi(a[1]) * pi(a[2]))),
        "imul_assign" => { let mut x = pi(a[1]); x *= &pi(a[2]); fi(&x) }
        "idiv_vv" => fi(&(pi(a[1]) / pi(a[2]))),
        "idiv_assign" => { let mut x = pi(a[1]); x /= &pi(a[2]); fi(&x) }
        "irem_vv" => fi(&(pi(a[1]) % pi(a[2]))),
        "irem_assign" => { let mut x = pi(a[1]); x %= &pi(a[2]); fi(&x) }
        "imul_i64" => fi(&(pi(a[1]) * pi64(a[2]))),
        "ineg" => fi(&(-pi(a[1]))),
        "idivrem" => { let (q, r) = pi(a[1]).div_rem(&pi(a[2])); format!("{} {}", fi(&q), fi(&r)) }
        "idiv" => fi(&(&pi(a[1]) / &pi(a[2]))),
        "irem" => fi(&(&pi(a[1]) % &pi(a[2]))),
        "idiv_i64" => fi(&(pi(a[1]) / pi64(a[2]))),
        "irem_i64" => fi(&(pi(a[1]) % pi64(a[2]))),
        "i64_div_i" => fi(&(pi64(a[1]) / pi(a[2]))),
        "i64_rem_i" => fi(&(pi64(a[1]) % pi(a[2]))),
        "idiv_floor" => fi(&pi(a[1]).div_floor(&pi(a[2]))),
        "imod_floor" => fi(&pi(a[1]).mod_floor(&pi(a[2]))),
        "idiv_mod_floor" => { let (q, r) = pi(a[1]).div_mod_floor(&pi(a[2])); format!("{} {}", fi(&q), fi(&r)) }
        "idiv_ceil" => fi(&pi(a[1]).div_ceil(&pi(a[2]))),
        "idiv_euclid" => fi(&pi(a[1]).div_euclid(&pi(a[2]))),
        "irem_euclid" => fi(&pi(a[1]).rem_euclid(&pi(a[2]))),
        "idiv_rem_euclid" => { let (q, r) = pi(a[1]).div_rem_euclid(&pi(a[2])); format!("{} {}", fi(&q), fi(&r)) }
        "ichecked_div" => opt(pi(a[1]).checked_div(&pi(a[2])), fi),
        "ichecked_div_euclid" => opt(pi(a[1]).checked_div_euclid(&pi(a[2])), fi),
        "ichecked_rem_euclid" => opt(pi(a[1]).checked_rem_euclid(&pi(a[2])), fi),
        "ichecked_div_rem_euclid" => opt(pi(a[1]).checked_div_rem_euclid(&pi(a[2])), |p: &(BigInt, BigInt)| format!("{} {}", fi(&p.0), fi(&p.1))),
        "icmp" => format!("{:?}", pi(a[1]).cmp(&pi(a[2]))),
        "imodpow" => fi(&pi(a[1]).modpow(&pi(a[2]), &pi(a[3]))),
        "imodinv" => opt(pi(a[1]).modinv(&pi(a[2])), fi),
        "ipow" => fi(&pi(a[1]).pow(pu64(a[2]) as u32)),
        "igcd" => fi(&pi(a[1]).gcd(&pi(a[2]))),
        "ilcm" => fi(&pi(a[1]).lcm(&pi(a[2]))),
        "iextended_gcd" => { let e = pi(a[1]).extended_gcd(&pi(a[2])); format!("{} {} {}", fi(&e.gcd), fi(&e.x), fi(&e.y)) }
        "isqrt" => fi(&pi(a[1]).sqrt()),
        "icbrt" => fi(&pi(a[1]).cbrt()),
        "inth_root" => fi(&pi(a[1]).nth_root(pu64(a[2]) as u32)),
        "iis_multiple_of" => format!("{}", pi(a[1]).is_multiple_of(&pi(a[2]))),
        "inext_multiple_of" => fi(&pi(a[1]).next_multiple_of(&pi(a[2]))),
        "iprev_multiple_of" => fi(&pi(a[1]).prev_multiple_of(&pi(a[2]))),
        "iand" => fi(&(&pi(a[1]) & &pi(a[2]))),
        "ior" => fi(&(&pi(a[1]) | &pi(a[2]))),
        "ixor" => fi(&(&pi(a[1]) ^ &pi(a[2]))),
        "iand_assign" => { let mut x = pi(a[1]); x &= &pi(a[2]); fi(&x) }
        "ior_assign" => { let mut x = pi(a[1]); x |= &pi(a[2]); fi(&x) }
        "ixor_assign" => { let mut x = pi(a[1]); x ^= &pi(a[2]); fi(&x) }
        "iand_vr" => fi(&(pi(a[1]) & &pi(a[2]))),
        "ior_vr" => fi(&(pi(a[1]) | &pi(a[2]))),
        "ixor_vr" => fi(&(pi(a[1]) ^ &pi(a[2]))),
        "inot_ref" => fi(&(!&pi(a[1]))),
        "uand_assign" => { let mut x = pu(a[1]); x &= &pu(a[2]); fu(&x) }
        "uor_assign" => { let mut x = pu(a[1]); x |= &pu(a[2]); fu(&x) }
        "uxor_assign" => { let mut x = pu(a[1]); x ^= &pu(a[2]); fu(&x) }
        "inot" => fi(&(!pi(a[1]))),
        "ishl" => fi(&(pi(a[1]) << (pu64(a[2]) as usize))),
        "ishr" => fi(&(pi(a[1]) >> (pu64(a[2]) as usize))),
        "ishr_i32" => fi(&(pi(a[1]) >> (pi64(a[2]) as i32))),
        "ibit" => format!("{}", pi(a[1]).bit(pu64(a[2]))),
        "iset_bit" => { let mut x = pi(a[1]); x.set_bit(pu64(a[2]), a[3] == "1"); fi(&x) }
        "iabs" => fi(&pi(a[1]).abs()),
        // ---- API functions that no other op reaches
        "ufrom_slice" => { let d: Vec<u32> = a[1..].iter().map(|x| u32::from_str_radix(x, 16).unwrap()).collect(); fu(&BigUint::from_slice(&d)) }
        "ifrom_slice" => { let d: Vec<u32> = a[2..].iter().map(|x| u32::from_str_radix(x, 16).unwrap()).collect(); fi(&BigInt::from_slice(sg(a[1]), &d)) }
        "iassign_from_slice" => { let d: Vec<u32> = a[3..].iter().map(|x| u32::from_str_radix(x, 16).unwrap()).collect(); let mut x = pi(a[1]); x.assign_from_slice(sg(a[2]), &d); fi(&x) }
        "inew" => { let d: Vec<u32> = a[2..].iter().map(|x| u32::from_str_radix(x, 16).unwrap()).collect(); fi(&BigInt::new(sg(a[1]), d)) }
        "ugcd_lcm" => { let (g, l) = pu(a[1]).gcd_lcm(&pu(a[2])); format!("{} {}", fu(&g), fu(&l)) }
        "igcd_lcm" => { let (g, l) = pi(a[1]).gcd_lcm(&pi(a[2])); format!("{} {}", fi(&g), fi(&l)) }
        "uincdec" => { let mut x = pu(a[1]); x.inc(); let up = fu(&x); x.dec(); let mut y = pu(a[1]); y.dec(); format!("{} {} {}", up, fu(&x), fu(&y)) }
        "iincdec" => { let mut x = pi(a[1]); x.inc(); let up = fi(&x); x.dec(); let mut y = pi(a[1]); y.dec(); format!("{} {} {}", up, fi(&x), fi(&y)) }
        "utraitbytes" => { use num_traits::{FromBytes, ToBytes}; let x = pu(a[1]); let be = ToBytes::to_be_bytes(&x); let le = ToBytes::to_le_bytes(&x);
            format!("{:?} {:?} {} {}", be, le, fu(&<BigUint as FromBytes>::from_be_bytes(&be)), fu(&<BigUint as FromBytes>::from_le_bytes(&le))) }
        "itraitbytes" => { use num_traits::{FromBytes, ToBytes}; let x = pi(a[1]); let be = ToBytes::to_be_bytes(&x); let le = ToBytes::to_le_bytes(&x);
            format!("{:?} {:?} {} {}", be, le, fi(&<BigInt as FromBytes>::from_be_bytes(&be)), fi(&<BigInt as FromBytes>::from_le_bytes(&le))) }
        // ---- C19: sign / identity helpers
        "signmul" => format!("{:?}", sg(a[1]) * sg(a[2])),
        "signneg" => format!("{:?}", -sg(a[1])),
        "isignprops" => { let x = pi(a[1]); let (s2, m2) = x.clone().into_parts();
            format!("{:?} {} {} {} {:?} {} {}", x.sign(), x.is_positive(), x.is_negative(), fu(x.magnitude()), s2, fu(&m2), fi(&BigInt::from_biguint(s2, m2.clone()))) }
        "ineg_ref" => { let x = pi(a[1]); format!("{} {}", fi(&(-&x)), fi(&(-(-x)))) }
        "iident" => { let x = pi(a[1]); let mut z = x.clone(); z.set_zero(); let mut o = x.clone(); o.set_one();
            format!("{} {} {} {} {} {} {} {}", fi(&BigInt::zero()), fi(&BigInt::ZERO), fi(&BigInt::default()), fi(&BigInt::one()), x.is_zero(), x.is_one(), fi(&z), fi(&o)) }
        "uident" => { let x = pu(a[1]); let mut z = x.clone(); z.set_zero(); let mut o = x.clone(); o.set_one();
            format!("{} {} {} {} {} {} {} {}", fu(&BigUint::zero()), fu(&BigUint::ZERO), fu(&BigUint::default()), fu(&BigUint::one()), x.is_zero(), x.is_one(), fu(&z), fu(&o)) }
        "iconvs" => { let x = pi(a[1]);
            format!("{} {} {}", opt(num_bigint::ToBigUint::to_biguint(&x), fu), opt(num_bigint::ToBigInt::to_bigint(&x), fi), opt(BigUint::try_from(x.clone()).ok(), fu)) }
        "uconvs" => { let x = pu(a[1]);
            format!("{} {} {}", opt(num_bigint::ToBigInt::to_bigint(&x), fi), fi(&BigInt::from(x.clone())), opt(num_bigint::ToBigUint::to_biguint(&x), fu)) }
        "iabs_sub" => fi(&pi(a[1]).abs_sub(&pi(a[2]))),
        "isignum" => fi(&pi(a[1]).signum()),
        "ito_biguint" => opt(pi(a[1]).to_biguint(), fu),
        "ifrom_biguint" => { let s = match a[1] { "-" => Sign::Minus, "0" => Sign::NoSign, _ => Sign::Plus }; fi(&BigInt::from_biguint(s, pu(a[2]))) }
        // scalar rem-assign into a primitive (D3)
        "i8_rem_assign_u" => { let mut x = pi64(a[1]) as i8; x %= &pu(a[2]); format!("{}", x) }
        "i64_rem_assign_u" => { let mut x = pi64(a[1]); x %= &pu(a[2]); format!("{}", x) }
        "u64_rem_assign_u" => { let mut x = pu64(a[1]); x %= &pu(a[2]); format!("{}", x) }
        "uis_one" => format!("{}", pu(a[1]).is_one()),
        "uone_zero" => format!("{} {} {}", fu(&BigUint::one()), fu(&BigUint::zero()), fu(&BigUint::default())),
        _ => format!("UNKNOWN-OP {}", op),
    }
}

fn main() {
    std::panic::set_hook(Box::new(|_| {}));
    let stdin = io::stdin();
    let out = io::stdout();
    let mut out = out.lock();
    for line in stdin.lock().lines() {
        let line = line.unwrap();
        let parts: Vec<String> = line.split_whitespace().map(|s| s.to_string()).collect();
        if parts.is_empty() { continue; }
        let r = std::panic::catch_unwind(|| { let refs: Vec<&str> = parts.iter().map(|s| s.as_str()).collect(); run(&refs) });
        match r { Ok(s) => writeln!(out, "{}", s).unwrap(), Err(_) => writeln!(out, "PANIC").unwrap() }
    }
}
