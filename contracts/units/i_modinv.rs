//@ unit i_modinv : BigInt::modinv sign/interval placement on top of BigUint::modinv (src/bigint.rs)
#![feature(allocator_api)]
use vstd::prelude::*;
use vstd::std_specs::iter::IteratorSpec;
use vstd::std_specs::ops::*;
use core::ops::{Sub, Neg};
verus! {
//@ include prelude/core.rs
//@ include prelude/std_specs.rs
//@ include prelude/panic.rs
//@ include prelude/gcdspec.rs
//@ include prelude/val32.rs
//@ extract src/bigint.rs :: enum Sign attrs=1
#[derive(/*+*/Structural, /*-*/PartialEq, PartialOrd, Eq, Ord, Copy, Clone, Debug, Hash)]
pub enum Sign {
    Minus,
    NoSign,
    Plus,
}
//@ end
pub mod u {
use super::*;
use Sign::*;

//@ extract src/biguint.rs :: struct BigUint
pub struct BigUint {
    data: Vec<BigDigit>,
}
//@ end
//@ include prelude/biguint_view.rs

/// x is an inverse of a modulo m:  a*x = 1 + k*m for some integer k
pub open spec fn is_modinv(a: int, m: int, x: int) -> bool { exists|k: int| a * x == 1 + #[trigger] (k * m) }

impl BigUint {
//@ extract src/biguint.rs :: impl BigUint :: const ZERO rules=R9,R13 label=BigUint_ZERO
    exec const ZERO: Self /*+*/ensures Self::ZERO.data@.len() == 0 /*-*/{ BigUint { data: Vec::new() } }
//@ end
//@ stub u_core/is_zero
//@ stub u_modinv/modinv
}
impl SubSpecImpl<BigUint> for &BigUint {
    open spec fn obeys_sub_spec() -> bool { false }
    open spec fn sub_req(self, rhs: BigUint) -> bool { self.wf() && rhs.wf() && (!mp() ==> self.v() >= rhs.v()) }
    open spec fn sub_spec(self, rhs: BigUint) -> BigUint { arbitrary() }
}
impl Sub<BigUint> for &BigUint {
    type Output = BigUint;
//@ stub u_addsub/sub_ref_val
}

//@ extract src/bigint.rs :: struct BigInt
pub struct BigInt {
    sign: Sign,
    data: BigUint,
}
//@ end
//@ include prelude/bigint_view.rs
//@ include prelude/bigint_core_stubs.rs

pub proof fn lemma_modinv_signs(aa: nat, mm: nat, r: nat)
    requires mm >= 1, r < mm, is_modinv(aa as int, mm as int, r as int)
    ensures
        is_modinv(-(aa as int), mm as int, mm - r),
        is_modinv(aa as int, -(mm as int), -(mm - r)),
        is_modinv(-(aa as int), -(mm as int), -(r as int)),
        is_modinv(aa as int, mm as int, r as int),
        r == 0 ==> mm == 1,
{
    let a = aa as int; let m = mm as int; let x = r as int;
    let k = choose|k: int| a * x == 1 + #[trigger] (k * m);
    assert((-a) * (m - x) == 1 + (k - a) * m) by (nonlinear_arith) requires a * x == 1 + k * m;
    assert(a * (-(m - x)) == 1 + (a - k) * (-m)) by (nonlinear_arith) requires a * x == 1 + k * m;
    assert((-a) * (-x) == 1 + (-k) * (-m)) by (nonlinear_arith) requires a * x == 1 + k * m;
    if r == 0 {
        assert(a * 0 == 0) by (nonlinear_arith);
        assert(k * m == -1);
        assert(m == 1) by (nonlinear_arith) requires k * m == -1, m >= 1;
    }
    lemma_modinv_zero(a, m);
}

/// modulo +-1 every x is an inverse; in particular 0
pub proof fn lemma_modinv_zero(a: int, m: int)
    ensures (m == 1 || m == -1) ==> is_modinv(a, m, 0)
{
    if m == 1 { assert(a * 0 == 1 + (-1) * 1) by (nonlinear_arith); assert(a * 0 == 1 + #[trigger] ((-1int) * m)); }
    if m == -1 { assert(a * 0 == 1 + 1 * (-1)) by (nonlinear_arith); assert(a * 0 == 1 + #[trigger] ((1int) * m)); }
}

impl BigInt {
//@ extract src/bigint.rs :: impl BigInt :: fn modinv rules=R0,R3d props=C05,C14
    pub fn modinv(&self, modulus: &Self) -> /*+*/(res: /*-*/Option<Self>/*+*/)/*-*/
//+{
        requires self.wfi(), modulus.wfi(), !mp() ==> modulus.iv() != 0
        ensures mp() ==> modulus.iv() != 0,
            res is Some ==> res.unwrap().wfi() && is_modinv(self.iv(), modulus.iv(), res.unwrap().iv())
                && (modulus.iv() > 0 ==> 0 <= res.unwrap().iv() < modulus.iv())
                && (modulus.iv() < 0 ==> modulus.iv() < res.unwrap().iv() <= 0),
            res is Some ==> is_gcd(self.mag().v(), modulus.mag().v(), 1),
            res is None ==> exists|g: nat| g != 1 && is_gcd(self.mag().v(), modulus.mag().v(), g),
//+}
    {
//+{
        proof {
            lemma_sgn_mul(self.sign, self.data.v()); lemma_sgn_mul(modulus.sign, modulus.data.v());
            assert(self.mag().v() == self.data.v() && modulus.mag().v() == modulus.data.v());
        }
//+}
        let result = self.data.modinv(&modulus.data)?;
//+{
        proof {
            lemma_modinv_signs(self.data.v(), modulus.data.v(), result.v());
            lemma_modinv_zero(self.iv(), modulus.iv());
        }
//+}
        if result.is_zero() {
            return Some(Self::ZERO);
        }
        // The sign of the result follows the modulus, like `mod_floor`.
        let (sign, mag) = match (self.is_negative(), modulus.is_negative()) {
            (false, false) => (Plus, result),
            (true, false) => (Plus, Sub::sub(&modulus.data, result)),
            (false, true) => (Minus, Sub::sub(&modulus.data, result)),
            (true, true) => (Minus, result),
        };
//+{
        proof { lemma_sgn_mul(sign, mag.v()); }
//+}
        Some(BigInt::from_biguint(sign, mag))
    }
//@ end
}

/// r is b^e reduced modulo m: r = b^e + k*m for some integer k
pub open spec fn is_modpow(b: int, e: nat, m: int, r: int) -> bool { exists|k: int| r == vstd::arithmetic::power::pow(b, e) + #[trigger] (k * m) }

impl BigUint {
//@ stub u_modpow/BigUint_modpow
//@ stub u_modpow/is_odd
}

impl BigInt {
    // re-homed `Integer::is_odd for BigInt` (src/bigint.rs): `self.data.is_odd()`
//@ extract src/bigint.rs :: impl Integer for BigInt :: fn is_odd props=C13 label=bigint_is_odd
    fn is_odd(&self) -> /*+*/(r: /*-*/bool/*+*/)/*-*/
//+{
        ensures r == (self.mag().v() % 2 == 1)
//+}
    {
        self.data.is_odd()
    }
//@ end
}

pub proof fn lemma_modpow_signs(b: nat, e: nat, m: nat, r: nat, neg: bool)
    requires m >= 1, r < m, is_modpow(b as int, e, m as int, r as int), neg ==> e % 2 == 1
    ensures
        // base sign: (-b)^e = -(b^e) for odd e, b^e for even e
        !neg ==> is_modpow(b as int, e, m as int, r as int) && is_modpow(b as int, e, -(m as int), -((m - r) as int)) && is_modpow(b as int, e, -(m as int), r as int),
        neg ==> is_modpow(-(b as int), e, m as int, (m - r) as int) && is_modpow(-(b as int), e, -(m as int), -(r as int)),
{
    let bi = b as int; let mi = m as int; let ri = r as int;
    let k = choose|k: int| ri == vstd::arithmetic::power::pow(bi, e) + #[trigger] (k * mi);
    let p = vstd::arithmetic::power::pow(bi, e);
    if !neg {
        assert(-((m - r) as int) == p + (1 - k) * (-mi)) by (nonlinear_arith) requires ri == p + k * mi, mi == m as int, ri == r as int, r < m;
        assert(ri == p + (-k) * (-mi)) by (nonlinear_arith) requires ri == p + k * mi;
        assert(-((m - r) as int) == p + #[trigger] ((1 - k) * (-mi)));
        assert(ri == p + #[trigger] ((-k) * (-mi)));
    } else {
        lemma_pow_neg_odd(bi, e);
        let pn = vstd::arithmetic::power::pow(-bi, e);
        assert(pn == -p);
        assert(((m - r) as int) == pn + (1 - k) * mi) by (nonlinear_arith) requires ri == p + k * mi, pn == -p, mi == m as int, ri == r as int, r < m;
        assert(-ri == pn + k * (-mi)) by (nonlinear_arith) requires ri == p + k * mi, pn == -p;
        assert(((m - r) as int) == pn + #[trigger] ((1 - k) * mi));
        assert(-ri == pn + #[trigger] (k * (-mi)));
    }
}

/// (-b)^e == -(b^e) for odd e
pub proof fn lemma_pow_neg_odd(b: int, e: nat)
    requires e % 2 == 1
    ensures vstd::arithmetic::power::pow(-b, e) == -vstd::arithmetic::power::pow(b, e)
    decreases e
{
    use vstd::arithmetic::power::*;
    if e == 1 {
        lemma_pow1(b); lemma_pow1(-b);
    } else {
        lemma_pow_neg_odd(b, (e - 2) as nat);
        lemma_pow_adds(b, 2, (e - 2) as nat);
        lemma_pow_adds(-b, 2, (e - 2) as nat);
        lemma_pow_adds(b, 1, 1); lemma_pow_adds(-b, 1, 1); lemma_pow1(b); lemma_pow1(-b);
        assert((-b) * (-b) == b * b) by (nonlinear_arith);
        let q = pow(b, (e - 2) as nat);
        assert((b * b) * (-q) == -((b * b) * q)) by (nonlinear_arith);
    }
}

//@ extract src/bigint/power.rs :: fn modpow rules=R0,R11,R3d props=C05,C14 label=bigint_modpow
pub(super) fn modpow(x: &BigInt, exponent: &BigInt, modulus: &BigInt) -> /*+*/(res: /*-*/BigInt/*+*/)/*-*/
//+{
    requires x.wfi(), exponent.wfi(), modulus.wfi(), !mp() ==> exponent.iv() >= 0 && modulus.iv() != 0
    ensures mp() ==> exponent.iv() >= 0 && modulus.iv() != 0, res.wfi(),
        is_modpow(x.iv(), exponent.mag().v(), modulus.iv(), res.iv()),
        modulus.iv() > 0 ==> 0 <= res.iv() < modulus.iv(),
        modulus.iv() < 0 ==> modulus.iv() < res.iv() <= 0,
//+}
{
//+{
    proof { lemma_sgn_mul(x.sign, x.data.v()); lemma_sgn_mul(modulus.sign, modulus.data.v()); lemma_sgn_mul(exponent.sign, exponent.data.v()); }
//+}
    __assert(
        !exponent.is_negative()
    );
    __assert(
        !modulus.is_zero()
    );

    let result = x.data.modpow(&exponent.data, &modulus.data);
//+{
    proof {
        lemma_modpow_signs(x.data.v(), exponent.data.v(), modulus.data.v(), result.v(), x.iv() < 0 && exponent.data.v() % 2 == 1);
        if result.v() == 0 && x.iv() < 0 && exponent.data.v() % 2 == 0 { lemma_pow_neg_even(x.data.v() as int, exponent.data.v()); }
        if x.iv() < 0 && exponent.data.v() % 2 == 0 { lemma_pow_neg_even(x.data.v() as int, exponent.data.v()); }
    }
//+}
    if result.is_zero() {
//+{
        proof { lemma_modpow_zero(x.iv(), x.data.v(), exponent.data.v(), modulus.iv(), modulus.data.v()); }
//+}
        return BigInt::ZERO;
    }

    // The sign of the result follows the modulus, like `mod_floor`.
    let (sign, mag) = match (x.is_negative() && exponent.is_odd(), modulus.is_negative()) {
        (false, false) => (Plus, result),
        (true, false) => (Plus, Sub::sub(&modulus.data, result)),
        (false, true) => (Minus, Sub::sub(&modulus.data, result)),
        (true, true) => (Minus, result),
    };
//+{
    proof { lemma_sgn_mul(sign, mag.v()); }
//+}
    BigInt::from_biguint(sign, mag)
}
//@ end

/// (-b)^e == b^e for even e
pub proof fn lemma_pow_neg_even(b: int, e: nat)
    requires e % 2 == 0
    ensures vstd::arithmetic::power::pow(-b, e) == vstd::arithmetic::power::pow(b, e)
    decreases e
{
    use vstd::arithmetic::power::*;
    if e == 0 { lemma_pow0(b); lemma_pow0(-b); }
    else {
        lemma_pow_neg_even(b, (e - 2) as nat);
        lemma_pow_adds(b, 2, (e - 2) as nat);
        lemma_pow_adds(-b, 2, (e - 2) as nat);
        lemma_pow_adds(b, 1, 1); lemma_pow_adds(-b, 1, 1); lemma_pow1(b); lemma_pow1(-b);
        assert((-b) * (-b) == b * b) by (nonlinear_arith);
    }
}

/// a zero unsigned residue is a zero signed residue for every sign combination
pub proof fn lemma_modpow_zero(x: int, xa: nat, e: nat, m: int, ma: nat)
    requires ma >= 1, is_modpow(xa as int, e, ma as int, 0), (x == xa as int || x == -(xa as int)), (m == ma as int || m == -(ma as int))
    ensures is_modpow(x, e, m, 0)
{
    let p = vstd::arithmetic::power::pow(xa as int, e);
    let k = choose|k: int| 0 == p + #[trigger] (k * (ma as int));
    let px = vstd::arithmetic::power::pow(x, e);
    if x == -(xa as int) && x != xa as int {
        if e % 2 == 1 { lemma_pow_neg_odd(xa as int, e); } else { lemma_pow_neg_even(xa as int, e); }
    }
    // px == p or px == -p
    if px == p {
        if m == ma as int { assert(0 == px + #[trigger] (k * m)); }
        else { assert(0 == px + (-k) * m) by (nonlinear_arith) requires 0 == p + k * (ma as int), m == -(ma as int), px == p; assert(0 == px + #[trigger] ((-k) * m)); }
    } else {
        if m == ma as int { assert(0 == px + (-k) * m) by (nonlinear_arith) requires 0 == p + k * (ma as int), m == ma as int, px == -p; assert(0 == px + #[trigger] ((-k) * m)); }
        else { assert(0 == px + k * m) by (nonlinear_arith) requires 0 == p + k * (ma as int), m == -(ma as int), px == -p; assert(0 == px + #[trigger] (k * m)); }
    }
}


impl BigInt {
//@ extract src/bigint.rs :: impl BigInt :: fn modpow rules=R0,R0r props=C05,C14 label=BigInt_modpow
    pub fn modpow(&self, exponent: &Self, modulus: &Self) -> /*+*/(res: /*-*/Self/*+*/)/*-*/
//+{
        requires self.wfi(), exponent.wfi(), modulus.wfi(), !mp() ==> exponent.iv() >= 0 && modulus.iv() != 0
        ensures mp() ==> exponent.iv() >= 0 && modulus.iv() != 0, res.wfi(),
            is_modpow(self.iv(), exponent.mag().v(), modulus.iv(), res.iv()),
            modulus.iv() > 0 ==> 0 <= res.iv() < modulus.iv(),
            modulus.iv() < 0 ==> modulus.iv() < res.iv() <= 0,
//+}
    {
        modpow(self, exponent, modulus)
    }
//@ end
}

} // mod u
} // verus!
fn main() {}
