// Value semantics of the named IEEE operations used by to_f64 / to_f32 (include after floatmodel.rs, highbits.rs, rne.rs).
/// x (of bit length l) rounded to p significant bits, ties to even
pub open spec fn rne_sig(x: nat, p: nat, l: nat) -> nat { if l <= p { x } else { rne_shift(x, (l - p) as nat) } }
/// bit length of the value of a canonical digit sequence
pub open spec fn blen(s: Seq<u64>) -> nat { if s.len() == 0 { 0 } else { (64 * (s.len() - 1) + nbits(s[s.len() - 1])) as nat } }

//@ assume ieee_cast_u64_f64 : IEEE 754 conversion `m as f64`: finite, round to nearest with ties to even at 53 significant bits
#[verifier::external_body]
pub proof fn axiom_fcast64(m: u64)
    ensures fcast64(m).finite(), fcast64(m).integral(), fcast64(m).ival() == rne_sig(m as nat, 53, nbits(m) as nat)
{ }
//@ assume ieee_mul_pow2_f64 : IEEE 754 product of a finite whole f64 a >= 1 with 2.0f64.powi(e), e >= 0 (from 2^1024 on the power is +infinity): exact below 2^1024, +infinity otherwise; a == 0 with e < 1024 gives 0
#[verifier::external_body]
pub proof fn axiom_fmul_pow2_64(a: MF64, e: i32)
    requires a.finite(), a.integral(), a.ival() >= 0, 0 <= e, a.ival() > 0 || e < 1024
    ensures ({
        let r = fmul64(a, fpow2_64(e));
        let y = a.ival() * (vstd::arithmetic::power2::pow2(e as nat) as int);
        if y < vstd::arithmetic::power2::pow2(1024) as int { r.finite() && r.integral() && r.ival() == y } else { !r.finite() }
    })
{ }
//@ assume ieee_infinity_f64 : f64::INFINITY is not finite
#[verifier::external_body]
pub proof fn axiom_finf64()
    ensures !finf64().finite()
{ }
//@ assume ieee_neg_f64 : IEEE 754 negation: exact; finite / whole are preserved
#[verifier::external_body]
pub proof fn axiom_fneg64(a: MF64)
    ensures fneg64(a).finite() == a.finite(), fneg64(a).integral() == a.integral(), fneg64(a).ival() == -a.ival()
{ }

impl MF32 {
    pub uninterp spec fn finite(self) -> bool;
    pub uninterp spec fn integral(self) -> bool;
    pub uninterp spec fn ival(self) -> int;
}
//@ assume ieee_cast_u64_f32 : IEEE 754 conversion `m as f32`: finite, round to nearest with ties to even at 24 significant bits
#[verifier::external_body]
pub proof fn axiom_fcast32(m: u64)
    ensures fcast32(m).finite(), fcast32(m).integral(), fcast32(m).ival() == rne_sig(m as nat, 24, nbits(m) as nat)
{ }
//@ assume ieee_mul_pow2_f32 : IEEE 754 product of a finite whole f32 a >= 1 with 2.0f32.powi(e), e >= 0 (from 2^128 on the power is +infinity): exact below 2^128, +infinity otherwise; a == 0 with e < 128 gives 0
#[verifier::external_body]
pub proof fn axiom_fmul_pow2_32(a: MF32, e: i32)
    requires a.finite(), a.integral(), a.ival() >= 0, 0 <= e, a.ival() > 0 || e < 128
    ensures ({
        let r = fmul32(a, fpow2_32(e));
        let y = a.ival() * (vstd::arithmetic::power2::pow2(e as nat) as int);
        if y < vstd::arithmetic::power2::pow2(128) as int { r.finite() && r.integral() && r.ival() == y } else { !r.finite() }
    })
{ }
//@ assume ieee_infinity_f32 : f32::INFINITY is not finite
#[verifier::external_body]
pub proof fn axiom_finf32()
    ensures !finf32().finite()
{ }
//@ assume ieee_neg_f32 : IEEE 754 negation: exact; finite / whole are preserved
#[verifier::external_body]
pub proof fn axiom_fneg32(a: MF32)
    ensures fneg32(a).finite() == a.finite(), fneg32(a).integral() == a.integral(), fneg32(a).ival() == -a.ival()
{ }
/// the float a big value converts to: correctly rounded to p significant bits, infinite from 2^maxexp on
pub open spec fn f_rounds_to(finite: bool, integral: bool, ival: int, x: nat, l: nat, p: nat, maxexp: nat) -> bool {
    let y = rne_sig(x, p, l);
    if y < vstd::arithmetic::power2::pow2(maxexp) { finite && integral && ival == y as int } else { !finite }
}
