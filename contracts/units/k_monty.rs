//@ unit k_monty : Montgomery kernels: word helpers, add_mul_vvw, sub_vv, inv_mod_alt, montgomery (src/biguint/monty.rs)
#![feature(allocator_api)]
use vstd::prelude::*;
use vstd::std_specs::iter::IteratorSpec;
use vstd::arithmetic::power::pow;
verus! {
//@ include prelude/core.rs
//@ include prelude/std_specs.rs
//@ include prelude/panic.rs
//@ include prelude/highbits.rs
//@ include prelude/bitval.rs
//@ include prelude/congm.rs
pub mod u {
use super::*;

pub mod big_digit {
    use vstd::prelude::*;
    pub type BigDigit = u64;
    pub type DoubleBigDigit = u128;
//@ extract src/lib.rs :: mod big_digit :: const BITS
    pub(crate) const BITS: u8 = BigDigit::BITS as u8;
//@ end
}

//@ extract src/biguint.rs :: struct BigUint
pub struct BigUint {
    data: Vec<BigDigit>,
}
//@ end
//@ include prelude/biguint_view.rs


pub open spec fn BI() -> int { 0x1_0000_0000_0000_0000int }

/// an even number to the 64th power (and beyond) vanishes modulo 2^64
pub proof fn lemma_even_pow_vanishes(e: int, k: nat)
    requires e % 2 == 0, e >= 0, k >= 64
    ensures pow(e, k) % BI() == 0
{
    let f = e / 2;
    assert(e == 2 * f);
    vstd::arithmetic::power::lemma_pow_distributes(2, f, k);
    vstd::arithmetic::power::lemma_pow_adds(2, 64, (k - 64) as nat);
    vstd::arithmetic::power2::lemma_pow2(64);
    vstd::arithmetic::power2::lemma2_to64();
    let rest = pow(2, (k - 64) as nat) * pow(f, k);
    assert(pow(e, k) == BI() * rest) by (nonlinear_arith)
        requires pow(e, k) == pow(2, k) * pow(f, k), pow(2, k) == pow(2, 64) * pow(2, (k - 64) as nat), pow(2, 64) == BI(), rest == pow(2, (k - 64) as nat) * pow(f, k);
    vstd::arithmetic::div_mod::lemma_mod_multiples_basic(rest, BI());
    assert(BI() * rest == rest * BI()) by (nonlinear_arith);
}

/// one doubling step of the Newton-Hensel inverse: (1 - x)(1 + x) == 1 - x^2 modulo B
pub proof fn lemma_inv_step(k0: int, b: int, x: int, t2: int, k1: int)
    requires (k0 * b) % BI() == (1 - x) % BI(), t2 % BI() == x % BI(), k1 % BI() == (k0 * (t2 + 1)) % BI()
    ensures (k1 * b) % BI() == (1 - x * x) % BI()
{
    let m = BI();
    vstd::arithmetic::div_mod::lemma_mul_mod_noop_general(k1, b, m);
    vstd::arithmetic::div_mod::lemma_mul_mod_noop_general(k0 * (t2 + 1), b, m);
    assert((k0 * (t2 + 1)) * b == (k0 * b) * (t2 + 1)) by (nonlinear_arith);
    vstd::arithmetic::div_mod::lemma_mul_mod_noop_general(k0 * b, t2 + 1, m);
    vstd::arithmetic::div_mod::lemma_add_mod_noop(t2, 1, m);
    vstd::arithmetic::div_mod::lemma_add_mod_noop(x, 1, m);
    vstd::arithmetic::div_mod::lemma_mul_mod_noop_general(1 - x, t2 + 1, m);
    vstd::arithmetic::div_mod::lemma_mul_mod_noop_general(1 - x, x + 1, m);
    assert((1 - x) * (x + 1) == 1 - x * x) by (nonlinear_arith);
}

//@ extract src/biguint/monty.rs :: fn inv_mod_alt rules=R0,R11g,R14e props=C05
fn inv_mod_alt(b: BigDigit) -> /*+*/(r: /*-*/BigDigit/*+*/)/*-*/
//+{
    requires !mp() ==> b % 2 == 1
    ensures mp() ==> b % 2 == 1, ((r as int) * (b as int) + 1) % BI() == 0
//+}
{
//+{
    proof { assert((b & 1 != 0) == (b % 2 == 1)) by (bit_vector); }
//+}
    __assert(b & 1 != 0);

    let mut k0 = BigDigit::wrapping_sub(2, b);
    let mut t = b - 1;
    let mut i = 1;
//+{
    let ghost e = (b - 1) as int;
    proof {
        vstd::arithmetic::power::lemma_pow1(e);
        vstd::arithmetic::power::lemma_pow_adds(e, 1, 1);
        // k0 * b == (1 - e)(1 + e) == 1 - e^2 modulo B
        vstd::arithmetic::div_mod::lemma_mul_mod_noop_general(k0 as int, b as int, BI());
        vstd::arithmetic::div_mod::lemma_mul_mod_noop_general(2 - (b as int), b as int, BI());
        assert((2 - (b as int)) * (b as int) == 1 - e * e) by (nonlinear_arith) requires e == (b as int) - 1;
        vstd::arithmetic::div_mod::lemma_small_mod(t as nat, BI() as nat);
    }
//+}
    while i < big_digit::BITS
//+{
        invariant
            e == (b - 1) as int, e % 2 == 0, e >= 0, 1 <= i <= 64, i == 1 || i == 2 || i == 4 || i == 8 || i == 16 || i == 32 || i == 64,
            (t as int) % BI() == pow(e, i as nat) % BI(),
            ((k0 as int) * (b as int)) % BI() == (1 - pow(e, 2 * (i as nat))) % BI(),
            t % 2 == 0,
        decreases 64 - i
//+}
    {
//+{
        let ghost t0 = t; let ghost k00 = k0; let ghost x = pow(e, 2 * (i as nat)); let ghost i0 = i;
        proof {
            vstd::arithmetic::power::lemma_pow_adds(e, i as nat, i as nat);
            vstd::arithmetic::div_mod::lemma_mul_mod_noop_general(t0 as int, t0 as int, BI());
            vstd::arithmetic::div_mod::lemma_mul_mod_noop_general(pow(e, i as nat), pow(e, i as nat), BI());
        }
//+}
        t = t.wrapping_mul(t);
//+{
        proof {
            // t stays even, so t + 1 cannot overflow
            assert(t as int == ((t0 as int) * (t0 as int)) % BI());
            let h = (t0 as int) / 2;
            assert((t0 as int) * (t0 as int) == 2 * (2 * h * h)) by (nonlinear_arith) requires t0 as int == 2 * h;
            vstd::arithmetic::div_mod::lemma_mod_mod((t0 as int) * (t0 as int), 2, 0x8000_0000_0000_0000);
            vstd::arithmetic::div_mod::lemma_mod_multiples_basic(2 * h * h, 2);
            assert(2 * (2 * h * h) == (2 * h * h) * 2);
            assert(t % 2 == 0);
            vstd::arithmetic::div_mod::lemma_mod_twice((t0 as int) * (t0 as int), BI());
            assert((t as int) % BI() == x % BI());
        }
//+}
        k0 = k0.wrapping_mul(t + 1);

        i <<= 1;
//+{
        proof {
            vstd::arithmetic::div_mod::lemma_mod_twice((k00 as int) * ((t as int) + 1), BI());
            lemma_inv_step(k00 as int, b as int, x, t as int, k0 as int);
            assert(i0 <= 64 ==> (i0 << 1u8) == 2 * i0) by (bit_vector);
            vstd::arithmetic::power::lemma_pow_adds(e, 2 * (i0 as nat), 2 * (i0 as nat));
            assert(2 * (i as nat) == 2 * (i0 as nat) + 2 * (i0 as nat));
        }
//+}
    }
//+{
    proof {
        lemma_even_pow_vanishes(e, 128);
        // k0 * b == 1 modulo B, hence (-k0) * b + 1 == 0
        let kb = (k0 as int) * (b as int);
        vstd::arithmetic::div_mod::lemma_sub_mod_noop(1, pow(e, 128), BI());
        vstd::arithmetic::div_mod::lemma_small_mod(1, BI() as nat);
        assert(kb % BI() == 1);
    }
//+}
    /*+*/let r = /*-*/k0.wrapping_neg()/*+*/;
    proof {
        let kb = (k0 as int) * (b as int);
        if k0 == 0 { assert(kb == 0) by (nonlinear_arith) requires k0 == 0, kb == (k0 as int) * (b as int); assert(false); }
        assert((r as int) * (b as int) + 1 == BI() * (b as int) - kb + 1) by (nonlinear_arith) requires r as int == BI() - (k0 as int), kb == (k0 as int) * (b as int);
        vstd::arithmetic::div_mod::lemma_fundamental_div_mod(kb, BI());
        let q = kb / BI();
        assert(BI() * (b as int) - kb + 1 == BI() * ((b as int) - q)) by (nonlinear_arith) requires kb == BI() * q + 1;
        vstd::arithmetic::div_mod::lemma_mod_multiples_basic((b as int) - q, BI());
        assert(BI() * ((b as int) - q) == ((b as int) - q) * BI()) by (nonlinear_arith);
    }
    r/*-*/
}
//@ end



/// changing only the digits in [i, i+n) changes the value by B^i times the change of that window
pub proof fn lemma_val_window(w: Seq<u64>, w2: Seq<u64>, i: nat, n: nat)
    requires w.len() == w2.len(), i + n <= w.len(), forall|j: int| 0 <= j < w.len() && !(i <= j < i + n) ==> w[j] == w2[j]
    ensures val(w2) + pw(i) * val(w.subrange(i as int, (i + n) as int)) == val(w) + pw(i) * val(w2.subrange(i as int, (i + n) as int))
{
    let l = w.len();
    let lo = w.subrange(0, i as int); let mid = w.subrange(i as int, (i + n) as int); let hi = w.subrange((i + n) as int, l as int);
    let mid2 = w2.subrange(i as int, (i + n) as int);
    assert(w =~= (lo + mid) + hi);
    assert(w2 =~= (lo + mid2) + hi);
    lemma_val_concat(lo + mid, hi); lemma_val_concat(lo + mid2, hi);
    lemma_val_concat(lo, mid); lemma_val_concat(lo, mid2);
}

pub proof fn lemma_val_low_digit(s: Seq<u64>)
    requires s.len() >= 1
    ensures val(s) % B() == s[0] as nat
{
    lemma_digit_split(s, 0);
    assert(pw(0) * ((s[0] as nat) + B() * val(s.subrange(1, s.len() as int))) == (s[0] as nat) + B() * val(s.subrange(1, s.len() as int))) by (nonlinear_arith) requires pw(0) == 1;
    let h = val(s.subrange(1, s.len() as int));
    vstd::arithmetic::div_mod::lemma_mod_multiples_vanish(h as int, s[0] as int, B() as int);
    vstd::arithmetic::div_mod::lemma_small_mod(s[0] as nat, B());
    assert(B() * h == h * B()) by (nonlinear_arith);
}

/// the Montgomery multiplier t = z0 * k makes the low digit vanish: (z0 + m0 * t) % B == 0 when k * m0 == -1 (mod B)
pub proof fn lemma_monty_low(z0: u64, m0: u64, k: u64, t: u64)
    requires ((k as int) * (m0 as int) + 1) % BI() == 0, t as int == ((z0 as int) * (k as int)) % BI()
    ensures ((z0 as int) + (m0 as int) * (t as int)) % BI() == 0
{
    let m = BI();
    // m0 * t == m0 * z0 * k == z0 * (k*m0) == -z0 (mod B)
    vstd::arithmetic::div_mod::lemma_mul_mod_noop_general(m0 as int, (z0 as int) * (k as int), m);
    assert((m0 as int) * ((z0 as int) * (k as int)) == (z0 as int) * ((k as int) * (m0 as int))) by (nonlinear_arith);
    let km = (k as int) * (m0 as int);
    vstd::arithmetic::div_mod::lemma_fundamental_div_mod(km + 1, m);
    let q = (km + 1) / m;
    assert((z0 as int) + (z0 as int) * km == (z0 as int) * q * m) by (nonlinear_arith) requires km + 1 == m * q;
    vstd::arithmetic::div_mod::lemma_mod_multiples_basic((z0 as int) * q, m);
    vstd::arithmetic::div_mod::lemma_add_mod_noop(z0 as int, (m0 as int) * (t as int), m);
    vstd::arithmetic::div_mod::lemma_add_mod_noop(z0 as int, (z0 as int) * km, m);
    vstd::arithmetic::div_mod::lemma_mod_twice((z0 as int) * (k as int), m);
    vstd::arithmetic::div_mod::lemma_mul_mod_noop_general(m0 as int, t as int, m);
}

//@ extract src/biguint/monty.rs :: fn add_ww props=C05
fn add_ww(x: BigDigit, y: BigDigit, c: BigDigit) -> /*+*/(r: /*-*/(BigDigit, BigDigit)/*+*/)/*-*/
//+{
    requires c <= 1
    ensures (r.0 as nat) * B() + (r.1 as nat) == (x as nat) + (y as nat) + (c as nat), r.0 <= 1
//+}
{
    let yc = y.wrapping_add(c);
    let z0 = x.wrapping_add(yc);
    let z1 = if z0 < x || yc < y { 1 } else { 0 };

    (z1, z0)
}
//@ end

//@ extract src/biguint/monty.rs :: fn mul_add_www props=C05
fn mul_add_www(x: BigDigit, y: BigDigit, c: BigDigit) -> /*+*/(r: /*-*/(BigDigit, BigDigit)/*+*/)/*-*/
//+{
    ensures (r.0 as nat) * B() + (r.1 as nat) == (x as nat) * (y as nat) + (c as nat)
//+}
{
//+{
    proof {
        assert((x as nat) * (y as nat) <= 0xffff_ffff_ffff_ffff * 0xffff_ffff_ffff_ffff) by (nonlinear_arith)
            requires (x as nat) <= 0xffff_ffff_ffff_ffff, (y as nat) <= 0xffff_ffff_ffff_ffff;
    }
//+}
    let z = x as DoubleBigDigit * y as DoubleBigDigit + c as DoubleBigDigit;
//+{
    proof {
        assert(((z >> 64u8) as u64) as u128 * 0x1_0000_0000_0000_0000u128 + ((z as u64) as u128) == z) by (bit_vector);
    }
//+}
    ((z >> big_digit::BITS) as BigDigit, z as BigDigit)
}
//@ end

pub proof fn lemma_addmul_step(fz: Seq<u64>, oz: Seq<u64>, xs: Seq<u64>, y: nat, k: nat, c0: nat, c1: nat)
    requires
        k < fz.len(), fz.len() == oz.len(), k < xs.len(),
        valp(fz, k) + c0 * pw(k) == valp(oz, k) + valp(xs, k) * y,
        (fz[k as int] as nat) + c1 * B() == (oz[k as int] as nat) + (xs[k as int] as nat) * y + c0,
    ensures
        valp(fz, k + 1) + c1 * pw(k + 1) == valp(oz, k + 1) + valp(xs, k + 1) * y,
{
    let p = pw(k);
    let f = fz[k as int] as nat; let o = oz[k as int] as nat; let x = xs[k as int] as nat;
    assert(valp(fz, k + 1) == valp(fz, k) + f * p);
    assert(valp(oz, k + 1) == valp(oz, k) + o * p);
    assert(valp(xs, k + 1) == valp(xs, k) + x * p);
    assert(pw(k + 1) == B() * p);
    assert((valp(xs, k) + x * p) * y == valp(xs, k) * y + (x * y) * p) by (nonlinear_arith);
    assert((f + c1 * B()) * p == f * p + c1 * (B() * p)) by (nonlinear_arith);
    assert((o + x * y + c0) * p == o * p + (x * y) * p + c0 * p) by (nonlinear_arith);
}

//@ extract src/biguint/monty.rs :: fn add_mul_vvw rules=R0,R10y2 props=C05
fn add_mul_vvw(z: &mut [BigDigit], x: &[BigDigit], y: BigDigit) -> /*+*/(r: /*-*/BigDigit/*+*/)/*-*/
//+{
    requires old(z).len() == x.len()
    ensures final(z).len() == old(z).len(), val(final(z)@) + (r as nat) * pw(x.len() as nat) == val(old(z)@) + val(x@) * (y as nat)
//+}
{
    let mut c = 0;
//+{
    let ghost oz = old(z)@;
    let ghost xs = x@;
    let ghost n = x.len() as nat;
    proof { assert(0 * pw(0) == 0) by (nonlinear_arith); assert(0 * (y as nat) == 0) by (nonlinear_arith); }
//+}
    { let mut i__ = 0 ; let n__ = Ord::min(z.len(), x.len()) ; while i__ < n__
//+{
        invariant
            z@.len() == n, oz.len() == n, xs.len() == n, xs == x@, n__ == n, i__ <= n,
            forall|j: int| i__ <= j < n ==> z@[j] == oz[j],
            valp(z@, i__ as nat) + (c as nat) * pw(i__ as nat) == valp(oz, i__ as nat) + valp(xs, i__ as nat) * (y as nat),
        decreases n - i__
//+}
    {
//+{
        let ghost prev = z@;
        let ghost k = i__ as nat;
        let ghost c0 = c;
//+}
        let zi = &mut z[i__] ; let xi = &x[i__] ; i__ += 1 ;
        let (z1, z0) = mul_add_www(*xi, y, *zi);
        let (c_, zi_) = add_ww(z0, c, 0);
        *zi = zi_;
//+{
        proof {
            // (c_ + z1) * B + zi_ == x*y + z_old + c0 <= (B-1)^2 + 2(B-1) == B^2 - 1: the new carry fits a digit
            let xv = xs[k as int] as nat; let yv = y as nat; let zv = prev[k as int] as nat;
            assert(xv * yv <= 0xffff_ffff_ffff_ffff * 0xffff_ffff_ffff_ffff) by (nonlinear_arith)
                requires xv <= 0xffff_ffff_ffff_ffff, yv <= 0xffff_ffff_ffff_ffff;
            assert(((c_ as nat) + (z1 as nat)) * B() + (zi_ as nat) == xv * yv + zv + (c0 as nat)) by (nonlinear_arith)
                requires (z1 as nat) * B() + (z0 as nat) == xv * yv + zv, (c_ as nat) * B() + (zi_ as nat) == (z0 as nat) + (c0 as nat) + 0;
            assert((c_ as nat) + (z1 as nat) <= 0xffff_ffff_ffff_ffff) by (nonlinear_arith)
                requires ((c_ as nat) + (z1 as nat)) * B() + (zi_ as nat) <= 0xffff_ffff_ffff_ffff * 0xffff_ffff_ffff_ffff + 0xffff_ffff_ffff_ffff + 0xffff_ffff_ffff_ffff, B() == 0x1_0000_0000_0000_0000nat;
        }
//+}
        c = c_ + z1;
//+{
        proof {
            lemma_valp_ext(prev, z@, k);
            lemma_addmul_step(z@, oz, xs, y as nat, k, c0 as nat, c as nat);
        }
//+}
    }
//+{
    proof { assert(i__ == n); }
//+}
    }

    c
}
//@ end

pub proof fn lemma_subvv_step(fz: Seq<u64>, xs: Seq<u64>, ys: Seq<u64>, k: nat, c0: nat, c1: nat)
    requires
        k < fz.len(), k < xs.len(), k < ys.len(),
        valp(fz, k) + valp(ys, k) == valp(xs, k) + c0 * pw(k),
        (fz[k as int] as nat) + (ys[k as int] as nat) + c0 == (xs[k as int] as nat) + c1 * B(),
    ensures
        valp(fz, k + 1) + valp(ys, k + 1) == valp(xs, k + 1) + c1 * pw(k + 1),
{
    let p = pw(k);
    let f = fz[k as int] as nat; let x = xs[k as int] as nat; let y = ys[k as int] as nat;
    assert(valp(fz, k + 1) == valp(fz, k) + f * p);
    assert(valp(ys, k + 1) == valp(ys, k) + y * p);
    assert(valp(xs, k + 1) == valp(xs, k) + x * p);
    assert(pw(k + 1) == B() * p);
    assert((f + y + c0) * p == f * p + y * p + c0 * p) by (nonlinear_arith);
    assert((x + c1 * B()) * p == x * p + c1 * (B() * p)) by (nonlinear_arith);
}

//@ extract src/biguint/monty.rs :: fn sub_vv rules=R0,R10t,R3bb props=C05
fn sub_vv(z: &mut [BigDigit], x: &[BigDigit], y: &[BigDigit]) -> /*+*/(r: /*-*/BigDigit/*+*/)/*-*/
//+{
    requires old(z).len() == x.len(), x.len() == y.len()
    ensures final(z).len() == old(z).len(), r <= 1, val(final(z)@) + val(y@) == val(x@) + (r as nat) * pw(x.len() as nat)
//+}
{
    let mut c = 0;
//+{
    let ghost xs = x@;
    let ghost ys = y@;
    let ghost n = x.len() as nat;
    proof { assert(0 * pw(0) == 0) by (nonlinear_arith); }
//+}
    { let mut i__ = 0 ; let n__ = Ord::min(Ord::min(x.len(), y.len()), z.len()) ; while i__ < n__
//+{
        invariant
            z@.len() == n, xs.len() == n, ys.len() == n, xs == x@, ys == y@, n__ == n, i__ <= n, c <= 1,
            valp(z@, i__ as nat) + valp(ys, i__ as nat) == valp(xs, i__ as nat) + (c as nat) * pw(i__ as nat),
        decreases n - i__
//+}
    {
//+{
        let ghost prev = z@;
        let ghost k = i__ as nat;
        let ghost c0 = c;
//+}
        let i = i__ ; let xi = &x[i__] ; let yi = &y[i__] ; i__ += 1 ;
        let zi = xi.wrapping_sub(*yi).wrapping_sub(c);
        z[i] = zi;
//+{
        proof {
            let a = *xi; let b = *yi; let cc = c0; let d = zi;
            // zi == (a - b - c0) mod B
            let t1 = a.wrapping_sub(b);
            assert(t1 as int == (if a >= b { a as int - b as int } else { a as int - b as int + 0x1_0000_0000_0000_0000 }));
            assert(d as int == (if t1 >= cc { t1 as int - cc as int } else { t1 as int - cc as int + 0x1_0000_0000_0000_0000 }));
            let sm: u128 = ((d as u128) + (b as u128) + (cc as u128)) as u128;
            assert((sm as int) % 0x1_0000_0000_0000_0000 == a as int);
            assert((sm & 0xffff_ffff_ffff_ffffu128) == sm % 0x1_0000_0000_0000_0000u128) by (bit_vector);
            assert((sm & 0xffff_ffff_ffff_ffffu128) == a as u128);
            assert({
                let nc = ((b & !a) | ((b | !a) & d)) >> 63u8;
                &&& nc <= 1
                &&& (nc == 1) == ((a as u128) < sm - (d as u128))
            }) by (bit_vector)
                requires cc <= 1, sm == (d as u128) + (b as u128) + (cc as u128), (sm & 0xffff_ffff_ffff_ffffu128) == a as u128;
        }
//+}
        c = ((*yi & !*xi) | ((*yi | !*xi) & zi)) >> (big_digit::BITS - 1)/*+*/;
        proof {
            lemma_valp_ext(prev, z@, k);
            lemma_subvv_step(z@, xs, ys, k, c0 as nat, c as nat);
        }/*-*/
    }
//+{
    proof { assert(i__ == n); }
//+}
    }

    c
}
//@ end

impl BigUint {
//@ extract src/biguint.rs :: impl BigUint :: const ZERO rules=R9,R13 label=BigUint_ZERO
    exec const ZERO: Self /*+*/ensures Self::ZERO.data@.len() == 0 /*-*/{ BigUint { data: Vec::new() } }
//@ end
}

/// one row of the Montgomery product: value bookkeeping for z += x*y_i + m*t, then the carry digit at position n+i
pub proof fn lemma_monty_row(v0: nat, v3: nat, pi: nat, pn: nat, xv: nat, yi: nat, mv: nat, t: nat, c: nat, c2: nat, c3: nat, cy: nat, c1: nat,
    w0: nat, w1: nat, w2: nat, lhs: nat, uu: nat, ypre: nat)
    requires
        // window updates
        w1 + c2 * pn == w0 + xv * yi, w2 + c3 * pn == w1 + mv * t,
        // whole vector before / after the two window updates and after storing cy at position n+i (weight pi*pn)
        v3 + pi * w0 == v0 + pi * w2 + cy * (pi * pn),
        c + c2 + c3 == cy + c1 * B(),
        // invariant before
        v0 + c * (pi * pn) == xv * ypre + uu * mv,
    ensures v3 + c1 * (B() * (pi * pn)) == xv * (ypre + yi * pi) + (uu + t * pi) * mv
{
    assert(pi * w2 == pi * w0 + pi * (xv * yi) + pi * (mv * t) - (c2 + c3) * (pi * pn)) by (nonlinear_arith)
        requires w1 + c2 * pn == w0 + xv * yi, w2 + c3 * pn == w1 + mv * t;
    assert((cy + c1 * B()) * (pi * pn) == cy * (pi * pn) + c1 * (B() * (pi * pn))) by (nonlinear_arith);
    assert((c + c2 + c3) * (pi * pn) == c * (pi * pn) + (c2 + c3) * (pi * pn)) by (nonlinear_arith);
    assert(xv * (ypre + yi * pi) == xv * ypre + pi * (xv * yi)) by (nonlinear_arith);
    assert((uu + t * pi) * mv == uu * mv + pi * (mv * t)) by (nonlinear_arith);
}

//@ extract src/biguint/monty.rs :: fn montgomery rules=R0,R11,R7z props=C05,C14
fn montgomery(x: &BigUint, y: &BigUint, m: &BigUint, k: BigDigit, n: usize) -> /*+*/(res: /*-*/BigUint/*+*/)/*-*/
//+{
    requires
        !mp() ==> x.data@.len() == n && y.data@.len() == n && m.data@.len() == n,
        n >= 1, n < 0x200_0000_0000_0000,
        m.data@.len() == n ==> ((k as int) * (m.data@[0] as int) + 1) % BI() == 0,
    ensures
        mp() ==> x.data@.len() == n && y.data@.len() == n && m.data@.len() == n,
        res.data@.len() == n,
        congm((val(res.data@) * pw(n as nat)) as int, (val(x.data@) * val(y.data@)) as int, val(m.data@) as int),
//+}
{
    __assert(x.data.len() == n && y.data.len() == n && m.data.len() == n);

    let mut z = BigUint::ZERO;
    z.data.resize(n * 2, 0);

    let mut c: BigDigit = 0;
//+{
    let ghost xs = x.data@; let ghost ys = y.data@; let ghost ms = m.data@;
    let ghost xv = val(xs); let ghost mv = val(ms);
    let ghost nn = n as nat;
    let ghost uu: nat = 0;
    proof {
        lemma_valp_zeros(z.data@, 2 * nn);
        assert(xv * 0 == 0 && 0 * mv == 0 && 0 * pw(nn) == 0) by (nonlinear_arith);
        lemma_pw_add(nn, 0);
    }
//+}
    for i in /*+*/it: /*-*/0..n
//+{
        invariant
            xs == x.data@, ys == y.data@, ms == m.data@, xs.len() == nn, ys.len() == nn, ms.len() == nn, nn == n, nn >= 1, n < 0x200_0000_0000_0000,
            xv == val(xs), mv == val(ms), ((k as int) * (ms[0] as int) + 1) % BI() == 0,
            z.data@.len() == 2 * nn, c <= 1, it.index@ <= nn, it.seq().len() == nn,
            forall|j: int| 0 <= j < nn ==> it.seq()[j] == j,
            forall|j: int| 0 <= j < it.index@ ==> z.data@[j] == 0,
            forall|j: int| nn + it.index@ <= j < 2 * nn ==> z.data@[j] == 0,
            val(z.data@) + (c as nat) * (pw(it.index@ as nat) * pw(nn)) == xv * valp(ys, it.index@ as nat) + uu * mv,
            uu < pw(it.index@ as nat),
//+}
    {
//+{
        let ghost iv = i as nat;
        let ghost z0 = z.data@;
        let ghost win0 = z0.subrange(i as int, (n + i) as int);
        let ghost c_0 = c;
//+}
        let c2 = add_mul_vvw(&mut z.data.as_mut_slice()[i..n + i], &x.data, y.data[i]);
//+{
        let ghost z1 = z.data@;
        let ghost win1 = z1.subrange(i as int, (n + i) as int);
//+}
        let t = z.data[i].wrapping_mul(k);
        let c3 = add_mul_vvw(&mut z.data.as_mut_slice()[i..n + i], &m.data, t);
//+{
        let ghost z2 = z.data@;
        let ghost win2 = z2.subrange(i as int, (n + i) as int);
//+}
        let cx = c.wrapping_add(c2);
        let cy = cx.wrapping_add(c3);
        z.data[n + i] = cy;
//+{
        let ghost z3 = z.data@;
//+}
        if cx < c2 || cy < c3 {
            c = 1;
        } else {
            c = 0;
        }
//+{
        proof {
            let pi = pw(iv); let pn = pw(nn);
            // the low digit of the window vanishes
            lemma_val_low_digit(win1); lemma_val_low_digit(win2); lemma_val_low_digit(ms);
            lemma_monty_low(win1[0], ms[0], k, t);
            // val(win2) % B == (val(win1) + mv * t) % B == (win1[0] + m0 * t) % B == 0
            vstd::arithmetic::div_mod::lemma_mod_multiples_vanish(-(c3 as int) * ((pw((nn - 1) as nat)) as int), (val(win1) + mv * (t as nat)) as int, BI());
            assert(pw(nn) == B() * pw((nn - 1) as nat));
            assert(val(win2) as int == (-(c3 as int) * (pw((nn - 1) as nat) as int)) * BI() + ((val(win1) + mv * (t as nat)) as int)) by (nonlinear_arith)
                requires val(win2) + (c3 as nat) * pn == val(win1) + mv * (t as nat), pn == B() * pw((nn - 1) as nat), BI() == B() as int;
            vstd::arithmetic::div_mod::lemma_add_mod_noop(val(win1) as int, (mv * (t as nat)) as int, BI());
            vstd::arithmetic::div_mod::lemma_mul_mod_noop_general(mv as int, t as int, BI());
            vstd::arithmetic::div_mod::lemma_add_mod_noop(win1[0] as int, (ms[0] as int) * (t as int), BI());
            vstd::arithmetic::div_mod::lemma_mul_mod_noop_general(ms[0] as int, t as int, BI());
            assert(win2[0] == 0);
            // value bookkeeping
            lemma_val_window(z0, z1, iv, nn);
            lemma_val_window(z1, z2, iv, nn);
            lemma_val_update_(z2, (n + i) as int, cy);
            assert(z3 =~= z2.update((n + i) as int, cy));
            lemma_pw_add(iv, nn);
            assert(0 * pw(nn + iv) == 0) by (nonlinear_arith);
            let c1 = c as nat;
            assert((c_0 as nat) + (c2 as nat) + (c3 as nat) == (cy as nat) + c1 * B());
            assert(valp(ys, iv + 1) == valp(ys, iv) + (ys[i as int] as nat) * pi);
            assert((cy as nat) * pw(nn + iv) == (cy as nat) * (pi * pn));
            lemma_monty_row(val(z0), val(z3), pi, pn, xv, ys[i as int] as nat, mv, t as nat, c_0 as nat, c2 as nat, c3 as nat, cy as nat, c1,
                val(win0), val(win1), val(win2), 0, uu, valp(ys, iv));
            assert(pw(iv + 1) == B() * pi);
            assert(B() * (pi * pn) == (B() * pi) * pn) by (nonlinear_arith);
            assert((t as nat) * pi + uu < B() * pi) by (nonlinear_arith) requires uu < pi, (t as nat) + 1 <= B();
            uu = uu + (t as nat) * pi;
        }
//+}
    }

//+{
    let ghost zf = z.data@;
    let ghost hi = zf.subrange(n as int, 2 * n as int);
    let ghost lo = zf.subrange(0, n as int);
    proof {
        assert(zf =~= lo + hi);
        lemma_val_concat(lo, hi);
        lemma_valp_zeros(lo, nn);
        lemma_valp_bound(xs, nn); lemma_valp_bound(ys, nn); lemma_valp_bound(ms, nn); lemma_valp_bound(hi, nn);
        assert(valp(ys, nn) == val(ys));
    }
//+}
    if c == 0 {
        z.data = z.data[n..].to_vec();
//+{
        proof {
            assert(z.data@ =~= hi);
            let pn = pw(nn);
            assert(pn * pn == pn * pn);
            assert((val(hi) * pn) as int == (xv * val(ys)) as int + #[trigger] ((uu as int) * (mv as int))) by (nonlinear_arith)
                requires pn * val(hi) + 0 * (pn * pn) == xv * val(ys) + uu * mv;
        }
//+}
    } else {
//+{
        let ghost f1: Seq<u64> = Seq::empty();
//+}
        {
            let (first, second) = z.data.split_at_mut(n);
//+{
            proof {
                assert(second@ =~= hi);
            }
//+}
            /*+*/let bw = /*-*/sub_vv(first, second, &m.data);
//+{
            proof {
                let pn = pw(nn);
                lemma_pw_pos(nn);
                // T = val(hi) + pn with T * pn == x*y + U*m < pn*pn + pn*m, hence val(hi) < m and the subtraction borrows
                assert(val(hi) < mv) by (nonlinear_arith)
                    requires pn * val(hi) + 1 * (pn * pn) == xv * val(ys) + uu * mv, xv < pn, val(ys) < pn, uu < pn, mv < pn, pn > 0;
                if bw == 0 { assert(0 * pn == 0) by (nonlinear_arith); assert(false); }
                assert(1 * pn == pn) by (nonlinear_arith);
                assert(val(first@) + mv == val(hi) + pn);
                f1 = first@;
            }
//+}
        }
//+{
        let ghost fin = z.data@.subrange(0, n as int);
        proof { assert(fin =~= f1); }
//+}
        z.data = z.data[..n].to_vec();
//+{
        proof {
            assert(z.data@ =~= fin);
            let pn = pw(nn);
            let kk = (uu as int) - (pn as int);
            assert((val(fin) * pn) as int == (xv * val(ys)) as int + kk * (mv as int)) by (nonlinear_arith)
                requires val(fin) + mv == val(hi) + pn, pn * val(hi) + 1 * (pn * pn) == xv * val(ys) + uu * mv, kk == (uu as int) - (pn as int);
            assert((val(fin) * pn) as int == (xv * val(ys)) as int + #[trigger] (kk * (mv as int)));
        }
//+}
    }

    z
}
//@ end

} // mod u
} // verus!
fn main() {}
