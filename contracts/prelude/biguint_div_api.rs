// BigUint division API as seen by BigInt-level units.
impl BigUint {
    //@ assume BigUint::div_rem(api) : Integer::div_rem/div_mod_floor for BigUint = div_rem_ref (shell in unit u_div; its long-division core div_rem_core is an assumed contract)
    #[verifier::external_body]
    pub fn div_rem(&self, other: &BigUint) -> (r: (BigUint, BigUint))
        requires self.wf(), other.wf(), !mp() ==> other.v() != 0
        ensures mp() ==> other.v() != 0, r.0.wf(), r.1.wf(), self.v() == r.0.v() * other.v() + r.1.v(), r.1.v() < other.v()
    { unimplemented!() }
    //@ assume BigUint::div_mod_floor(api) : same function as div_rem for BigUint (src/biguint.rs: both call div_rem_ref)
    #[verifier::external_body]
    pub fn div_mod_floor(&self, other: &BigUint) -> (r: (BigUint, BigUint))
        requires self.wf(), other.wf(), !mp() ==> other.v() != 0
        ensures mp() ==> other.v() != 0, r.0.wf(), r.1.wf(), self.v() == r.0.v() * other.v() + r.1.v(), r.1.v() < other.v()
    { unimplemented!() }
    //@ assume BigUint::mod_floor(api) : second component of div_rem_ref (src/biguint.rs)
    #[verifier::external_body]
    pub fn mod_floor(&self, other: &BigUint) -> (r: BigUint)
        requires self.wf(), other.wf(), !mp() ==> other.v() != 0
        ensures mp() ==> other.v() != 0, r.wf(), r.v() < other.v(), exists|q: nat| self.v() == #[trigger] (q * other.v()) + r.v()
    { unimplemented!() }
}
