//@ unit u_conv : BigUint primitive conversions and the float mantissa (src/biguint/convert.rs, src/biguint.rs)
#![feature(allocator_api)]
use vstd::prelude::*;
use vstd::std_specs::iter::IteratorSpec;
use vstd::arithmetic::power2::pow2;
verus! {
//@ include prelude/core.rs
//@ include prelude/std_specs.rs
//@ include prelude/floatmodel.rs
pub mod u {
use super::*;
//@ assume num_traits::<u64 as ToPrimitive>::to_i64 : external crate: Some iff the value fits i64
#[verifier::external_body]
fn __u64_to_i64(v: u64) -> (r: Option<i64>)
    ensures r is Some <==> v < 0x8000_0000_0000_0000, r is Some ==> r.unwrap() as int == v as int
{ unimplemented!() }
//@ assume num_traits::<u128 as ToPrimitive>::to_i128 : external crate: Some iff the value fits i128
#[verifier::external_body]
fn __u128_to_i128(v: u128) -> (r: Option<i128>)
    ensures r is Some <==> v < 0x8000_0000_0000_0000_0000_0000_0000_0000, r is Some ==> r.unwrap() as int == v as int
{ unimplemented!() }

pub mod big_digit {
//@ extract src/lib.rs :: mod big_digit :: const BITS
    pub(crate) const BITS: u8 = BigDigit::BITS as u8;
//@ end
    pub type BigDigit = u64;
}

//@ extract src/biguint.rs :: struct BigUint
pub struct BigUint {
    data: Vec<BigDigit>,
}
//@ end

//@ include prelude/biguint_view.rs
//@ include prelude/highbits.rs
//@ include prelude/shiftnorm.rs
//@ include prelude/bitval.rs
//@ include prelude/bitsvalue.rs
//@ include prelude/rne.rs
//@ include prelude/floatsem.rs

impl BigUint {
    // contract-only: `Zero::is_zero` re-homed as an inherent method (trait impl in src/biguint.rs; body proved below)
//@ extract src/biguint.rs :: impl Zero for BigUint :: fn is_zero props=C19
    fn is_zero(&self) -> /*+*/(r: /*-*/bool/*+*/)/*-*/
//+{
        ensures r == (self.data@.len() == 0)
//+}
    {
        self.data.is_empty()
    }
//@ end

//@ extract src/biguint.rs :: impl BigUint :: fn bits props=C07,C08
    pub fn bits(&self) -> /*+*/(r: /*-*/u64/*+*/)/*-*/
//+{
        requires self.wf()
        ensures
            self.dg().len() == 0 ==> r == 0,
            self.dg().len() > 0 ==> r == 64 * (self.dg().len() - 1) + nbits(self.dg()[self.dg().len() - 1]),
            self.v() < vstd::arithmetic::power2::pow2(r as nat),
            self.v() != 0 ==> r >= 1 && self.v() >= vstd::arithmetic::power2::pow2((r - 1) as nat),
//+}
    {
//+{
        proof { axiom_vec_u64_len(&self.data); vstd::arithmetic::power2::lemma2_to64(); }
//+}
        if self.is_zero() {
            return 0;
        }
//+{
        proof { lemma_nbits_range(self.data@[self.data@.len() - 1]); lemma_bits_value(self.data@); }
//+}
        let zeros: u64 = self.data.last().unwrap().leading_zeros().into();
        self.data.len() as u64 * u64::from(big_digit::BITS) - zeros
    }
//@ end
}

/// value-level reading of the digit-level mantissa: for a value x of two or more digits with bit length e + 64,
/// hb_spec is floor(x / 2^e) with its lowest bit OR-ed with "x mod 2^e != 0" (round to odd)
pub proof fn lemma_hb_value(s: Seq<u64>)
    requires wf(s), s.len() >= 2
    ensures ({
        let x = val(s); let e = fexp(s) as nat; let pe = pow2(e);
        &&& x / pe < 0x1_0000_0000_0000_0000
        &&& x / pe >= 0x8000_0000_0000_0000
        &&& hb_spec(s) == (if x % pe != 0 { ((x / pe) as u64) | 1u64 } else { (x / pe) as u64 })
    })
{
    let n = s.len() as int;
    let top = s[n - 1];
    let sec = s[n - 2];
    let t = nbits(top);
    let x = val(s);
    let e = fexp(s) as nat;
    let pe = pow2(e);
    lemma_nbits_range(top);
    lemma_lz_scale(top);
    vstd::arithmetic::power2::lemma2_to64();
    vstd::arithmetic::power2::lemma_pow2_pos(e);
    let i2 = (n - 2) as nat;
    let lowv = valp(s, i2);
    // x == lowv + pw(n-2) * (sec + B * top)
    lemma_digit_split(s, i2);
    let hi_seq = s.subrange(n - 1, n);
    assert(hi_seq =~= seq![top]);
    lemma_val_single(top);
    assert(val(s.subrange(i2 as int + 1, n)) == top as nat);
    let y = sec as nat + B() * (top as nat);
    let p = pw(i2);
    lemma_pw_pos(i2);
    lemma_pw_p2_(i2);
    assert(x == lowv + p * y);
    assert(lowv < p);
    // x / p == y, x % p == lowv
    assert(x == p * y + lowv) by (nonlinear_arith) requires x == lowv + p * y;
    assert(x == y * p + lowv) by (nonlinear_arith) requires x == lowv + p * y;
    vstd::arithmetic::div_mod::lemma_fundamental_div_mod_converse(x as int, p as int, y as int, lowv as int);
    lemma_valp_zero_iff(s, i2);
    if t == 64 {
        // e == 64 (n - 1): pe == p * B
        assert(e == 64 * i2 + 64);
        vstd::arithmetic::power2::lemma_pow2_adds(64 * i2, 64);
        assert(pe == p * B());
        // x == (p * B) * top + (p * sec + lowv)
        let rem = p * (sec as nat) + lowv;
        assert(x == (p * B()) * (top as nat) + rem) by (nonlinear_arith) requires x == p * y + lowv, y == sec as nat + B() * (top as nat), rem == p * (sec as nat) + lowv;
        assert(rem < p * B()) by (nonlinear_arith) requires rem == p * (sec as nat) + lowv, lowv < p, (sec as nat) + 1 <= B();
        assert(x == (top as nat) * pe + rem) by (nonlinear_arith) requires x == (p * B()) * (top as nat) + rem, pe == p * B();
        vstd::arithmetic::div_mod::lemma_fundamental_div_mod_converse(x as int, pe as int, top as int, rem as int);
        assert(x / pe == top as nat && x % pe == rem);
        // top has its top bit set
        assert(top >= 0x8000_0000_0000_0000u64);
        // rem != 0 <==> some digit below the top is non-zero
        let st = any_nz(s, 0, n - 1);
        if rem != 0 {
            if sec == 0 {
                assert(p * 0 == 0) by (nonlinear_arith);
                assert(lowv != 0);
                let j = choose|j: int| 0 <= j < i2 && s[j] != 0;
                assert(any_nz(s, 0, n - 1));
            } else { assert(s[n - 2] != 0); assert(any_nz(s, 0, n - 1)); }
        } else {
            assert(lowv == 0);
            assert(p * (sec as nat) == 0);
            if sec != 0 { assert(p * (sec as nat) >= 1) by (nonlinear_arith) requires p >= 1, sec as nat >= 1; }
            assert(sec == 0);
            if any_nz(s, 0, n - 1) {
                let j = choose|j: int| 0 <= j < n - 1 && s[j] != 0;
                assert(j < i2 || j == n - 2);
            }
        }
        assert(st == (rem != 0));
        assert((top | 0u64) == top) by (bit_vector);
        assert(b2u(st) == (if st { 1u64 } else { 0u64 }));
    } else {
        let tn = t as nat;
        let c = (64 - t) as nat;
        let pt = pow2(tn);
        let pc = pow2(c);
        vstd::arithmetic::power2::lemma_pow2_pos(tn);
        vstd::arithmetic::power2::lemma_pow2_pos(c);
        vstd::arithmetic::power2::lemma_pow2_adds(tn, c);
        assert(pt * pc == B());
        assert(e == 64 * i2 + tn);
        vstd::arithmetic::power2::lemma_pow2_adds(64 * i2, tn);
        assert(pe == p * pt);
        // y == pt * (top * pc + sec / pt) + sec % pt
        let sq = (sec as nat) / pt;
        let sr = (sec as nat) % pt;
        vstd::arithmetic::div_mod::lemma_fundamental_div_mod(sec as int, pt as int);
        vstd::arithmetic::div_mod::lemma_mod_bound(sec as int, pt as int);
        let m0 = (top as nat) * pc + sq;
        assert(y == pt * m0 + sr) by (nonlinear_arith) requires y == sec as nat + B() * (top as nat), sec as nat == pt * sq + sr, pt * pc == B(), m0 == (top as nat) * pc + sq;
        // x == pe * m0 + (p * sr + lowv)
        let rem = p * sr + lowv;
        assert(x == pe * m0 + rem) by (nonlinear_arith) requires x == p * y + lowv, y == pt * m0 + sr, pe == p * pt, rem == p * sr + lowv;
        assert(rem < pe) by (nonlinear_arith) requires rem == p * sr + lowv, lowv < p, sr + 1 <= pt, pe == p * pt;
        assert(x == m0 * pe + rem) by (nonlinear_arith) requires x == pe * m0 + rem;
        vstd::arithmetic::div_mod::lemma_fundamental_div_mod_converse(x as int, pe as int, m0 as int, rem as int);
        assert(x / pe == m0 && x % pe == rem);
        // machine form of m0
        let tu = t as u64;
        let cu = (64 - t) as u64;
        assert(1 <= tu <= 63 && cu == sub(64u64, tu));
        // top < 2^t, top >= 2^(t-1)
        assert(vstd::std_specs::bits::u64_leading_zeros(top) as nat == c);
        assert((top as nat) * pc >= 0x8000_0000_0000_0000nat && (top as nat) * pc < B());
        assert((top as nat) < pt) by (nonlinear_arith) requires (top as nat) * pc < pt * pc, pc >= 1;
        assert(2 * (top as nat) >= pt) by (nonlinear_arith) requires 2 * ((top as nat) * pc) >= pt * pc, pc >= 1;
        vstd::bits::lemma_u64_shl_is_mul(top, cu);
        assert((top << cu) as nat == (top as nat) * pc);
        vstd::bits::lemma_u64_shr_is_div(sec, tu);
        assert((sec >> tu) as nat == sq);
        let a = top << cu;
        let b = sec >> tu;
        assert((a | b) == add(a, b)) by (bit_vector) requires a == top << cu, b == sec >> tu, cu == sub(64u64, tu), 1 <= tu <= 63;
        assert(sq < pc) by {
            assert(pt * sq <= sec as nat);
            if sq >= pc { assert(pt * sq >= pt * pc) by (nonlinear_arith) requires sq >= pc, pt >= 1; }
        }
        assert((top as nat) * pc + sq < B()) by (nonlinear_arith) requires (top as nat) + 1 <= pt, sq < pc, pt * pc == B();
        assert((a as nat) + (b as nat) < B());
        assert((a | b) as nat == m0);
        assert(m0 < B());
        assert(2 * m0 >= B()) by (nonlinear_arith) requires m0 == (top as nat) * pc + sq, 2 * (top as nat) >= pt, pt * pc == B();
        // stickiness
        let lowbits = sec << cu;
        vstd::bits::lemma_u64_low_bits_mask_is_mod(sec, tn);
        assert(((sec << cu) != 0) == ((sec & (sub(1u64 << tu, 1u64))) != 0)) by (bit_vector) requires cu == sub(64u64, tu), 1 <= tu <= 63;
        vstd::arithmetic::power2::lemma_pow2_strictly_increases(0, c);
        assert(pc >= 2);
        assert(pt < B()) by (nonlinear_arith) requires pt * pc == B(), pc >= 2, pt >= 1;
        vstd::bits::lemma_u64_shl_is_mul(1u64, tu);
        assert(vstd::bits::low_bits_mask(tn) == pt - 1);
        assert((lowbits != 0) == (sr != 0));
        let st = lowbits != 0 || any_nz(s, 0, n - 2);
        if rem != 0 {
            if sr == 0 {
                assert(p * 0 == 0) by (nonlinear_arith);
                assert(lowv != 0);
                let j = choose|j: int| 0 <= j < i2 && s[j] != 0;
                assert(any_nz(s, 0, n - 2));
            }
        } else {
            assert(lowv == 0);
            if sr != 0 { assert(p * sr >= 1) by (nonlinear_arith) requires p >= 1, sr >= 1; }
            assert(sr == 0);
            if any_nz(s, 0, n - 2) {
                let j = choose|j: int| 0 <= j < n - 2 && s[j] != 0;
            }
        }
        assert(st == (rem != 0));
        assert(((a | b) | 0u64) == (a | b)) by (bit_vector);
    }
}

/// the number the float tail computes - round(mantissa, p) * 2^exponent - is the value rounded to p significant bits;
/// beyond maxexp + 64 bits it is at least 2^maxexp
pub proof fn lemma_float_value(s: Seq<u64>, p: nat, maxexp: nat)
    requires wf(s), 2 <= 64 - p <= 62, s.len() < MAX_DIGITS()
    ensures ({
        let m = fmant(s); let e = fexp(s) as nat;
        &&& rne_sig(m as nat, p, nbits(m) as nat) * pow2(e) == rne_sig(val(s), p, blen(s))
        &&& rne_sig(m as nat, p, nbits(m) as nat) >= 0
        &&& (s.len() >= 2 ==> rne_sig(m as nat, p, nbits(m) as nat) >= 0x8000_0000_0000_0000)
        &&& (s.len() >= 2 ==> rne_sig(val(s), p, blen(s)) >= pow2(e + 63))
        &&& (s.len() <= 1 ==> rne_sig(val(s), p, blen(s)) <= 0x1_0000_0000_0000_0000)
    })
{
    vstd::arithmetic::power2::lemma2_to64();
    let m = fmant(s);
    let e = fexp(s) as nat;
    if s.len() == 0 {
        vstd::std_specs::bits::axiom_u64_leading_zeros(0u64);
        assert(nbits(0u64) == 0);
        assert(0 * pow2(0) == 0) by (nonlinear_arith);
    } else if s.len() == 1 {
        lemma_val_single(s[0]);
        assert(s =~= seq![s[0]]);
        assert(val(s) == s[0] as nat);
        assert(blen(s) == nbits(s[0]) as nat);
        let y = rne_sig(m as nat, p, nbits(m) as nat);
        assert(y * 1 == y) by (nonlinear_arith);
        lemma_nbits_range(s[0]);
        if m != 0 {
            lemma_lz_scale(m);
            let lz = vstd::std_specs::bits::u64_leading_zeros(m) as nat;
            vstd::arithmetic::power2::lemma_pow2_adds(nbits(m) as nat, lz);
            vstd::arithmetic::power2::lemma_pow2_pos(lz);
            assert((m as nat) < pow2(nbits(m) as nat)) by (nonlinear_arith)
                requires (m as nat) * pow2(lz) < pow2(nbits(m) as nat) * pow2(lz), pow2(lz) >= 1;
        } else { vstd::arithmetic::power2::lemma_pow2_pos(nbits(m) as nat); }
        lemma_rne_bound(m as nat, nbits(m) as nat, p);
    } else {
        lemma_hb_value(s);
        lemma_fls_mant(s);
        let x = val(s);
        let pe = pow2(e);
        let m0 = (x / pe) as u64;
        let j = (64 - p) as nat;
        lemma_rne_sticky(x, e, m0, m, j);
        assert(blen(s) == e + 64);
        assert((blen(s) - p) as nat == e + j);
        // the rounded mantissa is at least 2^63
        let pj = pow2(j);
        vstd::arithmetic::power2::lemma_pow2_pos(j);
        vstd::arithmetic::power2::lemma_pow2_adds(j, (63 - j) as nat);
        let q = (m as nat) / pj;
        vstd::arithmetic::div_mod::lemma_fundamental_div_mod(m as int, pj as int);
        vstd::arithmetic::div_mod::lemma_mod_bound(m as int, pj as int);
        assert(m >= 0x8000_0000_0000_0000u64) by {
            if x % pe != 0 { assert((m0 | 1u64) >= m0) by (bit_vector); }
        }
        let c = pow2((63 - j) as nat);
        vstd::arithmetic::power2::lemma_pow2_unfold(64);
        assert(j + (63 - j) as nat == 63);
        assert(pj * c == 0x8000_0000_0000_0000);
        assert(q >= c) by {
            if q < c {
                assert(pj * (q + 1) <= pj * c) by (nonlinear_arith) requires q + 1 <= c, pj >= 0;
                assert(pj * (q + 1) == pj * q + pj) by (nonlinear_arith);
                assert((m as nat) < pj * c);
            }
        }
        let y = rne_shift(m as nat, j);
        assert(y >= q * pj) by { assert((q + 1) * pj >= q * pj) by (nonlinear_arith) requires pj >= 0; }
        assert(q * pj >= c * pj) by (nonlinear_arith) requires q >= c, pj >= 0;
        assert(c * pj == pj * c) by (nonlinear_arith);
        assert(y >= 0x8000_0000_0000_0000);
        vstd::arithmetic::power2::lemma_pow2_pos(e);
        vstd::arithmetic::power2::lemma_pow2_adds(e, 63);
        assert(y * pe >= 0x8000_0000_0000_0000 * pe) by (nonlinear_arith) requires y >= 0x8000_0000_0000_0000, pe >= 0;
        assert(pow2(e + 63) == pe * 0x8000_0000_0000_0000);
    }
}
/// rounding a value below 2^l never exceeds 2^l
pub proof fn lemma_rne_bound(x: nat, l: nat, p: nat)
    requires x < pow2(l), l <= 64, p >= 1
    ensures rne_sig(x, p, l) <= 0x1_0000_0000_0000_0000
{
    vstd::arithmetic::power2::lemma2_to64();
    if l < 64 { vstd::arithmetic::power2::lemma_pow2_strictly_increases(l, 64); }
    if l > p {
        let k = (l - p) as nat;
        let pk = pow2(k);
        vstd::arithmetic::power2::lemma_pow2_pos(k);
        vstd::arithmetic::power2::lemma_pow2_adds(k, p);
        let q = x / pk;
        vstd::arithmetic::div_mod::lemma_fundamental_div_mod(x as int, pk as int);
        vstd::arithmetic::div_mod::lemma_mod_bound(x as int, pk as int);
        let pp = pow2(p);
        assert(q < pp) by { if q >= pp { assert(pk * q >= pk * pp) by (nonlinear_arith) requires q >= pp, pk >= 0; } }
        assert((q + 1) * pk <= pp * pk) by (nonlinear_arith) requires q + 1 <= pp, pk >= 0;
        assert(q * pk <= pp * pk) by (nonlinear_arith) requires q <= pp, pk >= 0;
        assert(pp * pk == pow2(l)) by (nonlinear_arith) requires pk * pp == pow2(l);
    }
}

// the generic helper fls (T: PrimInt, num_traits) at T = u64 (rule R56 names this instance fls64)
//@ extract src/biguint/convert.rs :: fn fls tysub=<T:PrimInt>=>;v:T=>v:u64;mem::size_of::<T>()=>8usize;fn~fls=>fn~fls64 props=C08,C14 label=fls64
fn fls64(v: u64) -> /*+*/(r: /*-*/u8/*+*/)/*-*/
//+{
    ensures r as int == nbits(v)
//+}
{
//+{
    proof { vstd::std_specs::bits::axiom_u64_leading_zeros(v); }
//+}
    8usize as u8 * 8 - v.leading_zeros() as u8
}
//@ end

/// the round-to-odd mantissa of a value of two or more digits has its top bit set
pub proof fn lemma_fls_mant(s: Seq<u64>)
    requires wf(s)
    ensures s.len() >= 2 ==> nbits(hb_spec(s)) == 64
{
    if s.len() >= 2 {
        let n = s.len() as int;
        let top = s[n - 1];
        let sec = s[n - 2];
        let t = nbits(top);
        lemma_nbits_range(top);
        vstd::std_specs::bits::axiom_u64_leading_zeros(top);
        let m = hb_spec(s);
        vstd::std_specs::bits::axiom_u64_leading_zeros(m);
        let lz = vstd::std_specs::bits::u64_leading_zeros(top);
        // bit t-1 of top is set; after the left shift by 64 - t it is bit 63
        let k: u64 = sub(63u64, lz as u64);
        assert((top >> k) & 1 != 0);
        if t == 64 {
            let b = b2u(any_nz(s, 0, n - 1));
            assert(((top | b) >> 63u64) & 1 != 0) by (bit_vector) requires (top >> 63u64) & 1 != 0;
        } else {
            let sh = (64 - t) as u64;
            let low = (sec >> (t as u64));
            let b = b2u((sec << ((64 - t) as u64)) != 0 || any_nz(s, 0, n - 2));
            assert(k + sh == 63);
            assert(((((top << sh) | low) | b) >> 63u64) & 1 != 0) by (bit_vector) requires (top >> k) & 1 != 0, k + sh == 63, sh < 64;
        }
        assert((m >> 63u64) & 1 != 0);
        // hence no leading zero
        if vstd::std_specs::bits::u64_leading_zeros(m) > 0 {
            assert((m >> 63u64) & 1 == 0);
        }
    }
}

//@ extract src/biguint/convert.rs :: fn high_bits_to_u64 props=C08
fn high_bits_to_u64(v: &BigUint) -> /*+*/(r: /*-*/u64/*+*/)/*-*/
//+{
    requires v.wf(), v.data@.len() < MAX_DIGITS()
    ensures
        v.data@.len() == 0 ==> r == 0,
        v.data@.len() == 1 ==> r == v.data@[0],
        v.data@.len() >= 2 ==> r == hb_spec(v.data@),
//+}
{
    match v.data.len() {
        0 => 0,
        1 => {
            // XXX Conversion is useless if already 64-bit.
            let v0 = u64::from(v.data[0]);
            v0
        }
        _ => {
//+{
            let ghost s = v.data@;
            let ghost n = s.len() as int;
            let ghost top = s[n - 1];
            let ghost t = nbits(top);
            proof { lemma_nbits_range(top); }
//+}
            let mut bits = v.bits();
            let mut ret = 0u64;
            let mut ret_bits = 0;

            for d in /*+*/it: /*-*/v.data.iter().rev()
//+{
                invariant
                    n == s.len(), n >= 2, n < MAX_DIGITS(), s == v.data@, top == s[n - 1], t == nbits(top), 1 <= t <= 64,
                    it.seq().len() == n,
                    forall|i: int| 0 <= i < it.seq().len() ==> *(#[trigger] it.seq()[i]) == s[n - 1 - i],
                    it.index@ == 0 ==> ret == 0 && ret_bits == 0 && bits == 64 * (n - 1) + t,
                    it.index@ >= 1 ==> bits == 64 * (n - it.index@),
                    it.index@ == 1 ==> ret == top && ret_bits == t,
                    it.index@ >= 2 ==> ret_bits == 64 && ret == hb_part(s, it.index@ as int),
//+}
            {
//+{
                let ghost i = it.index@ as int;
                let ghost ret0 = ret;
                assert(*d == s[n - 1 - i]);
//+}
                let digit_bits = (bits - 1) % u64::from(big_digit::BITS) + 1;
                let bits_want = Ord::min(64 - ret_bits, digit_bits);
//+{
                proof {
                    if i == 0 { assert(digit_bits == t && bits_want == t); }
                    else { assert(digit_bits == 64); }
                }
//+}

                if bits_want != 0 {
                    if bits_want != 64 {
                        ret <<= bits_want;
                    }
                    // XXX Conversion is useless if already 64-bit.
                    let d0 = u64::from(*d) >> (digit_bits - bits_want);
                    ret |= d0;
                }
//+{
                proof {
                    if i == 0 {
                        lemma_hb_first(top, t);
                        assert(ret == top);
                    }
                }
                let ghost ret1 = ret;
//+}

                // Implement round-to-odd: If any lower bits are 1, set LSB to 1
                // so that rounding again to floating point value using
                // nearest-ties-to-even is correct.
                //
                // See: https://en.wikipedia.org/wiki/Rounding#Rounding_to_prepare_for_shorter_precision

                if digit_bits - bits_want != 0 {
                    // XXX Conversion is useless if already 64-bit.
                    let masked = u64::from(*d) << (64 - (digit_bits - bits_want) as u32);
                    ret |= (masked != 0) as u64;
                }
//+{
                proof {
                    if i == 1 {
                        lemma_hb_second(s, top, *d, t, ret);
                    } else if i >= 2 {
                        lemma_hb_next(s, i, *d, ret0, ret);
                    }
                }
//+}

                ret_bits += bits_want;
                bits -= digit_bits;
            }

            ret
        }
    }
}
//@ end

impl BigUint {
//@ extract src/biguint.rs :: impl BigUint :: const ZERO rules=R9,R13
    exec const ZERO: Self /*+*/ensures Self::ZERO.data@.len() == 0 /*-*/{ BigUint { data: Vec::new() } }
//@ end

    // contract-only re-homing: the following are methods of `impl ToPrimitive for BigUint` (num_traits is an external trait)
//@ extract src/biguint/convert.rs :: impl ToPrimitive for BigUint :: fn to_u64 props=C08,C04
    fn to_u64(&self) -> /*+*/(r: /*-*/Option<u64>/*+*/)/*-*/
//+{
        ensures
            self.wf() ==> (r is Some <==> self.v() < B()),
            self.wf() && r is Some ==> r.unwrap() as nat == self.v(),
//+}
    {
//+{
        let ghost s = self.data@;
        proof {
            if self.wf() && s.len() >= 2 { lemma_wf_lower(s); lemma_pw_mono(1, (s.len() - 1) as nat); assert(pw(1) == B() * pw(0)); }
            if s.len() == 1 { lemma_val_single(s[0]); assert(s =~= seq![s[0]]); }
        }
//+}
        let mut ret: u64 = 0;
        let mut bits = 0;

        for i in /*+*/it: /*-*/self.data.iter()
//+{
            invariant
                s == self.data@, it.seq().len() == s.len(),
                forall|k: int| 0 <= k < it.seq().len() ==> *(#[trigger] it.seq()[k]) == s[k],
                it.index@ <= 1 || s.len() <= 1,
                it.index@ == 0 ==> ret == 0 && bits == 0,
                it.index@ == 1 ==> ret == s[0] && bits == 64,
                self.wf() && s.len() >= 2 ==> self.v() >= B(),
//+}
        {
            if bits >= 64 {
                return None;
            }

            // XXX Conversion is useless if already 64-bit.
//+{
            proof { let x = *i; assert(x << 0u8 == x) by (bit_vector); }
//+}
            ret += u64::from(*i) << bits;
            bits += big_digit::BITS;
        }

        Some(ret)
    }
//@ end

//@ extract src/biguint/convert.rs :: impl ToPrimitive for BigUint :: fn to_u128 props=C08,C04
    fn to_u128(&self) -> /*+*/(r: /*-*/Option<u128>/*+*/)/*-*/
//+{
        ensures
            self.wf() ==> (r is Some <==> self.v() < B() * B()),
            self.wf() && r is Some ==> r.unwrap() as nat == self.v(),
//+}
    {
//+{
        let ghost s = self.data@;
        proof {
            if self.wf() && s.len() >= 3 { lemma_wf_lower(s); lemma_pw_mono(2, (s.len() - 1) as nat); assert(pw(2) == B() * pw(1)); assert(pw(1) == B() * pw(0)); }
            if s.len() == 1 { lemma_val_single(s[0]); assert(s =~= seq![s[0]]); }
            if s.len() == 2 {
                assert(valp(s, 2) == valp(s, 1) + (s[1] as nat) * pw(1));
                assert(valp(s, 1) == valp(s, 0) + (s[0] as nat) * pw(0));
                assert(pw(1) == B() * pw(0));
                assert((s[0] as nat) * 1 == s[0] as nat) by (nonlinear_arith);
                assert((s[0] as nat) + (s[1] as nat) * B() < B() * B()) by (nonlinear_arith) requires (s[0] as nat) < B(), (s[1] as nat) < B();
            }
        }
//+}
        let mut ret: u128 = 0;
        let mut bits = 0;

        for i in /*+*/it: /*-*/self.data.iter()
//+{
            invariant
                s == self.data@, it.seq().len() == s.len(),
                forall|k: int| 0 <= k < it.seq().len() ==> *(#[trigger] it.seq()[k]) == s[k],
                it.index@ <= 2 || s.len() <= 2,
                it.index@ == 0 ==> ret == 0 && bits == 0,
                it.index@ == 1 ==> ret == s[0] as u128 && bits == 64,
                it.index@ == 2 ==> ret as nat == (s[0] as nat) + (s[1] as nat) * B() && bits == 128,
                self.wf() && s.len() >= 3 ==> self.v() >= B() * B(),
//+}
        {
            if bits >= 128 {
                return None;
            }

//+{
            proof {
                let x = *i as u128; let r0 = ret;
                assert(0u128 | (x << 0u8) == x) by (bit_vector);
                assert(r0 <= 0xffff_ffff_ffff_ffffu128 && x <= 0xffff_ffff_ffff_ffffu128 ==> (r0 | (x << 64u8)) == r0 + x * 0x1_0000_0000_0000_0000u128) by (bit_vector);
            }
//+}
            ret |= u128::from(*i) << bits;
            bits += big_digit::BITS;
        }

        Some(ret)
    }
//@ end

//@ extract src/biguint/convert.rs :: impl ToPrimitive for BigUint :: fn to_i64 rules=R0,R55 props=C08
    fn to_i64(&self) -> /*+*/(r: /*-*/Option<i64>/*+*/)/*-*/
//+{
        ensures
            self.wf() ==> (r is Some <==> self.v() < 0x8000_0000_0000_0000),
            self.wf() && r is Some ==> r.unwrap() as int == self.v() as int,
//+}
    {
        match self.to_u64() { Some(v__) => __u64_to_i64(v__), None => None, }
    }
//@ end

//@ extract src/biguint/convert.rs :: impl ToPrimitive for BigUint :: fn to_i128 rules=R0,R55 props=C08
    fn to_i128(&self) -> /*+*/(r: /*-*/Option<i128>/*+*/)/*-*/
//+{
        ensures
            self.wf() ==> (r is Some <==> self.v() < 0x8000_0000_0000_0000_0000_0000_0000_0000),
            self.wf() && r is Some ==> r.unwrap() as int == self.v() as int,
//+}
    {
        match self.to_u128() { Some(v__) => __u128_to_i128(v__), None => None, }
    }
//@ end

//@ extract src/biguint/convert.rs :: impl ToPrimitive for BigUint :: fn to_f64 rules=R0,R24c,R56 props=C08,C14
    fn to_f64(&self) -> /*+*/(r: /*-*/Option<MF64>/*+*/)/*-*/
//+{
        requires self.wf()
        ensures r is Some,
            f_rounds_to(r.unwrap().finite(), r.unwrap().integral(), r.unwrap().ival(), self.v(), blen(self.dg()), 53, 1024),
//+}
    {
//+{
        proof { axiom_vec_u64_len(&self.data); lemma_fls_mant(self.data@); lemma_float_value(self.data@, 53, 1024); 
            axiom_fcast64(fmant(self.data@)); axiom_finf64();
            if fexp(self.data@) + 63 > 1024 { vstd::arithmetic::power2::lemma_pow2_strictly_increases(1024, (fexp(self.data@) + 63) as nat); }
            if fexp(self.data@) < 0x7fff_ffff { axiom_fmul_pow2_64(fcast64(fmant(self.data@)), fexp(self.data@) as i32); } }
//+}
        let mantissa = high_bits_to_u64(self);
        let exponent = self.bits() - u64::from(fls64(mantissa));

        if exponent > 1024u64 {
            Some(__f64_infinity())
        } else {
            Some(__u64_as_f64(mantissa).mul(__f64_pow2(exponent as i32)))
        }
    }
//@ end

//@ extract src/biguint/convert.rs :: impl ToPrimitive for BigUint :: fn to_f32 rules=R0,R24c,R56 props=C08,C14
    fn to_f32(&self) -> /*+*/(r: /*-*/Option<MF32>/*+*/)/*-*/
//+{
        requires self.wf()
        ensures r is Some,
            f_rounds_to(r.unwrap().finite(), r.unwrap().integral(), r.unwrap().ival(), self.v(), blen(self.dg()), 24, 128),
//+}
    {
//+{
        proof { axiom_vec_u64_len(&self.data); lemma_fls_mant(self.data@); lemma_float_value(self.data@, 24, 128);
            axiom_fcast32(fmant(self.data@)); axiom_finf32();
            if fexp(self.data@) + 63 > 128 { vstd::arithmetic::power2::lemma_pow2_strictly_increases(128, (fexp(self.data@) + 63) as nat); }
            if fexp(self.data@) < 0x7fff_ffff { axiom_fmul_pow2_32(fcast32(fmant(self.data@)), fexp(self.data@) as i32); } }
//+}
        let mantissa = high_bits_to_u64(self);
        let exponent = self.bits() - u64::from(fls64(mantissa));

        if exponent > 128u64 {
            Some(__f32_infinity())
        } else {
            Some(__u64_as_f32(mantissa).mul(__f32_pow2(exponent as i32)))
        }
    }
//@ end
}

// contract-only: spec-trait plumbing for `From`
impl vstd::std_specs::convert::FromSpecImpl<u64> for BigUint {
    open spec fn obeys_from_spec() -> bool { false }
    open spec fn from_spec(v: u64) -> BigUint { arbitrary() }
}
impl vstd::std_specs::convert::FromSpecImpl<u128> for BigUint {
    open spec fn obeys_from_spec() -> bool { false }
    open spec fn from_spec(v: u128) -> BigUint { arbitrary() }
}

impl From<u64> for BigUint {
//@ extract src/biguint/convert.rs :: impl From<u64> for BigUint :: fn from props=C08,C04 label=from_u64
    fn from(mut n: u64) -> /*+*/(r: /*-*/Self/*+*/)/*-*/
//+{
        ensures r.wf(), r.v() == n as nat
//+}
    {
//+{
        let ghost n0 = n;
//+}
        let mut ret: BigUint = Self::ZERO;

        while n != 0
//+{
            invariant
                (n == n0 && ret.data@.len() == 0) || (n == 0 && n0 != 0 && ret.data@ =~= seq![n0]),
            decreases n
//+}
        {
//+{
            proof { let x = n; assert((x >> 1u64) >> 63u8 == 0) by (bit_vector); }
//+}
            ret.data.push(n as BigDigit);
            // don't overflow if BITS is 64:
            n = (n >> 1) >> (big_digit::BITS - 1);
        }
//+{
        proof { if n0 != 0 { lemma_val_single(n0); } }
//+}

        ret
    }
//@ end
}

impl From<u128> for BigUint {
//@ extract src/biguint/convert.rs :: impl From<u128> for BigUint :: fn from props=C08,C04 label=from_u128
    fn from(mut n: u128) -> /*+*/(r: /*-*/Self/*+*/)/*-*/
//+{
        ensures r.wf(), r.v() == n as nat
//+}
    {
//+{
        let ghost n0 = n;
//+}
        let mut ret: BigUint = Self::ZERO;
//+{
        proof { assert(pw(0) * (n as nat) == n as nat) by (nonlinear_arith) requires pw(0) == 1; }
//+}

        while n != 0
//+{
            invariant
                wf(ret.data@) || n != 0,
                ret.data@.len() <= 2,
                val(ret.data@) + pw(ret.data@.len()) * (n as nat) == n0 as nat,
                ret.data@.len() == 1 ==> n < 0x1_0000_0000_0000_0000u128,
                ret.data@.len() == 2 ==> n == 0,
            decreases n
//+}
        {
//+{
            let ghost d0 = ret.data@;
            proof {
                let x = n;
                assert(((x as u64) as u128) + (x >> 64u8) * 0x1_0000_0000_0000_0000u128 == x) by (bit_vector);
                assert(x >> 64u8 < x) by (bit_vector) requires x != 0;
                assert(x < 0x1_0000_0000_0000_0000u128 ==> (x >> 64u8) == 0) by (bit_vector);
                assert((x >> 64u8) <= 0xffff_ffff_ffff_ffffu128) by (bit_vector);
                assert(x != 0 && (x >> 64u8) == 0 ==> (x as u64) != 0) by (bit_vector);
                lemma_val_push(d0, x as u64);
                assert(pw(d0.len() + 1) == B() * pw(d0.len()));
                let p = pw(d0.len()); let lo = (x as u64) as nat; let hi = (x >> 64u8) as nat;
                assert(p * (lo + hi * B()) == p * lo + (B() * p) * hi) by (nonlinear_arith);
            }
//+}
            ret.data.push(n as BigDigit);
            n >>= big_digit::BITS;
        }
//+{
        proof { assert(pw(ret.data@.len()) * 0 == 0) by (nonlinear_arith); }
//+}

        ret
    }
//@ end
}

impl vstd::std_specs::convert::FromSpecImpl<u32> for BigUint {
    open spec fn obeys_from_spec() -> bool { false }
    open spec fn from_spec(v: u32) -> BigUint { arbitrary() }
}
impl From<u32> for BigUint {
//@ extract src/biguint/convert.rs :: macro_rules! impl_biguint_from_uint :: arm 0 :: fn from subst=$T=>u32 props=C08,C04 label=from_u32
    fn from(n: u32) -> /*+*/(r: /*-*/Self/*+*/)/*-*/
//+{
        ensures r.wf(), r.v() == n as nat
//+}
    {
        BigUint::from(n as u64)
    }
//@ end
}

} // mod u
} // verus!
fn main() {}
