//@ unit x_float : from_f64 of BigUint and BigInt over a local model of f64 values (src/biguint/convert.rs, src/bigint/convert.rs): the float truncated toward zero, None for NaN / infinities (and for negative values into BigUint)
#![feature(allocator_api)]
use vstd::prelude::*;
use vstd::std_specs::iter::IteratorSpec;
use vstd::std_specs::ops::*;
use core::ops::{ShlAssign, ShrAssign, Neg};
use core::cmp::Ordering::{Equal, Greater, Less};
use vstd::arithmetic::power2::pow2;
verus! {
//@ include prelude/core.rs
//@ include prelude/std_specs.rs
//@ include prelude/panic.rs
//@ include prelude/floatmodel.rs
//@ extract src/bigint.rs :: enum Sign attrs=1
#[derive(/*+*/Structural, /*-*/PartialEq, PartialOrd, Eq, Ord, Copy, Clone, Debug, Hash)]
pub enum Sign {
    Minus,
    NoSign,
    Plus,
}
//@ end
pub mod u {
use super::*;
use Sign::*;

//@ extract src/biguint.rs :: struct BigUint
pub struct BigUint {
    data: Vec<BigDigit>,
}
//@ end
//@ include prelude/biguint_view.rs
//@ include prelude/highbits.rs
//@ include prelude/rne.rs
//@ include prelude/floatsem.rs
pub open spec fn p2(k: nat) -> nat { pow2(k) }
impl vstd::std_specs::convert::FromSpecImpl<u64> for BigUint {
    open spec fn obeys_from_spec() -> bool { false }
    open spec fn from_spec(v: u64) -> BigUint { arbitrary() }
}
impl From<u64> for BigUint {
//@ stub u_conv/from_u64
}
impl ShlAssignSpecImpl<usize> for BigUint {
    open spec fn obeys_shl_assign_spec() -> bool { false }
    open spec fn shl_assign_req(&self, rhs: usize) -> bool { self.wf() }
    open spec fn shl_assign_spec(&self, rhs: usize) -> &BigUint { arbitrary() }
}
impl ShlAssign<usize> for BigUint {
//@ stub u_shiftops/shl_assign_usize
}
impl ShrAssignSpecImpl<usize> for BigUint {
    open spec fn obeys_shr_assign_spec() -> bool { false }
    open spec fn shr_assign_req(&self, rhs: usize) -> bool { self.wf() }
    open spec fn shr_assign_spec(&self, rhs: usize) -> &BigUint { arbitrary() }
}
impl ShrAssign<usize> for BigUint {
//@ stub u_shiftops/shr_assign_usize
}

impl BigUint {
//@ stub u_conv/to_f64
//@ stub u_conv/to_f32
//@ extract src/biguint.rs :: impl BigUint :: const ZERO rules=R9,R13 label=BigUint_ZERO
    exec const ZERO: Self /*+*/ensures Self::ZERO.data@.len() == 0 /*-*/{ BigUint { data: Vec::new() } }
//@ end

    // contract-only re-homing of `impl FromPrimitive for BigUint :: from_f64` (num_traits: external trait)
//@ extract src/biguint/convert.rs :: impl FromPrimitive for BigUint :: fn from_f64 rules=R0,R54 props=C08,C14 label=biguint_from_f64
    fn from_f64(mut n: MF64) -> /*+*/(r: /*-*/Option<BigUint>/*+*/)/*-*/
//+{
        ensures
            !n.finite() ==> r is None,
            n.finite() && n.ival() < 0 ==> r is None,
            n.finite() && n.ival() >= 0 ==> r is Some && r.unwrap().wf() && r.unwrap().v() as int == n.ival(),
//+}
    {
        // handle NAN, INFINITY, NEG_INFINITY
        if !n.is_finite() {
            return None;
        }

        // match the rounding of casting from float to int
        n = n.trunc();

        // handle 0.x, -0.x
        if n.is_zero() {
            return Some(Self::ZERO);
        }

        let (mantissa, exponent, sign) = __integer_decode(n);
//+{
        let ghost m = mantissa as int;
        let ghost e = exponent as int;
        proof {
            vstd::arithmetic::power2::lemma_pow2_pos(if e >= 0 { e as nat } else { (-e) as nat });
            let s = sign as int;
            assert(n.integral() && n.ival() != 0);
            if e >= 0 {
                let q = pow2(e as nat) as int;
                assert(m * q >= 0) by (nonlinear_arith) requires m >= 0, q >= 0;
                assert(s * (m * q) == n.ival());
                if s == -1 { assert(-1 * (m * q) == -(m * q)); assert(n.ival() < 0); } else { assert(1 * (m * q) == m * q); }
            } else {
                let q = pow2((-e) as nat) as int;
                vstd::arithmetic::div_mod::lemma_div_pos_is_pos(m, q);
                assert(s * (m / q) == n.ival());
                if s == -1 { assert(-1 * (m / q) == -(m / q)); assert(n.ival() < 0); } else { assert(1 * (m / q) == m / q); }
            }
        }
//+}

        if sign == -1 {
            return None;
        }

        let mut ret = BigUint::from(mantissa);
        match __i16_cmp(exponent, 0) {
            Greater => ret <<= exponent as usize,
            Equal => {}
            Less => ret >>= (-exponent) as usize,
        }
//+{
        proof {
            vstd::arithmetic::power2::lemma2_to64();
            if e == 0 { assert(m * 1 == m) by (nonlinear_arith); }
        }
//+}
        Some(ret)
    }
//@ end
}

//@ extract src/bigint.rs :: struct BigInt
pub struct BigInt {
    sign: Sign,
    data: BigUint,
}
//@ end
//@ include prelude/bigint_view.rs
//@ include prelude/bigint_core_stubs.rs
impl vstd::std_specs::convert::FromSpecImpl<BigUint> for BigInt {
    open spec fn obeys_from_spec() -> bool { false }
    open spec fn from_spec(v: BigUint) -> BigInt { arbitrary() }
}
impl From<BigUint> for BigInt {
//@ stub i_div/from_biguint_trait
}

impl BigInt {
    // contract-only re-homing of `impl FromPrimitive for BigInt :: from_f64` (num_traits: external trait)
//@ extract src/bigint/convert.rs :: impl FromPrimitive for BigInt :: fn from_f64 rules=R0,R54 props=C08,C14 label=bigint_from_f64
    fn from_f64(n: MF64) -> /*+*/(r: /*-*/Option<BigInt>/*+*/)/*-*/
//+{
        ensures
            !n.finite() ==> r is None,
            n.finite() ==> r is Some && r.unwrap().wfi() && r.unwrap().iv() == n.ival(),
//+}
    {
        if n.ge0() {
            match BigUint::from_f64(n) { Some(v__) => Some(BigInt::from(v__)), None => None, }
        } else {
            let x = BigUint::from_f64(n.neg())?;
            Some(Neg::neg(BigInt::from(x)))
        }
    }
//@ end
}

impl BigInt {
    // contract-only re-homing of `impl ToPrimitive for BigInt :: to_f64 / to_f32`: the magnitude's float, negated for negative values
//@ extract src/bigint/convert.rs :: impl ToPrimitive for BigInt :: fn to_f64 rules=R0,R56 props=C08 label=bigint_to_f64
    fn to_f64(&self) -> /*+*/(r: /*-*/Option<MF64>/*+*/)/*-*/
//+{
        requires self.wfi()
        ensures r is Some, ({
            let y = rne_sig(self.mag().v(), 53, blen(self.mag().dg()));
            if y < pow2(1024) { r.unwrap().finite() && r.unwrap().integral() && r.unwrap().ival() == (if self.iv() < 0 { -(y as int) } else { y as int }) } else { !r.unwrap().finite() }
        }),
//+}
    {
//+{
        proof { lemma_sgn_mul(self.sign, self.data.v()); }
//+}
        let n = self.data.to_f64()?;
//+{
        proof { axiom_fneg64(n); }
//+}
        Some(if self.sign == Minus { n.negf() } else { n })
    }
//@ end

//@ extract src/bigint/convert.rs :: impl ToPrimitive for BigInt :: fn to_f32 rules=R0,R56 props=C08 label=bigint_to_f32
    fn to_f32(&self) -> /*+*/(r: /*-*/Option<MF32>/*+*/)/*-*/
//+{
        requires self.wfi()
        ensures r is Some, ({
            let y = rne_sig(self.mag().v(), 24, blen(self.mag().dg()));
            if y < pow2(128) { r.unwrap().finite() && r.unwrap().integral() && r.unwrap().ival() == (if self.iv() < 0 { -(y as int) } else { y as int }) } else { !r.unwrap().finite() }
        }),
//+}
    {
//+{
        proof { lemma_sgn_mul(self.sign, self.data.v()); }
//+}
        let n = self.data.to_f32()?;
//+{
        proof { axiom_fneg32(n); }
//+}
        Some(if self.sign == Minus { n.negf() } else { n })
    }
//@ end
}

} // mod u
} // verus!
fn main() {}
