"""Engine A: verification conditions for the x86-64 asm!() kernels, generated from the real source text.

For schoolbook_add_assign_x86_64 (src/biguint/addition.rs) and schoolbook_sub_assign_x86_64
(src/biguint/subtraction.rs) this parses the Rust wrapper (size /= D; early return; idx init; result
tuple), the asm template lines, the operand list and the options, executes the template symbolically
over z3 terms with the instruction table below, and proves the slice-level contract that the Verus
units k_add / k_sub assume for these functions (contracts/units/k_add.rs, k_sub.rs), for a symbolic
block count (no bound).

Trusted: the instruction table (SEM), Rust's asm! operand rules as encoded in operand_class().
"""
import os
import re
import time

import z3

import rtok

W = 64
ROOT = os.path.dirname(os.path.dirname(os.path.abspath(__file__)))

# instruction table: which architectural state each mnemonic reads / writes (memory handled by operand form)
SEM = {
    "mov": {"cf": "keep", "zf": "keep"},
    "adc": {"cf": "write", "zf": "write"},
    "sbb": {"cf": "write", "zf": "write"},
    "inc": {"cf": "keep", "zf": "write"},
    "dec": {"cf": "keep", "zf": "write"},
    "jnz": {"cf": "keep", "zf": "read"},
    "setc": {"cf": "read", "zf": "keep"},
    "clc": {"cf": "clear", "zf": "keep"},
}

EXPECTED_STUB = {
    "add": ["r.1 == 5 * (size / 5)", "final(lhs).len() == old(lhs).len()",
            "forall|j: int| r.1 <= j < old(lhs).len() ==> final(lhs)[j] == old(lhs)[j]",
            "forall|j: int| 0 <= j < r.1 ==> final(lhs)[j] == sumdigit(old(lhs)@, rhs@, j)",
            "r.0 == (carry_at(old(lhs)@, rhs@, r.1 as nat) == 1)"],
    "sub": ["r.1 == 5 * (size / 5)", "final(lhs).len() == old(lhs).len()",
            "forall|j: int| r.1 <= j < old(lhs).len() ==> final(lhs)[j] == old(lhs)[j]",
            "forall|j: int| 0 <= j < r.1 ==> final(lhs)[j] == diffdigit(old(lhs)@, rhs@, j)",
            "r.0 == (borrow_at(old(lhs)@, rhs@, r.1 as nat) == 1)"],
}
EXPECTED_REQ = "size <= old(lhs).len(), size <= rhs.len()"


class Undecided(Exception):
    pass


def parse_kernel(repo, kind):
    src_file = "src/biguint/addition.rs" if kind == "add" else "src/biguint/subtraction.rs"
    fname = "schoolbook_%s_assign_x86_64" % kind
    with open(os.path.join(repo, src_file)) as f:
        text = f.read()
    try:
        toks, span = rtok.extract(text, "fn " + fname)
    except Exception as e:
        raise Undecided("anchor lost: %s (%s)" % (fname, e))
    body = text[span[0]:span[1]]
    m = re.search(r"asm!\s*\((.*)\)\s*;", body, re.S)
    if not m:
        raise Undecided("no asm! block in " + fname)
    asm = m.group(1)
    pre = body[:m.start()]
    post = body[m.end():]
    # strip comments
    asm_nc = re.sub(r"//[^\n]*", "", asm)
    lines = re.findall(r'"([^"]*)"\s*,', asm_nc)
    ops = re.findall(r"(\w+)\s*=\s*(in|out|inout|lateout|inlateout)\s*\(\s*(\w+)\s*\)\s*([^,]*),", asm_nc)
    opts = re.search(r"options\s*\(([^)]*)\)", asm_nc)
    options = [o.strip() for o in opts.group(1).split(",")] if opts else []
    pre_nc = re.sub(r"//[^\n]*", "", pre)
    sig = re.search(r"fn\s+\w+\s*\(\s*(\w+)\s*:\s*\*mut\s+u64\s*,\s*(\w+)\s*:\s*\*const\s+u64\s*,\s*(mut\s+)?(\w+)\s*:\s*usize\s*,?\s*\)\s*->\s*\(\s*bool\s*,\s*usize\s*\)", pre_nc)
    if not sig:
        raise Undecided("signature of %s not in the expected shape" % fname)
    pl, pr, psz = sig.group(1), sig.group(2), sig.group(4)
    wrapper = pre_nc[sig.end():]
    wr = {"raw": re.sub(r"\s+", " ", wrapper).strip()}
    m2 = re.search(r"\b%s\s*/=\s*(\d+)\s*;" % psz, wrapper)
    m2b = re.search(r"\b%s\s*=\s*%s\s*/\s*(\d+)\s*;" % (psz, psz), wrapper)
    wr["div"] = int((m2 or m2b).group(1)) if (m2 or m2b) else None
    m3 = re.search(r"if\s+%s\s*==\s*0\s*\{\s*return\s*\(\s*(\w+)\s*,\s*(\w+)\s*\)\s*;\s*\}" % psz, wrapper)
    wr["early"] = (m3.group(1), m3.group(2)) if m3 else None
    m4 = re.search(r"let\s+mut\s+idx\s*(?::\s*usize\s*)?=\s*(\d+)\s*;", wrapper)
    wr["idx0"] = int(m4.group(1)) if m4 else None
    # everything else in the wrapper must be declarations we understand
    rest = wrapper
    for mm in (m2 or m2b, m3, m4):
        if mm:
            rest = rest.replace(mm.group(0), "")
    rest = re.sub(r"let\s+mut\s+c\s*:\s*u8\s*;", "", rest)
    rest = re.sub(r"[\s{]", "", rest)
    wr["unparsed"] = rest
    post_nc = re.sub(r"//[^\n]*", "", post)
    m5 = re.search(r"\(\s*c\s*(>|!=)\s*0\s*,\s*idx\s*\)", post_nc)
    wr["ret"] = bool(m5)
    wr["post_raw"] = re.sub(r"\s+", " ", post_nc).strip()
    return {"kind": kind, "file": src_file, "fname": fname, "lines": lines, "ops": ops, "options": options,
            "wrapper": wr, "params": (pl, pr, psz)}


def operand_class(k):
    """Syntactic obligations from the asm! rules. Returns list of (name, ok, detail)."""
    out = []
    decl = {name: (cls, reg, expr.strip()) for name, cls, reg, expr in k["ops"]}
    written, read = {}, {}
    stores = []
    for ln, ins in enumerate(k["lines"]):
        op, _, rest = ins.partition(" ")
        args = [x.strip() for x in rest.split(",")] if rest.strip() else []
        regs_in = lambda s: re.findall(r"\{(\w+)\}", s)  # noqa: E731
        if op.endswith(":") or op == "clc":
            continue
        if op == "jnz":
            continue
        if op == "mov":
            dst, src = args
            if dst.startswith("qword"):
                stores.append((ln, dst))
                for r in regs_in(dst) + regs_in(src):
                    read.setdefault(r, []).append(ln)
            else:
                for r in regs_in(src):
                    read.setdefault(r, []).append(ln)
                for r in regs_in(dst):
                    written.setdefault(r, []).append(ln)
        elif op in ("adc", "sbb"):
            for r in regs_in(args[0]):
                written.setdefault(r, []).append(ln)
                read.setdefault(r, []).append(ln)
            for r in regs_in(args[1]):
                read.setdefault(r, []).append(ln)
        elif op in ("inc", "dec"):
            for r in regs_in(args[0]):
                written.setdefault(r, []).append(ln)
                read.setdefault(r, []).append(ln)
        elif op == "setc":
            for r in regs_in(args[0]):
                written.setdefault(r, []).append(ln)
        else:
            out.append(("operand-class/known-instruction", False, "instruction outside the table: " + ins))
    for r in set(list(written) + list(read)):
        if r not in decl:
            out.append(("operand-class/declared:%s" % r, False, "template uses undeclared operand {%s}" % r))
    for r, lns in sorted(written.items()):
        cls = decl.get(r, ("?",))[0]
        ok = cls in ("out", "inout", "lateout", "inlateout")
        out.append(("operand-class/written-register-is-output:%s" % r, ok,
                    "{%s} is written at template line(s) %s but declared `%s`" % (r, [x + 1 for x in lns[:3]], cls)))
    # a lateout register may share a register with an input: it must be written only after the last read of every `in`
    last_in_read = max([max(v) for r, v in read.items() if decl.get(r, ("",))[0] in ("in",)] or [-1])
    for r, lns in sorted(written.items()):
        if decl.get(r, ("",))[0] in ("lateout",):
            ok = min(lns) > last_in_read
            out.append(("operand-class/lateout-after-inputs:%s" % r, ok,
                        "lateout {%s} first written at line %d, inputs last read at line %d" % (r, min(lns) + 1, last_in_read + 1)))
    # an `out` register's initial value is undefined: it must be written before it is read (per loop pass, in program order)
    for r, (cls, reg, expr) in sorted(decl.items()):
        if cls in ("out", "lateout"):
            rd = read.get(r, [])
            wr_ = written.get(r, [])
            if rd:
                ok = bool(wr_) and min(wr_) <= min(rd)
                out.append(("operand-class/out-written-before-read:%s" % r, ok, "{%s}: first read line %d, first write line %s" % (r, min(rd) + 1, (min(wr_) + 1) if wr_ else None)))
    # stores only through the `*mut` base; loads only through the two bases
    a_name = [n for n, (c, rg, e) in decl.items() if e.split("=>")[0].strip() == k["params"][0]]
    b_name = [n for n, (c, rg, e) in decl.items() if e.split("=>")[0].strip() == k["params"][1]]
    for ln, dst in stores:
        base = re.match(r"qword ptr \[\{(\w+)\}", dst)
        ok = bool(base) and base.group(1) in a_name
        out.append(("operand-class/store-base-is-mut-pointer@%d" % (ln + 1), ok, dst))
    bad = [o for o in k["options"] if o in ("pure", "nomem", "readonly", "preserves_flags", "noreturn")]
    out.append(("operand-class/options", not bad, "options(%s)" % ", ".join(k["options"])))
    out.append(("operand-class/nostack-consistent", not any(re.match(r"(push|pop|call)\b", l) for l in k["lines"]), "no push/pop/call in template"))
    return out, (a_name[0] if a_name else None), (b_name[0] if b_name else None)


def prove(name, solver, goal, results, premises_desc=""):
    solver.push()
    solver.add(z3.Not(goal))
    r = solver.check()
    model = None
    if r == z3.sat:
        m = solver.model()
        model = {str(d): str(m[d]) for d in m.decls()}
    solver.pop()
    status = "discharged" if r == z3.unsat else ("failed" if r == z3.sat else "unknown")
    results.append({"name": name, "status": status, "model": model})
    return r == z3.unsat


def kernel_vcs(k):
    """Generate and discharge the VCs of one kernel. Returns list of obligation records."""
    res = []
    kind = k["kind"]
    wr = k["wrapper"]
    oc, a_name, b_name = operand_class(k)
    for name, ok, detail in oc:
        res.append({"name": "asm:%s / %s" % (k["fname"], name), "status": "discharged" if ok else "failed", "detail": detail, "model": None})
    if a_name is None or b_name is None:
        raise Undecided("cannot identify pointer operands")
    decl = {name: (cls, reg, expr.strip()) for name, cls, reg, expr in k["ops"]}
    size_name = [n for n, (c, rg, e) in decl.items() if e.split("=>")[0].strip() == k["params"][2]]
    idx_name = [n for n, (c, rg, e) in decl.items() if e.split("=>")[0].strip() == "idx"]
    c_name = [n for n, (c, rg, e) in decl.items() if e.split("=>")[0].strip() == "c"]
    if not (size_name and idx_name and c_name):
        raise Undecided("cannot identify size/idx/c operands")
    size_name, idx_name, c_name = size_name[0], idx_name[0], c_name[0]
    lines = k["lines"]
    if "3:" not in lines or "jnz 3b" not in lines:
        raise Undecided("loop label/back edge not found")
    head = lines.index("3:")
    back = lines.index("jnz 3b")
    pref = "asm:%s / " % k["fname"]

    s = z3.Solver()
    s.set("timeout", 60000)
    sz, n, kk = z3.Ints("size n k")
    A0 = z3.Array("A0", z3.IntSort(), z3.BitVecSort(W))
    B0 = z3.Array("B0", z3.IntSort(), z3.BitVecSort(W))
    A = z3.Array("A", z3.IntSort(), z3.BitVecSort(W))
    chain = z3.Function("chain", z3.IntSort(), z3.BoolSort())  # carry_at / borrow_at == 1

    def bit(c):
        return z3.If(c, z3.BitVecVal(1, W), z3.BitVecVal(0, W))

    def digit(j):
        return (A0[j] + B0[j] + bit(chain(j))) if kind == "add" else (A0[j] - B0[j] - bit(chain(j)))

    def chain_next(j):
        a = z3.ZeroExt(2, A0[j])
        b = z3.ZeroExt(2, B0[j])
        c = z3.ZeroExt(2, bit(chain(j)))
        if kind == "add":
            return z3.Extract(W, W, a + b + c) == 1
        return z3.ULT(a, b + c)

    # ---- wrapper obligations
    D = wr["div"]
    res.append({"name": pref + "wrapper/shape", "status": "discharged" if (D and wr["early"] and wr["idx0"] is not None and wr["ret"] and not wr["unparsed"]) else "failed",
                "detail": "size /= %s; early return %s; idx0 = %s; result tuple (c>0, idx): %s; unparsed: %r" % (D, wr["early"], wr["idx0"], wr["ret"], wr["unparsed"]), "model": None})
    if not (D and wr["idx0"] is not None):
        return res
    s.add(sz >= 0, sz < 2 ** 64, n == sz / D)
    # early return: when n == 0 the function returns (false, 0): contract needs 5*(size/5) == 0 there
    early_ok = wr["early"] == ("false", "0")
    s.push()
    s.add(n == 0)
    prove(pref + "wrapper/early-return-matches-contract", s, z3.And(z3.BoolVal(early_ok), 5 * (sz / 5) == 0), res)
    s.pop()
    s.add(n >= 1)
    # ---- prologue (before label): only clc allowed
    CF = z3.Bool("cf_in")
    for ins in lines[:head]:
        if ins == "clc":
            CF = z3.BoolVal(False)
        else:
            raise Undecided("unsupported prologue instruction: " + ins)
    # init: invariant with k = 0
    prove(pref + "init/carry-clear", s, CF == z3.BoolVal(False), res)
    res.append({"name": pref + "init/idx-zero", "status": "discharged" if wr["idx0"] == 0 else "failed", "detail": "let mut idx = %s" % wr["idx0"], "model": None})

    # ---- one symbolic pass over the loop body under the invariant at k
    blk = sum(1 for ins in lines[head:back] if ins.startswith("inc") and "{%s}" % idx_name in ins)
    s.add(kk >= 0, kk < n)
    j = z3.Int("j")
    s.add(z3.ForAll([j], z3.Implies(j >= blk * kk, A[j] == A0[j])))
    s.add(chain(0) == z3.BoolVal(False))
    for i in range(max(blk, 5) + 1):
        s.add(chain(blk * kk + i + 1) == chain_next(blk * kk + i))
    regs = {idx_name: blk * kk, size_name: n - kk}
    CF = chain(blk * kk)
    ZF = z3.Bool("zf_in")
    mem = {a_name: A, b_name: B0}
    tmp = {}
    accesses = []

    def addr(txt):
        mm = re.match(r"qword ptr \[\{(\w+)\} \+ (\d+)\*\{(\w+)\}(?: \+ (\d+))?\]$", txt)
        if not mm:
            raise Undecided("unsupported address form: " + txt)
        base, scale, ireg, d = mm.group(1), int(mm.group(2)), mm.group(3), int(mm.group(4) or 0)
        if base not in mem:
            raise Undecided("address base is not a pointer operand: " + txt)
        off = scale * regs[ireg] + d
        return base, off

    taken = None
    for ins in lines[head + 1:back + 1]:
        op, _, rest = ins.partition(" ")
        args = [x.strip() for x in rest.split(",")] if rest.strip() else []
        if op == "mov":
            if args[1].startswith("qword"):
                base, off = addr(args[1])
                accesses.append((ins, base, off, "load"))
                tmp[args[0]] = mem[base][off / 8]
                accesses[-1] = (ins, base, off, "load")
            elif args[0].startswith("qword"):
                base, off = addr(args[0])
                accesses.append((ins, base, off, "store"))
                if args[1] not in tmp:
                    raise Undecided("store of unset register: " + ins)
                mem[base] = z3.Store(mem[base], off / 8, tmp[args[1]])
            else:
                raise Undecided("unsupported mov form: " + ins)
        elif op in ("adc", "sbb"):
            if args[0] not in tmp or args[1] not in tmp:
                raise Undecided("arithmetic on unset register: " + ins)
            x = z3.ZeroExt(2, tmp[args[0]])
            y = z3.ZeroExt(2, tmp[args[1]])
            c = z3.ZeroExt(2, bit(CF))
            if op == "adc":
                r = x + y + c
                CF = z3.Extract(W, W, r) == 1
            else:
                r = x - y - c
                CF = z3.ULT(x, y + c)
            tmp[args[0]] = z3.Extract(W - 1, 0, r)
        elif op in ("inc", "dec"):
            rname = args[0].strip("{}")
            if rname not in regs:
                raise Undecided("inc/dec of a non-counter register: " + ins)
            regs[rname] = regs[rname] + (1 if op == "inc" else -1)
            ZF = regs[rname] == 0
        elif op == "jnz":
            taken = z3.Not(ZF)
        elif op == "clc":
            CF = z3.BoolVal(False)
        else:
            raise Undecided("unsupported instruction in loop: " + ins)
    # bounds + alignment of every access, against the slice-level precondition (size <= len)
    for ins, base, off, rw in accesses:
        prove(pref + "bounds/%s `%s`" % (rw, ins), s, z3.And(off % 8 == 0, off / 8 >= 0, off / 8 < sz), res)
        if rw == "store":
            res.append({"name": pref + "frame/store-target-is-lhs `%s`" % ins, "status": "discharged" if base == a_name else "failed", "detail": base, "model": None})
    prove(pref + "step/idx", s, regs[idx_name] == blk * (kk + 1), res)
    prove(pref + "step/counter", s, regs[size_name] == n - (kk + 1), res)
    prove(pref + "step/carry-handed-over", s, CF == chain(blk * (kk + 1)), res)
    for i in range(blk):
        prove(pref + "step/digit+%d" % i, s, mem[a_name][blk * kk + i] == digit(blk * kk + i), res)
    jj = z3.Int("jj")
    prove(pref + "step/frame-above", s, z3.ForAll([jj], z3.Implies(jj >= blk * (kk + 1), mem[a_name][jj] == A0[jj])), res)
    prove(pref + "step/frame-below", s, z3.ForAll([jj], z3.Implies(jj < blk * kk, mem[a_name][jj] == A[jj])), res)
    prove(pref + "step/rhs-unchanged", s, mem[b_name] == B0, res)
    if taken is None:
        raise Undecided("no back edge")
    prove(pref + "step/loop-continues-iff-blocks-remain", s, taken == (kk + 1 < n), res)
    prove(pref + "step/no-register-wrap", s, z3.And(regs[idx_name] >= 0, regs[idx_name] < 2 ** 64, regs[size_name] >= 0), res)
    # ---- exit: after the loop (k+1 == n): setc / clc ; result (c > 0, idx)
    cval = None
    CFx = CF
    for ins in lines[back + 1:]:
        op, _, rest = ins.partition(" ")
        if op == "setc":
            cval = CFx
        elif op == "clc":
            CFx = z3.BoolVal(False)
        else:
            raise Undecided("unsupported epilogue instruction: " + ins)
    s.push()
    s.add(kk + 1 == n)
    if cval is None:
        res.append({"name": pref + "exit/carry-returned", "status": "failed", "detail": "no setc", "model": None})
    else:
        prove(pref + "exit/carry-returned", s, cval == chain(blk * n), res)
    prove(pref + "exit/done-count", s, regs[idx_name] == 5 * (sz / 5), res)
    s.pop()
    # vacuity: the premises are satisfiable
    r = s.check()
    res.append({"name": pref + "premises-consistent", "status": "discharged" if r == z3.sat else "failed", "detail": str(r), "model": None})
    return res


def stub_matches(kind):
    """The contract proved here must be the contract the Verus units assume."""
    unit = "k_add" if kind == "add" else "k_sub"
    with open(os.path.join(ROOT, "contracts", "units", unit + ".rs")) as f:
        t = f.read()
    m = re.search(r"fn schoolbook_%s_assign_x86_64\(lhs: &mut \[u64\], rhs: &\[u64\], size: usize\) -> \(r: \(bool, usize\)\)\s*requires (.*?)\s*ensures(.*?)\{ unimplemented!\(\) \}" % kind, t, re.S)
    if not m:
        return False, "stub not found"
    req = re.sub(r"\s+", " ", m.group(1)).strip().rstrip(",")
    ens = [re.sub(r"\s+", " ", x).strip() for x in m.group(2).strip().rstrip(",").split(",\n")]
    ens = [e.rstrip(",") for e in ens if e]
    ok = req == EXPECTED_REQ and ens == EXPECTED_STUB[kind]
    return ok, "requires: %s | ensures: %s" % (req, ens)


def run(repo, tier="quick"):
    t0 = time.time()
    obligations = []
    status = "pass"
    reason = None
    for kind in ("add", "sub"):
        try:
            k = parse_kernel(repo, kind)
            obligations.extend(kernel_vcs(k))
            ok, detail = stub_matches(kind)
            obligations.append({"name": "asm:schoolbook_%s_assign_x86_64 / contract-is-the-one-assumed-by-verus-units" % kind,
                                "status": "discharged" if ok else "unknown", "detail": detail, "model": None})
        except Undecided as e:
            status = "undecided"
            reason = str(e)
    if any(o["status"] == "unknown" for o in obligations) and status == "pass":
        status = "undecided"
        reason = "solver returned unknown / stub mismatch: %s" % [o["name"] for o in obligations if o["status"] == "unknown"][:3]
    if any(o["status"] == "failed" for o in obligations):
        status = "failed" if status != "undecided" else status
    return {"engine": "asm", "status": status, "reason": reason, "obligations": obligations,
            "n_obligations": len(obligations), "n_discharged": sum(1 for o in obligations if o["status"] == "discharged"),
            "wall_s": round(time.time() - t0, 2),
            "cmd": "python3-vt tools/asmvc.py (z3 %s)" % z3.get_version_string(),
            "assumptions": ["engine A: x86-64 semantics table for mov/adc/sbb/inc/dec/jnz/setc/clc (tools/asmvc.py SEM)",
                            "engine A: pointers passed to the asm kernels address exactly the slices of rule R1; address arithmetic does not wrap inside an allocation",
                            "engine A: Rust asm! operand-class rules as encoded in operand_class()"],
            "samples": [o["name"] for o in obligations[:3]]}


if __name__ == "__main__":
    import json
    import sys
    r = run(sys.argv[1] if len(sys.argv) > 1 else "/repo")
    for o in r["obligations"]:
        print(o["status"].upper().ljust(11), o["name"], ("-- " + str(o.get("detail"))) if o["status"] != "discharged" and o.get("detail") else "")
    print(r["status"], r["reason"], r["n_discharged"], "/", r["n_obligations"], r["wall_s"], "s")
