//@ unit u_ones : BigUint::trailing_ones and count_ones at value level (src/biguint.rs)
#![feature(allocator_api)]
use vstd::prelude::*;
use vstd::std_specs::iter::IteratorSpec;
use vstd::arithmetic::power2::pow2;
verus! {
//@ include prelude/core.rs
//@ include prelude/std_specs.rs
//@ include prelude/highbits.rs
//@ include prelude/bitval.rs
pub mod u {
use super::*;

pub mod big_digit {
    use vstd::prelude::*;
    pub type BigDigit = u64;
//@ extract src/lib.rs :: mod big_digit :: const BITS
    pub(crate) const BITS: u8 = BigDigit::BITS as u8;
//@ end
}

//@ extract src/biguint.rs :: struct BigUint
pub struct BigUint {
    data: Vec<BigDigit>,
}
//@ end
//@ include prelude/biguint_view.rs
pub open spec fn p2(k: nat) -> nat { pow2(k) }

/// number of one bits of a natural number
pub open spec fn popc(v: nat) -> nat
    decreases v
{
    if v == 0 { 0 } else { v % 2 + popc(v / 2) }
}

//@ assume std::u64::count_ones : std documentation: "Returns the number of ones in the binary representation of self"
pub assume_specification[ u64::count_ones ](x: u64) -> (r: u32)
    ensures r as nat == popc(x as nat);

pub proof fn lemma_popc_bound(v: nat, k: nat)
    requires v < p2(k)
    ensures popc(v) <= k
    decreases k
{
    vstd::arithmetic::power2::lemma2_to64();
    if v > 0 {
        if k == 0 { } else {
            vstd::arithmetic::power2::lemma_pow2_unfold(k);
            lemma_popc_bound(v / 2, (k - 1) as nat);
        }
    }
}

/// the one bits of a + 2^k * b (a < 2^k) are those of a and those of b
pub proof fn lemma_popc_concat(a: nat, b: nat, k: nat)
    requires a < p2(k)
    ensures popc(a + p2(k) * b) == popc(a) + popc(b)
    decreases k
{
    vstd::arithmetic::power2::lemma2_to64();
    if k == 0 {
        assert(a == 0);
        assert(p2(0) * b == b) by (nonlinear_arith) requires p2(0) == 1;
    } else {
        vstd::arithmetic::power2::lemma_pow2_unfold(k);
        let h = p2((k - 1) as nat);
        let v = a + p2(k) * b;
        assert(p2(k) * b == 2 * (h * b)) by (nonlinear_arith) requires p2(k) == 2 * h;
        // v == 2 * (a/2 + h*b) + a%2
        vstd::arithmetic::div_mod::lemma_fundamental_div_mod(a as int, 2);
        vstd::arithmetic::div_mod::lemma_fundamental_div_mod_converse(v as int, 2, (a / 2 + h * b) as int, (a % 2) as int);
        lemma_popc_concat(a / 2, b, (k - 1) as nat);
        if v == 0 {
            assert(a == 0);
            assert(h * b == 0);
            vstd::arithmetic::power2::lemma_pow2_pos((k - 1) as nat);
            assert(b == 0) by (nonlinear_arith) requires h * b == 0, h >= 1;
        }
    }
}

/// d + 1 for a digit d that is not all ones: 2^to times an odd number, to = trailing_ones(d)
pub proof fn lemma_to_digit(d: u64)
    requires d != 0xffff_ffff_ffff_ffffu64
    ensures ({
        let k = vstd::std_specs::bits::u64_trailing_ones(d) as nat;
        &&& k < 64
        &&& ((d + 1) as nat) % p2(k) == 0
        &&& (((d + 1) as nat) / p2(k)) % 2 == 1
    })
{
    vstd::std_specs::bits::axiom_u64_trailing_ones(d);
    let k = vstd::std_specs::bits::u64_trailing_ones(d);
    let t = k as u64;
    let e = (d + 1) as u64;
    assert(t < 64);
    let o = e >> t;
    assert(((e >> t) << t) == e && (e >> t) & 1 == 1) by (bit_vector)
        requires t < 64, e == add(d, 1u64), d != 0xffff_ffff_ffff_ffffu64, forall|j: u64| j < t ==> #[trigger] ((d >> j) & 1) == 1, ((d >> t) & 1) == 0;
    assert((o & 1 == 1) == (o % 2 == 1)) by (bit_vector);
    vstd::bits::lemma_u64_shr_is_div(e, t);
    vstd::arithmetic::power2::lemma_pow2_pos(t as nat);
    assert(((o << t) >> t) == o) by (bit_vector) requires t < 64, o == e >> t;
    lemma_shl_no_overflow_(o, t);
    assert((o as nat) * p2(t as nat) == e as nat);
    vstd::arithmetic::div_mod::lemma_mod_multiples_basic(o as int, p2(t as nat) as int);
}

/// if (t << l) >> l == t then t * 2^l == t << l (no overflow)
pub proof fn lemma_shl_no_overflow_(t: u64, l: u64)
    requires l < 64, ((t << l) >> l) == t
    ensures (t as nat) * p2(l as nat) == (t << l) as nat
{
    vstd::arithmetic::power2::lemma2_to64();
    assert(t <= (0xffff_ffff_ffff_ffffu64 >> l)) by (bit_vector) requires l < 64, ((t << l) >> l) == t;
    vstd::bits::lemma_u64_shr_is_div(0xffff_ffff_ffff_ffffu64, l);
    let m = (0xffff_ffff_ffff_ffffu64 >> l) as nat;
    let p = p2(l as nat);
    vstd::arithmetic::power2::lemma_pow2_pos(l as nat);
    vstd::arithmetic::div_mod::lemma_fundamental_div_mod(0xffff_ffff_ffff_ffffint, p as int);
    assert(m * p <= 0xffff_ffff_ffff_ffffnat) by (nonlinear_arith)
        requires 0xffff_ffff_ffff_ffffint == (p as int) * (m as int) + (0xffff_ffff_ffff_ffffint % (p as int)), 0xffff_ffff_ffff_ffffint % (p as int) >= 0;
    assert((t as nat) * p <= m * p) by (nonlinear_arith) requires (t as nat) <= m;
    vstd::bits::lemma_u64_shl_is_mul(t, l);
}

pub proof fn lemma_valp_ones(s: Seq<u64>, i: nat)
    requires i <= s.len(), forall|j: int| 0 <= j < i ==> s[j] == 0xffff_ffff_ffff_ffffu64
    ensures valp(s, i) + 1 == pw(i)
    decreases i
{
    if i > 0 {
        lemma_valp_ones(s, (i - 1) as nat);
        let p = pw((i - 1) as nat);
        assert(0xffff_ffff_ffff_ffffnat * p + p == B() * p) by (nonlinear_arith);
    }
}

/// v + 1 for v whose digits below i are all ones and whose digit i is not: 2^(64 i + k) times an odd number
pub proof fn lemma_to_value(s: Seq<u64>, i: nat, k: nat, d1: nat)
    requires i < s.len(), forall|j: int| 0 <= j < i ==> s[j] == 0xffff_ffff_ffff_ffffu64,
        d1 == s[i as int] as nat + 1, k < 64, d1 % p2(k) == 0, (d1 / p2(k)) % 2 == 1
    ensures (val(s) + 1) % p2(64 * i + k) == 0, bitv(val(s) + 1, 64 * i + k)
{
    let t = 64 * i + k;
    let hi = val(s.subrange(i as int + 1, s.len() as int));
    let v1 = val(s) + 1;
    lemma_digit_split(s, i);
    lemma_valp_ones(s, i);
    // v + 1 == B^i * (d1 + B * hi)
    assert(v1 == pw(i) * (d1 + B() * hi)) by (nonlinear_arith)
        requires val(s) == valp(s, i) + pw(i) * ((s[i as int] as nat) + B() * hi), valp(s, i) + 1 == pw(i), d1 == s[i as int] as nat + 1, v1 == val(s) + 1;
    lemma_shift_out(v1, 0, i, d1, hi, k);
    let ptz = p2(k); let pc = p2((64 - k) as nat); let o = d1 / ptz;
    let h2 = pc / 2;
    vstd::arithmetic::div_mod::lemma_fundamental_div_mod(pc as int, 2);
    assert(pc * hi == 2 * (h2 * hi)) by (nonlinear_arith) requires pc == 2 * h2;
    vstd::arithmetic::div_mod::lemma_mod_multiples_vanish((h2 * hi) as int, o as int, 2);
    lemma_pw_p2_(i);
    vstd::arithmetic::power2::lemma_pow2_adds(64 * i, k);
    vstd::arithmetic::power2::lemma_pow2_adds(k, (64 - k) as nat);
    vstd::arithmetic::power2::lemma2_to64();
    vstd::arithmetic::power2::lemma_pow2_pos(k);
    vstd::arithmetic::power2::lemma_pow2_pos(t);
    vstd::arithmetic::div_mod::lemma_fundamental_div_mod(d1 as int, ptz as int);
    assert(v1 == (o + pc * hi) * p2(t)) by (nonlinear_arith)
        requires v1 == pw(i) * (d1 + B() * hi), d1 == ptz * o, ptz * pc == B(), p2(t) == pw(i) * ptz;
    vstd::arithmetic::div_mod::lemma_mod_multiples_basic((o + pc * hi) as int, p2(t) as int);
}

impl BigUint {
//@ extract src/biguint.rs :: impl BigUint :: fn trailing_ones rules=R0,R12b2,R3k props=C07
    pub fn trailing_ones(&self) -> /*+*/(r: /*-*/u64/*+*/)/*-*/
//+{
        ensures (self.v() + 1) % p2(r as nat) == 0, bitv(self.v() + 1, r as nat)
//+}
    {
//+{
        proof { axiom_vec_u64_len(&self.data); }
//+}
        if let Some(i) = __pos_not_ones(&self.data) {
//+{
            proof {
                let d = self.data@[i as int];
                lemma_to_digit(d);
                lemma_to_value(self.data@, i as nat, vstd::std_specs::bits::u64_trailing_ones(d) as nat, (d + 1) as nat);
            }
//+}
            let ones: u64 = From::from(self.data[i].trailing_ones());
            i as u64 * u64::from(big_digit::BITS) + ones
        } else {
//+{
            proof {
                let n = self.data@.len();
                lemma_valp_ones(self.data@, n);
                lemma_pw_p2_(n);
                vstd::arithmetic::power2::lemma_pow2_pos(64 * n);
                vstd::arithmetic::div_mod::lemma_mod_self_0(p2(64 * n) as int);
                vstd::arithmetic::div_mod::lemma_div_basics(p2(64 * n) as int);
            }
//+}
            self.data.len() as u64 * u64::from(big_digit::BITS)
        }
    }
//@ end

//@ extract src/biguint.rs :: impl BigUint :: fn count_ones rules=R0,R41 props=C07
    pub fn count_ones(&self) -> /*+*/(r: /*-*/u64/*+*/)/*-*/
//+{
        ensures r as nat == popc(self.v())
//+}
    {
//+{
        proof { axiom_vec_u64_len(&self.data); }
//+}
        { let mut s__: u64 = 0; let mut i__ = 0; while i__ < self.data.len()
//+{
            invariant i__ <= self.data@.len(), self.data@.len() < 0x200_0000_0000_0000, s__ as nat == popc(valp(self.data@, i__ as nat)), s__ <= 64 * i__,
            decreases self.data@.len() - i__
//+}
        { let d = self.data[i__]; i__ += 1;
//+{
            proof {
                let k = (i__ - 1) as nat;
                lemma_valp_bound(self.data@, k);
                lemma_pw_p2_(k);
                lemma_popc_concat(valp(self.data@, k), d as nat, 64 * k);
                assert((d as nat) * pw(k) == pw(k) * (d as nat)) by (nonlinear_arith);
                vstd::arithmetic::power2::lemma2_to64_rest();
                lemma_popc_bound(d as nat, 64);
            }
//+}
            s__ = s__ + u64::from(d.count_ones()); } s__ }
    }
//@ end
}

} // mod u
} // verus!
fn main() {}
