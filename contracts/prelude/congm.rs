// Congruence modulo m over the integers and the algebra used by Montgomery exponentiation (C05).
pub open spec fn congm(x: int, y: int, m: int) -> bool { exists|k: int| x == y + #[trigger] (k * m) }

pub proof fn lemma_congm_refl(x: int, m: int)
    ensures congm(x, x, m)
{
    assert(x == x + #[trigger] (0int * m)) by (nonlinear_arith);
}

pub proof fn lemma_congm_sym(x: int, y: int, m: int)
    requires congm(x, y, m)
    ensures congm(y, x, m)
{
    let k = choose|k: int| x == y + #[trigger] (k * m);
    assert(y == x + (-k) * m) by (nonlinear_arith) requires x == y + k * m;
    assert(y == x + #[trigger] ((-k) * m));
}

pub proof fn lemma_congm_trans(x: int, y: int, z: int, m: int)
    requires congm(x, y, m), congm(y, z, m)
    ensures congm(x, z, m)
{
    let k1 = choose|k: int| x == y + #[trigger] (k * m);
    let k2 = choose|k: int| y == z + #[trigger] (k * m);
    assert(x == z + (k1 + k2) * m) by (nonlinear_arith) requires x == y + k1 * m, y == z + k2 * m;
    assert(x == z + #[trigger] ((k1 + k2) * m));
}

pub proof fn lemma_congm_mul(a: int, b: int, c: int, d: int, m: int)
    requires congm(a, b, m), congm(c, d, m)
    ensures congm(a * c, b * d, m)
{
    let k1 = choose|k: int| a == b + #[trigger] (k * m);
    let k2 = choose|k: int| c == d + #[trigger] (k * m);
    let t1 = k1 * m; let t2 = k2 * m;
    assert(a * c == b * d + b * t2 + t1 * d + t1 * t2) by (nonlinear_arith) requires a == b + t1, c == d + t2;
    assert(b * t2 == (b * k2) * m) by (nonlinear_arith) requires t2 == k2 * m;
    assert(t1 * d == (k1 * d) * m) by (nonlinear_arith) requires t1 == k1 * m;
    assert(t1 * t2 == (k1 * t2) * m) by (nonlinear_arith) requires t1 == k1 * m;
    let kk = b * k2 + k1 * d + k1 * t2;
    assert(kk * m == (b * k2) * m + (k1 * d) * m + (k1 * t2) * m) by (nonlinear_arith) requires kk == b * k2 + k1 * d + k1 * t2;
    assert(a * c == b * d + #[trigger] (kk * m));
}

pub proof fn lemma_congm_add_multiple(x: int, j: int, m: int)
    ensures congm(x + j * m, x, m), congm(x - j * m, x, m)
{
    assert(x + j * m == x + #[trigger] (j * m));
    assert(x - j * m == x + (-j) * m) by (nonlinear_arith);
    assert(x - j * m == x + #[trigger] ((-j) * m));
}

/// x mod m is congruent to x (m > 0)
pub proof fn lemma_congm_mod(x: nat, m: nat)
    requires m > 0
    ensures congm((x % m) as int, x as int, m as int), x % m < m
{
    vstd::arithmetic::div_mod::lemma_fundamental_div_mod(x as int, m as int);
    vstd::arithmetic::div_mod::lemma_mod_bound(x as int, m as int);
    let q = (x / m) as int;
    assert((x % m) as int == x as int + (-q) * (m as int)) by (nonlinear_arith) requires x as int == (m as int) * q + (x % m) as int;
    assert((x % m) as int == x as int + #[trigger] ((-q) * (m as int)));
}

/// an odd m dividing 2*d divides d (integers)
pub proof fn lemma_odd_cancel2(d: int, m: int)
    requires m % 2 == 1, m > 0, congm(2 * d, 0, m)
    ensures congm(d, 0, m)
{
    let k = choose|k: int| 2 * d == 0 + #[trigger] (k * m);
    // k * m is even and m is odd, so k is even
    if k % 2 != 0 {
        let kh = k / 2; let mh = m / 2;
        assert(k == 2 * kh + 1);
        assert(m == 2 * mh + 1);
        assert(k * m == 2 * (2 * kh * mh + kh + mh) + 1) by (nonlinear_arith) requires k == 2 * kh + 1, m == 2 * mh + 1;
        assert(false);
    }
    let k2 = k / 2;
    assert(d == k2 * m) by (nonlinear_arith) requires 2 * d == k * m, k == 2 * k2;
    assert(d == 0 + #[trigger] (k2 * m));
}

/// an odd m dividing 2^t * d divides d
pub proof fn lemma_odd_cancel_pow2(d: int, m: int, t: nat)
    requires m % 2 == 1, m > 0, congm((vstd::arithmetic::power2::pow2(t) as int) * d, 0, m)
    ensures congm(d, 0, m)
    decreases t
{
    vstd::arithmetic::power2::lemma2_to64();
    if t == 0 {
        assert((vstd::arithmetic::power2::pow2(0) as int) * d == d) by (nonlinear_arith) requires vstd::arithmetic::power2::pow2(0) == 1;
    } else {
        let p = vstd::arithmetic::power2::pow2((t - 1) as nat) as int;
        vstd::arithmetic::power2::lemma_pow2_unfold(t);
        assert((vstd::arithmetic::power2::pow2(t) as int) * d == 2 * (p * d)) by (nonlinear_arith) requires vstd::arithmetic::power2::pow2(t) as int == 2 * p;
        lemma_odd_cancel2(p * d, m);
        lemma_odd_cancel_pow2(d, m, (t - 1) as nat);
    }
}

/// cancellation of R = 2^t modulo an odd m: a*R == b*R (mod m)  ==>  a == b (mod m)
pub proof fn lemma_congm_cancel_pow2(a: int, b: int, m: int, t: nat)
    requires m % 2 == 1, m > 0, congm(a * (vstd::arithmetic::power2::pow2(t) as int), b * (vstd::arithmetic::power2::pow2(t) as int), m)
    ensures congm(a, b, m)
{
    let r = vstd::arithmetic::power2::pow2(t) as int;
    let k = choose|k: int| a * r == b * r + #[trigger] (k * m);
    assert(r * (a - b) == 0 + k * m) by (nonlinear_arith) requires a * r == b * r + k * m;
    assert(r * (a - b) == 0 + #[trigger] (k * m));
    lemma_odd_cancel_pow2(a - b, m, t);
    let k2 = choose|k: int| a - b == 0 + #[trigger] (k * m);
    assert(a == b + #[trigger] (k2 * m));
}
