// divisibility / gcd / lcm vocabulary (C13)
pub open spec fn divides(d: nat, a: nat) -> bool { exists|k: nat| a == #[trigger] (k * d) }
/// g is the greatest common divisor of a and b (g = 0 iff a = b = 0)
pub open spec fn is_gcd(a: nat, b: nat, g: nat) -> bool {
    divides(g, a) && divides(g, b) && forall|d: nat| divides(d, a) && divides(d, b) ==> #[trigger] divides(d, g)
}
/// unsigned division: a = q*b + m with m < b
pub open spec fn udiv_ok(a: nat, b: nat, q: nat, m: nat) -> bool { a == q * b + m && m < b }
/// l = a*b / gcd(a,b), stated without division: l * g == a * b for the gcd g (l = 0 when a = b = 0)
pub open spec fn is_lcm_via_gcd(a: nat, b: nat, l: nat) -> bool {
    if a == 0 && b == 0 { l == 0 } else { exists|g: nat| is_gcd(a, b, g) && g != 0 && l * g == a * b }
}

pub proof fn lemma_divides_zero(a: nat)
    ensures divides(0, a) <==> a == 0, divides(a, 0)
{
    assert(0 == 0 * a) by (nonlinear_arith);
    if divides(0, a) { let k = choose|k: nat| a == #[trigger] (k * 0); assert(k * 0 == 0) by (nonlinear_arith); }
    if a == 0 { assert(0 == #[trigger] (0nat * 0nat)) by (nonlinear_arith); }
}

/// the gcd of two numbers that are not both zero is not zero
pub proof fn lemma_gcd_nonzero(a: nat, b: nat)
    ensures forall|g: nat| (a != 0 || b != 0) && #[trigger] is_gcd(a, b, g) ==> g != 0
{
    lemma_divides_zero(a);
    lemma_divides_zero(b);
}

/// exact division by a divisor: a = k*g and a = q*g + m, m < g  ==>  m = 0 and q = k
pub proof fn lemma_exact_div(a: nat, g: nat, q: nat, m: nat)
    requires divides(g, a), udiv_ok(a, g, q, m)
    ensures m == 0, a == q * g
{
    let k = choose|k: nat| a == #[trigger] (k * g);
    if k > q {
        assert((k - q) * g >= g) by (nonlinear_arith) requires k - q >= 1;
        assert((k - q) * g == k * g - q * g) by (nonlinear_arith) requires k >= q;
    } else if k < q {
        assert((q - k) * g >= g) by (nonlinear_arith) requires q - k >= 1;
        assert((q - k) * g == q * g - k * g) by (nonlinear_arith) requires q >= k;
    }
}

/// lcm by "divide first": (a / g) * b with g = gcd(a, b)
pub proof fn lemma_lcm_all(a: nat, b: nat)
    ensures forall|g: nat, q: nat, m: nat| #![trigger is_gcd(a, b, g), udiv_ok(a, g, q, m)]
        is_gcd(a, b, g) && udiv_ok(a, g, q, m) ==> (q * b) * g == a * b
{
    assert forall|g: nat, q: nat, m: nat| #![trigger is_gcd(a, b, g), udiv_ok(a, g, q, m)]
        is_gcd(a, b, g) && udiv_ok(a, g, q, m) implies (q * b) * g == a * b by {
        lemma_exact_div(a, g, q, m);
        assert((q * b) * g == (q * g) * b) by (nonlinear_arith);
    }
}

/// a remainder of zero is divisibility (b != 0)
pub proof fn lemma_rem_zero_iff_divides(a: nat, b: nat)
    ensures forall|q: nat, m: nat| #[trigger] udiv_ok(a, b, q, m) ==> ((m == 0) <==> divides(b, a))
{
    assert forall|q: nat, m: nat| #[trigger] udiv_ok(a, b, q, m) implies ((m == 0) <==> divides(b, a)) by {
        if m == 0 { assert(a == #[trigger] (q * b)); }
        if divides(b, a) { lemma_exact_div(a, b, q, m); }
    }
}

/// a - (a mod b) is the multiple of b at or below a; a + (b - a mod b) the one above
pub proof fn lemma_prev_multiple(a: nat, b: nat)
    ensures forall|q: nat, m: nat| #[trigger] udiv_ok(a, b, q, m) ==> divides(b, (a - m) as nat) && m <= a && divides(b, (a + (b - m)) as nat)
{
    assert forall|q: nat, m: nat| #[trigger] udiv_ok(a, b, q, m) implies divides(b, (a - m) as nat) && m <= a && divides(b, (a + (b - m)) as nat) by {
        assert((a - m) as nat == #[trigger] (q * b));
        assert((q + 1) * b == q * b + b) by (nonlinear_arith);
        assert((a + (b - m)) as nat == #[trigger] ((q + 1) * b));
    }
}
