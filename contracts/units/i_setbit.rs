//@ unit i_setbit : BigInt::bits and BigInt::set_bit at value level, including the five sub-cases of set_negative_bit on the two's-complement view of a negative number (src/bigint.rs, src/bigint/bits.rs)
#![feature(allocator_api)]
use vstd::prelude::*;
use vstd::std_specs::iter::IteratorSpec;
use vstd::std_specs::ops::*;
use core::cmp::Ordering;
use vstd::arithmetic::power2::pow2;
verus! {
//@ include prelude/core.rs
//@ include prelude/std_specs.rs
//@ include prelude/panic.rs
//@ include prelude/bitdigits.rs
//@ include prelude/bitval.rs
//@ include prelude/twos.rs
//@ include prelude/highbits.rs
//@ extract src/bigint.rs :: enum Sign attrs=1
#[derive(/*+*/Structural, /*-*/PartialEq, PartialOrd, Eq, Ord, Copy, Clone, Debug, Hash)]
pub enum Sign {
    Minus,
    NoSign,
    Plus,
}
//@ end
pub mod u {
use super::*;
use Sign::*;

pub mod big_digit {
    use vstd::prelude::*;
    pub type BigDigit = u64;
    pub type DoubleBigDigit = u128;
//@ extract src/lib.rs :: mod big_digit :: const BITS
    pub(crate) const BITS: u8 = BigDigit::BITS as u8;
//@ end
//@ extract src/lib.rs :: mod big_digit :: const MAX
    pub(crate) const MAX: BigDigit = BigDigit::MAX;
//@ end
}
use self::big_digit::DoubleBigDigit;

//@ extract src/biguint.rs :: struct BigUint
pub struct BigUint {
    data: Vec<BigDigit>,
}
//@ end
//@ include prelude/biguint_view.rs
pub open spec fn p2(k: nat) -> nat { pow2(k) }

// local model of num_traits::ToPrimitive::to_usize on u64 (external crate): Some(v) iff the value fits usize
pub trait ToPrimitive: Sized {
    spec fn as_int(self) -> int;
    fn to_usize(self) -> (r: Option<usize>)
        ensures r is Some <==> 0 <= self.as_int() <= usize::MAX, r is Some ==> r.unwrap() as int == self.as_int();
}
impl ToPrimitive for u64 {
    open spec fn as_int(self) -> int { self as int }
    //@ assume num_traits::<u64 as ToPrimitive>::to_usize : external crate; contract on the trait declaration above
    #[verifier::external_body]
    fn to_usize(self) -> (r: Option<usize>) { unimplemented!() }
}

impl BigUint {
//@ stub u_core/is_zero
//@ stub u_core/normalize
//@ stub u_bitq/trailing_zeros
//@ stub u_bitq/set_bit
//@ stub i_bits/digits_mut
//@ stub i_bits/biguint_len
//@ stub u_conv/bits
}

//@ extract src/bigint.rs :: struct BigInt
pub struct BigInt {
    sign: Sign,
    data: BigUint,
}
//@ end
//@ include prelude/bigint_view.rs

//@ stub k_twos/negate_carry

/// shape of a non-zero digit around its lowest set bit
pub proof fn lemma_tz_shape(d: u64)
    requires d != 0
    ensures ({
        let t = vstd::std_specs::bits::u64_trailing_zeros(d) as u64;
        &&& t < 64
        &&& ((d >> t) << t) == d
        &&& (d >> t) & 1 == 1
    })
{
    vstd::std_specs::bits::axiom_u64_trailing_zeros(d);
    let t = vstd::std_specs::bits::u64_trailing_zeros(d) as u64;
    assert(t < 64);
    assert(((d >> t) << t) == d) by (bit_vector)
        requires t < 64, forall|j: u64| j < t ==> #[trigger] ((d >> j) & 1) == 0;
}

/// first digit of the clear-the-lowest-set-bit case: negate, clear bit b, negate back == add 2^b (with carry)
pub proof fn lemma_clear_first(d: u64, b: u64)
    requires b < 64, d != 0, ((d >> b) << b) == d, (d >> b) & 1 == 1
    ensures ({
        let m = 1u64 << b;
        let ti = ((!d) as nat + 1) as u64;
        let to = ti & !m;
        &&& (!d) as nat + 1 < B()
        &&& m != 0
        &&& ((d as nat) + (m as nat) < B()) ==> to != 0 && (!to) as nat + 1 == d as nat + m as nat
        &&& ((d as nat) + (m as nat) >= B()) ==> to == 0 && d as nat + m as nat == B() && (!to) as nat + 1 == B()
    })
{
    let m = 1u64 << b;
    assert(!d < 0xffff_ffff_ffff_ffffu64) by (bit_vector) requires d != 0;
    let ti = add(!d, 1u64);
    assert(ti == ((!d) as nat + 1) as u64);
    let to = ti & !m;
    assert(m != 0) by (bit_vector) requires b < 64, m == 1u64 << b;
    assert(d <= 0xffff_ffff_ffff_ffffu64 - m ==> to != 0 && !to < 0xffff_ffff_ffff_ffffu64 && add(!to, 1u64) == add(d, m)) by (bit_vector)
        requires b < 64, d != 0, ((d >> b) << b) == d, (d >> b) & 1 == 1, m == 1u64 << b, ti == add(!d, 1u64), to == ti & !m;
    assert(d > 0xffff_ffff_ffff_ffffu64 - m ==> to == 0 && sub(0xffff_ffff_ffff_ffffu64, d) == sub(m, 1u64)) by (bit_vector)
        requires b < 64, d != 0, ((d >> b) << b) == d, (d >> b) & 1 == 1, m == 1u64 << b, ti == add(!d, 1u64), to == ti & !m;
    assert(!0u64 == 0xffff_ffff_ffff_ffffu64) by (bit_vector);
}

pub proof fn lemma_not_not(d: u64)
    ensures !(!d) == d
{
    assert(!(!d) == d) by (bit_vector);
}

/// flipping bits bl..=th of a digit whose lowest set bit is th subtracts 2^bl (same-digit case), or 1 (mask from bit 0)
pub proof fn lemma_xor_masks(d: u64, bl: u64, th: u64)
    requires th < 64, d != 0, ((d >> th) << th) == d, (d >> th) & 1 == 1
    ensures
        bl < th ==> (d ^ ((0xffff_ffff_ffff_ffffu64 << bl) & (0xffff_ffff_ffff_ffffu64 >> ((63 - th) as u64)))) as nat + (1u64 << bl) as nat == d as nat,
        (d ^ (0xffff_ffff_ffff_ffffu64 >> ((63 - th) as u64))) as nat + 1 == d as nat,
        bl < 64 ==> (0xffff_ffff_ffff_ffffu64 << bl) as nat + (1u64 << bl) as nat == B(),
{
    let mx = 0xffff_ffff_ffff_ffffu64;
    let sh = (63 - th) as u64;
    assert(sh == sub(63u64, th));
    if bl < th {
        let x = d ^ ((mx << bl) & (mx >> sh));
        let m = 1u64 << bl;
        assert(d >= m && x == sub(d, m)) by (bit_vector)
            requires bl < th, th < 64, ((d >> th) << th) == d, (d >> th) & 1 == 1, sh == sub(63u64, th), mx == 0xffff_ffff_ffff_ffffu64,
                x == d ^ ((mx << bl) & (mx >> sh)), m == 1u64 << bl;
    }
    let y = d ^ (mx >> sh);
    assert(d >= 1 && y == sub(d, 1u64)) by (bit_vector)
        requires th < 64, ((d >> th) << th) == d, (d >> th) & 1 == 1, sh == sub(63u64, th), mx == 0xffff_ffff_ffff_ffffu64, y == d ^ (mx >> sh);
    if bl < 64 {
        let l = mx << bl;
        let m = 1u64 << bl;
        assert(m >= 1 && sub(mx, l) == sub(m, 1u64)) by (bit_vector) requires bl < 64, mx == 0xffff_ffff_ffff_ffffu64, l == mx << bl, m == 1u64 << bl;
    }
}

/// value bookkeeping of one digit update
pub proof fn lemma_digit_step(v0: nat, v1: nat, o: nat, n: nat, c0: nat, c1: nat, k: nat, t: nat)
    requires v1 + o * pw(k) == v0 + n * pw(k), n + c1 * B() == o + c0, v0 + c0 * pw(k) == t
    ensures v1 + c1 * pw(k + 1) == t
{
    let p = pw(k);
    assert(pw(k + 1) == B() * p);
    assert(c1 * (B() * p) == (c1 * B()) * p) by (nonlinear_arith);
    assert((n + c1 * B()) * p == n * p + (c1 * B()) * p) by (nonlinear_arith);
    assert((o + c0) * p == o * p + c0 * p) by (nonlinear_arith);
}

//@ extract src/bigint/bits.rs :: fn set_negative_bit rules=R0,R14e,R46,R47 props=C07
pub(super) fn set_negative_bit(x: &mut BigInt, bit: u64, value: bool)
//+{
    requires old(x).wfi(), old(x).sg() == Minus
    ensures final(x).sg() == Minus, final(x).mag().v() > 0,
        -(final(x).mag().v() as int) == set_bit_target(old(x).iv(), bit as nat, value),
//+}
{
//+{
    let ghost m = x.data.v();
    let ghost s0 = x.data.dg();
    let ghost nn = -(m as int);
    let ghost k = bit as nat;
    proof {
        lemma_sgn_mul(x.sign, m);
        axiom_vec_u64_len(&x.data.data);
        lemma_valp_bound(s0, s0.len());
        lemma_flip_bit(nn, k);
        vstd::arithmetic::power2::lemma_pow2_pos(k);
    }
//+}
    let data = &mut x.data;

    let bits_per_digit = u64::from(big_digit::BITS);
    if bit >= bits_per_digit * data.len() as u64 {
//+{
        proof {
            lemma_ibit_high(nn, s0.len(), k);
            // bit k of the magnitude is clear: m < B^len <= 2^k
            lemma_pw_p2_(s0.len());
            if k > 64 * s0.len() { vstd::arithmetic::power2::lemma_pow2_strictly_increases(64 * s0.len(), k); }
            vstd::arithmetic::div_mod::lemma_basic_div(m as int, p2(k) as int);
            assert(!bitv(m, k));
        }
//+}
        if !value {
            data.set_bit(bit, true);
        }
//+{
        proof { assert(-(data.v() as int) == set_bit_target(nn, k, value)); }
//+}
    } else {
        // If the Uint number is
        //   ... 0  x 1 0 ... 0
        // then the two's complement is
        //   ... 1 !x 1 0 ... 0
        //            |-- bit at position 'trailing_zeros'
        // where !x is obtained from x by flipping each bit
        let trailing_zeros = data.trailing_zeros().unwrap();
//+{
        let ghost tz = trailing_zeros as nat;
        let ghost hi = (tz / 64) as int;
        let ghost th = (trailing_zeros % 64) as u64;
        proof {
            lemma_neg_bit(m, tz, k);
            lemma_tz_shape(s0[hi]);
            assert(64 * (hi as nat) + th as nat == tz);
        }
//+}
        if bit > trailing_zeros {
//+{
            proof {
                // m - 2^k stays positive: bit tz < k of m is set
                if bitv(m, k) {
                    if m < p2(k) { vstd::arithmetic::div_mod::lemma_basic_div(m as int, p2(k) as int); }
                    if m == p2(k) { lemma_ibit_zero(k); lemma_ibit_zero(tz); lemma_add_bit(0, k, tz); }
                    assert(m > p2(k));
                }
            }
//+}
            data.set_bit(bit, !value);
//+{
            proof { assert(-(data.v() as int) == set_bit_target(nn, k, value)); }
//+}
        } else if bit == trailing_zeros && !value {
            // Clearing the bit at position `trailing_zeros` is dealt with by doing
            // similarly to what `bitand_neg_pos` does, except we start at digit
            // `bit_index`. All digits below `bit_index` are guaranteed to be zero,
            // so initially we have `carry_in` = `carry_out` = 1. Furthermore, we
            // stop traversing the digits when there are no more carries.
            let bit_index = (bit / bits_per_digit).to_usize().unwrap();
            let bit_mask = (1 as BigDigit) << (bit % bits_per_digit);
            let digits__ = data.digits_mut(); let mut it__: usize = bit_index;
            let mut carry_in = 1;
            let mut carry_out = 1;

//+{
            let ghost d0 = s0[hi];
            let ghost tgt = m + p2(k);
            proof {
                assert(bit_index as int == hi);
                lemma_clear_first(d0, th);
                lemma_mask_val(hi as nat, th);
            }
//+}
            let digit = &mut digits__.as_mut_slice()[it__]; it__ += 1;
            let twos_in = negate_carry(*digit, &mut carry_in);
            let twos_out = twos_in & !bit_mask;
            *digit = negate_carry(twos_out, &mut carry_out);
//+{
            proof {
                let d1 = digits__@[hi];
                assert(digits__@ =~= s0.update(hi, d1));
                lemma_val_update_(s0, hi, d1);
                assert(carry_in == 0);
                assert(d1 as nat + (carry_out as nat) * B() == d0 as nat + bit_mask as nat);
                lemma_digit_step(val(s0), val(digits__@), d0 as nat, d1 as nat, bit_mask as nat, carry_out as nat, hi as nat, tgt);
            }
//+}

            while it__ < digits__.len()
//+{
                invariant
                    digits__@.len() == s0.len(), hi < it__ <= s0.len(), carry_in == 0, carry_out <= 1,
                    val(digits__@) + (carry_out as nat) * pw(it__ as nat) == tgt,
                ensures
                    digits__@.len() == s0.len(), carry_out <= 1,
                    carry_out == 0 ==> val(digits__@) == tgt,
                    carry_out != 0 ==> val(digits__@) + pw(s0.len()) == tgt,
                decreases s0.len() - it__
//+}
            {
//+{
                let ghost cur = digits__@;
                let ghost kk = it__ as nat;
                let ghost c0 = carry_out as nat;
                proof {
                    assert(0 * pw(it__ as nat + 1) == 0) by (nonlinear_arith);
                    assert(0 * pw(it__ as nat) == 0) by (nonlinear_arith);
                    lemma_not_not(cur[it__ as int]);
                }
//+}
                let digit = &mut digits__.as_mut_slice()[it__]; it__ += 1;
                if carry_in == 0 && carry_out == 0 {
                    // Exit the loop since no more digits can change
//+{
                    proof { assert(*digit == *final(digit)); assert(digits__@ == cur); assert(val(digits__@) == tgt); }
//+}
                    break;
                }
                let twos = negate_carry(*digit, &mut carry_in);
                *digit = negate_carry(twos, &mut carry_out);
//+{
                proof {
                    let o = cur[kk as int];
                    let n = digits__@[kk as int];
                    assert(twos == !o);
                    assert(digits__@ =~= cur.update(kk as int, n));
                    lemma_val_update_(cur, kk as int, n);
                    assert(n as nat + (carry_out as nat) * B() == o as nat + c0);
                    lemma_digit_step(val(cur), val(digits__@), o as nat, n as nat, c0, carry_out as nat, kk, tgt);
                }
//+}
            }

            if carry_out != 0 {
                // All digits have been traversed and there is a carry
//+{
                proof {
                    lemma_val_push(data.dg(), 1u64);
                    assert(pw(s0.len()) * 1 == pw(s0.len())) by (nonlinear_arith);
                }
//+}
                data.digits_mut().push(1);
            }
//+{
            proof { assert(data.v() == tgt); assert(-(data.v() as int) == set_bit_target(nn, k, value)); }
//+}
        } else if bit < trailing_zeros && value {
            // Flip each bit from position 'bit' to 'trailing_zeros', both inclusive
            //       ... 1 !x 1 0 ... 0 ... 0
            //                        |-- bit at position 'bit'
            //                |-- bit at position 'trailing_zeros'
            // bit_mask:      1 1 ... 1 0 .. 0
            // This is done by xor'ing with the bit_mask
            let index_lo = (bit / bits_per_digit).to_usize().unwrap();
            let index_hi = (trailing_zeros / bits_per_digit).to_usize().unwrap();
            let bit_mask_lo = big_digit::MAX << (bit % bits_per_digit);
            let bit_mask_hi =
                big_digit::MAX >> (bits_per_digit - 1 - (trailing_zeros % bits_per_digit));
            let digits = data.digits_mut();

//+{
            let ghost bl = (bit % 64) as u64;
            let ghost lo = index_lo as int;
            proof {
                assert(index_hi as int == hi);
                assert(64 * (lo as nat) + bl as nat == k);
                assert(lo <= hi);
                lemma_xor_masks(s0[hi], bl, th);
                lemma_mask_val(lo as nat, bl);
                // 2^k < 2^tz <= m
                vstd::arithmetic::power2::lemma_pow2_strictly_increases(k, tz);
                vstd::arithmetic::power2::lemma_pow2_pos(tz);
                vstd::arithmetic::div_mod::lemma_fundamental_div_mod(m as int, p2(tz) as int);
                assert(m >= p2(tz)) by (nonlinear_arith) requires m == p2(tz) * (m / p2(tz)), m > 0, p2(tz) > 0;
            }
//+}
            if index_lo == index_hi {
//+{
                proof {
                    assert(bl < th);
                    lemma_val_update_(s0, hi, s0[hi] ^ (bit_mask_lo & bit_mask_hi));
                    let o = s0[hi] as nat; let n = (s0[hi] ^ (bit_mask_lo & bit_mask_hi)) as nat; let mk = (1u64 << bl) as nat; let p = pw(hi as nat);
                    assert((n + mk) * p == n * p + mk * p) by (nonlinear_arith);
                }
//+}
                digits[index_lo] ^= bit_mask_lo & bit_mask_hi;
//+{
                proof { assert(digits@ =~= s0.update(hi, s0[hi] ^ (bit_mask_lo & bit_mask_hi))); }
//+}
            } else {
//+{
                proof {
                    assert(s0[lo] == 0);
                    lemma_val_update_(s0, lo, bit_mask_lo);
                    let n = bit_mask_lo as nat; let mk = (1u64 << bl) as nat; let p = pw(lo as nat);
                    assert((n + mk) * p == n * p + mk * p) by (nonlinear_arith);
                    assert(pw(lo as nat + 1) == B() * p);
                    assert(0 * p == 0) by (nonlinear_arith);
                }
//+}
                digits[index_lo] = bit_mask_lo;
//+{
                proof { assert(digits@ =~= s0.update(lo, bit_mask_lo)); }
//+}
                { let mut i__ = index_lo + 1; let e__ = index_hi; __slice_range_check(i__, e__, digits.len()); while i__ < e__
//+{
                    invariant
                        digits@.len() == s0.len(), lo < i__ <= e__, e__ as int == hi, hi < s0.len(),
                        forall|j: int| i__ <= j < s0.len() ==> digits@[j] == s0[j],
                        forall|j: int| 0 <= j < hi ==> s0[j] == 0,
                        val(digits@) + p2(k) == m + pw(i__ as nat),
                    decreases e__ - i__
//+}
                {
//+{
                    let ghost cur = digits@;
                    let ghost kk = i__ as nat;
                    proof {
                        lemma_val_update_(cur, kk as int, 0xffff_ffff_ffff_ffffu64);
                        let p = pw(kk);
                        assert(pw(kk + 1) == B() * p);
                        assert(0 * p == 0) by (nonlinear_arith);
                        assert(0xffff_ffff_ffff_ffffnat * p + p == B() * p) by (nonlinear_arith);
                    }
//+}
                    let digit = &mut digits.as_mut_slice()[i__]; i__ += 1;
                    *digit = big_digit::MAX;
//+{
                    proof {
                        assert(digits@ =~= cur.update(kk as int, 0xffff_ffff_ffff_ffffu64));
                        assert(cur[kk as int] == s0[kk as int]);
                        assert(s0[kk as int] == 0);
                        assert(val(digits@) + 0 * pw(kk) == val(cur) + 0xffff_ffff_ffff_ffffnat * pw(kk));
                        assert(val(digits@) + p2(k) == m + pw(kk + 1));
                    }
//+}
                } }
//+{
                let ghost cur = digits@;
                proof {
                    lemma_val_update_(cur, hi, cur[hi] ^ bit_mask_hi);
                    let o = cur[hi] as nat; let n = (cur[hi] ^ bit_mask_hi) as nat; let p = pw(hi as nat);
                    assert((n + 1) * p == n * p + p) by (nonlinear_arith);
                }
//+}
                digits[index_hi] ^= bit_mask_hi;
//+{
                proof { assert(digits@ =~= cur.update(hi, cur[hi] ^ bit_mask_hi)); }
//+}
            }
//+{
            proof { assert(data.v() + p2(k) == m); assert(-(data.v() as int) == set_bit_target(nn, k, value)); }
//+}
        } else {
            // We end up here in two cases:
            //   bit == trailing_zeros && value: Bit is already set
            //   bit < trailing_zeros && !value: Bit is already cleared
        }
    }
}
//@ end

impl BigInt {
//@ stub i_core/bigint_normalize

//@ extract src/bigint.rs :: impl BigInt :: fn bits props=C07 label=bigint_bits
    pub fn bits(&self) -> /*+*/(r: /*-*/u64/*+*/)/*-*/
//+{
        requires self.wfi()
        ensures
            self.mag().v() as int == (if self.iv() < 0 { -self.iv() } else { self.iv() }),
            self.mag().v() < pow2(r as nat),
            self.iv() != 0 ==> r >= 1 && self.mag().v() >= pow2((r - 1) as nat),
            self.iv() == 0 ==> r == 0,
//+}
    {
//+{
        proof { lemma_sgn_mul(self.sign, self.data.v()); if self.data.dg().len() > 0 { lemma_wf_lower(self.data.dg()); lemma_pw_pos((self.data.dg().len() - 1) as nat); } }
//+}
        self.data.bits()
    }
//@ end

//@ extract src/bigint.rs :: impl BigInt :: fn set_bit rules=R0,R0q props=C07 label=bigint_set_bit
    pub fn set_bit(&mut self, bit: u64, value: bool)
//+{
        requires old(self).wfi()
        ensures final(self).wfi(),
            final(self).iv() == set_bit_target(old(self).iv(), bit as nat, value),
            forall|k: nat| #[trigger] ibit(final(self).iv(), k) == (if k == bit as nat { value } else { ibit(old(self).iv(), k) }),
//+}
    {
//+{
        let ghost n0 = self.iv();
        proof {
            lemma_sgn_mul(self.sign, self.data.v());
            lemma_set_bit_bits(n0, bit as nat, value);
            lemma_ibit_zero(bit as nat);
            vstd::arithmetic::power2::lemma_pow2_pos(bit as nat);
            if self.data.v() < p2(bit as nat) { vstd::arithmetic::div_mod::lemma_basic_div(self.data.v() as int, p2(bit as nat) as int); }
        }
//+}
        match self.sign {
            Sign::Plus => self.data.set_bit(bit, value),
            Sign::Minus => set_negative_bit(self, bit, value),
            Sign::NoSign => {
                if value {
                    self.data.set_bit(bit, true);
                    self.sign = Sign::Plus;
                } else {
                    // Clearing a bit for zero is a no-op
                }
            }
        }
//+{
        proof {
            lemma_sgn_mul(self.sign, self.data.v());
            assert(sgn(self.sign) * (self.data.v() as int) == set_bit_target(n0, bit as nat, value));
            assert(self.sign != NoSign || self.data.v() == 0);
        }
//+}
        // The top bit may have been cleared, so normalize
        self.normalize();
    }
//@ end
}

} // mod u
} // verus!
fn main() {}
