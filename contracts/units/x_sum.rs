//@ unit x_sum : Sum / Product of BigUint and BigInt (impl_sum_iter_type! / impl_product_iter_type! of src/macros.rs) as the monomorphic instances over a slice iterator of references: the fold is the left-to-right sum / product of the canonical operators
#![feature(allocator_api)]
use vstd::prelude::*;
use vstd::std_specs::iter::IteratorSpec;
use vstd::std_specs::ops::*;
use core::ops::{Add, Mul};
verus! {
//@ include prelude/core.rs
//@ include prelude/std_specs.rs
//@ include prelude/panic.rs
//@ extract src/bigint.rs :: enum Sign attrs=1
#[derive(/*+*/Structural, /*-*/PartialEq, PartialOrd, Eq, Ord, Copy, Clone, Debug, Hash)]
pub enum Sign {
    Minus,
    NoSign,
    Plus,
}
//@ end
pub mod u {
use super::*;
use Sign::*;

//@ extract src/biguint.rs :: struct BigUint
pub struct BigUint {
    data: Vec<BigDigit>,
}
//@ end
//@ include prelude/biguint_view.rs
impl AddSpecImpl<&BigUint> for BigUint {
    open spec fn obeys_add_spec() -> bool { false }
    open spec fn add_req(self, rhs: &BigUint) -> bool { self.wf() && rhs.wf() }
    open spec fn add_spec(self, rhs: &BigUint) -> BigUint { arbitrary() }
}
impl Add<&BigUint> for BigUint {
    type Output = BigUint;
//@ stub u_addsub/add_val_ref
}
impl MulSpecImpl<&BigUint> for BigUint {
    open spec fn obeys_mul_spec() -> bool { false }
    open spec fn mul_req(self, rhs: &BigUint) -> bool { self.wf() && rhs.wf() }
    open spec fn mul_spec(self, rhs: &BigUint) -> BigUint { arbitrary() }
}
impl Mul<&BigUint> for BigUint {
    type Output = BigUint;
//@ stub u_mul/mul_vr
}

/// left-to-right sum / product of the values of a sequence of references
pub open spec fn usum(s: Seq<&BigUint>) -> nat
    decreases s.len()
{
    if s.len() == 0 { 0 } else { s[0].v() + usum(s.drop_first()) }
}
pub open spec fn uprod(s: Seq<&BigUint>) -> nat
    decreases s.len()
{
    if s.len() == 0 { 1 } else { s[0].v() * uprod(s.drop_first()) }
}
pub open spec fn all_wf(s: Seq<&BigUint>) -> bool { forall|i: int| 0 <= i < s.len() ==> (#[trigger] s[i]).wf() }

impl BigUint {
//@ extract src/biguint.rs :: impl BigUint :: const ZERO rules=R9,R13 label=BigUint_ZERO
    exec const ZERO: Self /*+*/ensures Self::ZERO.data@.len() == 0 /*-*/{ BigUint { data: Vec::new() } }
//@ end
//@ stub u_core/one

    // contract-only re-homing of `impl<T> Sum<T> for BigUint` / `impl<T> Product<T> for BigUint` at T = &BigUint, I = slice::Iter<BigUint>
//@ extract src/macros.rs :: macro_rules! impl_sum_iter_type :: arm 0 :: fn sum subst=$res=>BigUint tysub=sum<I>(iter:I)=>sum<'a>(iter:core::slice::Iter<'a,BigUint>);where~I:Iterator<Item=T>,=> rules=R50 props=C10,C01 label=biguint_sum
    fn sum<'a>(iter: core::slice::Iter<'a, BigUint>) -> /*+*/(r: /*-*/Self/*+*/)/*-*/
//+{
        requires all_wf(iter.remaining()), iter.decrease() is Some, iter.obeys_prophetic_iter_laws()
        ensures r.wf(), r.v() == usum(iter.remaining())
//+}
    {
        { let mut it__ = iter; let mut acc__ = Self::ZERO; loop
//+{
            invariant acc__.wf(), all_wf(it__.remaining()), it__.decrease() is Some, it__.obeys_prophetic_iter_laws(),
                acc__.v() + usum(it__.remaining()) == usum(iter.remaining()),
            ensures acc__.wf(), acc__.v() == usum(iter.remaining())
            decreases it__.decrease()->Some_0
//+}
        {
//+{
            let ghost rem0 = it__.remaining();
//+}
            match it__.next() { Some(x__) => {
//+{
                proof { assert(rem0[0].wf()); assert forall|i: int| 0 <= i < rem0.drop_first().len() implies (#[trigger] rem0.drop_first()[i]).wf() by { assert(rem0[i + 1].wf()); } }
//+}
                acc__ = <BigUint>::add(acc__, x__); } None => break, } } acc__ }
    }
//@ end

//@ extract src/macros.rs :: macro_rules! impl_product_iter_type :: arm 0 :: fn product subst=$res=>BigUint tysub=product<I>(iter:I)=>product<'a>(iter:core::slice::Iter<'a,BigUint>);where~I:Iterator<Item=T>,=>;One::one()=>BigUint::one() rules=R50 props=C10,C02 label=biguint_product
    fn product<'a>(iter: core::slice::Iter<'a, BigUint>) -> /*+*/(r: /*-*/Self/*+*/)/*-*/
//+{
        requires all_wf(iter.remaining()), iter.decrease() is Some, iter.obeys_prophetic_iter_laws()
        ensures r.wf(), r.v() == uprod(iter.remaining())
//+}
    {
        { let mut it__ = iter; let mut acc__ = BigUint::one(); loop
//+{
            invariant acc__.wf(), all_wf(it__.remaining()), it__.decrease() is Some, it__.obeys_prophetic_iter_laws(),
                acc__.v() * uprod(it__.remaining()) == uprod(iter.remaining()),
            ensures acc__.wf(), acc__.v() == uprod(iter.remaining())
            decreases it__.decrease()->Some_0
//+}
        {
//+{
            let ghost rem0 = it__.remaining();
            let ghost a0 = acc__.v();
//+}
            match it__.next() { Some(x__) => {
//+{
                proof {
                    assert(rem0[0].wf());
                    assert forall|i: int| 0 <= i < rem0.drop_first().len() implies (#[trigger] rem0.drop_first()[i]).wf() by { assert(rem0[i + 1].wf()); }
                    let x = rem0[0].v(); let p = uprod(rem0.drop_first());
                    assert((a0 * x) * p == a0 * (x * p)) by (nonlinear_arith);
                }
//+}
                acc__ = <BigUint>::mul(acc__, x__); } None => /*+*/{ proof { assert(a0 * 1 == a0) by (nonlinear_arith); } /*-*/break/*+*/ }/*-*/, } } acc__ }
    }
//@ end
}

//@ extract src/bigint.rs :: struct BigInt
pub struct BigInt {
    sign: Sign,
    data: BigUint,
}
//@ end
//@ include prelude/bigint_view.rs
impl AddSpecImpl<&BigInt> for BigInt {
    open spec fn obeys_add_spec() -> bool { false }
    open spec fn add_req(self, rhs: &BigInt) -> bool { self.wfi() && rhs.wfi() }
    open spec fn add_spec(self, rhs: &BigInt) -> BigInt { arbitrary() }
}
impl Add<&BigInt> for BigInt {
    type Output = BigInt;
//@ stub i_addsub/add_vr
}
impl MulSpecImpl<&BigInt> for BigInt {
    open spec fn obeys_mul_spec() -> bool { false }
    open spec fn mul_req(self, rhs: &BigInt) -> bool { self.wfi() && rhs.wfi() }
    open spec fn mul_spec(self, rhs: &BigInt) -> BigInt { arbitrary() }
}
impl Mul<&BigInt> for BigInt {
    type Output = BigInt;
//@ stub i_mul/mul_vr
}

pub open spec fn isum(s: Seq<&BigInt>) -> int
    decreases s.len()
{
    if s.len() == 0 { 0 } else { s[0].iv() + isum(s.drop_first()) }
}
pub open spec fn iprod(s: Seq<&BigInt>) -> int
    decreases s.len()
{
    if s.len() == 0 { 1 } else { s[0].iv() * iprod(s.drop_first()) }
}
pub open spec fn all_wfi(s: Seq<&BigInt>) -> bool { forall|i: int| 0 <= i < s.len() ==> (#[trigger] s[i]).wfi() }

impl BigInt {
//@ extract src/bigint.rs :: impl BigInt :: const ZERO rules=R9,R13 label=BigInt_ZERO
    exec const ZERO: Self /*+*/ensures Self::ZERO.wfi(), Self::ZERO.iv() == 0 /*-*/{ BigInt {
        sign: NoSign,
        data: BigUint::ZERO,
    } }
//@ end
//@ stub i_core/one

    // contract-only re-homing of `impl<T> Sum<T> for BigInt` / `impl<T> Product<T> for BigInt` at T = &BigInt, I = slice::Iter<BigInt>
//@ extract src/macros.rs :: macro_rules! impl_sum_iter_type :: arm 0 :: fn sum subst=$res=>BigInt tysub=sum<I>(iter:I)=>sum<'a>(iter:core::slice::Iter<'a,BigInt>);where~I:Iterator<Item=T>,=> rules=R50 props=C10,C01 label=bigint_sum
    fn sum<'a>(iter: core::slice::Iter<'a, BigInt>) -> /*+*/(r: /*-*/Self/*+*/)/*-*/
//+{
        requires all_wfi(iter.remaining()), iter.decrease() is Some, iter.obeys_prophetic_iter_laws()
        ensures r.wfi(), r.iv() == isum(iter.remaining())
//+}
    {
        { let mut it__ = iter; let mut acc__ = Self::ZERO; loop
//+{
            invariant acc__.wfi(), all_wfi(it__.remaining()), it__.decrease() is Some, it__.obeys_prophetic_iter_laws(),
                acc__.iv() + isum(it__.remaining()) == isum(iter.remaining()),
            ensures acc__.wfi(), acc__.iv() == isum(iter.remaining())
            decreases it__.decrease()->Some_0
//+}
        {
//+{
            let ghost rem0 = it__.remaining();
//+}
            match it__.next() { Some(x__) => {
//+{
                proof { assert(rem0[0].wfi()); assert forall|i: int| 0 <= i < rem0.drop_first().len() implies (#[trigger] rem0.drop_first()[i]).wfi() by { assert(rem0[i + 1].wfi()); } }
//+}
                acc__ = <BigInt>::add(acc__, x__); } None => break, } } acc__ }
    }
//@ end

//@ extract src/macros.rs :: macro_rules! impl_product_iter_type :: arm 0 :: fn product subst=$res=>BigInt tysub=product<I>(iter:I)=>product<'a>(iter:core::slice::Iter<'a,BigInt>);where~I:Iterator<Item=T>,=>;One::one()=>BigInt::one() rules=R50 props=C10,C02 label=bigint_product
    fn product<'a>(iter: core::slice::Iter<'a, BigInt>) -> /*+*/(r: /*-*/Self/*+*/)/*-*/
//+{
        requires all_wfi(iter.remaining()), iter.decrease() is Some, iter.obeys_prophetic_iter_laws()
        ensures r.wfi(), r.iv() == iprod(iter.remaining())
//+}
    {
        { let mut it__ = iter; let mut acc__ = BigInt::one(); loop
//+{
            invariant acc__.wfi(), all_wfi(it__.remaining()), it__.decrease() is Some, it__.obeys_prophetic_iter_laws(),
                acc__.iv() * iprod(it__.remaining()) == iprod(iter.remaining()),
            ensures acc__.wfi(), acc__.iv() == iprod(iter.remaining())
            decreases it__.decrease()->Some_0
//+}
        {
//+{
            let ghost rem0 = it__.remaining();
            let ghost a0 = acc__.iv();
//+}
            match it__.next() { Some(x__) => {
//+{
                proof {
                    assert(rem0[0].wfi());
                    assert forall|i: int| 0 <= i < rem0.drop_first().len() implies (#[trigger] rem0.drop_first()[i]).wfi() by { assert(rem0[i + 1].wfi()); }
                    let x = rem0[0].iv(); let p = iprod(rem0.drop_first());
                    assert((a0 * x) * p == a0 * (x * p)) by (nonlinear_arith);
                }
//+}
                acc__ = <BigInt>::mul(acc__, x__); } None => /*+*/{ proof { assert(a0 * 1 == a0) by (nonlinear_arith); } /*-*/break/*+*/ }/*-*/, } } acc__ }
    }
//@ end
}

} // mod u
} // verus!
fn main() {}
