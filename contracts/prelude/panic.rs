// Dual-world model of mandatory panics (DESIGN.md section 4.6, as built).
// `mp()` is an uninterpreted boolean. Every contract of a partial function is written
//     requires !mp() ==> P          ensures mp() ==> P, <functional postcondition>
// and is proved for an arbitrary value of mp():
//   world mp() == false : P is assumed, `__assert(c)` demands c  => inside its domain the function never panics;
//   world mp() == true  : nothing is assumed, `__assert(c)` demands nothing and yields c on return
//                         => a normal return implies P, i.e. outside its domain the function panics
//                            (termination is proved separately by the loops' decreases clauses).
pub uninterp spec fn mp() -> bool;

//@ assume __assert : model of core::assert! (rule R11): panics iff the condition is false
#[verifier::external_body]
pub fn __assert(c: bool)
    requires !mp() ==> c
    ensures c
{ if !c { panic!() } }

//@ assume __panic : model of core::panic! (rule R11b): never returns
#[verifier::external_body]
pub fn __panic() -> !
    requires mp()
    ensures false
{ panic!() }

//@ assume __unreachable : model of core::unreachable!: must be proved unreachable in both worlds
#[verifier::external_body]
pub fn __unreachable() -> !
    requires false
    ensures false
{ panic!() }
