use vstd::prelude::*;
verus! {

pub open spec fn val(s: Seq<u64>) -> nat
    decreases s.len()
{
    if s.len() == 0 { 0 } else { (s[0] as nat) + 0x1_0000_0000_0000_0000nat * val(s.subrange(1, s.len() as int)) }
}

fn mac_with_carry(a: u64, b: u64, c: u64, acc: &mut u128) -> (lo: u64)
    requires *old(acc) <= 0xffff_ffff_ffff_ffffu128,
    ensures (lo as nat) + 0x1_0000_0000_0000_0000nat * (*final(acc) as nat) == (a as nat) + (b as nat) * (c as nat) + (*old(acc) as nat),
            *final(acc) <= 0xffff_ffff_ffff_ffffu128,
{
    assert((b as u128) * (c as u128) <= 0xffff_ffff_ffff_ffffu128 * 0xffff_ffff_ffff_ffffu128) by (nonlinear_arith)
        requires b <= 0xffff_ffff_ffff_ffffu64, c <= 0xffff_ffff_ffff_ffffu64;
    *acc += a as u128;
    *acc += (b as u128) * (c as u128);
    let lo = *acc as u64;
    let ghost before = *acc;
    *acc >>= 64;
    assert(lo as u128 == before & 0xffff_ffff_ffff_ffffu128) by (bit_vector) requires lo == before as u64;
    assert((before >> 64) * 0x1_0000_0000_0000_0000u128 + (before & 0xffff_ffff_ffff_ffffu128) == before) by (bit_vector);
    assert((before >> 64) <= 0xffff_ffff_ffff_ffffu128) by (bit_vector);
    lo
}

fn add_one(a: &mut [u64], i: usize)
    requires i < old(a).len(), old(a)[i as int] < 100
    ensures final(a)@ == old(a)@.update(i as int, (old(a)[i as int] + 1) as u64)
{
    a[i] = a[i] + 1;
}

} // verus!
fn main() {}
