// Local definition of alloc::borrow::Cow, restricted to its uses in src/biguint/shift.rs and src/bigint/shift.rs.
//@ assume alloc::borrow::Cow : std definition `enum Cow<'a, B> { Borrowed(&'a B), Owned(<B as ToOwned>::Owned) }`, `Deref` = the borrowed or owned value, `into_owned` = `match self { Borrowed(b) => b.to_owned(), Owned(o) => o }` with `to_owned` = `clone` for Clone types (std blanket impl)
pub enum Cow<'a, T> { Borrowed(&'a T), Owned(T) }
impl<'a> Cow<'a, BigUint> {
    pub open spec fn get(self) -> BigUint { match self { Cow::Borrowed(b) => *b, Cow::Owned(o) => o } }
    fn into_owned(self) -> (r: BigUint)
        ensures r.data@ == self.get().data@, r.v() == self.get().v(), r.wf() == self.get().wf()
    {
        match self { Cow::Borrowed(b) => b.clone(), Cow::Owned(o) => o }
    }
}
impl<'a> core::ops::Deref for Cow<'a, BigUint> {
    type Target = BigUint;
    fn deref(&self) -> (r: &BigUint)
        ensures *r == self.get()
    {
        match self { Cow::Borrowed(b) => b, Cow::Owned(o) => o }
    }
}
