// Rule R48: a &str is modelled by its UTF-8 byte slice. For an ASCII char c, str::strip_prefix(c) and str::starts_with(c)
// look at the first byte only (in UTF-8 an ASCII byte is always a complete character); str::bytes() yields the bytes in
// order and str::len() / is_empty() are those of the byte slice.
//@ assume str::strip_prefix(ascii_char) : rule R48, std semantics on the UTF-8 bytes
#[verifier::external_body]
pub fn __strip_prefix_byte<'a>(s: &'a [u8], c: u8) -> (r: Option<&'a [u8]>)
    requires c < 128
    ensures r is Some <==> (s@.len() > 0 && s@[0] == c), r is Some ==> r.unwrap()@ == s@.subrange(1, s@.len() as int)
{ unimplemented!() }
//@ assume str::starts_with(ascii_char) : rule R48, std semantics on the UTF-8 bytes
#[verifier::external_body]
pub fn __starts_with_byte(s: &[u8], c: u8) -> (r: bool)
    requires c < 128
    ensures r == (s@.len() > 0 && s@[0] == c)
{ unimplemented!() }
/// well-formed UTF-8 (std's validation; not needed further: every accepted text is pure ASCII)
pub uninterp spec fn is_utf8(s: Seq<u8>) -> bool;
//@ assume str::from_utf8(..).ok() : rule R48, std: Some(the same bytes viewed as a str) exactly for well-formed UTF-8
#[verifier::external_body]
pub fn __from_utf8_ok<'a>(buf: &'a [u8]) -> (r: Option<&'a [u8]>)
    ensures r is Some <==> is_utf8(buf@), r is Some ==> r.unwrap()@ == buf@
{ unimplemented!() }
