#!/usr/bin/env python3
"""./check <property> [--tier quick|thorough]      decide one property
   ./check all [--tier ...]                        every claimed property
   ./check replay <path>                           re-run a recorded failing input against /repo
Exit 0: every obligation discharged (KNOWN-FINDING lines allowed); 1: VIOLATION; 2: UNDECIDED."""
import concurrent.futures as cf
import json
import os
import re
import sys
import time

sys.path.insert(0, os.path.dirname(os.path.abspath(__file__)))
import unit as U  # noqa: E402

ROOT = U.ROOT
REPO = os.environ.get("VERIF_REPO", "/repo")
SEED = int(os.environ.get("VERIF_SEED", "0") or 0)


def load_props():
    with open(os.path.join(ROOT, "contracts", "props.json")) as f:
        return json.load(f)


def load_known():
    p = os.path.join(ROOT, "known_findings.json")
    if os.path.exists(p):
        with open(p) as f:
            return json.load(f)
    return {"findings": []}


# ------------------------------------------------------------------ obligation counting

def count_obligations(text):
    """Count proof obligations visible in a woven function: contract clauses, loop clauses, assertions,
    and implicit checks (calls, index, arithmetic sites are counted once each)."""
    n = {"ensures": 0, "requires_at_calls": 0, "invariant": 0, "decreases": 0, "assert": 0, "arith_index": 0}
    # clauses: count top-level commas inside each clause block
    for kw in ("ensures", "invariant", "invariant_except_break", "decreases"):
        for m in re.finditer(r"\b%s\b" % kw, text):
            j = m.end()
            depth = 0
            cnt = 1
            while j < len(text):
                c = text[j]
                if c in "([":
                    depth += 1
                elif c in ")]":
                    depth -= 1
                elif c == "{" and depth == 0:
                    break
                elif c == "," and depth == 0:
                    rest = text[j + 1:j + 200].lstrip()
                    if re.match(r"(ensures|invariant|invariant_except_break|decreases|requires|\{|//\+\})", rest):
                        break
                    cnt += 1
                elif text.startswith("ensures", j) or text.startswith("decreases", j) or text.startswith("invariant", j):
                    if depth == 0 and j > m.end() + 1 and not text[j - 1].isalnum() and text[j - 1] != "_":
                        break
                j += 1
            key = "invariant" if kw.startswith("invariant") else kw
            n[key] += cnt * (2 if key == "invariant" else 1)
    n["assert"] = len(re.findall(r"\bassert\s*(\(|forall)", text)) + len(re.findall(r"\b__assert\s*\(", text))
    n["requires_at_calls"] = len(re.findall(r"\b(lemma_\w+|__add2|add2|sub2|__sub2rev|sub2rev|adc|sbb|schoolbook_\w+|mac_\w+|div_\w+|\w+__stub)\s*\(", text))
    n["arith_index"] = len(re.findall(r"\[[^\]\n]*\]", text)) + len(re.findall(r"[^=!<>]=?\s*[-+*/%]\s*=?", text)) // 2
    return n


# ------------------------------------------------------------------ canaries

def canary_text(built):
    """Copy of the woven unit in which the body of every extracted function is wrapped as
         { let r__ = { BODY }; proof { assert(false); } r__ }
    The inserted assertion must FAIL; if it verifies, the function's preconditions (or an assumed
    contract it relies on) are contradictory and its proof is vacuous. Contracts are unchanged, so
    callers are not affected. No newline is inserted: line numbers stay valid."""
    import rtok
    lines = built["text"].split("\n")
    marks = []
    for fn in built["functions"]:
        if fn["kind"] != "extract" or fn.get("item_kind") == "type":
            continue
        l0, l1 = fn["lines"]
        seg = "\n".join(lines[l0 - 1:l1])
        toks = rtok.tokenize(seg)
        k = 0
        while k < len(toks) and toks[k].s != "fn":
            k += 1
        if k >= len(toks):
            continue
        # the body is the brace group that closes the item (a `match` in an ensures clause also opens a brace)
        last = len(toks) - 1
        while last >= 0 and toks[last].s != "}":
            last -= 1
        e = None
        while k < len(toks):
            t = toks[k].s
            if t in ("(", "[", "{"):
                c = rtok.match_close(toks, k)
                if t == "{" and c == last:
                    e = c
                    break
                k = c + 1
                continue
            k += 1
        if e is None:
            continue
        a_, b_ = toks[k].b, toks[e].a
        # `hide(f);` directives must stay the first statements of the body
        kk = k + 1
        while kk + 4 < len(toks) and toks[kk].s == "hide" and toks[kk + 1].s == "(":
            c2 = rtok.match_close(toks, kk + 1)
            if c2 + 1 < len(toks) and toks[c2 + 1].s == ";":
                a_ = toks[c2 + 1].b
                kk = c2 + 2
            else:
                break
        # a body whose end is unreachable (an endless `loop` left only through `return`) would make the final assertion
        # vacuous: every `return` that starts a statement gets the same assertion in front of it
        body = seg[a_:b_]
        ins = []
        for q in range(k + 1, e):
            if toks[q].s == "return" and toks[q - 1].s in ("{", ";", "}") and toks[q].a >= a_:
                ins.append(toks[q].a - a_)
        for off in reversed(ins):
            body = body[:off] + "proof { assert(false); } " + body[off:]
        seg2 = seg[:a_] + " let r__ = {" + body + "}; proof { assert(false); } r__ " + seg[b_:]
        lines[l0 - 1:l1] = seg2.split("\n")
        marks.append((fn["label"], l0, l1))
    return "\n".join(lines), marks


# ------------------------------------------------------------------ run units

def run_unit(name, outdir, tier, canaries=True):
    t0 = time.time()
    rec = {"unit": name}
    try:
        built = U.build(name, REPO, outdir)
    except U.UnitError as e:
        rec.update({"status": "undecided", "reason": str(e), "functions": [], "wall_s": time.time() - t0})
        return rec
    rec["built"] = {k: built[k] for k in ("path", "functions", "rewrites", "assumptions", "unlisted_hatches")}
    if built["unlisted_hatches"]:
        rec.update({"status": "undecided", "reason": "unlisted assumption(s): %s" % built["unlisted_hatches"][:3],
                    "wall_s": time.time() - t0})
        return rec
    rlimit = 30 if tier == "quick" else 60
    res = U.attribute(built, U.run_verus(built["path"], rlimit=rlimit, seed=SEED if tier == "thorough" and SEED else None))
    if built.get("hint_lines"):
        # equivalence hints (rtok.add_eqv_hints) are speculative proof obligations of the tooling: unless every one of them
        # is discharged and the run has no tool error, the unit is re-woven without them and decided on that run alone
        hl = set(built["hint_lines"])
        if [d for d in res["diagnostics"] if d["class"] != "obligation" or d.get("line") in hl]:
            built = U.build(name, REPO, outdir, hints=False)
            rec["built"] = {k: built[k] for k in ("path", "functions", "rewrites", "assumptions", "unlisted_hatches")}
            res = U.attribute(built, U.run_verus(built["path"], rlimit=rlimit, seed=SEED if tier == "thorough" and SEED else None))
            rec["eqv_hints"] = "tried and dropped"
        else:
            rec["eqv_hints"] = built.get("eqv_hints")
    rec["verus"] = {k: res[k] for k in ("cmd", "rc", "wall_s", "verified", "errors", "functions", "diagnostics", "smt_ms")}
    # per extracted function: text + obligations
    lines = built["text"].split("\n")
    for fn in built["functions"]:
        if fn["kind"] == "extract":
            seg = "\n".join(lines[fn["lines"][0] - 1:fn["lines"][1]])
            fn["obligations"] = count_obligations(seg)
            fn["n_obligations"] = sum(fn["obligations"].values())
    failed = [d for d in res["diagnostics"] if d["class"] == "obligation"]
    other = [d for d in res["diagnostics"] if d["class"] != "obligation"]
    for d in failed:
        fnr = [fn for fn in built["functions"] if d.get("line") and fn["lines"][0] <= d["line"] <= fn["lines"][1]]
        d["proof_step"] = bool(fnr) and is_proof_step(d, lines, fnr[0]["lines"][0])
    if other:
        rec["status"] = "undecided"
        rec["reason"] = "; ".join("%s: %s (fn %s)" % (d["class"], d["message"][:160], d.get("function")) for d in other[:3])
    elif failed:
        # a failure in a function whose annotations were displaced by the edit is not attributable
        if all(d.get("displaced") for d in failed):
            rec["status"] = "undecided"
            rec["reason"] = "obligation failed in a changed function whose annotations were displaced"
        else:
            rec["status"] = "failed"
    elif res["rc"] != 0 or not res.get("success"):
        rec["status"] = "undecided"
        rec["reason"] = "verus rc=%s without classified diagnostics" % res["rc"]
    else:
        rec["status"] = "pass"
    # canaries: only meaningful when the unit passes
    rec["canaries"] = {"run": False}
    if rec["status"] == "pass" and canaries:
        ctext, marks = canary_text(built)
        cpath = os.path.join(outdir, name + "__canary.rs")
        with open(cpath, "w") as f:
            f.write(ctext)
        cres = U.run_verus(cpath, rlimit=rlimit)
        # every marked function must have failed
        failed_fns = set()
        for d in cres["diagnostics"]:
            if d["line"] and d["class"] == "obligation" and "assertion failed" in d["message"]:
                for (lab, l0, l1) in marks:
                    if l0 <= d["line"] <= l1:
                        failed_fns.add((lab, l0))
        vac = [lab for (lab, l0, l1) in marks if (lab, l0) not in failed_fns]
        tool = [d for d in cres["diagnostics"] if d["class"] != "obligation"]
        rec["canaries"] = {"run": True, "functions": [m[0] for m in marks], "vacuous": vac, "wall_s": cres["wall_s"]}
        if vac and tool:
            # the canary copy itself did not go through the verifier: nothing can be concluded from it
            rec["status"] = "undecided"
            rec["reason"] = "canary copy not checkable (%s: %s)" % (tool[0]["class"], tool[0]["message"][:120])
        elif vac:
            rec["status"] = "undecided"
            rec["reason"] = "canary verified (contradictory preconditions or assumed spec?) in: %s" % vac
    rec["wall_s"] = time.time() - t0
    return rec


def in_proof_block(lines, fn_start, line):
    """is (1-based) `line` of the woven text inside a `proof { .. }` block opened at or after line fn_start?"""
    stack = []
    prev_word = ""
    for ln in range(fn_start, line + 1):
        t = lines[ln - 1]
        t = re.sub(r'"(?:[^"\\]|\\.)*"', '""', t)
        t = t.split("//")[0]
        if ln == line:
            # state at the first non-blank character of the line (a line that itself opens `proof {` counts)
            if re.match(r"\s*proof\s*\{", t):
                return True
            return "proof" in stack
        for m in re.finditer(r"[A-Za-z_][A-Za-z_0-9]*|[{}]", t):
            tok = m.group(0)
            if tok == "{":
                stack.append("proof" if prev_word == "proof" else "other")
                prev_word = ""
            elif tok == "}":
                if stack:
                    stack.pop()
                prev_word = ""
            else:
                prev_word = tok
    return False


def is_proof_step(d, lines, fn_start):
    """A failed ghost `assert` or a failed precondition of a lemma called inside a `proof` block is a step of the proof
    text that no longer goes through - not a clause of the function's contract (ensures, requires of a callee of the
    real code, loop invariant, overflow / bounds / panic obligation)."""
    msg = d.get("message", "")
    if msg.startswith("assertion failed") or msg.startswith("assert"):
        return True   # executable `assert!` is woven as a call (`__assert`): its failure reads "precondition not satisfied"
    if msg.startswith("precondition not satisfied") and d.get("line"):
        return in_proof_block(lines, fn_start, d["line"])
    return False



def obligation_name(unit, d):
    txt = re.sub(r"\s+", " ", d.get("text") or "")[:100]
    sec = ""
    for s in d.get("secondary", []):
        if s.get("text"):
            sec = " <- " + re.sub(r"\s+", " ", s["text"])[:100]
            break
    return "%s::%s / %s @ `%s`%s" % (unit, d.get("function") or "?", d["message"], txt, sec)


# ------------------------------------------------------------------ main per property

def check_property(pid, tier, props, known):
    t0 = time.time()
    spec = props[pid]
    outdir = os.path.join(ROOT, "build", pid)
    os.makedirs(outdir, exist_ok=True)
    units = spec.get("units", [])
    results = {}
    engines = {}
    with cf.ThreadPoolExecutor(max_workers=int(os.environ.get("VERIF_JOBS", "8"))) as ex:
        futs = {ex.submit(run_unit, u, outdir, tier, True): u for u in units}
        efuts = {}
        for eng in spec.get("engines", []):
            efuts[ex.submit(run_engine, eng, pid, tier, outdir)] = eng
        for f in cf.as_completed(list(futs) + list(efuts)):
            if f in futs:
                results[futs[f]] = f.result()
            else:
                engines[efuts[f]] = f.result()
    return finish(pid, tier, spec, units, results, engines, known, t0)


def run_engine(eng, pid, tier, outdir):
    try:
        if eng == "asm":
            import asmvc
            return asmvc.run(REPO, tier)
        if eng == "fwd":
            import fwd
            return fwd.run(REPO, tier, outdir)
        if eng == "bounded":
            import replay
            t0 = time.time()
            found, note, ntried = replay.search(pid, REPO, tier, SEED, budget_s=60 if tier == "quick" else 600)
            if note and not found:
                return {"engine": "bounded", "status": "undecided", "reason": note, "obligations": [], "assumptions": [], "bounded": True}
            info = dict(replay.LAST_BANK_INFO)
            ob = {"name": "bounded stand-in: public-API replay bank for %s vs. Python integers (%d of %d cases run, operands up to %d 64-bit digits, seed %d)" % (
                pid, ntried, info.get("cases_in_bank", 0), info.get("max_operand_64bit_digits", 0), SEED), "status": "failed" if found else "discharged", "model": found,
                "detail": "BOUNDED, not a proof: stands in for the functions whose contracts are assumed (see trusted_base)"}
            return {"engine": "bounded", "status": "failed" if found else "pass", "reason": None, "obligations": [ob], "bounded": True,
                    "n_obligations": 1, "n_discharged": 0 if found else 1, "wall_s": round(time.time() - t0, 2),
                    "detail": {"cases": ntried, "bank": info, "failing_input": found, "bound": "public API only; lengths and patterns of tools/replay.py bank(); not exhaustive"},
                    "cmd": "tools/replay.py bank(%s) through replay/driver" % pid,
                    "assumptions": ["bounded stand-in: Python integer arithmetic is the oracle; the bank is finite (stated in evidence.engines[].detail)"],
                    "samples": [ob["name"]]}
        if eng.startswith("kani:"):
            import kanirun
            return kanirun.run(REPO, eng.split(":", 1)[1], tier, outdir)
    except Exception as e:  # tool trouble is never a violation
        import traceback
        return {"engine": eng, "status": "undecided", "reason": "engine crashed: %r" % e, "trace": traceback.format_exc()[-1500:],
                "obligations": [], "assumptions": []}
    return {"engine": eng, "status": "undecided", "reason": "unknown engine", "obligations": [], "assumptions": []}


def finish(pid, tier, spec, units, results, engines, known, t0):
    funcs = []
    assumptions = []
    rewrites = []
    failures = []   # (name, unit, diag)
    undecided = []
    n_obl = n_dis = 0
    samples = []
    solver_ms = 0
    cmds = []
    for u in units:
        r = results[u]
        if r["status"] == "undecided":
            undecided.append("%s: %s" % (u, r.get("reason")))
        b = r.get("built")
        if not b:
            continue
        cmds.append(r.get("verus", {}).get("cmd", ""))
        solver_ms += r.get("verus", {}).get("smt_ms", 0)
        for a in b["assumptions"]:
            assumptions.append("%s (%s): %s" % (a["name"], u, a["reason"]))
        rewrites.extend(b["rewrites"])
        fb = {f["function"].split("::")[-1]: f for f in r.get("verus", {}).get("functions", [])}
        diags = r.get("verus", {}).get("diagnostics", [])
        for fn in b["functions"]:
            if fn["kind"] != "extract" or fn.get("item_kind") == "type":
                continue
            if spec.get("only_props_tagged") and pid not in fn.get("props", []):
                continue
            fdiags = [d for d in diags if d.get("function") == fn["label"] and d["class"] == "obligation"]
            nob = fn.get("n_obligations", 0)
            ok = r["status"] in ("pass", "failed") and not fdiags and not [d for d in diags if d.get("function") == fn["label"]]
            n_obl += nob
            n_dis += nob if ok else max(0, nob - len(fdiags)) if r["status"] == "failed" else 0
            t = fb.get(fn["label"], {})
            funcs.append({"function": fn["label"], "unit": u, "source": fn["src"] + " :: " + fn["spec"],
                          "text": "identical" if fn["info"]["identical"] else "changed(%d edits)" % fn["info"]["edits"],
                          "verified": ok, "obligations": fn.get("obligations"), "solver_ms": t.get("ms"), "rlimit": t.get("rlimit"),
                          "backend": "verus/z3"})
            for d in fdiags:
                failures.append((obligation_name(u, d), u, d))
        for d in diags:
            if d["class"] == "obligation" and d.get("fkind") != "extract":
                # failure in contract-only text (lemma, stub): the contracts themselves are broken -> undecided
                undecided.append("%s: obligation failed outside extracted code: %s" % (u, d["message"]))
        if len(samples) < 6:
            for fn in b["functions"]:
                if fn["kind"] == "extract" and len(samples) < 6:
                    samples.append("%s::%s ensures/invariants discharged by Verus (%s obligations)" % (u, fn["label"], fn.get("n_obligations")))
    eng_recs = []
    bounded_failures = []
    for eng, r in engines.items():
        eng_recs.append({k: r.get(k) for k in ("engine", "status", "reason", "n_obligations", "n_discharged", "wall_s", "detail", "bounded")})
        if r.get("status") == "undecided":
            undecided.append("%s: %s" % (eng, r.get("reason")))
        if eng == "fwd":
            # a leaf counts as under contract only if this check also runs the unit that carries its contract
            missing = [u for u in (r.get("detail") or {}).get("leaf_units", []) if u not in units]
            if missing:
                undecided.append("fwd: leaf impls are under contract in units this check does not run: %s" % missing)
        for a in r.get("assumptions", []):
            assumptions.append(a)
        if not r.get("bounded"):
            n_obl += r.get("n_obligations", 0)
            n_dis += r.get("n_discharged", 0)
        for ob in r.get("obligations", []):
            if ob.get("status") == "failed":
                failures.append(("%s / %s" % (eng, ob["name"]), eng, ob))
                if r.get("bounded"):
                    bounded_failures.append(ob)
        for s in r.get("samples", [])[:3]:
            samples.append(s)
        if r.get("cmd"):
            cmds.append(r["cmd"])
    # classify failures against known findings
    kf = [k for k in known.get("findings", []) if k.get("property") == pid and k.get("status") == "open"]
    viol = []
    known_hits = []
    for name, u, d in failures:
        hit = None
        for k in kf:
            if k["obligation_match"] in name:
                hit = k
                break
        if hit:
            known_hits.append((hit, name))
        else:
            viol.append((name, u, d))
    for hit, name in known_hits:
        print("KNOWN-FINDING: property=%s %s [%s]" % (pid, hit["what"], name))
    rc = 0
    replay_paths = []
    if viol:
        rc = 1
        import replay
        os.makedirs(os.path.join(ROOT, "replay", "out"), exist_ok=True)
        rp = replay.find_and_write(pid, viol, REPO, tier, SEED)
        kept = []
        for (name, u, d), path_found in zip(viol, rp):
            path, found = path_found
            if not found and isinstance(d, dict) and d.get("proof_step") and d.get("changed"):
                # A step of the PROOF TEXT (ghost assert / lemma call) fails on a function whose text changed, every clause
                # of its contract that the verifier reached is intact, and the replay bank has no failing input: the proof
                # is undecided on the new text (an equivalent rewriting can break a proof step), not a violation.
                undecided.append("%s: proof step no longer goes through on the changed text and the replay bank has no failing input (%s)" % (u, name[:200]))
                try:
                    os.remove(path)
                except OSError:
                    pass
                continue
            kept.append((name, u, d))
            replay_paths.append(path)
            print("OBLIGATION-FAILED: %s" % name)
            print("VIOLATION property=%s replay=%s%s" % (pid, path, "" if found else " no-failing-input-found"))
        viol = kept
        if not viol:
            rc = 2
            for x in undecided:
                print("UNDECIDED property=%s %s" % (pid, x))
        else:
            for x in undecided:     # for triage only: units that could not be decided in the same run
                print("NOTE property=%s undecided part: %s" % (pid, x[:300]))
    elif undecided:
        rc = 2
        for x in undecided:
            print("UNDECIDED property=%s %s" % (pid, x))
        # Bounded stand-in (labelled as such, never counted as proved): if the text of a function under contract has
        # CHANGED and the verifier cannot be brought to bear on the changed text (annotations do not transplant: tool
        # error / displaced annotations), search the property's replay bank for a concrete failing input of the real
        # code. A concrete failing input is a violation on its own evidence; finding none leaves the run UNDECIDED.
        changed = [f["function"] for f in funcs if f["text"] != "identical"]
        if changed:
            import replay
            found, note, ntried = replay.search(pid, REPO, tier, SEED)
            bounded_note = "bounded stand-in over the %s replay bank (%d cases) because the changed function(s) %s could not be re-verified" % (pid, ntried, changed)
            print("BOUNDED-STANDIN property=%s %s" % (pid, bounded_note))
            if found:
                os.makedirs(os.path.join(ROOT, "replay", "out"), exist_ok=True)
                path = os.path.join(ROOT, "replay", "out", "%s-bounded-standin.json" % pid)
                with open(path, "w") as f:
                    json.dump({"property": pid, "obligation": "bounded stand-in (not a proof obligation): " + bounded_note,
                               "failing_input": found, "cases_tried": ntried, "undecided": undecided}, f, indent=1)
                print("VIOLATION property=%s replay=%s" % (pid, path))
                rc = 1
                viol = [("bounded stand-in", "replay", found)]
    wall = time.time() - t0
    level = spec.get("level", "proof")
    cov = {
        "obligations": n_obl, "discharged": n_dis,
        "checker_cmd": "; ".join(c for c in cmds if c)[:2000] or "none",
        "trusted_base": sorted(set(assumptions)),
        "functions_under_contract": funcs,
        "engines": eng_recs,
        "rewrites": rewrites,
        "canaries": {u: results[u].get("canaries") for u in units},
        "samples": samples or ["(no unit ran)"],
        "solver_ms": solver_ms,
        "undecided": undecided,
        "failed_obligations": [n for n, _, _ in failures],
        "explanation": spec.get("explanation", ""),
        "not_decided_here": spec.get("not_decided", []),
    }
    if level != "proof":
        cov["explanation"] = spec.get("explanation", "bounded stand-in")
    ev = {"property_id": pid, "tier": tier, "seed": SEED, "level": level, "coverage": cov,
          "assumptions": sorted(set(assumptions)) + spec.get("standing_assumptions", []),
          "wall_s": round(wall, 2), "violations": len(viol)}
    os.makedirs(os.path.join(ROOT, "evidence"), exist_ok=True)
    with open(os.path.join(ROOT, "evidence", pid + ".json"), "w") as f:
        json.dump(ev, f, indent=1, default=str)
    print("%s: %s  functions=%d obligations=%d discharged=%d engines=%s wall=%.1fs" % (
        pid, {0: "PASS", 1: "VIOLATION", 2: "UNDECIDED"}[rc], len(funcs), n_obl, n_dis,
        ",".join("%s:%s" % (e["engine"], e["status"]) for e in eng_recs) or "-", wall))
    return rc


def main():
    args = sys.argv[1:]
    if not args:
        print(__doc__)
        return 2
    tier = os.environ.get("VERIF_TIER", "quick")
    if "--tier" in args:
        i = args.index("--tier")
        tier = args[i + 1]
        del args[i:i + 2]
    if args[0] == "replay":
        import replay
        return replay.replay_file(args[1], REPO)
    props = load_props()
    known = load_known()
    ids = [p for p in sorted(props) if not props[p].get("not_applicable")] if args[0] == "all" else args
    worst = 0
    for pid in ids:
        if pid not in props:
            print("unknown property", pid)
            return 2
        rc = check_property(pid, tier, props, known)
        worst = 1 if rc == 1 or worst == 1 else max(worst, rc)
    return worst


if __name__ == "__main__":
    sys.exit(main())
