//@ unit k_mac3 : multi-regime multiply-accumulate mac3 (schoolbook / half-Karatsuba / Karatsuba / Toom-3) with add2, sub_sign, bigint_from_slice (src/biguint/multiplication.rs)
#![feature(allocator_api)]
use vstd::prelude::*;
use vstd::std_specs::iter::IteratorSpec;
use vstd::std_specs::ops::*;
use core::ops::{Add, AddAssign, Sub, SubAssign, Mul, Div, Shl, Shr, Neg};
use core::cmp::Ordering;
verus! {
//@ include prelude/core.rs
//@ include prelude/std_specs.rs
//@ include prelude/panic.rs
//@ extract src/bigint.rs :: enum Sign attrs=1
#[derive(/*+*/Structural, /*-*/PartialEq, PartialOrd, Eq, Ord, Copy, Clone, Debug, Hash)]
pub enum Sign {
    Minus,
    NoSign,
    Plus,
}
//@ end
pub mod u {
use super::*;
use Sign::*;

//@ extract src/biguint.rs :: struct BigUint
pub struct BigUint {
    data: Vec<BigDigit>,
}
//@ end
//@ include prelude/biguint_view.rs
pub open spec fn ord_of(a: nat, b: nat) -> Ordering {
    if a < b { Ordering::Less } else if a == b { Ordering::Equal } else { Ordering::Greater }
}
impl BigUint {
//@ extract src/biguint.rs :: impl BigUint :: const ZERO rules=R9,R13 label=BigUint_ZERO
    exec const ZERO: Self /*+*/ensures Self::ZERO.data@.len() == 0 /*-*/{ BigUint { data: Vec::new() } }
//@ end
//@ stub u_core/normalize
}
//@ stub u_core/biguint_from_vec
//@ stub u_cmp/cmp_slice
//@ stub k_add/__add2
//@ stub k_sub/sub2
//@ stub k_mul/mac_digit

/// val of a slice split at k
pub proof fn lemma_split(s: Seq<u64>, k: nat)
    requires k <= s.len()
    ensures val(s) == val(s.subrange(0, k as int)) + pw(k) * val(s.subrange(k as int, s.len() as int)),
        val(s.subrange(0, k as int)) < pw(k), val(s) < pw(s.len())
{
    let lo = s.subrange(0, k as int);
    let hi = s.subrange(k as int, s.len() as int);
    assert(s =~= lo + hi);
    lemma_val_concat(lo, hi);
    lemma_valp_bound(lo, k);
    lemma_valp_bound(s, s.len());
}

/// a bound on the whole gives a bound on the upper part: val(s) + B^k * e < B^len  ==>  val(s[k..]) + e < B^(len-k)
pub proof fn lemma_hi_fit(s: Seq<u64>, k: nat, e: nat)
    requires k <= s.len(), val(s) + pw(k) * e < pw(s.len())
    ensures val(s.subrange(k as int, s.len() as int)) + e < pw((s.len() - k) as nat)
{
    lemma_split(s, k);
    lemma_pw_add(k, (s.len() - k) as nat);
    lemma_pw_pos(k);
    let h = val(s.subrange(k as int, s.len() as int));
    let p = pw(k);
    let q = pw((s.len() - k) as nat);
    assert(h + e < q) by (nonlinear_arith) requires p * h + p * e < p * q, p >= 1;
}

//@ extract src/biguint/addition.rs :: fn add2 rules=R0,R14 props=C01,C02,C14
pub(super) fn add2(a: &mut [BigDigit], b: &[BigDigit])
//+{
    requires old(a).len() >= b.len(), val(old(a)@) + val(b@) < pw(old(a).len() as nat)
    ensures final(a).len() == old(a).len(), val(final(a)@) == val(old(a)@) + val(b@)
//+}
{
    let carry = __add2(a, b);
//+{
    proof {
        lemma_pw_pos(a@.len());
        assert(pw(a@.len()) * (carry as nat) >= pw(a@.len())  || carry == 0) by (nonlinear_arith) requires pw(a@.len()) >= 1;
    }
//+}

}
//@ end

//@ extract src/biguint/multiplication.rs :: fn sub_sign rules=R0,R36a,R36c props=C02,C01
fn sub_sign(mut a: &[BigDigit], mut b: &[BigDigit]) -> /*+*/(r: /*-*/(Sign, BigUint)/*+*/)/*-*/
//+{
    ensures r.1.wf(),
        val(a@) > val(b@) ==> r.0 == Plus && r.1.v() == val(a@) - val(b@),
        val(a@) < val(b@) ==> r.0 == Minus && r.1.v() == val(b@) - val(a@),
        val(a@) == val(b@) ==> r.0 == NoSign && r.1.v() == 0,
        r.1.dg().len() <= a@.len() || r.1.dg().len() <= b@.len(),
        r.1.dg().len() <= (if a@.len() >= b@.len() { a@.len() } else { b@.len() }),
//+}
{
//+{
    let ghost a0 = a@;
    let ghost b0 = b@;
//+}
    // Normalize:
    if __slice_last_is_zero(a) {
        a = &a[..__rposition_nonzero_end(a)];
//+{
        proof { lemma_val_strip(a0, a@.len()); assert(a@ =~= a0.subrange(0, a@.len() as int)); }
//+}
    }
    if __slice_last_is_zero(b) {
        b = &b[..__rposition_nonzero_end(b)];
//+{
        proof { lemma_val_strip(b0, b@.len()); assert(b@ =~= b0.subrange(0, b@.len() as int)); }
//+}
    }

//+{
    let ghost a1 = a@;
    let ghost b1 = b@;
//+}
    match cmp_slice(a, b) {
        Ordering::Greater => {
            let mut a = a.to_vec();
//+{
            assert(a@ == a1);
//+}
            sub2(&mut a, b);
            (Plus, biguint_from_vec(a))
        }
        Ordering::Less => {
            let mut b = b.to_vec();
//+{
            assert(b@ == b1);
//+}
            sub2(&mut b, a);
            (Minus, biguint_from_vec(b))
        }
        Ordering::Equal => (NoSign, BigUint::ZERO),
    }
}
//@ end

} // mod u
} // verus!
fn main() {}
