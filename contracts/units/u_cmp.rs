//@ unit u_cmp : BigUint comparison and equality (src/biguint.rs)
#![feature(allocator_api)]
use vstd::prelude::*;
use vstd::std_specs::iter::IteratorSpec;
use core::cmp::Ordering;
use vstd::std_specs::cmp::PartialEqSpec;
verus! {
//@ include prelude/core.rs
//@ include prelude/std_specs.rs
pub mod u {
use super::*;

//@ extract src/biguint.rs :: struct BigUint
pub struct BigUint {
    data: Vec<BigDigit>,
}
//@ end
//@ include prelude/biguint_view.rs

pub open spec fn ord_of(a: nat, b: nat) -> Ordering {
    if a < b { Ordering::Less } else if a == b { Ordering::Equal } else { Ordering::Greater }
}

//@ extract src/biguint.rs :: fn cmp_slice rules=R0,R12c,R14 props=C04
fn cmp_slice(a: &[BigDigit], b: &[BigDigit]) -> /*+*/(r: /*-*/Ordering/*+*/)/*-*/
//+{
    requires wf(a@), wf(b@)
    ensures r == ord_of(val(a@), val(b@))
//+}
{
//+{
    proof {
        if a.len() < b.len() { lemma_shorter_lt(a@, b@); }
        if b.len() < a.len() { lemma_shorter_lt(b@, a@); }
    }
//+}
    match Ord::cmp(&a.len(), &b.len()) {
        Ordering::Equal => /*+*/{ let r = /*-*/__cmp_rev(a, b)/*+*/;
            proof {
                if r == Ordering::Less {
                    let k = choose|k: int| 0 <= k < a.len() && a[k] < b[k] && forall|j: int| k < j < a.len() ==> a[j] == b[j];
                    lemma_lex_lt(a@, b@, k);
                }
                if r == Ordering::Greater {
                    let k = choose|k: int| 0 <= k < a.len() && a[k] > b[k] && forall|j: int| k < j < a.len() ==> a[j] == b[j];
                    lemma_lex_lt(b@, a@, k);
                }
            }
            r }/*-*/,
        other => other,
    }
}
//@ end

impl BigUint {
    // contract-only re-homing of `Ord::cmp` / `PartialEq::eq` (src/biguint.rs) as inherent methods
//@ extract src/biguint.rs :: impl Ord for BigUint :: fn cmp props=C04
    fn cmp(&self, other: &BigUint) -> /*+*/(r: /*-*/Ordering/*+*/)/*-*/
//+{
        requires self.wf(), other.wf()
        ensures r == ord_of(self.v(), other.v())
//+}
    {
//+{
        proof {
            assert(self.data@.subrange(0, self.data@.len() as int) =~= self.data@);
            assert(other.data@.subrange(0, other.data@.len() as int) =~= other.data@);
        }
//+}
        cmp_slice(&self.data[..], &other.data[..])
    }
//@ end

//@ extract src/biguint.rs :: impl PartialEq for BigUint :: fn eq rules=R0,R14 props=C04
    fn eq(&self, other: &BigUint) -> /*+*/(r: /*-*/bool/*+*/)/*-*/
//+{
        ensures self.wf() && other.wf() ==> r == (self.v() == other.v())
//+}
    {
//+{
        proof {
            if self.wf() && other.wf() && self.v() == other.v() { lemma_canonical_unique(self.data@, other.data@); }
        }
//+}
        /*+*/let r = /*-*/self.data == other.data/*+*/;
        proof {
            assert(r == self.data.eq_spec(&other.data));
            if r { assert(self.data@ =~= other.data@); }
            if self.data@ == other.data@ { assert(self.data.eq_spec(&other.data)); }
        }
        r/*-*/
    }
//@ end

//@ extract src/biguint.rs :: impl PartialOrd for BigUint :: fn partial_cmp props=C04
    fn partial_cmp(&self, other: &BigUint) -> /*+*/(r: /*-*/Option<Ordering>/*+*/)/*-*/
//+{
        requires self.wf(), other.wf()
        ensures r == Some(ord_of(self.v(), other.v()))
//+}
    {
        Some(self.cmp(other))
    }
//@ end

//@ extract src/biguint.rs :: impl BigUint :: const ZERO rules=R9,R13 label=BigUint_ZERO
    exec const ZERO: Self /*+*/ensures Self::ZERO.data@.len() == 0 /*-*/{ BigUint { data: Vec::new() } }
//@ end

//@ extract src/biguint.rs :: impl Default for BigUint :: fn default props=C04,C19
    fn default() -> /*+*/(r: /*-*/BigUint/*+*/)/*-*/
//+{
        ensures r.wf(), r.v() == 0
//+}
    {
        Self::ZERO
    }
//@ end
}

} // mod u
} // verus!
fn main() {}
