// Specification of the top-64-bit extraction with round-to-odd (C08), at digit level.
pub open spec fn MAX_DIGITS() -> nat { 0x200_0000_0000_0000 }  // 2^57 digits = 1 EiB: beyond any allocation

/// number of significant bits of a digit
pub open spec fn nbits(d: u64) -> int { 64 - (vstd::std_specs::bits::u64_leading_zeros(d) as int) }

pub open spec fn b2u(b: bool) -> u64 { if b { 1 } else { 0 } }

pub open spec fn any_nz(s: Seq<u64>, lo: int, hi: int) -> bool { exists|j: int| lo <= j < hi && s[j] != 0 }

/// what the loop has accumulated after i >= 2 digits (from the top)
pub open spec fn hb_part(s: Seq<u64>, i: int) -> u64 {
    let n = s.len() as int;
    let top = s[n - 1];
    let sec = s[n - 2];
    let t = nbits(top);
    if t == 64 {
        top | b2u(any_nz(s, n - i, n - 1))
    } else {
        ((top << ((64 - t) as u64)) | (sec >> (t as u64))) | b2u((sec << ((64 - t) as u64)) != 0 || any_nz(s, n - i, n - 2))
    }
}

/// top 64 bits of the value, least significant bit OR-ed with "any lower bit set" (round to odd)
pub open spec fn hb_spec(s: Seq<u64>) -> u64 { hb_part(s, s.len() as int) }

pub proof fn lemma_nbits_range(d: u64)
    ensures d != 0 ==> 1 <= nbits(d) <= 64, d == 0 ==> nbits(d) == 0, 0 <= vstd::std_specs::bits::u64_leading_zeros(d) <= 64
{
    vstd::std_specs::bits::axiom_u64_leading_zeros(d);
}

pub proof fn lemma_hb_first(top: u64, t: int)
    requires 1 <= t <= 64
    ensures
        t != 64 ==> ((0u64 << (t as u64)) | (top >> 0u64)) == top,
        t == 64 ==> (0u64 | (top >> 0u64)) == top,
{
    let tt = t as u64;
    assert(((0u64 << tt) | (top >> 0u64)) == top) by (bit_vector);
    assert((0u64 | (top >> 0u64)) == top) by (bit_vector);
}

pub proof fn lemma_hb_second(s: Seq<u64>, top: u64, d: u64, t: int, ret: u64)
    requires
        s.len() >= 2, top == s[s.len() - 1], d == s[s.len() - 2], t == nbits(top), 1 <= t <= 64,
        t < 64 ==> ret == ((top << ((64 - t) as u64)) | (d >> ((64 - (64 - t)) as u64))) | b2u((d << ((64 - t) as u64)) != 0),
        t == 64 ==> ret == top | b2u((d << 0u64) != 0),
    ensures ret == hb_part(s, 2)
{
    let n = s.len() as int;
    assert(!any_nz(s, n - 2, n - 2));
    if t == 64 {
        assert((d << 0u64) == d) by (bit_vector);
        assert(any_nz(s, n - 2, n - 1) == (d != 0)) by {
            if d != 0 { assert(s[n - 2] != 0); }
        }
    } else {
        assert(((64 - (64 - t)) as u64) == t as u64);
    }
}

pub proof fn lemma_hb_next(s: Seq<u64>, i: int, d: u64, ret0: u64, ret: u64)
    requires
        s.len() >= 2, 2 <= i < s.len(), d == s[s.len() - 1 - i],
        ret0 == hb_part(s, i),
        ret == ret0 | b2u((d << 0u64) != 0),
    ensures ret == hb_part(s, i + 1)
{
    let n = s.len() as int;
    let top = s[n - 1];
    let sec = s[n - 2];
    let t = nbits(top);
    assert((d << 0u64) == d) by (bit_vector);
    let q = d != 0;
    if t == 64 {
        let p = any_nz(s, n - i, n - 1);
        assert(any_nz(s, n - i - 1, n - 1) == (p || q)) by {
            if q { assert(s[n - 1 - i] != 0); }
            if p { let j = choose|j: int| n - i <= j < n - 1 && s[j] != 0; assert(s[j] != 0); }
        }
        lemma_or_b2u(top, p, q);
    } else {
        let x = (top << ((64 - t) as u64)) | (sec >> (t as u64));
        let p0 = (sec << ((64 - t) as u64)) != 0;
        let p = any_nz(s, n - i, n - 2);
        assert(any_nz(s, n - i - 1, n - 2) == (p || q)) by {
            if q { assert(s[n - 1 - i] != 0); }
            if p { let j = choose|j: int| n - i <= j < n - 2 && s[j] != 0; assert(s[j] != 0); }
        }
        lemma_or_b2u(x, p0 || p, q);
    }
}

pub proof fn lemma_or_b2u(x: u64, p: bool, q: bool)
    ensures (x | b2u(p)) | b2u(q) == x | b2u(p || q)
{
    let a = b2u(p); let b = b2u(q); let c = b2u(p || q);
    assert((a == 0 || a == 1) && (b == 0 || b == 1));
    assert(c == (a | b)) by (bit_vector) requires (a == 0 || a == 1), (b == 0 || b == 1), c == (if a == 1 || b == 1 { 1u64 } else { 0u64 });
    assert((x | a) | b == x | (a | b)) by (bit_vector);
}

/// the mantissa handed to the float conversion (the value itself up to 64 bits, else its top 64 bits rounded to odd) and the
/// binary exponent that goes with it
pub open spec fn fmant(s: Seq<u64>) -> u64 {
    if s.len() == 0 { 0u64 } else if s.len() == 1 { s[0] } else { hb_spec(s) }
}
pub open spec fn fexp(s: Seq<u64>) -> int {
    if s.len() <= 1 { 0int } else { 64 * (s.len() - 2) + nbits(s[s.len() - 1]) }
}
