//@ unit k_mac3 : multi-regime multiply-accumulate mac3 (schoolbook / half-Karatsuba / Karatsuba / Toom-3) with add2, sub_sign, bigint_from_slice (src/biguint/multiplication.rs)
#![feature(allocator_api)]
use vstd::prelude::*;
use vstd::std_specs::iter::IteratorSpec;
use vstd::std_specs::ops::*;
use core::ops::{Add, AddAssign, Sub, SubAssign, Mul, Div, Shl, Shr, Neg};
use core::cmp::Ordering;
verus! {
//@ include prelude/core.rs
//@ include prelude/std_specs.rs
//@ include prelude/panic.rs
//@ include prelude/macroom.rs
//@ extract src/bigint.rs :: enum Sign attrs=1
#[derive(/*+*/Structural, /*-*/PartialEq, PartialOrd, Eq, Ord, Copy, Clone, Debug, Hash)]
pub enum Sign {
    Minus,
    NoSign,
    Plus,
}
//@ end
pub mod u {
use super::*;
use Sign::*;

//@ extract src/biguint.rs :: struct BigUint
pub struct BigUint {
    data: Vec<BigDigit>,
}
//@ end
//@ include prelude/biguint_view.rs
pub open spec fn ord_of(a: nat, b: nat) -> Ordering {
    if a < b { Ordering::Less } else if a == b { Ordering::Equal } else { Ordering::Greater }
}
impl BigUint {
//@ extract src/biguint.rs :: impl BigUint :: const ZERO rules=R9,R13 label=BigUint_ZERO
    exec const ZERO: Self /*+*/ensures Self::ZERO.data@.len() == 0 /*-*/{ BigUint { data: Vec::new() } }
//@ end
//@ stub u_core/normalize
}
//@ stub u_core/biguint_from_vec
//@ stub u_cmp/cmp_slice
//@ stub k_add/__add2
//@ stub k_sub/sub2
//@ stub k_mul/mac_digit

/// val of a slice split at k
pub proof fn lemma_split(s: Seq<u64>, k: nat)
    requires k <= s.len()
    ensures val(s) == val(s.subrange(0, k as int)) + pw(k) * val(s.subrange(k as int, s.len() as int)),
        val(s.subrange(0, k as int)) < pw(k), val(s) < pw(s.len())
{
    let lo = s.subrange(0, k as int);
    let hi = s.subrange(k as int, s.len() as int);
    assert(s =~= lo + hi);
    lemma_val_concat(lo, hi);
    lemma_valp_bound(lo, k);
    lemma_valp_bound(s, s.len());
}

/// a bound on the whole gives a bound on the upper part: val(s) + B^k * e < B^len  ==>  val(s[k..]) + e < B^(len-k)
pub proof fn lemma_hi_fit(s: Seq<u64>, k: nat, e: nat)
    requires k <= s.len(), val(s) + pw(k) * e < pw(s.len())
    ensures val(s.subrange(k as int, s.len() as int)) + e < pw((s.len() - k) as nat)
{
    lemma_split(s, k);
    lemma_pw_add(k, (s.len() - k) as nat);
    lemma_pw_pos(k);
    let h = val(s.subrange(k as int, s.len() as int));
    let p = pw(k);
    let q = pw((s.len() - k) as nat);
    assert(h + e < q) by (nonlinear_arith) requires p * h + p * e < p * q, p >= 1;
}

//@ extract src/biguint/addition.rs :: fn add2 rules=R0,R14 props=C01,C02,C14
pub(super) fn add2(a: &mut [BigDigit], b: &[BigDigit])
//+{
    requires old(a).len() >= b.len(), val(old(a)@) + val(b@) < pw(old(a).len() as nat)
    ensures final(a).len() == old(a).len(), val(final(a)@) == val(old(a)@) + val(b@)
//+}
{
    let carry = __add2(a, b);
//+{
    proof {
        lemma_pw_pos(a@.len());
        assert(pw(a@.len()) * (carry as nat) >= pw(a@.len())  || carry == 0) by (nonlinear_arith) requires pw(a@.len()) >= 1;
    }
//+}

}
//@ end

//@ extract src/biguint/multiplication.rs :: fn sub_sign rules=R0,R36a,R36c props=C02,C01
fn sub_sign(mut a: &[BigDigit], mut b: &[BigDigit]) -> /*+*/(r: /*-*/(Sign, BigUint)/*+*/)/*-*/
//+{
    ensures r.1.wf(),
        val(a@) > val(b@) ==> r.0 == Plus && r.1.v() == val(a@) - val(b@),
        val(a@) < val(b@) ==> r.0 == Minus && r.1.v() == val(b@) - val(a@),
        val(a@) == val(b@) ==> r.0 == NoSign && r.1.v() == 0,
        r.1.dg().len() <= a@.len() || r.1.dg().len() <= b@.len(),
        r.1.dg().len() <= (if a@.len() >= b@.len() { a@.len() } else { b@.len() }),
//+}
{
//+{
    let ghost a0 = a@;
    let ghost b0 = b@;
//+}
    // Normalize:
    if __slice_last_is_zero(a) {
        a = &a[..__rposition_nonzero_end(a)];
//+{
        proof { lemma_val_strip(a0, a@.len()); assert(a@ =~= a0.subrange(0, a@.len() as int)); }
//+}
    }
    if __slice_last_is_zero(b) {
        b = &b[..__rposition_nonzero_end(b)];
//+{
        proof { lemma_val_strip(b0, b@.len()); assert(b@ =~= b0.subrange(0, b@.len() as int)); }
//+}
    }

//+{
    let ghost a1 = a@;
    let ghost b1 = b@;
//+}
    match cmp_slice(a, b) {
        Ordering::Greater => {
            let mut a = a.to_vec();
//+{
            assert(a@ == a1);
//+}
            sub2(&mut a, b);
            (Plus, biguint_from_vec(a))
        }
        Ordering::Less => {
            let mut b = b.to_vec();
//+{
            assert(b@ == b1);
//+}
            sub2(&mut b, a);
            (Minus, biguint_from_vec(b))
        }
        Ordering::Equal => (NoSign, BigUint::ZERO),
    }
}
//@ end


//@ extract src/bigint.rs :: struct BigInt
pub struct BigInt {
    sign: Sign,
    data: BigUint,
}
//@ end
//@ include prelude/bigint_view.rs
//@ include prelude/divspec.rs
pub open spec fn p2(k: nat) -> nat { vstd::arithmetic::power2::pow2(k) }
pub open spec fn tdiv(a: int, b: int) -> int {
    let q = (iabs(a) as nat / (iabs(b) as nat)) as int;
    if (a < 0) == (b < 0) { q } else { -q }
}
impl AddSpecImpl<&BigInt> for &BigInt {
    open spec fn obeys_add_spec() -> bool { false }
    open spec fn add_req(self, rhs: &BigInt) -> bool { self.wfi() && rhs.wfi() }
    open spec fn add_spec(self, rhs: &BigInt) -> BigInt { arbitrary() }
}
impl Add<&BigInt> for &BigInt {
    type Output = BigInt;
//@ stub i_addsub/add_rr
}
impl AddSpecImpl<BigInt> for BigInt {
    open spec fn obeys_add_spec() -> bool { false }
    open spec fn add_req(self, rhs: BigInt) -> bool { self.wfi() && rhs.wfi() }
    open spec fn add_spec(self, rhs: BigInt) -> BigInt { arbitrary() }
}
impl Add<BigInt> for BigInt {
    type Output = BigInt;
//@ stub i_addsub/add_vv
}
impl SubSpecImpl<&BigInt> for &BigInt {
    open spec fn obeys_sub_spec() -> bool { false }
    open spec fn sub_req(self, rhs: &BigInt) -> bool { self.wfi() && rhs.wfi() }
    open spec fn sub_spec(self, rhs: &BigInt) -> BigInt { arbitrary() }
}
impl Sub<&BigInt> for &BigInt {
    type Output = BigInt;
//@ stub i_addsub/sub_rr
}
impl SubSpecImpl<BigInt> for BigInt {
    open spec fn obeys_sub_spec() -> bool { false }
    open spec fn sub_req(self, rhs: BigInt) -> bool { self.wfi() && rhs.wfi() }
    open spec fn sub_spec(self, rhs: BigInt) -> BigInt { arbitrary() }
}
impl Sub<BigInt> for BigInt {
    type Output = BigInt;
//@ stub i_addsub/sub_vv
}
impl SubSpecImpl<&BigInt> for BigInt {
    open spec fn obeys_sub_spec() -> bool { false }
    open spec fn sub_req(self, rhs: &BigInt) -> bool { self.wfi() && rhs.wfi() }
    open spec fn sub_spec(self, rhs: &BigInt) -> BigInt { arbitrary() }
}
impl Sub<&BigInt> for BigInt {
    type Output = BigInt;
//@ stub i_addsub/sub_vr
}
impl SubSpecImpl<BigInt> for &BigInt {
    open spec fn obeys_sub_spec() -> bool { false }
    open spec fn sub_req(self, rhs: BigInt) -> bool { self.wfi() && rhs.wfi() }
    open spec fn sub_spec(self, rhs: BigInt) -> BigInt { arbitrary() }
}
impl Sub<BigInt> for &BigInt {
    type Output = BigInt;
//@ stub i_addsub/sub_rv
}
impl MulSpecImpl<&BigInt> for &BigInt {
    open spec fn obeys_mul_spec() -> bool { false }
    open spec fn mul_req(self, rhs: &BigInt) -> bool { self.wfi() && rhs.wfi() }
    open spec fn mul_spec(self, rhs: &BigInt) -> BigInt { arbitrary() }
}
impl Mul<&BigInt> for &BigInt {
    type Output = BigInt;
//@ stub i_mul/mul_rr
}
impl MulSpecImpl<BigInt> for BigInt {
    open spec fn obeys_mul_spec() -> bool { false }
    open spec fn mul_req(self, rhs: BigInt) -> bool { self.wfi() && rhs.wfi() }
    open spec fn mul_spec(self, rhs: BigInt) -> BigInt { arbitrary() }
}
impl Mul<BigInt> for BigInt {
    type Output = BigInt;
//@ stub i_mul/mul_vv
}
impl MulSpecImpl<i32> for BigInt {
    open spec fn obeys_mul_spec() -> bool { false }
    open spec fn mul_req(self, rhs: i32) -> bool { self.wfi() }
    open spec fn mul_spec(self, rhs: i32) -> BigInt { arbitrary() }
}
impl Mul<i32> for BigInt {
    type Output = BigInt;
//@ stub i_scalar/mul_i32
}
impl DivSpecImpl<u32> for BigInt {
    open spec fn obeys_div_spec() -> bool { false }
    open spec fn div_req(self, rhs: u32) -> bool { self.wfi() && (!mp() ==> rhs != 0) }
    open spec fn div_spec(self, rhs: u32) -> BigInt { arbitrary() }
}
impl Div<u32> for BigInt {
    type Output = BigInt;
//@ stub i_divscalar/div_u32
}
impl ShrSpecImpl<i32> for BigInt {
    open spec fn obeys_shr_spec() -> bool { false }
    open spec fn shr_req(self, rhs: i32) -> bool { self.wfi() && (!mp() ==> rhs >= 0) }
    open spec fn shr_spec(self, rhs: i32) -> BigInt { arbitrary() }
}
impl Shr<i32> for BigInt {
    type Output = BigInt;
//@ stub i_shift/shr_i32
}
impl ShlSpecImpl<i32> for &BigInt {
    open spec fn obeys_shl_spec() -> bool { false }
    open spec fn shl_req(self, rhs: i32) -> bool { self.wfi() && (!mp() ==> rhs >= 0) }
    open spec fn shl_spec(self, rhs: i32) -> BigInt { arbitrary() }
}
impl Shl<i32> for &BigInt {
    type Output = BigInt;
//@ stub i_shift/shl_ref_i32
}
impl AddAssignSpecImpl<BigInt> for BigInt {
    open spec fn obeys_add_assign_spec() -> bool { false }
    open spec fn add_assign_req(&self, rhs: BigInt) -> bool { self.wfi() && rhs.wfi() }
    open spec fn add_assign_spec(&self, rhs: BigInt) -> &BigInt { arbitrary() }
}
impl AddAssign<BigInt> for BigInt {
//@ stub i_addsub/add_assign_v
}
impl SubAssignSpecImpl<&BigInt> for BigInt {
    open spec fn obeys_sub_assign_spec() -> bool { false }
    open spec fn sub_assign_req(&self, rhs: &BigInt) -> bool { self.wfi() && rhs.wfi() }
    open spec fn sub_assign_spec(&self, rhs: &BigInt) -> &BigInt { arbitrary() }
}
impl SubAssign<&BigInt> for BigInt {
//@ stub i_addsub/sub_assign_r
}
impl MulSpecImpl<Sign> for Sign {
    open spec fn obeys_mul_spec() -> bool { false }
    open spec fn mul_req(self, rhs: Sign) -> bool { true }
    open spec fn mul_spec(self, rhs: Sign) -> Sign { arbitrary() }
}
impl Mul<Sign> for Sign {
    type Output = Sign;
//@ stub i_mul/sign_mul
}
impl vstd::std_specs::convert::FromSpecImpl<BigUint> for BigInt {
    open spec fn obeys_from_spec() -> bool { false }
    open spec fn from_spec(v: BigUint) -> BigInt { arbitrary() }
}
impl From<BigUint> for BigInt {
//@ stub i_div/from_biguint_trait
}
impl BigInt {
//@ stub i_core/sign
//@ stub i_bits/bigint_digits
}

/// `s.to_vec()` as an unnamed temporary denotes the same number
pub proof fn lemma_tovec_val(s: Seq<u64>)
    ensures forall|t: Seq<u64>| (t.len() == s.len() && (forall|i: int| 0 <= i < s.len() ==> cloned::<u64>(s[i], #[trigger] t[i]))) ==> #[trigger] val(t) == val(s)
{
    assert forall|t: Seq<u64>| (t.len() == s.len() && (forall|i: int| 0 <= i < s.len() ==> cloned::<u64>(s[i], #[trigger] t[i]))) implies #[trigger] val(t) == val(s) by {
        assert(t =~= s);
    }
}

//@ extract src/biguint/multiplication.rs :: fn bigint_from_slice props=C02
fn bigint_from_slice(slice: &[BigDigit]) -> /*+*/(r: /*-*/BigInt/*+*/)/*-*/
//+{
    ensures r.wfi(), r.iv() == val(slice@) as int
//+}
{
//+{
    proof { lemma_tovec_val(slice@); }
//+}
    BigInt::from(biguint_from_vec(slice.to_vec()))
}
//@ end

// ---------------------------------------------------------------- arithmetic of the four regimes

/// stripping nz low zero digits of b (and the same number of accumulator digits) keeps the room
pub proof fn lemma_room_strip(acc: Seq<u64>, b: Seq<u64>, cv: nat, lc: nat, nz: nat)
    requires nz < b.len(), forall|j: int| 0 <= j < nz ==> b[j] == 0,
        mac_room(val(acc), val(b), cv, b.len(), lc, acc.len())
    ensures val(b) == pw(nz) * val(b.subrange(nz as int, b.len() as int)),
        nz <= acc.len(),
        mac_room(val(acc.subrange(nz as int, acc.len() as int)), val(b.subrange(nz as int, b.len() as int)), cv, (b.len() - nz) as nat, lc, (acc.len() - nz) as nat)
{
    let b1 = b.subrange(nz as int, b.len() as int);
    lemma_split(b, nz);
    lemma_valp_zeros(b.subrange(0, nz as int), nz);
    let e = val(b1) * cv + slack((b.len() - nz) as nat, lc);
    lemma_pw_add(nz, (b.len() - nz + lc - 1) as nat);
    assert(pw(nz) * e == val(b) * cv + slack(b.len(), lc)) by (nonlinear_arith)
        requires val(b) == pw(nz) * val(b1), e == val(b1) * cv + slack((b.len() - nz) as nat, lc),
            slack(b.len(), lc) == pw(nz) * slack((b.len() - nz) as nat, lc);
    lemma_hi_fit(acc, nz, e);
}

/// after the inner accumulate on acc[nz..] the whole accumulator has gained b*c
pub proof fn lemma_strip_post(acc0: Seq<u64>, acc1: Seq<u64>, nz: nat, bv: nat, b1v: nat, cv: nat)
    requires nz <= acc0.len(), acc1.len() == acc0.len(), acc1.subrange(0, nz as int) =~= acc0.subrange(0, nz as int),
        val(acc1.subrange(nz as int, acc1.len() as int)) == val(acc0.subrange(nz as int, acc0.len() as int)) + b1v * cv,
        bv == pw(nz) * b1v
    ensures val(acc1) == val(acc0) + bv * cv
{
    lemma_split(acc0, nz);
    lemma_split(acc1, nz);
    let h0 = val(acc0.subrange(nz as int, acc0.len() as int));
    assert(pw(nz) * (h0 + b1v * cv) == pw(nz) * h0 + (pw(nz) * b1v) * cv) by (nonlinear_arith);
}

pub proof fn lemma_dist3(a: int, d: int, e: int, f: int)
    ensures a * (d + e + f) == a * d + a * e + a * f
{
    assert(a * (d + e + f) == a * d + a * e + a * f) by (nonlinear_arith);
}

pub proof fn lemma_expand33(a: int, b: int, c: int, d: int, e: int, f: int)
    ensures (a + b + c) * (d + e + f) == a * d + a * e + a * f + b * d + b * e + b * f + c * d + c * e + c * f
{
    let g = d + e + f;
    assert((a + b + c) * g == a * g + b * g + c * g) by (nonlinear_arith);
    lemma_dist3(a, d, e, f);
    lemma_dist3(b, d, e, f);
    lemma_dist3(c, d, e, f);
}

/// Karatsuba's identity
pub proof fn lemma_karatsuba(x0: int, x1: int, y0: int, y1: int, p: int)
    ensures (x0 + p * x1) * (y0 + p * y1) == p * p * (x1 * y1) + p * (x1 * y1 + x0 * y0 - (x1 - x0) * (y1 - y0)) + x0 * y0
{
    let u = p * x1;
    let v = p * y1;
    assert((x0 + u) * (y0 + v) == x0 * y0 + x0 * v + u * y0 + u * v) by (nonlinear_arith);
    assert(x0 * v == p * (x0 * y1)) by (nonlinear_arith) requires v == p * y1;
    assert(u * y0 == p * (x1 * y0)) by (nonlinear_arith) requires u == p * x1;
    assert(u * v == p * p * (x1 * y1)) by (nonlinear_arith) requires u == p * x1, v == p * y1;
    assert((x1 - x0) * (y1 - y0) == x1 * y1 - x1 * y0 - x0 * y1 + x0 * y0) by (nonlinear_arith);
    let m = x1 * y1 + x0 * y0 - (x1 - x0) * (y1 - y0);
    assert(m == x1 * y0 + x0 * y1);
    assert(p * (x1 * y0 + x0 * y1) == p * (x1 * y0) + p * (x0 * y1)) by (nonlinear_arith);
}

/// Toom-3: the product polynomial
pub proof fn lemma_toom_poly(x0: int, x1: int, x2: int, y0: int, y1: int, y2: int, q: int)
    ensures (x0 + q * x1 + q * q * x2) * (y0 + q * y1 + q * q * y2)
        == x0 * y0 + q * (x0 * y1 + x1 * y0) + q * q * (x0 * y2 + x1 * y1 + x2 * y0) + q * q * q * (x1 * y2 + x2 * y1) + q * q * q * q * (x2 * y2)
{
    let u1 = q * x1; let u2 = q * q * x2; let v1 = q * y1; let v2 = q * q * y2;
    lemma_expand33(x0, u1, u2, y0, v1, v2);
    let qq = q * q;
    assert(x0 * v1 == q * (x0 * y1)) by (nonlinear_arith) requires v1 == q * y1;
    assert(u1 * y0 == q * (x1 * y0)) by (nonlinear_arith) requires u1 == q * x1;
    assert(x0 * v2 == qq * (x0 * y2)) by (nonlinear_arith) requires v2 == qq * y2;
    assert(u1 * v1 == qq * (x1 * y1)) by (nonlinear_arith) requires u1 == q * x1, v1 == q * y1, qq == q * q;
    assert(u2 * y0 == qq * (x2 * y0)) by (nonlinear_arith) requires u2 == qq * x2;
    assert(u1 * v2 == (qq * q) * (x1 * y2)) by (nonlinear_arith) requires u1 == q * x1, v2 == qq * y2;
    assert(u2 * v1 == (qq * q) * (x2 * y1)) by (nonlinear_arith) requires u2 == qq * x2, v1 == q * y1;
    assert(u2 * v2 == (qq * qq) * (x2 * y2)) by (nonlinear_arith) requires u2 == qq * x2, v2 == qq * y2;
    assert(q * (x0 * y1 + x1 * y0) == q * (x0 * y1) + q * (x1 * y0)) by (nonlinear_arith);
    lemma_dist3(qq, x0 * y2, x1 * y1, x2 * y0);
    assert((qq * q) * (x1 * y2 + x2 * y1) == (qq * q) * (x1 * y2) + (qq * q) * (x2 * y1)) by (nonlinear_arith);
    assert(qq * q == q * q * q);
    assert(qq * qq == q * q * q * q) by (nonlinear_arith) requires qq == q * q;
}

pub proof fn lemma_lin9(c0: int, t01: int, t02: int, t10: int, t11: int, t12: int, t20: int, t21: int, c4: int, lhs: int)
    requires lhs == c0 + (-2 * t01) + 4 * t02 + (-2 * t10) + 4 * t11 + (-8 * t12) + 4 * t20 + (-8 * t21) + 16 * c4
    ensures lhs == c0 - 2 * (t01 + t10) + 4 * (t02 + t11 + t20) - 8 * (t12 + t21) + 16 * c4
{
}

/// Toom-3: the values at 1, -1, -2 in terms of the coefficients
pub proof fn lemma_toom_evals(x0: int, x1: int, x2: int, y0: int, y1: int, y2: int)
    ensures ({
        let c0 = x0 * y0; let c1 = x0 * y1 + x1 * y0; let c2 = x0 * y2 + x1 * y1 + x2 * y0; let c3 = x1 * y2 + x2 * y1; let c4 = x2 * y2;
        &&& (x0 + x2 + x1) * (y0 + y2 + y1) == c0 + c1 + c2 + c3 + c4
        &&& (x0 + x2 - x1) * (y0 + y2 - y1) == c0 - c1 + c2 - c3 + c4
        &&& ((x0 + x2 - x1 + x2) * 2 - x0) * ((y0 + y2 - y1 + y2) * 2 - y0) == c0 - 2 * c1 + 4 * c2 - 8 * c3 + 16 * c4
    })
{
    lemma_expand33(x0, x2, x1, y0, y2, y1);
    let nx = -x1; let ny = -y1;
    lemma_expand33(x0, x2, nx, y0, y2, ny);
    assert(x0 * ny == -(x0 * y1)) by (nonlinear_arith) requires ny == -y1;
    assert(x2 * ny == -(x2 * y1)) by (nonlinear_arith) requires ny == -y1;
    assert(nx * y0 == -(x1 * y0)) by (nonlinear_arith) requires nx == -x1;
    assert(nx * y2 == -(x1 * y2)) by (nonlinear_arith) requires nx == -x1;
    assert(nx * ny == x1 * y1) by (nonlinear_arith) requires nx == -x1, ny == -y1;
    assert(x0 + x2 - x1 == x0 + x2 + nx && y0 + y2 - y1 == y0 + y2 + ny);
    let a = x0; let b = -2 * x1; let c = 4 * x2; let d = y0; let e = -2 * y1; let f = 4 * y2;
    assert((x0 + x2 - x1 + x2) * 2 - x0 == a + b + c);
    assert((y0 + y2 - y1 + y2) * 2 - y0 == d + e + f);
    lemma_expand33(a, b, c, d, e, f);
    assert(a * e == -2 * (x0 * y1)) by (nonlinear_arith) requires a == x0, e == -2 * y1;
    assert(a * f == 4 * (x0 * y2)) by (nonlinear_arith) requires a == x0, f == 4 * y2;
    assert(b * d == -2 * (x1 * y0)) by (nonlinear_arith) requires b == -2 * x1, d == y0;
    assert(b * e == 4 * (x1 * y1)) by (nonlinear_arith) requires b == -2 * x1, e == -2 * y1;
    assert(b * f == -8 * (x1 * y2)) by (nonlinear_arith) requires b == -2 * x1, f == 4 * y2;
    assert(c * d == 4 * (x2 * y0)) by (nonlinear_arith) requires c == 4 * x2, d == y0;
    assert(c * e == -8 * (x2 * y1)) by (nonlinear_arith) requires c == 4 * x2, e == -2 * y1;
    assert(c * f == 16 * (x2 * y2)) by (nonlinear_arith) requires c == 4 * x2, f == 4 * y2;
    let c0 = x0 * y0; let c1 = x0 * y1 + x1 * y0; let c2 = x0 * y2 + x1 * y1 + x2 * y0; let c3 = x1 * y2 + x2 * y1; let c4 = x2 * y2;
    assert((x0 + x2 + x1) * (y0 + y2 + y1) == c0 + c1 + c2 + c3 + c4);
    assert((x0 + x2 + nx) * (y0 + y2 + ny) == c0 - c1 + c2 - c3 + c4);
    assert((a + b + c) * (d + e + f) == a * d + a * e + a * f + b * d + b * e + b * f + c * d + c * e + c * f);
    assert(a * d == x0 * y0);
    assert((a + b + c) * (d + e + f) == x0 * y0 + (-2 * (x0 * y1)) + 4 * (x0 * y2) + (-2 * (x1 * y0)) + 4 * (x1 * y1) + (-8 * (x1 * y2)) + 4 * (x2 * y0) + (-8 * (x2 * y1)) + 16 * (x2 * y2));
    let t01 = x0 * y1; let t10 = x1 * y0; let t02 = x0 * y2; let t11 = x1 * y1; let t20 = x2 * y0; let t12 = x1 * y2; let t21 = x2 * y1;
    assert(c1 == t01 + t10 && c2 == t02 + t11 + t20 && c3 == t12 + t21);
    assert(2 * c1 == 2 * t01 + 2 * t10);
    assert(4 * c2 == 4 * t02 + 4 * t11 + 4 * t20);
    assert(8 * c3 == 8 * t12 + 8 * t21);
    let lhs = (a + b + c) * (d + e + f);
    assert(lhs == c0 + (-2 * t01) + 4 * t02 + (-2 * t10) + 4 * t11 + (-8 * t12) + 4 * t20 + (-8 * t21) + 16 * c4);
    lemma_lin9(c0, t01, t02, t10, t11, t12, t20, t21, c4, lhs);
}

/// a canonical digit string below B^k has at most k digits
pub proof fn lemma_len_bound(s: Seq<u64>, k: nat)
    requires wf(s), val(s) < pw(k)
    ensures s.len() <= k
{
    if s.len() > k {
        lemma_wf_lower(s);
        lemma_pw_mono(k, (s.len() - 1) as nat);
    }
}

pub proof fn lemma_mul_comm_room(a: nat, x: nat, y: nat, lx: nat, ly: nat, la: nat)
    requires mac_room(a, x, y, lx, ly, la)
    ensures mac_room(a, y, x, ly, lx, la), x * y == y * x
{
    assert(x * y == y * x) by (nonlinear_arith);
}

/// schoolbook step i: the accumulator's tail from digit i has room for y * x[i]
pub proof fn lemma_school_step(cur: Seq<u64>, x: Seq<u64>, i: nat, yv: nat, a0v: nat)
    requires i < x.len(), val(cur) == a0v + valp(x, i) * yv, a0v + val(x) * yv < pw(cur.len()), i <= cur.len()
    ensures val(cur.subrange(i as int, cur.len() as int)) + yv * (x[i as int] as nat) < pw((cur.len() - i) as nat),
        valp(x, i + 1) == valp(x, i) + (x[i as int] as nat) * pw(i)
{
    let xi = x[i as int] as nat;
    lemma_valp_mono(x, i + 1, x.len());
    assert(valp(x, i + 1) * yv <= val(x) * yv) by (nonlinear_arith) requires valp(x, i + 1) <= val(x);
    assert(valp(x, i + 1) * yv == valp(x, i) * yv + pw(i) * (yv * xi)) by (nonlinear_arith)
        requires valp(x, i + 1) == valp(x, i) + xi * pw(i);
    lemma_hi_fit(cur, i, yv * xi);
}

pub proof fn lemma_school_post(cur: Seq<u64>, nxt: Seq<u64>, x: Seq<u64>, i: nat, yv: nat, a0v: nat)
    requires i < x.len(), i <= cur.len(), nxt.len() == cur.len(), nxt.subrange(0, i as int) =~= cur.subrange(0, i as int),
        val(nxt.subrange(i as int, nxt.len() as int)) == val(cur.subrange(i as int, cur.len() as int)) + yv * (x[i as int] as nat),
        val(cur) == a0v + valp(x, i) * yv
    ensures val(nxt) == a0v + valp(x, i + 1) * yv
{
    let xi = x[i as int] as nat;
    lemma_strip_post(cur, nxt, i, pw(i) * yv, yv, xi);
    assert(valp(x, i + 1) * yv == valp(x, i) * yv + (pw(i) * yv) * xi) by (nonlinear_arith)
        requires valp(x, i + 1) == valp(x, i) + xi * pw(i);
}

pub proof fn lemma_halfk_post(a0: Seq<u64>, a1: Seq<u64>, a2: Seq<u64>, xv: nat, lo: nat, hi: nat, yv: nat, m2: nat)
    requires m2 <= a1.len(), a2.len() == a1.len(), a2.subrange(0, m2 as int) =~= a1.subrange(0, m2 as int),
        val(a2.subrange(m2 as int, a2.len() as int)) == val(a1.subrange(m2 as int, a1.len() as int)) + xv * hi,
        val(a1) == val(a0) + xv * lo, yv == lo + pw(m2) * hi
    ensures val(a2) == val(a0) + xv * yv
{
    lemma_strip_post(a1, a2, m2, pw(m2) * xv, xv, hi);
    assert(val(a0) + xv * lo + (pw(m2) * xv) * hi == val(a0) + xv * yv) by (nonlinear_arith) requires yv == lo + pw(m2) * hi;
}

pub proof fn lemma_valp_mono(s: Seq<u64>, i: nat, k: nat)
    requires i <= k, k <= s.len()
    ensures valp(s, i) <= valp(s, k)
    decreases k - i
{
    if i < k { lemma_valp_mono(s, i, (k - 1) as nat); }
}

/// half-Karatsuba: room for the first inner call
pub proof fn lemma_halfk_first(a: nat, xv: nat, lo: nat, hi: nat, yv: nat, lx: nat, m2: nat, ly: nat, la: nat)
    requires mac_room(a, xv, yv, lx, ly, la), yv == lo + pw(m2) * hi, m2 <= ly
    ensures mac_room(a, xv, lo, lx, m2, la)
{
    lemma_pw_pos(m2);
    assert(xv * lo <= xv * yv) by (nonlinear_arith) requires lo <= yv;
    if lx + m2 >= 1 { lemma_pw_mono((lx + m2 - 1) as nat, (lx + ly - 1) as nat); }
    else { lemma_pw_pos((lx + ly - 1) as nat); }
}

/// half-Karatsuba: room for the second inner call on acc[m2..]
pub proof fn lemma_halfk_second(a0: Seq<u64>, a1: Seq<u64>, xv: nat, lo: nat, hi: nat, yv: nat, lx: nat, m2: nat, ly: nat)
    requires a1.len() == a0.len(), mac_room(val(a0), xv, yv, lx, ly, a0.len()), yv == lo + pw(m2) * hi, 1 <= m2 < ly,
        val(a1) == val(a0) + xv * lo
    ensures m2 <= a1.len(), mac_room(val(a1.subrange(m2 as int, a1.len() as int)), xv, hi, lx, (ly - m2) as nat, (a1.len() - m2) as nat)
{
    let e = xv * hi + slack(lx, (ly - m2) as nat);
    lemma_pw_add(m2, (lx + ly - m2 - 1) as nat);
    assert(val(a1) + pw(m2) * e == val(a0) + xv * yv + slack(lx, ly)) by (nonlinear_arith)
        requires val(a1) == val(a0) + xv * lo, yv == lo + pw(m2) * hi, e == xv * hi + slack(lx, (ly - m2) as nat),
            slack(lx, ly) == pw(m2) * slack(lx, (ly - m2) as nat);
    lemma_hi_fit(a1, m2, e);
}


pub proof fn lemma_base_facts(s: Seq<u64>)
    ensures pw(0) == 1, valp(s, 0) == 0
{
}

/// adding v at digit position k
pub proof fn lemma_add_at(old: Seq<u64>, new: Seq<u64>, k: nat, v: nat)
    requires k <= old.len(), new.len() == old.len(), new.subrange(0, k as int) =~= old.subrange(0, k as int),
        val(new.subrange(k as int, new.len() as int)) == val(old.subrange(k as int, old.len() as int)) + v
    ensures val(new) == val(old) + pw(k) * v
{
    lemma_split(old, k);
    lemma_split(new, k);
    let h = val(old.subrange(k as int, old.len() as int));
    assert(pw(k) * (h + v) == pw(k) * h + pw(k) * v) by (nonlinear_arith);
}

/// removing v at digit position k
pub proof fn lemma_sub_at(old: Seq<u64>, new: Seq<u64>, k: nat, v: nat)
    requires k <= old.len(), new.len() == old.len(), new.subrange(0, k as int) =~= old.subrange(0, k as int),
        val(new.subrange(k as int, new.len() as int)) + v == val(old.subrange(k as int, old.len() as int))
    ensures val(new) + pw(k) * v == val(old)
{
    lemma_split(old, k);
    lemma_split(new, k);
    let h = val(new.subrange(k as int, new.len() as int));
    assert(pw(k) * (h + v) == pw(k) * h + pw(k) * v) by (nonlinear_arith);
}

/// the tail of the accumulator from digit k holds at least v when the whole holds at least B^k * v
pub proof fn lemma_hi_ge(s: Seq<u64>, k: nat, v: nat)
    requires k <= s.len(), val(s) >= pw(k) * v
    ensures val(s.subrange(k as int, s.len() as int)) >= v
{
    lemma_split(s, k);
    lemma_pw_pos(k);
    let h = val(s.subrange(k as int, s.len() as int));
    let lo = val(s.subrange(0, k as int));
    assert(h >= v) by (nonlinear_arith) requires lo + pw(k) * h >= pw(k) * v, lo < pw(k), pw(k) >= 1;
}

pub open spec fn kara_t4(av: nat, x0: nat, x1: nat, y0: nat, y1: nat, b: nat) -> nat {
    av + pw(b) * (x1 * y1) + pw(2 * b) * (x1 * y1) + x0 * y0 + pw(b) * (x0 * y0)
}
pub open spec fn kara_cross(x0: nat, x1: nat, y0: nat, y1: nat) -> int { (x1 as int - x0 as int) * (y1 as int - y0 as int) }

/// Karatsuba: the largest transient value of the accumulator and what it stands for
pub proof fn lemma_kara_plan(av: nat, x0: nat, x1: nat, y0: nat, y1: nat, b: nat, lx1: nat, ly1: nat, la: nat)
    requires b >= 1, lx1 >= b, ly1 >= b, x0 < pw(b), y0 < pw(b), x1 < pw(lx1), y1 < pw(ly1),
        mac_room(av, x0 + pw(b) * x1, y0 + pw(b) * y1, b + lx1, b + ly1, la)
    ensures
        kara_t4(av, x0, x1, y0, y1, b) as int == av + (x0 + pw(b) * x1) * (y0 + pw(b) * y1) + pw(b) * kara_cross(x0, x1, y0, y1),
        kara_t4(av, x0, x1, y0, y1, b) < pw(la),
        pw(2 * b) == pw(b) * pw(b),
{
    let p = pw(b);
    lemma_pw_add(b, b);
    lemma_karatsuba(x0 as int, x1 as int, y0 as int, y1 as int, p as int);
    let z2 = x1 * y1; let z0 = x0 * y0; let cr = kara_cross(x0, x1, y0, y1);
    let xy = (x0 + p * x1) * (y0 + p * y1);
    assert(p * (z2 as int + z0 as int - cr) == p * z2 + p * z0 - p * cr) by (nonlinear_arith);
    assert(kara_t4(av, x0, x1, y0, y1, b) as int == av + xy + p * cr);
    if cr > 0 {
        // |x1 - x0| < B^lx1, |y1 - y0| < B^ly1
        lemma_pw_mono(b, lx1); lemma_pw_mono(b, ly1);
        let d0 = if x1 >= x0 { (x1 - x0) as nat } else { (x0 - x1) as nat };
        let d1 = if y1 >= y0 { (y1 - y0) as nat } else { (y0 - y1) as nat };
        assert(cr == d0 * d1) by (nonlinear_arith)
            requires cr == (x1 as int - x0 as int) * (y1 as int - y0 as int), cr > 0,
                d0 as int == (if x1 >= x0 { x1 as int - x0 as int } else { x0 as int - x1 as int }),
                d1 as int == (if y1 >= y0 { y1 as int - y0 as int } else { y0 as int - y1 as int });
        lemma_mul_lt(d0, d1, pw(lx1), pw(ly1));
        lemma_pw_add(lx1, ly1);
        lemma_pw_add(b, lx1 + ly1);
        lemma_pw_mono(b + lx1 + ly1, (2 * b + lx1 + ly1 - 1) as nat);
        assert(p * (d0 * d1) < p * pw(lx1 + ly1)) by (nonlinear_arith) requires d0 * d1 < pw(lx1 + ly1), p >= 1;
        lemma_pw_pos(b);
        assert(p * cr == p * (d0 * d1));
        assert(slack(b + lx1, b + ly1) == pw((2 * b + lx1 + ly1 - 1) as nat));
    } else {
        lemma_pw_pos(b);
        assert(p * cr <= 0) by (nonlinear_arith) requires p >= 1, cr <= 0;
    }
}

pub proof fn lemma_sign_mul_cases(s0: Sign, s1: Sign, r: Sign)
    requires sgn(r) == sgn(s0) * sgn(s1)
    ensures r == Plus <==> ((s0 == Plus && s1 == Plus) || (s0 == Minus && s1 == Minus)),
        r == Minus <==> ((s0 == Plus && s1 == Minus) || (s0 == Minus && s1 == Plus)),
        r == NoSign <==> (s0 == NoSign || s1 == NoSign),
{
    assert(1int * 1int == 1 && (-1int) * (-1int) == 1 && 1int * (-1int) == -1 && (-1int) * 1int == -1) by (nonlinear_arith);
    assert(0int * 1int == 0 && 0int * (-1int) == 0 && 0int * 0int == 0 && 1int * 0int == 0 && (-1int) * 0int == 0) by (nonlinear_arith);
}

/// the cross term of Karatsuba from the two sub_sign results
pub proof fn lemma_kara_cross(x0: nat, x1: nat, y0: nat, y1: nat, s0: Sign, j0: nat, s1: Sign, j1: nat, r: Sign, p: nat)
    requires
        x1 > x0 ==> s0 == Plus && j0 == x1 - x0, x1 < x0 ==> s0 == Minus && j0 == x0 - x1, x1 == x0 ==> s0 == NoSign && j0 == 0,
        y1 > y0 ==> s1 == Plus && j1 == y1 - y0, y1 < y0 ==> s1 == Minus && j1 == y0 - y1, y1 == y0 ==> s1 == NoSign && j1 == 0,
        sgn(r) == sgn(s0) * sgn(s1)
    ensures r == Plus ==> kara_cross(x0, x1, y0, y1) == j0 * j1 && j0 > 0 && j1 > 0,
        r == Minus ==> kara_cross(x0, x1, y0, y1) == -((j0 * j1) as int) && j0 > 0 && j1 > 0,
        r == NoSign ==> kara_cross(x0, x1, y0, y1) == 0,
        r == Plus ==> p * kara_cross(x0, x1, y0, y1) == p * (j0 * j1),
        r == Minus ==> p * kara_cross(x0, x1, y0, y1) == -((p * (j0 * j1)) as int),
        r == NoSign ==> p * kara_cross(x0, x1, y0, y1) == 0,
{
    lemma_sign_mul_cases(s0, s1, r);
    let jj = (j0 * j1) as int;
    assert((p as int) * (-jj) == -((p as int) * jj) && (p as int) * 0 == 0) by (nonlinear_arith);
    let a = x1 as int - x0 as int;
    let c = y1 as int - y0 as int;
    assert(a * c == (-a) * (-c) && a * (-c) == -(a * c) && (-a) * c == -(a * c)) by (nonlinear_arith);
    assert(0 * c == 0 && a * 0 == 0) by (nonlinear_arith);
}

/// Karatsuba, negative cross term: room for the final accumulate of j0*j1 on acc[b..]
pub proof fn lemma_kara_minus_room(acc4: Seq<u64>, av: nat, xyv: nat, j0: nat, j1: nat, lj0: nat, lj1: nat, b: nat, lx1: nat, ly1: nat)
    requires b >= 1, lj0 <= lx1, lj1 <= ly1, lx1 >= b, ly1 >= b, j0 > 0, j1 > 0, j0 < pw(lj0), j1 < pw(lj1),
        acc4.len() >= 2 * b + lx1 + ly1 + 1,
        av + xyv + slack(b + lx1, b + ly1) < pw(acc4.len()),
        val(acc4) + pw(b) * (j0 * j1) == av + xyv,
    ensures mac_room(val(acc4.subrange(b as int, acc4.len() as int)), j0, j1, lj0, lj1, (acc4.len() - b) as nat)
{
    lemma_pw_pos(lj0); lemma_pw_pos(lj1);
    assert(lj0 >= 1 && lj1 >= 1) by { if lj0 == 0 { } if lj1 == 0 { } };
    let e = j0 * j1 + slack(lj0, lj1);
    lemma_pw_add(b, (lj0 + lj1 - 1) as nat);
    lemma_pw_mono((b + lj0 + lj1 - 1) as nat, (2 * b + lx1 + ly1 - 1) as nat);
    assert(pw(b) * e == pw(b) * (j0 * j1) + pw(b) * slack(lj0, lj1)) by (nonlinear_arith) requires e == j0 * j1 + slack(lj0, lj1);
    lemma_hi_fit(acc4, b, e);
}


// ---------------------------------------------------------------- Toom-3
pub open spec fn tc0(x0: int, x1: int, x2: int, y0: int, y1: int, y2: int) -> int { x0 * y0 }
pub open spec fn tc1(x0: int, x1: int, x2: int, y0: int, y1: int, y2: int) -> int { x0 * y1 + x1 * y0 }
pub open spec fn tc2(x0: int, x1: int, x2: int, y0: int, y1: int, y2: int) -> int { x0 * y2 + x1 * y1 + x2 * y0 }
pub open spec fn tc3(x0: int, x1: int, x2: int, y0: int, y1: int, y2: int) -> int { x1 * y2 + x2 * y1 }
pub open spec fn tc4(x0: int, x1: int, x2: int, y0: int, y1: int, y2: int) -> int { x2 * y2 }

/// a digit string cut in three: s[..i], s[i..i+k], s[i+k..]
pub proof fn lemma_split3(s: Seq<u64>, i: nat, k: nat)
    requires i + k <= s.len()
    ensures val(s) == val(s.subrange(0, i as int)) + pw(i) * val(s.subrange(i as int, (i + k) as int)) + pw(i + k) * val(s.subrange((i + k) as int, s.len() as int)),
        val(s.subrange(0, i as int)) < pw(i), val(s.subrange(i as int, (i + k) as int)) < pw(k)
{
    lemma_split(s, i);
    let t = s.subrange(i as int, s.len() as int);
    lemma_split(t, k);
    assert(t.subrange(0, k as int) =~= s.subrange(i as int, (i + k) as int));
    assert(t.subrange(k as int, t.len() as int) =~= s.subrange((i + k) as int, s.len() as int));
    lemma_pw_add(i, k);
    let m = val(s.subrange(i as int, (i + k) as int));
    let h = val(s.subrange((i + k) as int, s.len() as int));
    assert(pw(i) * (m + pw(k) * h) == pw(i) * m + (pw(i) * pw(k)) * h) by (nonlinear_arith);
}

pub proof fn lemma_nonneg_mul(a: int, b: int)
    requires a >= 0, b >= 0
    ensures a * b >= 0
{
    assert(a * b >= 0) by (nonlinear_arith) requires a >= 0, b >= 0;
}

/// everything the Toom-3 branch needs about the five coefficients
pub proof fn lemma_toom_all(x0: nat, x1: nat, x2: nat, y0: nat, y1: nat, y2: nat, i: nat)
    ensures ({
        let (a0, a1, a2, b0, b1, b2) = (x0 as int, x1 as int, x2 as int, y0 as int, y1 as int, y2 as int);
        let c0 = tc0(a0, a1, a2, b0, b1, b2); let c1 = tc1(a0, a1, a2, b0, b1, b2); let c2 = tc2(a0, a1, a2, b0, b1, b2);
        let c3 = tc3(a0, a1, a2, b0, b1, b2); let c4 = tc4(a0, a1, a2, b0, b1, b2);
        &&& c0 >= 0 && c1 >= 0 && c2 >= 0 && c3 >= 0 && c4 >= 0
        &&& ((x0 + pw(i) * x1 + pw(2 * i) * x2) * (y0 + pw(i) * y1 + pw(2 * i) * y2)) as int
            == c0 + pw(i) * c1 + pw(2 * i) * c2 + pw(3 * i) * c3 + pw(4 * i) * c4
        &&& (a0 + a2 + a1) * (b0 + b2 + b1) == c0 + c1 + c2 + c3 + c4
        &&& (a0 + a2 - a1) * (b0 + b2 - b1) == c0 - c1 + c2 - c3 + c4
        &&& ((a0 + a2 - a1 + a2) * 2 - a0) * ((b0 + b2 - b1 + b2) * 2 - b0) == c0 - 2 * c1 + 4 * c2 - 8 * c3 + 16 * c4
    })
{
    let (a0, a1, a2, b0, b1, b2) = (x0 as int, x1 as int, x2 as int, y0 as int, y1 as int, y2 as int);
    lemma_nonneg_mul(a0, b0); lemma_nonneg_mul(a0, b1); lemma_nonneg_mul(a1, b0); lemma_nonneg_mul(a0, b2); lemma_nonneg_mul(a1, b1);
    lemma_nonneg_mul(a2, b0); lemma_nonneg_mul(a1, b2); lemma_nonneg_mul(a2, b1); lemma_nonneg_mul(a2, b2);
    let q = pw(i) as int;
    lemma_toom_poly(a0, a1, a2, b0, b1, b2, q);
    lemma_toom_evals(a0, a1, a2, b0, b1, b2);
    lemma_pw_add(i, i); lemma_pw_add(2 * i, i); lemma_pw_add(3 * i, i);
    assert(pw(2 * i) as int == q * q);
    assert(pw(3 * i) as int == q * q * q);
    assert(pw(4 * i) as int == q * q * q * q);
}

/// the interpolation sequence of mac3's Toom-3 branch recovers the coefficients (pure linear arithmetic)
pub proof fn lemma_toom_interp(c0: int, c1: int, c2: int, c3: int, c4: int, r1: int, r2: int, r3: int)
    requires r1 == c0 + c1 + c2 + c3 + c4, r2 == c0 - c1 + c2 - c3 + c4, r3 == c0 - 2 * c1 + 4 * c2 - 8 * c3 + 16 * c4
    ensures ({
        let k3 = tdiv(r3 - r1, 3);
        let h1 = (r1 - r2) / 2;
        let m2 = r2 - c0;
        let n3 = (m2 - k3) / 2 + c4 * 2;
        &&& k3 == -c1 + c2 - 3 * c3 + 5 * c4
        &&& h1 == c1 + c3
        &&& n3 == c3
        &&& m2 + (h1 - c4) == c2
        &&& h1 - n3 == c1
    })
{
    let k = -c1 + c2 - 3 * c3 + 5 * c4;
    assert(r3 - r1 == 3 * k);
    lemma_tdiv_exact3(k);
}

pub proof fn lemma_tdiv_exact3(k: int)
    ensures tdiv(3 * k, 3) == k
{
    if k >= 0 {
        assert(iabs(3 * k) == 3 * k);
        vstd::arithmetic::div_mod::lemma_fundamental_div_mod_converse(3 * k, 3, k, 0);
    } else {
        assert(iabs(3 * k) == 3 * (-k));
        vstd::arithmetic::div_mod::lemma_fundamental_div_mod_converse(3 * (-k), 3, -k, 0);
    }
}


/// the part of the Toom-3 recombination already added: terms j, j+1, .., 4
pub open spec fn tsum(cs: Seq<int>, i: nat, j: nat) -> int
    decreases 5 - j
{
    if j >= 5 { 0 } else { pw(i * j) * cs[j as int] + tsum(cs, i, j + 1) }
}

pub proof fn lemma_tsum5(cs: Seq<int>, i: nat)
    requires cs.len() == 5
    ensures tsum(cs, i, 0) == pw(i * 0) * cs[0] + pw(i * 1) * cs[1] + pw(i * 2) * cs[2] + pw(i * 3) * cs[3] + pw(i * 4) * cs[4], tsum(cs, i, 5) == 0
{
    assert(tsum(cs, i, 5) == 0);
    assert(tsum(cs, i, 4) == pw(i * 4) * cs[4] + tsum(cs, i, 5));
    assert(tsum(cs, i, 3) == pw(i * 3) * cs[3] + tsum(cs, i, 4));
    assert(tsum(cs, i, 2) == pw(i * 2) * cs[2] + tsum(cs, i, 3));
    assert(tsum(cs, i, 1) == pw(i * 1) * cs[1] + tsum(cs, i, 2));
    assert(tsum(cs, i, 0) == pw(i * 0) * cs[0] + tsum(cs, i, 1));
}

pub proof fn lemma_tsum_mono(cs: Seq<int>, i: nat, j: nat)
    requires cs.len() == 5, forall|t: int| 0 <= t < 5 ==> cs[t] >= 0, j <= 5
    ensures 0 <= tsum(cs, i, j) <= tsum(cs, i, 0)
    decreases j
{
    lemma_tsum_nonneg(cs, i, j);
    if j > 0 {
        lemma_tsum_mono(cs, i, (j - 1) as nat);
        lemma_nonneg_mul(pw(i * ((j - 1) as nat)) as int, cs[j - 1]);
    }
}

pub proof fn lemma_tsum_nonneg(cs: Seq<int>, i: nat, j: nat)
    requires cs.len() == 5, forall|t: int| 0 <= t < 5 ==> cs[t] >= 0, j <= 5
    ensures 0 <= tsum(cs, i, j)
    decreases 5 - j
{
    if j < 5 {
        lemma_tsum_nonneg(cs, i, j + 1);
        lemma_nonneg_mul(pw(i * j) as int, cs[j as int]);
    }
}

/// magnitude digits of a BigInt in terms of its value
proof fn lemma_iv_mag(x: BigInt)
    requires x.wfi()
    ensures x.sg() == Plus ==> x.iv() > 0 && val(x.data.dg()) == x.iv(), x.sg() == NoSign ==> x.iv() == 0, x.sg() == Minus ==> x.iv() < 0,
        wf(x.data.dg())
{
    lemma_sgn_mul(x.sign, x.data.v());
}


//@ extract src/biguint/multiplication.rs :: fn mac3 rules=R0,R36b,R36d,R36e,R37,R38,R39 props=C02,C14
/*+*/#[verifier::rlimit(150)] #[verifier::exec_allows_no_decreases_clause] /*-*/fn mac3(mut acc: &mut [BigDigit], mut b: &[BigDigit], mut c: &[BigDigit])
//+{
    requires mac_room(val(old(acc)@), val(b@), val(c@), b@.len(), c@.len(), old(acc)@.len())
    ensures final(acc)@.len() == old(acc)@.len(), val(final(acc)@) == val(old(acc)@) + val(b@) * val(c@)
//+}
{
//+{
    hide(valp); hide(pw); hide(BigInt::iv); hide(BigInt::wfi);
    let ghost fin = final(acc)@;
    let ghost acc_in = acc@;
    let ghost b_in = b@;
    let ghost c_in = c@;
    let ghost mut nzb: nat = 0;
    let ghost mut nzc: nat = 0;
//+}
    // Least-significant zeros have no effect on the output.
    if __slice_first_is_zero(b) {
        if let Some(nz) = __position_nonzero(b) {
//+{
            proof { lemma_room_strip(acc@, b@, val(c@), c@.len(), nz as nat); nzb = nz as nat; }
//+}
            b = &b[nz..];
            acc = &mut acc[nz..];
        } else {
//+{
            proof { lemma_valp_zeros(b@, b@.len()); assert(0 * val(c@) == 0) by (nonlinear_arith); }
//+}
            return;
        }
    }
//+{
    let ghost acc_m = acc@;
    let ghost b_m = b@;
    proof {
        lemma_mul_comm_room(val(acc@), val(b@), val(c@), b@.len(), c@.len(), acc@.len());
        lemma_base_facts(b_in);
        assert(pw(0) * val(b_in) == val(b_in)) by (nonlinear_arith) requires pw(0) == 1;
        assert(val(b_in) == pw(nzb) * val(b_m));
        assert(acc_m =~= acc_in.subrange(nzb as int, acc_in.len() as int));
    }
//+}
    if __slice_first_is_zero(c) {
        if let Some(nz) = __position_nonzero(c) {
//+{
            proof { lemma_room_strip(acc@, c@, val(b@), b@.len(), nz as nat); nzc = nz as nat; }
//+}
            c = &c[nz..];
            acc = &mut acc[nz..];
        } else {
//+{
            proof {
                lemma_valp_zeros(c@, c@.len());
                assert(val(b_in) * 0 == 0) by (nonlinear_arith);
                assert(fin =~= acc_in);
            }
//+}
            return;
        }
    }

    let acc = acc;
    let (x, y) = if b.len() < c.len() { (b, c) } else { (c, b) };
//+{
    let ghost a0 = acc@;
    let ghost la = a0.len();
    let ghost xv = val(x@);
    let ghost yv = val(y@);
    let ghost lx = x@.len();
    let ghost ly = y@.len();
    proof {
        lemma_mul_comm_room(val(a0), val(c@), val(b@), c@.len(), b@.len(), la);
        assert(mac_room(val(a0), xv, yv, lx, ly, la));
        lemma_base_facts(x@);
        assert(pw(0) * val(c_in) == val(c_in)) by (nonlinear_arith) requires pw(0) == 1;
        assert(val(c_in) == pw(nzc) * val(c@));
        assert(a0 =~= acc_m.subrange(nzc as int, acc_m.len() as int));
        assert(xv * yv == val(c@) * val(b_m)) by (nonlinear_arith) requires (xv == val(c@) && yv == val(b_m)) || (xv == val(b_m) && yv == val(c@));
        lemma_split(x@, lx); lemma_split(y@, ly);
        axiom_slice_u64_len(x); axiom_slice_u64_len(y);
        assert(valp(x@, 0) * yv == 0) by (nonlinear_arith) requires valp(x@, 0) == 0;
    }
//+}

    loop
//+{
        invariant_except_break
            acc@ == a0, a0.len() == la, x@.len() == lx, y@.len() == ly, xv == val(x@), yv == val(y@), lx <= ly,
            mac_room(val(a0), xv, yv, lx, ly, la), xv < pw(lx), yv < pw(ly),
            lx < 0x200_0000_0000_0000, ly < 0x200_0000_0000_0000,
        ensures acc@.len() == la, val(acc@) == val(a0) + xv * yv
        decreases 0int
//+}
    {
    if x.len() <= 32 {
        // Long multiplication:
//+{
        proof { lemma_base_facts(x@); assert(valp(x@, 0) * yv == 0) by (nonlinear_arith) requires valp(x@, 0) == 0; }
//+}
        { let mut i__ = 0; while i__ < x.len()
//+{
            invariant
                i__ <= lx, x@.len() == lx, y@.len() == ly, acc@.len() == la, yv == val(y@), xv == val(x@), la >= lx + ly + 1,
                val(a0) + xv * yv < pw(la),
                val(acc@) == val(a0) + valp(x@, i__ as nat) * yv,
            decreases lx - i__
//+}
        { let i = i__; let xi = &x[i__]; i__ += 1;
//+{
            let ghost cur = acc@;
            proof {
                lemma_school_step(cur, x@, i as nat, yv, val(a0));
                lemma_valp_bound(y@, ly);
            }
//+}
            mac_digit(&mut acc[i..], y, *xi);
//+{
            proof {
                lemma_school_post(cur, acc@, x@, i as nat, yv, val(a0));
            }
//+}
        } }
    } else if x.len() * 2 <= y.len() {
        let m2 = y.len() / 2;
        let (low2, high2) = y.split_at(m2);
//+{
        proof {
            lemma_split(y@, m2 as nat);
            assert(low2@ =~= y@.subrange(0, m2 as int));
            assert(high2@ =~= y@.subrange(m2 as int, ly as int));
            lemma_halfk_first(val(a0), xv, val(low2@), val(high2@), yv, lx, m2 as nat, ly, la);
        }
//+}

        // (x * high2) * NBASE ^ m2 + z0
        mac3(acc, x, low2);
//+{
        let ghost a1 = acc@;
        proof { lemma_halfk_second(a0, a1, xv, val(low2@), val(high2@), yv, lx, m2 as nat, ly); }
//+}
        mac3(&mut acc[m2..], x, high2);
//+{
        proof {
            lemma_halfk_post(a0, a1, acc@, xv, val(low2@), val(high2@), yv, m2 as nat);
        }
//+}
    } else if x.len() <= 256 {
        let b = x.len() / 2;
        let (x0, x1) = x.split_at(b);
        let (y0, y1) = y.split_at(b);
//+{
        let ghost bb = b as nat;
        let ghost lx1 = x1@.len();
        let ghost ly1 = y1@.len();
        let ghost x0v = val(x0@); let ghost x1v = val(x1@); let ghost y0v = val(y0@); let ghost y1v = val(y1@);
        let ghost z2 = x1v * y1v;
        let ghost z0 = x0v * y0v;
        let ghost av = val(a0);
        proof {
            lemma_split(x@, bb); lemma_split(y@, bb);
            assert(x0@ =~= x@.subrange(0, b as int)); assert(x1@ =~= x@.subrange(b as int, lx as int));
            assert(y0@ =~= y@.subrange(0, b as int)); assert(y1@ =~= y@.subrange(b as int, ly as int));
            lemma_split(x1@, lx1); lemma_split(y1@, ly1);
            lemma_kara_plan(av, x0v, x1v, y0v, y1v, bb, lx1, ly1, la);
            lemma_room_zero(x1v, y1v, lx1, ly1, lx1 + ly1 + 1);
            lemma_room_zero(x0v, y0v, bb, bb, lx1 + ly1 + 1);
        }
//+}

        // We reuse the same BigUint for all the intermediate multiplies and have to size p
        // appropriately here: x1.len() >= x0.len and y1.len() >= y0.len():
        let len = x1.len() + y1.len() + 1;
        let mut p = BigUint { data: vec![0; len] };
//+{
        proof { lemma_valp_zeros(p.data@, len as nat); }
//+}

        // p2 = x1 * y1
        mac3(&mut p.data, x1, y1);

        // Not required, but the adds go faster if we drop any unneeded 0s from the end:
        p.normalize();
//+{
        let ghost c0 = acc@;
        proof { lemma_hi_fit(c0, bb, z2); }
//+}

        add2(&mut acc[b..], &p.data);
//+{
        let ghost c1 = acc@;
        proof {
            lemma_add_at(c0, c1, bb, z2);
            lemma_hi_fit(c1, 2 * bb, z2);
        }
//+}
        add2(&mut acc[b * 2..], &p.data);
//+{
        let ghost c2 = acc@;
        proof { lemma_add_at(c1, c2, 2 * bb, z2); }
//+}

        // Zero out p before the next multiply:
        p.data.truncate(0);
        p.data.resize(len, 0);
//+{
        proof { lemma_valp_zeros(p.data@, len as nat); }
//+}

        // p0 = x0 * y0
        mac3(&mut p.data, x0, y0);
        p.normalize();
//+{
        proof { lemma_split(c2, 0); assert(c2.subrange(0, c2.len() as int) =~= c2); }
//+}

        add2(acc, &p.data);
//+{
        let ghost c3 = acc@;
        proof { lemma_hi_fit(c3, bb, z0); }
//+}
        add2(&mut acc[b..], &p.data);
//+{
        let ghost c4 = acc@;
        proof {
            lemma_add_at(c3, c4, bb, z0);
            assert(val(c4) == kara_t4(av, x0v, x1v, y0v, y1v, bb));
            assert(xv == x0v + pw(bb) * x1v && yv == y0v + pw(bb) * y1v);
            assert(val(c4) as int == av + xv * yv + pw(bb) * kara_cross(x0v, x1v, y0v, y1v));
        }
//+}

        // p1 = (x1 - x0) * (y1 - y0)
        // We do this one last, since it may be negative and acc can't ever be negative:
        let (j0_sign, j0) = sub_sign(x1, x0);
        let (j1_sign, j1) = sub_sign(y1, y0);
//+{
        let ghost j0v = j0.v();
        let ghost j1v = j1.v();
        let ghost lj0 = j0.data@.len();
        let ghost lj1 = j1.data@.len();
        proof { lemma_valp_bound(j0.data@, lj0); lemma_valp_bound(j1.data@, lj1); }
//+}

        match Mul::mul(j0_sign, j1_sign) {
            Plus => {
//+{
                proof {
                    lemma_kara_cross(x0v, x1v, y0v, y1v, j0_sign, j0v, j1_sign, j1v, Plus, pw(bb));
                    lemma_room_zero(j0v, j1v, lj0, lj1, lx1 + ly1 + 1);
                }
//+}
                p.data.truncate(0);
                p.data.resize(len, 0);
//+{
                proof { lemma_valp_zeros(p.data@, len as nat); }
//+}

                mac3(&mut p.data, &j0.data, &j1.data);
                p.normalize();
//+{
                proof { lemma_hi_ge(c4, bb, j0v * j1v); }
//+}

                sub2(&mut acc[b..], &p.data);
//+{
                proof { lemma_sub_at(c4, acc@, bb, j0v * j1v); }
//+}
            }
            Minus => {
//+{
                proof {
                    lemma_kara_cross(x0v, x1v, y0v, y1v, j0_sign, j0v, j1_sign, j1v, Minus, pw(bb));
                    lemma_kara_minus_room(c4, av, xv * yv, j0v, j1v, lj0, lj1, bb, lx1, ly1);
                }
//+}
                mac3(&mut acc[b..], &j0.data, &j1.data);
//+{
                proof { lemma_add_at(c4, acc@, bb, j0v * j1v); }
//+}
            }
            NoSign => /*+*/{ proof { lemma_kara_cross(x0v, x1v, y0v, y1v, j0_sign, j0v, j1_sign, j1v, NoSign, pw(bb)); } /*-*/()/*+*/ }/*-*/,
        }
    } else {
        let i = y.len() / 3 + 1;

        let x0_len = Ord::min(x.len(), i);
        let x1_len = Ord::min(x.len() - x0_len, i);

        let y0_len = i;
        let y1_len = Ord::min(y.len() - y0_len, i);
//+{
        let ghost ii = i as nat;
        let ghost av = val(a0);
        let ghost xs0 = x@.subrange(0, i as int);
        let ghost xs1 = x@.subrange(i as int, (i + x1_len) as int);
        let ghost xs2 = x@.subrange((i + x1_len) as int, lx as int);
        let ghost ys0 = y@.subrange(0, i as int);
        let ghost ys1 = y@.subrange(i as int, 2 * i as int);
        let ghost ys2 = y@.subrange(2 * i as int, ly as int);
        let ghost (u0, u1, u2, w0, w1, w2) = (val(xs0), val(xs1), val(xs2), val(ys0), val(ys1), val(ys2));
        let ghost (a_0, a_1, a_2, b_0, b_1, b_2) = (u0 as int, u1 as int, u2 as int, w0 as int, w1 as int, w2 as int);
        let ghost c0 = tc0(a_0, a_1, a_2, b_0, b_1, b_2);
        let ghost c1 = tc1(a_0, a_1, a_2, b_0, b_1, b_2);
        let ghost c2 = tc2(a_0, a_1, a_2, b_0, b_1, b_2);
        let ghost c3 = tc3(a_0, a_1, a_2, b_0, b_1, b_2);
        let ghost c4 = tc4(a_0, a_1, a_2, b_0, b_1, b_2);
        proof {
            assert(x0_len == i && y1_len == i);
            lemma_split3(x@, ii, x1_len as nat);
            lemma_split3(y@, ii, ii);
            if x1_len < i {
                assert(xs2 =~= Seq::<u64>::empty());
                lemma_valp_zeros(xs2, 0);
                assert(pw(ii + x1_len as nat) * 0 == 0 && pw(2 * ii) * 0 == 0) by (nonlinear_arith);
            }
            assert(xv == u0 + pw(ii) * u1 + pw(2 * ii) * u2);
            assert(yv == w0 + pw(ii) * w1 + pw(2 * ii) * w2);
            lemma_toom_all(u0, u1, u2, w0, w1, w2, ii);
            vstd::arithmetic::power2::lemma2_to64();
        }
//+}

        let x0 = bigint_from_slice(&x[..x0_len]);
        let x1 = bigint_from_slice(&x[x0_len..x0_len + x1_len]);
        let x2 = bigint_from_slice(&x[x0_len + x1_len..]);

        let y0 = bigint_from_slice(&y[..y0_len]);
        let y1 = bigint_from_slice(&y[y0_len..y0_len + y1_len]);
        let y2 = bigint_from_slice(&y[y0_len + y1_len..]);
//+{
        proof {
            assert(x0.iv() == a_0 && x1.iv() == a_1 && x2.iv() == a_2 && y0.iv() == b_0 && y1.iv() == b_1 && y2.iv() == b_2);
        }
//+}

        let p = Add::add(&x0, &x2);
        let q = Add::add(&y0, &y2);
        let p2 = Sub::sub(&p, &x1);
        let q2 = Sub::sub(&q, &y1);
        let r0 = Mul::mul(&x0, &y0);
        let r4 = Mul::mul(&x2, &y2);
        let r1 = Mul::mul(Add::add(p, x1), Add::add(q, y1));
        let r2 = Mul::mul(&p2, &q2);
        let r3 = Mul::mul(Sub::sub(Mul::mul(Add::add(p2, x2), 2), x0), Sub::sub(Mul::mul(Add::add(q2, y2), 2), y0));
//+{
        let ghost (r1v, r2v, r3v) = (r1.iv(), r2.iv(), r3.iv());
        proof {
            assert(r0.iv() == c0 && r4.iv() == c4);
            assert(r1v == c0 + c1 + c2 + c3 + c4);
            assert(r2v == c0 - c1 + c2 - c3 + c4);
            assert(r3v == c0 - 2 * c1 + 4 * c2 - 8 * c3 + 16 * c4);
            lemma_toom_interp(c0, c1, c2, c3, c4, r1v, r2v, r3v);
        }
//+}

        let mut comp3: BigInt = Div::div(Sub::sub(r3, &r1), 3u32);
//+{
        assert(comp3.wfi() && comp3.iv() == -c1 + c2 - 3 * c3 + 5 * c4);
//+}
        let mut comp1: BigInt = Shr::shr(Sub::sub(r1, &r2), 1);
//+{
        assert(comp1.wfi() && comp1.iv() == c1 + c3);
//+}
        let mut comp2: BigInt = Sub::sub(r2, &r0);
//+{
        assert(comp2.wfi() && comp2.iv() == -c1 + c2 - c3 + c4);
//+}
        comp3 = Add::add(Shr::shr(Sub::sub(&comp2, comp3), 1), Shl::shl(&r4, 1));
//+{
        assert(comp3.wfi() && comp3.iv() == c3);
//+}
        AddAssign::add_assign(&mut comp2, Sub::sub(&comp1, &r4));
//+{
        assert(comp2.wfi() && comp2.iv() == c2);
//+}
        SubAssign::sub_assign(&mut comp1, &comp3);
//+{
        assert(comp1.wfi() && comp1.iv() == c1);
//+}
//+{
        proof {
            lemma_pw_add(ii, ii); lemma_pw_add(2 * ii, ii); lemma_pw_add(3 * ii, ii);
            assert((xv * yv) as int == c0 + pw(ii) * c1 + pw(2 * ii) * c2 + pw(3 * ii) * c3 + pw(4 * ii) * c4);
            lemma_base_facts(x@);
            assert(pw(0) * c0 == c0) by (nonlinear_arith) requires pw(0) == 1;
            lemma_tsum5(seq![c0, c1, c2, c3, c4], ii);
        }
        let ghost cs = seq![c0, c1, c2, c3, c4];
//+}

        { let arr__ = [&r0, &comp1, &comp2, &comp3, &r4]; let mut j__ = 5; while j__ > 0
//+{
            invariant
                j__ <= 5, acc@.len() == la, i == ii, ii < 0x200_0000_0000_0000, cs.len() == 5,
                forall|t: int| 0 <= t < 5 ==> (#[trigger] arr__@[t]).wfi() && arr__@[t].iv() == cs[t] && cs[t] >= 0,
                forall|t: int| 0 <= t < 5 ==> #[trigger] cs[t] >= 0,
                4 * ii <= la,
                val(acc@) as int == av + tsum(cs, ii, j__ as nat),
                av + tsum(cs, ii, 0) < pw(la),
            decreases j__
//+}
        { j__ -= 1; let j = j__; let result = &arr__[j__];
//+{
            let ghost cur = acc@;
            let ghost k = (ii * j as nat) as nat;
            let ghost cv = cs[j as int] as nat;
            let ghost rr = **result;
            proof {
                assert(ii * (j as nat) <= 4 * ii) by (nonlinear_arith) requires j <= 4;
                lemma_iv_mag(rr);
                lemma_tsum_mono(cs, ii, j as nat);
                assert(tsum(cs, ii, j as nat) == pw(k) * cs[j as int] + tsum(cs, ii, (j + 1) as nat));
                lemma_hi_fit(cur, k, cv);
                if cv > 0 { lemma_len_bound(rr.data.dg(), (la - k) as nat); }
                if cv == 0 { assert(pw(k) * 0 == 0) by (nonlinear_arith); }
            }
            assert(rr.sg() != Minus);
//+}
            match result.sign() {
                Plus => /*+*/{ /*-*/add2(&mut acc[i * j..], result.digits())/*+*/; proof { lemma_add_at(cur, acc@, k, cv); } }/*-*/,
                Minus => sub2(&mut acc[i * j..], result.digits()),
                NoSign => {}
            }
        } }
    }
    break; }
//+{
    proof {
        // undo the two strips
        assert(val(acc@) == val(a0) + xv * yv);
        let mid_end = acc_m.subrange(0, nzc as int) + acc@;
        assert(fin =~= acc_in.subrange(0, nzb as int) + mid_end);
        assert(mid_end.subrange(nzc as int, mid_end.len() as int) =~= acc@);
        lemma_strip_post(acc_m, mid_end, nzc, val(c_in), val(c@), val(b_m));
        assert(fin.subrange(nzb as int, fin.len() as int) =~= mid_end);
        lemma_strip_post(acc_in, fin, nzb, val(b_in), val(b_m), val(c_in));
    }
//+}
}
//@ end

} // mod u
} // verus!
fn main() {}
