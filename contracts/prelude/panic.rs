// Dual-world model of mandatory panics (DESIGN.md section 4.6, as built).
// `mp()` is an uninterpreted boolean. Every contract of a partial function is written
//     requires !mp() ==> P          ensures mp() ==> P, <functional postcondition>
// and is proved for an arbitrary value of mp():
//   world mp() == false : P is assumed, `__assert(c)` demands c  => inside its domain the function never panics;
//   world mp() == true  : nothing is assumed, `__assert(c)` demands nothing and yields c on return
//                         => a normal return implies P, i.e. outside its domain the function panics
//                            (termination is proved separately by the loops' decreases clauses).
pub uninterp spec fn mp() -> bool;

//@ assume __assert : model of core::assert! (rule R11): panics iff the condition is false
#[verifier::external_body]
pub fn __assert(c: bool)
    requires !mp() ==> c
    ensures c
{ if !c { panic!() } }

//@ assume __panic : model of core::panic! (rule R11b): never returns
#[verifier::external_body]
pub fn __panic() -> !
    requires mp()
    ensures false
{ panic!() }

//@ assume __unreachable : model of core::unreachable!: must be proved unreachable in both worlds
#[verifier::external_body]
pub fn __unreachable() -> !
    requires false
    ensures false
{ panic!() }

// model of Option::expect (rule R11f): returns the value, panics iff None
pub trait OptExpect<T>: Sized {
    spec fn is_some__(self) -> bool;
    spec fn get__(self) -> T;
    fn expect__(self) -> (r: T)
        requires !mp() ==> self.is_some__()
        ensures self.is_some__(), r == self.get__();
}
impl<T> OptExpect<T> for Option<T> {
    open spec fn is_some__(self) -> bool { self is Some }
    open spec fn get__(self) -> T { self->Some_0 }
    //@ assume Option::expect : model of Option::expect (rule R11f): returns the value, panics iff None (contract on the trait declaration above)
    #[verifier::external_body]
    fn expect__(self) -> (r: T)
    { self.unwrap() }
}
