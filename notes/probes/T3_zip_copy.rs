use vstd::prelude::*;
verus! {
type BigDigit = u64;
fn t_zip(a: &mut [BigDigit], b: &[BigDigit])
    requires old(a).len() == b.len()
    ensures final(a)@ =~= b@
{
    let ghost fa = final(a)@;
    for (x, y) in it: a.iter_mut().zip(b.iter())
        invariant
            it.seq().len() == b.len(),
            fa.len() == b.len(),
            forall|i: int| 0 <= i < it.seq().len() ==> *(#[trigger] it.seq()[i]).1 == b[i],
            forall|i: int| 0 <= i < it.seq().len() ==> *final((#[trigger] it.seq()[i]).0) == fa[i],
            forall|i: int| 0 <= i < it.index@ ==> #[trigger] fa[i] == b[i],
    {
        *x = *y;
    }
}
} // verus!
fn main() {}
