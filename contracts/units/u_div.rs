//@ unit u_div : BigUint division shells around the long-division core: div_rem, div_rem_ref (src/biguint/division.rs)
#![feature(allocator_api)]
use vstd::prelude::*;
use vstd::std_specs::iter::IteratorSpec;
use vstd::std_specs::ops::*;
use core::ops::{AddAssign, Shl, Shr};
use core::cmp::Ordering;
use core::cmp::Ordering::{Equal, Greater, Less};
verus! {
//@ include prelude/core.rs
//@ include prelude/std_specs.rs
//@ include prelude/panic.rs
//@ include prelude/shiftnorm.rs
pub mod u {
use super::*;

//@ extract src/biguint.rs :: struct BigUint
pub struct BigUint {
    data: Vec<BigDigit>,
}
//@ end
//@ include prelude/biguint_view.rs
pub open spec fn ord_of(a: nat, b: nat) -> Ordering {
    if a < b { Ordering::Less } else if a == b { Ordering::Equal } else { Ordering::Greater }
}
pub open spec fn udiv_ok(a: nat, b: nat, q: nat, m: nat) -> bool { a == q * b + m && m < b }

impl BigUint {
//@ extract src/biguint.rs :: impl BigUint :: const ZERO rules=R9,R13 label=BigUint_ZERO
    exec const ZERO: Self /*+*/ensures Self::ZERO.data@.len() == 0 /*-*/{ BigUint { data: Vec::new() } }
//@ end
//@ stub u_core/is_zero
//@ stub u_core/clone
//@ stub u_core/one
//@ stub u_core/set_one
//@ stub u_cmp/cmp
}
impl AddAssignSpecImpl<u64> for BigUint {
    open spec fn obeys_add_assign_spec() -> bool { false }
    open spec fn add_assign_req(&self, rhs: u64) -> bool { self.wf() }
    open spec fn add_assign_spec(&self, rhs: u64) -> &BigUint { arbitrary() }
}
impl AddAssign<u64> for BigUint {
//@ stub u_scalar/add_assign_u64
}
impl vstd::std_specs::convert::FromSpecImpl<u64> for BigUint {
    open spec fn obeys_from_spec() -> bool { false }
    open spec fn from_spec(v: u64) -> BigUint { arbitrary() }
}
impl From<u64> for BigUint {
//@ stub u_conv/from_u64
}

// shifts: front-ends proved in unit u_shiftops (x << k = x * 2^k, x >> k = floor(x / 2^k))
impl ShlSpecImpl<usize> for BigUint {
    open spec fn obeys_shl_spec() -> bool { false }
    open spec fn shl_req(self, rhs: usize) -> bool { self.wf() }
    open spec fn shl_spec(self, rhs: usize) -> BigUint { arbitrary() }
}
impl Shl<usize> for BigUint {
    type Output = BigUint;
//@ stub u_shiftops/shl_usize
}
impl ShlSpecImpl<usize> for &BigUint {
    open spec fn obeys_shl_spec() -> bool { false }
    open spec fn shl_req(self, rhs: usize) -> bool { self.wf() }
    open spec fn shl_spec(self, rhs: usize) -> BigUint { arbitrary() }
}
impl Shl<usize> for &BigUint {
    type Output = BigUint;
//@ stub u_shiftops/shl_ref_usize
}
impl ShrSpecImpl<usize> for BigUint {
    open spec fn obeys_shr_spec() -> bool { false }
    open spec fn shr_req(self, rhs: usize) -> bool { self.wf() }
    open spec fn shr_spec(self, rhs: usize) -> BigUint { arbitrary() }
}
impl Shr<usize> for BigUint {
    type Output = BigUint;
//@ stub u_shiftops/shr_usize
}

//@ stub k_div/div_rem_digit

//@ stub k_divcore/div_rem_core

/// under wf, a larger value has at least as many digits
pub proof fn lemma_longer(u: Seq<u64>, d: Seq<u64>)
    requires wf(u), wf(d), val(u) > val(d)
    ensures u.len() >= d.len()
{
    if u.len() < d.len() { lemma_shorter_lt(u, d); }
}

pub proof fn lemma_one_digit(s: Seq<u64>)
    requires s.len() == 1
    ensures val(s) == s[0] as nat, (s =~= seq![1u64]) <==> val(s) == 1
{
    lemma_val_single(s[0]);
    assert(s =~= seq![s[0]]);
}

//@ extract src/biguint/division.rs :: fn div_rem rules=R0,R11b,R12f props=C03,C14,C15
fn div_rem(mut u: BigUint, mut d: BigUint) -> /*+*/(res: /*-*/(BigUint, BigUint)/*+*/)/*-*/
//+{
    requires u.wf(), d.wf(), !mp() ==> d.v() != 0
    ensures mp() ==> d.v() != 0, res.0.wf(), res.1.wf(), udiv_ok(u.v(), d.v(), res.0.v(), res.1.v())
//+}
{
//+{
    let ghost uv = u.v();
    let ghost dv = d.v();
    let ghost ds0 = d.data@;
    let ghost us0 = u.data@;
    proof { assert(0nat * dv == 0) by (nonlinear_arith); assert(1nat * dv == dv) by (nonlinear_arith); assert(uv * 1 == uv) by (nonlinear_arith); }
//+}
    if d.is_zero() {
        __panic()
    }
    if u.is_zero() {
        return (BigUint::ZERO, BigUint::ZERO);
    }

    if d.data.len() == 1 {
//+{
        proof { lemma_one_digit(ds0); }
//+}
        if __vec_is_one(&d.data) {
            return (u, BigUint::ZERO);
        }
        let (div, rem) = div_rem_digit(u, d.data[0]);
        // reuse d
        d.data.clear();
        d += rem;
        return (div, d);
    }

    // Required or the q_len calculation below can underflow:
    match u.cmp(&d) {
        Less => return (BigUint::ZERO, u),
        Equal => {
            u.set_one();
            return (u, BigUint::ZERO);
        }
        Greater => {} // Do nothing
    }
//+{
    proof { lemma_longer(us0, ds0); vstd::std_specs::bits::axiom_u64_leading_zeros(ds0[ds0.len() - 1]); }
//+}

    // This algorithm is from Knuth, TAOCP vol 2 section 4.3, algorithm D:
    //
    // First, normalize the arguments so the highest bit in the highest digit of the divisor is
    // set: the main loop uses the highest digit of the divisor for generating guesses, so we
    // want it to be the largest number we can efficiently divide by.
    //
    let shift = d.data.last().unwrap().leading_zeros() as usize;

    if shift == 0 {
//+{
        proof {
            let t = ds0[ds0.len() - 1];
            assert(t >= 0x8000_0000_0000_0000u64) by (bit_vector) requires (t >> 63u64) & 1u64 != 0u64;
        }
//+}
        // no need to clone d
        div_rem_core(u, &d.data)
    } else {
//+{
        let ghost k = shift as nat;
        proof {
            vstd::arithmetic::power2::lemma_pow2_pos(k);
            lemma_norm_shift_all(ds0, k);
            lemma_longer_all();
            assert(uv * p2(k) > dv * p2(k)) by (nonlinear_arith) requires uv > dv, p2(k) >= 1;
        }
//+}
        let (q, r) = div_rem_core(u << shift, &(d << shift).data);
//+{
        proof { lemma_unshift(uv, dv, q.v(), r.v(), p2(k)); }
//+}
        // renormalize the remainder
        (q, r >> shift)
    }
}
//@ end

//@ extract src/biguint/division.rs :: fn div_rem_ref rules=R0,R11b,R12f,R3i,R3o props=C03,C14,C15
pub(super) fn div_rem_ref(u: &BigUint, d: &BigUint) -> /*+*/(res: /*-*/(BigUint, BigUint)/*+*/)/*-*/
//+{
    requires u.wf(), d.wf(), !mp() ==> d.v() != 0
    ensures mp() ==> d.v() != 0, res.0.wf(), res.1.wf(), udiv_ok(u.v(), d.v(), res.0.v(), res.1.v())
//+}
{
//+{
    let ghost uv = u.v();
    let ghost dv = d.v();
    let ghost ds0 = d.data@;
    let ghost us0 = u.data@;
    proof { assert(0nat * dv == 0) by (nonlinear_arith); assert(1nat * dv == dv) by (nonlinear_arith); assert(uv * 1 == uv) by (nonlinear_arith); }
//+}
    if d.is_zero() {
        __panic()
    }
    if u.is_zero() {
        return (BigUint::ZERO, BigUint::ZERO);
    }

    if d.data.len() == 1 {
//+{
        proof { lemma_one_digit(ds0); }
//+}
        if __vec_is_one(&d.data) {
            return (u.clone(), BigUint::ZERO);
        }

        let (div, rem) = div_rem_digit(u.clone(), d.data[0]);
        return (div, From::from(rem));
    }

    // Required or the q_len calculation below can underflow:
    match u.cmp(d) {
        Less => return (BigUint::ZERO, u.clone()),
        Equal => return (BigUint::one(), BigUint::ZERO),
        Greater => {} // Do nothing
    }
//+{
    proof { lemma_longer(us0, ds0); vstd::std_specs::bits::axiom_u64_leading_zeros(ds0[ds0.len() - 1]); }
//+}

    // This algorithm is from Knuth, TAOCP vol 2 section 4.3, algorithm D:
    //
    // First, normalize the arguments so the highest bit in the highest digit of the divisor is
    // set: the main loop uses the highest digit of the divisor for generating guesses, so we
    // want it to be the largest number we can efficiently divide by.
    //
    let shift = d.data.last().unwrap().leading_zeros() as usize;

    if shift == 0 {
//+{
        proof {
            let t = ds0[ds0.len() - 1];
            assert(t >= 0x8000_0000_0000_0000u64) by (bit_vector) requires (t >> 63u64) & 1u64 != 0u64;
        }
//+}
        // no need to clone d
        div_rem_core(u.clone(), &d.data)
    } else {
//+{
        let ghost k = shift as nat;
        proof {
            vstd::arithmetic::power2::lemma_pow2_pos(k);
            lemma_norm_shift_all(ds0, k);
            lemma_longer_all();
            assert(uv * p2(k) > dv * p2(k)) by (nonlinear_arith) requires uv > dv, p2(k) >= 1;
        }
//+}
        let (q, r) = div_rem_core(u << shift, &(d << shift).data);
//+{
        proof { lemma_unshift(uv, dv, q.v(), r.v(), p2(k)); }
//+}
        // renormalize the remainder
        (q, r >> shift)
    }
}
//@ end

} // mod u
} // verus!
fn main() {}
