// Shared specification vocabulary (DESIGN.md section 5). Spec and proof code only.
// the only target on which the 64-bit digit / asm configuration exists: usize is 64 bits wide
global size_of usize == 8;

pub type BigDigit = u64;
pub type DoubleBigDigit = u128;

pub open spec fn B() -> nat { 0x1_0000_0000_0000_0000nat }

pub open spec fn pw(k: nat) -> nat
    decreases k
{
    if k == 0 { 1 } else { B() * pw((k - 1) as nat) }
}

/// little-endian value of the first k digits of s
pub open spec fn valp(s: Seq<u64>, k: nat) -> nat
    decreases k
{
    if k == 0 { 0 } else { valp(s, (k - 1) as nat) + (s[(k - 1) as int] as nat) * pw((k - 1) as nat) }
}

pub open spec fn val(s: Seq<u64>) -> nat { valp(s, s.len()) }

/// BigUint representation invariant: no most-significant zero digit
pub open spec fn wf(s: Seq<u64>) -> bool { s.len() == 0 || s[s.len() - 1] != 0 }

pub proof fn lemma_pw_pos(k: nat)
    ensures pw(k) >= 1
    decreases k
{
    if k > 0 {
        lemma_pw_pos((k - 1) as nat);
        assert(B() * pw((k - 1) as nat) >= 1) by (nonlinear_arith) requires pw((k - 1) as nat) >= 1, B() >= 1;
    }
}

pub proof fn lemma_pw_add(a: nat, b: nat)
    ensures pw(a + b) == pw(a) * pw(b)
    decreases b
{
    if b == 0 {
        assert(pw(a) * 1 == pw(a)) by (nonlinear_arith);
    } else {
        lemma_pw_add(a, (b - 1) as nat);
        assert(pw(a + b) == B() * pw((a + b - 1) as nat));
        assert(B() * (pw(a) * pw((b - 1) as nat)) == pw(a) * (B() * pw((b - 1) as nat))) by (nonlinear_arith);
    }
}

pub proof fn lemma_valp_ext(s: Seq<u64>, t: Seq<u64>, k: nat)
    requires forall|i: int| 0 <= i < k ==> s[i] == t[i]
    ensures valp(s, k) == valp(t, k)
    decreases k
{
    if k > 0 { lemma_valp_ext(s, t, (k - 1) as nat); }
}

/// valp(s, k) < B^k
pub proof fn lemma_valp_bound(s: Seq<u64>, k: nat)
    requires k <= s.len()
    ensures valp(s, k) < pw(k)
    decreases k
{
    if k > 0 {
        lemma_valp_bound(s, (k - 1) as nat);
        let d = s[(k - 1) as int] as nat;
        let p = pw((k - 1) as nat);
        assert(d * p + p <= B() * p) by (nonlinear_arith) requires d + 1 <= B();
    }
}

/// split: value of the first j+k digits = value of first j + B^j * value of the next k (as a shifted sequence)
pub proof fn lemma_valp_split(s: Seq<u64>, j: nat, k: nat)
    requires j + k <= s.len()
    ensures valp(s, j + k) == valp(s, j) + pw(j) * valp(s.subrange(j as int, s.len() as int), k)
    decreases k
{
    let t = s.subrange(j as int, s.len() as int);
    if k == 0 {
        assert(pw(j) * 0 == 0) by (nonlinear_arith);
    } else {
        lemma_valp_split(s, j, (k - 1) as nat);
        lemma_pw_add(j, (k - 1) as nat);
        let d = s[(j + k - 1) as int] as nat;
        assert(t[(k - 1) as int] == s[(j + k - 1) as int]);
        let x = valp(t, (k - 1) as nat);
        let pj = pw(j);
        let pk = pw((k - 1) as nat);
        assert(pj * (x + d * pk) == pj * x + d * (pj * pk)) by (nonlinear_arith);
    }
}

/// concatenation
pub proof fn lemma_val_concat(s: Seq<u64>, t: Seq<u64>)
    ensures val(s + t) == val(s) + pw(s.len()) * val(t)
{
    let u = s + t;
    lemma_valp_split(u, s.len(), t.len());
    assert(u.subrange(s.len() as int, u.len() as int) =~= t);
    lemma_valp_ext(u, s, s.len());
}

/// value of a prefix subrange
pub proof fn lemma_valp_prefix(s: Seq<u64>, k: nat)
    requires k <= s.len()
    ensures val(s.subrange(0, k as int)) == valp(s, k)
{
    lemma_valp_ext(s.subrange(0, k as int), s, k);
}

pub proof fn lemma_val_push(s: Seq<u64>, d: u64)
    ensures val(s.push(d)) == val(s) + pw(s.len()) * (d as nat)
{
    let u = s.push(d);
    lemma_valp_ext(u, s, s.len());
    assert(u[s.len() as int] == d);
    assert((d as nat) * pw(s.len()) == pw(s.len()) * (d as nat)) by (nonlinear_arith);
}

/// dropping a most-significant zero digit keeps the value
pub proof fn lemma_val_drop_last_zero(s: Seq<u64>)
    requires s.len() > 0, s[s.len() - 1] == 0
    ensures val(s.drop_last()) == val(s)
{
    let t = s.drop_last();
    lemma_valp_ext(t, s, t.len());
    assert(0 * pw(t.len()) == 0) by (nonlinear_arith);
}

/// a sequence of zeros has value 0
pub proof fn lemma_valp_zeros(s: Seq<u64>, k: nat)
    requires k <= s.len(), forall|i: int| 0 <= i < k ==> s[i] == 0
    ensures valp(s, k) == 0
    decreases k
{
    if k > 0 {
        lemma_valp_zeros(s, (k - 1) as nat);
        assert(0 * pw((k - 1) as nat) == 0) by (nonlinear_arith);
    }
}

/// wf and non-empty implies val >= B^(len-1) > 0
pub proof fn lemma_wf_lower(s: Seq<u64>)
    requires wf(s), s.len() > 0
    ensures val(s) >= pw((s.len() - 1) as nat), val(s) > 0
{
    let k = (s.len() - 1) as nat;
    let d = s[k as int] as nat;
    lemma_pw_pos(k);
    assert(d * pw(k) >= pw(k)) by (nonlinear_arith) requires d >= 1;
}

/// value zero under wf means empty
pub proof fn lemma_wf_zero(s: Seq<u64>)
    requires wf(s)
    ensures (val(s) == 0) <==> (s.len() == 0)
{
    if s.len() > 0 { lemma_wf_lower(s); }
}

/// canonical uniqueness: wf sequences with equal value are equal
pub proof fn lemma_canonical_unique(s: Seq<u64>, t: Seq<u64>)
    requires wf(s), wf(t), val(s) == val(t)
    ensures s =~= t
{
    if s.len() != t.len() {
        if s.len() < t.len() {
            lemma_wf_lower(t);
            lemma_valp_bound(s, s.len());
            lemma_pw_mono(s.len(), (t.len() - 1) as nat);
        } else {
            lemma_wf_lower(s);
            lemma_valp_bound(t, t.len());
            lemma_pw_mono(t.len(), (s.len() - 1) as nat);
        }
        assert(false);
    }
    lemma_valp_inj(s, t, s.len());
}

pub proof fn lemma_pw_mono(a: nat, b: nat)
    requires a <= b
    ensures pw(a) <= pw(b)
    decreases b
{
    if a < b {
        lemma_pw_mono(a, (b - 1) as nat);
        lemma_pw_pos((b - 1) as nat);
        assert(B() * pw((b - 1) as nat) >= pw((b - 1) as nat)) by (nonlinear_arith) requires B() >= 1;
    }
}

/// equal prefix values of equal length imply equal digits
pub proof fn lemma_valp_inj(s: Seq<u64>, t: Seq<u64>, k: nat)
    requires k <= s.len(), k <= t.len(), valp(s, k) == valp(t, k)
    ensures forall|i: int| 0 <= i < k ==> s[i] == t[i]
    decreases k
{
    if k > 0 {
        let k1 = (k - 1) as nat;
        lemma_valp_bound(s, k1);
        lemma_valp_bound(t, k1);
        let p = pw(k1);
        let ds = s[k1 as int] as nat;
        let dt = t[k1 as int] as nat;
        let xs = valp(s, k1);
        let xt = valp(t, k1);
        lemma_pw_pos(k1);
        if ds != dt {
            if ds < dt {
                assert(xs + ds * p < xt + dt * p) by (nonlinear_arith) requires xs < p, ds + 1 <= dt, p >= 1;
            } else {
                assert(xt + dt * p < xs + ds * p) by (nonlinear_arith) requires xt < p, dt + 1 <= ds, p >= 1;
            }
            assert(false);
        }
        assert(ds * p == dt * p);
        lemma_valp_inj(s, t, k1);
    }
}

/// implication form of extensionality (usable with prophetic sequences, where branching is not allowed)
pub proof fn lemma_valp_ext_imp(s: Seq<u64>, t: Seq<u64>, k: nat)
    ensures (forall|i: int| 0 <= i < k ==> s[i] == t[i]) ==> valp(s, k) == valp(t, k)
{
    if forall|i: int| 0 <= i < k ==> s[i] == t[i] { lemma_valp_ext(s, t, k); }
}

/// val(s) == 0 iff every digit is zero
pub proof fn lemma_valp_zero_iff(s: Seq<u64>, k: nat)
    requires k <= s.len()
    ensures (valp(s, k) == 0) <==> (forall|i: int| 0 <= i < k ==> s[i] == 0)
    decreases k
{
    if k > 0 {
        let k1 = (k - 1) as nat;
        lemma_valp_zero_iff(s, k1);
        lemma_pw_pos(k1);
        let d = s[k1 as int] as nat;
        let p = pw(k1);
        if d == 0 {
            assert(0 * p == 0) by (nonlinear_arith);
        } else {
            assert(d * p >= 1) by (nonlinear_arith) requires d >= 1, p >= 1;
        }
    }
}

/// val(s) >= B^(len-1) forces a non-zero top digit
pub proof fn lemma_top_nonzero(s: Seq<u64>)
    requires s.len() > 0, val(s) >= pw((s.len() - 1) as nat)
    ensures s[s.len() - 1] != 0
{
    let k = (s.len() - 1) as nat;
    lemma_valp_bound(s, k);
    if s[k as int] == 0 {
        assert(0 * pw(k) == 0) by (nonlinear_arith);
    }
}

/// monotonicity helper: a wf non-empty sequence plus anything that does not overflow keeps a non-zero top digit
pub proof fn lemma_wf_after_add(f: Seq<u64>, o: Seq<u64>, extra: nat)
    requires f.len() == o.len(), o.len() > 0, wf(o), val(f) == val(o) + extra
    ensures wf(f)
{
    lemma_wf_lower(o);
    lemma_top_nonzero(f);
}

pub proof fn lemma_val_single(d: u64)
    ensures val(seq![d]) == d as nat
{
    let s = seq![d];
    assert(valp(s, 1) == valp(s, 0) + (s[0] as nat) * pw(0));
    assert((d as nat) * 1 == d as nat) by (nonlinear_arith);
}

/// the high part of a wf sequence (from index n < len) is wf and non-empty
pub proof fn lemma_wf_sub_hi(s: Seq<u64>, n: nat)
    requires wf(s), n < s.len()
    ensures wf(s.subrange(n as int, s.len() as int)), s.subrange(n as int, s.len() as int).len() > 0
{
}

/// arithmetic of AddAssign's long-rhs branch
pub proof fn lemma_addassign_recompose(s0: nat, olo: nat, ohi: nat, d1: nat, hi3: nat, pn: nat, pmn: nat, c1: nat, c2: nat)
    requires d1 + pn * c1 == s0 + olo, hi3 + pmn * c2 == ohi + c1
    ensures d1 + pn * hi3 + (pn * pmn) * c2 == s0 + (olo + pn * ohi)
{
    assert(pn * (hi3 + pmn * c2) == pn * hi3 + (pn * pmn) * c2) by (nonlinear_arith);
    assert(pn * (ohi + c1) == pn * ohi + pn * c1) by (nonlinear_arith);
}

/// arithmetic of `&a - b` with a longer than b
pub proof fn lemma_subrev_recompose(slo: nat, shi: nat, o: nat, d1: nat, hi3: nat, pn: nat, b: nat)
    requires d1 + o == slo + pn * b, b <= 1, b == 0 ==> hi3 == shi, b == 1 ==> hi3 + 1 == shi
    ensures d1 + pn * hi3 + o == slo + pn * shi
{
    if b == 0 { assert(pn * 0 == 0) by (nonlinear_arith); }
    else {
        assert(pn * (hi3 + 1) == pn * hi3 + pn) by (nonlinear_arith);
        assert(pn * 1 == pn) by (nonlinear_arith);
    }
}

/// lexicographic order from the top digit decides the numeric order (equal lengths)
pub proof fn lemma_lex_lt(a: Seq<u64>, b: Seq<u64>, k: int)
    requires a.len() == b.len(), 0 <= k < a.len(), a[k] < b[k], forall|j: int| k < j < a.len() ==> a[j] == b[j]
    ensures val(a) < val(b)
{
    let n = a.len();
    lemma_valp_tail_eq2(a, b, (k + 1) as nat, n);
    lemma_valp_bound(a, k as nat);
    let p = pw(k as nat);
    let x = a[k] as nat; let y = b[k] as nat;
    assert(valp(a, (k + 1) as nat) == valp(a, k as nat) + x * p);
    assert(valp(b, (k + 1) as nat) == valp(b, k as nat) + y * p);
    assert(valp(a, k as nat) + x * p < y * p) by (nonlinear_arith) requires valp(a, k as nat) < p, x + 1 <= y;
}

pub proof fn lemma_valp_tail_eq2(f: Seq<u64>, o: Seq<u64>, i: nat, k: nat)
    requires i <= k, k <= f.len(), k <= o.len(), forall|j: int| i <= j < k ==> f[j] == o[j]
    ensures valp(f, k) - valp(f, i) == valp(o, k) - valp(o, i)
    decreases k
{
    if k > i { lemma_valp_tail_eq2(f, o, i, (k - 1) as nat); }
}

/// under wf, a shorter sequence denotes a smaller number
pub proof fn lemma_shorter_lt(a: Seq<u64>, b: Seq<u64>)
    requires wf(a), wf(b), a.len() < b.len()
    ensures val(a) < val(b)
{
    lemma_wf_lower(b);
    lemma_valp_bound(a, a.len());
    lemma_pw_mono(a.len(), (b.len() - 1) as nat);
}
