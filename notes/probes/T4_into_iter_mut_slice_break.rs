use vstd::prelude::*;
use vstd::std_specs::iter::IteratorSpec;
verus! {
type BigDigit = u64;

pub assume_specification<'a, T>[ <&'a mut [T] as core::iter::IntoIterator>::into_iter ](slice: &'a mut [T]) -> (iter: core::slice::IterMut<'a, T>)
    ensures
        iter.remaining().len() == old(slice)@.len(),
        old(slice)@.len() == final(slice)@.len(),
        forall|i: int| 0 <= i < old(slice)@.len() ==> *(#[trigger] iter.remaining()[i]) == old(slice)@[i],
        forall|i: int| 0 <= i < old(slice)@.len() ==> *final(#[trigger] iter.remaining()[i]) == final(slice)@[i],
        iter.obeys_prophetic_iter_laws(),
        iter.will_return_none(),
        iter.decrease() is Some,
;

fn t_break(a_hi: &mut [BigDigit]) -> (c: u8)
    ensures c == 1 ==> forall|i: int| 0 <= i < old(a_hi).len() ==> final(a_hi)[i] == 0
{
    let ghost fa = final(a_hi)@;
    let mut carry = 1u8;
    for a in it: a_hi
        invariant_except_break
            carry == 1,
        invariant
            it.seq().len() == fa.len(),
            forall|i: int| 0 <= i < it.seq().len() ==> *final(#[trigger] it.seq()[i]) == fa[i],
            forall|i: int| 0 <= i < it.index@ ==> #[trigger] fa[i] == 0,
        ensures
            carry == 1 ==> forall|i: int| 0 <= i < fa.len() ==> #[trigger] fa[i] == 0,
    {
        if *a == 0 { carry = 0; break; }
        *a = 0;
    }
    carry
}
} // verus!
fn main() {}
