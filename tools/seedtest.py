#!/usr/bin/env python3
"""Confirm and evaluate a seeded breaking change.

  seedtest.py <name> <property> <outdir of the sub-agent> [checks...]

1. confirm (in a scratch worktree under /tmp): with the patch the existing suite passes and the demo fails;
   without the patch the demo passes;
2. copy patch.diff / demo / notes into /verif/seeded/<name>/;
3. apply the patch to /repo, run the named checks (default: the property's own), record exit codes and
   VIOLATION / UNDECIDED lines, then `git -C /repo checkout -- .`;
4. write /verif/seeded/<name>/meta.json.
"""
import json
import os
import shutil
import subprocess
import sys
import time

ROOT = os.path.dirname(os.path.dirname(os.path.abspath(__file__)))


def sh(cmd, cwd=None, timeout=1800):
    p = subprocess.run(cmd, shell=True, cwd=cwd, capture_output=True, text=True, timeout=timeout,
                       env=dict(os.environ, CARGO_NET_OFFLINE="true"))
    return p.returncode, p.stdout + p.stderr


def main():
    name, prop, src = sys.argv[1], sys.argv[2], sys.argv[3]
    checks = sys.argv[4:] or [prop]
    dst = os.path.join(ROOT, "seeded", name)
    os.makedirs(dst, exist_ok=True)
    for f in ("patch.diff", "seed_demo.rs", "notes.md"):
        if os.path.exists(os.path.join(src, f)) and os.path.abspath(os.path.join(src, f)) != os.path.abspath(os.path.join(dst, f)):
            shutil.copy(os.path.join(src, f), os.path.join(dst, f))
    patch = os.path.join(dst, "patch.diff")
    meta = {"name": name, "breaks_property": prop, "ran": []}
    # ---- 1. confirm in a scratch worktree
    wt = "/tmp/seed/confirm_" + name
    sh("git -C /repo worktree remove --force %s" % wt)
    rc, out = sh("git -C /repo worktree add --detach %s HEAD" % wt)
    try:
        shutil.copy(os.path.join(dst, "seed_demo.rs"), os.path.join(wt, "tests", "seed_demo.rs"))
        FEAT = (" --features " + os.environ["SEED_FEATURES"]) if os.environ.get("SEED_FEATURES") else ""
        rc0, out0 = sh("cargo test --offline%s --test seed_demo 2>&1 | tail -5" % FEAT, cwd=wt)
        demo_without = "test result: ok" in out0
        rca, outa = sh("git apply %s" % patch, cwd=wt)
        meta["patch_applies"] = rca == 0
        rc1, out1 = sh("cargo test --offline%s --test seed_demo 2>&1 | tail -8" % FEAT, cwd=wt)
        demo_with_fails = "test result: FAILED" in out1 or "panicked" in out1 or rc1 != 0 and "test result: ok" not in out1
        os.remove(os.path.join(wt, "tests", "seed_demo.rs"))
        rc2, out2 = sh("cargo test --offline 2>&1 | grep -E '^test result|FAILED|^error' | sort | uniq -c", cwd=wt)
        suite_passes = "FAILED" not in out2 and "error" not in out2 and "test result: ok" in out2
        meta["confirmed"] = {"demo_passes_without_change": demo_without, "demo_fails_with_change": bool(demo_with_fails),
                             "existing_suite_passes_with_change": suite_passes}
        meta["ran"].append("scratch worktree %s: cargo test --offline --test seed_demo (without/with patch); cargo test --offline (with patch)" % wt)
    finally:
        sh("git -C /repo worktree remove --force %s" % wt)
    # ---- 3. run the checks against /repo with the patch applied
    rc, out = sh("git -C /repo status --porcelain --untracked-files=no")
    if out.strip():
        print("refusing: /repo has local modifications:\n" + out)
        return 2
    rc, out = sh("git -C /repo apply %s" % patch)
    results = {}
    try:
        for c in checks:
            t0 = time.time()
            rcc, outc = sh("./check %s --tier quick" % c, cwd=ROOT, timeout=3600)
            lines = [l for l in outc.split("\n") if l.startswith(("VIOLATION", "UNDECIDED", "OBLIGATION-FAILED", "KNOWN-FINDING")) or ": PASS" in l or ": VIOLATION" in l or ": UNDECIDED" in l]
            results[c] = {"exit": rcc, "lines": lines[:12], "wall_s": round(time.time() - t0, 1)}
            meta["ran"].append("git -C /repo apply patch.diff; ./check %s --tier quick -> exit %d" % (c, rcc))
    finally:
        sh("git -C /repo checkout -- .")
    meta["checks"] = results
    meta["detected_by"] = [c for c, r in results.items() if r["exit"] == 1]
    meta["undecided_in"] = [c for c, r in results.items() if r["exit"] == 2]
    notes = ""
    if os.path.exists(os.path.join(dst, "notes.md")):
        notes = open(os.path.join(dst, "notes.md")).read()
    meta["needs_to_manifest"] = notes[:1500]
    with open(os.path.join(dst, "meta.json"), "w") as f:
        json.dump(meta, f, indent=1)
    # restore evidence for the unchanged tree
    for c in checks:
        sh("./check %s --tier quick" % c, cwd=ROOT, timeout=3600)
    print(json.dumps({k: meta[k] for k in ("confirmed", "detected_by", "undecided_in")}, indent=1))
    for c, r in results.items():
        print(c, r["exit"], *r["lines"][:4], sep="\n   ")
    return 0


if __name__ == "__main__":
    sys.exit(main())
