//@ unit u_modinv : BigUint::modinv -- extended Euclid over BigUint arithmetic (src/biguint.rs)
#![feature(allocator_api)]
use vstd::prelude::*;
use vstd::std_specs::iter::IteratorSpec;
use vstd::std_specs::ops::*;
use core::ops::{Add, Sub, Mul, Rem};
use core::cmp::Ordering;
use core::cmp::Ordering::{Equal, Greater, Less};
verus! {
//@ include prelude/core.rs
//@ include prelude/std_specs.rs
//@ include prelude/panic.rs
//@ include prelude/gcdspec.rs
//@ include prelude/gcdtheory.rs
pub mod u {
use super::*;

//@ extract src/biguint.rs :: struct BigUint
pub struct BigUint {
    data: Vec<BigDigit>,
}
//@ end
//@ include prelude/biguint_view.rs
pub open spec fn ord_of(a: nat, b: nat) -> Ordering {
    if a < b { Ordering::Less } else if a == b { Ordering::Equal } else { Ordering::Greater }
}
/// x is an inverse of a modulo m:  a*x = 1 + k*m for some integer k
pub open spec fn is_modinv(a: int, m: int, x: int) -> bool { exists|k: int| a * x == 1 + #[trigger] (k * m) }
/// x == y (mod m)
pub open spec fn cong(x: int, y: int, m: int) -> bool { exists|k: int| x == y + #[trigger] (k * m) }

impl BigUint {
//@ extract src/biguint.rs :: impl BigUint :: const ZERO rules=R9,R13 label=BigUint_ZERO
    exec const ZERO: Self /*+*/ensures Self::ZERO.data@.len() == 0 /*-*/{ BigUint { data: Vec::new() } }
//@ end
//@ stub u_core/is_zero
//@ stub u_core/is_one
//@ stub u_core/zero
//@ stub u_core/one
//@ stub u_cmp/cmp
//@ stub u_divapi/div_rem
}
impl RemSpecImpl<&BigUint> for &BigUint {
    open spec fn obeys_rem_spec() -> bool { false }
    open spec fn rem_req(self, rhs: &BigUint) -> bool { self.wf() && rhs.wf() && (!mp() ==> rhs.v() != 0) }
    open spec fn rem_spec(self, rhs: &BigUint) -> BigUint { arbitrary() }
}
impl Rem<&BigUint> for &BigUint {
    type Output = BigUint;
//@ stub u_divscalar/rem_ref_ref
}
impl RemSpecImpl<&BigUint> for BigUint {
    open spec fn obeys_rem_spec() -> bool { false }
    open spec fn rem_req(self, rhs: &BigUint) -> bool { self.wf() && rhs.wf() && (!mp() ==> rhs.v() != 0) }
    open spec fn rem_spec(self, rhs: &BigUint) -> BigUint { arbitrary() }
}
impl Rem<&BigUint> for BigUint {
    type Output = BigUint;
//@ stub u_fwd/rem_val_ref
}
impl SubSpecImpl<BigUint> for &BigUint {
    open spec fn obeys_sub_spec() -> bool { false }
    open spec fn sub_req(self, rhs: BigUint) -> bool { self.wf() && rhs.wf() && (!mp() ==> self.v() >= rhs.v()) }
    open spec fn sub_spec(self, rhs: BigUint) -> BigUint { arbitrary() }
}
impl Sub<BigUint> for &BigUint {
    type Output = BigUint;
//@ stub u_addsub/sub_ref_val
}
impl SubSpecImpl<BigUint> for BigUint {
    open spec fn obeys_sub_spec() -> bool { false }
    open spec fn sub_req(self, rhs: BigUint) -> bool { self.wf() && rhs.wf() && (!mp() ==> self.v() >= rhs.v()) }
    open spec fn sub_spec(self, rhs: BigUint) -> BigUint { arbitrary() }
}
impl Sub<BigUint> for BigUint {
    type Output = BigUint;
//@ stub u_fwd/sub_val_val
}
impl AddSpecImpl<BigUint> for BigUint {
    open spec fn obeys_add_spec() -> bool { false }
    open spec fn add_req(self, rhs: BigUint) -> bool { self.wf() && rhs.wf() }
    open spec fn add_spec(self, rhs: BigUint) -> BigUint { arbitrary() }
}
impl Add<BigUint> for BigUint {
    type Output = BigUint;
//@ stub u_fwd/add_val_val
}
impl MulSpecImpl<&BigUint> for BigUint {
    open spec fn obeys_mul_spec() -> bool { false }
    open spec fn mul_req(self, rhs: &BigUint) -> bool { self.wf() && rhs.wf() }
    open spec fn mul_spec(self, rhs: &BigUint) -> BigUint { arbitrary() }
}
impl Mul<&BigUint> for BigUint {
    type Output = BigUint;
//@ stub u_mul/mul_vr
}

/// t2 = (t0 - q*t1) mod m keeps the Bezout congruence: t2 * a == r2 (mod m) for r2 = r0 - q*r1
pub proof fn lemma_cong_step(a: int, m: int, t0: int, t1: int, r0: int, r1: int, q: int, r2: int, j: int, qt1: int, t2: int)
    requires cong(t0 * a, r0, m), cong(t1 * a, r1, m), r0 == q * r1 + r2, q * t1 == j * m + qt1,
        t2 == (if t0 < qt1 { t0 + (m - qt1) } else { t0 - qt1 })
    ensures cong(t2 * a, r2, m)
{
    let k0 = choose|k: int| t0 * a == r0 + #[trigger] (k * m);
    let k1 = choose|k: int| t1 * a == r1 + #[trigger] (k * m);
    let e: int = if t0 < qt1 { 1 } else { 0 };
    let kk = k0 - q * k1 + (j + e) * a;
    assert(t2 * a == r2 + kk * m) by (nonlinear_arith)
        requires t0 * a == r0 + k0 * m, t1 * a == r1 + k1 * m, r0 == q * r1 + r2, q * t1 == j * m + qt1,
            t2 == t0 - qt1 + e * m, kk == k0 - q * k1 + (j + e) * a;
    assert(t2 * a == r2 + #[trigger] (kk * m));
}

/// first (lifted) iteration: t0 = 1, t1 = m - q with m = q*r0 + r2 and a = qa*m + r0
pub proof fn lemma_cong_init(a: int, m: int, qa: int, r0: int, q: int, r2: int)
    requires a == qa * m + r0, m == q * r0 + r2
    ensures cong(1 * a, r0, m), cong((m - q) * a, r2, m)
{
    assert(1 * a == r0 + #[trigger] (qa * m)) by (nonlinear_arith) requires a == qa * m + r0;
    let kk = a - q * qa - 1;
    assert((m - q) * a == r2 + kk * m) by (nonlinear_arith)
        requires a == qa * m + r0, m == q * r0 + r2, kk == a - q * qa - 1;
    assert((m - q) * a == r2 + #[trigger] (kk * m));
}

pub proof fn lemma_modinv_from_cong(a: int, m: int, t: int)
    requires cong(t * a, 1, m)
    ensures is_modinv(a, m, t)
{
    let k = choose|k: int| t * a == 1 + #[trigger] (k * m);
    assert(a * t == 1 + k * m) by (nonlinear_arith) requires t * a == 1 + k * m;
    assert(a * t == 1 + #[trigger] (k * m));
}

/// a = qa*m + r: gcd(a, m) == gcd(m, r) == gcd(r, m)
pub proof fn lemma_gcd_reduce(a: nat, m: nat, qa: nat, r: nat, g: nat)
    requires a == qa * m + r
    ensures is_gcd(r, m, g) <==> is_gcd(a, m, g)
{
    lemma_gcd_divstep(a, m, qa, r, g);
    lemma_gcd_sym(m, r, g);
}

impl BigUint {
//@ extract src/biguint.rs :: impl BigUint :: fn modinv rules=R0,R11,R16l,R3t ufcs=self%modulus,modulus-q,modulus-qt1 props=C05,C14
    pub fn modinv(&self, modulus: &Self) -> /*+*/(res: /*-*/Option<Self>/*+*/)/*-*/
//+{
        requires self.wf(), modulus.wf(), !mp() ==> modulus.v() != 0
        ensures mp() ==> modulus.v() != 0,
            res is Some ==> res.unwrap().wf() && res.unwrap().v() < modulus.v() && is_modinv(self.v() as int, modulus.v() as int, res.unwrap().v() as int),
            res is Some ==> is_gcd(self.v(), modulus.v(), 1),
            res is None ==> exists|g: nat| g != 1 && is_gcd(self.v(), modulus.v(), g),
//+}
    {
        // Based on the inverse pseudocode listed here:
        // https://en.wikipedia.org/wiki/Extended_Euclidean_algorithm#Modular_integers
        // TODO: consider Binary or Lehmer's GCD algorithms for optimization.

        __assert(!modulus.is_zero());
//+{
        let ghost a = self.v();
        let ghost m = modulus.v();
//+}
        if modulus.is_one() {
//+{
            proof {
                assert((a as int) * 0 == 1 + #[trigger] ((-1int) * 1)) by (nonlinear_arith);
                lemma_one_divides(a); lemma_one_divides(1);
            }
//+}
            return Some(Self::zero());
        }

        let mut r0; // = modulus.clone();
        let mut r1 = Rem::rem(self, modulus);
        let mut t0; // = Self::zero();
        let mut t1; // = Self::one();
//+{
        let ghost qa = choose|q: nat| #[trigger] udiv_ok(a, m, q, r1.v());
        let ghost r1v = r1.v();
//+}

        // Lift and simplify the first iteration to avoid some initial allocations.
        if r1.is_zero() {
//+{
            proof {
                // a = qa * m: gcd(a, m) == m != 1
                lemma_gcd_zero_left(m);
                lemma_gcd_reduce(a, m, qa, 0, m);
            }
//+}
            return None;
        } else if r1.is_one() {
//+{
            proof {
                assert((a as int) * 1 == 1 + #[trigger] ((qa as int) * (m as int))) by (nonlinear_arith) requires a == qa * m + 1;
                // gcd(1, m) == 1
                lemma_one_divides(1); lemma_one_divides(m);
                assert forall|d: nat| divides(d, 1) && divides(d, m) implies #[trigger] divides(d, 1) by {}
                lemma_gcd_reduce(a, m, qa, 1, 1);
            }
//+}
            return Some(r1);
        } else {
            let (q, r2) = modulus.div_rem(&r1);
            if r2.is_zero() {
//+{
                proof {
                    // m = q * r1: gcd(r1, m) == r1 >= 2
                    lemma_gcd_zero_right(r1v);
                    lemma_gcd_divstep(m, r1v, q.v(), 0, r1v);
                    lemma_gcd_sym(m, r1v, r1v);
                    lemma_gcd_reduce(a, m, qa, r1v, r1v);
                }
//+}
                return None;
            }
//+{
            proof {
                assert(q.v() <= m) by (nonlinear_arith) requires m == q.v() * r1v + r2.v(), r1v >= 1;
                assert(q.v() >= 1) by (nonlinear_arith) requires m == q.v() * r1v + r2.v(), r2.v() < r1v, r1v < m;
                lemma_cong_init(a as int, m as int, qa as int, r1v as int, q.v() as int, r2.v() as int);
                assert forall|g: nat| #[trigger] is_gcd(r1v, r2.v(), g) implies is_gcd(a, m, g) by {
                    lemma_gcd_divstep(m, r1v, q.v(), r2.v(), g);
                    lemma_gcd_sym(m, r1v, g);
                    lemma_gcd_reduce(a, m, qa, r1v, g);
                }
            }
//+}
            r0 = r1;
            r1 = r2;
            t0 = Self::one();
            t1 = Sub::sub(modulus, q);
        }

        while !r1.is_zero()
//+{
            invariant
                modulus.wf(), m == modulus.v(), m >= 2, r0.wf(), r1.wf(), t0.wf(), t1.wf(), t0.v() < m, t1.v() < m,
                cong((t0.v() as int) * (a as int), r0.v() as int, m as int),
                cong((t1.v() as int) * (a as int), r1.v() as int, m as int),
                forall|g: nat| #[trigger] is_gcd(r0.v(), r1.v(), g) ==> is_gcd(a, m, g),
            decreases r1.v()
//+}
        {
//+{
            let ghost r0v = r0.v(); let ghost r1o = r1.v(); let ghost t0v = t0.v(); let ghost t1v = t1.v();
//+}
            let (q, r2) = r0.div_rem(&r1);
            r0 = r1;
            r1 = r2;

            // let t2 = (t0 - q * t1) % modulus;
//+{
            let ghost qv = q.v();
//+}
            let qt1 = Rem::rem(Mul::mul(q, &t1), modulus);
//+{
            let ghost jj = choose|j: nat| #[trigger] udiv_ok(qv * t1v, m, j, qt1.v());
//+}
            let t2 = if t0 < qt1 {
                t0 + (Sub::sub(modulus, qt1))
            } else {
                t0 - qt1
            };
//+{
            proof {
                lemma_cong_step(a as int, m as int, t0v as int, t1v as int, r0v as int, r1o as int, qv as int, r1.v() as int, jj as int, qt1.v() as int, t2.v() as int);
                assert forall|g: nat| #[trigger] is_gcd(r0.v(), r1.v(), g) implies is_gcd(a, m, g) by {
                    lemma_gcd_divstep(r0v, r1o, qv, r1.v(), g);
                }
            }
//+}
            t0 = t1;
            t1 = t2;
        }

//+{
        proof {
            lemma_gcd_zero_right(r0.v());
            if r0.v() == 1 { lemma_modinv_from_cong(a as int, m as int, t0.v() as int); }
        }
//+}
        if r0.is_one() {
            Some(t0)
        } else {
            None
        }
    }
//@ end
}

} // mod u
} // verus!
fn main() {}
