//@ unit u_scalar : BigUint scalar leaves: +, - , * with u32/u64/u128 on either side (src/biguint/addition.rs, subtraction.rs, multiplication.rs)
#![feature(allocator_api)]
use vstd::prelude::*;
use vstd::std_specs::iter::IteratorSpec;
use vstd::std_specs::ops::*;
use core::ops::{Add, AddAssign, Sub, SubAssign, Mul, MulAssign};
verus! {
//@ include prelude/core.rs
//@ include prelude/std_specs.rs
//@ include prelude/panic.rs
pub mod u {
use super::*;

pub mod big_digit {
    use vstd::prelude::*;
    use super::*;
    pub type BigDigit = u64;
    pub type DoubleBigDigit = u128;
//@ stub k_mul/from_doublebigdigit
}

//@ extract src/biguint.rs :: struct BigUint
pub struct BigUint {
    data: Vec<BigDigit>,
}
//@ end
//@ include prelude/biguint_view.rs
impl BigUint {
//@ stub u_core/normalize
//@ stub u_core/normalized
}
//@ stub k_add/__add2
//@ stub k_sub/sub2
//@ stub k_sub/sub2rev
//@ stub k_mul/scalar_mul
//@ stub k_mul/mul3

pub proof fn lemma_val2(lo: u64, hi: u64)
    ensures val(seq![lo, hi]) == (lo as nat) + B() * (hi as nat)
{
    let s = seq![lo, hi];
    assert(valp(s, 2) == valp(s, 1) + (s[1] as nat) * pw(1));
    assert(valp(s, 1) == valp(s, 0) + (s[0] as nat) * pw(0));
    assert(pw(1) == B() * pw(0));
    assert((lo as nat) * 1 == lo as nat) by (nonlinear_arith);
    assert((hi as nat) * (B() * 1) == B() * (hi as nat)) by (nonlinear_arith);
}

/// padding with high zero digits keeps the value
pub proof fn lemma_val_pad(s: Seq<u64>)
    ensures val(s.push(0u64)) == val(s)
{
    lemma_val_push(s, 0u64);
    assert(pw(s.len()) * 0 == 0) by (nonlinear_arith);
}

// ------------------------------------------------------------------ addition
impl AddAssignSpecImpl<u32> for BigUint {
    open spec fn obeys_add_assign_spec() -> bool { false }
    open spec fn add_assign_req(&self, rhs: u32) -> bool { self.wf() }
    open spec fn add_assign_spec(&self, rhs: u32) -> &BigUint { arbitrary() }
}
impl AddAssign<u32> for BigUint {
//@ extract src/biguint/addition.rs :: impl AddAssign<u32> for BigUint :: fn add_assign props=C10,C01,C04 label=add_assign_u32
    fn add_assign(&mut self, other: u32)
//+{
        ensures final(self).wf(), final(self).v() == old(self).v() + other as nat
//+}
    {
        if other != 0 {
//+{
            let ghost s0 = self.data@;
//+}
            if self.data.is_empty() {
                self.data.push(0);
            }
//+{
            let ghost s1 = self.data@;
            proof {
                if s0.len() == 0 { lemma_val_pad(s0); assert(s1 =~= s0.push(0u64)); }
                assert([other as BigDigit]@ =~= seq![other as u64]);
                lemma_val_single(other as u64);
            }
//+}

            let carry = __add2(&mut self.data, &[other as BigDigit]);
//+{
            let ghost s2 = self.data@;
            proof {
                lemma_val_push(s2, carry);
                if carry == 0 {
                    assert(pw(s2.len()) * 0 == 0) by (nonlinear_arith);
                    if s0.len() > 0 { lemma_wf_after_add(s2, s1, other as nat); }
                    else { lemma_top_nonzero_single(s2, other as nat); }
                }
            }
//+}
            if carry != 0 {
                self.data.push(carry);
            }
        }
    }
//@ end
}

impl AddAssignSpecImpl<u64> for BigUint {
    open spec fn obeys_add_assign_spec() -> bool { false }
    open spec fn add_assign_req(&self, rhs: u64) -> bool { self.wf() }
    open spec fn add_assign_spec(&self, rhs: u64) -> &BigUint { arbitrary() }
}
impl AddAssign<u64> for BigUint {
//@ extract src/biguint/addition.rs :: impl AddAssign<u64> for BigUint :: fn add_assign props=C10,C01,C04 label=add_assign_u64
    fn add_assign(&mut self, other: u64)
//+{
        ensures final(self).wf(), final(self).v() == old(self).v() + other as nat
//+}
    {
        if other != 0 {
//+{
            let ghost s0 = self.data@;
//+}
            if self.data.is_empty() {
                self.data.push(0);
            }
//+{
            let ghost s1 = self.data@;
            proof {
                if s0.len() == 0 { lemma_val_pad(s0); assert(s1 =~= s0.push(0u64)); }
                assert([other as BigDigit]@ =~= seq![other]);
                lemma_val_single(other);
            }
//+}

            let carry = __add2(&mut self.data, &[other as BigDigit]);
//+{
            let ghost s2 = self.data@;
            proof {
                lemma_val_push(s2, carry);
                if carry == 0 {
                    assert(pw(s2.len()) * 0 == 0) by (nonlinear_arith);
                    if s0.len() > 0 { lemma_wf_after_add(s2, s1, other as nat); }
                    else { lemma_top_nonzero_single(s2, other as nat); }
                }
            }
//+}
            if carry != 0 {
                self.data.push(carry);
            }
        }
    }
//@ end
}

/// a one-digit sequence with a non-zero value is wf
pub proof fn lemma_top_nonzero_single(s: Seq<u64>, v: nat)
    requires s.len() == 1, val(s) == v, v > 0
    ensures wf(s)
{
    lemma_val_single(s[0]);
    assert(s =~= seq![s[0]]);
}

impl AddAssignSpecImpl<u128> for BigUint {
    open spec fn obeys_add_assign_spec() -> bool { false }
    open spec fn add_assign_req(&self, rhs: u128) -> bool { self.wf() }
    open spec fn add_assign_spec(&self, rhs: u128) -> &BigUint { arbitrary() }
}
impl AddAssign<u128> for BigUint {
//@ extract src/biguint/addition.rs :: impl AddAssign<u128> for BigUint :: fn add_assign props=C10,C01,C04 label=add_assign_u128
    fn add_assign(&mut self, other: u128)
//+{
        ensures final(self).wf(), final(self).v() == old(self).v() + other as nat
//+}
    {
//+{
        let ghost s0 = self.data@;
//+}
        let (hi, lo) = big_digit::from_doublebigdigit(other);
        if hi == 0 {
            *self += lo;
        } else {
            while self.data.len() < 2
//+{
                invariant val(self.data@) == val(s0), self.data@.len() >= s0.len(),
                    self.data@.len() > s0.len() ==> self.data@.len() <= 2,
                    forall|j: int| 0 <= j < s0.len() ==> self.data@[j] == s0[j],
                    forall|j: int| s0.len() <= j < self.data@.len() ==> self.data@[j] == 0,
                decreases 2 - self.data@.len()
//+}
            {
//+{
                proof { lemma_val_pad(self.data@); }
//+}
                self.data.push(0);
            }
//+{
            let ghost s1 = self.data@;
            proof {
                assert([lo, hi]@ =~= seq![lo, hi]);
                lemma_val2(lo, hi);
            }
//+}

            let carry = __add2(&mut self.data, &[lo, hi]);
//+{
            let ghost s2 = self.data@;
            proof {
                lemma_val_push(s2, carry);
                if carry == 0 {
                    assert(pw(s2.len()) * 0 == 0) by (nonlinear_arith);
                    lemma_wf_after_add128(s2, s1, s0, lo, hi);
                }
            }
//+}
            if carry != 0 {
                self.data.push(carry);
            }
        }
    }
//@ end
}

/// wf of the sum when the addend has a non-zero second digit: either the original had >= 2 digits (top digit argument)
/// or it was padded to exactly 2 digits and the sum is >= B
pub proof fn lemma_wf_after_add128(f: Seq<u64>, s1: Seq<u64>, s0: Seq<u64>, lo: u64, hi: u64)
    requires f.len() == s1.len(), s1.len() >= 2, wf(s0), hi != 0,
        val(f) == val(s1) + ((lo as nat) + B() * (hi as nat)), val(s1) == val(s0),
        s1.len() >= s0.len(), s1.len() > s0.len() ==> s1.len() == 2,
        forall|j: int| 0 <= j < s0.len() ==> s1[j] == s0[j],
    ensures wf(f)
{
    if s1.len() == s0.len() {
        assert(s1 =~= s0);
        lemma_wf_after_add(f, s1, (lo as nat) + B() * (hi as nat));
    } else {
        // f has exactly 2 digits and val(f) >= B * hi >= B = pw(1)
        assert(pw(1) == B() * pw(0));
        assert(B() * (hi as nat) >= B()) by (nonlinear_arith) requires hi >= 1;
        lemma_top_nonzero(f);
    }
}

impl AddSpecImpl<u32> for BigUint {
    open spec fn obeys_add_spec() -> bool { false }
    open spec fn add_req(self, rhs: u32) -> bool { self.wf() }
    open spec fn add_spec(self, rhs: u32) -> BigUint { arbitrary() }
}
impl Add<u32> for BigUint {
    type Output = BigUint;
//@ extract src/biguint/addition.rs :: impl Add<u32> for BigUint :: fn add rules=R0,R5 props=C10,C01 label=add_u32
    fn add(self, other: u32) -> /*+*/(r: /*-*/BigUint/*+*/)/*-*/
//+{
        ensures r.wf(), r.v() == self.v() + other as nat
//+}
    {
        let mut self__ = self;
        self__ += other;
        self__
    }
//@ end
}
impl AddSpecImpl<u64> for BigUint {
    open spec fn obeys_add_spec() -> bool { false }
    open spec fn add_req(self, rhs: u64) -> bool { self.wf() }
    open spec fn add_spec(self, rhs: u64) -> BigUint { arbitrary() }
}
impl Add<u64> for BigUint {
    type Output = BigUint;
//@ extract src/biguint/addition.rs :: impl Add<u64> for BigUint :: fn add rules=R0,R5 props=C10,C01 label=add_u64
    fn add(self, other: u64) -> /*+*/(r: /*-*/BigUint/*+*/)/*-*/
//+{
        ensures r.wf(), r.v() == self.v() + other as nat
//+}
    {
        let mut self__ = self;
        self__ += other;
        self__
    }
//@ end
}
impl AddSpecImpl<u128> for BigUint {
    open spec fn obeys_add_spec() -> bool { false }
    open spec fn add_req(self, rhs: u128) -> bool { self.wf() }
    open spec fn add_spec(self, rhs: u128) -> BigUint { arbitrary() }
}
impl Add<u128> for BigUint {
    type Output = BigUint;
//@ extract src/biguint/addition.rs :: impl Add<u128> for BigUint :: fn add rules=R0,R5 props=C10,C01 label=add_u128
    fn add(self, other: u128) -> /*+*/(r: /*-*/BigUint/*+*/)/*-*/
//+{
        ensures r.wf(), r.v() == self.v() + other as nat
//+}
    {
        let mut self__ = self;
        self__ += other;
        self__
    }
//@ end
}

// ------------------------------------------------------------------ subtraction
impl SubAssignSpecImpl<u32> for BigUint {
    open spec fn obeys_sub_assign_spec() -> bool { false }
    open spec fn sub_assign_req(&self, rhs: u32) -> bool { self.wf() && (!mp() ==> self.v() >= rhs as nat) }
    open spec fn sub_assign_spec(&self, rhs: u32) -> &BigUint { arbitrary() }
}
impl SubAssign<u32> for BigUint {
//@ extract src/biguint/subtraction.rs :: impl SubAssign<u32> for BigUint :: fn sub_assign rules=R0,R7 props=C10,C01,C04,C14 label=sub_assign_u32
    fn sub_assign(&mut self, other: u32)
//+{
        ensures final(self).wf(), mp() ==> old(self).v() >= other as nat, final(self).v() + other as nat == old(self).v()
//+}
    {
//+{
        proof {
            assert(self.data@.subrange(0, self.data@.len() as int) =~= self.data@);
            assert([other as BigDigit]@ =~= seq![other as u64]);
            lemma_val_single(other as u64);
        }
//+}
        sub2(&mut self.data.as_mut_slice()[..], &[other as BigDigit]);
        self.normalize();
    }
//@ end
}
impl SubAssignSpecImpl<u64> for BigUint {
    open spec fn obeys_sub_assign_spec() -> bool { false }
    open spec fn sub_assign_req(&self, rhs: u64) -> bool { self.wf() && (!mp() ==> self.v() >= rhs as nat) }
    open spec fn sub_assign_spec(&self, rhs: u64) -> &BigUint { arbitrary() }
}
impl SubAssign<u64> for BigUint {
//@ extract src/biguint/subtraction.rs :: impl SubAssign<u64> for BigUint :: fn sub_assign rules=R0,R7 props=C10,C01,C04,C14 label=sub_assign_u64
    fn sub_assign(&mut self, other: u64)
//+{
        ensures final(self).wf(), mp() ==> old(self).v() >= other as nat, final(self).v() + other as nat == old(self).v()
//+}
    {
//+{
        proof {
            assert(self.data@.subrange(0, self.data@.len() as int) =~= self.data@);
            assert([other as BigDigit]@ =~= seq![other]);
            lemma_val_single(other);
        }
//+}
        sub2(&mut self.data.as_mut_slice()[..], &[other as BigDigit]);
        self.normalize();
    }
//@ end
}
impl SubAssignSpecImpl<u128> for BigUint {
    open spec fn obeys_sub_assign_spec() -> bool { false }
    open spec fn sub_assign_req(&self, rhs: u128) -> bool { self.wf() && (!mp() ==> self.v() >= rhs as nat) }
    open spec fn sub_assign_spec(&self, rhs: u128) -> &BigUint { arbitrary() }
}
impl SubAssign<u128> for BigUint {
//@ extract src/biguint/subtraction.rs :: impl SubAssign<u128> for BigUint :: fn sub_assign rules=R0,R7 props=C10,C01,C04,C14 label=sub_assign_u128
    fn sub_assign(&mut self, other: u128)
//+{
        ensures final(self).wf(), mp() ==> old(self).v() >= other as nat, final(self).v() + other as nat == old(self).v()
//+}
    {
        let (hi, lo) = big_digit::from_doublebigdigit(other);
//+{
        proof {
            assert(self.data@.subrange(0, self.data@.len() as int) =~= self.data@);
            assert([lo, hi]@ =~= seq![lo, hi]);
            lemma_val2(lo, hi);
        }
//+}
        sub2(&mut self.data.as_mut_slice()[..], &[lo, hi]);
        self.normalize();
    }
//@ end
}

// ------------------------------------------------------------------ scalar - BigUint
pub open spec fn sub_left_req(s: nat, o: BigUint) -> bool { o.wf() && (!mp() ==> s >= o.v()) }

impl SubSpecImpl<BigUint> for u32 {
    open spec fn obeys_sub_spec() -> bool { false }
    open spec fn sub_req(self, rhs: BigUint) -> bool { sub_left_req(self as nat, rhs) }
    open spec fn sub_spec(self, rhs: BigUint) -> BigUint { arbitrary() }
}
impl Sub<BigUint> for u32 {
    type Output = BigUint;
//@ extract src/biguint/subtraction.rs :: impl Sub<BigUint> for u32 :: fn sub rules=R0,R7o props=C10,C01,C04,C14 label=u32_sub_big
    fn sub(self, mut other: BigUint) -> /*+*/(r: /*-*/BigUint/*+*/)/*-*/
//+{
        ensures r.wf(), mp() ==> self as nat >= other.v(), r.v() + other.v() == self as nat
//+}
    {
//+{
        proof {
            assert([self as BigDigit]@ =~= seq![self as u64]);
            lemma_val_single(self as u64);
            assert(other.data@.subrange(0, other.data@.len() as int) =~= other.data@);
        }
//+}
        if other.data.is_empty() {
            other.data.push(self as BigDigit);
//+{
            proof { assert(other.data@ =~= seq![self as u64]); }
//+}
        } else {
            sub2rev(&[self as BigDigit], &mut other.data.as_mut_slice()[..]);
        }
        other.normalized()
    }
//@ end
}
impl SubSpecImpl<BigUint> for u64 {
    open spec fn obeys_sub_spec() -> bool { false }
    open spec fn sub_req(self, rhs: BigUint) -> bool { sub_left_req(self as nat, rhs) }
    open spec fn sub_spec(self, rhs: BigUint) -> BigUint { arbitrary() }
}
impl Sub<BigUint> for u64 {
    type Output = BigUint;
//@ extract src/biguint/subtraction.rs :: impl Sub<BigUint> for u64 :: fn sub rules=R0,R7o props=C10,C01,C04,C14 label=u64_sub_big
    fn sub(self, mut other: BigUint) -> /*+*/(r: /*-*/BigUint/*+*/)/*-*/
//+{
        ensures r.wf(), mp() ==> self as nat >= other.v(), r.v() + other.v() == self as nat
//+}
    {
//+{
        proof {
            assert([self]@ =~= seq![self]);
            lemma_val_single(self);
            assert(other.data@.subrange(0, other.data@.len() as int) =~= other.data@);
        }
//+}
        if other.data.is_empty() {
            other.data.push(self);
//+{
            proof { assert(other.data@ =~= seq![self]); }
//+}
        } else {
            sub2rev(&[self], &mut other.data.as_mut_slice()[..]);
        }
        other.normalized()
    }
//@ end
}


// ------------------------------------------------------------------ BigUint - scalar (by value)
impl SubSpecImpl<u32> for BigUint {
    open spec fn obeys_sub_spec() -> bool { false }
    open spec fn sub_req(self, rhs: u32) -> bool { self.wf() && (!mp() ==> self.v() >= rhs as nat) }
    open spec fn sub_spec(self, rhs: u32) -> BigUint { arbitrary() }
}
impl Sub<u32> for BigUint {
    type Output = BigUint;
//@ extract src/biguint/subtraction.rs :: impl Sub<u32> for BigUint :: fn sub rules=R0,R5 props=C10,C01,C14 label=sub_u32
    fn sub(self, other: u32) -> /*+*/(r: /*-*/BigUint/*+*/)/*-*/
//+{
        ensures r.wf(), mp() ==> self.v() >= other as nat, r.v() + other as nat == self.v()
//+}
    {
        let mut self__ = self;
        self__ -= other;
        self__
    }
//@ end
}
impl SubSpecImpl<u64> for BigUint {
    open spec fn obeys_sub_spec() -> bool { false }
    open spec fn sub_req(self, rhs: u64) -> bool { self.wf() && (!mp() ==> self.v() >= rhs as nat) }
    open spec fn sub_spec(self, rhs: u64) -> BigUint { arbitrary() }
}
impl Sub<u64> for BigUint {
    type Output = BigUint;
//@ extract src/biguint/subtraction.rs :: impl Sub<u64> for BigUint :: fn sub rules=R0,R5 props=C10,C01,C14 label=sub_u64
    fn sub(self, other: u64) -> /*+*/(r: /*-*/BigUint/*+*/)/*-*/
//+{
        ensures r.wf(), mp() ==> self.v() >= other as nat, r.v() + other as nat == self.v()
//+}
    {
        let mut self__ = self;
        self__ -= other;
        self__
    }
//@ end
}
impl SubSpecImpl<u128> for BigUint {
    open spec fn obeys_sub_spec() -> bool { false }
    open spec fn sub_req(self, rhs: u128) -> bool { self.wf() && (!mp() ==> self.v() >= rhs as nat) }
    open spec fn sub_spec(self, rhs: u128) -> BigUint { arbitrary() }
}
impl Sub<u128> for BigUint {
    type Output = BigUint;
//@ extract src/biguint/subtraction.rs :: impl Sub<u128> for BigUint :: fn sub rules=R0,R5 props=C10,C01,C14 label=sub_u128
    fn sub(self, other: u128) -> /*+*/(r: /*-*/BigUint/*+*/)/*-*/
//+{
        ensures r.wf(), mp() ==> self.v() >= other as nat, r.v() + other as nat == self.v()
//+}
    {
        let mut self__ = self;
        self__ -= other;
        self__
    }
//@ end
}

impl SubSpecImpl<BigUint> for u128 {
    open spec fn obeys_sub_spec() -> bool { false }
    open spec fn sub_req(self, rhs: BigUint) -> bool { sub_left_req(self as nat, rhs) }
    open spec fn sub_spec(self, rhs: BigUint) -> BigUint { arbitrary() }
}
impl Sub<BigUint> for u128 {
    type Output = BigUint;
//@ extract src/biguint/subtraction.rs :: impl Sub<BigUint> for u128 :: fn sub rules=R0,R7o props=C10,C01,C04,C14 label=u128_sub_big
    fn sub(self, mut other: BigUint) -> /*+*/(r: /*-*/BigUint/*+*/)/*-*/
//+{
        ensures r.wf(), mp() ==> self as nat >= other.v(), r.v() + other.v() == self as nat
//+}
    {
//+{
        let ghost ov = other.v();
//+}
        while other.data.len() < 2
//+{
            invariant val(other.data@) == ov
            decreases 2 - other.data.len()
//+}
        {
//+{
            proof { lemma_val_pad(other.data@); }
//+}
            other.data.push(0);
        }

        let (hi, lo) = big_digit::from_doublebigdigit(self);
//+{
        proof {
            assert([lo, hi]@ =~= seq![lo, hi]);
            lemma_val2(lo, hi);
            assert(other.data@.subrange(0, other.data@.len() as int) =~= other.data@);
        }
//+}
        sub2rev(&[lo, hi], &mut other.data.as_mut_slice()[..]);
        other.normalized()
    }
//@ end
}

// ------------------------------------------------------------------ multiplication
impl MulAssignSpecImpl<u32> for BigUint {
    open spec fn obeys_mul_assign_spec() -> bool { false }
    open spec fn mul_assign_req(&self, rhs: u32) -> bool { self.wf() }
    open spec fn mul_assign_spec(&self, rhs: u32) -> &BigUint { arbitrary() }
}
impl MulAssign<u32> for BigUint {
//@ extract src/biguint/multiplication.rs :: impl MulAssign<u32> for BigUint :: fn mul_assign props=C10,C02 label=mul_assign_u32
    fn mul_assign(&mut self, other: u32)
//+{
        ensures final(self).wf(), final(self).v() == old(self).v() * (other as nat)
//+}
    {
        scalar_mul(self, other as BigDigit);
    }
//@ end
}
impl MulAssignSpecImpl<u64> for BigUint {
    open spec fn obeys_mul_assign_spec() -> bool { false }
    open spec fn mul_assign_req(&self, rhs: u64) -> bool { self.wf() }
    open spec fn mul_assign_spec(&self, rhs: u64) -> &BigUint { arbitrary() }
}
impl MulAssign<u64> for BigUint {
//@ extract src/biguint/multiplication.rs :: impl MulAssign<u64> for BigUint :: fn mul_assign props=C10,C02 label=mul_assign_u64
    fn mul_assign(&mut self, other: u64)
//+{
        ensures final(self).wf(), final(self).v() == old(self).v() * (other as nat)
//+}
    {
        scalar_mul(self, other);
    }
//@ end
}
impl MulSpecImpl<u32> for BigUint {
    open spec fn obeys_mul_spec() -> bool { false }
    open spec fn mul_req(self, rhs: u32) -> bool { self.wf() }
    open spec fn mul_spec(self, rhs: u32) -> BigUint { arbitrary() }
}
impl Mul<u32> for BigUint {
    type Output = BigUint;
//@ extract src/biguint/multiplication.rs :: impl Mul<u32> for BigUint :: fn mul rules=R0,R5 props=C10,C02 label=mul_u32
    fn mul(self, other: u32) -> /*+*/(r: /*-*/BigUint/*+*/)/*-*/
//+{
        ensures r.wf(), r.v() == self.v() * (other as nat)
//+}
    {
        let mut self__ = self;
        self__ *= other;
        self__
    }
//@ end
}
impl MulSpecImpl<u64> for BigUint {
    open spec fn obeys_mul_spec() -> bool { false }
    open spec fn mul_req(self, rhs: u64) -> bool { self.wf() }
    open spec fn mul_spec(self, rhs: u64) -> BigUint { arbitrary() }
}
impl Mul<u64> for BigUint {
    type Output = BigUint;
//@ extract src/biguint/multiplication.rs :: impl Mul<u64> for BigUint :: fn mul rules=R0,R5 props=C10,C02 label=mul_u64
    fn mul(self, other: u64) -> /*+*/(r: /*-*/BigUint/*+*/)/*-*/
//+{
        ensures r.wf(), r.v() == self.v() * (other as nat)
//+}
    {
        let mut self__ = self;
        self__ *= other;
        self__
    }
//@ end
}

//@ assume __digit_from_u128 : num_traits `<u64 as FromPrimitive>::from_u128` (external crate): Some(x) iff x fits in u64 (rule R12g)
#[verifier::external_body]
fn __digit_from_u128(x: u128) -> (r: Option<u64>)
    ensures r is Some <==> x <= u64::MAX as u128, r is Some ==> r.unwrap() as u128 == x
{ unimplemented!() }

impl MulAssignSpecImpl<u128> for BigUint {
    open spec fn obeys_mul_assign_spec() -> bool { false }
    open spec fn mul_assign_req(&self, rhs: u128) -> bool { self.wf() }
    open spec fn mul_assign_spec(&self, rhs: u128) -> &BigUint { arbitrary() }
}
impl MulAssign<u128> for BigUint {
//@ extract src/biguint/multiplication.rs :: impl MulAssign<u128> for BigUint :: fn mul_assign rules=R0,R12g props=C10,C02 label=mul_assign_u128
    fn mul_assign(&mut self, other: u128)
//+{
        ensures final(self).wf(), final(self).v() == old(self).v() * (other as nat)
//+}
    {
        if let Some(other) = __digit_from_u128(other) {
            scalar_mul(self, other);
        } else {
            let (hi, lo) = big_digit::from_doublebigdigit(other);
//+{
            proof { assert([lo, hi]@ =~= seq![lo, hi]); lemma_val2(lo, hi); axiom_vec_u64_len(&self.data); }
//+}
            *self = mul3(&self.data, &[lo, hi]);
        }
    }
//@ end
}
impl MulSpecImpl<u128> for BigUint {
    open spec fn obeys_mul_spec() -> bool { false }
    open spec fn mul_req(self, rhs: u128) -> bool { self.wf() }
    open spec fn mul_spec(self, rhs: u128) -> BigUint { arbitrary() }
}
impl Mul<u128> for BigUint {
    type Output = BigUint;
//@ extract src/biguint/multiplication.rs :: impl Mul<u128> for BigUint :: fn mul rules=R0,R5 props=C10,C02 label=mul_u128
    fn mul(self, other: u128) -> /*+*/(r: /*-*/BigUint/*+*/)/*-*/
//+{
        ensures r.wf(), r.v() == self.v() * (other as nat)
//+}
    {
        let mut self__ = self;
        self__ *= other;
        self__
    }
//@ end
}

// ------------------------------------------------------------------ promoted scalars (promote_scalars!, src/macros.rs): u8 -> u32
impl AddSpecImpl<u8> for BigUint {
    open spec fn obeys_add_spec() -> bool { false }
    open spec fn add_req(self, rhs: u8) -> bool { self.wf() }
    open spec fn add_spec(self, rhs: u8) -> BigUint { arbitrary() }
}
impl Add<u8> for BigUint {
    type Output = BigUint;
//@ extract src/macros.rs :: macro_rules! promote_scalars :: arm 0 :: impl $imp<$scalar> for $res :: fn $method subst=$imp=>Add;$promo=>u32;$res=>BigUint;$method=>add;$scalar=>u8 props=C10,C01 label=add_u8
    fn add(self, other: u8) -> /*+*/(r: /*-*/BigUint/*+*/)/*-*/
//+{
        ensures r.wf(), r.v() == self.v() + other as nat
//+}
    {
        Add::add(self, other as u32)
    }
//@ end
}
impl AddAssignSpecImpl<u8> for BigUint {
    open spec fn obeys_add_assign_spec() -> bool { false }
    open spec fn add_assign_req(&self, rhs: u8) -> bool { self.wf() }
    open spec fn add_assign_spec(&self, rhs: u8) -> &BigUint { arbitrary() }
}
impl AddAssign<u8> for BigUint {
//@ extract src/macros.rs :: macro_rules! promote_scalars_assign :: arm 0 :: fn $method subst=$imp=>AddAssign;$promo=>u32;$res=>BigUint;$method=>add_assign;$scalar=>u8 props=C10,C01 label=add_assign_u8
    fn add_assign(&mut self, other: u8)
//+{
        ensures final(self).wf(), final(self).v() == old(self).v() + other as nat
//+}
    {
        self.add_assign(other as u32);
    }
//@ end
}

} // mod u
} // verus!
fn main() {}
