//@ unit u_digits : power-of-two radix digit export (bit regrouping, aligned widths): to_bitwise_digits_le (src/biguint/convert.rs)
#![feature(allocator_api)]
use vstd::prelude::*;
use vstd::std_specs::iter::IteratorSpec;
use vstd::arithmetic::power2::pow2;
verus! {
//@ include prelude/core.rs
//@ include prelude/std_specs.rs
//@ include prelude/highbits.rs
//@ include prelude/bitval.rs
//@ include prelude/radixval.rs
pub mod u {
use super::*;

pub mod big_digit {
    use vstd::prelude::*;
    pub type BigDigit = u64;
//@ extract src/lib.rs :: mod big_digit :: const BITS
    pub(crate) const BITS: u8 = BigDigit::BITS as u8;
//@ end
}

//@ extract src/biguint.rs :: struct BigUint
pub struct BigUint {
    data: Vec<BigDigit>,
}
//@ end
//@ include prelude/biguint_view.rs
pub open spec fn p2(k: nat) -> nat { pow2(k) }
impl BigUint {
//@ extract src/biguint.rs :: impl BigUint :: const ZERO rules=R9,R13 label=BigUint_ZERO
    exec const ZERO: Self /*+*/ensures Self::ZERO.data@.len() == 0 /*-*/{ BigUint { data: Vec::new() } }
//@ end
//@ stub u_conv/bits
//@ stub u_core/is_zero
}
//@ stub u_core/biguint_from_vec

//@ assume __cap_hint : rule R12m: capacity hint computed through num_integer::Integer::div_ceil / num_traits::ToPrimitive on u64 (external crates); no property of the value is used
#[verifier::external_body]
fn __cap_hint(a: u64, b: u64) -> (r: usize)
{ unimplemented!() }

/// one output digit of `bits` bits taken from the running remainder r = d / 2^(bits*t)
pub proof fn lemma_take_digit(d: u64, r: u64, bits: u8, t: nat)
    requires 1 <= bits <= 8, bits as nat * t < 64, r as nat == (d as nat) / p2(bits as nat * t)
    ensures
        ((r & (((1u64 << bits) - 1) as u64)) as nat) == ((d as nat) / p2(bits as nat * t)) % p2(bits as nat),
        (r & (((1u64 << bits) - 1) as u64)) < 256,
        ((r >> bits) as nat) == (d as nat) / p2(bits as nat * (t + 1)),
        (d as nat) % p2(bits as nat * (t + 1)) == (d as nat) % p2(bits as nat * t) + (((d as nat) / p2(bits as nat * t)) % p2(bits as nat)) * p2(bits as nat * t),
{
    let b = bits as u64;
    vstd::arithmetic::power2::lemma2_to64();
    vstd::bits::lemma_u64_shr_is_div(r, b);
    vstd::bits::lemma_u64_low_bits_mask_is_mod(r, bits as nat);
    assert(vstd::bits::low_bits_mask(bits as nat) == p2(bits as nat) - 1) by { reveal(vstd::bits::low_bits_mask); }
    assert(1 * p2(b as nat) <= u64::MAX) by { vstd::arithmetic::power2::lemma_pow2_strictly_increases(b as nat, 64); }
    vstd::bits::lemma_u64_shl_is_mul(1u64, b);
    assert((r & (((1u64 << b) - 1) as u64)) < 256) by (bit_vector) requires 1 <= b <= 8;
    lemma_mod_pow2_split(d as nat, bits as nat * t, bits as nat);
    assert(bits as nat * t + bits as nat == bits as nat * (t + 1)) by (nonlinear_arith);
}

/// 2^bits as a u32 shift for 1 <= bits <= 8
pub proof fn lemma_p2_small(bits: u8)
    requires 1 <= bits <= 8
    ensures (1u32 << bits) as nat == p2(bits as nat)
{
    vstd::arithmetic::power2::lemma2_to64();
    assert((1u32 << 1u8) == 2 && (1u32 << 2u8) == 4 && (1u32 << 3u8) == 8 && (1u32 << 4u8) == 16 && (1u32 << 5u8) == 32 && (1u32 << 6u8) == 64 && (1u32 << 7u8) == 128 && (1u32 << 8u8) == 256) by (bit_vector);
}


/// folding one more digit in from the top: acc' = acc * 2^bits + c
pub proof fn lemma_fold_digit(acc: u64, c: u8, bits: u8, n: nat)
    requires 1 <= bits <= 8, (acc as nat) < p2(bits as nat * n), bits as nat * (n + 1) <= 64, (c as nat) < p2(bits as nat)
    ensures (((acc << bits) | (c as u64)) as nat) == (acc as nat) * p2(bits as nat) + (c as nat)
{
    let b = bits as u64;
    let bn = bits as nat;
    vstd::arithmetic::power2::lemma2_to64();
    vstd::arithmetic::power2::lemma_pow2_adds(bn * n, bn);
    assert(bn * n + bn == bn * (n + 1)) by (nonlinear_arith);
    vstd::arithmetic::power2::lemma_pow2_pos(bn);
    if bn * (n + 1) < 64 { vstd::arithmetic::power2::lemma_pow2_strictly_increases(bn * (n + 1), 64); }
    assert((acc as nat) * p2(bn) <= u64::MAX) by (nonlinear_arith)
        requires (acc as nat) + 1 <= p2(bn * n), p2(bn * n) * p2(bn) <= 0x1_0000_0000_0000_0000, p2(bn) >= 1;
    vstd::bits::lemma_u64_shl_is_mul(acc, b);
    lemma_p2_small(bits);
    let cc = c as u64;
    assert((1u32 << bits) as u64 == (1u64 << b)) by (bit_vector) requires 1 <= bits <= 8, b == bits as u64;
    assert(((acc << b) | cc) == add(acc << b, cc)) by (bit_vector) requires 1 <= b <= 8, cc < (1u64 << b);
    assert((acc as nat) * p2(bn) + (c as nat) < 0x1_0000_0000_0000_0000) by (nonlinear_arith)
        requires (acc as nat) + 1 <= p2(bn * n), p2(bn * n) * p2(bn) <= 0x1_0000_0000_0000_0000, (c as nat) < p2(bn);
}

/// appending one digit at position n
pub proof fn lemma_valb_push(s: Seq<u8>, bits: nat, x: u8)
    ensures valb(s.push(x), bits, s.len() + 1) == valb(s, bits, s.len()) + (x as nat) * p2(bits * s.len())
{
    lemma_valb_ext(s.push(x), s, bits, s.len());
}

pub mod convert {
use super::*;
//@ extract src/biguint/convert.rs :: fn to_bitwise_digits_le rules=R0,R14,R12m,R10c props=C06,C09,C14
pub(super) fn to_bitwise_digits_le(u: &BigUint, bits: u8) -> /*+*/(res: /*-*/Vec<u8>/*+*/)/*-*/
//+{
    requires u.wf(), u.v() != 0, 1 <= bits <= 8, 64int % (bits as int) == 0
    ensures res@.len() >= 1, valb(res@, bits as nat, res@.len()) == u.v(),
        forall|i: int| 0 <= i < res@.len() ==> (#[trigger] res@[i] as nat) < p2(bits as nat),
        res@[res@.len() - 1] != 0,
        forall|i: int| 0 <= i < res@.len() ==> (#[trigger] res@[i] as u32) < (1u32 << bits),
//+}
{

//+{
    let ghost data = u.data@;
    let ghost bn = bits as nat;
    proof {
        lemma_wf_zero(data);
        vstd::arithmetic::power2::lemma2_to64();
        let b = bits as u64;
        assert(1 * p2(b as nat) <= u64::MAX) by { vstd::arithmetic::power2::lemma_pow2_strictly_increases(b as nat, 64); }
        vstd::bits::lemma_u64_shl_is_mul(1u64, b);
    }
//+}
    let last_i = u.data.len() - 1;
    let mask: BigDigit = (1 << bits) - 1;
    let digits_per_big_digit = big_digit::BITS / bits;
    let digits = __cap_hint(u.bits(), u64::from(bits));
    let mut res = Vec::with_capacity(digits);
//+{
    let ghost kk = digits_per_big_digit as nat;
    proof {
        assert(bn * kk == 64) by { if bits == 1 {} else if bits == 2 {} else if bits == 4 {} else if bits == 8 {} else { assert(false); } }
        assert(0 * kk == 0) by (nonlinear_arith);
    }
//+}

    { let mut i__ = 0 ; while i__ < last_i
//+{
        invariant
            data == u.data@, last_i == data.len() - 1, i__ <= last_i, 1 <= bits <= 8, bn == bits as nat, kk == digits_per_big_digit as nat, bn * kk == 64,
            mask == (((1u64 << bits) - 1) as u64),
            res@.len() == i__ * kk,
            valb(res@, bn, res@.len()) == valp(data, i__ as nat),
            forall|j: int| 0 <= j < res@.len() ==> (#[trigger] res@[j] as nat) < p2(bn),
        decreases last_i - i__
//+}
    { let mut r = u.data[i__] ; i__ += 1 ;
//+{
        let ghost d = r;
        let ghost base_len = res@.len();
        let ghost iv = (i__ - 1) as nat;
        proof {
            vstd::arithmetic::power2::lemma2_to64();
            assert(bn * 0 == 0) by (nonlinear_arith);
            assert(p2(bn * 0) == 1);
            assert((d as nat) / 1 == d as nat && (d as nat) % 1 == 0) by (nonlinear_arith);
            assert(0 * p2(64 * iv) == 0) by (nonlinear_arith);
            vstd::arithmetic::power2::lemma_pow2_pos(bn);
        }
//+}
        for _t in /*+*/it: /*-*/0..digits_per_big_digit
//+{
            invariant
                1 <= bits <= 8, bn == bits as nat, kk == digits_per_big_digit as nat, bn * kk == 64, mask == (((1u64 << bits) - 1) as u64),
                it.index@ <= kk, it.seq().len() == kk,
                res@.len() == base_len + it.index@, base_len == iv * kk,
                r as nat == (d as nat) / p2(bn * (it.index@ as nat)),
                valb(res@, bn, res@.len()) == valp(data, iv) + ((d as nat) % p2(bn * (it.index@ as nat))) * p2(64 * iv),
                forall|j: int| 0 <= j < res@.len() ==> (#[trigger] res@[j] as nat) < p2(bn),
//+}
        {
//+{
            let ghost t = it.index@ as nat;
            let ghost r0 = res@;
            proof {
                vstd::arithmetic::power2::lemma2_to64();
                vstd::arithmetic::power2::lemma_pow2_pos(bn);
                assert(bn * t < 64) by (nonlinear_arith) requires t < kk, bn * kk == 64, bn >= 1;
                lemma_take_digit(d, r, bits, t);
                vstd::arithmetic::div_mod::lemma_mod_bound((r as nat) as int, p2(bn) as int);
            }
//+}
            res.push((r & mask) as u8);
            r >>= bits;
//+{
            proof {
                let x = r0.len();
                lemma_valb_push(r0, bn, res@[x as int]);
                assert(res@ =~= r0.push(res@[x as int]));
                // position weight: bits * (iv*kk + t) == 64*iv + bits*t
                assert(bn * (iv * kk + t) == 64 * iv + bn * t) by (nonlinear_arith) requires bn * kk == 64;
                vstd::arithmetic::power2::lemma_pow2_adds(64 * iv, bn * t);
                let dg = ((d as nat) / p2(bn * t)) % p2(bn);
                assert(dg * (p2(64 * iv) * p2(bn * t)) == (dg * p2(bn * t)) * p2(64 * iv)) by (nonlinear_arith);
                let a1 = (d as nat) % p2(bn * t); let b1 = dg * p2(bn * t); let c1 = p2(64 * iv);
            assert((a1 + b1) * c1 == a1 * c1 + b1 * c1) by (nonlinear_arith);
            }
//+}
        }
//+{
        proof {
            // all 64 bits consumed: d % 2^64 == d
            vstd::arithmetic::power2::lemma2_to64();
            vstd::arithmetic::div_mod::lemma_small_mod(d as nat, p2(64));
            lemma_pw_p2_(iv);
            assert(valp(data, iv + 1) == valp(data, iv) + (data[iv as int] as nat) * pw(iv));
            assert((iv + 1) * kk == iv * kk + kk) by (nonlinear_arith);
        }
//+}
    } }

    let mut r = u.data[last_i];
//+{
    let ghost d = r;
    let ghost base_len = res@.len();
    let ghost iv = last_i as nat;
    let ghost t: nat = 0;
    proof {
        assert(bn * 0 == 0) by (nonlinear_arith);
        assert(p2(bn * 0) == 1);
        assert((d as nat) / 1 == d as nat && (d as nat) % 1 == 0) by (nonlinear_arith);
        assert(0 * p2(64 * iv) == 0) by (nonlinear_arith);
        vstd::arithmetic::power2::lemma_pow2_pos(bn);
    }
//+}
    while r != 0
//+{
        invariant
            1 <= bits <= 8, bn == bits as nat, kk == digits_per_big_digit as nat, bn * kk == 64, mask == (((1u64 << bits) - 1) as u64),
            res@.len() == base_len + t, base_len == iv * kk, bn * t <= 64,
            r as nat == (d as nat) / p2(bn * t),
            valb(res@, bn, res@.len()) == valp(data, iv) + ((d as nat) % p2(bn * t)) * p2(64 * iv),
            forall|j: int| 0 <= j < res@.len() ==> (#[trigger] res@[j] as nat) < p2(bn),
            t > 0 && r == 0 ==> res@[res@.len() - 1] != 0,
            d != 0, t == 0 ==> r == d,
        decreases r
//+}
    {
//+{
        let ghost r0 = res@;
        let ghost rr = r;
        proof {
            vstd::arithmetic::power2::lemma2_to64();
            vstd::arithmetic::power2::lemma_pow2_pos(bn);
            if bn * t >= 64 {
                assert(bn * t == 64);
                vstd::arithmetic::div_mod::lemma_basic_div(d as int, p2(bn * t) as int);
                assert(false);
            }
            lemma_take_digit(d, r, bits, t);
            vstd::arithmetic::div_mod::lemma_mod_bound((r as nat) as int, p2(bn) as int);
            let b = bits as u64;
            assert(rr != 0 && (rr >> b) == 0 ==> (rr & (((1u64 << b) - 1) as u64)) != 0) by (bit_vector) requires 1 <= b <= 8;
            assert(rr != 0 ==> (rr >> b) < rr) by (bit_vector) requires 1 <= b <= 8;
        }
//+}
        res.push((r & mask) as u8);
        r >>= bits;
//+{
        proof {
            let x = r0.len();
            lemma_valb_push(r0, bn, res@[x as int]);
            assert(res@ =~= r0.push(res@[x as int]));
            assert(bn * (iv * kk + t) == 64 * iv + bn * t) by (nonlinear_arith) requires bn * kk == 64;
            vstd::arithmetic::power2::lemma_pow2_adds(64 * iv, bn * t);
            let dg = ((d as nat) / p2(bn * t)) % p2(bn);
            assert(dg * (p2(64 * iv) * p2(bn * t)) == (dg * p2(bn * t)) * p2(64 * iv)) by (nonlinear_arith);
            let a1 = (d as nat) % p2(bn * t); let b1 = dg * p2(bn * t); let c1 = p2(64 * iv);
            assert((a1 + b1) * c1 == a1 * c1 + b1 * c1) by (nonlinear_arith);
            assert(t < kk) by (nonlinear_arith) requires bn * t < bn * kk, bn >= 1;
            assert(bn * (t + 1) <= bn * kk) by (nonlinear_arith) requires t + 1 <= kk;
            t = t + 1;
        }
//+}
    }
//+{
    proof {
        // r == 0: d < 2^(bits*t), so d % 2^(bits*t) == d
        vstd::arithmetic::power2::lemma_pow2_pos(bn * t);
        if (d as nat) >= p2(bn * t) { vstd::arithmetic::div_mod::lemma_div_non_zero(d as int, p2(bn * t) as int); }
        vstd::arithmetic::div_mod::lemma_small_mod(d as nat, p2(bn * t));
        lemma_pw_p2_(iv);
        assert(valp(data, iv + 1) == valp(data, iv) + (data[iv as int] as nat) * pw(iv));
    }
//+}

//+{
    proof { lemma_p2_small(bits); }
//+}
    res
}
//@ end
//@ extract src/biguint/convert.rs :: fn from_bitwise_digits_le rules=R0,R14,R26 props=C06,C09,C14
pub(super) fn from_bitwise_digits_le(v: &[u8], bits: u8) -> /*+*/(res: /*-*/BigUint/*+*/)/*-*/
//+{
    requires 1 <= bits <= 8, 64int % (bits as int) == 0, forall|i: int| 0 <= i < v@.len() ==> (#[trigger] v@[i] as nat) < p2(bits as nat)
    ensures res.wf(), res.v() == valb(v@, bits as nat, v@.len())
//+}
{

    let digits_per_big_digit = big_digit::BITS / bits;
//+{
    let ghost bn = bits as nat;
    let ghost kk = digits_per_big_digit as nat;
    let ghost vs = v@;
    proof {
        if bits == 3 { assert(64int % 3 != 0); } if bits == 5 { assert(64int % 5 != 0); } if bits == 6 { assert(64int % 6 != 0); } if bits == 7 { assert(64int % 7 != 0); }
        assert(bits == 1 || bits == 2 || bits == 4 || bits == 8);
        assert(bn * kk == 64) by { if bits == 1 {} else if bits == 2 {} else if bits == 4 {} else if bits == 8 {} }
        assert(kk >= 8) by { if bits == 1 {} else if bits == 2 {} else if bits == 4 {} else if bits == 8 {} }
        assert(bn * 0 == 0) by (nonlinear_arith);
        assert(0 * kk == 0) by (nonlinear_arith);
    }
//+}

    let data = { let mut out__ = Vec::new() ; let n__ : usize = digits_per_big_digit.into() ; let mut i__ = 0 ; while i__ < v.len()
//+{
        invariant
            vs == v@, 1 <= bits <= 8, bn == bits as nat, kk == digits_per_big_digit as nat, n__ == kk, bn * kk == 64, kk >= 8,
            i__ <= v.len(), i__ == out__@.len() * kk || i__ == v.len(), i__ <= out__@.len() * kk,
            val(out__@) == valb(vs, bn, i__ as nat),
            forall|i: int| 0 <= i < vs.len() ==> (#[trigger] vs[i] as nat) < p2(bn),
        decreases v.len() - i__
//+}
    { let e__ = if v.len() - i__ < n__ { v.len() } else { i__ + n__ } ; let chunk = &v[i__..e__] ; let mut acc = 0 ; let mut j__ = chunk.len() ;
//+{
        let ghost cs = chunk@;
        let ghost cl = cs.len();
        let ghost o0 = out__@;
        proof {
            assert(cs =~= vs.subrange(i__ as int, e__ as int));
            assert(cs.subrange(cl as int, cl as int) =~= Seq::<u8>::empty());
            vstd::arithmetic::power2::lemma2_to64();
            assert(bn * 0 == 0) by (nonlinear_arith);
        }
//+}
        while j__ > 0
//+{
            invariant
                cs == chunk@, cl == cs.len(), cl <= kk, j__ <= cl, 1 <= bits <= 8, bn == bits as nat, bn * kk == 64,
                acc as nat == valb(cs.subrange(j__ as int, cl as int), bn, (cl - j__) as nat),
                (acc as nat) < p2(bn * ((cl - j__) as nat)),
                forall|i: int| 0 <= i < cl ==> (#[trigger] cs[i] as nat) < p2(bn),
            decreases j__
//+}
        { j__ -= 1 ; let c = chunk[j__] ;
//+{
            proof {
                let n = (cl - j__ - 1) as nat;
                assert(bn * (n + 1) <= bn * kk) by (nonlinear_arith) requires n + 1 <= kk;
                lemma_fold_digit(acc, c, bits, n);
                let sub = cs.subrange(j__ as int, cl as int);
                lemma_valb_cons(sub, bn, n + 1);
                assert(sub.subrange(1, sub.len() as int) =~= cs.subrange(j__ + 1, cl as int));
                assert(p2(bn) * valb(cs.subrange(j__ + 1, cl as int), bn, n) == valb(cs.subrange(j__ + 1, cl as int), bn, n) * p2(bn)) by (nonlinear_arith);
                assert forall|i: int| 0 <= i < n + 1 implies (#[trigger] sub[i] as nat) < p2(bn) by { assert(sub[i] == cs[j__ + i]); }
                lemma_valb_bound(sub, bn, n + 1);
            }
//+}
            acc = (acc << bits) | BigDigit::from(c) ; }
//+{
        proof {
            assert(cs.subrange(0, cl as int) =~= cs);
            lemma_valb_split(vs, bn, i__ as nat, cl);
            lemma_valb_ext(vs.subrange(i__ as int, vs.len() as int), cs, bn, cl);
            lemma_val_push(o0, acc);
            lemma_pw_p2_(o0.len());
            assert(bn * (i__ as nat) == 64 * o0.len()) by (nonlinear_arith) requires i__ == o0.len() * kk, bn * kk == 64;
            assert((o0.len() + 1) * kk == o0.len() * kk + kk) by (nonlinear_arith);
        }
//+}
        out__.push(acc) ; i__ = e__ ; } out__ };

    biguint_from_vec(data)
}
//@ end
} // mod convert

/// big-endian value of digits in base 2^bits: the reverse of the little-endian digits
pub open spec fn rev8(s: Seq<u8>) -> Seq<u8> { Seq::new(s.len(), |i: int| s[s.len() - 1 - i]) }

impl BigUint {
//@ extract src/biguint.rs :: impl BigUint :: fn to_bytes_le props=C09,C04
    pub fn to_bytes_le(&self) -> /*+*/(res: /*-*/Vec<u8>/*+*/)/*-*/
//+{
        requires self.wf()
        ensures res@.len() >= 1, valb(res@, 8, res@.len()) == self.v(),
            self.v() == 0 ==> res@ =~= seq![0u8],
            self.v() != 0 ==> res@[res@.len() - 1] != 0,
//+}
    {
        if self.is_zero() {
//+{
            proof { assert(valb(seq![0u8], 8, 1) == valb(seq![0u8], 8, 0) + 0 * p2(8 * 0)); assert(0 * p2(8 * 0) == 0) by (nonlinear_arith); }
//+}
            /*+*/let r = /*-*/vec![0]/*+*/; proof { assert(r@ =~= seq![0u8]); } r/*-*/
        } else {
            convert::to_bitwise_digits_le(self, 8)
        }
    }
//@ end

//@ extract src/biguint.rs :: impl BigUint :: fn to_bytes_be props=C09,C04
    pub fn to_bytes_be(&self) -> /*+*/(res: /*-*/Vec<u8>/*+*/)/*-*/
//+{
        requires self.wf()
        ensures res@.len() >= 1, valb(rev8(res@), 8, res@.len()) == self.v(),
            self.v() == 0 ==> res@ =~= seq![0u8],
            self.v() != 0 ==> res@[0] != 0,
//+}
    {
        let mut v = self.to_bytes_le();
//+{
        let ghost le = v@;
//+}
        v.reverse();
//+{
        proof { assert(rev8(v@) =~= le); }
//+}
        v
    }
//@ end
}


impl BigUint {
//@ extract src/biguint.rs :: impl BigUint :: fn from_bytes_le props=C09,C04
    pub fn from_bytes_le(bytes: &[u8]) -> /*+*/(res: /*-*/BigUint/*+*/)/*-*/
//+{
        ensures res.wf(), res.v() == valb(bytes@, 8, bytes@.len())
//+}
    {
//+{
        proof { vstd::arithmetic::power2::lemma2_to64(); }
//+}
        if bytes.is_empty() {
            Self::ZERO
        } else {
            convert::from_bitwise_digits_le(bytes, 8)
        }
    }
//@ end

//@ extract src/biguint.rs :: impl BigUint :: fn from_bytes_be props=C09,C04
    pub fn from_bytes_be(bytes: &[u8]) -> /*+*/(res: /*-*/BigUint/*+*/)/*-*/
//+{
        ensures res.wf(), res.v() == valb(rev8(bytes@), 8, bytes@.len())
//+}
    {
        if bytes.is_empty() {
            Self::ZERO
        } else {
            let mut v = bytes.to_vec();
            v.reverse();
//+{
            proof { assert(v@ =~= rev8(bytes@)); }
//+}
            BigUint::from_bytes_le(&v)
        }
    }
//@ end
}

} // mod u
} // verus!
fn main() {}
