// Local model of an f64 value (rule R54; Verus has no floating point). A value is not-finite (NaN, +-infinity) or finite;
// a finite value has a mathematical value whose truncation toward zero is `ival()`; `integral()` says the value is a whole
// number. The helpers carry the IEEE-754 / std / num_traits semantics of the few operations from_f64 uses.
//@ assume MF64 : model type of an f64 value (opaque)
#[verifier::external_body]
#[derive(Clone, Copy)]
pub struct MF64 { _b: u64 }
impl MF64 {
    pub uninterp spec fn finite(self) -> bool;
    pub uninterp spec fn integral(self) -> bool;
    /// the value truncated toward zero (meaningful for finite values)
    pub uninterp spec fn ival(self) -> int;
    //@ assume f64::is_finite : std: neither NaN nor infinite
    #[verifier::external_body]
    pub fn is_finite(self) -> (r: bool)
        ensures r == self.finite()
    { unimplemented!() }
    //@ assume f64::trunc : std: the integer part, rounding toward zero (finite stays finite)
    #[verifier::external_body]
    pub fn trunc(self) -> (r: MF64)
        ensures r.finite() == self.finite(), self.finite() ==> r.integral() && r.ival() == self.ival()
    { unimplemented!() }
    //@ assume num_traits::<f64 as Zero>::is_zero : external crate: `*self == 0.0` (true for +0.0 and -0.0)
    #[verifier::external_body]
    pub fn is_zero(&self) -> (r: bool)
        ensures self.finite() && self.integral() ==> r == (self.ival() == 0)
    { unimplemented!() }
    //@ assume f64::ge(0.0) : IEEE comparison `n >= 0.0`: false for NaN; for finite values true exactly for non-negative ones (a value in (-1, 0) truncates to 0 but compares below zero)
    #[verifier::external_body]
    pub fn ge0(self) -> (r: bool)
        ensures self.finite() ==> (r ==> self.ival() >= 0) && (!r ==> self.ival() <= 0), !self.finite() && r ==> true
    { unimplemented!() }
    //@ assume f64::neg : IEEE negation: exact, finite stays finite
    #[verifier::external_body]
    pub fn neg(self) -> (r: MF64)
        ensures r.finite() == self.finite(), r.ival() == -self.ival(), r.integral() == self.integral()
    { unimplemented!() }
}
//@ assume num_traits::FloatCore::integer_decode(f64) : external crate: (mantissa, exponent, sign) with value == sign * mantissa * 2^exponent exactly, mantissa < 2^53, sign = +-1; stated here for finite whole numbers other than zero
#[verifier::external_body]
pub fn __integer_decode(n: MF64) -> (r: (u64, i16, i8))
    requires n.finite()
    ensures
        r.2 == 1 || r.2 == -1,
        -1100 < r.1 < 1100,
        r.0 < 0x20_0000_0000_0000,
        n.integral() && n.ival() != 0 ==> ({
            let m = r.0 as int; let e = r.1 as int; let s = r.2 as int;
            &&& (e >= 0 ==> s * (m * vstd::arithmetic::power2::pow2(e as nat) as int) == n.ival())
            &&& (e < 0 ==> m % (vstd::arithmetic::power2::pow2((-e) as nat) as int) == 0 && s * (m / (vstd::arithmetic::power2::pow2((-e) as nat) as int)) == n.ival())
        }),
{ unimplemented!() }
//@ assume i16::cmp : std: total order on i16
#[verifier::external_body]
pub fn __i16_cmp(a: i16, b: i16) -> (r: core::cmp::Ordering)
    ensures r == (if a < b { core::cmp::Ordering::Less } else if a == b { core::cmp::Ordering::Equal } else { core::cmp::Ordering::Greater })
{ unimplemented!() }

// ---- float tails of to_f64 / to_f32 (rule R56): the IEEE operations are named by uninterpreted functions, so a contract
// can say WHICH float is returned (cast of the 64-bit round-to-odd mantissa, times an exact power of two) without
// interpreting the rounding itself.
pub uninterp spec fn fcast64(m: u64) -> MF64;
pub uninterp spec fn fpow2_64(e: i32) -> MF64;
pub uninterp spec fn fmul64(a: MF64, b: MF64) -> MF64;
pub uninterp spec fn finf64() -> MF64;
pub uninterp spec fn fneg64(a: MF64) -> MF64;
impl MF64 {
    //@ assume f64::mul : IEEE multiplication (named, not interpreted)
    #[verifier::external_body]
    pub fn mul(self, other: MF64) -> (r: MF64)
        ensures r == fmul64(self, other)
    { unimplemented!() }
    //@ assume f64::neg(named) : IEEE negation (named, not interpreted)
    #[verifier::external_body]
    pub fn negf(self) -> (r: MF64)
        ensures r == fneg64(self)
    { unimplemented!() }
}
//@ assume u64_as_f64 : `m as f64`: IEEE round-to-nearest-even conversion (named, not interpreted)
#[verifier::external_body]
pub fn __u64_as_f64(m: u64) -> (r: MF64)
    ensures r == fcast64(m)
{ unimplemented!() }
//@ assume f64::powi(2.0) : `2.0f64.powi(e)`: the power of two (named, not interpreted)
#[verifier::external_body]
pub fn __f64_pow2(e: i32) -> (r: MF64)
    ensures r == fpow2_64(e)
{ unimplemented!() }
//@ assume f64::INFINITY : the constant
#[verifier::external_body]
pub fn __f64_infinity() -> (r: MF64)
    ensures r == finf64()
{ unimplemented!() }
//@ assume MF32 : model type of an f32 value (opaque)
#[verifier::external_body]
#[derive(Clone, Copy)]
pub struct MF32 { _b: u32 }
pub uninterp spec fn fcast32(m: u64) -> MF32;
pub uninterp spec fn fpow2_32(e: i32) -> MF32;
pub uninterp spec fn fmul32(a: MF32, b: MF32) -> MF32;
pub uninterp spec fn finf32() -> MF32;
pub uninterp spec fn fneg32(a: MF32) -> MF32;
impl MF32 {
    //@ assume f32::mul : IEEE multiplication (named, not interpreted)
    #[verifier::external_body]
    pub fn mul(self, other: MF32) -> (r: MF32)
        ensures r == fmul32(self, other)
    { unimplemented!() }
    //@ assume f32::neg(named) : IEEE negation (named, not interpreted)
    #[verifier::external_body]
    pub fn negf(self) -> (r: MF32)
        ensures r == fneg32(self)
    { unimplemented!() }
}
//@ assume u64_as_f32 : `m as f32`: IEEE round-to-nearest-even conversion (named, not interpreted)
#[verifier::external_body]
pub fn __u64_as_f32(m: u64) -> (r: MF32)
    ensures r == fcast32(m)
{ unimplemented!() }
//@ assume f32::powi(2.0) : `2.0f32.powi(e)`: the power of two (named, not interpreted)
#[verifier::external_body]
pub fn __f32_pow2(e: i32) -> (r: MF32)
    ensures r == fpow2_32(e)
{ unimplemented!() }
//@ assume f32::INFINITY : the constant
#[verifier::external_body]
pub fn __f32_infinity() -> (r: MF32)
    ensures r == finf32()
{ unimplemented!() }
