//@ unit u_int : BigUint Integer helpers: lcm, gcd_lcm, is_multiple_of, next/prev_multiple_of (src/biguint.rs)
#![feature(allocator_api)]
use vstd::prelude::*;
use vstd::std_specs::iter::IteratorSpec;
use vstd::std_specs::ops::*;
use core::ops::{Add, Sub, Mul, Div, Rem};
verus! {
//@ include prelude/core.rs
//@ include prelude/std_specs.rs
//@ include prelude/panic.rs
pub mod u {
use super::*;

//@ extract src/biguint.rs :: struct BigUint
pub struct BigUint {
    data: Vec<BigDigit>,
}
//@ end
//@ include prelude/biguint_view.rs
//@ include prelude/gcdspec.rs

impl BigUint {
//@ extract src/biguint.rs :: impl BigUint :: const ZERO rules=R9,R13 label=BigUint_ZERO
    exec const ZERO: Self /*+*/ensures Self::ZERO.data@.len() == 0 /*-*/{ BigUint { data: Vec::new() } }
//@ end
//@ stub u_core/is_zero
//@ stub u_core/clone
//@ stub u_gcd/gcd
//@ stub u_divapi/mod_floor
}

// operator forms used here; forwarders / leaves with the canonical contracts (C10 / units u_addsub, u_divapi)
impl AddSpecImpl<BigUint> for &BigUint {
    open spec fn obeys_add_spec() -> bool { false }
    open spec fn add_req(self, rhs: BigUint) -> bool { self.wf() && rhs.wf() }
    open spec fn add_spec(self, rhs: BigUint) -> BigUint { arbitrary() }
}
impl Add<BigUint> for &BigUint {
    type Output = BigUint;
    //@ assume BigUint:Add<BigUint>for&BigUint : forwarder (engine F) to the canonical addition proved in u_addsub
    #[verifier::external_body]
    fn add(self, other: BigUint) -> (r: BigUint) ensures r.wf(), r.v() == self.v() + other.v() { unimplemented!() }
}
impl SubSpecImpl<BigUint> for &BigUint {
    open spec fn obeys_sub_spec() -> bool { false }
    open spec fn sub_req(self, rhs: BigUint) -> bool { self.wf() && rhs.wf() && (!mp() ==> self.v() >= rhs.v()) }
    open spec fn sub_spec(self, rhs: BigUint) -> BigUint { arbitrary() }
}
impl Sub<BigUint> for &BigUint {
    type Output = BigUint;
//@ stub u_addsub/sub_ref_val
}
impl DivSpecImpl<BigUint> for &BigUint {
    open spec fn obeys_div_spec() -> bool { false }
    open spec fn div_req(self, rhs: BigUint) -> bool { self.wf() && rhs.wf() && (!mp() ==> rhs.v() != 0) }
    open spec fn div_spec(self, rhs: BigUint) -> BigUint { arbitrary() }
}
impl Div<BigUint> for &BigUint {
    type Output = BigUint;
    //@ assume BigUint:Div<BigUint>for&BigUint : forwarder (engine F) to Div<&BigUint> for &BigUint (proved in u_divapi against div_rem_ref)
    #[verifier::external_body]
    fn div(self, other: BigUint) -> (r: BigUint)
        ensures mp() ==> other.v() != 0, r.wf(), exists|m: nat| udiv_ok(self.v(), other.v(), r.v(), m)
    { unimplemented!() }
}
impl DivSpecImpl<&BigUint> for &BigUint {
    open spec fn obeys_div_spec() -> bool { false }
    open spec fn div_req(self, rhs: &BigUint) -> bool { self.wf() && rhs.wf() && (!mp() ==> rhs.v() != 0) }
    open spec fn div_spec(self, rhs: &BigUint) -> BigUint { arbitrary() }
}
impl Div<&BigUint> for &BigUint {
    type Output = BigUint;
//@ stub u_divapi/div_ref_ref
}
impl RemSpecImpl<&BigUint> for &BigUint {
    open spec fn obeys_rem_spec() -> bool { false }
    open spec fn rem_req(self, rhs: &BigUint) -> bool { self.wf() && rhs.wf() && (!mp() ==> rhs.v() != 0) }
    open spec fn rem_spec(self, rhs: &BigUint) -> BigUint { arbitrary() }
}
impl Rem<&BigUint> for &BigUint {
    type Output = BigUint;
//@ stub u_divscalar/rem_ref_ref
}
impl MulSpecImpl<&BigUint> for BigUint {
    open spec fn obeys_mul_spec() -> bool { false }
    open spec fn mul_req(self, rhs: &BigUint) -> bool { self.wf() && rhs.wf() }
    open spec fn mul_spec(self, rhs: &BigUint) -> BigUint { arbitrary() }
}
impl Mul<&BigUint> for BigUint {
    type Output = BigUint;
//@ stub u_mul/mul_vr
}

impl BigUint {
    // contract-only re-homing of `impl Integer for BigUint` (num_integer::Integer is an external trait)
//@ extract src/biguint.rs :: impl Integer for BigUint :: fn lcm rules=R0,R3n3 props=C13
    fn lcm(&self, other: &BigUint) -> /*+*/(r: /*-*/BigUint/*+*/)/*-*/
//+{
        requires self.wf(), other.wf()
        ensures r.wf(), is_lcm_via_gcd(self.v(), other.v(), r.v())
//+}
    {
//+{
        proof { lemma_gcd_nonzero(self.v(), other.v()); lemma_lcm_all(self.v(), other.v()); }
//+}
        if self.is_zero() && other.is_zero() {
            Self::ZERO
        } else {
            Mul::mul(Div::div(self, self.gcd(other)), other)
        }
    }
//@ end

//@ extract src/biguint.rs :: impl Integer for BigUint :: fn gcd_lcm rules=R0,R3n4 props=C13
    fn gcd_lcm(&self, other: &Self) -> /*+*/(r: /*-*/(Self, Self)/*+*/)/*-*/
//+{
        requires self.wf(), other.wf()
        ensures r.0.wf(), r.1.wf(), is_gcd(self.v(), other.v(), r.0.v()), is_lcm_via_gcd(self.v(), other.v(), r.1.v())
//+}
    {
//+{
        proof { lemma_gcd_nonzero(self.v(), other.v()); lemma_lcm_all(self.v(), other.v()); lemma_divides_zero(self.v()); lemma_divides_zero(other.v()); }
//+}
        let gcd = self.gcd(other);
        let lcm = if gcd.is_zero() {
            Self::ZERO
        } else {
            Mul::mul(Div::div(self, &gcd), other)
        };
        (gcd, lcm)
    }
//@ end

//@ extract src/biguint.rs :: impl Integer for BigUint :: fn is_multiple_of rules=R0,R3n5 props=C13
    fn is_multiple_of(&self, other: &BigUint) -> /*+*/(r: /*-*/bool/*+*/)/*-*/
//+{
        requires self.wf(), other.wf()
        ensures r == divides(other.v(), self.v())
//+}
    {
//+{
        proof { lemma_divides_zero(self.v()); lemma_rem_zero_iff_divides(self.v(), other.v()); }
//+}
        if other.is_zero() {
            return self.is_zero();
        }
        (Rem::rem(self, other)).is_zero()
    }
//@ end

//@ extract src/biguint.rs :: impl Integer for BigUint :: fn divides props=C13 label=biguint_divides
    fn divides(&self, other: &BigUint) -> /*+*/(r: /*-*/bool/*+*/)/*-*/
//+{
        requires self.wf(), other.wf()
        ensures r == divides(other.v(), self.v())
//+}
    {
        self.is_multiple_of(other)
    }
//@ end

//@ extract src/biguint.rs :: impl Integer for BigUint :: fn next_multiple_of rules=R0,R3n1 props=C13,C14
    fn next_multiple_of(&self, other: &Self) -> /*+*/(r: /*-*/Self/*+*/)/*-*/
//+{
        requires self.wf(), other.wf(), !mp() ==> other.v() != 0
        ensures mp() ==> other.v() != 0, r.wf(), r.v() >= self.v(), r.v() - self.v() < other.v(), divides(other.v(), r.v())
//+}
    {
//+{
        proof { lemma_prev_multiple(self.v(), other.v()); lemma_rem_zero_iff_divides(self.v(), other.v()); }
//+}
        let m = self.mod_floor(other);
        if m.is_zero() {
            self.clone()
        } else {
            Add::add(self, Sub::sub(other, m))
        }
    }
//@ end

//@ extract src/biguint.rs :: impl Integer for BigUint :: fn prev_multiple_of rules=R0,R3n2 props=C13,C14
    fn prev_multiple_of(&self, other: &Self) -> /*+*/(r: /*-*/Self/*+*/)/*-*/
//+{
        requires self.wf(), other.wf(), !mp() ==> other.v() != 0
        ensures mp() ==> other.v() != 0, r.wf(), r.v() <= self.v(), self.v() - r.v() < other.v(), divides(other.v(), r.v())
//+}
    {
//+{
        proof { lemma_prev_multiple(self.v(), other.v()); }
//+}
        Sub::sub(self, self.mod_floor(other))
    }
//@ end
}

} // mod u
} // verus!
fn main() {}
