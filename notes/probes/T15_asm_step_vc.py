import re, sys
from z3 import *
src = open('/repo/src/biguint/addition.rs').read()
m = re.search(r'asm!\((.*?)\n\s*\);', src, re.S)
body = m.group(1)
lines = re.findall(r'^\s*"([^"]*)",', body, re.M)
ops = re.findall(r'^\s*(\w+)\s*=\s*(in|out|inout|lateout)\((\w+)\)\s*([^,]*),', body, re.M)
print(len(lines), 'template lines;', ops[:5])
W = 64
# symbolic state
def step_proof():
    s = Solver()
    k, n = Ints('k n')
    A0 = Array('A0', IntSort(), BitVecSort(W)); B0 = Array('B0', IntSort(), BitVecSort(W))
    A = Array('A', IntSort(), BitVecSort(W))
    carry_at = Function('carry_at', IntSort(), BoolSort())
    def sumd(j): return A0[j] + B0[j] + If(carry_at(j), BitVecVal(1,W), BitVecVal(0,W))
    def cnext(j):
        a = ZeroExt(2, A0[j]); b = ZeroExt(2, B0[j]); c = If(carry_at(j), BitVecVal(1,W+2), BitVecVal(0,W+2))
        return Extract(W, W, a + b + c) == 1
    # invariant at loop head
    s.add(n >= 1, k >= 0, k < n)
    j = Int('j')
    s.add(ForAll([j], Implies(And(j >= 5*k), A[j] == A0[j])))
    # chain axioms only where needed
    for i in range(5):
        s.add(carry_at(5*k+i+1) == cnext(5*k+i))
    regs = {'idx': 5*k, 'size': n - k}
    CF = carry_at(5*k); ZF = Bool('zf0')
    mem = {'a': A, 'b': B0}
    accesses = []
    tmp = {}
    def addr(txt):
        mm = re.match(r'qword ptr \[\{(\w+)\} \+ 8\*\{idx\}(?: \+ (\d+))?\]', txt)
        base = mm.group(1); d = int(mm.group(2) or 0)
        assert d % 8 == 0
        return base, regs['idx'] + d//8
    pc = lines.index('3:') + 1
    while True:
        ins = lines[pc]; pc += 1
        op, _, rest = ins.partition(' ')
        args = [x.strip() for x in rest.split(',')] if rest else []
        if op == 'mov':
            if args[1].startswith('qword'):
                base, idx = addr(args[1]); accesses.append((base, idx, 'r'))
                tmp[args[0]] = mem[base][idx]
            else:
                base, idx = addr(args[0]); accesses.append((base, idx, 'w'))
                assert base == 'a'
                mem[base] = Store(mem[base], idx, tmp[args[1]])
        elif op == 'adc':
            x = ZeroExt(2, tmp[args[0]]); y = ZeroExt(2, tmp[args[1]]); c = If(CF, BitVecVal(1,W+2), BitVecVal(0,W+2))
            r = x + y + c
            tmp[args[0]] = Extract(W-1, 0, r); CF = Extract(W, W, r) == 1
        elif op == 'inc':
            regs[args[0].strip('{}')] = regs[args[0].strip('{}')] + 1
        elif op == 'dec':
            regs[args[0].strip('{}')] = regs[args[0].strip('{}')] - 1; ZF = regs[args[0].strip('{}')] == 0
        elif op == 'jnz':
            break
        else:
            raise Exception(ins)
    # obligations
    goals = []
    for base, idx, rw in accesses:
        goals.append(('bounds', And(idx >= 0, idx < 5*n)))
    goals.append(('idx', regs['idx'] == 5*(k+1)))
    goals.append(('size', regs['size'] == n - (k+1)))
    goals.append(('cf', CF == carry_at(5*(k+1))))
    for i in range(5):
        goals.append(('digit%d'%i, mem['a'][5*k+i] == sumd(5*k+i)))
    jj = Int('jj')
    goals.append(('frame', ForAll([jj], Implies(jj >= 5*(k+1), mem['a'][jj] == A0[jj]))))
    goals.append(('exit-iff', (Not(ZF)) == (k+1 < n)))
    for name, g in goals:
        s.push(); s.add(Not(g)); r = s.check(); s.pop()
        print(name, 'PROVED' if r == unsat else r)
step_proof()
