#!/bin/sh
# Offline setup: nothing to download. Pre-builds the replay driver (used only after a failed obligation)
# and checks that the tools are present.
set -e
cd "$(dirname "$0")"
command -v verus >/dev/null
command -v python3-vt >/dev/null
python3-vt -c "import z3"
mkdir -p build evidence replay/out
python3-vt -c "import sys; sys.path.insert(0,'tools'); import replay; b,e=replay.build_driver('${VERIF_REPO:-/repo}'); print('replay driver:', b or e)" || true
echo setup ok
