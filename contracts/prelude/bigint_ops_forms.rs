// BigInt operator forms used by BigInt-level algorithms. `proved` = contract discharged in the named unit;
// `leaf/forwarder` = scalar leaf or macro forwarder, agreement with the canonical form is C10's business (engine F + leaf units).
impl AddSpecImpl<&BigInt> for BigInt {
    open spec fn obeys_add_spec() -> bool { false }
    open spec fn add_req(self, rhs: &BigInt) -> bool { self.wfi() && rhs.wfi() }
    open spec fn add_spec(self, rhs: &BigInt) -> BigInt { arbitrary() }
}
impl Add<&BigInt> for BigInt {
    type Output = BigInt;
//@ stub i_addsub/add_vr
}
impl SubSpecImpl<&BigInt> for BigInt {
    open spec fn obeys_sub_spec() -> bool { false }
    open spec fn sub_req(self, rhs: &BigInt) -> bool { self.wfi() && rhs.wfi() }
    open spec fn sub_spec(self, rhs: &BigInt) -> BigInt { arbitrary() }
}
impl Sub<&BigInt> for BigInt {
    type Output = BigInt;
//@ stub i_addsub/sub_vr
}
impl SubSpecImpl<BigInt> for &BigInt {
    open spec fn obeys_sub_spec() -> bool { false }
    open spec fn sub_req(self, rhs: BigInt) -> bool { self.wfi() && rhs.wfi() }
    open spec fn sub_spec(self, rhs: BigInt) -> BigInt { arbitrary() }
}
impl Sub<BigInt> for &BigInt {
    type Output = BigInt;
//@ stub i_addsub/sub_rv
}
impl AddSpecImpl<u32> for BigInt {
    open spec fn obeys_add_spec() -> bool { false }
    open spec fn add_req(self, rhs: u32) -> bool { self.wfi() }
    open spec fn add_spec(self, rhs: u32) -> BigInt { arbitrary() }
}
impl Add<u32> for BigInt {
    type Output = BigInt;
//@ stub i_scalar/add_u32
}
impl SubSpecImpl<u32> for BigInt {
    open spec fn obeys_sub_spec() -> bool { false }
    open spec fn sub_req(self, rhs: u32) -> bool { self.wfi() }
    open spec fn sub_spec(self, rhs: u32) -> BigInt { arbitrary() }
}
impl Sub<u32> for BigInt {
    type Output = BigInt;
//@ stub i_scalar/sub_u32
}
impl AddSpecImpl<i32> for BigInt {
    open spec fn obeys_add_spec() -> bool { false }
    open spec fn add_req(self, rhs: i32) -> bool { self.wfi() }
    open spec fn add_spec(self, rhs: i32) -> BigInt { arbitrary() }
}
impl Add<i32> for BigInt {
    type Output = BigInt;
//@ stub i_scalar/add_i32
}
impl SubSpecImpl<i32> for BigInt {
    open spec fn obeys_sub_spec() -> bool { false }
    open spec fn sub_req(self, rhs: i32) -> bool { self.wfi() }
    open spec fn sub_spec(self, rhs: i32) -> BigInt { arbitrary() }
}
impl Sub<i32> for BigInt {
    type Output = BigInt;
//@ stub i_scalar/sub_i32
}
