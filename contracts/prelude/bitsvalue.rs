// Value-level meaning of the bit length: a canonical number with top digit `top` has 64*(len-1) + nbits(top) bits.
// (needs prelude/highbits.rs, shiftnorm.rs, bitval.rs)
pub proof fn lemma_bits_value(s: Seq<u64>)
    requires wf(s), s.len() > 0
    ensures ({
        let t = (64 * (s.len() - 1) + nbits(s[s.len() - 1])) as nat;
        &&& t >= 1
        &&& val(s) < vstd::arithmetic::power2::pow2(t)
        &&& val(s) >= vstd::arithmetic::power2::pow2((t - 1) as nat)
    })
{
    let n1 = (s.len() - 1) as nat;
    let top = s[n1 as int];
    lemma_nbits_range(top);
    lemma_lz_scale(top);
    let lz = vstd::std_specs::bits::u64_leading_zeros(top) as nat;
    let nb = (64 - lz) as nat;
    vstd::arithmetic::power2::lemma2_to64();
    vstd::arithmetic::power2::lemma2_to64_rest();
    vstd::arithmetic::power2::lemma_pow2_adds(nb, lz);
    vstd::arithmetic::power2::lemma_pow2_adds((nb - 1) as nat, lz);
    vstd::arithmetic::power2::lemma_pow2_pos(lz);
    let pl = vstd::arithmetic::power2::pow2(lz);
    let pn = vstd::arithmetic::power2::pow2(nb);
    let pm = vstd::arithmetic::power2::pow2((nb - 1) as nat);
    assert(lz <= 63 && nb >= 1 && nb + lz == 64);
    assert(pn * pl == B());
    assert(pm * pl == 0x8000_0000_0000_0000nat);
    assert((top as nat) * pl >= 0x8000_0000_0000_0000nat);
    assert((top as nat) * pl < B());
    assert((top as nat) < pn) by (nonlinear_arith) requires (top as nat) * pl < pn * pl, pl > 0;
    assert((top as nat) >= pm) by (nonlinear_arith) requires (top as nat) * pl >= pm * pl, pl > 0;
    lemma_value_from_top(s);
    lemma_pw_p2_(n1);
    let pw1 = pw(n1);
    vstd::arithmetic::power2::lemma_pow2_adds(64 * n1, nb);
    vstd::arithmetic::power2::lemma_pow2_adds(64 * n1, (nb - 1) as nat);
    assert(((top as nat) + 1) * pw1 <= pn * pw1) by (nonlinear_arith) requires (top as nat) + 1 <= pn;
    assert((top as nat) * pw1 >= pm * pw1) by (nonlinear_arith) requires (top as nat) >= pm;
    assert(pn * pw1 == pw1 * pn) by (nonlinear_arith);
    assert(pm * pw1 == pw1 * pm) by (nonlinear_arith);
}
