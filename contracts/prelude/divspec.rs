// The four rounding conventions of C03, taken from the property statement, over mathematical integers.
pub open spec fn iabs(x: int) -> int { if x < 0 { -x } else { x } }
pub open spec fn same_sign_or_zero(r: int, a: int) -> bool { r == 0 || (r > 0 && a > 0) || (r < 0 && a < 0) }
/// truncation toward zero: remainder has the sign of the dividend
pub open spec fn is_trunc(a: int, b: int, q: int, r: int) -> bool { a == q * b + r && iabs(r) < iabs(b) && same_sign_or_zero(r, a) }
/// flooring: remainder has the sign of the divisor
pub open spec fn is_floor(a: int, b: int, q: int, m: int) -> bool { a == q * b + m && iabs(m) < iabs(b) && same_sign_or_zero(m, b) }
/// Euclidean: 0 <= r < |b|
pub open spec fn is_euclid(a: int, b: int, q: int, r: int) -> bool { a == q * b + r && 0 <= r < iabs(b) }
/// rounding up: the (negated) remainder has the sign opposite to the divisor
pub open spec fn is_ceil(a: int, b: int, q: int, r: int) -> bool { a == q * b + r && iabs(r) < iabs(b) && same_sign_or_zero(r, -b) }

pub proof fn lemma_mul_signs(x: int, y: int)
    ensures (-x) * y == -(x * y), x * (-y) == -(x * y), (-x) * (-y) == x * y,
        (x + 1) * y == x * y + y, (x - 1) * y == x * y - y, (-x - 1) * y == -(x * y) - y, (-x - 1) * (-y) == x * y + y,
        (-x + 1) * y == -(x * y) + y,
        x * 0 == 0, 0 * y == 0, 1 * y == y, (-1) * y == -y,
{
    assert((-x) * y == -(x * y)) by (nonlinear_arith);
    assert(x * (-y) == -(x * y)) by (nonlinear_arith);
    assert((-x) * (-y) == x * y) by (nonlinear_arith);
    assert((x + 1) * y == x * y + y) by (nonlinear_arith);
    assert((x - 1) * y == x * y - y) by (nonlinear_arith);
    assert((-x - 1) * y == -(x * y) - y) by (nonlinear_arith);
    assert((-x - 1) * (-y) == x * y + y) by (nonlinear_arith);
    assert((-x + 1) * y == -(x * y) + y) by (nonlinear_arith);
    assert(x * 0 == 0 && 0 * y == 0 && 1 * y == y && (-1) * y == -y) by (nonlinear_arith);
}

/// unsigned division result (A = Q*B + R, R < B) transported to the four sign combinations
pub proof fn lemma_signed_div(sa: Sign, sb: Sign, aa: nat, bb: nat, qq: nat, rr: nat)
    requires aa == qq * bb + rr, rr < bb, sb != Sign::NoSign, (sa == Sign::NoSign) <==> (aa == 0)
    ensures
        aa == 0 ==> qq == 0 && rr == 0,
        // truncation: q = +-(sa*Q) (negated when b < 0), r = sa*R
        is_trunc(sgn(sa) * (aa as int), sgn(sb) * (bb as int),
                 if sb == Sign::Minus { -(sgn(sa) * (qq as int)) } else { sgn(sa) * (qq as int) }, sgn(sa) * (rr as int)),
        // same sign (or zero dividend): floor = (Q, sb*R), ceil = Q or Q+1
        (sgn(sa) == sgn(sb) || sa == Sign::NoSign) ==> is_floor(sgn(sa) * (aa as int), sgn(sb) * (bb as int), qq as int, sgn(sb) * (rr as int)),
        (sgn(sa) == sgn(sb) || sa == Sign::NoSign) && rr == 0 ==> is_ceil(sgn(sa) * (aa as int), sgn(sb) * (bb as int), qq as int, 0),
        (sgn(sa) == sgn(sb) || sa == Sign::NoSign) && rr != 0 ==> is_ceil(sgn(sa) * (aa as int), sgn(sb) * (bb as int), qq as int + 1, sgn(sb) * (rr as int) - sgn(sb) * (bb as int)),
        // opposite signs
        (sgn(sa) == -sgn(sb) && sa != Sign::NoSign) && rr == 0 ==> is_floor(sgn(sa) * (aa as int), sgn(sb) * (bb as int), -(qq as int), 0),
        (sgn(sa) == -sgn(sb) && sa != Sign::NoSign) && rr != 0 ==> is_floor(sgn(sa) * (aa as int), sgn(sb) * (bb as int), -(qq as int) - 1, sgn(sb) * (bb as int) - sgn(sb) * (rr as int)),
        (sgn(sa) == -sgn(sb) && sa != Sign::NoSign) ==> is_ceil(sgn(sa) * (aa as int), sgn(sb) * (bb as int), -(qq as int), -(sgn(sb) * (rr as int))),
{
    let a = aa as int; let b = bb as int; let q = qq as int; let r = rr as int;
    lemma_sgn_mul(sa, aa); lemma_sgn_mul(sb, bb); lemma_sgn_mul(sa, qq); lemma_sgn_mul(sa, rr); lemma_sgn_mul(sb, rr);
    lemma_mul_signs(q, b);
    lemma_mul_signs(q, -b);
    assert(aa == 0 ==> qq == 0 && rr == 0) by (nonlinear_arith) requires aa == qq * bb + rr, rr < bb;
    if qq == 0 { lemma_mul_signs(0, b); }
}
