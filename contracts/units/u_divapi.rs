//@ unit u_divapi : BigUint division API on top of div_rem_ref: Integer, Euclid, Checked* (src/biguint.rs, src/biguint/division.rs)
#![feature(allocator_api)]
use vstd::prelude::*;
use vstd::std_specs::iter::IteratorSpec;
use vstd::std_specs::ops::*;
use core::ops::{Add, Div, Rem};
verus! {
//@ include prelude/core.rs
//@ include prelude/std_specs.rs
//@ include prelude/panic.rs
pub mod u {
use super::*;

//@ extract src/biguint.rs :: struct BigUint
pub struct BigUint {
    data: Vec<BigDigit>,
}
//@ end
//@ include prelude/biguint_view.rs
/// unsigned division: a = q*b + m with m < b
pub open spec fn udiv_ok(a: nat, b: nat, q: nat, m: nat) -> bool { a == q * b + m && m < b }
/// rounding up: q*b = a + t with t < b
pub open spec fn uceil_ok(a: nat, b: nat, q: nat, t: nat) -> bool { a + t == q * b && t < b }
impl BigUint {
//@ stub u_core/is_zero
}

pub mod division {
    use super::*;
//@ stub u_div/div_rem_ref
}

impl AddSpecImpl<u32> for BigUint {
    open spec fn obeys_add_spec() -> bool { false }
    open spec fn add_req(self, rhs: u32) -> bool { self.wf() }
    open spec fn add_spec(self, rhs: u32) -> BigUint { arbitrary() }
}
impl Add<u32> for BigUint {
    type Output = BigUint;
//@ stub u_scalar/add_u32
}
impl RemSpecImpl<&BigUint> for &BigUint {
    open spec fn obeys_rem_spec() -> bool { false }
    open spec fn rem_req(self, rhs: &BigUint) -> bool { self.wf() && rhs.wf() && (!mp() ==> rhs.v() != 0) }
    open spec fn rem_spec(self, rhs: &BigUint) -> BigUint { arbitrary() }
}
impl Rem<&BigUint> for &BigUint {
    type Output = BigUint;
//@ stub u_divscalar/rem_ref_ref
}
impl DivSpecImpl<&BigUint> for &BigUint {
    open spec fn obeys_div_spec() -> bool { false }
    open spec fn div_req(self, rhs: &BigUint) -> bool { self.wf() && rhs.wf() && (!mp() ==> rhs.v() != 0) }
    open spec fn div_spec(self, rhs: &BigUint) -> BigUint { arbitrary() }
}
impl Div<&BigUint> for &BigUint {
    type Output = BigUint;
//@ extract src/biguint/division.rs :: impl Div<&BigUint> for &BigUint :: fn div props=C03,C14 label=div_ref_ref
    fn div(self, other: &BigUint) -> /*+*/(r: /*-*/BigUint/*+*/)/*-*/
//+{
        ensures mp() ==> other.v() != 0, r.wf(), exists|m: nat| udiv_ok(self.v(), other.v(), r.v(), m)
//+}
    {
        let (q, _) = self.div_rem(other);
        q
    }
//@ end
}

impl BigUint {
    // contract-only re-homing of `impl Integer / Euclid / CheckedDiv / CheckedEuclid for BigUint` (external traits)
//@ extract src/biguint.rs :: impl Integer for BigUint :: fn div_rem props=C03,C14
    fn div_rem(&self, other: &BigUint) -> /*+*/(r: /*-*/(BigUint, BigUint)/*+*/)/*-*/
//+{
        requires self.wf(), other.wf(), !mp() ==> other.v() != 0
        ensures mp() ==> other.v() != 0, r.0.wf(), r.1.wf(), self.v() == r.0.v() * other.v() + r.1.v(), r.1.v() < other.v(), udiv_ok(self.v(), other.v(), r.0.v(), r.1.v())
//+}
    {
        division::div_rem_ref(self, other)
    }
//@ end

//@ extract src/biguint.rs :: impl Integer for BigUint :: fn div_floor props=C03,C14
    fn div_floor(&self, other: &BigUint) -> /*+*/(r: /*-*/BigUint/*+*/)/*-*/
//+{
        requires self.wf(), other.wf(), !mp() ==> other.v() != 0
        ensures mp() ==> other.v() != 0, r.wf(), exists|m: nat| udiv_ok(self.v(), other.v(), r.v(), m)
//+}
    {
        let (d, _) = division::div_rem_ref(self, other);
        d
    }
//@ end

//@ extract src/biguint.rs :: impl Integer for BigUint :: fn mod_floor props=C03,C14
    fn mod_floor(&self, other: &BigUint) -> /*+*/(r: /*-*/BigUint/*+*/)/*-*/
//+{
        requires self.wf(), other.wf(), !mp() ==> other.v() != 0
        ensures mp() ==> other.v() != 0, r.wf(), exists|q: nat| udiv_ok(self.v(), other.v(), q, r.v())
//+}
    {
        let (_, m) = division::div_rem_ref(self, other);
        m
    }
//@ end

//@ extract src/biguint.rs :: impl Integer for BigUint :: fn div_mod_floor props=C03,C14
    fn div_mod_floor(&self, other: &BigUint) -> /*+*/(r: /*-*/(BigUint, BigUint)/*+*/)/*-*/
//+{
        requires self.wf(), other.wf(), !mp() ==> other.v() != 0
        ensures mp() ==> other.v() != 0, r.0.wf(), r.1.wf(), self.v() == r.0.v() * other.v() + r.1.v(), r.1.v() < other.v(), udiv_ok(self.v(), other.v(), r.0.v(), r.1.v())
//+}
    {
        division::div_rem_ref(self, other)
    }
//@ end

//@ extract src/biguint.rs :: impl Integer for BigUint :: fn div_ceil props=C03,C14
    fn div_ceil(&self, other: &BigUint) -> /*+*/(r: /*-*/BigUint/*+*/)/*-*/
//+{
        requires self.wf(), other.wf(), !mp() ==> other.v() != 0
        ensures mp() ==> other.v() != 0, r.wf(),
            exists|t: nat| uceil_ok(self.v(), other.v(), r.v(), t)
//+}
    {
        let (d, m) = division::div_rem_ref(self, other);
//+{
        proof {
            let dv = d.v(); let mv = m.v(); let ov = other.v();
            assert((dv + 1) * ov == dv * ov + ov) by (nonlinear_arith);
            if mv == 0 { assert(uceil_ok(self.v(), ov, dv, 0)); }
            else { assert(uceil_ok(self.v(), ov, dv + 1, (ov - mv) as nat)); }
        }
//+}
        if m.is_zero() {
            d
        } else {
            d + 1u32
        }
    }
//@ end

//@ extract src/biguint/division.rs :: impl Euclid for BigUint :: fn div_euclid ufcs=self/v props=C03,C14
    fn div_euclid(&self, v: &BigUint) -> /*+*/(r: /*-*/BigUint/*+*/)/*-*/
//+{
        requires self.wf(), v.wf(), !mp() ==> v.v() != 0
        ensures mp() ==> v.v() != 0, r.wf(), exists|m: nat| udiv_ok(self.v(), v.v(), r.v(), m)
//+}
    {
        // trivially same as regular division
        Div::div(self, v)
    }
//@ end

//@ extract src/biguint/division.rs :: impl Euclid for BigUint :: fn rem_euclid ufcs=self%v props=C03,C14
    fn rem_euclid(&self, v: &BigUint) -> /*+*/(r: /*-*/BigUint/*+*/)/*-*/
//+{
        requires self.wf(), v.wf(), !mp() ==> v.v() != 0
        ensures mp() ==> v.v() != 0, r.wf(), exists|q: nat| udiv_ok(self.v(), v.v(), q, r.v())
//+}
    {
        // trivially same as regular remainder
        Rem::rem(self, v)
    }
//@ end

//@ extract src/biguint/division.rs :: impl Euclid for BigUint :: fn div_rem_euclid props=C03,C14
    fn div_rem_euclid(&self, v: &Self) -> /*+*/(r: /*-*/(Self, Self)/*+*/)/*-*/
//+{
        requires self.wf(), v.wf(), !mp() ==> v.v() != 0
        ensures mp() ==> v.v() != 0, r.0.wf(), r.1.wf(), self.v() == r.0.v() * v.v() + r.1.v(), r.1.v() < v.v(), udiv_ok(self.v(), v.v(), r.0.v(), r.1.v())
//+}
    {
        // trivially same as regular division and remainder
        self.div_rem(v)
    }
//@ end

//@ extract src/biguint/division.rs :: impl CheckedDiv for BigUint :: fn checked_div ufcs=self/v props=C03,C14
    fn checked_div(&self, v: &BigUint) -> /*+*/(r: /*-*/Option<BigUint>/*+*/)/*-*/
//+{
        requires self.wf(), v.wf()
        ensures r is None <==> v.v() == 0,
            r is Some ==> r.unwrap().wf() && exists|m: nat| udiv_ok(self.v(), v.v(), r.unwrap().v(), m)
//+}
    {
        if v.is_zero() {
            return None;
        }
        Some(self.div(v))
    }
//@ end

//@ extract src/biguint/division.rs :: impl CheckedEuclid for BigUint :: fn checked_div_euclid props=C03,C14
    fn checked_div_euclid(&self, v: &BigUint) -> /*+*/(r: /*-*/Option<BigUint>/*+*/)/*-*/
//+{
        requires self.wf(), v.wf()
        ensures r is None <==> v.v() == 0,
            r is Some ==> r.unwrap().wf() && exists|m: nat| udiv_ok(self.v(), v.v(), r.unwrap().v(), m)
//+}
    {
        if v.is_zero() {
            return None;
        }
        Some(self.div_euclid(v))
    }
//@ end

//@ extract src/biguint/division.rs :: impl CheckedEuclid for BigUint :: fn checked_rem_euclid props=C03,C14
    fn checked_rem_euclid(&self, v: &BigUint) -> /*+*/(r: /*-*/Option<BigUint>/*+*/)/*-*/
//+{
        requires self.wf(), v.wf()
        ensures r is None <==> v.v() == 0,
            r is Some ==> r.unwrap().wf() && exists|q: nat| udiv_ok(self.v(), v.v(), q, r.unwrap().v())
//+}
    {
        if v.is_zero() {
            return None;
        }
        Some(self.rem_euclid(v))
    }
//@ end

//@ extract src/biguint/division.rs :: impl CheckedEuclid for BigUint :: fn checked_div_rem_euclid props=C03,C14
    fn checked_div_rem_euclid(&self, v: &Self) -> /*+*/(r: /*-*/Option<(Self, Self)>/*+*/)/*-*/
//+{
        requires self.wf(), v.wf()
        ensures r is None <==> v.v() == 0,
            r is Some ==> r.unwrap().0.wf() && r.unwrap().1.wf() && self.v() == r.unwrap().0.v() * v.v() + r.unwrap().1.v() && r.unwrap().1.v() < v.v()
//+}
    {
        if v.is_zero() {
            return None;
        }
        Some(self.div_rem_euclid(v))
    }
//@ end
}

} // mod u
} // verus!
fn main() {}
