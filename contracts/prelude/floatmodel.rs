// Local model of an f64 value (rule R54; Verus has no floating point). A value is not-finite (NaN, +-infinity) or finite;
// a finite value has a mathematical value whose truncation toward zero is `ival()`; `integral()` says the value is a whole
// number. The helpers carry the IEEE-754 / std / num_traits semantics of the few operations from_f64 uses.
//@ assume MF64 : model type of an f64 value (opaque)
#[verifier::external_body]
#[derive(Clone, Copy)]
pub struct MF64 { _b: u64 }
impl MF64 {
    pub uninterp spec fn finite(self) -> bool;
    pub uninterp spec fn integral(self) -> bool;
    /// the value truncated toward zero (meaningful for finite values)
    pub uninterp spec fn ival(self) -> int;
    //@ assume f64::is_finite : std: neither NaN nor infinite
    #[verifier::external_body]
    pub fn is_finite(self) -> (r: bool)
        ensures r == self.finite()
    { unimplemented!() }
    //@ assume f64::trunc : std: the integer part, rounding toward zero (finite stays finite)
    #[verifier::external_body]
    pub fn trunc(self) -> (r: MF64)
        ensures r.finite() == self.finite(), self.finite() ==> r.integral() && r.ival() == self.ival()
    { unimplemented!() }
    //@ assume num_traits::<f64 as Zero>::is_zero : external crate: `*self == 0.0` (true for +0.0 and -0.0)
    #[verifier::external_body]
    pub fn is_zero(&self) -> (r: bool)
        ensures self.finite() && self.integral() ==> r == (self.ival() == 0)
    { unimplemented!() }
    //@ assume f64::ge(0.0) : IEEE comparison `n >= 0.0`: false for NaN; for finite values true exactly for non-negative ones (a value in (-1, 0) truncates to 0 but compares below zero)
    #[verifier::external_body]
    pub fn ge0(self) -> (r: bool)
        ensures self.finite() ==> (r ==> self.ival() >= 0) && (!r ==> self.ival() <= 0), !self.finite() && r ==> true
    { unimplemented!() }
    //@ assume f64::neg : IEEE negation: exact, finite stays finite
    #[verifier::external_body]
    pub fn neg(self) -> (r: MF64)
        ensures r.finite() == self.finite(), r.ival() == -self.ival(), r.integral() == self.integral()
    { unimplemented!() }
}
//@ assume num_traits::FloatCore::integer_decode(f64) : external crate: (mantissa, exponent, sign) with value == sign * mantissa * 2^exponent exactly, mantissa < 2^53, sign = +-1; stated here for finite whole numbers other than zero
#[verifier::external_body]
pub fn __integer_decode(n: MF64) -> (r: (u64, i16, i8))
    requires n.finite()
    ensures
        r.2 == 1 || r.2 == -1,
        -1100 < r.1 < 1100,
        r.0 < 0x20_0000_0000_0000,
        n.integral() && n.ival() != 0 ==> ({
            let m = r.0 as int; let e = r.1 as int; let s = r.2 as int;
            &&& (e >= 0 ==> s * (m * vstd::arithmetic::power2::pow2(e as nat) as int) == n.ival())
            &&& (e < 0 ==> m % (vstd::arithmetic::power2::pow2((-e) as nat) as int) == 0 && s * (m / (vstd::arithmetic::power2::pow2((-e) as nat) as int)) == n.ival())
        }),
{ unimplemented!() }
//@ assume i16::cmp : std: total order on i16
#[verifier::external_body]
pub fn __i16_cmp(a: i16, b: i16) -> (r: core::cmp::Ordering)
    ensures r == (if a < b { core::cmp::Ordering::Less } else if a == b { core::cmp::Ordering::Equal } else { core::cmp::Ordering::Greater })
{ unimplemented!() }
