// Assumed specifications of std items that this vstd lacks. Each mirrors the std documentation.
//@ assume std::<&mut [T]>::into_iter : mirrors vstd's spec of <[T]>::iter_mut (std: `impl IntoIterator for &mut [T]` is `self.iter_mut()`)
pub assume_specification<'a, T>[ <&'a mut [T] as core::iter::IntoIterator>::into_iter ](slice: &'a mut [T]) -> (iter: core::slice::IterMut<'a, T>)
    ensures
        iter.remaining().len() == old(slice)@.len(),
        old(slice)@.len() == final(slice)@.len(),
        forall|i: int| 0 <= i < old(slice)@.len() ==> *(#[trigger] iter.remaining()[i]) == old(slice)@[i],
        forall|i: int| 0 <= i < old(slice)@.len() ==> *final(#[trigger] iter.remaining()[i]) == final(slice)@[i],
        iter.obeys_prophetic_iter_laws(),
        iter.will_return_none(),
        iter.decrease() is Some,
;
