//@ unit u_core : BigUint representation: normalisation and constructors (src/biguint.rs)
#![feature(allocator_api)]
use vstd::prelude::*;
use vstd::std_specs::iter::IteratorSpec;
verus! {
//@ include prelude/core.rs
//@ include prelude/std_specs.rs
pub mod u {
use super::*;

//@ extract src/biguint.rs :: struct BigUint
pub struct BigUint {
    data: Vec<BigDigit>,
}
//@ end

//@ include prelude/biguint_view.rs

impl BigUint {
//@ extract src/biguint.rs :: impl BigUint :: fn normalize rules=R0,R2,R12a props=C04,C01
    fn normalize(&mut self)
//+{
        ensures
            final(self).wf(),
            final(self).v() == old(self).v(),
            final(self).data@.len() <= old(self).data@.len(),
            final(self).data@ =~= old(self).data@.subrange(0, final(self).data@.len() as int),
//+}
    {
        if let Some(p__) = self.data.last() { if *p__ == 0 {
            let len = __rpos_nz_len(&self.data);
//+{
            proof { lemma_val_strip(self.data@, len as nat); }
//+}
            self.data.truncate(len);
        } }
        if self.data.len() < self.data.capacity() / 4 {
            self.data.shrink_to_fit();
        }
    }
//@ end

//@ extract src/biguint.rs :: impl BigUint :: fn normalized rules=R0,R5 props=C04,C01
    fn normalized(self) -> /*+*/(r: /*-*/BigUint/*+*/)/*-*/
//+{
        ensures r.wf(), r.v() == self.v(),
            r.data@ =~= self.data@.subrange(0, r.data@.len() as int), r.data@.len() <= self.data@.len(),
//+}
    {
        let mut self__ = self;
        self__.normalize();
        self__
    }
//@ end
}

impl BigUint {
//@ extract src/biguint.rs :: impl BigUint :: const ZERO rules=R9,R13
    exec const ZERO: Self /*+*/ensures Self::ZERO.data@.len() == 0 /*-*/{ BigUint { data: Vec::new() } }
//@ end

    // contract-only re-homing: methods of `impl Clone / Zero / One for BigUint` (external traits) as inherent methods
//@ extract src/biguint.rs :: impl Clone for BigUint :: fn clone props=C04
    fn clone(&self) -> /*+*/(r: /*-*/Self/*+*/)/*-*/
//+{
        ensures r.data@ == self.data@, r.v() == self.v(), r.wf() == self.wf()
//+}
    {
        BigUint {
            data: self.data.clone(),
        }
    }
//@ end

//@ extract src/biguint.rs :: impl Clone for BigUint :: fn clone_from rules=R0,R57 props=C04
    fn clone_from(&mut self, other: &Self)
//+{
        ensures final(self).data@ == other.data@
//+}
    {
        self.data.clone_from(&other.data);
    }
//@ end

//@ extract src/biguint.rs :: impl Zero for BigUint :: fn zero props=C19
    fn zero() -> /*+*/(r: /*-*/BigUint/*+*/)/*-*/
//+{
        ensures r.wf(), r.v() == 0
//+}
    {
        Self::ZERO
    }
//@ end

//@ extract src/biguint.rs :: impl Zero for BigUint :: fn set_zero props=C19
    fn set_zero(&mut self)
//+{
        ensures final(self).wf(), final(self).v() == 0
//+}
    {
        self.data.clear();
    }
//@ end

//@ extract src/biguint.rs :: impl Zero for BigUint :: fn is_zero props=C19
    fn is_zero(&self) -> /*+*/(r: /*-*/bool/*+*/)/*-*/
//+{
        ensures r == (self.data@.len() == 0), self.wf() ==> r == (self.v() == 0)
//+}
    {
//+{
        proof { if self.wf() { lemma_wf_zero(self.data@); } }
//+}
        self.data.is_empty()
    }
//@ end

//@ extract src/biguint.rs :: impl One for BigUint :: fn one props=C19
    fn one() -> /*+*/(r: /*-*/BigUint/*+*/)/*-*/
//+{
        ensures r.wf(), r.v() == 1
//+}
    {
//+{
        proof { lemma_val_single(1u64); }
//+}
        /*+*/let r = /*-*/BigUint { data: vec![1] }/*+*/; proof { assert(r.data@ =~= seq![1u64]); } r/*-*/
    }
//@ end

//@ extract src/biguint.rs :: impl One for BigUint :: fn set_one props=C19
    fn set_one(&mut self)
//+{
        ensures final(self).wf(), final(self).v() == 1
//+}
    {
        self.data.clear();
        self.data.push(1);
//+{
        proof { lemma_val_single(1u64); assert(self.data@ =~= seq![1u64]); }
//+}
    }
//@ end
}

impl BigUint {
//@ extract src/biguint.rs :: impl One for BigUint :: fn is_one rules=R0,R12k props=C19
    fn is_one(&self) -> /*+*/(r: /*-*/bool/*+*/)/*-*/
//+{
        ensures r == (self.data@ =~= seq![1u64]), self.wf() ==> r == (self.v() == 1)
//+}
    {
//+{
        proof {
            lemma_val_single(1u64);
            if self.wf() && self.v() == 1 {
                assert(wf(seq![1u64]));
                lemma_canonical_unique(self.data@, seq![1u64]);
            }
        }
//+}
        __vec_is_one(&self.data)
    }
//@ end
}

//@ extract src/biguint.rs :: fn biguint_from_vec props=C04,C09
pub(crate) fn biguint_from_vec(digits: Vec<BigDigit>) -> /*+*/(r: /*-*/BigUint/*+*/)/*-*/
//+{
    ensures r.wf(), r.v() == val(digits@), r.dg().len() <= digits@.len()
//+}
{
    BigUint { data: digits }.normalized()
}
//@ end

} // mod u
} // verus!
fn main() {}
