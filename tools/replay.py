"""Replay harness: searches for a concrete failing input of the public API after an obligation failed,
and re-runs recorded inputs (`./check replay <file>`). It never decides a property: a run whose
obligations all discharge does not execute it.

The driver (replay/driver) is built against VERIF_REPO as a path dependency in build/replay/.
Expected values are computed here with Python integers.
"""
import json
import math
import os
import random
import shutil
import struct
import subprocess
import time

ROOT = os.path.dirname(os.path.dirname(os.path.abspath(__file__)))
BUILD = os.path.join(ROOT, "build", "replay")
B64 = 1 << 64
LAST_BANK_INFO = {}


def build_driver(repo):
    crate = os.path.join(BUILD, "crate")
    os.makedirs(os.path.join(crate, "src"), exist_ok=True)
    shutil.copy(os.path.join(ROOT, "replay", "driver", "src", "main.rs"), os.path.join(crate, "src", "main.rs"))
    # the `rand` feature of the crate (C18) is driven through a deterministic stream generator; if the rand crate cannot be
    # resolved offline the driver is built without it and the r* operations answer UNSUPPORTED
    manifest = ('[package]\nname = "replay-driver"\nversion = "0.0.0"\nedition = "2021"\n[features]\nwithrand = ["dep:rand", "num-bigint/rand"]\n'
                'withserde = ["dep:serde_json", "dep:serde", "num-bigint/serde"]\n[dependencies]\n'
                'num-bigint = { path = "%s" }\nnum-integer = "0.1.46"\nnum-traits = "0.2.18"\nrand = { version = "0.8", default-features = false, optional = true }\n'
                'serde_json = { version = "1", optional = true }\nserde = { version = "1", optional = true }\n'
                '[profile.dev]\nopt-level = 1\ndebug-assertions = true\noverflow-checks = true\n' % repo)
    with open(os.path.join(crate, "Cargo.toml"), "w") as f:
        f.write(manifest)
    lock = os.path.join(repo, "Cargo.lock")
    if os.path.exists(lock) and not os.path.exists(os.path.join(crate, "Cargo.lock")):
        shutil.copy(lock, os.path.join(crate, "Cargo.lock"))
    env = dict(os.environ, CARGO_NET_OFFLINE="true", CARGO_TARGET_DIR=os.path.join(BUILD, "target"))
    first = ""
    for feats in ("withrand,withserde", "withrand", "withserde", ""):
        cmd = ["cargo", "build", "--offline", "-q"] + (["--features", feats] if feats else [])
        p = subprocess.run(cmd, cwd=crate, env=env, capture_output=True, text=True, timeout=900)
        if p.returncode == 0:
            break
        first = first or p.stderr[-1500:]
    if p.returncode != 0:
        return None, (first + "\n--- without optional features ---\n" + p.stderr[-1500:])
    return os.path.join(BUILD, "target", "debug", "replay-driver"), ""


def hx(n):
    return ("-" if n < 0 else "") + format(abs(n), "x")


def run_cases(binary, cases, timeout=600):
    inp = "\n".join(" ".join(c) for c in cases) + "\n"
    p = subprocess.run([binary], input=inp, capture_output=True, text=True, timeout=timeout, errors="backslashreplace")
    out = p.stdout.split("\n")[:len(cases)]
    if p.returncode != 0 and len([x for x in out if x != ""]) < len(cases):
        # the driver died (abort / stack overflow / fault): the first case without an answer is the culprit
        k = len([x for x in p.stdout.split("\n") if x != ""])
        out = (out + [""] * len(cases))[:len(cases)]
        out[k] = "CRASH(exit %s)" % p.returncode
    return out


def find_hang(binary, cases, per=20):
    """bisect a chunk that did not finish within its time limit down to one case"""
    if len(cases) == 1:
        return cases[0]
    half = len(cases) // 2
    try:
        run_cases(binary, cases[:half], timeout=per)
    except subprocess.TimeoutExpired:
        return find_hang(binary, cases[:half], per)
    return find_hang(binary, cases[half:], per)


# ------------------------------------------------------------------ oracle

def tdiv(a, b):
    q = abs(a) // abs(b)
    if (a < 0) != (b < 0):
        q = -q
    return q, a - q * b


def ediv(a, b):
    r = a % abs(b)
    return (a - r) // b, r


def f64bits(n):
    try:
        f = float(n)
    except OverflowError:
        f = math.inf if n > 0 else -math.inf
    return format(struct.unpack("<Q", struct.pack("<d", f))[0], "016x")


def f32bits(n):
    """correctly rounded (nearest, ties to even) f32 of an integer, as bits"""
    neg, m = n < 0, abs(n)
    if m == 0:
        f = 0.0
    else:
        bl = m.bit_length()
        if bl <= 24:
            f = float(m)
        else:
            sh = bl - 24
            q, rem, half = m >> sh, m & ((1 << sh) - 1), 1 << (sh - 1)
            if rem > half or (rem == half and (q & 1)):
                q += 1
            f = math.inf if bl > 200 else math.ldexp(q, sh)
            if f > 3.4028234663852886e38:
                f = math.inf
    if neg:
        f = -f
    return format(struct.unpack("<I", struct.pack("<f", f))[0], "08x")


def iroot(x, n):
    if x < 2:
        return x
    if n >= x.bit_length():
        return 1
    lo, hi = 0, 1 << (x.bit_length() // n + 1)
    while lo < hi:
        m = (lo + hi + 1) // 2
        if m ** n <= x:
            lo = m
        else:
            hi = m - 1
    return lo


def opt(v):
    return "None" if v is None else "Some(%s)" % v


def expected(case):
    op = case[0]
    a = [x for x in case[1:]]

    def I(k):
        s = a[k]
        return -int(s[1:], 16) if s.startswith("-") else int(s, 16)
    try:
        if op == "sc":
            big, ty, o, side = a[0], a[1], a[2], a[3]
            x, sv = I(4), I(5)
            if side == "l":
                l, r = sv, x
            else:
                l, r = x, sv
            if o == "add":
                v = l + r
            elif o == "sub":
                v = l - r
            elif o == "mul":
                v = l * r
            elif o in ("div", "rem"):
                if r == 0:
                    return "PANIC"
                q, m = tdiv(l, r)
                v = q if o == "div" else m
            else:
                return None
            if big == "u" and v < 0:
                return "PANIC"
            return hx(v)
        if op in ("ufrom_f64", "ifrom_f64", "ufrom_f32", "ifrom_f32"):
            bits = int(a[0], 16)
            if op.endswith("64"):
                f = struct.unpack("<d", struct.pack("<Q", bits))[0]
            else:
                f = struct.unpack("<f", struct.pack("<I", bits))[0]
            if f != f or f in (math.inf, -math.inf):
                return "None"
            t = int(f)
            if op.startswith("u") and t < 0:
                return "None"
            if op.startswith("u") and f < 0 and t == 0:
                return "Some(0)" if f > -1.0 else "None"
            return opt(hx(t))
        if op in ("ufrom_radix_le", "ufrom_radix_be"):
            r = I(0)
            ds = [int(x, 16) for x in a[1:]]
            if not 2 <= r <= 256:
                return "PANIC"
            if any(d >= r for d in ds):
                return "None"
            if op.endswith("be"):
                ds = ds[::-1]
            return opt(hx(sum(d * r ** k for k, d in enumerate(ds))))
        if op == "shf":
            x, k = I(4), I(5)
            if k < 0:
                return "PANIC"
            if k >= (1 << 40):      # beyond any representable length: right shifts saturate, left shifts of non-zero values cannot be built
                if a[2] == "l":
                    return "0" if x == 0 else "PANIC"
                return hx(-1 if x < 0 else 0)
            return hx(x << k) if a[2] == "l" else hx(x >> k)
        if op == "powf":
            if abs(I(3)) > 1 and I(4) >= (1 << 128):
                return "PANIC"      # a BigUint exponent that does not fit u128: documented "memory overflow" panic
            return hx(I(3) ** I(4))
        if op in ("upow_big_rv", "upow_big_rr", "ipow_big", "ipow_big_rv", "ipow_u8", "ipow_u128", "upow_u64"):
            if abs(I(0)) > 1 and I(1) >= (1 << 128):
                return "PANIC"
            return hx(I(0) ** I(1))
        if op in ("uadd", "uadd_vv", "uadd_vr", "uadd_assign", "uadd_u32", "uadd_u64", "uadd_u128", "iadd", "iadd_vv", "iadd_vr", "iadd_rv", "iadd_assign", "iadd_i64"):
            return hx(I(0) + I(1))
        if op in ("usub", "usub_rv", "usub_assign", "usub_u64", "u64_sub_u", "usub_u128"):
            return hx(I(0) - I(1)) if I(0) >= I(1) else "PANIC"
        if op in ("isub", "isub_vv", "isub_vr", "isub_rv", "isub_assign", "isub_i64", "i64_sub_i"):
            return hx(I(0) - I(1))
        if op == "uchecked_sub":
            return opt(hx(I(0) - I(1)) if I(0) >= I(1) else None)
        if op in ("umul", "umul_u64", "imul", "imul_i64", "umul_vv", "umul_vr", "umul_rv", "umul_assign", "umul_assign_v", "imul_vv", "imul_vr", "imul_rv", "imul_assign"):
            return hx(I(0) * I(1))
        if op == "ineg":
            return hx(-I(0))
        if op in ("udivrem", "idivrem"):
            if I(1) == 0:
                return "PANIC"
            q, r = tdiv(I(0), I(1))
            return "%s %s" % (hx(q), hx(r))
        if op in ("udiv", "idiv", "udiv_u64", "idiv_i64", "u64_div_u", "i64_div_i", "udiv_vv", "udiv_assign", "idiv_vv", "idiv_assign"):
            return "PANIC" if I(1) == 0 else hx(tdiv(I(0), I(1))[0])
        if op in ("urem", "irem", "urem_u64", "irem_i64", "u64_rem_u", "i64_rem_i", "urem_vv", "urem_assign", "irem_vv", "irem_assign"):
            return "PANIC" if I(1) == 0 else hx(tdiv(I(0), I(1))[1])
        if op in ("udiv_ceil", "idiv_ceil"):
            return "PANIC" if I(1) == 0 else hx(-((-I(0)) // I(1)))
        if op == "idiv_floor":
            return "PANIC" if I(1) == 0 else hx(I(0) // I(1))
        if op == "imod_floor":
            return "PANIC" if I(1) == 0 else hx(I(0) % I(1))
        if op == "idiv_mod_floor":
            return "PANIC" if I(1) == 0 else "%s %s" % (hx(I(0) // I(1)), hx(I(0) % I(1)))
        if op == "idiv_euclid":
            return "PANIC" if I(1) == 0 else hx(ediv(I(0), I(1))[0])
        if op == "irem_euclid":
            return "PANIC" if I(1) == 0 else hx(ediv(I(0), I(1))[1])
        if op == "idiv_rem_euclid":
            return "PANIC" if I(1) == 0 else "%s %s" % tuple(hx(x) for x in ediv(I(0), I(1)))
        if op in ("uchecked_div", "ichecked_div"):
            return opt(None if I(1) == 0 else hx(tdiv(I(0), I(1))[0]))
        if op in ("uchecked_div_euclid", "ichecked_div_euclid"):
            return opt(None if I(1) == 0 else hx(ediv(I(0), I(1))[0]))
        if op in ("uchecked_rem_euclid", "ichecked_rem_euclid"):
            return opt(None if I(1) == 0 else hx(ediv(I(0), I(1))[1]))
        if op in ("uchecked_div_rem_euclid", "ichecked_div_rem_euclid"):
            return opt(None if I(1) == 0 else "%s %s" % tuple(hx(x) for x in ediv(I(0), I(1))))
        if op in ("ucmp", "icmp"):
            return "Less" if I(0) < I(1) else ("Equal" if I(0) == I(1) else "Greater")
        if op == "ueq":
            return "true" if I(0) == I(1) else "false"
        if op == "umodpow":
            return "PANIC" if I(2) == 0 else hx(pow(I(0), I(1), I(2)))
        if op == "imodpow":
            if I(2) == 0 or I(1) < 0:
                return "PANIC"
            return hx(pow(I(0), I(1), I(2)))  # python: sign of modulus (floor mod)
        if op in ("umodinv", "imodinv"):
            m = I(1)
            if m == 0:
                return "PANIC"
            if math.gcd(I(0), m) != 1:
                return "None"
            x = pow(I(0), -1, abs(m)) if abs(m) > 1 else 0
            if m < 0 and x != 0:
                x = x + m
            return opt(hx(x))
        if op in ("upow", "ipow", "upow_big"):
            if abs(I(0)) > 1 and I(1) >= (1 << 128):
                return "PANIC"
            return hx(I(0) ** I(1))
        if op in ("ugcd", "igcd"):
            return hx(math.gcd(I(0), I(1)))
        if op in ("ulcm", "ilcm"):
            g = math.gcd(I(0), I(1))
            return hx(0 if g == 0 else abs(I(0) * I(1)) // g)
        if op in ("usqrt", "isqrt"):
            return "PANIC" if I(0) < 0 else hx(iroot(I(0), 2))
        if op in ("ucbrt", "icbrt"):
            return hx(iroot(I(0), 3)) if I(0) >= 0 else hx(-iroot(-I(0), 3))
        if op in ("unth_root", "inth_root"):
            n = I(1)
            if n == 0 or (I(0) < 0 and n % 2 == 0):
                return "PANIC"
            return hx(iroot(I(0), n)) if I(0) >= 0 else hx(-iroot(-I(0), n))
        if op in ("uis_multiple_of", "iis_multiple_of"):
            return "true" if (I(0) == 0 if I(1) == 0 else I(0) % I(1) == 0) else "false"
        if op in ("uand", "iand", "iand_assign", "iand_vr", "uand_assign"):
            return hx(I(0) & I(1))
        if op in ("uor", "ior", "ior_assign", "ior_vr", "uor_assign"):
            return hx(I(0) | I(1))
        if op in ("uxor", "ixor", "ixor_assign", "ixor_vr", "uxor_assign"):
            return hx(I(0) ^ I(1))
        if op in ("inot", "inot_ref"):
            return hx(~I(0))
        if op in ("ushl", "ishl"):
            return hx(I(0) << I(1))
        if op in ("ushr", "ishr"):
            return hx(I(0) >> I(1))
        if op in ("ushl_i32",):
            return "PANIC" if I(1) < 0 else hx(I(0) << I(1))
        if op in ("ishr_i32",):
            return "PANIC" if I(1) < 0 else hx(I(0) >> I(1))
        if op == "ubits":
            return str(I(0).bit_length())
        if op in ("ubit", "ibit"):
            return "true" if (I(0) >> I(1)) & 1 else "false"
        if op in ("uset_bit", "iset_bit"):
            return hx(I(0) | (1 << I(1))) if a[2] == "1" else hx(I(0) & ~(1 << I(1)))
        if op == "utrailing_zeros":
            n = I(0)
            return "None" if n == 0 else "Some(%d)" % ((n & -n).bit_length() - 1)
        if op == "utrailing_ones":
            n = I(0)
            k = 0
            while (n >> k) & 1:
                k += 1
            return str(k)
        if op == "ucount_ones":
            return str(bin(I(0)).count("1"))
        if op == "cv":
            kind, ty, n = a[0], a[1], I(2)
            if kind in ("u", "i"):
                bits = 64 if ty in ("usize", "isize") else int(ty[1:])
                lo, hi = (0, 1 << bits) if ty[0] == "u" else (-(1 << (bits - 1)), 1 << (bits - 1))
                fits = lo <= n < hi
                return "%s %s %s" % ("Some(%d)" % n if fits else "None", "Ok(%d)" % n if fits else "Err", "Ok(%d)" % n if fits else "Err(%s)" % hx(n))
            if kind == "iu":
                ok = n >= 0
                return "%s %s %s %s" % ("Ok(%s)" % hx(n) if ok else "Err", "Ok(%s)" % hx(n) if ok else "Err(%s)" % hx(n), "Some(%s)" % hx(n) if ok else "None", "Some(%s)" % hx(n))
            if kind == "ui":
                return "%s Some(%s) Some(%s)" % (hx(n), hx(n), hx(n))
        if op == "fr":
            ty, n = a[0], I(1)
            if ty[0] == "u":
                return "%s %s Some(%s) Some(%s) Some(%s) Some(%s)" % ((hx(n),) * 6)
            ok = n >= 0
            return "%s %s %s Some(%s) %s Some(%s)" % ("Ok(%s)" % hx(n) if ok else "Err", hx(n), "Some(%s)" % hx(n) if ok else "None", hx(n), "Some(%s)" % hx(n) if ok else "None", hx(n))
        if op in ("uto_u64", "ito_u64"):
            return "Some(%d)" % I(0) if 0 <= I(0) < B64 else "None"
        if op == "uto_u128":
            return "Some(%d)" % I(0) if 0 <= I(0) < (1 << 128) else "None"
        if op == "uto_u32":
            return "Some(%d)" % I(0) if 0 <= I(0) < (1 << 32) else "None"
        if op in ("uto_i64", "ito_i64"):
            return "Some(%d)" % I(0) if -(1 << 63) <= I(0) < (1 << 63) else "None"
        if op == "ito_i128":
            return "Some(%d)" % I(0) if -(1 << 127) <= I(0) < (1 << 127) else "None"
        if op == "ito_i8":
            return "Some(%d)" % I(0) if -128 <= I(0) < 128 else "None"
        if op in ("uto_f64", "ito_f64"):
            return f64bits(I(0))
        if op == "shlf":
            # value +-2^k: a power of two is exact below the exponent limit and infinite from it on
            k, neg = I(2), a[0] == "-"
            if a[1] == "64":
                return "%016x" % ((0x8000000000000000 if neg else 0) | ((k + 1023) << 52 if k < 1024 else 0x7ff0000000000000))
            return "%08x" % ((0x80000000 if neg else 0) | ((k + 127) << 23 if k < 128 else 0x7f800000))
        if op == "uto_f32":
            return f32bits(I(0))
        if op in ("ufrom_u64", "ufrom_u128", "ifrom_i64", "ifrom_i128"):
            return hx(I(0))
        if op == "imut":
            x = I(0)
            k = 1
            while k + 1 < len(a):
                y = I(k + 1)
                o = a[k]
                if o == "add":
                    x += y
                elif o == "sub":
                    x -= y
                elif o == "mul":
                    x *= y
                elif o in ("div", "rem"):
                    if y == 0:
                        return "PANIC"
                    q, m = tdiv(x, y)
                    x = q if o == "div" else m
                elif o == "and":
                    x &= y
                elif o == "or":
                    x |= y
                elif o == "xor":
                    x ^= y
                elif o == "shl":
                    x <<= y
                elif o == "shr":
                    x >>= y
                elif o == "setbit":
                    x |= (1 << y)
                elif o == "clrbit":
                    x &= ~(1 << y)
                elif o == "zero":
                    x = 0
                elif o == "one":
                    x = 1
                elif o == "clone_from":
                    x = y
                elif o == "neg":
                    x = -x
                else:
                    return None
                k += 2
            return "%s true Equal true" % hx(x)
        if op in ("uparse_bytes", "iparse_bytes", "uparse", "iparse"):
            if op.endswith("bytes"):
                try:
                    t = bytes(int(x, 16) for x in a[1:]).decode("utf-8")
                except UnicodeDecodeError:
                    return "None" if 2 <= I(0) <= 36 else "None"
                r0 = I(0)
                if not 2 <= r0 <= 36:
                    return "PANIC"
                e2 = expected(("ufrom_str" if op[0] == "u" else "ifrom_str", '"%s"' % t, hx(r0))) if '"' not in t and " " not in t else None
                if e2 is None:
                    return None
                return "None" if e2 == "Err" else "Some(%s)" % e2[3:-1]
            return expected(("ufrom_str" if op[0] == "u" else "ifrom_str", a[0], hx(10)))
        if op in ("ufrom_str", "ifrom_str"):
            # the grammar of the property statement: one optional sign ('+' only for BigUint), digits below the radix in
            # either letter case, '_' anywhere after the first digit, leading zeros allowed
            t, r = a[0].strip('"'), I(1)
            if not 2 <= r <= 36:
                return "PANIC"
            sign = 1
            if op == "ifrom_str" and t.startswith("-"):
                sign, t = -1, t[1:]
            elif t.startswith("+"):
                t = t[1:]
            if t == "" or t[0] == "_":
                return "Err"
            v = 0
            for ch in t:
                if ch == "_":
                    continue
                if not (ch.isascii() and ch.isalnum()) or int(ch, 36) >= r:
                    return "Err"
                v = v * r + int(ch, 36)
            return "Ok(%s)" % hx(sign * v)
        if op in ("ufmt", "ifmt"):
            n, spec = I(0), a[1]
            py = {"x": "x", "X": "X", "o": "o", "b": "b", "#x": "#x", "08x": "08x", "+": "+d", "d": "d"}[spec]
            return format(n, py)
        if op in ("uto_str", "ito_str"):
            n, r = I(0), I(1)
            if not 2 <= r <= 36:
                return "PANIC"
            digs = "0123456789abcdefghijklmnopqrstuvwxyz"
            m = abs(n)
            s = ""
            while m:
                s = digs[m % r] + s
                m //= r
            return ("-" if n < 0 else "") + (s or "0")
        if op in ("uto_radix_le", "uto_radix_be"):
            n, r = I(0), I(1)
            if not 2 <= r <= 256:
                return "PANIC"
            d = []
            while n:
                d.append(n % r)
                n //= r
            d = d or [0]
            if op.endswith("be"):
                d.reverse()
            return "[" + ", ".join(str(x) for x in d) + "]"
        if op in ("uto_bytes_le", "uto_bytes_be"):
            n = I(0)
            d = list(n.to_bytes(max(1, (n.bit_length() + 7) // 8), "little"))
            if op.endswith("be"):
                d.reverse()
            return "[" + ", ".join(str(x) for x in d) + "]"
        if op in ("ito_signed_bytes_le", "ito_signed_bytes_be"):
            n = I(0)
            k = 1
            while not -(1 << (8 * k - 1)) <= n < (1 << (8 * k - 1)):
                k += 1
            d = list(n.to_bytes(k, "little", signed=True))
            if op.endswith("be"):
                d.reverse()
            return "[" + ", ".join(str(x) for x in d) + "]"
        if op in ("ufrom_bytes_le", "ufrom_bytes_be"):
            b = bytes(int(x, 16) for x in a)
            return hx(int.from_bytes(b, "little" if op.endswith("le") else "big"))
        if op in ("ifrom_signed_bytes_le", "ifrom_signed_bytes_be"):
            b = bytes(int(x, 16) for x in a)
            return hx(int.from_bytes(b, "little" if op.endswith("le") else "big", signed=True)) if b else "0"
        if op == "ufrom_slice":
            return hx(sum(int(x, 16) << (32 * i) for i, x in enumerate(a)))
        if op in ("ifrom_slice", "inew"):
            return hx({"-": -1, "0": 0, "+": 1}[a[0]] * sum(int(x, 16) << (32 * i) for i, x in enumerate(a[1:])))
        if op == "iassign_from_slice":
            return hx({"-": -1, "0": 0, "+": 1}[a[1]] * sum(int(x, 16) << (32 * i) for i, x in enumerate(a[2:])))
        if op in ("ugcd_lcm", "igcd_lcm"):
            g = math.gcd(I(0), I(1))
            return "%s %s" % (hx(g), hx(abs(I(0) * I(1)) // g if g else 0))
        if op in ("uincdec", "iincdec"):
            x = I(0)
            if op[0] == "u" and x == 0:
                return "PANIC"
            return "%s %s %s" % (hx(x + 1), hx(x), hx(x - 1))
        if op in ("utraitbytes", "itraitbytes"):
            x = I(0)
            if op[0] == "u":
                le = list(x.to_bytes(max(1, (x.bit_length() + 7) // 8), "little"))
            else:
                k = 1
                while not -(1 << (8 * k - 1)) <= x < (1 << (8 * k - 1)):
                    k += 1
                le = list(x.to_bytes(k, "little", signed=True))
            fmt = lambda d: "[" + ", ".join(str(v) for v in d) + "]"
            return "%s %s %s %s" % (fmt(le[::-1]), fmt(le), hx(x), hx(x))
        if op == "unew":
            return hx(sum(int(x, 16) << (32 * i) for i, x in enumerate(a)))
        if op == "uassign_from_slice":
            return hx(sum(int(x, 16) << (32 * i) for i, x in enumerate(a[1:])))
        if op in ("uiter32", "uiter64"):
            w = 32 if op == "uiter32" else 64
            n = I(0)
            d = []
            while n:
                d.append(n & ((1 << w) - 1))
                n >>= w
            out = ""
            s = a[1]
            i = 0

            def fo(v):
                return "None" if v is None else "Some(%x)" % v
            while i < len(s):
                c = s[i]
                i += 1
                if c == "n":
                    out += fo(d.pop(0) if d else None) + ";"
                elif c == "b":
                    out += fo(d.pop() if d else None) + ";"
                elif c == "l":
                    out += "%d;" % len(d)
                elif c == "L":
                    out += fo(d[-1] if d else None) + ";"
                    break
                elif c == "c":
                    out += "%d;" % len(d)
                    break
                elif c == "t":
                    k = int(s[i])
                    i += 1
                    if k < len(d):
                        v = d[k]
                        d = d[k + 1:]
                    else:
                        v = None
                        d = []
                    out += fo(v) + ";"
            return out
        if op == "iabs":
            return hx(abs(I(0)))
        if op in ("signmul", "signneg"):
            sv = {"-": -1, "0": 0, "+": 1}
            r = sv[a[0]] * sv[a[1]] if op == "signmul" else -sv[a[0]]
            return {-1: "Minus", 0: "NoSign", 1: "Plus"}[r]
        if op == "isignprops":
            x = I(0)
            sn = "Minus" if x < 0 else "Plus" if x > 0 else "NoSign"
            return "%s %s %s %s %s %s %s" % (sn, "true" if x > 0 else "false", "true" if x < 0 else "false", hx(abs(x)), sn, hx(abs(x)), hx(x))
        if op == "ineg_ref":
            return "%s %s" % (hx(-I(0)), hx(I(0)))
        if op in ("iident", "uident"):
            x = I(0)
            return "0 0 0 1 %s %s 0 1" % ("true" if x == 0 else "false", "true" if x == 1 else "false")
        if op == "iconvs":
            x = I(0)
            u = opt(hx(x) if x >= 0 else None)
            return "%s %s %s" % (u, opt(hx(x)), u)
        if op == "uconvs":
            return "%s %s %s" % (opt(hx(I(0))), hx(I(0)), opt(hx(I(0))))
        if op == "iabs_sub":
            return hx(max(I(0) - I(1), 0))
        if op == "isignum":
            return hx((I(0) > 0) - (I(0) < 0))
        if op == "ito_biguint":
            return opt(hx(I(0)) if I(0) >= 0 else None)
        if op == "ifrom_biguint":
            return hx({"-": -1, "0": 0, "+": 1}[a[0]] * I(1))
        if op in ("i8_rem_assign_u", "i64_rem_assign_u", "u64_rem_assign_u"):
            return "PANIC" if I(1) == 0 else str(tdiv(I(0), I(1))[1])
        if op in ("unext_multiple_of", "inext_multiple_of"):
            if I(1) == 0:
                return "PANIC"
            m = I(0) % I(1)
            return hx(I(0) if m == 0 else I(0) + (I(1) - m))
        if op in ("uprev_multiple_of", "iprev_multiple_of"):
            if I(1) == 0:
                return "PANIC"
            return hx(I(0) - I(0) % I(1))
        if op in ("iextended_gcd", "iextended_gcd_lcm"):
            # any Bezout pair is acceptable: checked by identity (a*x + b*y == g == gcd(a,b) >= 0, lcm == |a*b|/g)
            x0, y0 = I(0), I(1)
            g0 = math.gcd(x0, y0)
            want = "g=%s x,y with %s*x+%s*y=g" % (hx(g0), hx(x0), hx(y0)) + ((" lcm=%s" % hx(0 if g0 == 0 else abs(x0 * y0) // g0)) if op.endswith("lcm") else "")

            def ident(got, x0=x0, y0=y0, g0=g0, lcm=op.endswith("lcm")):
                try:
                    f = [(-int(t[1:], 16) if t.startswith("-") else int(t, 16)) for t in got.split()]
                except ValueError:
                    return False
                if len(f) != (4 if lcm else 3):
                    return False
                if f[0] != g0 or x0 * f[1] + y0 * f[2] != g0:
                    return False
                return (not lcm) or f[3] == (0 if g0 == 0 else abs(x0 * y0) // g0)
            return ("ID", ident, want)
        if op[0] == "r" and op.split("_")[0] in ("rgen", "rbits", "runiform", "rsingle"):
            # feature `rand` (C18): the generator replays the given 32-bit words (cyclically); gen::<bool>() is the sign bit of the next word
            class St:
                def __init__(self, ws):
                    self.w, self.pos = ws, 0

                def next(self):
                    v = self.w[self.pos % len(self.w)]
                    self.pos += 1
                    return v

            def g_u(st, bits):
                n = (bits + 31) // 32
                ws = [st.next() for _ in range(n)]
                if bits % 32:
                    ws[-1] >>= 32 - bits % 32
                return sum(x << (32 * i) for i, x in enumerate(ws))

            def g_below(st, bound):
                if bound == 0:
                    raise ZeroDivisionError
                for _ in range(200):
                    c = g_u(st, bound.bit_length())
                    if c < bound:
                        return c
                raise OverflowError

            def g_i(st, bits):
                for _ in range(200):
                    m = g_u(st, bits)
                    if m == 0:
                        if st.next() >> 31:
                            continue
                        return 0
                    return m if st.next() >> 31 else -m
                raise OverflowError

            def g_range(st, lo, hi):
                if not lo < hi:
                    raise ZeroDivisionError
                if lo == 0:
                    return g_below(st, abs(hi))
                if hi == 0:
                    return lo + g_below(st, abs(lo))
                return lo + g_below(st, hi - lo)
            try:
                if op in ("rgen_biguint", "rbits_u"):
                    st = St([int(x, 16) for x in a[1:]])
                    v = g_u(st, I(0))
                elif op in ("rgen_bigint", "rbits_i"):
                    st = St([int(x, 16) for x in a[1:]])
                    v = g_i(st, I(0))
                elif op == "rgen_below":
                    st = St([int(x, 16) for x in a[1:]])
                    v = g_below(st, I(0))
                elif op in ("rgen_urange", "rgen_irange", "rsingle_u", "rsingle_i"):
                    st = St([int(x, 16) for x in a[2:]])
                    v = g_range(st, I(0), I(1))
                elif op in ("runiform_u", "runiform_i"):
                    st = St([int(x, 16) for x in a[3:]])
                    lo, hi = I(1), I(2)
                    if a[0] == "incl":
                        if not lo <= hi:
                            raise ZeroDivisionError
                        hi += 1
                    elif not lo < hi:
                        raise ZeroDivisionError
                    v = lo + g_below(st, hi - lo)
                else:
                    return None
            except ZeroDivisionError:
                return "PANIC"
            except OverflowError:
                return None
            return "%s %d" % (hx(v), st.pos)
        if op in ("sser_u", "sser_i", "sde_u", "sde_i", "sround_u", "sround_i", "srec_u", "srec_i"):
            # feature `serde` (C17), observed through JSON: BigUint = list of base-2^32 digits, least significant first, no trailing
            # zero; BigInt = [sign as -1/0/1, that list]; reading accepts any u32 list (trailing zeros, odd length)
            def d32(m):
                out = []
                while m:
                    out.append(m & 0xffffffff)
                    m >>= 32
                return "[" + ",".join(str(x) for x in out) + "]"
            if op in ("srec_u", "srec_i"):
                # the calls a recording serializer sees: S<announced> u:<digit>.. E for a sequence, I:<v> for an i8, T2 .. for a pair
                n = I(0)
                m, ds = abs(n), []
                while m:
                    ds.append(m & 0xffffffff)
                    m >>= 32
                seq = "S%d" % len(ds) + "".join(" u:%d" % x for x in ds) + " E"
                return seq if op == "srec_u" else "T2 I:%d %s" % ((n > 0) - (n < 0), seq)
            if op == "sser_u":
                return d32(I(0))
            if op == "sser_i":
                n = I(0)
                return "[%d,%s]" % ((n > 0) - (n < 0), d32(abs(n)))
            if op in ("sround_u", "sround_i"):
                return "true %s" % hx(I(0))
            try:
                j = json.loads(a[0])
            except ValueError:
                return "Err"

            def lst(x):
                if not isinstance(x, list) or not all(isinstance(e, int) and not isinstance(e, bool) and 0 <= e < (1 << 32) for e in x):
                    return None
                return sum(e << (32 * i) for i, e in enumerate(x))
            if op == "sde_u":
                v = lst(j)
                return "Err" if v is None else "Ok(%s)" % hx(v)
            if not (isinstance(j, list) and len(j) == 2 and isinstance(j[0], int) and not isinstance(j[0], bool) and j[0] in (-1, 0, 1)):
                return "Err"
            v = lst(j[1])
            return "Err" if v is None else "Ok(%s)" % hx(j[0] * v)
        if op in ("uhash_eq", "ihash_eq"):
            x0, y0 = I(0), I(1)
            return "%s Some(%s)" % ("true" if x0 == y0 else "false", "Less" if x0 < y0 else "Equal" if x0 == y0 else "Greater")
        if op in ("udefault", "idefault"):
            return "0"
        if op in ("uchecked_add", "ichecked_add", "ichecked_add_t"):
            return "Some(%s)" % hx(I(0) + I(1))
        if op in ("ichecked_sub", "ichecked_sub_t"):
            return "Some(%s)" % hx(I(0) - I(1))
        if op in ("uchecked_mul", "ichecked_mul", "ichecked_mul_t"):
            return "Some(%s)" % hx(I(0) * I(1))
        if op in ("usum", "isum"):
            return hx(sum(I(k) for k in range(len(a))))
        if op in ("uproduct", "iproduct"):
            v = 1
            for k in range(len(a)):
                v *= I(k)
            return hx(v)
        if op in ("ito_bytes_le", "ito_bytes_be"):
            n = I(0)
            m = abs(n)
            d = list(m.to_bytes(max(1, (m.bit_length() + 7) // 8), "little"))
            if op.endswith("be"):
                d.reverse()
            return "%s [%s]" % ("Minus" if n < 0 else "NoSign" if n == 0 else "Plus", ", ".join(str(x) for x in d))
        if op in ("ifrom_bytes_le", "ifrom_bytes_be"):
            bs = bytes(int(x, 16) for x in a[1:])
            m = int.from_bytes(bs, "little" if op.endswith("le") else "big")
            return hx(0 if a[0] == "0" else -m if a[0] == "-" else m)
        if op in ("ito_u32_digits", "ito_u64_digits"):
            n = I(0)
            m, w, d = abs(n), (32 if "32" in op else 64), []
            while m:
                d.append(format(m & ((1 << w) - 1), "x"))
                m >>= w
            return "%s [%s]" % ("Minus" if n < 0 else "NoSign" if n == 0 else "Plus", ", ".join(d))
        if op == "uiter64_nth":
            n, k, d = I(0), I(1), []
            while n:
                d.append(n & (B64 - 1))
                n >>= 64
            r = "Some(%x)" % d[k] if k < len(d) else "None"
            rest = d[k + 1:]
            return "%s %d %s" % (r, len(rest), ("Some(%x)" % rest[0]) if rest else "None")
        if op == "ibits":
            return str(abs(I(0)).bit_length())
        if op == "iis_even":
            return "true false" if I(0) % 2 == 0 else "false true"
        if op == "idivides":
            return ("true" if I(0) == 0 else "false") if I(1) == 0 else ("true" if I(0) % I(1) == 0 else "false")
    except Exception:
        return None
    return None


# ------------------------------------------------------------------ input banks

EDGE = [0, 1, 2, B64 - 1, B64 - 2, 1 << 63, (1 << 63) - 1, (1 << 32) - 1, 1 << 32, 0x8000000000000001, 0xAAAAAAAAAAAAAAAA, 0x5555555555555555]


def big(rng, nd, pattern=None):
    """nd-digit number with edge-biased digits; top digit non-zero when nd > 0"""
    if nd == 0:
        return 0
    ds = []
    for i in range(nd):
        p = pattern if pattern is not None else rng.choice(["edge", "edge", "rand", "ones", "zero"])
        if p == "edge":
            ds.append(rng.choice(EDGE))
        elif p == "rand":
            ds.append(rng.getrandbits(64))
        elif p == "ones":
            ds.append(B64 - 1)
        else:
            ds.append(0)
    if ds[-1] == 0:
        ds[-1] = rng.choice([1, B64 - 1, 1 << 63])
    return sum(d << (64 * i) for i, d in enumerate(ds))


def lens(tier):
    base = [0, 1, 2, 3, 4, 5, 6, 7, 9, 10, 11, 14, 15, 16, 20, 21]
    if tier == "thorough":
        base += [24, 25, 26, 31, 32, 33, 34, 40, 63, 64, 65, 66, 70, 128, 129, 255, 256, 257, 258, 300, 513, 520]
    else:
        base += [31, 32, 33, 34, 64, 65, 256, 257, 258]
    return base


def scalar_cases(rng, ops, bigs=None):
    """every scalar operator form (big op scalar, scalar op big, op-assign, by reference) for the operators `ops`, scalar
    types u8..u128/usize/i8..i128/isize, scalar extremes (0, +-1, MAX, MIN, values needing 1, 2 or more native digits)"""
    cases = []
    utypes = {"u8": 8, "u16": 16, "u32": 32, "u64": 64, "u128": 128, "usize": 64}
    itypes = {"i8": 8, "i16": 16, "i32": 32, "i64": 64, "i128": 128, "isize": 64}
    if bigs is None:
        bigs = [0, 1, B64 - 1, B64, (1 << 63), (1 << 127), (1 << 128) + (1 << 64) + 5, big(rng, 3)]
    for x in bigs:
        for ty, w in utypes.items():
            svals = sorted(set([0, 1, (1 << w) - 1, 1 << (w - 1), min((1 << w) - 1, 1 << 32), min((1 << w) - 1, (1 << 64) + 5), rng.getrandbits(w)]))
            for sv in svals:
                for o in ops:
                    for side in ("r", "l", "a", "rr"):
                        cases.append(("sc", "u", ty, o, side, hx(x), hx(sv)))
                        cases.append(("sc", "i", ty, o, side, hx(-x), hx(sv)))
                        cases.append(("sc", "i", ty, o, side, hx(x), hx(sv)))
        for ty, w in itypes.items():
            svals = sorted(set([0, 1, -1, (1 << (w - 1)) - 1, -(1 << (w - 1)), -(1 << (w - 1)) + 1, min((1 << (w - 1)) - 1, (1 << 64) + 3), -min((1 << (w - 1)) - 1, (1 << 64) + 3), -rng.getrandbits(w - 1)]))
            for sv in svals:
                for o in ops:
                    for side in ("r", "l", "a", "rr"):
                        cases.append(("sc", "i", ty, o, side, hx(x), hx(sv)))
                        cases.append(("sc", "i", ty, o, side, hx(-x), hx(sv)))
    return cases


def pow_cases(rng):
    """every Pow form and exponent type, exponent bit patterns, BigUint exponents at the u64 / u128 edges, unrepresentable powers"""
    cases = []
    # every Pow form: {BigUint, BigInt} x {u8..u128, usize, BigUint exponent} x {base, exponent by value / by reference}
    for a in (0, 1, 2, 3, B64 + 1):
        for e in (0, 1, 2, 3, 6, 7):
            for ty in ("u8", "u16", "u32", "u64", "usize", "u128", "big"):
                for form in ("vv", "vr", "rv", "rr"):
                    cases.append(("powf", "u", ty, form, hx(a), hx(e)))
                    cases.append(("powf", "i", ty, form, hx(-a), hx(e)))
                    if a > 1 and e in (2, 3):
                        cases.append(("powf", "i", ty, form, hx(a), hx(e)))
    # exponents with every pattern of trailing zero bits and set bits, a few hundred; BigUint exponents at the u64 / u128 edges (bases 0, 1)
    for a in (2, 3, -3, 10, B64 - 1, -(B64 + 1)):
        for e in (14, 18, 20, 24, 28, 36, 40, 48, 63, 65, 96, 129, 192, 200, 256, 300, 384, 511, 512):
            if abs(a) > 10 and e > 129:
                continue
            cases.append(("ipow", hx(a), hx(e)))
            if a > 0:
                cases.append(("upow", hx(a), hx(e)))
                cases.append(("upow_big", hx(a), hx(e)))
    for a in (2, 3, B64 + 1):
        for e in (1 << 128, (1 << 128) + 5, (1 << 129) + 3, (1 << 191) + 1, (1 << 192) + 2, (5 << 192) + 7, (1 << 256) + 1, (1 << 320)):
            for form in ("vv", "vr", "rv", "rr"):
                cases.append(("powf", "u", "big", form, hx(a), hx(e)))
                cases.append(("powf", "i", "big", form, hx(-a), hx(e)))
    for a in (0, 1):
        for e in (B64 - 1, B64, B64 + 1, (1 << 128) - 1, 1 << 128, (1 << 128) + 1, 1 << 200):
            for op in ("upow_big", "upow_big_rv", "upow_big_rr"):
                cases.append((op, hx(a), hx(e)))
            cases.append(("ipow_big", hx(-a), hx(e)))
            cases.append(("ipow_big", hx(-a), hx(e + 1)))
    return cases


def bank(pid, tier, seed):
    if pid == "C14":
        # "fails only in documented cases" spans the other properties' operations
        core = bank("C14core", tier, seed)
        out = core[-3000:]                                # the tail holds the cases specific to C14 (documented panics): first
        subs = [core[:-3000]] + [bank(other, "quick", seed)[:40000] for other in ("C01", "C06", "C07", "C05", "C11", "C12")]
        # round-robin in chunks, so that a run cut short by its time budget has sampled every operation family
        CH = 2000
        k = 0
        while any(k < len(sb) for sb in subs):
            for sb in subs:
                out += sb[k:k + CH]
            k += CH
        return out
    if pid == "C14core":
        pid = "C14"
    rng = random.Random(seed * 7919 + sum(map(ord, pid)))
    cases = []
    L = lens(tier)
    reps = 3 if tier == "quick" else 8

    def pairs(maxlen=None):
        for la in L:
            for lb in L:
                if maxlen and (la > maxlen or lb > maxlen):
                    continue
                if tier == "quick" and la > 34 and lb > 34 and la != lb and rng.random() < 0.5:
                    continue
                for _ in range(reps if la < 40 and lb < 40 else 1):
                    yield big(rng, la), big(rng, lb)
        for la in L[:12]:
            yield big(rng, la, "ones"), 1
            yield big(rng, la, "ones"), big(rng, la, "ones")
            yield (1 << (64 * la)), 1

    def signed(p):
        for a, b in p:
            for sa in (1, -1):
                for sb in (1, -1):
                    yield sa * a, sb * b

    if pid == "C01":
        cases += scalar_cases(rng, ("add", "sub"))
    if pid in ("C01", "C15"):
        for a, b in pairs(70 if tier == "quick" else None):
            for op in ("uadd", "uadd_assign", "uadd_vv", "uadd_vr"):
                cases.append((op, hx(a), hx(b)))
                cases.append((op, hx(b), hx(a)))
            for op in ("usub", "usub_rv", "usub_assign", "uchecked_sub"):
                cases.append((op, hx(a), hx(b)))
                cases.append((op, hx(b), hx(a)))
                cases.append((op, hx(a + b), hx(b)))
                cases.append((op, hx(a + b), hx(a)))
            if b < (1 << 128):
                cases.append(("uadd_u128", hx(a), hx(b)))
                cases.append(("usub_u128", hx(a), hx(b)))
                cases.append(("usub_u128", hx(0), hx(b)))
            if b < B64:
                cases.append(("uadd_u64", hx(a), hx(b)))
                cases.append(("usub_u64", hx(a), hx(b)))
                cases.append(("u64_sub_u", hx(b), hx(a)))
        for a, b in signed(pairs(34)):
            for op in ("iadd", "iadd_vv", "iadd_vr", "iadd_rv", "iadd_assign", "isub", "isub_vv", "isub_vr", "isub_rv", "isub_assign"):
                cases.append((op, hx(a), hx(b)))
        for a, b in signed(list(pairs(6))[::4]):
            for op in ("ichecked_add", "ichecked_sub", "ichecked_add_t", "ichecked_sub_t"):
                cases.append((op, hx(a), hx(b)))
            cases.append(("uchecked_add", hx(abs(a)), hx(abs(b))))
            cases.append(("isum", hx(a), hx(b), hx(-a), hx(1)))
            cases.append(("usum", hx(abs(a)), hx(abs(b)), hx(abs(a))))
        cases.append(("usum",))
        cases.append(("isum",))
    elif pid == "C02":
        cases += scalar_cases(rng, ("mul",))
        for a, b in pairs():
            cases.append(("umul", hx(a), hx(b)))
        # regime boundaries of mac3: schoolbook <= 32, half-Karatsuba (2x <= y), Karatsuba <= 256, Toom-3 above; unbalanced shapes
        for (la, lb) in [(32, 32), (33, 33), (33, 64), (33, 65), (33, 66), (33, 67), (40, 200), (64, 129), (100, 150), (200, 300), (256, 256),
                         (257, 257), (257, 300), (257, 400), (257, 513), (260, 390), (300, 450), (300, 500), (300, 599), (300, 600), (320, 481),
                         (400, 700), (513, 513)]:
            for pat in (None, "ones", "rand"):
                a = big(rng, la, pat)
                b = big(rng, lb, pat)
                cases.append(("umul", hx(a), hx(b)))
                cases.append(("umul", hx(b), hx(a)))
            cases.append(("imul", hx(-big(rng, la)), hx(big(rng, lb))))
        for a, b in signed(pairs(10)):
            cases.append(("imul", hx(a), hx(b)))
        for a, b in pairs(12):
            for op in ("umul_vv", "umul_vr", "umul_rv", "umul_assign", "umul_assign_v"):
                cases.append((op, hx(a), hx(b)))
        for a, b in signed(pairs(4)):
            for op in ("imul_vv", "imul_vr", "imul_rv", "imul_assign"):
                cases.append((op, hx(a), hx(b)))
        # (B^k + c)^2-like shapes: cross term of Karatsuba with both differences of the same sign and full length
        for kl in (33, 35, 67, 101):
            for c in (1, 3, (1 << 64) - 1):
                x = (1 << (128 * kl)) + c
                cases.append(("umul", hx(x), hx(x)))
                cases.append(("umul", hx(x), hx(x + 2)))
        for a, _ in pairs(20):
            for s in EDGE:
                cases.append(("umul_u64", hx(a), hx(s)))
        # sparse operands, zero digits inside and at both ends of the operands, squares, at every regime
        for la in (1, 2, 31, 32, 33, 34, 63, 64, 65, 66, 96, 99, 255, 256, 257, 258, 259, 384, 513):
            sparse = (1 << (64 * (la - 1))) + 1
            holes = big(rng, la, "rand") & ~(((1 << (64 * (la // 3 + 1))) - 1) << (64 * (la // 3))) | (1 << (64 * la - 1))
            tz = big(rng, max(la - la // 2, 1), "ones") << (64 * (la // 2))
            for x in (sparse, holes, tz):
                cases.append(("umul", hx(x), hx(x)))
                cases.append(("umul", hx(x), hx(big(rng, la, "ones"))))
                cases.append(("umul", hx(x), hx(big(rng, 2 * la + 1, "rand"))))
                cases.append(("umul", hx(big(rng, max(la // 2, 1), "edge")), hx(x)))
        for a, b in signed(list(pairs(5))[::4]):
            cases.append(("ichecked_mul", hx(a), hx(b)))
            cases.append(("ichecked_mul_t", hx(a), hx(b)))
            cases.append(("uchecked_mul", hx(abs(a)), hx(abs(b))))
            cases.append(("iproduct", hx(a), hx(b), hx(-1), hx(a)))
            cases.append(("uproduct", hx(abs(a)), hx(abs(b)), hx(3)))
        cases.append(("uproduct",))
        cases.append(("iproduct",))
    elif pid in ("C03", "C14"):
        if pid == "C03":
            cases += scalar_cases(rng, ("div", "rem"))
        for a, b in pairs(66):
            for x, y in ((a, b), (a * b + (b // 2 if b else 0), b), (a * b, b), (a, a), (a + 1, a), (a, a + 1)):
                for op in ("udivrem", "udiv", "urem", "udiv_ceil", "uchecked_div", "uchecked_div_rem_euclid", "uchecked_rem_euclid"):
                    cases.append((op, hx(x), hx(y)))
        for a, b in pairs(8):
            for op in ("udiv_vv", "udiv_assign", "urem_vv", "urem_assign"):
                cases.append((op, hx(a), hx(b)))
        for a, b in signed(pairs(5)):
            for op in ("idiv_vv", "idiv_assign", "irem_vv", "irem_assign"):
                cases.append((op, hx(a), hx(b)))
        for a, b in signed(pairs(6)):
            for op in ("idivrem", "idiv", "irem", "idiv_floor", "imod_floor", "idiv_mod_floor", "idiv_ceil", "idiv_euclid", "irem_euclid",
                       "idiv_rem_euclid", "ichecked_div", "ichecked_div_euclid", "ichecked_rem_euclid", "ichecked_div_rem_euclid"):
                cases.append((op, hx(a), hx(b)))
        # Knuth D corner patterns: trial digit too large by 1 or 2, top remainder digit equal to the divisor's top digit, add-back;
        # every normalisation shift of the divisor's top digit
        M = B64 - 1
        pats = []
        for top in (1 << 63, (1 << 63) + 1, M, M - 1, 1, 3, 0x8000000000000001, 0x7fffffffffffffff):
            for second in (0, 1, M, 1 << 63):
                for third in (0, M):
                    pats.append(top << 128 | second << 64 | third)
                    pats.append(top << 64 | second)
        for v in pats:
            for sh in (0, 1, 2, 31, 32, 33, 61, 62, 63):
                vv = v >> sh
                if vv == 0:
                    continue
                for q in (M, M - 1, B64, (M << 64) | M, (1 << 63), (1 << 127) + 1, ((1 << 63) << 64) | M):
                    for r in (0, 1, vv - 1, vv // 2):
                        if r < vv:
                            cases.append(("udivrem", hx(q * vv + r), hx(vv)))
                # dividend whose leading digits repeat the divisor's leading digits
                cases.append(("udivrem", hx((vv << 64) | (vv - 1 if vv > 1 else 0)), hx(vv)))
                cases.append(("udivrem", hx((vv << 128) - 1), hx(vv)))
                cases.append(("udivrem", hx(((vv << 64) - 1) << 64), hx(vv)))
        # the classical add-back example scaled to 64-bit digits
        cases.append(("udivrem", hx((0x7fffffffffffffff << 192) | (1 << 191)), hx((1 << 191) | 1)))
        cases.append(("udivrem", hx((0x7fffffffffffffff << 192) | (1 << 191) | (M << 64)), hx((1 << 191) | 1)))
        for a, _ in pairs(8):
            for s in EDGE:
                for op in ("udiv_u64", "urem_u64", "u64_div_u", "u64_rem_u"):
                    cases.append((op, hx(a) if not op.startswith("u64") else hx(s), hx(s) if not op.startswith("u64") else hx(a)))
        if pid == "C14":
            for a, b in pairs(5):
                cases.append(("usub", hx(a), hx(b)))
                cases.append(("uchecked_sub", hx(a), hx(b)))
                cases.append(("uto_radix_le", hx(a), hx(rng.choice([0, 1, 2, 10, 256, 257, 512, 1000]))))
                cases.append(("uto_str", hx(a), hx(rng.choice([0, 1, 2, 10, 36, 37]))))
                cases.append(("umodpow", hx(a), hx(b % 1000), hx(rng.choice([0, 1, 2, b]))))
                cases.append(("unth_root", hx(a), hx(rng.choice([0, 1, 2, 3]))))
                cases.append(("ushl_i32", hx(a), hx(rng.choice([-1, 0, 5]))))
    if pid == "C15":
        # the unchecked byte-to-String conversion: every radix outside 2..=36 must be refused before a digit is mapped to a byte
        for a in [0, 1, 35, 36, 255, B64 - 1, B64, big(rng, 3), big(rng, 7, "ones")]:
            for r in (0, 1, 2, 10, 16, 35, 36, 37, 64, 100, 200, 255, 256, 257):
                cases.append(("uto_str", hx(a), hx(r)))
                cases.append(("ito_str", hx(-a), hx(r)))
    elif pid == "C04":
        for a, b in signed(pairs(6)):
            for op in ("ior", "iand", "ixor", "iadd", "isub", "iadd_assign", "isub_assign"):
                cases.append((op, hx(a), hx(b)))
            cases.append(("icmp", hx(a), hx(b)))
            cases.append(("icmp", hx(a), hx(a)))
        for a, b in pairs(10):
            cases.append(("ucmp", hx(a), hx(b)))
            cases.append(("ueq", hx(a), hx(a)))
            cases.append(("usub", hx(a + b), hx(a)))
            cases.append(("uxor", hx(a), hx(a)))
        for n in range(0, 6):
            for z in range(0, 4):
                d = [format(rng.choice(EDGE) & 0xffffffff, "x") for _ in range(n)] + ["0"] * z
                cases.append(("unew",) + tuple(d))
                cases.append(("uassign_from_slice", hx(big(rng, 3))) + tuple(d))
        for s in ("-", "0", "+"):
            for a in (0, 1, B64, big(rng, 3)):
                cases.append(("ifrom_biguint", s, hx(a)))
        # in-place bit updates that shorten or lengthen the magnitude, hashing / partial order after different histories
        P2 = [(1 << k) + d for k in (0, 1, 63, 64, 65, 127, 128, 192) for d in (-1, 0, 1) if (1 << k) + d > 0]
        for x in P2:
            for sgn_ in (1, -1):
                for k in (0, 1, 5, 62, 63, 64, 65, 127, 128, 191, 192, 200):
                    cases.append(("iset_bit", hx(sgn_ * x), hx(k), "1"))
                    cases.append(("iset_bit", hx(sgn_ * x), hx(k), "0"))
        for a, b in signed(list(pairs(5))[::3]):
            cases.append(("ihash_eq", hx(a), hx(a)))
            cases.append(("ihash_eq", hx(a), hx(b)))
            cases.append(("ihash_eq", hx(a), hx(-a)))
            cases.append(("uhash_eq", hx(abs(a)), hx(abs(a))))
            cases.append(("uhash_eq", hx(abs(a)), hx(abs(b))))
        cases.append(("udefault",))
        cases.append(("idefault",))
        OPS = ["add", "sub", "mul", "div", "rem", "and", "or", "xor", "shl", "shr", "setbit", "clrbit", "zero", "one", "clone_from", "neg"]
        for _ in range(400 if tier == "quick" else 3000):
            x = rng.choice([1, -1]) * big(rng, rng.randrange(0, 6))
            seq = []
            for _ in range(rng.randrange(2, 9)):
                o = rng.choice(OPS)
                if o in ("shl", "shr", "setbit", "clrbit"):
                    y = rng.choice([0, 1, 63, 64, 65, 127, 128, 191, 192, 200, 300])
                elif o in ("div", "rem"):
                    y = rng.choice([1, -1]) * (big(rng, rng.randrange(1, 4)) or 1)
                else:
                    y = rng.choice([1, -1]) * big(rng, rng.randrange(0, 5), rng.choice([None, "ones", "zero", "edge"]))
                seq += [o, hx(y)]
            cases.append(("imut", hx(x)) + tuple(seq))
    elif pid == "C05":
        for a, b in pairs(5):
            for m in (1, 2, 3, 4, 97, B64 - 1, B64, B64 + 1, big(rng, 2), big(rng, 3) | 1, big(rng, 3) & ~1 or 2):
                e = rng.choice([0, 1, 2, 3, 65537, b % (1 << 70)])
                cases.append(("umodpow", hx(a), hx(e), hx(m)))
                cases.append(("umodinv", hx(a), hx(m)))
                for sa in (1, -1):
                    for sm in (1, -1):
                        cases.append(("imodpow", hx(sa * a), hx(e), hx(sm * m)))
                        cases.append(("imodinv", hx(sa * a), hx(sm * m)))
        # exponents with zero 4-bit windows, zero low digits, powers of two; moduli with all-ones / minimal top digits (0, 1 or 2
        # final subtractions of the almost-Montgomery result), even moduli with whole zero digits, |m| = 1
        exps = [1 << 64, 1 << 128, (1 << 130) + (1 << 4), 0xf0f0f0f0f0f0f0f0f0f0, (0xf << 124) | 0xf, (1 << 200) - 1, 0x1000000000000000100000000000000, 16, 15, 17, 255, 256]
        mods = [M64 for M64 in (B64 - 1, (1 << 128) - 1, (1 << 192) - 1, (1 << 64) + 1, (1 << 128) + 1, (1 << 127) + 1, (1 << 63) | 1, 3 << 126 | 1,
                                (B64 - 1) << 64 | 1, 1 << 64, 1 << 128, (1 << 128) + (1 << 64), 6 << 64, 1, 2, 4)]
        bases = [0, 1, 2, B64 - 1, B64, (1 << 128) - 1, (1 << 192) + 5, big(rng, 3), big(rng, 1)]
        for m in mods:
            for bb in bases:
                for e in exps[:6] if tier == "quick" else exps:
                    cases.append(("umodpow", hx(bb), hx(e), hx(m)))
                for e in (0, 1, 16, 255):
                    for sa in (1, -1):
                        for sm in (1, -1):
                            cases.append(("imodpow", hx(sa * bb), hx(e), hx(sm * m)))
                cases.append(("umodinv", hx(bb), hx(m)))
                cases.append(("imodinv", hx(-bb), hx(-m)))
    elif pid == "C06":
        for r in (0, 1, 257, 1000):
            cases.append(("ufrom_radix_le", hx(r), "1"))
            cases.append(("ufrom_radix_be", hx(r), "1"))
        for r in (2, 10, 256):
            cases.append(("ufrom_radix_le", hx(r)))
            cases.append(("ufrom_radix_be", hx(r), "0", "0", "1"))
        # byte-digit import: a digit equal to the radix (and one above, one below) at every position, both orders
        for r in (2, 3, 4, 8, 10, 16, 36, 100, 128, 255, 256):
            for n in (1, 2, 5, 40):
                for pos in sorted(set([0, n // 2, n - 1])):
                    for dv in (r - 1, r, r + 1):
                        if dv > 255:
                            continue
                        d = [rng.randrange(r) for _ in range(n)]
                        d[-1] = max(d[-1], 1)
                        d[pos] = dv
                        cases.append(("ufrom_radix_le", hx(r)) + tuple(format(x, "x") for x in d))
                        cases.append(("ufrom_radix_be", hx(r)) + tuple(format(x, "x") for x in reversed(d)))
        for a, _ in pairs(8):
            for r in (2, 3, 7, 8, 10, 16, 32, 36):
                cases.append(("uto_str", hx(a), hx(r)))
                cases.append(("ito_str", hx(-a), hx(r)))
            for r in (2, 3, 10, 16, 100, 255, 256, 0, 1, 257, 512, 1000):
                cases.append(("uto_radix_le", hx(a), hx(r)))
                cases.append(("uto_radix_be", hx(a), hx(r)))
            for r in (0, 1, 37, 64):
                cases.append(("uto_str", hx(a), hx(r)))
            for spec in ("x", "X", "o", "b", "#x", "08x", "+", "d"):
                if a % 5 == 0 or a < 300:
                    cases.append(("ufmt", hx(a), spec))
                    cases.append(("ifmt", hx(-a), spec))
                    cases.append(("ifmt", hx(a), spec))
        # text parsing: emitted text in every decoration the grammar allows, and the ill-formed neighbours
        digs36 = "0123456789abcdefghijklmnopqrstuvwxyz"

        def text(n, r):
            t = ""
            while n:
                t = digs36[n % r] + t
                n //= r
            return t or "0"
        for a, _ in list(pairs(6))[::12]:
            for r in (2, 7, 10, 16, 36):
                t = text(a, r)
                k = 1 + rng.randrange(len(t))
                deco = [t, "+" + t, t.upper(), "00" + t, t[:k] + "_" + t[k:], t[:k] + "__" + t[k:] + "_", "+" + t[:1] + "_" + t[1:],
                        "_" + t, "+_" + t, "++" + t, "+-" + t, "-+" + t, "--" + t, t + "+", t + digs36[r] if r < 36 else t + "!", "+", "_", '""', "+0", "0_"]
                for d in deco:
                    cases.append(("ufrom_str", '"%s"' % d if d != '""' else d, hx(r)))
                    cases.append(("ifrom_str", '"%s"' % d if d != '""' else d, hx(r)))
                    if d not in ('""',) and not d.startswith(("+", "-")):
                        cases.append(("ifrom_str", '"-%s"' % d, hx(r)))
            cases.append(("ufrom_str", '"1"', hx(1)))
            cases.append(("ifrom_str", '"1"', hx(37)))
        # values around the 64-digit threshold of the chunked export and long inputs of the chunked import; every radix
        for nd in (62, 63, 64, 65, 66, 129, 130):
            for pat in ("rand", "ones", None):
                v = big(rng, nd, pat)
                for r in (3, 7, 10, 36, 2, 16):
                    cases.append(("uto_str", hx(v), hx(r)))
                    cases.append(("ufrom_str", '"%s"' % text(v, r), hx(r)))
                for r in (3, 10, 100, 255, 256, 128, 8):
                    cases.append(("uto_radix_le", hx(v), hx(r)))
                    cases.append(("uto_radix_be", hx(v), hx(r)))
            v = 10 ** (19 * nd)  # long runs of zero output digits
            cases.append(("uto_str", hx(v), hx(10)))
            cases.append(("uto_str", hx(v - 1), hx(10)))
            cases.append(("ufrom_str", '"%s"' % str(v), hx(10)))
        for v in (0, 1, 35, 36, B64 - 1, B64, big(rng, 2), big(rng, 5)):
            for r in range(2, 37):
                cases.append(("uto_str", hx(v), hx(r)))
                cases.append(("ito_str", hx(-v), hx(r)))
                cases.append(("ufrom_str", '"%s"' % text(v, r), hx(r)))
                cases.append(("ifrom_str", '"-%s"' % text(v, r).upper(), hx(r)))
            cases.append(("uparse", '"%d"' % v))
            cases.append(("iparse", '"-%d"' % v))
            cases.append(("iparse", '"+%d"' % v))
        for r in (2, 10, 16, 36):
            good = [format(c, "x") for c in text(big(rng, 2), r).encode()]
            cases.append(("uparse_bytes", hx(r)) + tuple(good))
            cases.append(("iparse_bytes", hx(r), "2d") + tuple(good))
            cases.append(("uparse_bytes", hx(r)) + tuple(good) + ("ff",))
            cases.append(("uparse_bytes", hx(r), "c3", "28") + tuple(good))
            cases.append(("iparse_bytes", hx(r)) + tuple(good[:1]) + ("e2", "82") + tuple(good))
            cases.append(("uparse_bytes", hx(r), "c3", "a9") + tuple(good))
            cases.append(("uparse_bytes", hx(r)))
    elif pid == "C07":
        for a, b in signed(pairs(5)):
            for op in ("iand", "ior", "ixor", "iand_assign", "ior_assign", "ixor_assign", "iand_vr", "ior_vr", "ixor_vr"):
                cases.append((op, hx(a), hx(b)))
                cases.append((op, hx(b), hx(a)))
            cases.append(("inot", hx(a)))
            cases.append(("inot_ref", hx(a)))
            for k in (0, 1, 63, 64, 65, 127, 128, 200):
                cases.append(("ishl", hx(a), hx(k)))
                cases.append(("ishr", hx(a), hx(k)))
                cases.append(("ibit", hx(a), hx(k)))
                cases.append(("iset_bit", hx(a), hx(k), "1"))
                cases.append(("iset_bit", hx(a), hx(k), "0"))
        # every shift form for every shift-amount type; right shifts of negatives whose trailing-zero count exceeds what the
        # shift type can hold (the round-toward-minus-infinity rule compares the two), amounts at the type's extremes
        SHT = {"u8": 8, "u16": 16, "u32": 32, "u64": 64, "u128": 128, "usize": 64, "i8": 7, "i16": 15, "i32": 31, "i64": 63, "i128": 127, "isize": 63}
        for ty, w in SHT.items():
            kmax = (1 << w) - 1
            for tz in (0, 1, 63, 64, 127, 128, 129, 255, 256, 257, 300) + ((32767, 32768, 65535, 65536, 65537) if w <= 16 else ()):
                for odd in (1, 3, B64 + 1):
                    for k in sorted(set(kk for kk in (0, 1, 2, 63, 64, 65, 127, 128, 200, 255, 256, tz - 1, tz, tz + 1, kmax) if 0 <= kk <= min(kmax, 70000))):
                        for form in ("v", "r", "a"):
                            if form != "v" and not (k in (1, tz, kmax) or tz in (128, 256, 32768, 65536)):
                                continue
                            cases.append(("shf", "i", ty, "r", form, hx(-(odd << tz)), hx(k)))
                            if odd == 3:
                                cases.append(("shf", "i", ty, "r", form, hx(odd << tz), hx(k)))
                                cases.append(("shf", "u", ty, "r", form, hx(odd << tz), hx(k)))
            for k in (0, 1, 63, 64, 65, min(kmax, 200)):
                for form in ("v", "r", "a"):
                    cases.append(("shf", "i", ty, "l", form, hx(-(B64 + 5)), hx(k)))
                    cases.append(("shf", "u", ty, "l", form, hx(B64 + 5), hx(k)))
            if w >= 63:
                # amounts whose digit count does not fit usize (u128 / i128), and the largest amounts of the 64-bit types
                for k in sorted(set([kmax, kmax - 1] + ([1 << 70, (1 << 70) + 3, 1 << 100] if w >= 127 else []))):
                    for form in ("v", "r", "a"):
                        cases.append(("shf", "u", ty, "r", form, hx(12345), hx(k)))
                        cases.append(("shf", "i", ty, "r", form, hx(-987654321), hx(k)))
                        cases.append(("shf", "i", ty, "r", form, hx(B64 + 1), hx(k)))
                        cases.append(("shf", "u", ty, "r", form, hx(0), hx(k)))
                        cases.append(("shf", "u", ty, "l", form, hx(0), hx(k)))
                        cases.append(("shf", "i", ty, "l", form, hx(0), hx(k)))
            if ty.startswith("i"):
                for form in ("v", "r", "a"):
                    cases.append(("shf", "i", ty, "r", form, hx(-5), hx(-1)))
                    cases.append(("shf", "u", ty, "l", form, hx(5), hx(-(1 << w))))
        # powers of two and their neighbours across digit boundaries, all sign pairs, both operand orders
        P2S = [(1 << k) + d for k in (0, 1, 63, 64, 65, 127, 128, 129, 192, 256) for d in (-1, 0, 1) if (1 << k) + d > 0]
        for x in P2S:
            for y in P2S:
                for sa in (1, -1):
                    for sb in (1, -1):
                        for op in ("iand_assign", "ior_assign", "ixor_assign"):
                            cases.append((op, hx(sa * x), hx(sb * y)))
        for a, b in pairs(6):
            for op in ("uand", "uor", "uxor", "uand_assign", "uor_assign", "uxor_assign"):
                cases.append((op, hx(a), hx(b)))
                cases.append((op, hx(b), hx(a)))
            for k in (0, 1, 63, 64, 65, 130):
                cases.append(("ushl", hx(a), hx(k)))
                cases.append(("ushr", hx(a), hx(k)))
                cases.append(("ubit", hx(a), hx(k)))
                cases.append(("uset_bit", hx(a), hx(k), "0"))
                cases.append(("uset_bit", hx(a), hx(k), "1"))
            for op in ("ubits", "utrailing_zeros", "utrailing_ones", "ucount_ones"):
                cases.append((op, hx(a)))
    elif pid == "C08":
        TYS = ("u8", "u16", "u32", "u64", "u128", "usize", "i8", "i16", "i32", "i64", "i128", "isize")
        edges = set()
        for b in (7, 8, 15, 16, 31, 32, 63, 64, 127, 128):
            for d in (-2, -1, 0, 1, 2):
                edges.add((1 << b) + d)
                edges.add(-(1 << b) + d)
        edges |= {0, 1, -1, 2, -2}
        for ty in TYS:
            bits = 64 if ty in ("usize", "isize") else int(ty[1:])
            lo, hi = (0, (1 << bits) - 1) if ty[0] == "u" else (-(1 << (bits - 1)), (1 << (bits - 1)) - 1)
            for e in sorted(edges):
                cases.append(("cv", "i", ty, hx(e)))
                if e >= 0:
                    cases.append(("cv", "u", ty, hx(e)))
                if lo <= e <= hi:
                    cases.append(("fr", ty, hx(e)))
            for _ in range(reps * 2):
                v = rng.randrange(lo, hi + 1)
                cases.append(("fr", ty, hx(v)))
                cases.append(("cv", "i", ty, hx(v)))
                w = big(rng, rng.randrange(0, 4))
                cases.append(("cv", "i", ty, hx(-w)))
                cases.append(("cv", "u", ty, hx(w)))
        for e in sorted(edges):
            cases.append(("cv", "iu", "-", hx(e)))
            if e >= 0:
                cases.append(("cv", "ui", "-", hx(e)))
        for nd in range(0, 6):
            for _ in range(reps):
                w = big(rng, nd)
                cases.append(("cv", "iu", "-", hx(w)))
                cases.append(("cv", "iu", "-", hx(-w)))
                cases.append(("cv", "ui", "-", hx(w)))
        for nd in range(0, 20):
            for _ in range(reps * 4):
                a = big(rng, nd)
                for op in ("uto_u64", "uto_u128", "uto_i64", "uto_u32", "uto_f64"):
                    cases.append((op, hx(a)))
                for op in ("ito_i64", "ito_i128", "ito_u64", "ito_i8", "ito_f64"):
                    cases.append((op, hx(a)))
                    cases.append((op, hx(-a)))
        for hi in range(64, 200, 7):
            for mid in range(0, hi - 53, 5):
                for lo in (None, 0, 1, 63, 64, 65):
                    n = (1 << hi) + (1 << mid) + ((1 << lo) if lo is not None and lo < mid else 0)
                    cases.append(("uto_f64", hx(n)))
                    if mid == hi - 53 or mid == hi - 54:
                        cases.append(("uto_f64", hx(n + (1 << (hi - 52)))))
        for hi in range(64, 270):
            rb = hi - 53
            for lo in (0, 1, 31, 32, 63, 64, 65, 127, 128, rb - 1, rb - 64, rb - 65):
                if 0 <= lo < rb:
                    cases.append(("uto_f64", hx((1 << hi) + (1 << rb) + (1 << lo))))
                    cases.append(("ito_f64", hx(-((1 << hi) + (1 << rb) + (1 << lo)))))
            cases.append(("uto_f64", hx((1 << hi) + (1 << rb))))
            cases.append(("uto_f64", hx((1 << hi) + (3 << rb))))
        def fb(x):
            return format(struct.unpack("<Q", struct.pack("<d", float(x)))[0], "x")
        def fb32(x):
            return format(struct.unpack("<I", struct.pack("<f", float(x)))[0], "x")
        fl = [0.0, -0.0, 0.5, -0.5, 0.999, 1.0, -1.0, 1.5, -1.5, 2.0 ** 31, 2.0 ** 32, 2.0 ** 52, 2.0 ** 53, 2.0 ** 53 + 2, 2.0 ** 62, 2.0 ** 63, -(2.0 ** 63),
              2.0 ** 63 * 1.0000000000000002, 2.0 ** 64, -(2.0 ** 64), 2.0 ** 64 - 2048, 2.0 ** 100, 1e300, -1e300, 1.7976931348623157e308, 5e-324, 3.5e18, -9.3e18, 1.8446744073709552e19,
              2.0 ** 127, -(2.0 ** 127), 2.0 ** 128, 12345.678, -98765.4321]
        for f in fl:
            cases.append(("ufrom_f64", fb(f)))
            cases.append(("ifrom_f64", fb(f)))
            if abs(f) < 3e38:
                cases.append(("ufrom_f32", fb32(f)))
                cases.append(("ifrom_f32", fb32(f)))
        for special in ("7ff0000000000000", "fff0000000000000", "7ff8000000000000", "7ff0000000000001"):
            cases.append(("ufrom_f64", special))
            cases.append(("ifrom_f64", special))
        for special in ("7f800000", "ff800000", "7fc00000"):
            cases.append(("ufrom_f32", special))
            cases.append(("ifrom_f32", special))
        for k in range(0, 130):
            cases.append(("ifrom_f64", fb(2.0 ** k)))
            cases.append(("ifrom_f64", fb(-(2.0 ** k))))
            cases.append(("ufrom_f64", fb(2.0 ** k)))
        for e in (-(1 << 63), (1 << 63) - 1, -(1 << 127), (1 << 127) - 1, 1 << 63, 1 << 127, -(1 << 63) - 1, -(1 << 127) - 1, -128, 127, -129, 128):
            for op in ("ito_i64", "ito_i128", "ito_i8", "ito_u64"):
                cases.append((op, hx(e)))
        # f32: exactly-half / just-below / just-above patterns with the deciding bit far down, carry into the next power of two
        for hi in list(range(23, 60)) + [63, 64, 65, 100, 126, 127, 128, 129, 200]:
            rb = hi - 24
            if rb < 0:
                cases.append(("uto_f32", hx((1 << hi) + 1)))
                continue
            base = (1 << hi) + (rng.getrandbits(23) << (rb + 1))
            for extra in (0, 1 << rb, (1 << rb) + 1, (1 << rb) - 1 if rb else 0, (1 << rb) + (1 << (rb // 2)), (3 << rb)):
                cases.append(("uto_f32", hx(base + extra)))
            cases.append(("uto_f32", hx((1 << (hi + 1)) - 1)))
        # powers of two around the exponent limits, and bit lengths at which `bits() - 64` no longer fits i32 / u32 (a 2^31- or 2^32-bit value
        # is 256 / 512 MiB, so these are built inside the driver)
        for k in (0, 1, 63, 64, 126, 127, 128, 129, 1022, 1023, 1024, 1025, 4096, (1 << 31) + 63, (1 << 31) + 64, (1 << 32) + 63, (1 << 32) + 64, (1 << 32) + 70, (1 << 32) + 63 + 1023):
            if tier == "quick" and k > (1 << 31) + 64 and k != (1 << 32) + 70:
                continue
            for w in ("64", "32"):
                cases.append(("shlf", "u", w, hx(k)))
                cases.append(("shlf", "-", w, hx(k)))
        # from_f64 with fractional parts, random mantissas and every exponent class
        for ex in (-1080, -1074, -1022, -60, -53, -2, -1, 0, 1, 5, 51, 52, 53, 54, 62, 63, 64, 65, 127, 128, 500, 1023):
            for _ in range(3):
                fv = math.ldexp(1.0 + rng.random(), ex) if ex > -1022 else math.ldexp(rng.random(), -1022)
                for sg_ in (1.0, -1.0):
                    cases.append(("ufrom_f64", fb(sg_ * fv)))
                    cases.append(("ifrom_f64", fb(sg_ * fv)))
    elif pid == "C09":
        for a, _ in pairs(5):
            for op in ("uto_bytes_le", "uto_bytes_be", "ito_signed_bytes_le", "ito_signed_bytes_be"):
                cases.append((op, hx(a)))
                if op.startswith("i"):
                    cases.append((op, hx(-a)))
            for script in ("nnnnnl", "bbbl", "nbnbnbl", "nL", "nnL", "nnnL", "bL", "nc", "lnlblL", "t0t1l", "t2L", "nbc", "bnL", "nnnnc"):
                cases.append(("uiter32", hx(a), script))
                cases.append(("uiter64", hx(a), script))
        for k in range(1, 10):
            for v in (-(1 << (8 * k - 1)), (1 << (8 * k - 1)) - 1, (1 << (8 * k - 1)), -(1 << (8 * k - 1)) - 1, -1, 0):
                cases.append(("ito_signed_bytes_le", hx(v)))
                cases.append(("ito_signed_bytes_be", hx(v)))
        for a, _ in list(pairs(5))[::2]:
            for v in (a, -a):
                for op in ("ito_bytes_le", "ito_bytes_be", "ito_u32_digits", "ito_u64_digits"):
                    cases.append((op, hx(v)))
            d = [format(x, "x") for x in a.to_bytes(max(1, (a.bit_length() + 7) // 8), "little")] + ["0"] * rng.randrange(3)
            for sg_ in ("-", "0", "+"):
                cases.append(("ifrom_bytes_le", sg_) + tuple(d))
                cases.append(("ifrom_bytes_be", sg_) + tuple(reversed(d)))
            nd = (a.bit_length() + 63) // 64
            for k in sorted(set([0, 1, max(nd - 1, 0), nd, nd + 1])):
                cases.append(("uiter64_nth", hx(a), hx(k)))
            # unsigned byte import (leading zero bytes allowed), u32-digit constructors (odd counts, trailing zero digits)
            for pad in (0, 1, 9):
                dd = d + ["0"] * pad
                cases.append(("ufrom_bytes_le",) + tuple(dd))
                cases.append(("ufrom_bytes_be",) + tuple(reversed(dd)))
            w32 = [format((a >> (32 * i)) & 0xffffffff, "x") for i in range(max(1, (a.bit_length() + 31) // 32))]
            for pad in (0, 1, 2, 3):
                cases.append(("unew",) + tuple(w32 + ["0"] * pad))
                cases.append(("uassign_from_slice", hx(big(rng, 3))) + tuple(w32 + ["0"] * pad))
            # two's-complement import: minimal encodings, sign-extended ones, both signs
            for v in (a, -a, a >> 1, -(a >> 1)):
                k = (v.bit_length() // 8) + 1
                for extra in (0, 1, 8):
                    bs = [format(x, "x") for x in v.to_bytes(k + extra, "little", signed=True)]
                    cases.append(("ifrom_signed_bytes_le",) + tuple(bs))
                    cases.append(("ifrom_signed_bytes_be",) + tuple(reversed(bs)))
        for bs in ([], ["0"], ["80"], ["ff"], ["7f"], ["0", "80"], ["80", "0"], ["ff", "7f"], ["0", "0", "80"], ["ff", "ff", "ff"], ["0"] * 9, ["ff"] * 9, ["0"] * 8 + ["80"], ["80"] + ["0"] * 8):
            for op in ("ifrom_signed_bytes_le", "ifrom_signed_bytes_be", "ufrom_bytes_le", "ufrom_bytes_be"):
                cases.append((op,) + tuple(bs))
        cases.append(("unew",))
        for a, _ in list(pairs(5))[::3]:
            w32 = [format((a >> (32 * i)) & 0xffffffff, "x") for i in range(max(1, (a.bit_length() + 31) // 32))]
            for pad in (0, 1, 2):
                cases.append(("ufrom_slice",) + tuple(w32 + ["0"] * pad))
                for sg_ in ("-", "0", "+"):
                    cases.append(("ifrom_slice", sg_) + tuple(w32 + ["0"] * pad))
                    cases.append(("inew", sg_) + tuple(w32 + ["0"] * pad))
                    cases.append(("iassign_from_slice", hx(-big(rng, 2)), sg_) + tuple(w32 + ["0"] * pad))
            cases.append(("utraitbytes", hx(a)))
            cases.append(("itraitbytes", hx(a)))
            cases.append(("itraitbytes", hx(-a)))
        for k in range(1, 10):
            for v in (-(1 << (8 * k - 1)), (1 << (8 * k - 1)) - 1, (1 << (8 * k - 1)), -(1 << (8 * k - 1)) - 1):
                cases.append(("itraitbytes", hx(v)))
        for sg_ in ("-", "0", "+"):
            cases.append(("ifrom_slice", sg_))
            cases.append(("ifrom_slice", sg_, "0", "0"))
    elif pid == "C10":
        bigs = [0, 1, 2, B64 - 1, B64, B64 + 1, (1 << 63), (1 << 127), (1 << 128) - 1, 1 << 128, (1 << 128) + (1 << 64), big(rng, 3), big(rng, 4, "ones"), big(rng, 5)]
        cases += scalar_cases(rng, ("add", "sub", "mul", "div", "rem"), bigs=bigs)
        for a in [0, 1, 2, 3, B64, big(rng, 2)]:
            for e in (0, 1, 2, 3, 5, 10, 64):
                for op in ("upow_big", "upow_big_rv", "upow_big_rr", "upow_u64"):
                    cases.append((op, hx(a), hx(e)))
                for op in ("ipow_big", "ipow_big_rv", "ipow_u8", "ipow_u128"):
                    cases.append((op, hx(-a), hx(e)))
                    cases.append((op, hx(a), hx(e)))
        # every shift form: {BigUint, BigInt} x {<<, >>} x 12 shift-amount types x {value, reference, assign}
        for ty, w in {"u8": 8, "u16": 16, "u32": 32, "u64": 64, "u128": 128, "usize": 64, "i8": 7, "i16": 15, "i32": 31, "i64": 63, "i128": 127, "isize": 63}.items():
            for x in (0, 1, B64 - 1, (3 << 128) + 1, 5 << 130):
                for k in (0, 1, 64, 100, min((1 << w) - 1, 130)):
                    for form in ("v", "r", "a"):
                        for d in ("l", "r"):
                            cases.append(("shf", "u", ty, d, form, hx(x), hx(k)))
                            cases.append(("shf", "i", ty, d, form, hx(-x), hx(k)))
        cases += pow_cases(rng)
        for a, _ in pairs(4):
            for s in (0, 1, 2, 127, 128, 255, (1 << 63), B64 - 1):
                cases.append(("i8_rem_assign_u", hx(-128), hx(s)))
                cases.append(("i64_rem_assign_u", hx(-(1 << 63)), hx(s)))
                cases.append(("i64_rem_assign_u", hx(rng.randrange(-(1 << 63), 1 << 63)), hx(a)))
                cases.append(("u64_rem_assign_u", hx(rng.getrandbits(64)), hx(a)))
            for s in EDGE:
                cases.append(("iadd_i64", hx(-a), hx(s - (1 << 63))))
                cases.append(("isub_i64", hx(a), hx(s - (1 << 63))))
                cases.append(("i64_sub_i", hx(s - (1 << 63)), hx(a)))
                cases.append(("idiv_i64", hx(a), hx(s - (1 << 63))))
                cases.append(("irem_i64", hx(-a), hx(s - (1 << 63))))
                cases.append(("i64_div_i", hx(s - (1 << 63)), hx(a)))
                cases.append(("i64_rem_i", hx(s - (1 << 63)), hx(-a)))
                cases.append(("imul_i64", hx(-a), hx(s - (1 << 63))))
    elif pid == "C11":
        # operands around the f64 exponent limit (the scaled-guess paths of sqrt/cbrt/nth_root) and just below powers of two
        for k in list(range(1020, 1032)) + [1535, 1536, 2047, 2048, 2049, 2050, 3071, 3072, 3073, 4096, 4099]:
            for c in (0, 1, 12345):
                x = (1 << k) - c
                cases.append(("usqrt", hx(x)))
                cases.append(("ucbrt", hx(x)))
                cases.append(("unth_root", hx(x), hx(3)))
                cases.append(("unth_root", hx(x), hx(5)))
                cases.append(("icbrt", hx(-x)))
        for nd in range(0, 12):
            for _ in range(reps):
                a = big(rng, nd)
                cases.append(("usqrt", hx(a)))
                cases.append(("ucbrt", hx(a)))
                cases.append(("usqrt", hx(a * a)))
                cases.append(("usqrt", hx(a * a - 1 if a else 0)))
                cases.append(("ucbrt", hx(a ** 3)))
                cases.append(("ucbrt", hx(a ** 3 - 1 if a else 0)))
                for n in (1, 2, 3, 4, 5, 7, 64, 65, 1000):
                    cases.append(("unth_root", hx(a), hx(n)))
                    cases.append(("inth_root", hx(-a), hx(n)))
        # perfect powers r^n and r^n +- 1, degrees above the bit length, the largest degree, the primitive fast path below 2^64
        for r in (2, 3, 10, (1 << 32) - 1, 1 << 32, (1 << 32) + 1, B64 - 1, B64, B64 + 1, big(rng, 2), big(rng, 3)):
            for n in (2, 3, 4, 5, 6, 7, 8, 11, 16, 31, 32, 33, 64):
                pw_ = r ** n
                if pw_.bit_length() > 9000:
                    continue
                for d in (-1, 0, 1):
                    cases.append(("unth_root", hx(pw_ + d), hx(n)))
                    if n % 2 == 1:
                        cases.append(("inth_root", hx(-(pw_ + d)), hx(n)))
                if n == 2:
                    for d in (-1, 0, 1):
                        cases.append(("usqrt", hx(pw_ + d)))
                if n == 3:
                    for d in (-1, 0, 1):
                        cases.append(("ucbrt", hx(pw_ + d)))
                        cases.append(("icbrt", hx(-(pw_ + d))))
        for a in (0, 1, 2, 3, 255, 256, (1 << 63) - 1, 1 << 63, B64 - 1, B64, big(rng, 3)):
            for n in (1, 2, 3, 63, 64, 65, 127, 128, 129, 200, 0xffffffff, 0xfffffffe):
                cases.append(("unth_root", hx(a), hx(n)))
            cases.append(("unth_root", hx(a), hx(0)))
            cases.append(("inth_root", hx(-a), hx(2)))
            cases.append(("isqrt", hx(-a)))
    elif pid == "C12":
        cases += pow_cases(rng)
        for a in [0, 1, 2, 3, B64 - 1, B64, big(rng, 2), big(rng, 3)]:
            for e in (0, 1, 2, 3, 4, 5, 6, 7, 8, 9, 10, 11, 12, 13, 15, 16, 17, 21, 31, 32, 33, 64, 100, 127, 255):
                cases.append(("upow", hx(a), hx(e)))
                cases.append(("ipow", hx(-a), hx(e)))
                cases.append(("ipow", hx(a), hx(e)))
                for op in ("upow_big", "upow_big_rv", "upow_big_rr", "upow_u64"):
                    cases.append((op, hx(a), hx(e)))
                for op in ("ipow_big", "ipow_big_rv", "ipow_u8", "ipow_u128"):
                    cases.append((op, hx(-a), hx(e)))
                    cases.append((op, hx(a), hx(e)))
    elif pid == "C13":
        for a, b in signed(pairs(5)):
            for op in ("igcd", "ilcm", "iis_multiple_of", "igcd_lcm"):
                cases.append((op, hx(a), hx(b)))
        for a, b in pairs(5):
            cases.append(("ugcd_lcm", hx(a), hx(b)))
            cases.append(("ugcd_lcm", hx(a * b), hx(b)))
        for a in [0, 1, 2, B64 - 1, B64, B64 + 1, (1 << 128) - 1, 1 << 128, big(rng, 3, "ones"), big(rng, 4)]:
            cases.append(("uincdec", hx(a)))
            cases.append(("iincdec", hx(a)))
            cases.append(("iincdec", hx(-a)))
        for a, b in pairs(6):
            for op in ("ugcd", "ulcm", "uis_multiple_of", "unext_multiple_of", "uprev_multiple_of"):
                cases.append((op, hx(a), hx(b)))
                cases.append((op, hx(a * b), hx(b)))
        for a, b in signed(list(pairs(5))[::2]):
            cases.append(("iextended_gcd", hx(a), hx(b)))
            cases.append(("iextended_gcd_lcm", hx(a), hx(b)))
            cases.append(("iextended_gcd_lcm", hx(a * b), hx(b)))
            cases.append(("idivides", hx(a), hx(b)))
            cases.append(("idivides", hx(a * b), hx(b)))
            cases.append(("iis_multiple_of", hx(0), hx(b)))
            cases.append(("idivides", hx(0), hx(b)))
            cases.append(("iis_even", hx(a)))
        for b in (0, 1, 5, B64, big(rng, 3)):
            cases.append(("uis_multiple_of", hx(0), hx(b)))
        # large common powers of two with differing trailing-zero counts spanning several digits, coprime cofactors
        for (sa, sb) in ((0, 0), (1, 63), (64, 64), (63, 65), (64, 130), (128, 129), (200, 70), (191, 192), (256, 1)):
            for (x, y) in ((1, 1), (3, 5), (big(rng, 2) | 1, big(rng, 3) | 1), (B64 - 1, B64 + 1), (15, 25)):
                a, b = x << sa, y << sb
                for op in ("ugcd", "ulcm", "uis_multiple_of"):
                    cases.append((op, hx(a), hx(b)))
                    cases.append((op, hx(b), hx(a)))
                for s1 in (1, -1):
                    for s2 in (1, -1):
                        cases.append(("igcd", hx(s1 * a), hx(s2 * b)))
                        cases.append(("ilcm", hx(s1 * a), hx(s2 * b)))
                        cases.append(("iextended_gcd", hx(s1 * a), hx(s2 * b)))
                        cases.append(("inext_multiple_of", hx(s1 * a), hx(s2 * b)))
                        cases.append(("iprev_multiple_of", hx(s1 * a), hx(s2 * b)))
        for a in (0, 5, -5, B64, -B64):
            for op in ("igcd", "ilcm", "iextended_gcd_lcm"):
                cases.append((op, hx(a), hx(0)))
                cases.append((op, hx(0), hx(a)))
                cases.append((op, hx(a), hx(a)))
                cases.append((op, hx(a), hx(-a)))
    elif pid == "C17":
        vals = [0, 1, (1 << 32) - 1, 1 << 32, (1 << 32) + 1, (1 << 64) - 1, 1 << 64, (1 << 64) + 1, (1 << 96) - 1, 1 << 96, (1 << 128) + (1 << 32)]
        vals += [a for a, _ in list(pairs(6))[::5]]
        for v in vals:
            cases.append(("sser_u", hx(v)))
            cases.append(("srec_u", hx(v)))
            cases.append(("srec_i", hx(v)))
            cases.append(("srec_i", hx(-v)))
            cases.append(("sround_u", hx(v)))
            for sg_ in (1, -1):
                cases.append(("sser_i", hx(sg_ * v)))
                cases.append(("sround_i", hx(sg_ * v)))
            ds = []
            m = v
            while m:
                ds.append(m & 0xffffffff)
                m >>= 32
            for pad in (0, 1, 2, 3):
                lst = "[" + ",".join(str(x) for x in ds + [0] * pad) + "]"
                cases.append(("sde_u", lst))
                for sj in (-1, 0, 1, 2, -2, 127):
                    cases.append(("sde_i", "[%d,%s]" % (sj, lst)))
        for bad in ("[4294967296]", "[-1]", "5", "[1,[2]]", "[1.5]", "[\"1\"]", "null", "[1,2", "{}"):
            cases.append(("sde_u", bad))
        for bad in ("[1]", "[1,[1],2]", "[[1],1]", "[1,[4294967296]]", "[true,[1]]", "[1,5]", "[]", "[1.0,[1]]", "[300,[1]]"):
            cases.append(("sde_i", bad))
    elif pid == "C18":
        def stream(n):
            pat = rng.choice(["rand", "small", "ones", "mixed"])
            ws = []
            for _ in range(n):
                if pat == "rand":
                    ws.append(rng.getrandbits(32))
                elif pat == "small":
                    ws.append(rng.choice([0, 1, 2, 0x7fffffff, 0x80000000, rng.getrandbits(8)]))
                elif pat == "ones":
                    ws.append(0xffffffff)
                else:
                    ws.append(rng.choice([0, 0xffffffff, 0x80000000, 0x7fffffff, rng.getrandbits(32), rng.getrandbits(31), 1]))
            # a tail of small words lets rejection loops terminate
            ws += [0x80000000, 0, 1, 0, 0, 0x7fffffff, 0, 0]
            return tuple(format(x, "x") for x in ws)
        for bits in (0, 1, 2, 31, 32, 33, 63, 64, 65, 95, 96, 97, 127, 128, 129, 191, 192, 193, 255, 256, 257, 1000, 1024):
            for _ in range(4 if tier == "quick" else 12):
                st = stream(2 * ((bits + 31) // 32) + 3)
                cases.append(("rgen_biguint", hx(bits)) + st)
                cases.append(("rgen_bigint", hx(bits)) + st)
                cases.append(("rbits_u", hx(bits)) + st)
                cases.append(("rbits_i", hx(bits)) + st)
        bounds = [0, 1, 2, 3, 5, 100, (1 << 31), (1 << 32) - 1, 1 << 32, (1 << 32) + 1, (1 << 63) + 5, (1 << 64) - 1, 1 << 64, (1 << 64) + 1, (1 << 95) + 7, (1 << 128) - 1, 1 << 128, big(rng, 3), big(rng, 5)]
        for b in bounds:
            for _ in range(3 if tier == "quick" else 10):
                st = stream(3 * ((b.bit_length() + 31) // 32) + 4)
                cases.append(("rgen_below", hx(b)) + st)
        for lo in (0, 1, 7, (1 << 64) - 3, big(rng, 2)):
            for span in (0, 1, 2, 9, 1 << 32, (1 << 64) + 1, big(rng, 2)):
                hi = lo + span
                for _ in range(2 if tier == "quick" else 6):
                    st = stream(3 * ((max(span, 1).bit_length() + 31) // 32) + 4)
                    cases.append(("rgen_urange", hx(lo), hx(hi)) + st)
                    cases.append(("rsingle_u", hx(lo), hx(hi)) + st)
                    cases.append(("runiform_u", "excl", hx(lo), hx(hi)) + st)
                    cases.append(("runiform_u", "incl", hx(lo), hx(hi)) + st)
                    for (l2, h2) in ((lo, hi), (-hi, -lo), (-lo, -lo + span), (-span, 0), (0, span), (-(span // 2), span - span // 2)):
                        cases.append(("rgen_irange", hx(l2), hx(h2)) + st)
                        cases.append(("rsingle_i", hx(l2), hx(h2)) + st)
                        cases.append(("runiform_i", "excl", hx(l2), hx(h2)) + st)
                        cases.append(("runiform_i", "incl", hx(l2), hx(h2)) + st)
        # inverted ranges panic
        cases.append(("rgen_urange", "5", "4", "1", "2"))
        cases.append(("rgen_irange", "5", "-4", "1", "2"))
        cases.append(("runiform_u", "incl", "5", "4", "1", "2"))
        cases.append(("runiform_i", "excl", "4", "4", "1", "2"))
    elif pid == "C19":
        for a, b in signed(pairs(4)):
            for op in ("iabs_sub",):
                cases.append((op, hx(a), hx(b)))
            for op in ("ineg", "iabs", "isignum", "ito_biguint"):
                cases.append((op, hx(a)))
        for s in ("-", "0", "+"):
            for a in (0, 1, B64, big(rng, 3)):
                cases.append(("ifrom_biguint", s, hx(a)))
            cases.append(("signneg", s))
            for s2 in ("-", "0", "+"):
                cases.append(("signmul", s, s2))
        # sign / magnitude / parts reports, both negations, identities and set_zero / set_one over values of every size, conversions between the types
        for a in [0, 1, 2, B64 - 1, B64, B64 + 1, (1 << 128) - 1, 1 << 128, big(rng, 3), big(rng, 5, "ones"), big(rng, 9)]:
            for v in (a, -a):
                for op in ("isignprops", "ineg_ref", "iident", "iconvs"):
                    cases.append((op, hx(v)))
            cases.append(("uident", hx(a)))
            cases.append(("uconvs", hx(a)))
    # dedupe
    seen = set()
    out = []
    for c in cases:
        if c not in seen:
            seen.add(c)
            out.append(c)
    return out


def search(pid, repo, tier, seed, budget_s=120):
    binary, err = build_driver(repo)
    if not binary:
        return None, "replay driver did not build: " + err[-500:], 0
    cases = bank(pid, tier, seed)
    global LAST_BANK_INFO
    mx = 0
    for c in cases:
        for a_ in c[1:]:
            if isinstance(a_, str) and len(a_) > mx and all(ch in "-0123456789abcdef" for ch in a_):
                mx = len(a_)
    LAST_BANK_INFO = {"cases_in_bank": len(cases), "max_operand_hex_digits": mx, "max_operand_64bit_digits": (mx + 15) // 16}
    t0 = time.time()
    n = 0
    CH = 4000
    for i in range(0, len(cases), CH):
        chunk = cases[i:i + CH]
        exp = [expected(c) for c in chunk]
        try:
            got = run_cases(binary, chunk, timeout=60)
        except subprocess.TimeoutExpired:
            c = find_hang(binary, chunk)
            ec = expected(c)
            return {"op": c[0], "args": list(c[1:]), "expected": (ec[2] if isinstance(ec, tuple) else ec) or "(terminates)", "observed": "TIMEOUT (no answer within 20 s)"}, "", n
        except Exception as e:
            return None, "driver run failed: %r" % e, n
        for c, e, g in zip(chunk, exp, got):
            n += 1
            if e is None:
                continue
            if isinstance(e, tuple) and e[0] == "ID":
                if not e[1](g.strip()):
                    return {"op": c[0], "args": list(c[1:]), "expected": e[2], "observed": g.strip()}, "", n
                continue
            if e != g.strip():
                return {"op": c[0], "args": list(c[1:]), "expected": e, "observed": g.strip()}, "", n
        if time.time() - t0 > budget_s:
            break
    return None, "", n


def find_and_write(pid, viol, repo, tier, seed):
    os.makedirs(os.path.join(ROOT, "replay", "out"), exist_ok=True)
    found, note, n = search(pid, repo, tier, seed)
    out = []
    for k, (name, u, d) in enumerate(viol):
        if u == "bounded" and isinstance(d, dict) and d.get("model"):
            found = d["model"]
        path = os.path.join(ROOT, "replay", "out", "%s-%s-%d.json" % (pid, str(u).replace(":", "_"), k))
        rec = {"property": pid, "obligation": name,
               "verifier_output": (d.get("rendered") if isinstance(d, dict) else None) or (d.get("detail") if isinstance(d, dict) else None) or str(d),
               "solver_model": d.get("model") if isinstance(d, dict) else None,
               "failing_input": found, "cases_tried": n, "note": note or ("" if found else "no-failing-input-found within the replay bank")}
        if found:
            # confirm once more against the real code
            binary, _ = build_driver(repo)
            try:
                again = run_cases(binary, [tuple([found["op"]] + found["args"])], timeout=20)[0].strip()
            except subprocess.TimeoutExpired:
                again = "TIMEOUT (no answer within 20 s)"
            rec["confirmed_observed"] = again
            e2 = expected(tuple([found["op"]] + found["args"]))
            if (isinstance(e2, tuple) and e2[1](again)) or again == found["expected"]:
                rec["failing_input"] = None
                found = None
        with open(path, "w") as f:
            json.dump(rec, f, indent=1, default=str)
        out.append((path, bool(rec["failing_input"])))
    return out


def replay_file(path, repo):
    with open(path) as f:
        rec = json.load(f)
    print("obligation:", rec.get("obligation"))
    fi = rec.get("failing_input")
    if not fi:
        print("no concrete input recorded (no-failing-input-found); verifier output follows")
        print(rec.get("verifier_output"))
        return 0
    binary, err = build_driver(repo)
    if not binary:
        print("driver build failed:", err)
        return 2
    got = run_cases(binary, [tuple([fi["op"]] + fi["args"])])[0].strip()
    print("case:", fi["op"], " ".join(fi["args"]))
    print("expected:", fi["expected"])
    print("observed:", got)
    e2 = expected(tuple([fi["op"]] + fi["args"]))
    if isinstance(e2, tuple):
        return 0 if e2[1](got) else 1
    return 1 if got != fi["expected"] else 0


if __name__ == "__main__":
    import sys
    pid = sys.argv[1]
    repo = os.environ.get("VERIF_REPO", "/repo")
    tier = sys.argv[2] if len(sys.argv) > 2 else "quick"
    t0 = time.time()
    r = search(pid, repo, tier, int(os.environ.get("VERIF_SEED", "0")), budget_s=600)
    print(r, "%.1fs" % (time.time() - t0))
