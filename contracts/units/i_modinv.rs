//@ unit i_modinv : BigInt::modinv sign/interval placement on top of BigUint::modinv (src/bigint.rs)
#![feature(allocator_api)]
use vstd::prelude::*;
use vstd::std_specs::iter::IteratorSpec;
use vstd::std_specs::ops::*;
use core::ops::{Sub, Neg};
verus! {
//@ include prelude/core.rs
//@ include prelude/std_specs.rs
//@ include prelude/panic.rs
//@ include prelude/val32.rs
//@ extract src/bigint.rs :: enum Sign attrs=1
#[derive(/*+*/Structural, /*-*/PartialEq, PartialOrd, Eq, Ord, Copy, Clone, Debug, Hash)]
pub enum Sign {
    Minus,
    NoSign,
    Plus,
}
//@ end
pub mod u {
use super::*;
use Sign::*;

//@ extract src/biguint.rs :: struct BigUint
pub struct BigUint {
    data: Vec<BigDigit>,
}
//@ end
//@ include prelude/biguint_view.rs

/// x is an inverse of a modulo m:  a*x = 1 + k*m for some integer k
pub open spec fn is_modinv(a: int, m: int, x: int) -> bool { exists|k: int| a * x == 1 + #[trigger] (k * m) }

impl BigUint {
//@ extract src/biguint.rs :: impl BigUint :: const ZERO rules=R9,R13 label=BigUint_ZERO
    exec const ZERO: Self /*+*/ensures Self::ZERO.data@.len() == 0 /*-*/{ BigUint { data: Vec::new() } }
//@ end
//@ stub u_core/is_zero
    //@ assume BigUint::modinv : extended-Euclid loop over BigUint %, div_rem, *, - (src/biguint.rs); unit pending. `None <=> gcd != 1` needs gcd theory and is not stated here
    #[verifier::external_body]
    pub fn modinv(&self, modulus: &Self) -> (r: Option<Self>)
        requires self.wf(), modulus.wf(), !mp() ==> modulus.v() != 0
        ensures mp() ==> modulus.v() != 0,
            r is Some ==> r.unwrap().wf() && r.unwrap().v() < modulus.v() && is_modinv(self.v() as int, modulus.v() as int, r.unwrap().v() as int)
    { unimplemented!() }
}
impl SubSpecImpl<BigUint> for &BigUint {
    open spec fn obeys_sub_spec() -> bool { false }
    open spec fn sub_req(self, rhs: BigUint) -> bool { self.wf() && rhs.wf() && (!mp() ==> self.v() >= rhs.v()) }
    open spec fn sub_spec(self, rhs: BigUint) -> BigUint { arbitrary() }
}
impl Sub<BigUint> for &BigUint {
    type Output = BigUint;
//@ stub u_addsub/sub_ref_val
}

//@ extract src/bigint.rs :: struct BigInt
pub struct BigInt {
    sign: Sign,
    data: BigUint,
}
//@ end
//@ include prelude/bigint_view.rs
//@ include prelude/bigint_core_stubs.rs

pub proof fn lemma_modinv_signs(aa: nat, mm: nat, r: nat)
    requires mm >= 1, r < mm, is_modinv(aa as int, mm as int, r as int)
    ensures
        is_modinv(-(aa as int), mm as int, mm - r),
        is_modinv(aa as int, -(mm as int), -(mm - r)),
        is_modinv(-(aa as int), -(mm as int), -(r as int)),
        is_modinv(aa as int, mm as int, r as int),
        r == 0 ==> mm == 1,
{
    let a = aa as int; let m = mm as int; let x = r as int;
    let k = choose|k: int| a * x == 1 + #[trigger] (k * m);
    assert((-a) * (m - x) == 1 + (k - a) * m) by (nonlinear_arith) requires a * x == 1 + k * m;
    assert(a * (-(m - x)) == 1 + (a - k) * (-m)) by (nonlinear_arith) requires a * x == 1 + k * m;
    assert((-a) * (-x) == 1 + (-k) * (-m)) by (nonlinear_arith) requires a * x == 1 + k * m;
    if r == 0 {
        assert(a * 0 == 0) by (nonlinear_arith);
        assert(k * m == -1);
        assert(m == 1) by (nonlinear_arith) requires k * m == -1, m >= 1;
    }
    lemma_modinv_zero(a, m);
}

/// modulo +-1 every x is an inverse; in particular 0
pub proof fn lemma_modinv_zero(a: int, m: int)
    ensures (m == 1 || m == -1) ==> is_modinv(a, m, 0)
{
    if m == 1 { assert(a * 0 == 1 + (-1) * 1) by (nonlinear_arith); assert(a * 0 == 1 + #[trigger] ((-1int) * m)); }
    if m == -1 { assert(a * 0 == 1 + 1 * (-1)) by (nonlinear_arith); assert(a * 0 == 1 + #[trigger] ((1int) * m)); }
}

impl BigInt {
//@ extract src/bigint.rs :: impl BigInt :: fn modinv rules=R0,R3d props=C05,C14
    pub fn modinv(&self, modulus: &Self) -> /*+*/(res: /*-*/Option<Self>/*+*/)/*-*/
//+{
        requires self.wfi(), modulus.wfi(), !mp() ==> modulus.iv() != 0
        ensures mp() ==> modulus.iv() != 0,
            res is Some ==> res.unwrap().wfi() && is_modinv(self.iv(), modulus.iv(), res.unwrap().iv())
                && (modulus.iv() > 0 ==> 0 <= res.unwrap().iv() < modulus.iv())
                && (modulus.iv() < 0 ==> modulus.iv() < res.unwrap().iv() <= 0),
//+}
    {
//+{
        proof { lemma_sgn_mul(self.sign, self.data.v()); lemma_sgn_mul(modulus.sign, modulus.data.v()); }
//+}
        let result = self.data.modinv(&modulus.data)?;
//+{
        proof {
            lemma_modinv_signs(self.data.v(), modulus.data.v(), result.v());
            lemma_modinv_zero(self.iv(), modulus.iv());
        }
//+}
        if result.is_zero() {
            return Some(Self::ZERO);
        }
        // The sign of the result follows the modulus, like `mod_floor`.
        let (sign, mag) = match (self.is_negative(), modulus.is_negative()) {
            (false, false) => (Plus, result),
            (true, false) => (Plus, Sub::sub(&modulus.data, result)),
            (false, true) => (Minus, Sub::sub(&modulus.data, result)),
            (true, true) => (Minus, result),
        };
//+{
        proof { lemma_sgn_mul(sign, mag.v()); }
//+}
        Some(BigInt::from_biguint(sign, mag))
    }
//@ end
}

} // mod u
} // verus!
fn main() {}
