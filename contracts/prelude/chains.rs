// Digit-wise carry / borrow chains: the form in which engine A proves the asm kernels.
pub open spec fn carry_at(a: Seq<u64>, b: Seq<u64>, j: nat) -> nat
    decreases j
{
    if j == 0 { 0 } else {
        if (a[(j - 1) as int] as nat) + (b[(j - 1) as int] as nat) + carry_at(a, b, (j - 1) as nat) >= B() { 1 } else { 0 }
    }
}

pub open spec fn sumdigit(a: Seq<u64>, b: Seq<u64>, j: int) -> u64 {
    (((a[j] as nat) + (b[j] as nat) + carry_at(a, b, j as nat)) % B()) as u64
}

pub proof fn lemma_carry_le1(a: Seq<u64>, b: Seq<u64>, j: nat)
    ensures carry_at(a, b, j) <= 1
{
}

/// chain => value
pub proof fn lemma_chain_add(a: Seq<u64>, b: Seq<u64>, n: Seq<u64>, k: nat)
    requires k <= a.len(), k <= b.len(), k <= n.len(),
        forall|j: int| 0 <= j < k ==> n[j] == sumdigit(a, b, j)
    ensures valp(n, k) + pw(k) * carry_at(a, b, k) == valp(a, k) + valp(b, k)
    decreases k
{
    if k == 0 {
        assert(pw(0) * 0 == 0) by (nonlinear_arith);
    } else {
        let k1 = (k - 1) as nat;
        lemma_chain_add(a, b, n, k1);
        let c0 = carry_at(a, b, k1);
        let c1 = carry_at(a, b, k);
        let s = (a[k1 as int] as nat) + (b[k1 as int] as nat) + c0;
        let d = n[k1 as int] as nat;
        assert(d == s % B());
        assert(s == d + B() * c1) by {
            if s >= B() { assert(s % B() == s - B()) by (nonlinear_arith) requires B() <= s < 2 * B(), B() > 0; }
            else { assert(s % B() == s) by (nonlinear_arith) requires s < B(), B() > 0; }
        }
        let p = pw(k1);
        assert(valp(n, k1) + d * p + (B() * p) * c1 == valp(n, k1) + p * c0 + ((a[k1 as int] as nat) * p + (b[k1 as int] as nat) * p)) by (nonlinear_arith)
            requires s == d + B() * c1, s == (a[k1 as int] as nat) + (b[k1 as int] as nat) + c0;
    }
}

pub open spec fn borrow_at(a: Seq<u64>, b: Seq<u64>, j: nat) -> nat
    decreases j
{
    if j == 0 { 0 } else {
        if (a[(j - 1) as int] as nat) < (b[(j - 1) as int] as nat) + borrow_at(a, b, (j - 1) as nat) { 1 } else { 0 }
    }
}

pub open spec fn diffdigit(a: Seq<u64>, b: Seq<u64>, j: int) -> u64 {
    (((a[j] as nat) + B() - (b[j] as nat) - borrow_at(a, b, j as nat)) % (B() as int)) as u64
}

/// chain => value (subtraction): valp(n,k) + valp(b,k) == valp(a,k) + B^k * borrow
pub proof fn lemma_chain_sub(a: Seq<u64>, b: Seq<u64>, n: Seq<u64>, k: nat)
    requires k <= a.len(), k <= b.len(), k <= n.len(),
        forall|j: int| 0 <= j < k ==> n[j] == diffdigit(a, b, j)
    ensures valp(n, k) + valp(b, k) == valp(a, k) + pw(k) * borrow_at(a, b, k)
    decreases k
{
    if k == 0 {
        assert(pw(0) * 0 == 0) by (nonlinear_arith);
    } else {
        let k1 = (k - 1) as nat;
        lemma_chain_sub(a, b, n, k1);
        let c0 = borrow_at(a, b, k1);
        let c1 = borrow_at(a, b, k);
        let av = a[k1 as int] as nat;
        let bv = b[k1 as int] as nat;
        let s: int = av + B() - bv - c0;
        let d = n[k1 as int] as nat;
        assert(d == s % (B() as int));
        assert(d + bv + c0 == av + B() * c1) by {
            if av < bv + c0 { assert(s % (B() as int) == s) by (nonlinear_arith) requires 0 <= s < B(), B() > 0; }
            else { assert(s % (B() as int) == s - B()) by (nonlinear_arith) requires B() <= s < 2 * B(), B() > 0; }
        }
        let p = pw(k1);
        assert(valp(n, k1) + d * p + (valp(b, k1) + bv * p) == valp(n, k1) + valp(b, k1) - p * c0 + av * p + (B() * p) * c1) by (nonlinear_arith)
            requires d + bv + c0 == av + B() * c1;
    }
}

/// one adc step extends the value equation by one digit
pub proof fn lemma_add_step(f: Seq<u64>, o: Seq<u64>, b: Seq<u64>, k: nat, c0: nat, c1: nat)
    requires k < f.len(), k < o.len(), k < b.len(),
        valp(f, k) + pw(k) * c0 == valp(o, k) + valp(b, k),
        (f[k as int] as nat) + B() * c1 == (o[k as int] as nat) + (b[k as int] as nat) + c0,
    ensures valp(f, k + 1) + pw(k + 1) * c1 == valp(o, k + 1) + valp(b, k + 1)
{
    assert(pw(k + 1) == B() * pw(k));
    assert(valp(f, k + 1) == valp(f, k) + (f[k as int] as nat) * pw(k));
    assert(valp(o, k + 1) == valp(o, k) + (o[k as int] as nat) * pw(k));
    assert(valp(b, k + 1) == valp(b, k) + (b[k as int] as nat) * pw(k));
    let p = pw(k);
    let fk = f[k as int] as nat; let ok = o[k as int] as nat; let bk = b[k as int] as nat;
    assert(fk * p + (B() * p) * c1 == ok * p + bk * p + p * c0) by (nonlinear_arith)
        requires fk + B() * c1 == ok + bk + c0;
}

/// one carry-propagation step (adding the carry only)
pub proof fn lemma_add_step1(f: Seq<u64>, o: Seq<u64>, k: nat, c0: nat, c1: nat)
    requires k < f.len(), k < o.len(),
        valp(f, k) + pw(k) * c0 == valp(o, k) + 1,
        (f[k as int] as nat) + B() * c1 == (o[k as int] as nat) + c0,
    ensures valp(f, k + 1) + pw(k + 1) * c1 == valp(o, k + 1) + 1
{
    assert(pw(k + 1) == B() * pw(k));
    let p = pw(k);
    let fk = f[k as int] as nat; let ok = o[k as int] as nat;
    assert(fk * p + (B() * p) * c1 == ok * p + p * c0) by (nonlinear_arith)
        requires fk + B() * c1 == ok + c0;
}

/// if the equation holds for the first i digits with carry c, and (i < len ==> c == 0), and the digits from i on agree,
/// then it holds for the whole sequence
pub proof fn lemma_tail_same(f: Seq<u64>, o: Seq<u64>, i: nat, c: nat)
    requires f.len() == o.len(), i <= f.len(),
        forall|j: int| i <= j < f.len() ==> f[j] == o[j],
        valp(f, i) + pw(i) * c == valp(o, i) + 1,
        i < f.len() ==> c == 0,
    ensures val(f) + pw(f.len()) * c == val(o) + 1
{
    if i < f.len() {
        assert(pw(i) * 0 == 0) by (nonlinear_arith);
        assert(pw(f.len()) * 0 == 0) by (nonlinear_arith);
        lemma_valp_tail_eq(f, o, i, f.len());
    }
}

/// extending two prefixes by identical digits keeps the difference
pub proof fn lemma_valp_tail_eq(f: Seq<u64>, o: Seq<u64>, i: nat, k: nat)
    requires i <= k, k <= f.len(), k <= o.len(), forall|j: int| i <= j < k ==> f[j] == o[j]
    ensures valp(f, k) - valp(f, i) == valp(o, k) - valp(o, i)
    decreases k
{
    if k > i { lemma_valp_tail_eq(f, o, i, (k - 1) as nat); }
}

/// final recomposition step of __add2
pub proof fn lemma_add2_final(oa: Seq<u64>, olo: Seq<u64>, ohi: Seq<u64>, fa: Seq<u64>, flo: Seq<u64>, fhi: Seq<u64>, bs: Seq<u64>, c_mid: nat, c: nat)
    requires
        oa =~= olo + ohi, fa =~= flo + fhi, flo.len() == olo.len(), fhi.len() == ohi.len(), bs.len() == olo.len(),
        val(flo) + pw(olo.len()) * c_mid == val(olo) + val(bs),
        c_mid <= 1,
        c_mid == 0 ==> fhi =~= ohi && c == 0,
        c_mid == 1 ==> val(fhi) + pw(ohi.len()) * c == val(ohi) + 1,
    ensures val(fa) + pw(oa.len()) * c == val(oa) + val(bs)
{
    let n = olo.len();
    let h = ohi.len();
    lemma_val_concat(olo, ohi);
    lemma_val_concat(flo, fhi);
    lemma_pw_add(n, h);
    if c_mid == 0 {
        assert(pw(n) * 0 == 0) by (nonlinear_arith);
        assert(pw(oa.len()) * 0 == 0) by (nonlinear_arith);
    } else {
        assert(pw(n) * (val(fhi) + pw(h) * c) == pw(n) * val(fhi) + (pw(n) * pw(h)) * c) by (nonlinear_arith);
        assert(pw(n) * (val(ohi) + 1) == pw(n) * val(ohi) + pw(n)) by (nonlinear_arith);
        assert(pw(n) * 1 == pw(n)) by (nonlinear_arith);
    }
}

/// one sbb step: f = o - b with borrow
pub proof fn lemma_sub_step(f: Seq<u64>, o: Seq<u64>, b: Seq<u64>, k: nat, c0: nat, c1: nat)
    requires k < f.len(), k < o.len(), k < b.len(),
        valp(f, k) + valp(b, k) == valp(o, k) + pw(k) * c0,
        (f[k as int] as nat) + (b[k as int] as nat) + c0 == (o[k as int] as nat) + B() * c1,
    ensures valp(f, k + 1) + valp(b, k + 1) == valp(o, k + 1) + pw(k + 1) * c1
{
    assert(pw(k + 1) == B() * pw(k));
    let p = pw(k);
    let fk = f[k as int] as nat; let ok = o[k as int] as nat; let bk = b[k as int] as nat;
    assert(fk * p + bk * p + p * c0 == ok * p + (B() * p) * c1) by (nonlinear_arith)
        requires fk + bk + c0 == ok + B() * c1;
}

/// one borrow-propagation step (subtracting the borrow only)
pub proof fn lemma_sub_step1(f: Seq<u64>, o: Seq<u64>, k: nat, c0: nat, c1: nat)
    requires k < f.len(), k < o.len(),
        valp(f, k) + 1 == valp(o, k) + pw(k) * c0,
        (f[k as int] as nat) + c0 == (o[k as int] as nat) + B() * c1,
    ensures valp(f, k + 1) + 1 == valp(o, k + 1) + pw(k + 1) * c1
{
    assert(pw(k + 1) == B() * pw(k));
    let p = pw(k);
    let fk = f[k as int] as nat; let ok = o[k as int] as nat;
    assert(fk * p + p * c0 == ok * p + (B() * p) * c1) by (nonlinear_arith)
        requires fk + c0 == ok + B() * c1;
}

pub proof fn lemma_tail_same_sub(f: Seq<u64>, o: Seq<u64>, i: nat, c: nat)
    requires f.len() == o.len(), i <= f.len(),
        forall|j: int| i <= j < f.len() ==> f[j] == o[j],
        valp(f, i) + 1 == valp(o, i) + pw(i) * c,
        i < f.len() ==> c == 0,
    ensures val(f) + 1 == val(o) + pw(f.len()) * c
{
    if i < f.len() {
        assert(pw(i) * 0 == 0) by (nonlinear_arith);
        assert(pw(f.len()) * 0 == 0) by (nonlinear_arith);
        lemma_valp_tail_eq(f, o, i, f.len());
    }
}

/// recomposition for sub2: low part equation + high part propagation => whole equation
pub proof fn lemma_sub2_final(oa: Seq<u64>, olo: Seq<u64>, ohi: Seq<u64>, fa: Seq<u64>, flo: Seq<u64>, fhi: Seq<u64>, blo: Seq<u64>, c_mid: nat, c: nat)
    requires
        oa =~= olo + ohi, fa =~= flo + fhi, flo.len() == olo.len(), fhi.len() == ohi.len(), blo.len() == olo.len(),
        val(flo) + val(blo) == val(olo) + pw(olo.len()) * c_mid,
        c_mid <= 1,
        c_mid == 0 ==> fhi =~= ohi && c == 0,
        c_mid == 1 ==> val(fhi) + 1 == val(ohi) + pw(ohi.len()) * c,
    ensures val(fa) + val(blo) == val(oa) + pw(oa.len()) * c
{
    let n = olo.len();
    let h = ohi.len();
    lemma_val_concat(olo, ohi);
    lemma_val_concat(flo, fhi);
    lemma_pw_add(n, h);
    if c_mid == 0 {
        assert(pw(n) * 0 == 0) by (nonlinear_arith);
        assert(pw(oa.len()) * 0 == 0) by (nonlinear_arith);
    } else {
        assert(pw(n) * (val(fhi) + 1) == pw(n) * val(fhi) + pw(n)) by (nonlinear_arith);
        assert(pw(n) * (val(ohi) + pw(h) * c) == pw(n) * val(ohi) + (pw(n) * pw(h)) * c) by (nonlinear_arith);
        assert(pw(n) * 1 == pw(n)) by (nonlinear_arith);
    }
}

/// the mandatory underflow assertion of sub2/sub2rev holds exactly when a >= b
pub proof fn lemma_sub_assert(oa: Seq<u64>, fa: Seq<u64>, bs: Seq<u64>, blo: Seq<u64>, bhi: Seq<u64>, c: nat)
    requires
        fa.len() == oa.len(), bs =~= blo + bhi, c <= 1,
        bhi.len() > 0 ==> blo.len() == oa.len(),
        blo.len() <= oa.len(),
        val(fa) + val(blo) == val(oa) + pw(oa.len()) * c,
    ensures
        (c == 0 && (forall|i: int| 0 <= i < bhi.len() ==> bhi[i] == 0)) <==> val(oa) >= val(bs),
        (c == 0 && (forall|i: int| 0 <= i < bhi.len() ==> bhi[i] == 0)) ==> val(fa) + val(bs) == val(oa),
{
    lemma_val_concat(blo, bhi);
    lemma_valp_zero_iff(bhi, bhi.len());
    lemma_valp_bound(fa, fa.len());
    lemma_valp_bound(oa, oa.len());
    lemma_valp_bound(blo, blo.len());
    lemma_pw_pos(blo.len());
    lemma_pw_mono(blo.len(), oa.len());
    let pb = pw(blo.len());
    let pa = pw(oa.len());
    let vh = val(bhi);
    if vh == 0 {
        assert(pb * 0 == 0) by (nonlinear_arith);
        if c == 0 { assert(pa * 0 == 0) by (nonlinear_arith); }
        else { assert(pa * 1 == pa) by (nonlinear_arith); }
    } else {
        assert(pb * vh >= pb) by (nonlinear_arith) requires vh >= 1;
    }
}

/// sub2rev: b := a - b where |b| >= |a|; the low |a| digits were subtracted with borrow c, the high digits of b are unchanged
pub proof fn lemma_sub_assert_rev(a_s: Seq<u64>, flo: Seq<u64>, ob: Seq<u64>, blo: Seq<u64>, bhi: Seq<u64>, c: nat)
    requires
        ob =~= blo + bhi, blo.len() == a_s.len(), flo.len() == a_s.len(), c <= 1,
        val(flo) + val(blo) == val(a_s) + pw(a_s.len()) * c,
    ensures
        (c == 0 && (forall|i: int| 0 <= i < bhi.len() ==> bhi[i] == 0)) <==> val(a_s) >= val(ob),
        (c == 0 && (forall|i: int| 0 <= i < bhi.len() ==> bhi[i] == 0)) ==> val(flo + bhi) + val(ob) == val(a_s),
{
    lemma_val_concat(blo, bhi);
    lemma_val_concat(flo, bhi);
    lemma_valp_zero_iff(bhi, bhi.len());
    lemma_valp_bound(flo, flo.len());
    lemma_valp_bound(a_s, a_s.len());
    lemma_valp_bound(blo, blo.len());
    lemma_pw_pos(blo.len());
    let pa = pw(a_s.len());
    let vh = val(bhi);
    if vh == 0 {
        assert(pa * 0 == 0) by (nonlinear_arith);
        if c == 1 { assert(pa * 1 == pa) by (nonlinear_arith); }
    } else {
        assert(pa * vh >= pa) by (nonlinear_arith) requires vh >= 1;
    }
}
