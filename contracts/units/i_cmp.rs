//@ unit i_cmp : BigInt ordering, equality, abs, abs_sub, signum (src/bigint.rs)
#![feature(allocator_api)]
use vstd::prelude::*;
use vstd::std_specs::iter::IteratorSpec;
use vstd::std_specs::ops::*;
use core::ops::{Sub, Neg};
use core::cmp::Ordering;
use core::cmp::Ordering::{Equal, Greater, Less};
verus! {
//@ include prelude/core.rs
//@ include prelude/std_specs.rs
//@ include prelude/val32.rs
//@ extract src/bigint.rs :: enum Sign attrs=1
#[derive(/*+*/Structural, /*-*/PartialEq, PartialOrd, Eq, Ord, Copy, Clone, Debug, Hash)]
pub enum Sign {
    Minus,
    NoSign,
    Plus,
}
//@ end
pub mod u {
use super::*;
use Sign::*;

//@ extract src/biguint.rs :: struct BigUint
pub struct BigUint {
    data: Vec<BigDigit>,
}
//@ end
//@ include prelude/biguint_view.rs
pub open spec fn ord_of(a: nat, b: nat) -> Ordering {
    if a < b { Ordering::Less } else if a == b { Ordering::Equal } else { Ordering::Greater }
}
pub open spec fn ord_of_int(a: int, b: int) -> Ordering {
    if a < b { Ordering::Less } else if a == b { Ordering::Equal } else { Ordering::Greater }
}
impl BigUint {
//@ extract src/biguint.rs :: impl BigUint :: const ZERO rules=R9,R13 label=BigUint_ZERO
    exec const ZERO: Self /*+*/ensures Self::ZERO.data@.len() == 0 /*-*/{ BigUint { data: Vec::new() } }
//@ end
//@ stub u_core/clone
//@ stub u_core/is_zero
//@ stub u_core/one
//@ stub u_cmp/cmp
}
impl vstd::std_specs::cmp::PartialEqSpecImpl for BigUint {
    open spec fn obeys_eq_spec() -> bool { false }
    open spec fn eq_spec(&self, other: &BigUint) -> bool { arbitrary() }
}
impl PartialEq for BigUint {
//@ stub u_cmp/eq
}

//@ assume Sign::cmp(derived) : `#[derive(Ord)]` on a field-less enum orders the variants by declaration order (Rust reference): Minus < NoSign < Plus
#[verifier::external_body]
fn sign_cmp(a: &Sign, b: &Sign) -> (r: Ordering)
    ensures r == ord_of_int(sgn(*a), sgn(*b))
{ unimplemented!() }

//@ extract src/bigint.rs :: struct BigInt
pub struct BigInt {
    sign: Sign,
    data: BigUint,
}
//@ end
//@ include prelude/bigint_view.rs
//@ include prelude/bigint_core_stubs.rs
impl SubSpecImpl<&BigInt> for &BigInt {
    open spec fn obeys_sub_spec() -> bool { false }
    open spec fn sub_req(self, rhs: &BigInt) -> bool { self.wfi() && rhs.wfi() }
    open spec fn sub_spec(self, rhs: &BigInt) -> BigInt { arbitrary() }
}
impl Sub<&BigInt> for &BigInt {
    type Output = BigInt;
//@ stub i_addsub/sub_rr
}
impl vstd::std_specs::convert::FromSpecImpl<BigUint> for BigInt {
    open spec fn obeys_from_spec() -> bool { false }
    open spec fn from_spec(v: BigUint) -> BigInt { arbitrary() }
}
impl From<BigUint> for BigInt {
//@ stub i_div/from_biguint_trait
}

impl BigInt {
//@ stub i_core/one
    // contract-only re-homing of `impl Ord / PartialEq / Signed for BigInt`
//@ extract src/bigint.rs :: impl Ord for BigInt :: fn cmp rules=R0,R14,R17 props=C04,C19 label=bigint_cmp
    fn cmp(&self, other: &BigInt) -> /*+*/(r: /*-*/Ordering/*+*/)/*-*/
//+{
        requires self.wfi(), other.wfi()
        ensures r == ord_of_int(self.iv(), other.iv())
//+}
    {
//+{
        proof {
            lemma_sgn_mul(self.sign, self.data.v()); lemma_sgn_mul(other.sign, other.data.v());
        }
//+}
        let scmp = sign_cmp(&self.sign, &other.sign);
        if scmp != Equal {
            return scmp;
        }

        match self.sign {
            NoSign => Equal,
            Plus => self.data.cmp(&other.data),
            Minus => other.data.cmp(&self.data),
        }
    }
//@ end

//@ extract src/bigint.rs :: impl PartialOrd for BigInt :: fn partial_cmp props=C04,C19 label=bigint_partial_cmp
    fn partial_cmp(&self, other: &BigInt) -> /*+*/(r: /*-*/Option<Ordering>/*+*/)/*-*/
//+{
        requires self.wfi(), other.wfi()
        ensures r == Some(ord_of_int(self.iv(), other.iv()))
//+}
    {
        Some(self.cmp(other))
    }
//@ end

//@ extract src/bigint.rs :: impl Default for BigInt :: fn default props=C04,C19 label=bigint_default
    fn default() -> /*+*/(r: /*-*/BigInt/*+*/)/*-*/
//+{
        ensures r.wfi(), r.iv() == 0
//+}
    {
        Self::ZERO
    }
//@ end

//@ extract src/bigint.rs :: impl PartialEq for BigInt :: fn eq rules=R0,R14 props=C04 label=bigint_eq
    fn eq(&self, other: &BigInt) -> /*+*/(r: /*-*/bool/*+*/)/*-*/
//+{
        requires self.wfi(), other.wfi()
        ensures r == (self.iv() == other.iv())
//+}
    {
//+{
        proof {
            lemma_sgn_mul(self.sign, self.data.v()); lemma_sgn_mul(other.sign, other.data.v());
        }
//+}
        self.sign == other.sign && (self.sign == NoSign || self.data == other.data)
    }
//@ end

//@ extract src/bigint.rs :: impl Signed for BigInt :: fn abs props=C19
    fn abs(&self) -> /*+*/(r: /*-*/BigInt/*+*/)/*-*/
//+{
        requires self.wfi()
        ensures r.wfi(), r.iv() == (if self.iv() < 0 { -self.iv() } else { self.iv() })
//+}
    {
//+{
        proof { lemma_sgn_mul(self.sign, self.data.v()); }
//+}
        match self.sign {
            Plus | NoSign => self.clone(),
            Minus => BigInt::from(self.data.clone()),
        }
    }
//@ end

//@ extract src/bigint.rs :: impl Signed for BigInt :: fn abs_sub rules=R0,R16 ufcs=self-other props=C19
    fn abs_sub(&self, other: &BigInt) -> /*+*/(r: /*-*/BigInt/*+*/)/*-*/
//+{
        requires self.wfi(), other.wfi()
        ensures r.wfi(), r.iv() == (if self.iv() - other.iv() > 0 { self.iv() - other.iv() } else { 0 })
//+}
    {
        if (self.cmp(other) != core::cmp::Ordering::Greater) {
            Self::ZERO
        } else {
            Sub::sub(self, other)
        }
    }
//@ end

//@ extract src/bigint.rs :: impl Signed for BigInt :: fn signum props=C19
    fn signum(&self) -> /*+*/(r: /*-*/BigInt/*+*/)/*-*/
//+{
        requires self.wfi()
        ensures r.wfi(), r.iv() == (if self.iv() > 0 { 1int } else if self.iv() < 0 { -1int } else { 0int })
//+}
    {
//+{
        proof { lemma_sgn_mul(self.sign, self.data.v()); }
//+}
        match self.sign {
            Plus => BigInt::one(),
            Minus => -BigInt::one(),
            NoSign => Self::ZERO,
        }
    }
//@ end
}

} // mod u
} // verus!
fn main() {}
