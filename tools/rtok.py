"""Rust tokenizer, item extractor, mechanical rewrite rules and annotation weaver.

The verified text is produced on every run from /repo's working tree:

  extract(item)  ->  real token stream  ->  apply enabled rewrite rules (logged)
                 ->  transplant the committed annotations (contracts/units/*.rs) onto it
                 ->  erasure check: stripping annotations gives back the rewritten real stream

Nothing here looks at what the code *means*; it is text and token manipulation only.
"""
import re
import difflib

# --------------------------------------------------------------------------- tokenizer

_PUNCT = set("+-*/%^!&|=<>@.,;:#$?~()[]{}\\")
_MULTI = [">>=", "<<=", "...", "..=", "::", "->", "=>", "==", "!=", "<=", ">=", "&&", "||", "+=", "-=",
          "*=", "/=", "%=", "^=", "&=", "|=", "<<", ">>", ".."]
_ID0 = re.compile(r"[A-Za-z_]")
_IDC = re.compile(r"[A-Za-z0-9_]")


class Tok:
    __slots__ = ("s", "a", "b")

    def __init__(self, s, a, b):
        self.s, self.a, self.b = s, a, b

    def __repr__(self):
        return "Tok(%r,%d,%d)" % (self.s, self.a, self.b)


def tokenize(text, base=0, keep_doc=False):
    """Return list of Tok over `text` (offsets shifted by base). Comments are dropped."""
    toks = []
    i, n = 0, len(text)
    while i < n:
        c = text[i]
        if c.isspace():
            i += 1
            continue
        if text.startswith("//", i):
            j = text.find("\n", i)
            i = n if j < 0 else j
            continue
        if text.startswith("/*", i):
            depth, j = 1, i + 2
            while j < n and depth:
                if text.startswith("/*", j):
                    depth += 1
                    j += 2
                elif text.startswith("*/", j):
                    depth -= 1
                    j += 2
                else:
                    j += 1
            i = j
            continue
        # raw strings / byte strings
        m = re.match(r'b?r(#*)"', text[i:])
        if m:
            hashes = m.group(1)
            end = text.find('"' + hashes, i + m.end())
            j = end + 1 + len(hashes)
            toks.append(Tok(text[i:j], base + i, base + j))
            i = j
            continue
        if c == '"' or (c == "b" and i + 1 < n and text[i + 1] == '"'):
            j = i + (2 if c == "b" else 1)
            while j < n and text[j] != '"':
                j += 2 if text[j] == "\\" else 1
            j += 1
            toks.append(Tok(text[i:j], base + i, base + j))
            i = j
            continue
        if c == "'" or (c == "b" and i + 1 < n and text[i + 1] == "'"):
            k = i + (1 if c == "b" else 0)
            # char literal or lifetime
            m = re.match(r"'(\\.[^']*|[^'\\])'", text[k:])
            if m:
                j = k + m.end()
                toks.append(Tok(text[i:j], base + i, base + j))
                i = j
                continue
            m = re.match(r"'[A-Za-z_][A-Za-z0-9_]*", text[k:])
            if m:
                j = k + m.end()
                toks.append(Tok(text[i:j], base + i, base + j))
                i = j
                continue
        if _ID0.match(c):
            j = i + 1
            while j < n and _IDC.match(text[j]):
                j += 1
            toks.append(Tok(text[i:j], base + i, base + j))
            i = j
            continue
        if c.isdigit():
            j = i + 1
            while j < n and (_IDC.match(text[j]) or (text[j] == "." and j + 1 < n and text[j + 1].isdigit())):
                j += 1
            toks.append(Tok(text[i:j], base + i, base + j))
            i = j
            continue
        if c in _PUNCT:
            for op in _MULTI:
                if text.startswith(op, i):
                    toks.append(Tok(op, base + i, base + i + len(op)))
                    i += len(op)
                    break
            else:
                toks.append(Tok(c, base + i, base + i + 1))
                i += 1
            continue
        raise ValueError("tokenize: unexpected char %r at %d" % (c, i))
    return toks


OPEN = {"(": ")", "[": "]", "{": "}"}
CLOSE = {")", "]", "}"}


def match_close(toks, i):
    """toks[i] is an opener; return index of its matching closer."""
    depth = 0
    for j in range(i, len(toks)):
        s = toks[j].s
        if s in OPEN:
            depth += 1
        elif s in CLOSE:
            depth -= 1
            if depth == 0:
                return j
    raise ValueError("unbalanced from token %d (%s)" % (i, toks[i].s))


def strs(toks):
    return [t.s for t in toks]


def join(ss):
    """Join token strings; multi-character operators are single tokens, so spaces are harmless."""
    return " ".join(ss)


def join_exact(toks, text_of):
    """Join tokens preserving adjacency information from original offsets: tokens that were
    adjacent in the source stay adjacent (so `>>=`, `..=`, `->`, `::` survive)."""
    out = []
    for k, t in enumerate(toks):
        if k and toks[k - 1].b != t.a:
            out.append(" ")
        out.append(t.s)
    return "".join(out)


# --------------------------------------------------------------------------- cfg evaluation

TARGET_CFG = {
    "target_arch": "x86_64",
    "target_pointer_width": "64",
    "target_os": "linux",
    "target_endian": "little",
}
TARGET_FEATURES = {"std"}
TARGET_FLAGS = {"debug_assertions", "unix"}  # has_try_from etc. are build-script cfgs: none here


def eval_cfg(toks):
    """Evaluate a cfg predicate given as token strings (inside `cfg(...)`)."""
    pos = [0]

    def parse():
        s = toks[pos[0]]
        pos[0] += 1
        if s in ("any", "all", "not") and pos[0] < len(toks) and toks[pos[0]] == "(":
            pos[0] += 1
            vals = []
            while toks[pos[0]] != ")":
                vals.append(parse())
                if toks[pos[0]] == ",":
                    pos[0] += 1
            pos[0] += 1
            if s == "any":
                return any(vals)
            if s == "all":
                return all(vals)
            return not vals[0]
        if pos[0] < len(toks) and toks[pos[0]] == "=":
            val = toks[pos[0] + 1].strip('"')
            pos[0] += 2
            if s == "feature":
                return val in TARGET_FEATURES
            return TARGET_CFG.get(s) == val
        return s in TARGET_FLAGS

    return parse()


def attrs_before(toks, i):
    """Collect attribute groups `#[...]` immediately preceding token index i.
    Returns (start_index_of_first_attr, list of token-string lists)."""
    attrs = []
    j = i
    while j >= 2 and toks[j - 1].s == "]":
        # find matching '['
        depth, k = 0, j - 1
        while k >= 0:
            if toks[k].s == "]":
                depth += 1
            elif toks[k].s == "[":
                depth -= 1
                if depth == 0:
                    break
            k -= 1
        if k >= 1 and toks[k - 1].s == "#":
            attrs.append(strs(toks[k + 1:j - 1]))
            j = k - 1
        else:
            break
    return j, attrs


def cfg_active(attrs):
    for a in attrs:
        if a and a[0] == "cfg":
            if not eval_cfg(a[2:-1]):
                return False
    return True


# --------------------------------------------------------------------------- extraction

class ExtractError(Exception):
    pass


_QUALS = {"pub", "const", "unsafe", "extern", "async", "default"}


def _find_seq(toks, pat, lo, hi):
    """all positions p in [lo,hi) where strs(toks[p:p+len(pat)]) == pat"""
    n = len(pat)
    out = []
    for p in range(lo, hi - n + 1):
        if toks[p].s == pat[0] and all(toks[p + k].s == pat[k] for k in range(1, n)):
            out.append(p)
    return out


def _first_item_end(toks, lo, hi):
    """end index (exclusive) of the first item in toks[lo:hi] (for cfg_digit!(item32 item64))"""
    k = lo
    while k < hi:
        s = toks[k].s
        if s == "{":
            return match_close(toks, k) + 1
        if s in ("(", "["):
            k = match_close(toks, k) + 1
            continue
        if s == ";":
            return k + 1
        k += 1
    return hi


def _first_expr_end(toks, lo, hi):
    k = lo
    while k < hi:
        s = toks[k].s
        if s in OPEN:
            k = match_close(toks, k) + 1
            continue
        if s == ",":
            return k
        k += 1
    return hi


def in_inactive_macro(toks, p):
    """Is token index p inside the 32-bit half of one of the crate's cfg macros?"""
    stack = []
    for k in range(p):
        s = toks[k].s
        if s in OPEN:
            stack.append(k)
        elif s in CLOSE:
            stack.pop()
    for o in stack:
        if o >= 2 and toks[o - 1].s == "!":
            name = toks[o - 2].s
            if name in ("cfg_32", "cfg_32_or_test"):
                return True
            if name == "cfg_digit":
                if p < _first_item_end(toks, o + 1, match_close(toks, o)):
                    return True
            if name == "cfg_digit_expr":
                if p < _first_expr_end(toks, o + 1, match_close(toks, o)):
                    return True
    return False


def extract(text, spec, with_attrs=False):
    """spec: ' :: '-separated path. Each element but the last names a container
    (`impl ... for X`, `mod name`, `cfg_64!`, `macro_rules! name`); the last names the item:
    `fn NAME`, `struct NAME`, `enum NAME`, `const NAME`, `type NAME`, or `arm N` (N-th arm of a
    macro_rules container, body only).
    Returns (tokens, (start_offset, end_offset)). cfg-inactive candidates are skipped.
    """
    toks = tokenize(text)
    parts = [p.strip() for p in spec.split(" :: ")]
    ranges = [(0, len(toks))]
    for pi, part in enumerate(parts):
        last = pi == len(parts) - 1
        pt = strs(tokenize(part))
        new = []
        for lo, hi in ranges:
            if pt[0] == "arm":
                # N-th `=> { ... }` arm at depth 0 of the macro_rules body
                idx = int(pt[1])
                arms = []
                p = lo
                depth = 0
                while p < hi:
                    s = toks[p].s
                    if s in OPEN:
                        q = match_close(toks, p)
                        if depth == 0 and p >= 1 and toks[p - 1].s == "=>":
                            arms.append((p + 1, q))
                        p = q + 1
                        continue
                    p += 1
                if idx < len(arms):
                    new.append(arms[idx] + ("arm",))
                continue
            for p in _find_seq(toks, pt, lo, hi):
                q = p + len(pt)
                if pt[0] in ("fn", "struct", "enum", "const", "type", "static", "trait") and (len(pt) == 2 or (len(pt) == 3 and pt[1] == "$")):
                    # item: name must be followed by non-identifier continuation
                    if pt[0] == "fn" and toks[q].s not in ("(", "<"):
                        continue
                    # start: walk back over qualifiers
                    st = p
                    while st > lo:
                        s = toks[st - 1].s
                        if s in _QUALS:
                            st -= 1
                        elif s == ")" and st >= 4 and toks[st - 2].s in ("super", "crate", "self") and toks[st - 3].s == "(" and toks[st - 4].s == "pub":
                            st -= 4
                        elif s.startswith('"') and toks[st - 2].s == "extern":
                            st -= 1
                        else:
                            break
                    a0, attrs = attrs_before(toks, st)
                    if not cfg_active(attrs) or in_inactive_macro(toks, p):
                        continue
                    # end: first `{` at depth 0 (for fn/struct/enum) or `;`
                    k = q
                    end = None
                    while k < hi:
                        s = toks[k].s
                        if s == "{" and pt[0] in ("const", "static", "type"):
                            k = match_close(toks, k) + 1
                            continue
                        if s == "{" :
                            end = match_close(toks, k)
                            break
                        if s in ("(", "["):
                            k = match_close(toks, k) + 1
                            continue
                        if s == ";":
                            end = k
                            break
                        k += 1
                    if end is None:
                        continue
                    new.append((a0 if with_attrs else st, end + 1, "item"))
                else:
                    # container: header tokens followed (eventually) by a delimiter group
                    k = q
                    while k < hi and toks[k].s not in OPEN and toks[k].s != ";":
                        k += 1
                    if k >= hi or toks[k].s == ";":
                        continue
                    # require the header to end right before the opener for impl headers
                    if pt[0] == "impl" and k != q:
                        # allow `where` clauses? keep strict: header must be given in full
                        continue
                    a0, attrs = attrs_before(toks, p)
                    if not cfg_active(attrs) or in_inactive_macro(toks, p):
                        continue
                    new.append((k + 1, match_close(toks, k), "container"))
        if not new:
            raise ExtractError("anchor lost: %r (element %r)" % (spec, part))
        ranges = [(a, b) for a, b, _ in new]
        kinds = [k for _, _, k in new]
    # nested matches: prefer outermost distinct ranges
    ranges = sorted(set(ranges))
    outer = []
    for r in ranges:
        if not any(o[0] <= r[0] and r[1] <= o[1] and o != r for o in ranges):
            outer.append(r)
    if len(outer) != 1:
        raise ExtractError("ambiguous item %r: %d candidates" % (spec, len(outer)))
    a, b = outer[0]
    return toks[a:b], (toks[a].a, toks[b - 1].b)


# --------------------------------------------------------------------------- rewrite rules

class Rule:
    """Token-pattern rewrite. Pattern elements: literal token, `$x` (one token),
    `$$x` (balanced, possibly empty, token sequence, shortest match)."""

    def __init__(self, rid, doc, pat, rep, guard=None):
        self.id, self.doc = rid, doc
        self.pat = pat.split()
        self.rep = rep.split()
        self.guard = guard

    def _match_at(self, ss, i, pi, env):
        pat = self.pat
        if pi == len(pat):
            return i
        p = pat[pi]
        if p.startswith("$$"):
            # balanced sequence, shortest first
            j = i
            while True:
                e2 = dict(env)
                e2[p] = ss[i:j]
                if p in env and env[p] != ss[i:j]:
                    pass
                else:
                    r = self._match_at(ss, j, pi + 1, e2)
                    if r is not None:
                        env.clear()
                        env.update(e2)
                        return r
                if j >= len(ss):
                    return None
                s = ss[j]
                if s in CLOSE:
                    return None
                if s in OPEN:
                    depth = 0
                    k = j
                    while k < len(ss):
                        if ss[k] in OPEN:
                            depth += 1
                        elif ss[k] in CLOSE:
                            depth -= 1
                            if depth == 0:
                                break
                        k += 1
                    if k >= len(ss):
                        return None
                    j = k + 1
                else:
                    j += 1
        if i >= len(ss):
            return None
        if p.startswith("$") and len(p) > 1:
            if ss[i] in OPEN or ss[i] in CLOSE:
                return None
            if p in env and env[p] != [ss[i]]:
                return None
            e2 = dict(env)
            e2[p] = [ss[i]]
            r = self._match_at(ss, i + 1, pi + 1, e2)
            if r is not None:
                env.clear()
                env.update(e2)
            return r
        if ss[i] != p:
            return None
        return self._match_at(ss, i + 1, pi + 1, env)

    def apply(self, ss, log, where, params=None):
        out = []
        i = 0
        n_app = 0
        while i < len(ss):
            env = {}
            if params:
                env.update(params)
            j = None
            if ss[i] == self.pat[0] or self.pat[0].startswith("$"):
                j = self._match_at(ss, i, 0, env)
            if j is not None and (self.guard is None or self.guard(env)):
                rep = []
                for r in self.rep:
                    if r in env:
                        rep.extend(env[r])
                    else:
                        rep.append(r)
                log.append({"rule": self.id, "function": where, "from": join(ss[i:j]), "to": join(rep)})
                out.extend(rep)
                i = j
                n_app += 1
            else:
                out.append(ss[i])
                i += 1
        return out, n_app


class MultiRule:
    """A family of exact statement rewrites under one rule id (each pair applied in order, each logged)."""

    def __init__(self, rid, doc, pairs):
        self.id, self.doc = rid, doc
        self.rules = [Rule(rid, doc, a, b) for (a, b) in pairs]
        self.pat = ["<family>"]
        self.rep = ["<family>"]

    def apply(self, ss, log, where, params=None):
        n = 0
        for r in self.rules:
            ss, k = r.apply(ss, log, where, params)
            n += k
        return ss, n


def _has_range(env):
    return any(t in ("..", "..=") for t in env.get("$$r", []))


RULES = {
    # asm bridge: pointer arguments of the two asm kernels become the slices they were taken from
    "R1": Rule("R1", "unsafe { F(X.as_mut_ptr(), Y.as_ptr(), N) } -> F(X, Y, N)",
               "unsafe { $f ( $x . as_mut_ptr ( ) , $y . as_ptr ( ) , $$n ) }",
               "$f ( $x , $y , $$n )"),
    # Vec range IndexMut -> the body of std's impl (as_mut_slice) ; parameter $v = vec path given by unit
    "R7": Rule("R7", "&mut V[range] -> &mut V.as_mut_slice()[range] (V: Vec<T>)",
               "& mut self . data [ $$r ]",
               "& mut self . data . as_mut_slice ( ) [ $$r ]", guard=_has_range),
    "R7a": Rule("R7a", "&mut a.data[range] -> &mut a.data.as_mut_slice()[range] (Vec<T>)",
                "& mut a . data [ $$r ]",
                "& mut a . data . as_mut_slice ( ) [ $$r ]", guard=_has_range),
    "R7z": Rule("R7z", "&mut z.data[range] -> &mut z.data.as_mut_slice()[range] (Vec<T>)",
                "& mut z . data [ $$r ]",
                "& mut z . data . as_mut_slice ( ) [ $$r ]", guard=_has_range),
    "R7o": Rule("R7o", "&mut other.data[range] -> &mut other.data.as_mut_slice()[range] (Vec<T>)",
                "& mut other . data [ $$r ]",
                "& mut other . data . as_mut_slice ( ) [ $$r ]", guard=_has_range),
    # ref-literal pattern
    "R2": Rule("R2", "if let Some(&LIT) = E { S } -> if let Some(p__) = E { if *p__ == LIT { S } }",
               "if let Some ( & $lit ) = $$e { $$s }",
               "if let Some ( p__ ) = $$e { if * p__ == $lit { $$s } }"),
    # closure with reference pattern
    "R4": Rule("R4", "|&x| E -> |x_r__| { let x = *x_r__; E }  (Copy element types)",
               "| & $x | $$e )",
               "| x_r__ | { let $x = * x_r__ ; $$e } )"),
    # for over a `&mut [T]` variable -> index loop (the definition of slice IterMut iteration); the increment is
    # placed before the body so that `break` / `continue` keep their meaning
    "R10": Rule("R10", "for x in S { BODY } (S: &mut [T] variable) -> { let mut i__ = 0; while i__ < S.len() { let x = &mut S[i__]; i__ += 1; BODY } }",
                "for $x in $s { $$body }",
                "{ let mut i__ = 0 ; while i__ < $s . len ( ) { let $x = & mut $s [ i__ ] ; i__ += 1 ; $$body } }"),
    # assert!/panic! family -> calls of the dual-world panic model (contracts/prelude/panic.rs); the format
    # arguments are dropped (they have no effect on control flow; evaluating them cannot panic for the Display impls used)
    "R11": Rule("R11", "assert!(C, MSG..) -> __assert(C)", "assert ! ( $$c , $$m )", "__assert ( $$c )"),
    "R11a": Rule("R11a", "assert!(C) -> __assert(C)", "assert ! ( $$c )", "__assert ( $$c )"),
    "R11b": Rule("R11b", "panic!(..) -> __panic()", "panic ! ( $$m )", "__panic ( )"),
    "R11c": Rule("R11c", "assert_eq!(A, B, ..) -> __assert(A == B)", "assert_eq ! ( $$a , $$b )", "__assert ( $$a == $$b )"),
    "R11e": Rule("R11e", "assert_eq!(A, B, MSG..) -> __assert(A == B)", "assert_eq ! ( $$a , $$b , $$m )", "__assert ( $$a == $$b )"),
    "R11f": Rule("R11f", "X.expect(MSG) -> X.expect__()  (Option::expect: panics iff None; dual-world model)", ". expect ( $m )", ". expect__ ( )"),
    "R11g": Rule("R11g", "assert_ne!(A, B) -> __assert(A != B)", "assert_ne ! ( $$a , $$b )", "__assert ( $$a != $$b )"),
    "R11d": Rule("R11d", "unreachable!() -> __unreachable()", "unreachable ! ( $$m )", "__unreachable ( )"),
    # std idioms over closures that this vstd cannot specify (default methods of Iterator): replaced by
    # helper functions whose contracts state the std semantics of the whole expression (prelude/std_specs.rs)
    "R12a": Rule("R12a", "V.iter().rposition(|&d| d != 0).map_or(0, |i| i + 1) -> __rpos_nz_len(&V)",
                 "$$v . iter ( ) . rposition ( | & $d | $d != 0 ) . map_or ( 0 , | $i | $i + 1 )",
                 "__rpos_nz_len ( & $$v )", guard=lambda e: e["$$v"] and all(t not in (";", "=", "{", "}", ",") for t in e["$$v"])),
    "R12b": Rule("R12b", "V.iter().position(|&d| d != 0) -> __pos_nz(&V)",
                 "$$v . iter ( ) . position ( | & $d | $d != 0 )",
                 "__pos_nz ( & $$v )", guard=lambda e: e["$$v"] and all(t not in (";", "=", "{", "}", ",") for t in e["$$v"])),
    # visibility of a const item (no effect on behaviour; Verus treats `pub const` bodies as public spec)
    "R9": Rule("R9", "pub const N: T = E; -> const N: T = E;", "pub const $n : $$t = $$e ;", "const $n : $$t = $$e ;"),
    # Verus spelling of an exec-only constant
    "R13": Rule("R13", "const N: T = E; -> exec const N: T { E }", "const $n : $$t = $$e ;", "exec const $n : $$t { $$e }"),
    "R12c": Rule("R12c", "Iterator::cmp(A.iter().rev(), B.iter().rev()) -> __cmp_rev(A, B)",
                 "Iterator :: cmp ( $a . iter ( ) . rev ( ) , $b . iter ( ) . rev ( ) )", "__cmp_rev ( $a , $b )"),
    # debug_assert! statements are dropped (not compiled in release builds). Where a unit uses this rule the
    # debug-profile clause of C14 is not decided for that function (reported in the evidence as a rewrite).
    "R14": Rule("R14", "debug_assert!(..); -> (dropped)", "debug_assert ! ( $$c ) ;", ""),
    "R14e": Rule("R14e", "debug_assert_eq!(..); -> (dropped)", "debug_assert_eq ! ( $$c ) ;", ""),
    # operator UFCS (Rust's own definition of the operators); works around a Verus internal error on reference operands
    "R3a": Rule("R3a", "(X) + (Y) -> Add::add((X), (Y))", "( $$x ) + ( $$y )", "Add :: add ( ( $$x ) , ( $$y ) )"),
    "R3s": Rule("R3s", "(X) - (Y) -> Sub::sub((X), (Y))", "( $$x ) - ( $$y )", "Sub :: sub ( ( $$x ) , ( $$y ) )"),
    "R3d": Rule("R3d", "&X.data - Y -> Sub::sub(&X.data, Y)", "& $x . data - $y", "Sub :: sub ( & $x . data , $y )"),
    "R3p": Rule("R3p", "&X * &Y -> Mul::mul(&X, &Y)", "& $x * & $y", "Mul :: mul ( & $x , & $y )"),
    # UFCS spellings of specific operator expressions over references (Rust's definition of the operators)
    "R3n1": Rule("R3n1", "self + (other - m) -> Add::add(self, Sub::sub(other, m))", "self + ( other - m )", "Add :: add ( self , Sub :: sub ( other , m ) )"),
    "R3n2": Rule("R3n2", "self - self.mod_floor(other) -> Sub::sub(self, self.mod_floor(other))", "self - self . mod_floor ( other )", "Sub :: sub ( self , self . mod_floor ( other ) )"),
    "R3n3": Rule("R3n3", "self / self.gcd(other) * other -> Mul::mul(Div::div(self, self.gcd(other)), other)", "self / self . gcd ( other ) * other", "Mul :: mul ( Div :: div ( self , self . gcd ( other ) ) , other )"),
    "R3n4": Rule("R3n4", "self / &gcd * other -> Mul::mul(Div::div(self, &gcd), other)", "self / & gcd * other", "Mul :: mul ( Div :: div ( self , & gcd ) , other )"),
    "R3n6": Rule("R3n6", "&self.data / &egcd.gcd.data * &other.data -> Mul::mul(Div::div(&self.data, &egcd.gcd.data), &other.data)  (Rust precedence: `/` and `*` left-associative, equal precedence)",
                 "& self . data / & egcd . gcd . data * & other . data", "Mul :: mul ( Div :: div ( & self . data , & egcd . gcd . data ) , & other . data )"),
    "R3n5": Rule("R3n5", "(self % other) -> (Rem::rem(self, other))", "( self % other )", "( Rem :: rem ( self , other ) )"),
    "R3q": Rule("R3q", "&self % other -> Rem::rem(&self, other)", "& self % other", "Rem :: rem ( & self , other )"),
    "R3r": Rule("R3r", "self % other -> Rem::rem(self, other)", "self % other", "Rem :: rem ( self , other )"),
    "R3j": Rule("R3j", "X.into() after a call -> From::from(X)", "rem_digit ( self , other as BigDigit ) . into ( )", "From :: from ( rem_digit ( self , other as BigDigit ) )"),
    "R3m": Rule("R3m", "(X) * (Y) -> Mul::mul((X), (Y))", "( $$x ) * ( $$y )", "Mul :: mul ( ( $$x ) , ( $$y ) )"),
    # reversed mutable iteration over a Vec/slice -> index loop counting down (definition of Rev<IterMut>)
    "R10r": Rule("R10r", "for d in V.iter_mut().rev() { BODY } -> { let mut i__ = V.len(); while i__ > 0 { i__ -= 1; let d = &mut V.as_mut_slice()[i__]; BODY } }",
                 "for $d in $$v . iter_mut ( ) . rev ( ) { $$body }",
                 "{ let mut i__ = $$v . len ( ) ; while i__ > 0 { i__ -= 1 ; let $d = & mut $$v . as_mut_slice ( ) [ i__ ] ; $$body } }"),
    "R4c": Rule("R4c", "for &x in I { S } -> for x_r__ in I { let x = *x_r__; S }  (Copy element type)",
                "for & $x in $$i { $$s }", "for x_r__ in $$i { let $x = * x_r__ ; $$s }"),
    "R0c": Rule("R0c", "cfg!(any(target_arch = \"x86\", target_arch = \"x86_64\")) -> true (fixed target)",
                'cfg ! ( any ( target_arch = "x86" , target_arch = "x86_64" ) )', "true"),
    # for r in &mut V { BODY } (V: Vec<T>) -> index loop (definition of IterMut over the vector's slice)
    "R10v": Rule("R10v", "for r in &mut V { BODY } -> { let mut i__ = 0; while i__ < V.len() { let r = &mut V.as_mut_slice()[i__]; i__ += 1; BODY } }",
                 "for $r in & mut $v { $$body }",
                 "{ let mut i__ = 0 ; while i__ < $v . len ( ) { let $r = & mut $v . as_mut_slice ( ) [ i__ ] ; i__ += 1 ; $$body } }"),
    # unchecked UTF-8 conversion: the unsafe precondition becomes an explicit `requires` of a helper (C15)
    "R1u": Rule("R1u", "unsafe { String::from_utf8_unchecked(v) } -> __from_utf8_unchecked(v)",
                "unsafe { String :: from_utf8_unchecked ( $v ) }", "__from_utf8_unchecked ( $v )"),
    "R12d": Rule("R12d", "V.iter().any(|&b| b >= X) -> __any_ge(V, X)",
                 "$v . iter ( ) . any ( | & $b | $b >= $$x )", "__any_ge ( $v , $$x )"),
    # zip of a mutable and a shared slice iterator with a by-value pattern on the shared side -> index loop over the
    # common prefix (definition of Zip<IterMut, Iter>: stops at the shorter operand)
    "R10z": Rule("R10z", "for (a, &b) in A.iter_mut().zip(B.iter()) { BODY } -> index loop over min(len A, len B)",
                 "for ( $a , & $b ) in $$x . iter_mut ( ) . zip ( $$y . iter ( ) ) { $$body }",
                 "{ let mut i__ = 0 ; let n__ = Ord :: min ( $$x . len ( ) , $$y . len ( ) ) ; while i__ < n__ { let $a = & mut $$x . as_mut_slice ( ) [ i__ ] ; let $b = $$y [ i__ ] ; i__ += 1 ; $$body } }"),
    "R10zs": Rule("R10zs", "for (a, &b) in A.iter_mut().zip(B.iter()) { BODY } (A: &mut [T]) -> index loop over min(len A, len B)",
                 "for ( $a , & $b ) in $x . iter_mut ( ) . zip ( $y . iter ( ) ) { $$body }",
                 "{ let mut i__ = 0 ; let n__ = Ord :: min ( $x . len ( ) , $y . len ( ) ) ; while i__ < n__ { let $a = & mut $x [ i__ ] ; let $b = $y [ i__ ] ; i__ += 1 ; $$body } }"),
    "R10s2": Rule("R10s2", "for e in V[D..].iter_mut() { BODY } (V: &mut Vec<T>, D an expression) -> index loop from D",
                 "for $e in $v [ $$d .. ] . iter_mut ( ) { $$body }",
                 "{ let mut i__ = $$d ; while i__ < $v . len ( ) { let $e = & mut $v . as_mut_slice ( ) [ i__ ] ; i__ += 1 ; $$body } }"),
    "R10s3": Rule("R10s3", "for e in S[D..].iter_mut() { BODY } (S: &mut [T], D an expression) -> index loop from D",
                 "for $e in $v [ $$d .. ] . iter_mut ( ) { $$body }",
                 "{ let mut i__ = $$d ; while i__ < $v . len ( ) { let $e = & mut $v [ i__ ] ; i__ += 1 ; $$body } }"),
    "R29": Rule("R29", "V.extend(E.iter().map(|&b| { BODY })); -> index loop pushing BODY evaluated per element, in order (std: Extend for Vec pushes each item the Map adapter yields; the FnMut closure runs once per element, sequentially)",
                 "$v . extend ( $e . iter ( ) . map ( | & $b | { $$body } ) ) ;",
                 "{ let mut i__ = 0 ; while i__ < $e . len ( ) { let $b = $e [ i__ ] ; i__ += 1 ; let x__ = { $$body } ; $v . push ( x__ ) ; } }"),
    "R3ca": Rule("R3ca", "X.clone() & Y -> BitAnd::bitand(X.clone(), Y)", "$x . clone ( ) & $y", "BitAnd :: bitand ( $x . clone ( ) , $y )"),
    "R3co": Rule("R3co", "X.clone() | Y -> BitOr::bitor(X.clone(), Y)", "$x . clone ( ) | $y", "BitOr :: bitor ( $x . clone ( ) , $y )"),
    "R3cx": Rule("R3cx", "X.clone() ^ Y -> BitXor::bitxor(X.clone(), Y)", "$x . clone ( ) ^ $y", "BitXor :: bitxor ( $x . clone ( ) , $y )"),
    "R3da": Rule("R3da", "&self.data & &other.data -> BitAnd::bitand(&self.data, &other.data)", "& self . data & & other . data", "BitAnd :: bitand ( & self . data , & other . data )"),
    "R3do": Rule("R3do", "&self.data | &other.data -> BitOr::bitor(&self.data, &other.data)", "& self . data | & other . data", "BitOr :: bitor ( & self . data , & other . data )"),
    "R3dp": Rule("R3dp", "&self.data + 1u32 -> Add::add(&self.data, 1u32)", "& self . data + 1u32", "Add :: add ( & self . data , 1u32 )"),
    "R3dm": Rule("R3dm", "&self.data - 1u32 -> Sub::sub(&self.data, 1u32)", "& self . data - 1u32", "Sub :: sub ( & self . data , 1u32 )"),
    "R3ng": Rule("R3ng", "-BigInt::X(..) -> Neg::neg(BigInt::X(..))", "- BigInt :: $f ( $$a )", "Neg :: neg ( BigInt :: $f ( $$a ) )"),
    "R10rv": Rule("R10rv", "for x in S { BODY } where S stands for slice.iter_mut().rev() (MODEL of the monomorphic instance I = Rev<IterMut<u8>>: the iterator yields the slice's elements last to first) -> { let mut i__ = S.len(); while i__ > 0 { i__ -= 1; let x = &mut S[i__]; BODY } }",
                 "for $x in $s { $$body }",
                 "{ let mut i__ = $s . len ( ) ; while i__ > 0 { i__ -= 1 ; let $x = & mut $s [ i__ ] ; $$body } }"),
    "R31": Rule("R31", "twos_complement(digits.iter_mut().rev()) -> twos_complement_rev(digits)  (call of the instance I = Rev<IterMut<u8>>, modelled by R10rv)",
                "twos_complement ( digits . iter_mut ( ) . rev ( ) )", "twos_complement_rev ( digits )"),
    "R3dz": Rule("R3dz", "d.is_zero() (d: &mut u8, num_traits::Zero for u8: `*self == 0`) -> (*d == 0)", "d . is_zero ( )", "( * d == 0 )"),
    "R30a": Rule("R30a", "bytes.iter().rev().skip(1).all(Zero::is_zero) -> __all_zero_but_last(&bytes)  (std iterator adapters: every element except the last one is zero)",
                 "bytes . iter ( ) . rev ( ) . skip ( 1 ) . all ( Zero :: is_zero )", "__all_zero_but_last ( & bytes )"),
    "R30b": Rule("R30b", "bytes.iter().skip(1).all(Zero::is_zero) -> __all_zero_but_first(&bytes)  (std iterator adapters: every element except the first one is zero)",
                 "bytes . iter ( ) . skip ( 1 ) . all ( Zero :: is_zero )", "__all_zero_but_first ( & bytes )"),
    "R30c": Rule("R30c", "bytes.last().cloned().unwrap_or(0) -> __last_or_zero(&bytes)", "bytes . last ( ) . cloned ( ) . unwrap_or ( 0 )", "__last_or_zero ( & bytes )"),
    "R30d": Rule("R30d", "bytes.first().cloned().unwrap_or(0) -> __first_or_zero(&bytes)", "bytes . first ( ) . cloned ( ) . unwrap_or ( 0 )", "__first_or_zero ( & bytes )"),
    "R30e": Rule("R30e", "Vec::from(digits) (digits: &[u8]) -> digits.to_vec()  (std: `impl From<&[T]> for Vec<T>` is `s.to_vec()`)", "Vec :: from ( $v )", "$v . to_vec ( )"),
    "R36a": Rule("R36a", "if let Some(&0) = S.last() { -> if __slice_last_is_zero(S) {  (pattern semantics: S non-empty and its last element equals 0)",
                 "if let Some ( & 0 ) = $v . last ( ) {", "if __slice_last_is_zero ( $v ) {"),
    "R36b": Rule("R36b", "if let Some(&0) = S.first() { -> if __slice_first_is_zero(S) {  (pattern semantics: S non-empty and its first element equals 0)",
                 "if let Some ( & 0 ) = $v . first ( ) {", "if __slice_first_is_zero ( $v ) {"),
    "R36c": Rule("R36c", "S.iter().rposition(|&x| x != 0).map_or(0, |i| i + 1) -> __rposition_nonzero_end(S)  (std: index of the last non-zero element plus one, 0 if there is none)",
                 "$v . iter ( ) . rposition ( | & x | x != 0 ) . map_or ( 0 , | i | i + 1 )", "__rposition_nonzero_end ( $v )"),
    "R36d": Rule("R36d", "S.iter().position(|&d| d != 0) -> __position_nonzero(S)  (std: index of the first non-zero element, None if none)",
                 "$v . iter ( ) . position ( | & d | d != 0 )", "__position_nonzero ( $v )"),
    "R36e": Rule("R36e", "for (i, xi) in x.iter().enumerate() { BODY } -> { let mut i__ = 0; while i__ < x.len() { let i = i__; let xi = &x[i__]; i__ += 1; BODY } }  (std: enumerate over a slice iterator yields (index, &element) in order)",
                 "for ( $i , $e ) in $v . iter ( ) . enumerate ( ) { $$body }",
                 "{ let mut i__ = 0 ; while i__ < $v . len ( ) { let $i = i__ ; let $e = & $v [ i__ ] ; i__ += 1 ; $$body } }"),
    "R3asa": Rule("R3asa", "*self = n + other; -> *self = Add::add(n, other);", "* self = n + other ;", "* self = Add :: add ( n , other ) ;"),
    "R3ass": Rule("R3ass", "*self = n - other; -> *self = Sub::sub(n, other);", "* self = n - other ;", "* self = Sub :: sub ( n , other ) ;"),
    "R37": MultiRule("R37", "Toom-3 interpolation statements of mac3: every BigInt operator expression written in trait-method form (Rust's definition of the operators; precedence and evaluation order kept; integer literals keep their i32 fallback type)", [
        ("let p = & x0 + & x2 ;", "let p = Add :: add ( & x0 , & x2 ) ;"),
        ("let q = & y0 + & y2 ;", "let q = Add :: add ( & y0 , & y2 ) ;"),
        ("let p2 = & p - & x1 ;", "let p2 = Sub :: sub ( & p , & x1 ) ;"),
        ("let q2 = & q - & y1 ;", "let q2 = Sub :: sub ( & q , & y1 ) ;"),
        ("let r0 = & x0 * & y0 ;", "let r0 = Mul :: mul ( & x0 , & y0 ) ;"),
        ("let r4 = & x2 * & y2 ;", "let r4 = Mul :: mul ( & x2 , & y2 ) ;"),
        ("let r1 = ( p + x1 ) * ( q + y1 ) ;", "let r1 = Mul :: mul ( Add :: add ( p , x1 ) , Add :: add ( q , y1 ) ) ;"),
        ("let r2 = & p2 * & q2 ;", "let r2 = Mul :: mul ( & p2 , & q2 ) ;"),
        ("let r3 = ( ( p2 + x2 ) * 2 - x0 ) * ( ( q2 + y2 ) * 2 - y0 ) ;",
         "let r3 = Mul :: mul ( Sub :: sub ( Mul :: mul ( Add :: add ( p2 , x2 ) , 2 ) , x0 ) , Sub :: sub ( Mul :: mul ( Add :: add ( q2 , y2 ) , 2 ) , y0 ) ) ;"),
        ("let mut comp3 : BigInt = ( r3 - & r1 ) / 3u32 ;", "let mut comp3 : BigInt = Div :: div ( Sub :: sub ( r3 , & r1 ) , 3u32 ) ;"),
        ("let mut comp1 : BigInt = ( r1 - & r2 ) >> 1 ;", "let mut comp1 : BigInt = Shr :: shr ( Sub :: sub ( r1 , & r2 ) , 1 ) ;"),
        ("let mut comp2 : BigInt = r2 - & r0 ;", "let mut comp2 : BigInt = Sub :: sub ( r2 , & r0 ) ;"),
        ("comp3 = ( ( & comp2 - comp3 ) >> 1 ) + ( & r4 << 1 ) ;", "comp3 = Add :: add ( Shr :: shr ( Sub :: sub ( & comp2 , comp3 ) , 1 ) , Shl :: shl ( & r4 , 1 ) ) ;"),
        ("comp2 += & comp1 - & r4 ;", "AddAssign :: add_assign ( & mut comp2 , Sub :: sub ( & comp1 , & r4 ) ) ;"),
        ("comp1 -= & comp3 ;", "SubAssign :: sub_assign ( & mut comp1 , & comp3 ) ;"),
        ("match j0_sign * j1_sign {", "match Mul :: mul ( j0_sign , j1_sign ) {"),
    ]),
    "R38": Rule("R38", "for (j, result) in [&r0, &comp1, &comp2, &comp3, &r4].iter().enumerate().rev() { BODY } -> { let arr__ = [&r0, &comp1, &comp2, &comp3, &r4]; let mut j__ = 5; while j__ > 0 { j__ -= 1; let j = j__; let result = &arr__[j__]; BODY } }  (std: enumerate().rev() over the 5-element array iterator yields (4, &a[4]) .. (0, &a[0]); `result` keeps its type &&BigInt)",
                "for ( j , result ) in [ & r0 , & comp1 , & comp2 , & comp3 , & r4 ] . iter ( ) . enumerate ( ) . rev ( ) { $$body }",
                "{ let arr__ = [ & r0 , & comp1 , & comp2 , & comp3 , & r4 ] ; let mut j__ = 5 ; while j__ > 0 { j__ -= 1 ; let j = j__ ; let result = & arr__ [ j__ ] ; $$body } }"),
    "R39": Rule("R39", "fn f(..) { PROLOGUE let (x, y) = E; REST } -> fn f(..) { PROLOGUE let (x, y) = E; loop { REST break; } }  (single-iteration loop: same behaviour; gives the verifier a cut point after the prologue; implemented by apply_cut_loop)", "<special>", "<special>"),
    "R40a": Rule("R40a", "match (&*self.data, &*other.data) { (&[], _) | (_, &[]) => A, (_, &[digit]) => B, (&[digit], _) => C, (x, y) => D, } -> length tests in the same order: if either is empty { A } else if other has one digit { let digit = ys[0]; B } else if self has one digit { let digit = xs[0]; C } else { let x = xs; let y = ys; D }  (slice patterns: `&[]` matches exactly the empty slice, `&[digit]` exactly the one-element slice and copies the element; arms are tried in order)",
                 "match ( & * self . data , & * other . data ) { ( & [ ] , _ ) | ( _ , & [ ] ) => $$a , ( _ , & [ digit ] ) => $$b , ( & [ digit ] , _ ) => $$c , ( x , y ) => $$d , }",
                 "{ let xs__ : & [ BigDigit ] = & * self . data ; let ys__ : & [ BigDigit ] = & * other . data ; if xs__ . len ( ) == 0 || ys__ . len ( ) == 0 { $$a } else if ys__ . len ( ) == 1 { let digit = ys__ [ 0 ] ; $$b } else if xs__ . len ( ) == 1 { let digit = xs__ [ 0 ] ; $$c } else { let x = xs__ ; let y = ys__ ; $$d } }"),
    "R40b": Rule("R40b", "the same for impl_mul_assign!: (&[], _) => {}, (_, &[]) => A, (_, &[digit]) => B, (&[digit], _) => C, (x, y) => D  -> if self empty { } else if other empty { A; } else if other has one digit { let digit = ys[0]; B; } else if self has one digit { let digit = xs[0]; C; } else { let x = xs; let y = ys; D; }",
                 "match ( & * self . data , & * other . data ) { ( & [ ] , _ ) => { } , ( _ , & [ ] ) => $$a , ( _ , & [ digit ] ) => $$b , ( & [ digit ] , _ ) => $$c , ( x , y ) => $$d , }",
                 "{ let xs__ : & [ BigDigit ] = & * self . data ; let ys__ : & [ BigDigit ] = & * other . data ; if xs__ . len ( ) == 0 { } else if ys__ . len ( ) == 0 { $$a ; } else if ys__ . len ( ) == 1 { let digit = ys__ [ 0 ] ; $$b ; } else if xs__ . len ( ) == 1 { let digit = xs__ [ 0 ] ; $$c ; } else { let x = xs__ ; let y = ys__ ; $$d ; } }"),
    "R40c": MultiRule("R40c", "operator forms of the impl_mul! arms in trait-method form", [
        ("self * digit", "Mul :: mul ( self , digit )"),
        ("other * digit", "Mul :: mul ( other , digit )"),
        ("* self *= digit", "MulAssign :: mul_assign ( self , digit )"),
    ]),
    "R12b2": Rule("R12b2", "V.iter().position(|&digit| !digit != 0) -> __pos_not_ones(&V)  (std: index of the first digit that is not all ones, None if none)",
                 "$$v . iter ( ) . position ( | & digit | ! digit != 0 )",
                 "__pos_not_ones ( & $$v )", guard=lambda e: e["$$v"] and all(t not in (";", "=", "{", "}", ",") for t in e["$$v"])),
    "R41": Rule("R41", "V.iter().map(|&d| u64::from(d.count_ones())).sum() -> index loop adding u64::from(d.count_ones()) for each element in order (std: Sum for u64 over a Map adapter; `+` with the overflow check of the build profile)",
                "$$v . iter ( ) . map ( | & d | u64 :: from ( d . count_ones ( ) ) ) . sum ( )",
                "{ let mut s__ : u64 = 0 ; let mut i__ = 0 ; while i__ < $$v . len ( ) { let d = $$v [ i__ ] ; i__ += 1 ; s__ = s__ + u64 :: from ( d . count_ones ( ) ) ; } s__ }",
                guard=lambda e: e["$$v"] and all(t not in (";", "=", "{", "}", ",") for t in e["$$v"])),
    "R42": Rule("R42", "static BASES: T = E; (function-local static initialised by a const fn call) -> let BASES: T = E;  (const evaluation is deterministic: the static holds the value the call returns; only the time of evaluation differs)",
                "static BASES : $$t = $$e ;", "let BASES : $$t = $$e ;"),
    "R16w2": Rule("R16w2", "while digits > big_base { -> while (digits.cmp(&big_base) == Greater) {  (std default `PartialOrd::gt` over `partial_cmp = Some(cmp)`)",
                  "while digits > big_base {", "while ( digits . cmp ( & big_base ) == core :: cmp :: Ordering :: Greater ) {"),
    "R12m2": Rule("R12m2", "let radix_digits = { FLOAT }; let mut res = Vec::with_capacity(radix_digits.to_usize().unwrap_or(0)); -> let mut res = Vec::with_capacity(__cap_hint());  (ABSTRACTION: the floating-point size estimate only sets the initial capacity, which has no effect on the result; allocation is assumed not to fail)",
                  "let radix_digits = { $$x } ; let mut res = Vec :: with_capacity ( radix_digits . to_usize ( ) . unwrap_or ( 0 ) ) ;",
                  "let mut res = Vec :: with_capacity ( __cap_hint ( ) ) ;"),
    "R3us": Rule("R3us", "digits.data.len().sqrt() (num_integer::Roots on usize: external crate) -> __usize_sqrt(digits.data.len())", "digits . data . len ( ) . sqrt ( )", "__usize_sqrt ( digits . data . len ( ) )"),
    "R3bb2": Rule("R3bb2", "big_base = &big_base * &big_base; -> big_base = Mul::mul(&big_base, &big_base);", "big_base = & big_base * & big_base ;", "big_base = Mul :: mul ( & big_base , & big_base ) ;"),
    "R43": Rule("R43", "S.iter().fold(0, |acc, &d| BODY) -> { let mut acc = 0; index loop: acc = BODY for each element in order; acc }  (std: Iterator::fold)",
                "$s . iter ( ) . fold ( 0 , | acc , & d | $$body )",
                "{ let mut acc = 0 ; let mut i__ = 0 ; while i__ < $s . len ( ) { let d = $s [ i__ ] ; i__ += 1 ; acc = $$body ; } acc }"),
    "R44": Rule("R44", "for chunk in S.chunks(N) { BODY } -> __assert(N != 0); index loop over consecutive sub-slices of length N, the last possibly shorter (std: `chunks` panics for N == 0)",
                "for chunk in $s . chunks ( $n ) { $$body }",
                "{ __assert ( $n != 0 ) ; let mut i__ = 0 ; while i__ < $s . len ( ) { let e__ = if $s . len ( ) - i__ < $n { $s . len ( ) } else { i__ + $n } ; let chunk = & $s [ i__ .. e__ ] ; i__ = e__ ; $$body } }"),
    "R12o": Rule("R12o", "if V.last() != Some(&0) { -> if !__last_is_zero64(&V) {  (Option<&u64> comparison: not (non-empty and last == 0))",
                 "if $v . last ( ) != Some ( & 0 ) {", "if ! __last_is_zero64 ( & $v ) {"),
    "R12m3": Rule("R12m3", "let big_digits = { FLOAT }; let mut data = Vec::with_capacity(big_digits.to_usize().unwrap_or(0)); -> let mut data = Vec::with_capacity(__cap_hint());  (ABSTRACTION as R12m2)",
                  "let big_digits = { $$x } ; let mut data = Vec :: with_capacity ( big_digits . to_usize ( ) . unwrap_or ( 0 ) ) ;",
                  "let mut data = Vec :: with_capacity ( __cap_hint ( ) ) ;"),
    "R45": Rule("R45", "self.iter_uNN_digits().collect() -> { let mut it__ = self.iter_uNN_digits(); let mut v__ = Vec::new(); loop { match it__.next() { Some(x__) => v__.push(x__), None => break, } } v__ }  (std: FromIterator for Vec pushes the items in the order `next` yields them, until None)",
                "self . $f ( ) . collect ( )",
                "{ let mut it__ = self . $f ( ) ; let mut v__ = Vec :: new ( ) ; loop { match it__ . next ( ) { Some ( x__ ) => v__ . push ( x__ ) , None => break , } } v__ }",
                guard=lambda e: e["$f"][0] in ("iter_u32_digits", "iter_u64_digits")),
    "R3zd": Rule("R3zd", "&*self / other -> Div::div(&*self, other)", "& * self / other", "Div :: div ( & * self , other )"),
    "R16v": Rule("R16v", "Ord::cmp(&bit, &trailing_zeros) -> __u64_cmp(bit, trailing_zeros)  (std: total order on u64)",
                 "Ord :: cmp ( & bit , & trailing_zeros )", "__u64_cmp ( bit , trailing_zeros )"),
    "R0p": Rule("R0p", "crate::big_digit::BITS -> big_digit::BITS  (path of the same constant inside the unit's module)",
                "crate :: big_digit :: BITS", "big_digit :: BITS"),
    "R0r": Rule("R0r", "power::modpow -> modpow  (path of the same function inside the unit's module)",
                "power :: modpow", "modpow"),
    "R0q": Rule("R0q", "bits::set_negative_bit -> set_negative_bit  (path of the same function inside the unit's module)",
                "bits :: set_negative_bit", "set_negative_bit"),
    "R16u": Rule("R16u", "Ord::cmp(&a.len(), &b.len()) -> __usize_cmp(a.len(), b.len())  (std: total order on usize)",
                 "Ord :: cmp ( & a . len ( ) , & b . len ( ) )", "__usize_cmp ( a . len ( ) , b . len ( ) )"),
    "R10y": Rule("R10y", "for (a, &b) in A.iter_mut().zip(B) { BODY } (B: &[T]) -> index loop over min(len A, len B)",
                 "for ( $a , & $b ) in $$x . iter_mut ( ) . zip ( $y ) { $$body }",
                 "{ let mut i__ = 0 ; let n__ = Ord :: min ( $$x . len ( ) , $y . len ( ) ) ; while i__ < n__ { let $a = & mut $$x [ i__ ] ; let $b = $y [ i__ ] ; i__ += 1 ; $$body } }"),
    "R10x": Rule("R10x", "for (a, b) in A.iter_mut().zip(B) { BODY } (A: &mut [T], B: &[T]) -> index loop over min(len A, len B), b = &B[i]",
                 "for ( $a , $b ) in $x . iter_mut ( ) . zip ( $y ) { $$body }",
                 "{ let mut i__ = 0 ; let n__ = Ord :: min ( $x . len ( ) , $y . len ( ) ) ; while i__ < n__ { let $a = & mut $x [ i__ ] ; let $b = & $y [ i__ ] ; i__ += 1 ; $$body } }"),
    "R12h": Rule("R12h", "V.extend(E.iter()) -> V.extend_from_slice(&E)  (std: `impl Extend<&T> for Vec<T> where T: Copy` copies the elements)",
                 "$$v . extend ( $$e . iter ( ) )", "$$v . extend_from_slice ( & $$e )",
                 guard=lambda e: e["$$v"] and e["$$e"] and all(t not in (";", "=", "{", "}", ",") for t in e["$$v"] + e["$$e"])),
    "R12i": Rule("R12i", "V.drain(..D); -> __vec_drain_front(&mut V, D);  (std: removes the first D elements; the returned iterator is dropped)",
                 "$$v . drain ( .. $d ) ;", "__vec_drain_front ( & mut $$v , $d ) ;",
                 guard=lambda e: e["$$v"] and all(t not in (";", "=", "{", "}", ",") for t in e["$$v"])),
    "R10s": Rule("R10s", "for e in V[D..].iter_mut() { BODY } (V: Vec<T>) -> index loop from D",
                 "for $e in $v [ $d .. ] . iter_mut ( ) { $$body }",
                 "{ let mut i__ = $d ; while i__ < $v . len ( ) { let $e = & mut $v . as_mut_slice ( ) [ i__ ] ; i__ += 1 ; $$body } }"),
    "R10y2": Rule("R10y2", "for (a, b) in A.iter_mut().zip(B.iter()) { BODY } (A: &mut [T], B: &[T]) -> index loop over min(len A, len B), b = &B[i]",
                 "for ( $a , $b ) in $x . iter_mut ( ) . zip ( $y . iter ( ) ) { $$body }",
                 "{ let mut i__ = 0 ; let n__ = Ord :: min ( $x . len ( ) , $y . len ( ) ) ; while i__ < n__ { let $a = & mut $x [ i__ ] ; let $b = & $y [ i__ ] ; i__ += 1 ; $$body } }"),
    "R10t": Rule("R10t", "for (i, (a, b)) in X.iter().zip(Y.iter()).enumerate().take(N) { BODY } -> index loop over min(len X, len Y, N) with a = &X[i], b = &Y[i]",
                 "for ( $i , ( $a , $b ) ) in $x . iter ( ) . zip ( $y . iter ( ) ) . enumerate ( ) . take ( $$n ) { $$body }",
                 "{ let mut i__ = 0 ; let n__ = Ord :: min ( Ord :: min ( $x . len ( ) , $y . len ( ) ) , $$n ) ; while i__ < n__ { let $i = i__ ; let $a = & $x [ i__ ] ; let $b = & $y [ i__ ] ; i__ += 1 ; $$body } }"),
    "R10w": Rule("R10w", "for a in V.iter_mut() { BODY } (V: Vec<T>) -> index loop",
                 "for $a in $$v . iter_mut ( ) { $$body }",
                 "{ let mut i__ = 0 ; while i__ < $$v . len ( ) { { let $a = & mut $$v . as_mut_slice ( ) [ i__ ] ; i__ += 1 ; $$body } } }"),
    "R12e": Rule("R12e", "V.extend(E.iter().cloned()) -> V.extend_from_slice(E)  (std: equivalent for Clone elements)",
                 "$$v . extend ( $e . iter ( ) . cloned ( ) )", "$$v . extend_from_slice ( $e )",
                 guard=lambda e: e["$$v"] and all(t not in (";", "=", "{", "}", ",") for t in e["$$v"])),
    # `*X <= *Y` for a type whose partial_cmp is Some(cmp): std's default `le` is `matches!(partial_cmp, Some(Less | Equal))`
    "R16": Rule("R16", "*X <= *Y -> (X.cmp(Y) != Greater)", "* $x <= * $y", "( $x . cmp ( $y ) != core :: cmp :: Ordering :: Greater )"),
    # derived Ord on the Sign enum, called through the method syntax -> named helper carrying the assumed contract
    "R16g": Rule("R16g", "if n > m { -> if (n.cmp(&m) == Greater) {  (std default `PartialOrd::gt` is `matches!(partial_cmp, Some(Greater))`, and partial_cmp is `Some(self.cmp(other))` for BigUint)",
                 "if n > m {", "if ( n . cmp ( & m ) == core :: cmp :: Ordering :: Greater ) {"),
    "R12j": Rule("R12j", "cmp::min(A, B) -> Ord::min(A, B)  (std: `pub fn min<T: Ord>(v1: T, v2: T) -> T { v1.min(v2) }`)",
                 "cmp :: min ( $$a , $$b )", "Ord :: min ( $$a , $$b )"),
    "R16l": Rule("R16l", "if t0 < qt1 { -> if (t0.cmp(&qt1) == Less) {  (std default `PartialOrd::lt` is `matches!(partial_cmp, Some(Less))`, and partial_cmp is `Some(self.cmp(other))` for BigUint)",
                 "if t0 < qt1 {", "if ( t0 . cmp ( & qt1 ) == core :: cmp :: Ordering :: Less ) {"),
    "R16w": Rule("R16w", "while x < xn { -> while (x.cmp(&xn) == Less) {  (std default PartialOrd::lt over partial_cmp = Some(cmp))",
                 "while x < xn {", "while ( x . cmp ( & xn ) == core :: cmp :: Ordering :: Less ) {"),
    "R16x": Rule("R16x", "while x > xn { -> while (x.cmp(&xn) == Greater) {  (std default PartialOrd::gt over partial_cmp = Some(cmp))",
                 "while x > xn {", "while ( x . cmp ( & xn ) == core :: cmp :: Ordering :: Greater ) {"),
    "R24": Rule("R24", "let guess = match self.to_f64() { .. }; -> let guess = __root_guess(self);  (ABSTRACTION: the floating-point initial guess - f64 conversion, sqrt/cbrt/ln/exp, the recursive scaled root - is replaced by an arbitrary positive canonical value; that computation is assumed to terminate without panic; the function result is proved independent of the guess)",
                "let guess = match self . to_f64 ( ) { $$arms } ;", "let guess = __root_guess ( self ) ;"),
    "R24b": Rule("R24b", "match self.to_f64() { Some(f) if f.is_finite() => { FLOAT } _ => { BODY } } -> match __float_guess(self) { Some(g__) => g__, None => { BODY } }  (ABSTRACTION, finer than R24: only the floating-point arm - f64 conversion, sqrt/cbrt/ln/exp, from_f64().unwrap() - is replaced by an arbitrary positive canonical value; the fallback arm is reached only for operands of 1024 bits or more (to_f64 of anything below 2^1023 is finite); the scaled recursive fallback itself stays under contract, including its termination)",
                 "match self . to_f64 ( ) { Some ( f ) if f . is_finite ( ) => { $$x } _ => { $$body } }",
                 "match __float_guess ( self ) { Some ( g__ ) => g__ , None => { $$body } }"),
    "R24c": Rule("R24c", "f64::MAX_EXP as u64 -> 1024u64  (std: `pub const MAX_EXP: i32 = 1024`)", "f64 :: MAX_EXP as u64", "1024u64"),
    "R3rs": Rule("R3rs", "(self >> scale).F(A) << root_scale -> Shl::shl(Shr::shr(self, scale).F(A), root_scale)",
                 "( self >> scale ) . $f ( $$a ) << root_scale", "Shl :: shl ( Shr :: shr ( self , scale ) . $f ( $$a ) , root_scale )"),
    "R3os": Rule("R3os", "BigUint::one() << max_bits -> Shl::shl(BigUint::one(), max_bits)", "BigUint :: one ( ) << max_bits", "Shl :: shl ( BigUint :: one ( ) , max_bits )"),
    "R3dc": Rule("R3dc", "Integer::div_ceil(&extra_bits, &n64) -> __u64_div_ceil(extra_bits, n64)  (num_integer on u64: external crate)", "Integer :: div_ceil ( & extra_bits , & n64 )", "__u64_div_ceil ( extra_bits , n64 )"),
    "R3u2": Rule("R3u2", "x.sqrt().into() (num_integer::Roots on u64: external crate) -> From::from(__u64_sqrt(x))", "x . sqrt ( ) . into ( )", "From :: from ( __u64_sqrt ( x ) )"),
    "R3u3": Rule("R3u3", "x.cbrt().into() (num_integer::Roots on u64: external crate) -> From::from(__u64_cbrt(x))", "x . cbrt ( ) . into ( )", "From :: from ( __u64_cbrt ( x ) )"),
    "R3un": Rule("R3un", "x.nth_root(n).into() (num_integer::Roots on u64: external crate) -> From::from(__u64_nth_root(x, n))", "x . nth_root ( n ) . into ( )", "From :: from ( __u64_nth_root ( x , n ) )"),
    "R25": Rule("R25", "V.extend(S.chunks(2).map(F)) -> explicit loop pushing F(&S[i..min(i+2,len)]) (std: `chunks(2)` yields consecutive sub-slices of length 2, the last possibly shorter; `map`/`extend` apply F and push in order)",
                "$$v . extend ( $s . chunks ( 2 ) . map ( $f ) )",
                "{ let mut i__ = 0 ; while i__ < $s . len ( ) { let e__ = if $s . len ( ) - i__ < 2 { $s . len ( ) } else { i__ + 2 } ; $$v . push ( $f ( & $s [ i__ .. e__ ] ) ) ; i__ = e__ ; } }",
                guard=lambda e: e["$$v"] and all(t not in (";", "=", "{", "}", ",") for t in e["$$v"])),
    "R10c": Rule("R10c", "for mut r in V[..N].iter().cloned() { BODY } -> index loop with `let mut r = V[i]` (std: `cloned` copies each element)",
                 "for mut $r in $$v [ .. $n ] . iter ( ) . cloned ( ) { $$body }",
                 "{ let mut i__ = 0 ; while i__ < $n { let mut $r = $$v [ i__ ] ; i__ += 1 ; $$body } }"),
    "R12m": Rule("R12m", "Integer::div_ceil(&A, &B).to_usize().unwrap_or(usize::MAX) -> __cap_hint(A, B)  (num_integer / num_traits on u64: external crates; the value is only used as a capacity hint, the helper promises nothing about it)",
                 "Integer :: div_ceil ( & $$a , & $$b ) . to_usize ( ) . unwrap_or ( usize :: MAX )", "__cap_hint ( $$a , $$b )"),
    "R26": Rule("R26", "V.chunks(N).map(|chunk| { chunk.iter().rev().fold(INIT, |acc, &c| BODY) }).collect() -> nested index loops building the Vec (std: `chunks(N)` yields consecutive sub-slices of length N, the last possibly shorter; `rev().fold` folds from the last element down; `collect` pushes in order)",
                "$v . chunks ( $$n ) . map ( | $chunk | { $chunk . iter ( ) . rev ( ) . fold ( $init , | $acc , & $c | $$body ) } ) . collect ( )",
                "{ let mut out__ = Vec :: new ( ) ; let n__ : usize = $$n ; let mut i__ = 0 ; while i__ < $v . len ( ) { let e__ = if $v . len ( ) - i__ < n__ { $v . len ( ) } else { i__ + n__ } ; let $chunk = & $v [ i__ .. e__ ] ; let mut $acc = $init ; let mut j__ = $chunk . len ( ) ; while j__ > 0 { j__ -= 1 ; let $c = $chunk [ j__ ] ; $acc = $$body ; } out__ . push ( $acc ) ; i__ = e__ ; } out__ }"),
    "R10d": Rule("R10d", "for c in &V { BODY } (V: Vec<T>) -> index loop with `let c = &V[i]`",
                 "for $c in & $$v { $$body }", "{ let mut i__ = 0 ; while i__ < $$v . len ( ) { let $c = & $$v [ i__ ] ; i__ += 1 ; $$body } }",
                 guard=lambda e: e["$$v"] and all(t not in (";", "=", "{", "}", ",", "(") for t in e["$$v"])),
    "R12n": Rule("R12n", "while let Some(&0) = V.last() { S } -> while __last_is_zero(&V) { S }  (pattern semantics: V non-empty and its last element equals 0)",
                 "while let Some ( & 0 ) = $v . last ( ) { $$s }", "while __last_is_zero ( & $v ) { $$s }"),
    "R10e": Rule("R10e", "for &c in V { BODY } (V: &[T], T: Copy) -> index loop with `let c = V[i]`",
                 "for & $c in $v { $$body }", "{ let mut i__ = 0 ; while i__ < $v . len ( ) { let $c = $v [ i__ ] ; i__ += 1 ; $$body } }"),
    "R3ma": Rule("R3ma", "a %= m; (a: BigUint, m: &BigUint) -> RemAssign::rem_assign(&mut a, m);", "$a %= m ;", "RemAssign :: rem_assign ( & mut $a , m ) ;"),
    "R3ms": Rule("R3ms", "a -= m; (a: BigUint, m: &BigUint) -> SubAssign::sub_assign(&mut a, m);", "$a -= m ;", "SubAssign :: sub_assign ( & mut $a , m ) ;"),
    "R3mr": Rule("R3mr", "(rr.shl(E)) % m -> Rem::rem(rr.shl(E), m)", "( rr . shl ( $$e ) ) % m", "Rem :: rem ( rr . shl ( $$e ) , m )"),
    "R10q": Rule("R10q", "for i in (0..E).rev() { BODY } -> { let mut i__ = E; while i__ > 0 { i__ -= 1; let i = i__; BODY } }  (std: Rev<Range<usize>> yields E-1, .., 0)",
                 "for $i in ( 0 .. $$e ) . rev ( ) { $$body }", "{ let mut i__ = $$e ; while i__ > 0 { i__ -= 1 ; let $i = i__ ; $$body } }"),
    "R10p": Rule("R10p", "for i in 2..1 << n { BODY } -> { let mut i__ = 2; let e__ = 1 << n; while i__ < e__ { let i = i__; i__ += 1; BODY } }  (std: Range<usize> yields 2, .., e-1; end evaluated once)",
                 "for $i in 2 .. 1 << n { $$body }", "{ let mut i__ = 2 ; let e__ = 1 << n ; while i__ < e__ { let $i = i__ ; i__ += 1 ; $$body } }"),
    "R3mb": Rule("R3mb", "acc %= modulus; -> RemAssign::rem_assign(&mut acc, modulus);", "acc %= modulus ;", "RemAssign :: rem_assign ( & mut acc , modulus ) ;"),
    "R3mc": Rule("R3mc", "acc *= &base; -> MulAssign::mul_assign(&mut acc, &base);", "acc *= & base ;", "MulAssign :: mul_assign ( & mut acc , & base ) ;"),
    "R3pa": Rule("R3pa", "base % modulus -> Rem::rem(base, modulus)", "= base % modulus ;", "= Rem :: rem ( base , modulus ) ;"),
    "R3pb": Rule("R3pb", "&base * &base % modulus -> Rem::rem(Mul::mul(&base, &base), modulus)  (Rust precedence: `*` and `%` left-associative, equal precedence)",
                 "& base * & base % modulus", "Rem :: rem ( Mul :: mul ( & base , & base ) , modulus )"),
    "R46": MultiRule("R46", "Skip<IterMut<u64>> over a Vec driven by next()/for -> position variable it__ over the same Vec (std: Skip::next first advances the inner slice iterator by n, IterMut yields the elements in index order; `next().unwrap()` panics exactly when the position is past the end = the index obligation; the `for` loop drains the rest and keeps `break`)", [
        ("let mut digit_iter = data . digits_mut ( ) . iter_mut ( ) . skip ( bit_index ) ;",
         "let digits__ = data . digits_mut ( ) ; let mut it__ : usize = bit_index ;"),
        ("let digit = digit_iter . next ( ) . unwrap ( ) ;",
         "let digit = & mut digits__ . as_mut_slice ( ) [ it__ ] ; it__ += 1 ;"),
        ("for digit in digit_iter { $$body }",
         "while it__ < digits__ . len ( ) { let digit = & mut digits__ . as_mut_slice ( ) [ it__ ] ; it__ += 1 ; $$body }"),
    ]),
    "R47": Rule("R47", "for d in &mut V[A..E] { BODY } (V: &mut Vec<T>) -> { let mut i__ = A; let e__ = E; __slice_range_check(i__, e__, V.len()); while i__ < e__ { let d = &mut V.as_mut_slice()[i__]; i__ += 1; BODY } }  (std: slicing panics unless A <= E <= len, kept as the helper's precondition; IterMut yields in index order)",
                "for $d in & mut $v [ $$a .. $$e ] { $$body }",
                "{ let mut i__ = $$a ; let e__ = $$e ; __slice_range_check ( i__ , e__ , $v . len ( ) ) ; while i__ < e__ { let $d = & mut $v . as_mut_slice ( ) [ i__ ] ; i__ += 1 ; $$body } }",
                guard=lambda e: e["$$a"] and e["$$e"] and all(t not in (";", "{", "}") for t in e["$$a"] + e["$$e"])),
    "R48": MultiRule("R48", "MODEL of &str as its UTF-8 byte slice, for the ASCII-only string operations of the parsers: `s: &str` -> `s: &[u8]`; str::strip_prefix(c) / starts_with(c) with an ASCII char c -> helpers testing the first byte (in UTF-8 an ASCII byte is always a whole character); `for b in s.bytes()` -> index loop over the bytes; len / is_empty are those of the byte slice", [
        ("s : & str", "s : & [ u8 ]"),
        ("$s . strip_prefix ( '+' )", "__strip_prefix_byte ( $s , b'+' )"),
        ("$s . strip_prefix ( '-' )", "__strip_prefix_byte ( $s , b'-' )"),
        ("$s . starts_with ( '+' )", "__starts_with_byte ( $s , b'+' )"),
        ("$s . starts_with ( '_' )", "__starts_with_byte ( $s , b'_' )"),
        ("for b in s . bytes ( ) { $$body }", "{ let mut i__ = 0 ; while i__ < s . len ( ) { let b = s [ i__ ] ; i__ += 1 ; $$body } }"),
        ("str :: from_utf8 ( buf ) . ok ( ) ?", "__from_utf8_ok ( buf ) ?"),
    ]),
    "R49": MultiRule("R49", "formatter bodies: `s.make_ascii_uppercase();` (String through DerefMut<Target = str>) -> `__make_ascii_uppercase(&mut s);`; `fmt::Display::fmt(self, f)` -> `self.fmt_display(f)` (the re-homed Display::fmt of the same type); fmt::Formatter / fmt::Result spelled with their core paths", [
        ("s . make_ascii_uppercase ( ) ;", "__make_ascii_uppercase ( & mut s ) ;"),
        ("fmt :: Display :: fmt ( self , f )", "self . fmt_display ( f )"),
        ("f : & mut fmt :: Formatter < '_ >", "f : & mut core :: fmt :: Formatter < '_ >"),
        ("-> fmt :: Result", "-> core :: fmt :: Result"),
    ]),
    "R50": Rule("R50", "iter.fold(INIT, F) -> { let mut it__ = iter; let mut acc__ = INIT; loop { match it__.next() { Some(x__) => { acc__ = F(acc__, x__); } None => break, } } acc__ }  (std: the default method Iterator::fold - `while let Some(x) = self.next() { accum = f(accum, x); }`)",
                "iter . fold ( $$init , $$f )",
                "{ let mut it__ = iter ; let mut acc__ = $$init ; loop { match it__ . next ( ) { Some ( x__ ) => { acc__ = $$f ( acc__ , x__ ) ; } None => break , } } acc__ }",
                guard=lambda e: e["$$init"] and e["$$f"] and "," not in e["$$init"]),
    "R51": MultiRule("R51", "bigrand (feature rand): num_integer calls on u64 -> helpers with the arithmetic definition; `vec![0u64; n]` -> helper; MODEL of the unsafe reinterpretation of the zeroed Vec<u64> as `len` u32 words (little-endian target): a separate word buffer is taken, filled and stored back, the safety precondition of from_raw_parts_mut (the words lie inside the allocation) becomes the helper's `requires`; comparisons of BigUint/BigInt references through `<` / `<=` -> `cmp` (std: PartialOrd on references compares the referents, default lt/le over partial_cmp = Some(cmp))", [
        ("use core :: slice ;", ""),
        ("bit_size . div_rem ( & 32 )", "__u64_div_rem ( bit_size , 32 )"),
        ("Integer :: div_ceil ( & bit_size , & 64 )", "__u64_div_ceil ( bit_size , 64 )"),
        ("vec ! [ 0u64 ; native_len ]", "__zeros_u64 ( native_len )"),
        ("( rem > 0 ) as u64", "__bool_u64 ( rem > 0 )"),
        ("unsafe { let ptr = data . as_mut_ptr ( ) as * mut u32 ; debug_assert ! ( native_len * 2 >= len ) ; let data = slice :: from_raw_parts_mut ( ptr , len ) ; gen_bits ( self , data , rem ) ; }",
         "{ let mut words__ = __u32_view_take ( & data , len ) ; gen_bits ( self , words__ . as_mut_slice ( ) , rem ) ; __u32_view_store ( & mut data , & words__ ) ; }"),
        ("if n < * bound {", "if ( n . cmp ( bound ) == core :: cmp :: Ordering :: Less ) {"),
        ("assert ! ( * lbound < * ubound ) ;", "__assert ( lbound . cmp ( ubound ) == core :: cmp :: Ordering :: Less ) ;"),
        ("assert ! ( low < high ) ;", "__assert ( low . cmp ( high ) == core :: cmp :: Ordering :: Less ) ;"),
        ("assert ! ( low <= high ) ;", "__assert ( low . cmp ( high ) != core :: cmp :: Ordering :: Greater ) ;"),
    ]),
    "R52": MultiRule("R52", "bigrand: operator expressions on references in trait-method form (Rust's definition of the operators), `X.borrow()` of rand's SampleBorrow at B = &T (returns the reference itself), and `Self::new(low, high + 1u32)` passing the sum by reference (new only borrows its arguments: instance B2 = &T instead of B2 = T)", [
        ("lbound + self . gen_biguint_below ( & ( ubound - lbound ) )", "Add :: add ( lbound , self . gen_biguint_below ( & Sub :: sub ( ubound , lbound ) ) )"),
        ("lbound + BigInt :: from ( $$e )", "Add :: add ( lbound , BigInt :: from ( $$e ) )"),
        ("let delta = ubound - lbound ;", "let delta = Sub :: sub ( ubound , lbound ) ;"),
        ("len : high - low ,", "len : Sub :: sub ( high , low ) ,"),
        ("len : ( high - low ) . into_parts ( ) . 1 ,", "len : Sub :: sub ( high , low ) . into_parts ( ) . 1 ,"),
        ("Self :: new ( low , high + 1u32 )", "Self :: new ( low , & Add :: add ( high , 1u32 ) )"),
        ("& self . base + rng . gen_biguint_below ( & self . len )", "Add :: add ( & self . base , rng . gen_biguint_below ( & self . len ) )"),
        ("& self . base + BigInt :: from ( $$e )", "Add :: add ( & self . base , BigInt :: from ( $$e ) )"),
        ("low_b . borrow ( )", "low_b"),
        ("high_b . borrow ( )", "high_b"),
        ("low . borrow ( )", "low"),
        ("high . borrow ( )", "high"),
    ]),
    "R53": MultiRule("R53", "serde bodies (feature serde) over the local model of serde's data model (prelude/serdemodel.rs): calls of serde's own Serialize / Deserialize impls for [u32], i8 and tuples and of Deserializer::deserialize_seq -> named helpers carrying the modelled semantics; `next_element::<u32>()` -> the monomorphic method; `while let Some(x) = E? { B }` -> `loop { let x = match E? { Some(v) => v, None => break }; B }` (definition of while-let); reference pattern in `if let`; `(c) as usize` of a bool -> helper; `mem::size_of::<u32>()` -> 4", [
        ("use serde :: ser :: SerializeSeq ;", ""),
        ("use crate :: big_digit :: BigDigit ;", ""),
        ("use num_integer :: Integer ;", ""),
        ("if let Some ( ( & last , data ) ) = self . data . split_last ( ) {", "if let Some ( ( last_r__ , data ) ) = self . data . split_last ( ) { let last = * last_r__ ;"),
        ("( last_hi != 0 ) as usize", "__bool_usize ( last_hi != 0 )"),
        ("let data : & [ u32 ] = & [ ] ; data . serialize ( serializer )", "__serialize_u32_empty ( serializer )"),
        ("( - 1i8 ) . serialize ( serializer )", "__serialize_i8 ( - 1i8 , serializer )"),
        ("0i8 . serialize ( serializer )", "__serialize_i8 ( 0i8 , serializer )"),
        ("1i8 . serialize ( serializer )", "__serialize_i8 ( 1i8 , serializer )"),
        ("i8 :: deserialize ( deserializer ) ?", "__deserialize_i8 ( deserializer ) ?"),
        ("Err ( D :: Error :: invalid_value ( Unexpected :: Signed ( sign . into ( ) ) , & $m , ) )", "Err ( __invalid_sign ( sign ) )"),
        ("( self . sign , & self . data ) . serialize ( serializer )", "__serialize_pair ( self . sign , & self . data , serializer )"),
        ("Deserialize :: deserialize ( deserializer ) ?", "__deserialize_pair ( deserializer ) ?"),
        ("deserializer . deserialize_seq ( U32Visitor )", "__deserialize_seq_u32visitor ( deserializer )"),
        ("Integer :: div_ceil ( & u32_len , & 2 )", "__usize_div_ceil ( u32_len , 2 )"),
        ("seq . next_element :: < u32 > ( )", "seq . next_element_u32 ( )"),
        ("while let Some ( lo ) = $$e ? { $$body }", "loop { let lo = match $$e ? { Some ( v__ ) => v__ , None => break , } ; $$body }"),
        ("mem :: size_of :: < u32 > ( )", "4usize"),
    ]),
    "R54": MultiRule("R54", "from_f64 over the local model MF64 of an f64 value (prelude/floatmodel.rs; Verus has no floating point): `n: f64` -> `n: MF64`; `FloatCore::integer_decode(n)` (num_traits, external) -> model helper; `n >= 0.0` / `-n` -> model methods; `exponent.cmp(&0)` on i16 -> helper with the numeric order; `Option::map(BigInt::from)` written as a match (std definition of Option::map); `-BigInt::from(x)` in trait-method form", [
        ("mut n : f64", "mut n : MF64"),
        ("n : f64", "n : MF64"),
        ("FloatCore :: integer_decode ( n )", "__integer_decode ( n )"),
        ("exponent . cmp ( & 0 )", "__i16_cmp ( exponent , 0 )"),
        ("n >= 0.0", "n . ge0 ( )"),
        ("BigUint :: from_f64 ( - n ) ?", "BigUint :: from_f64 ( n . neg ( ) ) ?"),
        ("BigUint :: from_f64 ( n ) . map ( BigInt :: from )", "match BigUint :: from_f64 ( n ) { Some ( v__ ) => Some ( BigInt :: from ( v__ ) ) , None => None , }"),
        ("Some ( - BigInt :: from ( x ) )", "Some ( Neg :: neg ( BigInt :: from ( x ) ) )"),
    ]),
    "R55": MultiRule("R55", "opt.as_ref().and_then(uN::to_iN) -> match on the option calling a helper with num_traits' semantics of the primitive conversion (std: Option::as_ref / and_then; num_traits: Some iff the value fits)", [
        ("self . to_u64 ( ) . as_ref ( ) . and_then ( u64 :: to_i64 )", "match self . to_u64 ( ) { Some ( v__ ) => __u64_to_i64 ( v__ ) , None => None , }"),
        ("self . to_u128 ( ) . as_ref ( ) . and_then ( u128 :: to_i128 )", "match self . to_u128 ( ) { Some ( v__ ) => __u128_to_i128 ( v__ ) , None => None , }"),
    ]),
    "R56": MultiRule("R56", "float tails of to_f64 / to_f32 over the local float model (prelude/floatmodel.rs): `(m as f64)`, `2.0f64.powi(E)`, `*`, `f64::INFINITY`, `f64::MAX_EXP` (std: `pub const MAX_EXP: i32`, 1024 / 128), unary minus and the f32 twins -> model helpers (IEEE semantics named, not interpreted); return types f64 / f32 -> MF64 / MF32; the generic fls at T = u64", [
        ("Option < f64 >", "Option < MF64 >"),
        ("Option < f32 >", "Option < MF32 >"),
        ("Some ( f64 :: INFINITY )", "Some ( __f64_infinity ( ) )"),
        ("Some ( f32 :: INFINITY )", "Some ( __f32_infinity ( ) )"),
        ("Some ( ( mantissa as f64 ) * 2.0f64 . powi ( $$e ) )", "Some ( __u64_as_f64 ( mantissa ) . mul ( __f64_pow2 ( $$e ) ) )"),
        ("Some ( ( mantissa as f32 ) * 2.0f32 . powi ( $$e ) )", "Some ( __u64_as_f32 ( mantissa ) . mul ( __f32_pow2 ( $$e ) ) )"),
        ("f32 :: MAX_EXP as u64", "128u64"),
        ("f64 :: MAX_EXP", "1024i32"),
        ("f32 :: MAX_EXP", "128i32"),
        ("fls ( mantissa )", "fls64 ( mantissa )"),
        ("Some ( if self . sign == Minus { - n } else { n } )", "Some ( if self . sign == Minus { n . negf ( ) } else { n } )"),
    ]),
    "R57": Rule("R57", "self.data.clone_from(&other.data) -> __vec_u64_clone_from(&mut self.data, &other.data)  (std: `Vec::clone_from` makes the receiver a clone of the argument, reusing its allocation; element type u64, whose clone is a copy)",
                "self . data . clone_from ( & other . data )", "__vec_u64_clone_from ( & mut self . data , & other . data )"),
    "R14n": Rule("R14n", "debug_assert_ne!(..); -> (dropped)", "debug_assert_ne ! ( $$c ) ;", ""),
    "R10n": Rule("R10n", "for _ in A..E { BODY } -> { let mut i__ = A; let e__ = E; while i__ < e__ { i__ += 1; BODY } }  (std: Range yields A, .., E-1; bounds evaluated once)",
                 "for _ in $$a .. $$e { $$body }", "{ let mut i__ = $$a ; let e__ = $$e ; while i__ < e__ { i__ += 1 ; $$body } }",
                 guard=lambda e: all(t not in (";", "{", "}") for t in e["$$a"] + e["$$e"])),
    "R28a": Rule("R28a", "S.iter().position(|&r| r != 0) -> __position_nonzero(S)  (std: index of the first element satisfying the predicate, None if none)",
                 "exp_data . iter ( ) . position ( | & r | r != 0 )", "__position_nonzero ( exp_data )"),
    "R28b": Rule("R28b", "let mut it = S[K..].iter(); -> let mut it: &[BigDigit] = &S[K..];  (MODEL: a slice iterator is represented by the sub-slice it has yet to yield; `it.len()` is then the remaining count)",
                 "let mut exp_iter = exp_data [ i + 1 .. ] . iter ( ) ;", "let mut exp_iter : & [ BigDigit ] = & exp_data [ i + 1 .. ] ;"),
    "R28c": Rule("R28c", "if let Some(&last) = it.next_back() { S } -> { let (nb__, rest__) = __slice_next_back(it); it = rest__; if let Some(&last) = nb__ { S } }  (std: DoubleEndedIterator::next_back on slice::Iter yields the last remaining element and shrinks the remainder)",
                 "if let Some ( & last ) = exp_iter . next_back ( ) { $$s }", "{ let ( nb__ , rest__ ) = __slice_next_back ( exp_iter ) ; exp_iter = rest__ ; if let Some ( & last ) = nb__ { $$s } }"),
    "R16ge": Rule("R16ge", "if zz >= *m { -> if !(zz.cmp(&*m) == Less) {  (std default `PartialOrd::ge` is `matches!(partial_cmp, Some(Greater | Equal))`, partial_cmp = Some(cmp) for BigUint)",
                  "if zz >= * m {", "if ! ( zz . cmp ( & * m ) == core :: cmp :: Ordering :: Less ) {"),
    "R17": Rule("R17", "self.sign.cmp(&other.sign) -> sign_cmp(&self.sign, &other.sign)",
                "self . sign . cmp ( & other . sign )", "sign_cmp ( & self . sign , & other . sign )"),
    "R2c": Rule("R2c", "if let Some(&x) = E { S } -> if let Some(x_r__) = E { let x = *x_r__; S }  (Copy element type)",
                "if let Some ( & $x ) = $$e { $$s }", "if let Some ( x_r__ ) = $$e { let $x = * x_r__ ; $$s }"),
    "R2b": Rule("R2b", "Some((&x, y)) => { BODY } -> Some((x_r__, y)) => { let x = *x_r__; BODY }",
                "Some ( ( & $x , $y ) ) => { $$body }", "Some ( ( x_r__ , $y ) ) => { let $x = * x_r__ ; $$body }"),
    # num_integer::Integer::is_even on a primitive (external crate) -> helper with the arithmetic definition
    "R15e": Rule("R15e", "n.is_even() (n: u32) -> __u32_is_even(n)", "n . is_even ( )", "__u32_is_even ( n )"),
    "R12k": Rule("R12k", "X.data[..] == [1] -> __vec_is_one(&X.data)  (slice/array equality)", "$x . data [ .. ] == [ 1 ]", "__vec_is_one ( & $x . data )"),
    "R12f": Rule("R12f", "X.data == [1] -> __vec_is_one(&X.data)", "$x . data == [ 1 ]", "__vec_is_one ( & $x . data )"),
    "R3k": Rule("R3k", "self.data[i].F().into() -> From::from(self.data[i].F())  (std: blanket `impl Into<U> for T where U: From<T>`)",
                "self . data [ i ] . $f ( ) . into ( )", "From :: from ( self . data [ i ] . $f ( ) )"),
    "R3b": Rule("R3b", "(digit & bit_mask) with digit: &u64 -> (*digit & bit_mask)  (std: `impl BitAnd<u64> for &u64` is `*self & rhs`)",
                "( digit & bit_mask )", "( * digit & bit_mask )"),
    "R3t": Rule("R3t", "q * &t1 % modulus -> Rem::rem(Mul::mul(q, &t1), modulus)  (operator definition, left-associative)",
                "q * & t1 % modulus", "Rem :: rem ( Mul :: mul ( q , & t1 ) , modulus )"),
    "R3v": Rule("R3v", "self / (s * s) -> Div::div(self, Mul::mul(s, s))  (operator definitions)", "self / ( s * s )", "Div :: div ( self , Mul :: mul ( s , s ) )"),
    "R3w": Rule("R3w", "(s << 1) + q -> Add::add(Shl::shl(s, 1), q)  (operator definitions)", "( s << 1 ) + q", "Add :: add ( Shl :: shl ( s , 1 ) , q )"),
    "R3x": Rule("R3x", "self / s.pow(n_min_1) -> Div::div(self, s.pow(n_min_1))", "self / s . pow ( n_min_1 )", "Div :: div ( self , s . pow ( n_min_1 ) )"),
    "R3y": Rule("R3y", "n_min_1 * s + q -> Add::add(Mul::mul(n_min_1, s), q)", "n_min_1 * s + q", "Add :: add ( Mul :: mul ( n_min_1 , s ) , q )"),
    "R3z": Rule("R3z", "&*self / other -> Div::div(&*self, other)", "& * self / other", "Div :: div ( & * self , other )"),
    "R3zr": Rule("R3zr", "&*self % other -> Rem::rem(&*self, other)", "& * self % other", "Rem :: rem ( & * self , other )"),
    "R3bb": Rule("R3bb", "((yi & !xi) | ((yi | !xi) & zi)) with xi, yi: &u64 -> the same on *xi, *yi  (std: bit operators on &u64 act on the referenced values)",
                 "( ( yi & ! xi ) | ( ( yi | ! xi ) & zi ) )", "( ( * yi & ! * xi ) | ( ( * yi | ! * xi ) & zi ) )"),
    "R3i": Rule("R3i", "rem.into() -> From::from(rem)  (std: blanket `impl Into<U> for T where U: From<T>`)", "rem . into ( )", "From :: from ( rem )"),
    "R3o": Rule("R3o", "One::one() -> BigUint::one()  (the impl selected by the return type)", "One :: one ( )", "BigUint :: one ( )"),
    "R12g": Rule("R12g", "BigDigit::from_u128(x) -> __digit_from_u128(x)  (num_traits::FromPrimitive on u64: external crate; helper carries the assumed contract)",
                 "BigDigit :: from_u128 ( $x )", "__digit_from_u128 ( $x )"),
    "R19": Rule("R19", "|_| E -> |_e| E  (Verus rejects `_` closure parameters)", "| _ |", "| _e |"),
    "R4b": Rule("R4b", "for (a, &b) in I { S } -> for (a, b_r__) in I { let b = *b_r__; S }",
                "for ( $a , & $b ) in $$i { $$s }",
                "for ( $a , b_r__ ) in $$i { let $b = * b_r__ ; $$s }"),
}


_UFCS = {"+": ("Add", "add"), "-": ("Sub", "sub"), "*": ("Mul", "mul"), "/": ("Div", "div"), "%": ("Rem", "rem"),
         "&": ("BitAnd", "bitand"), "|": ("BitOr", "bitor"), "^": ("BitXor", "bitxor"), "<<": ("Shl", "shl"), ">>": ("Shr", "shr")}


def apply_ufcs(ss, specs, log, where):
    """R3: `X op Y` (X, Y identifiers named in the unit directive) -> `Trait::method(X, Y)` -- Rust's definition of
    the operator; needed where Verus fails on reference operands of user types."""
    want = []
    for sp in specs:
        m = re.match(r"(\w+)(<<|>>|[-+*/%&|^])(\w+)$", sp)
        if not m:
            raise ExtractError("bad ufcs spec " + sp)
        want.append((m.group(1), m.group(2), m.group(3)))
    out = []
    i = 0
    while i < len(ss):
        hit = None
        if i + 2 < len(ss):
            for (x, op, y) in want:
                if ss[i] == x and ss[i + 1] == op and ss[i + 2] == y and (i == 0 or ss[i - 1] not in (".", "::")) \
                        and (i + 3 >= len(ss) or ss[i + 3] not in (".", "(", "[", "::")):
                    hit = (x, op, y)
                    break
        if hit:
            tr, me = _UFCS[hit[1]]
            out.extend([tr, "::", me, "(", hit[0], ",", hit[2], ")"])
            log.append({"rule": "R3", "function": where, "from": "%s %s %s" % hit, "to": "%s::%s(%s, %s)" % (tr, me, hit[0], hit[2])})
            i += 3
        else:
            out.append(ss[i])
            i += 1
    return out


def _match_close(ss, k):
    """index of the token closing the bracket opened at ss[k]"""
    op = ss[k]
    cl = {"(": ")", "{": "}", "[": "]"}[op]
    d = 0
    while k < len(ss):
        if ss[k] == op:
            d += 1
        elif ss[k] == cl:
            d -= 1
            if d == 0:
                return k
        k += 1
    raise ExtractError("unbalanced bracket")


def apply_inline_closure(ss, log, where):
    """R27: `let mut F = |P| { BODY };` with every use of F a direct call statement `F(ARG);`
    -> the binding is dropped and each call becomes `{ let P = ARG; BODY }` (beta-reduction of a local closure:
    the argument is evaluated first, then the body runs on the captured variables; BODY must not contain `return`,
    and F must not be used in any other way -- both checked here)."""
    for i in range(len(ss) - 6):
        if ss[i] == "let" and ss[i + 1] == "mut" and ss[i + 3] == "=" and ss[i + 4] == "|" and ss[i + 6] == "|" and ss[i + 7] == "{":
            break
    else:
        raise ExtractError("R27: no `let mut F = |P| { .. };` in " + where)
    name, par = ss[i + 2], ss[i + 5]
    e = _match_close(ss, i + 7)
    if ss[e + 1] != ";":
        raise ExtractError("R27: closure binding not terminated by `;`")
    body = ss[i + 7:e + 1]
    if "return" in body or "?" in body:
        raise ExtractError("R27: closure body has non-local control flow")
    rest = ss[e + 2:]
    out = ss[:i]
    k = 0
    n = 0
    while k < len(rest):
        if rest[k] == name:
            if not (k + 1 < len(rest) and rest[k + 1] == "("):
                raise ExtractError("R27: closure used other than by direct call")
            c = _match_close(rest, k + 1)
            if rest[c + 1] != ";":
                raise ExtractError("R27: closure call is not a statement")
            out.extend(["{", "let", par, "="] + rest[k + 2:c] + [";"] + body + ["}"])
            n += 1
            k = c + 2
        else:
            out.append(rest[k])
            k += 1
    log.append({"rule": "R27", "function": where, "from": "let mut %s = |%s| {..}; %d call statements" % (name, par, n),
                "to": "binding dropped; each call -> { let %s = ARG; BODY }" % par})
    return out


def apply_cut_loop(ss, log, where):
    """R39: in `fn f(..) { PROLOGUE let (x, y) = E; REST }` the statement sequence REST (which contains no top-level
    break/continue) is wrapped as `loop { REST break; }` -- a loop that runs exactly once. Behaviour is unchanged
    (a `return` inside REST still returns from the function); the loop head gives the verifier a cut point, so REST
    is checked once against an invariant instead of once per path through PROLOGUE."""
    pat = ["let", "(", "x", ",", "y", ")", "="]
    for i in range(len(ss) - len(pat)):
        if ss[i:i + len(pat)] == pat:
            break
    else:
        raise ExtractError("R39: no `let (x, y) =` in " + where)
    # end of that statement: the `;` at depth 0
    k = i
    depth = 0
    while k < len(ss):
        if ss[k] in ("(", "[", "{"):
            depth += 1
        elif ss[k] in (")", "]", "}"):
            depth -= 1
        elif ss[k] == ";" and depth == 0:
            break
        k += 1
    end = len(ss) - 1
    if ss[end] != "}":
        raise ExtractError("R39: function body does not end with `}`")
    rest = ss[k + 1:end]
    # no top-level break / continue in REST (inside nested loops they are fine; the source has none at all)
    if "break" in rest or "continue" in rest:
        raise ExtractError("R39: REST contains break/continue")
    log.append({"rule": "R39", "function": where, "from": "let (x, y) = ..; REST (%d tokens)" % len(rest), "to": "let (x, y) = ..; loop { REST break; }"})
    return ss[:k + 1] + ["loop", "{"] + rest + ["break", ";", "}"] + ["}"]


def apply_mut_self(ss, log, where):
    """R5: `fn f(mut self, ..) { S }` -> `fn f(self, ..) { let mut self__ = self; S[self := self__] }`"""
    for i in range(len(ss) - 2):
        if ss[i] == "(" and ss[i + 1] == "mut" and ss[i + 2] == "self":
            break
    else:
        return ss
    out = ss[:i + 1] + ss[i + 2:]
    # body: first `{` at paren depth 0 after the parameter list
    depth = 0
    k = i
    while k < len(out):
        if out[k] in ("(", "["):
            depth += 1
        elif out[k] in (")", "]"):
            depth -= 1
        elif out[k] == "{" and depth == 0:
            break
        k += 1
    body = ["self__" if t == "self" else t for t in out[k + 1:]]
    log.append({"rule": "R5", "function": where, "from": "mut self", "to": "self; let mut self__ = self; (body uses self__)"})
    return out[:k + 1] + ["let", "mut", "self__", "=", "self", ";"] + body


def apply_cfg_rule(ss, log, where):
    """R0: resolve #[cfg(..)] on statements/items inside an extracted item for the fixed target.
    Active: the attribute is dropped. Inactive: attribute and the statement/item it guards are dropped."""
    out = []
    i = 0
    while i < len(ss):
        if ss[i] == "#" and i + 1 < len(ss) and ss[i + 1] == "[" and i + 2 < len(ss) and ss[i + 2] == "cfg":
            # find end of attribute
            depth, k = 0, i + 1
            while True:
                if ss[k] == "[":
                    depth += 1
                elif ss[k] == "]":
                    depth -= 1
                    if depth == 0:
                        break
                k += 1
            pred = ss[i + 4:k - 1]
            active = eval_cfg(pred)
            if active:
                log.append({"rule": "R0", "function": where, "from": join(ss[i:k + 1]), "to": "(active cfg attribute dropped)"})
                i = k + 1
                continue
            # drop following statement: up to `;` at depth 0, or a block item ending in `}`
            j = k + 1
            depth = 0
            while j < len(ss):
                s = ss[j]
                if s in OPEN:
                    depth += 1
                elif s in CLOSE:
                    depth -= 1
                    if depth == 0 and s == "}" and (j + 1 >= len(ss) or ss[j + 1] != ";") and ss[k + 1] in ("fn", "pub", "impl", "mod", "unsafe", "const"):
                        break
                    # block-like statements (no trailing `;`): the statement ends with its block (an `else` continues it)
                    if depth == 0 and s == "}" and ss[k + 1] in ("for", "while", "loop", "if", "match") and (j + 1 >= len(ss) or ss[j + 1] not in (";", "else", ".")):
                        break
                elif s == ";" and depth == 0:
                    break
                j += 1
            log.append({"rule": "R0", "function": where, "from": join(ss[i:j + 1]), "to": "(inactive cfg: dropped)"})
            i = j + 1
            continue
        out.append(ss[i])
        i += 1
    return out


def apply_cfg_digit_expr(ss, log, where):
    """R0d: `cfg_digit_expr!(E32, E64)` -> `E64` (the crate's macro selects by target_pointer_width; fixed target: 64-bit)."""
    out = []
    i = 0
    while i < len(ss):
        if ss[i] == "cfg_digit_expr" and i + 2 < len(ss) and ss[i + 1] == "!" and ss[i + 2] == "(":
            depth = 0
            k = i + 2
            comma = None
            while True:
                if ss[k] in OPEN:
                    depth += 1
                elif ss[k] in CLOSE:
                    depth -= 1
                    if depth == 0:
                        break
                elif ss[k] == "," and depth == 1 and comma is None:
                    comma = k
                k += 1
            out.extend(ss[comma + 1:k])
            log.append({"rule": "R0d", "function": where, "from": "cfg_digit_expr!(E32, E64)", "to": "E64"})
            i = k + 1
            continue
        out.append(ss[i])
        i += 1
    return out


def drop_attrs(ss, names=("inline", "doc", "allow", "must_use", "cold", "rustfmt")):
    """Drop harmless attributes (#[inline], #[allow], doc) from a token-string list."""
    out = []
    i = 0
    while i < len(ss):
        if ss[i] == "#" and i + 2 < len(ss) and ss[i + 1] == "[" and ss[i + 2] in names:
            depth, k = 0, i + 1
            while True:
                if ss[k] == "[":
                    depth += 1
                elif ss[k] == "]":
                    depth -= 1
                    if depth == 0:
                        break
                k += 1
            i = k + 1
            continue
        out.append(ss[i])
        i += 1
    return out


def macro_arm(text, name, arm=0):
    """(param names, body tokens) of arm `arm` of `macro_rules! name` in `text`."""
    toks = tokenize(text)
    ss = strs(toks)
    for i in range(len(ss) - 3):
        if ss[i] == "macro_rules" and ss[i + 1] == "!" and ss[i + 2] == name and ss[i + 3] in OPEN:
            o = i + 3
            c = match_close(toks, o)
            k = o + 1
            arms = []
            while k < c:
                if ss[k] in OPEN:
                    pe = match_close(toks, k)
                    # expect => then group
                    if ss[pe + 1] == "=>" and ss[pe + 2] in OPEN:
                        be = match_close(toks, pe + 2)
                        arms.append((ss[k + 1:pe], ss[pe + 3:be]))
                        k = be + 1
                        continue
                k += 1
            pat, body = arms[arm]
            params = []
            j = 0
            while j < len(pat):
                if pat[j] == "$" and j + 3 < len(pat) + 1 and pat[j + 2] == ":":
                    params.append(("$" + pat[j + 1], pat[j + 3]))
                    j += 4
                else:
                    j += 1
            return params, body, pat
    raise ExtractError("anchor lost: macro_rules! %s" % name)


def expand_macro(ss, name, src_text, log, where, arm=0):
    """R6: replace `name!(args)` in ss by the macro arm body with parameters substituted (expr arguments are
    parenthesised, as macro expansion treats them as single expression nodes)."""
    params, body, pat = macro_arm(src_text, name, arm)
    out = []
    i = 0
    n = 0
    while i < len(ss):
        if ss[i] == name and i + 2 < len(ss) and ss[i + 1] == "!" and ss[i + 2] in OPEN:
            depth = 0
            k = i + 2
            while True:
                if ss[k] in OPEN:
                    depth += 1
                elif ss[k] in CLOSE:
                    depth -= 1
                    if depth == 0:
                        break
                k += 1
            args = []
            cur = []
            d = 0
            for t in ss[i + 3:k]:
                if t in OPEN:
                    d += 1
                elif t in CLOSE:
                    d -= 1
                if t == "," and d == 0:
                    args.append(cur)
                    cur = []
                else:
                    cur.append(t)
            if cur:
                args.append(cur)
            if len(args) != len(params):
                raise ExtractError("macro %s: %d args for %d params" % (name, len(args), len(params)))
            subst = {}
            for (pn, frag), a in zip(params, args):
                subst[pn] = (["("] + a + [")"]) if (frag == "expr" and len(a) > 1) else a
            out.extend(substitute(body, subst))
            log.append({"rule": "R6", "function": where, "from": name + "!(" + join(ss[i + 3:k]) + ")", "to": "macro arm body with " + ", ".join("%s=%s" % (p[0], join(a)) for p, a in zip(params, args))})
            i = k + 1
            if i < len(ss) and ss[i] == ";" and False:
                i += 1
            n += 1
        else:
            out.append(ss[i])
            i += 1
    return out


def substitute(ss, subst):
    """R6: macro-parameter substitution `$name` -> token list."""
    out = []
    i = 0
    while i < len(ss):
        if ss[i] == "$" and i + 1 < len(ss) and ("$" + ss[i + 1]) in subst:
            out.extend(subst["$" + ss[i + 1]])
            i += 2
        else:
            out.append(ss[i])
            i += 1
    return out


# --------------------------------------------------------------------------- annotated copies

INS_OPEN, INS_CLOSE = "/*+*/", "/*-*/"


def split_annotated(text):
    """Split an annotated copy into segments [(kind, text)] with kind in {'real','ins'}.
    Inserted text: between /*+*/ and /*-*/, or whole lines between lines `//+{` and `//+}`."""
    segs = []
    i = 0
    n = len(text)
    buf = []
    line_re = re.compile(r"^[ \t]*//\+\{[^\n]*\n", re.M)
    while i < n:
        j = text.find(INS_OPEN, i)
        m = line_re.search(text, i)
        jm = m.start() if m else -1
        cands = [x for x in (j, jm) if x >= 0]
        if not cands:
            segs.append(("real", text[i:]))
            break
        k = min(cands)
        if k > i:
            segs.append(("real", text[i:k]))
        if k == j and (jm < 0 or j < jm):
            e = text.find(INS_CLOSE, k)
            if e < 0:
                raise ValueError("unterminated /*+*/")
            segs.append(("ins", text[k:e + len(INS_CLOSE)]))
            i = e + len(INS_CLOSE)
        else:
            m2 = re.compile(r"^[ \t]*//\+\}[^\n]*\n?", re.M).search(text, m.end())
            if not m2:
                raise ValueError("unterminated //+{")
            segs.append(("ins", text[k:m2.end()]))
            i = m2.end()
    return segs


def base_tokens(segs):
    """Tokens of the real segments with absolute offsets into the concatenated text."""
    toks = []
    off = 0
    for kind, t in segs:
        if kind == "real":
            toks.extend(tokenize(t, base=off))
        off += len(t)
    return toks


def transplant(annot_text, new_ss):
    """Carry the annotations of `annot_text` over to the token stream `new_ss`.
    Returns (woven_text, info) where info = {identical, edits, displaced}."""
    segs = split_annotated(annot_text)
    full = "".join(t for _, t in segs)
    btoks = base_tokens(segs)
    bss = strs(btoks)
    if bss == new_ss:
        return full, {"identical": True, "edits": 0, "displaced": 0}
    # spans of inserted segments
    ins_spans = []
    off = 0
    for kind, t in segs:
        if kind == "ins":
            ins_spans.append((off, off + len(t)))
        off += len(t)
    sm = difflib.SequenceMatcher(a=bss, b=new_ss, autojunk=False)
    out = []
    pos = 0  # position in full
    edits = 0
    displaced = 0
    dropped = 0
    for tag, i1, i2, j1, j2 in sm.get_opcodes():
        if tag == "equal":
            continue
        edits += 1
        if tag == "insert":
            # place right after previous real token
            at = btoks[i1 - 1].b if i1 > 0 else (btoks[0].a if btoks else 0)
            # new tokens that open a statement (`if` / `while` / `match` .. in front of a kept expression) and do not end
            # one continue into the next real token: annotations standing between the two real tokens are statements of
            # their own and must not end up inside that new statement's head, so the new tokens go after them
            if i1 > 0 and i1 < len(btoks) and new_ss[j2 - 1] not in (";", "}", "{") and new_ss[j1] in ("if", "while", "for", "loop", "match", "let", "return"):
                nxt = btoks[i1].a
                for (x, y) in ins_spans:
                    if at <= x and y <= nxt and y > at:
                        at = y
            out.append(full[pos:at])
            out.append(" " + join(new_ss[j1:j2]) + " ")
            pos = at
        else:
            a, b = btoks[i1].a, btoks[i2 - 1].b
            out.append(full[pos:a])
            out.append(" " + join(new_ss[j1:j2]) + " ")
            # keep annotations that were inside the replaced span (after the replacement, each on its own line so
            # that line-form markers stay recognisable)
            for (x, y) in ins_spans:
                if a <= x and y <= b:
                    seg = full[x:y]
                    if tag == "delete" and _is_proof_hint(seg) and not _only_braces(bss[i1:i2]):
                        # the statements on both sides of this proof hint were deleted: a hint for code that is gone is
                        # dropped with it (dropping a hint can only make the verifier prove less, never more)
                        dropped += 1
                        continue
                    out.append("\n" + seg + ("" if seg.endswith("\n") else "\n"))
                    displaced += 1
            pos = b
    out.append(full[pos:])
    woven = "".join(out)
    return woven, {"identical": False, "edits": edits, "displaced": displaced, "dropped": dropped}


def _is_proof_hint(seg):
    """annotation segment that consists of ghost statements only (proof blocks, ghost lets, asserts)"""
    t = seg.replace(INS_OPEN, "").replace(INS_CLOSE, "")
    t = re.sub(r"^[ \t]*//\+[{}][^\n]*\n?", "", t, flags=re.M).strip()
    return bool(re.match(r"(proof\s*\{|assert\b|let\s+ghost\b)", t)) and not re.search(r"\b(requires|ensures|invariant|invariant_except_break|decreases|assume|admit)\b", t)


def _only_braces(toks):
    return all(t in ("{", "}", ";") for t in toks)




def norm_loop_break(ss):
    """RN1: `loop { if C { break; } B }` -> `while !(C) { B }` (definitional unfolding of `while`, std reference:
    `while C { B }` is `loop { if C { B } else { break } }`); applied only where the annotated base has a `while`."""
    out = []
    i = 0
    n = 0
    while i < len(ss):
        if ss[i] == "loop" and ss[i + 1:i + 3] == ["{", "if"]:
            # condition: up to the `{` at depth 0
            j = i + 3
            d = 0
            while j < len(ss) and not (ss[j] == "{" and d == 0):
                d += (ss[j] in ("(", "[")) - (ss[j] in (")", "]"))
                j += 1
            if j + 3 < len(ss) and ss[j + 1:j + 4] == ["break", ";", "}"] and ss[j + 4:j + 5] != ["else"]:
                cond = ss[i + 3:j]
                # end of the loop body
                k = i + 1
                d = 0
                while k < len(ss):
                    d += (ss[k] == "{") - (ss[k] == "}")
                    if d == 0:
                        break
                    k += 1
                body = ss[j + 4:k]
                if "break" not in cond:
                    out += ["while", "!", "("] + cond + [")", "{"] + body + ["}"]
                    i = k + 1
                    n += 1
                    continue
        out.append(ss[i])
        i += 1
    return out, n

# ------------------------------------------------------------------ equivalence hints for expression-level edits
# When an edit rewrites ONE expression inside an otherwise unchanged statement into another expression over the same
# machine integers, the proof text of the unit still talks about the old form. The weaver then adds, in front of the
# statement, the ghost line
#       proof { assert((NEW) == (OLD)) by (bit_vector); }      // @eqv-hint
# i.e. an obligation for Verus' bit-vector back end. Nothing is assumed: the executable text stays the NEW text (its
# overflow / bounds obligations are generated from it as usual); if the hint does not verify - or does not type-check -
# the unit is re-woven without hints and decided as before (tools/check.py run_unit).
EQV_MARK = "// @eqv-hint"
_SEP = (";", "{", "}")
_ASSIGN = ("=", "+=", "-=", "*=", "/=", "%=", "&=", "|=", "^=", "<<=", ">>=")
_HEADKW = ("if", "while", "return")
_BINOP = ("+", "-", "*", "/", "%", "&", "|", "^", "<<", ">>", "==", "!=", "<", "<=", ">", ">=", "&&", "||")
_INT_T = ("u8", "u16", "u32", "u64", "u128", "usize", "i8", "i16", "i32", "i64", "i128", "isize", "bool",
          "BigDigit", "DoubleBigDigit", "SignedDoubleBigDigit")


def _expr_ok(ts):
    """a pure operator expression over variables, paths and literals (no calls, fields, indexing, references, blocks)"""
    if not ts:
        return False
    prev = None
    for k, t in enumerate(ts):
        nxt = ts[k + 1] if k + 1 < len(ts) else None
        if t in ("(", ")", "::", "as", "!", "true", "false") or t in _BINOP:
            if t == "&" and (prev is None or prev in _BINOP or prev in ("(", "!", "as")):
                return False            # a reference, not a bit-and
            if t == "|" and (prev is None or prev in _BINOP or prev == "("):
                return False            # a closure
        elif re.match(r"^[0-9][0-9a-zA-Z_]*$", t):
            pass
        elif re.match(r"^[A-Za-z_][A-Za-z_0-9]*$", t):
            if t in ("mut", "ref", "let", "if", "else", "match", "loop", "while", "for", "in", "move", "return", "break", "continue", "unsafe", "self", "Self"):
                return False
            if nxt == "(" or nxt == "!" and k + 2 < len(ts) and ts[k + 2] == "(":
                return False            # call / macro
            if prev == "as" and t not in _INT_T:
                return False
        else:
            return False
        prev = t
    depth = 0
    for t in ts:
        depth += (t == "(") - (t == ")")
        if depth < 0:
            return False
    return depth == 0


def _stmt_bounds(ts, lo, hi):
    a = lo
    while a > 0 and ts[a - 1] not in _SEP:
        a -= 1
    b = hi
    while b < len(ts) and ts[b] not in _SEP:
        b += 1
    return a, b


def _expr_bounds(ts, a, b, lo, hi):
    """widen [lo, hi) inside the statement [a, b) to the enclosing operator expression"""
    need_open = need_close = 0
    d = 0
    for t in ts[lo:hi]:
        if t in ("(", "["):
            d += 1
        elif t in (")", "]"):
            if d == 0:
                need_open += 1
            else:
                d -= 1
    need_close = d
    i = lo
    pend = 0
    while i > a:
        t = ts[i - 1]
        if t in (")", "]"):
            pend += 1
        elif t in ("(", "["):
            if pend:
                pend -= 1
            elif need_open:
                need_open -= 1
            else:
                break
        elif pend == 0 and need_open == 0 and (t in _ASSIGN or t in _HEADKW or t in (",", "=>", "let", "in")):
            break
        i -= 1
    j = hi
    pend = 0
    while j < b:
        t = ts[j]
        if t in ("(", "["):
            pend += 1
        elif t in (")", "]"):
            if pend:
                pend -= 1
            elif need_close:
                need_close -= 1
            else:
                break
        elif pend == 0 and need_close == 0 and t in (",", "=>", "else"):
            break
        j += 1
    return i, j


def _strip_deref(ts):
    """unary deref of a plain variable is an atom: `* x` -> `x` (for the shape check only)"""
    r = []
    for k, t in enumerate(ts):
        if t == "*" and (k == 0 or ts[k - 1] in _BINOP or ts[k - 1] in ("(", "!")) and k + 1 < len(ts) and re.match(r"^[A-Za-z_]\w*$", ts[k + 1]):
            continue
        r.append(t)
    return r


_PRIM_METHODS = {"is_even": ["%", "2", "==", "0"], "is_odd": ["%", "2", "!=", "0"], "is_zero": ["==", "0"]}


def _expand_prims(ts):
    """`x.is_even()` / `x.is_odd()` / `x.is_zero()` on a plain variable, by their definitions for primitive integers
    (num-integer / num-traits); on any other receiver type the hint does not type-check in bit-vector mode and is dropped"""
    out = []
    k = 0
    while k < len(ts):
        if k + 4 < len(ts) + 0 and re.match(r"^[A-Za-z_]\w*$", ts[k]) and ts[k + 1] == "." and ts[k + 2] in _PRIM_METHODS and ts[k + 3] == "(" and ts[k + 4] == ")" \
                and (k == 0 or ts[k - 1] not in (".", "::")):
            out += ["(", ts[k]] + _PRIM_METHODS[ts[k + 2]] + [")"]
            k += 5
        else:
            out.append(ts[k])
            k += 1
    return out


def _split_assign(ts):
    d = 0
    for k, t in enumerate(ts):
        if t in ("(", "["):
            d += 1
        elif t in (")", "]"):
            d -= 1
        elif d == 0 and t in _ASSIGN and k > 0:
            return ts[:k], t, ts[k + 1:]
    return None


def eqv_hints(bss, new_ss):
    """[(old statement start, old statement end, kind, NEW expr text, OLD expr text)] for expression-level edits"""
    sm = difflib.SequenceMatcher(a=bss, b=new_ss, autojunk=False)
    stmts = {}
    for tag, i1, i2, j1, j2 in sm.get_opcodes():
        if tag == "equal":
            continue
        if any(t in _SEP for t in bss[i1:i2]) or any(t in _SEP for t in new_ss[j1:j2]):
            return []                   # a structural edit somewhere in this function: no hints at all
        a, b = _stmt_bounds(bss, i1, i2)
        c, d = _stmt_bounds(new_ss, j1, j2)
        if stmts.setdefault(a, (a, b, c, d)) != (a, b, c, d):
            return []
    out = []
    for a, (a, b, c, d) in sorted(stmts.items()):
        so, sn = bss[a:b], new_ss[c:d]
        old_e = new_e = None
        ao, an = _split_assign(so), _split_assign(sn)
        if ao and an and ao[0] == an[0] and ao[1] != an[1]:
            # `X op= E` against `X = E'` (or another compound form): compare the values assigned
            lhs = ao[0][1:] if ao[0][0] == "let" else ao[0]
            if _expr_ok(_strip_deref(lhs)):
                old_e = ao[2] if ao[1] == "=" else ["("] + lhs + [")", ao[1][:-1], "("] + ao[2] + [")"]
                new_e = an[2] if an[1] == "=" else ["("] + lhs + [")", an[1][:-1], "("] + an[2] + [")"]
        if old_e is None:
            pre = 0
            while pre < min(len(so), len(sn)) and so[pre] == sn[pre]:
                pre += 1
            suf = 0
            while suf < min(len(so), len(sn)) - pre and so[len(so) - 1 - suf] == sn[len(sn) - 1 - suf]:
                suf += 1
            oi, oj = _expr_bounds(so, 0, len(so), pre, len(so) - suf)
            ni, nj = _expr_bounds(sn, 0, len(sn), pre, len(sn) - suf)
            if so[:oi] != sn[:ni] or so[oj:] != sn[nj:]:
                continue
            old_e, new_e = so[oi:oj], sn[ni:nj]
        old_e, new_e = _expand_prims(old_e), _expand_prims(new_e)
        if old_e == new_e or not (_expr_ok(_strip_deref(old_e)) and _expr_ok(_strip_deref(new_e))):
            continue
        kind = "while" if so[:1] == ["while"] else "stmt"
        out.append((a, b, kind, join(new_e), join(old_e)))
    return out


def add_eqv_hints(annot_text, new_ss):
    """annot_text with `@eqv-hint` proof lines inserted (as annotations) for expression-level edits; (text, hints)"""
    segs = split_annotated(annot_text)
    full = "".join(t for _, t in segs)
    btoks = base_tokens(segs)
    bss = strs(btoks)
    if bss == new_ss:
        return annot_text, []
    hints = eqv_hints(bss, new_ss)
    if not hints:
        return annot_text, []
    inserts = []   # (offset in full, text)
    for (a, b, kind, new_e, old_e) in hints:
        line = "\n//+{\n        proof { assert((%s) == (%s)) by (bit_vector); } %s\n//+}\n" % (new_e, old_e, EQV_MARK)
        inserts.append((btoks[a].a, line))
        if kind == "while" and b < len(btoks) and bss[b] == "{":
            # the condition is re-evaluated with other values: restate the equality at the top of the body and behind the loop
            if b + 1 < len(btoks):
                inserts.append((btoks[b + 1].a, line))
            depth = 0
            for k in range(b, len(btoks)):
                depth += (bss[k] == "{") - (bss[k] == "}")
                if depth == 0:
                    if k + 1 < len(btoks):
                        inserts.append((btoks[k + 1].a, line))
                    break
    # offsets must not fall inside an existing inserted segment
    spans = []
    off = 0
    for kind, t in segs:
        if kind == "ins":
            spans.append((off, off + len(t)))
        off += len(t)
    for at, _ in inserts:
        if any(x < at < y for x, y in spans):
            return annot_text, []
    text = full
    for at, line in sorted(inserts, key=lambda z: -z[0]):
        text = text[:at] + line + text[at:]
    return text, [{"new": h[3], "old": h[4], "kind": h[2]} for h in hints]


def erase(woven_text):
    """Erasure: drop every inserted segment; return token strings of what remains."""
    return strs(base_tokens(split_annotated(woven_text)))
