// std semantics of the slice iterator methods vstd has no specification for (vstd specifies next, next_back, len and
// slice::iter in the same vocabulary: `remaining()` is the sequence of items still to be yielded)
//@ assume core::slice::Iter::nth : std: skips n items and yields the next one; exhausts the iterator when fewer remain
pub assume_specification<'a, T>[ <core::slice::Iter<'a, T> as Iterator>::nth ](it: &mut core::slice::Iter<'a, T>, n: usize) -> (r: Option<&'a T>)
    ensures
        n < (*old(it)).remaining().len() ==> r == Some((*old(it)).remaining()[n as int]) && (*final(it)).remaining() == (*old(it)).remaining().subrange(n as int + 1, (*old(it)).remaining().len() as int),
        n >= (*old(it)).remaining().len() ==> r is None && (*final(it)).remaining().len() == 0;
//@ assume core::slice::Iter::last : std: the last remaining item, None when empty
pub assume_specification<'a, T>[ <core::slice::Iter<'a, T> as Iterator>::last ](it: core::slice::Iter<'a, T>) -> (r: Option<&'a T>)
    ensures
        it.remaining().len() == 0 ==> r is None,
        it.remaining().len() > 0 ==> r == Some(it.remaining().last());
//@ assume core::slice::Iter::count : std: the number of remaining items
pub assume_specification<'a, T>[ <core::slice::Iter<'a, T> as Iterator>::count ](it: core::slice::Iter<'a, T>) -> (r: usize)
    ensures r == it.remaining().len();
//@ assume core::slice::Iter::size_hint : std: exact bounds (remaining, Some(remaining))
pub assume_specification<'a, T>[ <core::slice::Iter<'a, T> as Iterator>::size_hint ](it: &core::slice::Iter<'a, T>) -> (r: (usize, Option<usize>))
    ensures r.0 == it.remaining().len(), r.1 == Some(it.remaining().len() as usize);
