//@ unit x_serde : the serde impls (src/biguint/serde.rs, src/bigint/serde.rs, feature `serde`) over a local model of serde's data model: BigUint is written as the sequence of its base-2^32 digits without a trailing zero, any u32 sequence is read back as the canonical value it denotes, Sign as -1/0/1, BigInt as the pair
#![feature(allocator_api)]
use vstd::prelude::*;
use vstd::std_specs::iter::IteratorSpec;
verus! {
//@ include prelude/core.rs
//@ include prelude/std_specs.rs
//@ include prelude/val32.rs
//@ include prelude/pack32.rs
//@ include prelude/highbits.rs
//@ extract src/bigint.rs :: enum Sign attrs=1
#[derive(/*+*/Structural, /*-*/PartialEq, PartialOrd, Eq, Ord, Copy, Clone, Debug, Hash)]
pub enum Sign {
    Minus,
    NoSign,
    Plus,
}
//@ end
//@ include prelude/serdemodel.rs
pub mod u {
use super::*;
use Sign::*;

//@ extract src/biguint.rs :: struct BigUint
pub struct BigUint {
    data: Vec<BigDigit>,
}
//@ end
//@ include prelude/biguint_view.rs
//@ stub u_core/biguint_from_vec
impl BigUint {
//@ stub u_conv/bits
}

pub open spec fn lo32(d: u64) -> u32 { d as u32 }
pub open spec fn hi32(d: u64) -> u32 { (d >> 32) as u32 }
/// all base-2^32 digits of the 64-bit digit sequence, least significant first (2 per digit)
pub open spec fn full32(d: Seq<u64>) -> Seq<u32> {
    Seq::new(2 * d.len(), |i: int| if i % 2 == 0 { lo32(d[i / 2]) } else { hi32(d[i / 2]) })
}
/// the base-2^32 digits of a digit vector: both halves of every digit, without a zero top half of the last one
pub open spec fn digits32(d: Seq<u64>) -> Seq<u32> {
    full32(d).subrange(0, 2 * d.len() - (if d.len() > 0 && hi32(d[d.len() - 1]) == 0 { 1int } else { 0int }))
}
/// what serializing a BigUint asks the serializer to write
pub open spec fn biguint_ser(x: BigUint) -> Seq<SerTok> { seq![SerTok::SeqU32(Some(digits32(x.dg()).len() as usize), digits32(x.dg()))] }
/// what serializing a Sign asks the serializer to write
pub open spec fn sign_ser(s: Sign) -> Seq<SerTok> { seq![SerTok::I8(match s { Sign::Minus => -1i8, Sign::NoSign => 0i8, Sign::Plus => 1i8 })] }

/// the written digit sequence denotes the value and has no trailing zero: reading it back gives the same number
pub proof fn lemma_ser_roundtrip(d: Seq<u64>)
    requires wf(d)
    ensures val32(digits32(d)) == val(d), digits32(d).len() > 0 ==> digits32(d).last() != 0
{
    let w = digits32(d);
    if d.len() == 0 {
        assert(w =~= Seq::<u32>::empty());
        assert(val32(w) == 0);
    } else {
        let top = d[d.len() - 1];
        assert forall|i: int| 0 <= i < d.len() implies #[trigger] d[i] as nat == w32(w, 2 * i) + 0x1_0000_0000 * w32(w, 2 * i + 1) by {
            let x = d[i];
            assert(x as nat == lo32(x) as nat + 0x1_0000_0000 * (hi32(x) as nat)) by {
                let l = x as u32; let h = (x >> 32) as u32;
                assert(x == add(l as u64, mul(h as u64, 0x1_0000_0000u64))) by (bit_vector) requires l == x as u32, h == (x >> 32) as u32;
            }
            assert((2 * i) / 2 == i && (2 * i) % 2 == 0 && (2 * i + 1) / 2 == i && (2 * i + 1) % 2 == 1);
            if 2 * i + 1 < w.len() { assert(w[2 * i + 1] == hi32(x)); } else { assert(i == d.len() - 1 && hi32(x) == 0); }
            assert(w[2 * i] == lo32(x));
        }
        lemma_pack(d, w, d.len());
        assert(w.subrange(0, imin(2 * (d.len() as int), w.len() as int)) =~= w);
        // no trailing zero: the top digit is non-zero, so its top non-zero half is the last word
        assert(top != 0);
        if hi32(top) == 0 {
            assert(lo32(top) != 0) by {
                let l = top as u32; let h = (top >> 32) as u32;
                assert(l != 0) by (bit_vector) requires top != 0, h == 0, l == top as u32, h == (top >> 32) as u32;
            }
            assert((2 * d.len() - 2) / 2 == d.len() - 1 && (2 * d.len() - 2) % 2 == 0);
            assert(w.last() == lo32(top));
        } else {
            assert((2 * d.len() - 1) / 2 == d.len() - 1 && (2 * d.len() - 1) % 2 == 1);
            assert(w.last() == hi32(top));
        }
    }
}

//@ assume bool_as_usize : rule R53: the cast `b as usize` of a bool (Rust reference: false -> 0, true -> 1)
#[verifier::external_body]
fn __bool_usize(b: bool) -> (r: usize)
    ensures r == (if b { 1usize } else { 0usize })
{ unimplemented!() }
//@ assume [u32]::serialize(empty) : serde's impl for slices on the empty slice: an empty sequence announced with length 0
#[verifier::external_body]
fn __serialize_u32_empty(serializer: MSer) -> (r: Result<MOk, SerErr>)
    ensures r is Ok ==> r->Ok_0.toks() == seq![SerTok::SeqU32(Some(0usize), Seq::<u32>::empty())]
{ unimplemented!() }
//@ assume num_integer::usize::div_ceil : external crate: ceiling of the quotient (used for a capacity only)
#[verifier::external_body]
fn __usize_div_ceil(a: usize, b: usize) -> (r: usize)
    requires b != 0
{ unimplemented!() }

pub proof fn lemma_full32_push(d: Seq<u64>, x: u64)
    ensures full32(d.push(x)) =~= full32(d).push(lo32(x)).push(hi32(x))
{
    let e = d.push(x);
    assert forall|i: int| 0 <= i < 2 * e.len() implies full32(e)[i] == full32(d).push(lo32(x)).push(hi32(x))[i] by {
        if i < 2 * d.len() { assert(e[i / 2] == d[i / 2]); }
        else { assert(i / 2 == d.len()); assert(e[i / 2] == x); }
    }
}

//@ extract src/biguint/serde.rs :: fn cautious rules=R0,R12j,R53 props=C17,C14
fn cautious(hint: Option<usize>) -> /*+*/(r: /*-*/usize/*+*/)/*-*/
//+{
    ensures r <= 262144
//+}
{
    const MAX_PREALLOC_BYTES: usize = 1024 * 1024;

    Ord::min(
        hint.unwrap_or(0),
        MAX_PREALLOC_BYTES / 4usize,
    )
}
//@ end

impl BigUint {
    // contract-only re-homing of `impl Serialize for BigUint` / `impl Deserialize for BigUint` at S = MSer, D = MDe
//@ extract src/biguint/serde.rs :: impl Serialize for BigUint :: fn serialize rules=R0,R10e,R53 tysub=serialize<S>(&self,serializer:S)->Result<S::Ok,S::Error>=>serialize(&self,serializer:MSer)->Result<MOk,SerErr>;where~S:Serializer,=> props=C17,C14 label=biguint_serialize
    fn serialize(&self, serializer: MSer) -> /*+*/(r: /*-*/Result<MOk, SerErr>/*+*/)/*-*/
//+{
        ensures r is Ok ==> r->Ok_0.toks() == biguint_ser(*self)
//+}
    {
//+{
        proof { axiom_vec_u64_len(&self.data); }
//+}
        if let Some((last_r__, data)) = self.data.split_last() { let last = *last_r__;
            let last_lo = last as u32;
            let last_hi = (last >> 32) as u32;
            let u32_len = data.len() * 2 + 1 + __bool_usize(last_hi != 0);
            let mut seq = serializer.serialize_seq(Some(u32_len))?;
            { let mut i__ = 0; while i__ < data.len()
//+{
                invariant i__ <= data@.len(), seq.announced() == Some(u32_len), seq.elems() == full32(data@.subrange(0, i__ as int))
                decreases data@.len() - i__
//+}
            { let x = data[i__]; i__ += 1;
//+{
                proof {
                    assert(data@.subrange(0, i__ as int) =~= data@.subrange(0, i__ - 1).push(x));
                    lemma_full32_push(data@.subrange(0, i__ - 1), x);
                }
//+}
                seq.serialize_element(&(x as u32))?;
                seq.serialize_element(&((x >> 32) as u32))?;
            } }
//+{
            proof {
                assert(data@.subrange(0, data@.len() as int) =~= data@);
                assert(self.data@ =~= data@.push(last));
                lemma_full32_push(data@, last);
            }
//+}
            seq.serialize_element(&last_lo)?;
            if last_hi != 0 {
                seq.serialize_element(&last_hi)?;
            }
//+{
            proof {
                let want = digits32(self.data@);
                if last_hi != 0 { assert(seq.elems() =~= want); } else { assert(seq.elems() =~= want); }
                assert(want.len() == u32_len);
            }
//+}
            seq.end()
        } else {
//+{
            proof { assert(digits32(self.data@) =~= Seq::<u32>::empty()); }
//+}
            __serialize_u32_empty(serializer)
        }
    }
//@ end
}

//@ extract src/biguint/serde.rs :: struct U32Visitor
struct U32Visitor;
//@ end

/// low word plus high word shifted is their sum
pub proof fn lemma_or_shift(lo: u32, hi: u32)
    ensures ((lo as u64) | ((hi as u64) << 32)) as nat == lo as nat + 0x1_0000_0000 * (hi as nat)
{
    let l = lo as u64; let h = hi as u64;
    assert((l | (h << 32)) == add(l, mul(h, 0x1_0000_0000u64))) by (bit_vector) requires l < 0x1_0000_0000u64, h < 0x1_0000_0000u64;
}

/// consuming a low and a high word as one 64-bit digit
pub proof fn lemma_pair_step(d0: Seq<u64>, value: u64, rb: Seq<u32>, t: Seq<u32>, total: nat)
    requires val(d0) + pw(d0.len()) * val32(rb) == total, rb.len() >= 2,
        value as nat == rb[0] as nat + 0x1_0000_0000 * (rb[1] as nat), t == rb.drop_first().drop_first()
    ensures val(d0.push(value)) + pw(d0.len() + 1) * val32(t) == total
{
    let r1 = rb.subrange(1, rb.len() as int);
    assert(r1 =~= rb.drop_first());
    assert(r1.subrange(1, r1.len() as int) =~= t);
    assert(val32(rb) == (rb[0] as nat) + B32() * val32(r1));
    assert(val32(r1) == (r1[0] as nat) + B32() * val32(t));
    lemma_val_push(d0, value);
    let p = pw(d0.len()); let x = rb[0] as nat; let y = rb[1] as nat; let z = val32(t);
    assert(pw(d0.len() + 1) == B() * p);
    assert(p * (x + 0x1_0000_0000 * y) + (B() * p) * z == p * (x + B32() * (y + B32() * z))) by (nonlinear_arith) requires B32() == 0x1_0000_0000, B() == 0x1_0000_0000_0000_0000;
}
/// consuming a final single word as one 64-bit digit
pub proof fn lemma_single_step(d0: Seq<u64>, value: u64, rb: Seq<u32>, total: nat)
    requires val(d0) + pw(d0.len()) * val32(rb) == total, rb.len() == 1, value as nat == rb[0] as nat
    ensures val(d0.push(value)) == total
{
    let r1 = rb.subrange(1, rb.len() as int);
    assert(val32(rb) == (rb[0] as nat) + B32() * val32(r1));
    assert(val32(r1) == 0);
    lemma_val_push(d0, value);
}

impl U32Visitor {
    // contract-only re-homing of `impl Visitor for U32Visitor` at S = MSeqAcc
//@ extract src/biguint/serde.rs :: impl<'de> Visitor<'de> for U32Visitor :: fn visit_seq rules=R0,R53 tysub=visit_seq<S>(self,mut~seq:S)->Result<Self::Value,S::Error>=>visit_seq(self,mut~seq:MSeqAcc)->Result<BigUint,DeErr>;where~S:SeqAccess<'de>,=>;BigDigit::from=>u64::from props=C17,C14 label=visit_seq
    fn visit_seq(self, mut seq: MSeqAcc) -> /*+*/(r: /*-*/Result<BigUint, DeErr>/*+*/)/*-*/
//+{
        ensures r is Ok ==> r->Ok_0.wf() && r->Ok_0.v() == val32(seq.rest())
//+}
    {

        let u32_len = cautious(seq.size_hint());
        let len = __usize_div_ceil(u32_len, 2);
        let mut data = Vec::with_capacity(len);
//+{
        let ghost rest0 = seq.rest();
        proof { assert(pw(0) * val32(rest0) == val32(rest0)) by (nonlinear_arith) requires pw(0) == 1; }
//+}

        loop
//+{
            invariant val(data@) + pw(data@.len()) * val32(seq.rest()) == val32(rest0)
            ensures val(data@) == val32(rest0)
            decreases seq.rest().len()
//+}
        {
//+{
            let ghost rb = seq.rest();
            let ghost d0 = data@;
//+}
            let lo = match seq.next_element_u32()? { Some(v__) => v__, None => /*+*/{ proof { assert(val32(rb) == 0); assert(pw(d0.len()) * 0 == 0) by (nonlinear_arith); } /*-*/break/*+*/ }/*-*/, };
            let mut value = u64::from(lo);
            if let Some(hi) = seq.next_element_u32()? {
                value |= u64::from(hi) << 32;
//+{
                proof {
                    lemma_or_shift(lo, hi);
                    assert(rb.drop_first()[0] == rb[1]);
                    lemma_pair_step(d0, value, rb, seq.rest(), val32(rest0));
                }
//+}
                data.push(value);
            } else {
//+{
                proof {
                    assert(rb.drop_first().len() == 0);
                    lemma_single_step(d0, value, rb, val32(rest0));
                    assert(val32(seq.rest()) == 0);
                    assert(pw(d0.len() + 1) * 0 == 0) by (nonlinear_arith);
                }
//+}
                data.push(value);
                break;
            }
        }

        Ok(biguint_from_vec(data))
    }
//@ end
}

//@ assume Deserializer::deserialize_seq(U32Visitor) : serde: hands a SeqAccess over the input's elements to the visitor's visit_seq and returns its result (or fails earlier); only what visit_seq guarantees is promised
#[verifier::external_body]
fn __deserialize_seq_u32visitor(deserializer: MDe) -> (r: Result<BigUint, DeErr>)
    ensures r is Ok ==> r->Ok_0.wf()
{ unimplemented!() }

impl BigUint {
//@ extract src/biguint/serde.rs :: impl<'de> Deserialize<'de> for BigUint :: fn deserialize rules=R0,R53 tysub=deserialize<D>(deserializer:D)->Result<Self,D::Error>=>deserialize(deserializer:MDe)->Result<Self,DeErr>;where~D:Deserializer<'de>,=> props=C17 label=biguint_deserialize
    fn deserialize(deserializer: MDe) -> /*+*/(r: /*-*/Result<Self, DeErr>/*+*/)/*-*/
//+{
        ensures r is Ok ==> r->Ok_0.wf()
//+}
    {
        __deserialize_seq_u32visitor(deserializer)
    }
//@ end
}

//@ extract src/bigint.rs :: struct BigInt
pub struct BigInt {
    sign: Sign,
    data: BigUint,
}
//@ end
//@ include prelude/bigint_view.rs
impl BigInt {
//@ stub i_core/from_biguint
}
/// what serializing a BigInt asks the serializer to write: a 2-tuple of the sign and the magnitude
pub open spec fn bigint_ser(x: BigInt) -> Seq<SerTok> { seq![SerTok::Tuple(2)] + sign_ser(x.sg()) + biguint_ser(x.mag()) }
//@ assume (Sign,&BigUint)::serialize : serde's impl for 2-tuples: a tuple of arity 2 whose elements are written by their own Serialize impls (proved above), in order
#[verifier::external_body]
fn __serialize_pair(sign: Sign, data: &BigUint, serializer: MSer) -> (r: Result<MOk, SerErr>)
    ensures r is Ok ==> r->Ok_0.toks() == seq![SerTok::Tuple(2)] + sign_ser(sign) + biguint_ser(*data)
{ unimplemented!() }
//@ assume (Sign,BigUint)::deserialize : serde's impl for 2-tuples: the elements are read by their own Deserialize impls (proved above: any Sign, a canonical BigUint), in order
#[verifier::external_body]
fn __deserialize_pair(deserializer: MDe) -> (r: Result<(Sign, BigUint), DeErr>)
    ensures r is Ok ==> r->Ok_0.1.wf()
{ unimplemented!() }

impl Sign {
    // contract-only re-homing of `impl Serialize / Deserialize for Sign`
//@ extract src/bigint/serde.rs :: impl Serialize for Sign :: fn serialize rules=R0,R53 tysub=serialize<S>(&self,serializer:S)->Result<S::Ok,S::Error>=>serialize(&self,serializer:MSer)->Result<MOk,SerErr>;where~S:Serializer,=> props=C17 label=sign_serialize
    fn serialize(&self, serializer: MSer) -> /*+*/(r: /*-*/Result<MOk, SerErr>/*+*/)/*-*/
//+{
        ensures r is Ok ==> r->Ok_0.toks() == sign_ser(*self)
//+}
    {
        // Note: do not change the serialization format, or it may break
        // forward and backward compatibility of serialized data!
        match *self {
            Sign::Minus => __serialize_i8(-1i8, serializer),
            Sign::NoSign => __serialize_i8(0i8, serializer),
            Sign::Plus => __serialize_i8(1i8, serializer),
        }
    }
//@ end

//@ extract src/bigint/serde.rs :: impl<'de> Deserialize<'de> for Sign :: fn deserialize rules=R0,R53 tysub=deserialize<D>(deserializer:D)->Result<Self,D::Error>=>deserialize(deserializer:MDe)->Result<Self,DeErr>;where~D:Deserializer<'de>,=> props=C17 label=sign_deserialize
    fn deserialize(deserializer: MDe) -> /*+*/(r: /*-*/Result<Self, DeErr>/*+*/)/*-*/
//+{
        ensures r is Ok ==> -1 <= deserializer.next_i8() <= 1 && sign_ser(r->Ok_0) == seq![SerTok::I8(deserializer.next_i8())]
//+}
    {
        let sign = __deserialize_i8(deserializer)?;
        match sign {
            -1 => Ok(Sign::Minus),
            0 => Ok(Sign::NoSign),
            1 => Ok(Sign::Plus),
            _ => Err(__invalid_sign(sign)),
        }
    }
//@ end
}

impl BigInt {
    // contract-only re-homing of `impl Serialize / Deserialize for BigInt`
//@ extract src/bigint/serde.rs :: impl Serialize for BigInt :: fn serialize rules=R0,R53 tysub=serialize<S>(&self,serializer:S)->Result<S::Ok,S::Error>=>serialize(&self,serializer:MSer)->Result<MOk,SerErr>;where~S:Serializer,=> props=C17 label=bigint_serialize
    fn serialize(&self, serializer: MSer) -> /*+*/(r: /*-*/Result<MOk, SerErr>/*+*/)/*-*/
//+{
        ensures r is Ok ==> r->Ok_0.toks() == bigint_ser(*self)
//+}
    {
        // Note: do not change the serialization format, or it may break
        // forward and backward compatibility of serialized data!
        __serialize_pair(self.sign, &self.data, serializer)
    }
//@ end

//@ extract src/bigint/serde.rs :: impl<'de> Deserialize<'de> for BigInt :: fn deserialize rules=R0,R53 tysub=deserialize<D>(deserializer:D)->Result<Self,D::Error>=>deserialize(deserializer:MDe)->Result<Self,DeErr>;where~D:Deserializer<'de>,=> props=C17,C04 label=bigint_deserialize
    fn deserialize(deserializer: MDe) -> /*+*/(r: /*-*/Result<Self, DeErr>/*+*/)/*-*/
//+{
        ensures r is Ok ==> r->Ok_0.wfi()
//+}
    {
        let (sign, data) = __deserialize_pair(deserializer)?;
        Ok(BigInt::from_biguint(sign, data))
    }
//@ end
}

} // mod u
} // verus!
fn main() {}
