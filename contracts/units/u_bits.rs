//@ unit u_bits : BigUint bitwise and/or/xor (src/biguint/bits.rs)
#![feature(allocator_api)]
use vstd::prelude::*;
use vstd::std_specs::iter::IteratorSpec;
use vstd::std_specs::ops::*;
use core::ops::{BitAnd, BitAndAssign, BitOr, BitOrAssign, BitXor, BitXorAssign};
verus! {
//@ include prelude/core.rs
//@ include prelude/std_specs.rs
//@ include prelude/bitdigits.rs
pub mod u {
use super::*;

//@ extract src/biguint.rs :: struct BigUint
pub struct BigUint {
    data: Vec<BigDigit>,
}
//@ end
//@ include prelude/biguint_view.rs
impl BigUint {
//@ stub u_core/normalize
//@ stub u_core/clone
}

impl BitAndAssignSpecImpl<&BigUint> for BigUint {
    open spec fn obeys_bitand_assign_spec() -> bool { false }
    open spec fn bitand_assign_req(&self, rhs: &BigUint) -> bool { true }
    open spec fn bitand_assign_spec(&self, rhs: &BigUint) -> &BigUint { arbitrary() }
}
impl BitOrAssignSpecImpl<&BigUint> for BigUint {
    open spec fn obeys_bitor_assign_spec() -> bool { false }
    open spec fn bitor_assign_req(&self, rhs: &BigUint) -> bool { self.wf() && rhs.wf() }
    open spec fn bitor_assign_spec(&self, rhs: &BigUint) -> &BigUint { arbitrary() }
}
impl BitXorAssignSpecImpl<&BigUint> for BigUint {
    open spec fn obeys_bitxor_assign_spec() -> bool { false }
    open spec fn bitxor_assign_req(&self, rhs: &BigUint) -> bool { true }
    open spec fn bitxor_assign_spec(&self, rhs: &BigUint) -> &BigUint { arbitrary() }
}

impl BitAndAssign<&BigUint> for BigUint {
//@ extract src/biguint/bits.rs :: impl BitAndAssign<&BigUint> for BigUint :: fn bitand_assign rules=R0,R10z props=C07,C04
    fn bitand_assign(&mut self, other: &BigUint)
//+{
        ensures final(self).wf(),
            forall|i: int| 0 <= i ==> dig(final(self).dg(), i) == dig(old(self).dg(), i) & dig(other.dg(), i),
//+}
    {
//+{
        let ghost a0 = self.data@;
        let ghost b = other.data@;
//+}
        { let mut i__ = 0 ; let n__ = Ord::min(self.data.len(), other.data.len()) ; while i__ < n__
//+{
            invariant
                self.data@.len() == a0.len(), n__ <= a0.len(), n__ <= b.len(), i__ <= n__, b == other.data@,
                forall|j: int| 0 <= j < i__ ==> self.data@[j] == a0[j] & b[j],
                forall|j: int| i__ <= j < a0.len() ==> self.data@[j] == a0[j],
            decreases n__ - i__
//+}
        { let ai = &mut self.data.as_mut_slice()[i__] ; let bi = other.data[i__] ; i__ += 1 ;
            *ai &= bi;
        }
//+{
        proof {
            assert(i__ == n__);
            assert forall|j: int| 0 <= j < a0.len() && j < b.len() implies self.data@[j] == a0[j] & b[j] by { }
            assert forall|j: int| b.len() <= j < a0.len() implies self.data@[j] == a0[j] by { }
        }
//+}
        }
//+{
        let ghost pre = self.data@;
//+}
        self.data.truncate(other.data.len());
//+{
        let ghost mid = self.data@;
        proof { assert forall|i: int| 0 <= i < mid.len() implies mid[i] == pre[i] by { } }
        proof {
            assert forall|i: int| 0 <= i implies dig(mid, i) == dig(a0, i) & dig(b, i) by {
                lemma_bit_facts(dig(a0, i), dig(b, i));
            }
        }
//+}
        self.normalize();
//+{
        proof {
            let f = self.data@;
            assert forall|i: int| 0 <= i implies dig(f, i) == dig(mid, i) by {
                if i >= f.len() && i < mid.len() { lemma_stripped_zero(mid, f.len() as nat, i); }
            }
        }
//+}
    }
//@ end
}

impl BitOrAssign<&BigUint> for BigUint {
//@ extract src/biguint/bits.rs :: impl BitOrAssign<&BigUint> for BigUint :: fn bitor_assign rules=R0,R10z,R12e props=C07,C04
    fn bitor_assign(&mut self, other: &BigUint)
//+{
        ensures final(self).wf(),
            forall|i: int| 0 <= i ==> dig(final(self).dg(), i) == dig(old(self).dg(), i) | dig(other.dg(), i),
//+}
    {
//+{
        let ghost a0 = self.data@;
        let ghost b = other.data@;
//+}
        { let mut i__ = 0 ; let n__ = Ord::min(self.data.len(), other.data.len()) ; while i__ < n__
//+{
            invariant
                self.data@.len() == a0.len(), n__ <= a0.len(), n__ <= b.len(), i__ <= n__, b == other.data@,
                forall|j: int| 0 <= j < i__ ==> self.data@[j] == a0[j] | b[j],
                forall|j: int| i__ <= j < a0.len() ==> self.data@[j] == a0[j],
            decreases n__ - i__
//+}
        { let ai = &mut self.data.as_mut_slice()[i__] ; let bi = other.data[i__] ; i__ += 1 ;
            *ai |= bi;
        }
//+{
        proof {
            assert(i__ == n__);
            assert forall|j: int| 0 <= j < a0.len() && j < b.len() implies self.data@[j] == a0[j] | b[j] by { }
            assert forall|j: int| b.len() <= j < a0.len() implies self.data@[j] == a0[j] by { }
        }
//+}
        }
        if other.data.len() > self.data.len() {
            let extra = &other.data[self.data.len()..];
            self.data.extend_from_slice(extra);
        }
//+{
        proof {
            let f = self.data@;
            assert forall|i: int| 0 <= i implies dig(f, i) == dig(a0, i) | dig(b, i) by {
                lemma_bit_facts(dig(a0, i), dig(b, i));
            }
            if f.len() > 0 {
                if b.len() > a0.len() { assert(f[f.len() - 1] == b[b.len() - 1]); }
                else { lemma_bit_facts(a0[a0.len() - 1], dig(b, a0.len() - 1)); }
            }
        }
//+}
    }
//@ end
}

impl BitXorAssign<&BigUint> for BigUint {
//@ extract src/biguint/bits.rs :: impl BitXorAssign<&BigUint> for BigUint :: fn bitxor_assign rules=R0,R10z,R12e props=C07,C04
    fn bitxor_assign(&mut self, other: &BigUint)
//+{
        ensures final(self).wf(),
            forall|i: int| 0 <= i ==> dig(final(self).dg(), i) == dig(old(self).dg(), i) ^ dig(other.dg(), i),
//+}
    {
//+{
        let ghost a0 = self.data@;
        let ghost b = other.data@;
//+}
        { let mut i__ = 0 ; let n__ = Ord::min(self.data.len(), other.data.len()) ; while i__ < n__
//+{
            invariant
                self.data@.len() == a0.len(), n__ <= a0.len(), n__ <= b.len(), i__ <= n__, b == other.data@,
                forall|j: int| 0 <= j < i__ ==> self.data@[j] == a0[j] ^ b[j],
                forall|j: int| i__ <= j < a0.len() ==> self.data@[j] == a0[j],
            decreases n__ - i__
//+}
        { let ai = &mut self.data.as_mut_slice()[i__] ; let bi = other.data[i__] ; i__ += 1 ;
            *ai ^= bi;
        }
//+{
        proof {
            assert(i__ == n__);
            assert forall|j: int| 0 <= j < a0.len() && j < b.len() implies self.data@[j] == a0[j] ^ b[j] by { }
            assert forall|j: int| b.len() <= j < a0.len() implies self.data@[j] == a0[j] by { }
        }
//+}
        }
        if other.data.len() > self.data.len() {
            let extra = &other.data[self.data.len()..];
            self.data.extend_from_slice(extra);
        }
//+{
        let ghost mid = self.data@;
        proof {
            assert forall|i: int| 0 <= i implies dig(mid, i) == dig(a0, i) ^ dig(b, i) by {
                lemma_bit_facts(dig(a0, i), dig(b, i));
            }
        }
//+}
        self.normalize();
//+{
        proof {
            let f = self.data@;
            assert forall|i: int| 0 <= i implies dig(f, i) == dig(mid, i) by {
                if i >= f.len() && i < mid.len() { lemma_stripped_zero(mid, f.len() as nat, i); }
            }
        }
//+}
    }
//@ end
}

impl BitAndSpecImpl<&BigUint> for BigUint {
    open spec fn obeys_bitand_spec() -> bool { false }
    open spec fn bitand_req(self, rhs: &BigUint) -> bool { true }
    open spec fn bitand_spec(self, rhs: &BigUint) -> BigUint { arbitrary() }
}
impl BitAnd<&BigUint> for BigUint {
    type Output = BigUint;
//@ extract src/biguint/bits.rs :: impl BitAnd<&BigUint> for BigUint :: fn bitand rules=R0,R5 props=C07,C10 label=bitand_val_ref
    fn bitand(self, other: &BigUint) -> /*+*/(r: /*-*/BigUint/*+*/)/*-*/
//+{
        ensures r.wf(),
            forall|i: int| 0 <= i ==> dig(r.dg(), i) == dig(self.dg(), i) & dig(other.dg(), i),
//+}
    {
        let mut self__ = self;
        self__ &= other;
        self__
    }
//@ end
}

impl BitAndSpecImpl<&BigUint> for &BigUint {
    open spec fn obeys_bitand_spec() -> bool { false }
    open spec fn bitand_req(self, rhs: &BigUint) -> bool { true }
    open spec fn bitand_spec(self, rhs: &BigUint) -> BigUint { arbitrary() }
}
impl BitAnd<&BigUint> for &BigUint {
    type Output = BigUint;
//@ extract src/biguint/bits.rs :: impl BitAnd<&BigUint> for &BigUint :: fn bitand rules=R0,R3ca props=C07,C10 label=bitand_ref_ref
    fn bitand(self, other: &BigUint) -> /*+*/(r: /*-*/BigUint/*+*/)/*-*/
//+{
        ensures r.wf(),
            forall|i: int| 0 <= i ==> dig(r.dg(), i) == dig(self.dg(), i) & dig(other.dg(), i),
//+}
    {
//+{
        proof { assert forall|i: int| 0 <= i implies dig(other.dg(), i) & dig(self.dg(), i) == dig(self.dg(), i) & dig(other.dg(), i) by {
            let x = dig(other.dg(), i); let y = dig(self.dg(), i);
            assert(x & y == y & x) by (bit_vector);
        } }
//+}
        // forward to val-ref, choosing the smaller to clone
        if self.data.len() <= other.data.len() {
            BitAnd::bitand(self.clone(), other)
        } else {
            BitAnd::bitand(other.clone(), self)
        }
    }
//@ end
}

impl BitOrSpecImpl<&BigUint> for BigUint {
    open spec fn obeys_bitor_spec() -> bool { false }
    open spec fn bitor_req(self, rhs: &BigUint) -> bool { self.wf() && rhs.wf() }
    open spec fn bitor_spec(self, rhs: &BigUint) -> BigUint { arbitrary() }
}
impl BitOr<&BigUint> for BigUint {
    type Output = BigUint;
//@ extract src/biguint/bits.rs :: impl BitOr<&BigUint> for BigUint :: fn bitor rules=R0,R5 props=C07,C10 label=bitor_val_ref
    fn bitor(self, other: &BigUint) -> /*+*/(r: /*-*/BigUint/*+*/)/*-*/
//+{
        ensures r.wf(),
            forall|i: int| 0 <= i ==> dig(r.dg(), i) == dig(self.dg(), i) | dig(other.dg(), i),
//+}
    {
        let mut self__ = self;
        self__ |= other;
        self__
    }
//@ end
}

impl BitXorSpecImpl<&BigUint> for BigUint {
    open spec fn obeys_bitxor_spec() -> bool { false }
    open spec fn bitxor_req(self, rhs: &BigUint) -> bool { true }
    open spec fn bitxor_spec(self, rhs: &BigUint) -> BigUint { arbitrary() }
}
impl BitXor<&BigUint> for BigUint {
    type Output = BigUint;
//@ extract src/biguint/bits.rs :: impl BitXor<&BigUint> for BigUint :: fn bitxor rules=R0,R5 props=C07,C10 label=bitxor_val_ref
    fn bitxor(self, other: &BigUint) -> /*+*/(r: /*-*/BigUint/*+*/)/*-*/
//+{
        ensures r.wf(),
            forall|i: int| 0 <= i ==> dig(r.dg(), i) == dig(self.dg(), i) ^ dig(other.dg(), i),
//+}
    {
        let mut self__ = self;
        self__ ^= other;
        self__
    }
//@ end
}

} // mod u
} // verus!
fn main() {}
