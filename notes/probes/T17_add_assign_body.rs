use vstd::prelude::*;
verus! {
type BigDigit = u64;
pub struct BigUint { pub data: Vec<BigDigit> }

#[verifier::external_body]
pub fn __add2(a: &mut [BigDigit], b: &[BigDigit]) -> (r: BigDigit)
    requires old(a).len() >= b.len()
    ensures final(a).len() == old(a).len(), r <= 1
{ unimplemented!() }

impl BigUint {
    fn add_assign(&mut self, other: &BigUint)
        ensures final(self).data@.len() >= old(self).data@.len()
    {
        let self_len = self.data.len();
        let carry = if self_len < other.data.len() {
            let lo_carry = __add2(&mut self.data[..], &other.data[..self_len]);
            self.data.extend_from_slice(&other.data[self_len..]);
            __add2(&mut self.data[self_len..], &[lo_carry])
        } else {
            __add2(&mut self.data[..], &other.data[..])
        };
        if carry != 0 {
            self.data.push(carry);
        }
    }
}
} // verus!
fn main() {}
