//@ unit u_conv : BigUint primitive conversions and the float mantissa (src/biguint/convert.rs, src/biguint.rs)
#![feature(allocator_api)]
use vstd::prelude::*;
use vstd::std_specs::iter::IteratorSpec;
verus! {
//@ include prelude/core.rs
//@ include prelude/std_specs.rs
//@ include prelude/floatmodel.rs
pub mod u {
use super::*;
//@ assume num_traits::<u64 as ToPrimitive>::to_i64 : external crate: Some iff the value fits i64
#[verifier::external_body]
fn __u64_to_i64(v: u64) -> (r: Option<i64>)
    ensures r is Some <==> v < 0x8000_0000_0000_0000, r is Some ==> r.unwrap() as int == v as int
{ unimplemented!() }
//@ assume num_traits::<u128 as ToPrimitive>::to_i128 : external crate: Some iff the value fits i128
#[verifier::external_body]
fn __u128_to_i128(v: u128) -> (r: Option<i128>)
    ensures r is Some <==> v < 0x8000_0000_0000_0000_0000_0000_0000_0000, r is Some ==> r.unwrap() as int == v as int
{ unimplemented!() }

pub mod big_digit {
//@ extract src/lib.rs :: mod big_digit :: const BITS
    pub(crate) const BITS: u8 = BigDigit::BITS as u8;
//@ end
    pub type BigDigit = u64;
}

//@ extract src/biguint.rs :: struct BigUint
pub struct BigUint {
    data: Vec<BigDigit>,
}
//@ end

//@ include prelude/biguint_view.rs
//@ include prelude/highbits.rs
//@ include prelude/shiftnorm.rs
//@ include prelude/bitval.rs
//@ include prelude/bitsvalue.rs

impl BigUint {
    // contract-only: `Zero::is_zero` re-homed as an inherent method (trait impl in src/biguint.rs; body proved below)
//@ extract src/biguint.rs :: impl Zero for BigUint :: fn is_zero props=C19
    fn is_zero(&self) -> /*+*/(r: /*-*/bool/*+*/)/*-*/
//+{
        ensures r == (self.data@.len() == 0)
//+}
    {
        self.data.is_empty()
    }
//@ end

//@ extract src/biguint.rs :: impl BigUint :: fn bits props=C07,C08
    pub fn bits(&self) -> /*+*/(r: /*-*/u64/*+*/)/*-*/
//+{
        requires self.wf()
        ensures
            self.dg().len() == 0 ==> r == 0,
            self.dg().len() > 0 ==> r == 64 * (self.dg().len() - 1) + nbits(self.dg()[self.dg().len() - 1]),
            self.v() < vstd::arithmetic::power2::pow2(r as nat),
            self.v() != 0 ==> r >= 1 && self.v() >= vstd::arithmetic::power2::pow2((r - 1) as nat),
//+}
    {
//+{
        proof { axiom_vec_u64_len(&self.data); vstd::arithmetic::power2::lemma2_to64(); }
//+}
        if self.is_zero() {
            return 0;
        }
//+{
        proof { lemma_nbits_range(self.data@[self.data@.len() - 1]); lemma_bits_value(self.data@); }
//+}
        let zeros: u64 = self.data.last().unwrap().leading_zeros().into();
        self.data.len() as u64 * u64::from(big_digit::BITS) - zeros
    }
//@ end
}

// the generic helper fls (T: PrimInt, num_traits) at T = u64 (rule R56 names this instance fls64)
//@ extract src/biguint/convert.rs :: fn fls tysub=<T:PrimInt>=>;v:T=>v:u64;mem::size_of::<T>()=>8usize;fn~fls=>fn~fls64 props=C08,C14 label=fls64
fn fls64(v: u64) -> /*+*/(r: /*-*/u8/*+*/)/*-*/
//+{
    ensures r as int == nbits(v)
//+}
{
//+{
    proof { vstd::std_specs::bits::axiom_u64_leading_zeros(v); }
//+}
    8usize as u8 * 8 - v.leading_zeros() as u8
}
//@ end

/// the round-to-odd mantissa of a value of two or more digits has its top bit set
pub proof fn lemma_fls_mant(s: Seq<u64>)
    requires wf(s)
    ensures s.len() >= 2 ==> nbits(hb_spec(s)) == 64
{
    if s.len() >= 2 {
        let n = s.len() as int;
        let top = s[n - 1];
        let sec = s[n - 2];
        let t = nbits(top);
        lemma_nbits_range(top);
        vstd::std_specs::bits::axiom_u64_leading_zeros(top);
        let m = hb_spec(s);
        vstd::std_specs::bits::axiom_u64_leading_zeros(m);
        let lz = vstd::std_specs::bits::u64_leading_zeros(top);
        // bit t-1 of top is set; after the left shift by 64 - t it is bit 63
        let k: u64 = sub(63u64, lz as u64);
        assert((top >> k) & 1 != 0);
        if t == 64 {
            let b = b2u(any_nz(s, 0, n - 1));
            assert(((top | b) >> 63u64) & 1 != 0) by (bit_vector) requires (top >> 63u64) & 1 != 0;
        } else {
            let sh = (64 - t) as u64;
            let low = (sec >> (t as u64));
            let b = b2u((sec << ((64 - t) as u64)) != 0 || any_nz(s, 0, n - 2));
            assert(k + sh == 63);
            assert(((((top << sh) | low) | b) >> 63u64) & 1 != 0) by (bit_vector) requires (top >> k) & 1 != 0, k + sh == 63, sh < 64;
        }
        assert((m >> 63u64) & 1 != 0);
        // hence no leading zero
        if vstd::std_specs::bits::u64_leading_zeros(m) > 0 {
            assert((m >> 63u64) & 1 == 0);
        }
    }
}

//@ extract src/biguint/convert.rs :: fn high_bits_to_u64 props=C08
fn high_bits_to_u64(v: &BigUint) -> /*+*/(r: /*-*/u64/*+*/)/*-*/
//+{
    requires v.wf(), v.data@.len() < MAX_DIGITS()
    ensures
        v.data@.len() == 0 ==> r == 0,
        v.data@.len() == 1 ==> r == v.data@[0],
        v.data@.len() >= 2 ==> r == hb_spec(v.data@),
//+}
{
    match v.data.len() {
        0 => 0,
        1 => {
            // XXX Conversion is useless if already 64-bit.
            let v0 = u64::from(v.data[0]);
            v0
        }
        _ => {
//+{
            let ghost s = v.data@;
            let ghost n = s.len() as int;
            let ghost top = s[n - 1];
            let ghost t = nbits(top);
            proof { lemma_nbits_range(top); }
//+}
            let mut bits = v.bits();
            let mut ret = 0u64;
            let mut ret_bits = 0;

            for d in /*+*/it: /*-*/v.data.iter().rev()
//+{
                invariant
                    n == s.len(), n >= 2, n < MAX_DIGITS(), s == v.data@, top == s[n - 1], t == nbits(top), 1 <= t <= 64,
                    it.seq().len() == n,
                    forall|i: int| 0 <= i < it.seq().len() ==> *(#[trigger] it.seq()[i]) == s[n - 1 - i],
                    it.index@ == 0 ==> ret == 0 && ret_bits == 0 && bits == 64 * (n - 1) + t,
                    it.index@ >= 1 ==> bits == 64 * (n - it.index@),
                    it.index@ == 1 ==> ret == top && ret_bits == t,
                    it.index@ >= 2 ==> ret_bits == 64 && ret == hb_part(s, it.index@ as int),
//+}
            {
//+{
                let ghost i = it.index@ as int;
                let ghost ret0 = ret;
                assert(*d == s[n - 1 - i]);
//+}
                let digit_bits = (bits - 1) % u64::from(big_digit::BITS) + 1;
                let bits_want = Ord::min(64 - ret_bits, digit_bits);
//+{
                proof {
                    if i == 0 { assert(digit_bits == t && bits_want == t); }
                    else { assert(digit_bits == 64); }
                }
//+}

                if bits_want != 0 {
                    if bits_want != 64 {
                        ret <<= bits_want;
                    }
                    // XXX Conversion is useless if already 64-bit.
                    let d0 = u64::from(*d) >> (digit_bits - bits_want);
                    ret |= d0;
                }
//+{
                proof {
                    if i == 0 {
                        lemma_hb_first(top, t);
                        assert(ret == top);
                    }
                }
                let ghost ret1 = ret;
//+}

                // Implement round-to-odd: If any lower bits are 1, set LSB to 1
                // so that rounding again to floating point value using
                // nearest-ties-to-even is correct.
                //
                // See: https://en.wikipedia.org/wiki/Rounding#Rounding_to_prepare_for_shorter_precision

                if digit_bits - bits_want != 0 {
                    // XXX Conversion is useless if already 64-bit.
                    let masked = u64::from(*d) << (64 - (digit_bits - bits_want) as u32);
                    ret |= (masked != 0) as u64;
                }
//+{
                proof {
                    if i == 1 {
                        lemma_hb_second(s, top, *d, t, ret);
                    } else if i >= 2 {
                        lemma_hb_next(s, i, *d, ret0, ret);
                    }
                }
//+}

                ret_bits += bits_want;
                bits -= digit_bits;
            }

            ret
        }
    }
}
//@ end

impl BigUint {
//@ extract src/biguint.rs :: impl BigUint :: const ZERO rules=R9,R13
    exec const ZERO: Self /*+*/ensures Self::ZERO.data@.len() == 0 /*-*/{ BigUint { data: Vec::new() } }
//@ end

    // contract-only re-homing: the following are methods of `impl ToPrimitive for BigUint` (num_traits is an external trait)
//@ extract src/biguint/convert.rs :: impl ToPrimitive for BigUint :: fn to_u64 props=C08,C04
    fn to_u64(&self) -> /*+*/(r: /*-*/Option<u64>/*+*/)/*-*/
//+{
        ensures
            self.wf() ==> (r is Some <==> self.v() < B()),
            self.wf() && r is Some ==> r.unwrap() as nat == self.v(),
//+}
    {
//+{
        let ghost s = self.data@;
        proof {
            if self.wf() && s.len() >= 2 { lemma_wf_lower(s); lemma_pw_mono(1, (s.len() - 1) as nat); assert(pw(1) == B() * pw(0)); }
            if s.len() == 1 { lemma_val_single(s[0]); assert(s =~= seq![s[0]]); }
        }
//+}
        let mut ret: u64 = 0;
        let mut bits = 0;

        for i in /*+*/it: /*-*/self.data.iter()
//+{
            invariant
                s == self.data@, it.seq().len() == s.len(),
                forall|k: int| 0 <= k < it.seq().len() ==> *(#[trigger] it.seq()[k]) == s[k],
                it.index@ <= 1 || s.len() <= 1,
                it.index@ == 0 ==> ret == 0 && bits == 0,
                it.index@ == 1 ==> ret == s[0] && bits == 64,
                self.wf() && s.len() >= 2 ==> self.v() >= B(),
//+}
        {
            if bits >= 64 {
                return None;
            }

            // XXX Conversion is useless if already 64-bit.
//+{
            proof { let x = *i; assert(x << 0u8 == x) by (bit_vector); }
//+}
            ret += u64::from(*i) << bits;
            bits += big_digit::BITS;
        }

        Some(ret)
    }
//@ end

//@ extract src/biguint/convert.rs :: impl ToPrimitive for BigUint :: fn to_u128 props=C08,C04
    fn to_u128(&self) -> /*+*/(r: /*-*/Option<u128>/*+*/)/*-*/
//+{
        ensures
            self.wf() ==> (r is Some <==> self.v() < B() * B()),
            self.wf() && r is Some ==> r.unwrap() as nat == self.v(),
//+}
    {
//+{
        let ghost s = self.data@;
        proof {
            if self.wf() && s.len() >= 3 { lemma_wf_lower(s); lemma_pw_mono(2, (s.len() - 1) as nat); assert(pw(2) == B() * pw(1)); assert(pw(1) == B() * pw(0)); }
            if s.len() == 1 { lemma_val_single(s[0]); assert(s =~= seq![s[0]]); }
            if s.len() == 2 {
                assert(valp(s, 2) == valp(s, 1) + (s[1] as nat) * pw(1));
                assert(valp(s, 1) == valp(s, 0) + (s[0] as nat) * pw(0));
                assert(pw(1) == B() * pw(0));
                assert((s[0] as nat) * 1 == s[0] as nat) by (nonlinear_arith);
                assert((s[0] as nat) + (s[1] as nat) * B() < B() * B()) by (nonlinear_arith) requires (s[0] as nat) < B(), (s[1] as nat) < B();
            }
        }
//+}
        let mut ret: u128 = 0;
        let mut bits = 0;

        for i in /*+*/it: /*-*/self.data.iter()
//+{
            invariant
                s == self.data@, it.seq().len() == s.len(),
                forall|k: int| 0 <= k < it.seq().len() ==> *(#[trigger] it.seq()[k]) == s[k],
                it.index@ <= 2 || s.len() <= 2,
                it.index@ == 0 ==> ret == 0 && bits == 0,
                it.index@ == 1 ==> ret == s[0] as u128 && bits == 64,
                it.index@ == 2 ==> ret as nat == (s[0] as nat) + (s[1] as nat) * B() && bits == 128,
                self.wf() && s.len() >= 3 ==> self.v() >= B() * B(),
//+}
        {
            if bits >= 128 {
                return None;
            }

//+{
            proof {
                let x = *i as u128; let r0 = ret;
                assert(0u128 | (x << 0u8) == x) by (bit_vector);
                assert(r0 <= 0xffff_ffff_ffff_ffffu128 && x <= 0xffff_ffff_ffff_ffffu128 ==> (r0 | (x << 64u8)) == r0 + x * 0x1_0000_0000_0000_0000u128) by (bit_vector);
            }
//+}
            ret |= u128::from(*i) << bits;
            bits += big_digit::BITS;
        }

        Some(ret)
    }
//@ end

//@ extract src/biguint/convert.rs :: impl ToPrimitive for BigUint :: fn to_i64 rules=R0,R55 props=C08
    fn to_i64(&self) -> /*+*/(r: /*-*/Option<i64>/*+*/)/*-*/
//+{
        ensures
            self.wf() ==> (r is Some <==> self.v() < 0x8000_0000_0000_0000),
            self.wf() && r is Some ==> r.unwrap() as int == self.v() as int,
//+}
    {
        match self.to_u64() { Some(v__) => __u64_to_i64(v__), None => None, }
    }
//@ end

//@ extract src/biguint/convert.rs :: impl ToPrimitive for BigUint :: fn to_i128 rules=R0,R55 props=C08
    fn to_i128(&self) -> /*+*/(r: /*-*/Option<i128>/*+*/)/*-*/
//+{
        ensures
            self.wf() ==> (r is Some <==> self.v() < 0x8000_0000_0000_0000_0000_0000_0000_0000),
            self.wf() && r is Some ==> r.unwrap() as int == self.v() as int,
//+}
    {
        match self.to_u128() { Some(v__) => __u128_to_i128(v__), None => None, }
    }
//@ end

//@ extract src/biguint/convert.rs :: impl ToPrimitive for BigUint :: fn to_f64 rules=R0,R24c,R56 props=C08,C14
    fn to_f64(&self) -> /*+*/(r: /*-*/Option<MF64>/*+*/)/*-*/
//+{
        requires self.wf()
        ensures r is Some,
            r.unwrap() == (if fexp(self.dg()) > 1024 { finf64() } else { fmul64(fcast64(fmant(self.dg())), fpow2_64(fexp(self.dg()) as i32)) }),
//+}
    {
//+{
        proof { axiom_vec_u64_len(&self.data); lemma_fls_mant(self.data@); }
//+}
        let mantissa = high_bits_to_u64(self);
        let exponent = self.bits() - u64::from(fls64(mantissa));

        if exponent > 1024u64 {
            Some(__f64_infinity())
        } else {
            Some(__u64_as_f64(mantissa).mul(__f64_pow2(exponent as i32)))
        }
    }
//@ end

//@ extract src/biguint/convert.rs :: impl ToPrimitive for BigUint :: fn to_f32 rules=R0,R24c,R56 props=C08,C14
    fn to_f32(&self) -> /*+*/(r: /*-*/Option<MF32>/*+*/)/*-*/
//+{
        requires self.wf()
        ensures r is Some,
            r.unwrap() == (if fexp(self.dg()) > 128 { finf32() } else { fmul32(fcast32(fmant(self.dg())), fpow2_32(fexp(self.dg()) as i32)) }),
//+}
    {
//+{
        proof { axiom_vec_u64_len(&self.data); lemma_fls_mant(self.data@); }
//+}
        let mantissa = high_bits_to_u64(self);
        let exponent = self.bits() - u64::from(fls64(mantissa));

        if exponent > 128u64 {
            Some(__f32_infinity())
        } else {
            Some(__u64_as_f32(mantissa).mul(__f32_pow2(exponent as i32)))
        }
    }
//@ end
}

// contract-only: spec-trait plumbing for `From`
impl vstd::std_specs::convert::FromSpecImpl<u64> for BigUint {
    open spec fn obeys_from_spec() -> bool { false }
    open spec fn from_spec(v: u64) -> BigUint { arbitrary() }
}
impl vstd::std_specs::convert::FromSpecImpl<u128> for BigUint {
    open spec fn obeys_from_spec() -> bool { false }
    open spec fn from_spec(v: u128) -> BigUint { arbitrary() }
}

impl From<u64> for BigUint {
//@ extract src/biguint/convert.rs :: impl From<u64> for BigUint :: fn from props=C08,C04 label=from_u64
    fn from(mut n: u64) -> /*+*/(r: /*-*/Self/*+*/)/*-*/
//+{
        ensures r.wf(), r.v() == n as nat
//+}
    {
//+{
        let ghost n0 = n;
//+}
        let mut ret: BigUint = Self::ZERO;

        while n != 0
//+{
            invariant
                (n == n0 && ret.data@.len() == 0) || (n == 0 && n0 != 0 && ret.data@ =~= seq![n0]),
            decreases n
//+}
        {
//+{
            proof { let x = n; assert((x >> 1u64) >> 63u8 == 0) by (bit_vector); }
//+}
            ret.data.push(n as BigDigit);
            // don't overflow if BITS is 64:
            n = (n >> 1) >> (big_digit::BITS - 1);
        }
//+{
        proof { if n0 != 0 { lemma_val_single(n0); } }
//+}

        ret
    }
//@ end
}

impl From<u128> for BigUint {
//@ extract src/biguint/convert.rs :: impl From<u128> for BigUint :: fn from props=C08,C04 label=from_u128
    fn from(mut n: u128) -> /*+*/(r: /*-*/Self/*+*/)/*-*/
//+{
        ensures r.wf(), r.v() == n as nat
//+}
    {
//+{
        let ghost n0 = n;
//+}
        let mut ret: BigUint = Self::ZERO;
//+{
        proof { assert(pw(0) * (n as nat) == n as nat) by (nonlinear_arith) requires pw(0) == 1; }
//+}

        while n != 0
//+{
            invariant
                wf(ret.data@) || n != 0,
                ret.data@.len() <= 2,
                val(ret.data@) + pw(ret.data@.len()) * (n as nat) == n0 as nat,
                ret.data@.len() == 1 ==> n < 0x1_0000_0000_0000_0000u128,
                ret.data@.len() == 2 ==> n == 0,
            decreases n
//+}
        {
//+{
            let ghost d0 = ret.data@;
            proof {
                let x = n;
                assert(((x as u64) as u128) + (x >> 64u8) * 0x1_0000_0000_0000_0000u128 == x) by (bit_vector);
                assert(x >> 64u8 < x) by (bit_vector) requires x != 0;
                assert(x < 0x1_0000_0000_0000_0000u128 ==> (x >> 64u8) == 0) by (bit_vector);
                assert((x >> 64u8) <= 0xffff_ffff_ffff_ffffu128) by (bit_vector);
                assert(x != 0 && (x >> 64u8) == 0 ==> (x as u64) != 0) by (bit_vector);
                lemma_val_push(d0, x as u64);
                assert(pw(d0.len() + 1) == B() * pw(d0.len()));
                let p = pw(d0.len()); let lo = (x as u64) as nat; let hi = (x >> 64u8) as nat;
                assert(p * (lo + hi * B()) == p * lo + (B() * p) * hi) by (nonlinear_arith);
            }
//+}
            ret.data.push(n as BigDigit);
            n >>= big_digit::BITS;
        }
//+{
        proof { assert(pw(ret.data@.len()) * 0 == 0) by (nonlinear_arith); }
//+}

        ret
    }
//@ end
}

impl vstd::std_specs::convert::FromSpecImpl<u32> for BigUint {
    open spec fn obeys_from_spec() -> bool { false }
    open spec fn from_spec(v: u32) -> BigUint { arbitrary() }
}
impl From<u32> for BigUint {
//@ extract src/biguint/convert.rs :: macro_rules! impl_biguint_from_uint :: arm 0 :: fn from subst=$T=>u32 props=C08,C04 label=from_u32
    fn from(n: u32) -> /*+*/(r: /*-*/Self/*+*/)/*-*/
//+{
        ensures r.wf(), r.v() == n as nat
//+}
    {
        BigUint::from(n as u64)
    }
//@ end
}

} // mod u
} // verus!
fn main() {}
