// Round-to-nearest-even over naturals and the innocuous double rounding through a round-to-odd intermediate (C08)
/// x rounded to a multiple of 2^k, ties to the even quotient
pub open spec fn rne_shift(x: nat, k: nat) -> nat {
    let q = x / vstd::arithmetic::power2::pow2(k);
    let r = x % vstd::arithmetic::power2::pow2(k);
    if k == 0 { x } else if 2 * r > vstd::arithmetic::power2::pow2(k) || (2 * r == vstd::arithmetic::power2::pow2(k) && q % 2 == 1) { (q + 1) * vstd::arithmetic::power2::pow2(k) } else { q * vstd::arithmetic::power2::pow2(k) }
}

/// Double rounding through a round-to-odd intermediate is innocuous: rounding the 64-bit round-to-odd mantissa at bit
/// 11 and scaling by 2^e equals rounding the exact value at bit e + 11.
pub proof fn lemma_rne_sticky(x: nat, e: nat, m0: u64, m: u64, j: nat)
    requires
        m0 as nat == x / vstd::arithmetic::power2::pow2(e),
        m == (if x % vstd::arithmetic::power2::pow2(e) != 0 { m0 | 1u64 } else { m0 }),
        2 <= j <= 62,
    ensures rne_shift(m as nat, j) * vstd::arithmetic::power2::pow2(e) == rne_shift(x, e + j)
{
    let pe = vstd::arithmetic::power2::pow2(e); let pj = vstd::arithmetic::power2::pow2(j); let pej = vstd::arithmetic::power2::pow2(e + j);
    vstd::arithmetic::power2::lemma_pow2_pos(e); vstd::arithmetic::power2::lemma_pow2_pos(j); vstd::arithmetic::power2::lemma_pow2_pos(e + j);
    vstd::arithmetic::power2::lemma_pow2_adds(e, j);
    assert(pej == pe * pj);
    let low = x % pe;
    vstd::arithmetic::div_mod::lemma_fundamental_div_mod(x as int, pe as int);
    vstd::arithmetic::div_mod::lemma_mod_bound(x as int, pe as int);
    // x == pe * m0 + low
    let q0 = (m0 as nat) / pj;
    let r0 = (m0 as nat) % pj;
    vstd::arithmetic::div_mod::lemma_fundamental_div_mod(m0 as int, pj as int);
    vstd::arithmetic::div_mod::lemma_mod_bound(m0 as int, pj as int);
    // x == pej * q0 + (r0 * pe + low)
    let big_r = r0 * pe + low;
    assert(x == pej * q0 + big_r) by (nonlinear_arith)
        requires x == pe * (m0 as nat) + low, m0 as nat == pj * q0 + r0, pej == pe * pj, big_r == r0 * pe + low;
    assert(big_r < pej) by (nonlinear_arith) requires big_r == r0 * pe + low, low < pe, r0 + 1 <= pj, pej == pe * pj;
    vstd::arithmetic::div_mod::lemma_fundamental_div_mod_converse(x as int, pej as int, q0 as int, big_r as int);
    assert(x / pej == q0 && x % pej == big_r);
    // the sticky bit changes neither the quotient nor, except for bit 0, the remainder
    let ju = j as u64;
    lemma_u64_pow2_no_overflow_(j);
    vstd::bits::lemma_u64_shl_is_mul(1u64, ju);
    let pju: u64 = 1u64 << ju;
    assert(pju as nat == pj);
    let mask: u64 = sub(pju, 1u64);
    let half: u64 = 1u64 << sub(ju, 1u64);
    assert(2 * (half as nat) == pj) by {
        assert(add(half, half) == pju) by (bit_vector) requires 2 <= ju <= 62, half == 1u64 << sub(ju, 1u64), pju == 1u64 << ju;
        assert(half <= 0x4000_0000_0000_0000u64) by (bit_vector) requires 2 <= ju <= 62, half == 1u64 << sub(ju, 1u64);
    }
    vstd::bits::lemma_u64_shr_is_div(m0, ju);
    vstd::bits::lemma_u64_shr_is_div(m, ju);
    vstd::bits::lemma_u64_low_bits_mask_is_mod(m0, j);
    vstd::bits::lemma_u64_low_bits_mask_is_mod(m, j);
    assert(vstd::bits::low_bits_mask(j) == pj - 1);
    assert(mask as nat == pj - 1);
    let r0b: u64 = m0 & mask;
    let rb: u64 = m & mask;
    assert(r0b as nat == r0);
    let q = (m as nat) / pj;
    let r = (m as nat) % pj;
    assert(rb as nat == r);
    if low != 0 {
        assert(m == m0 | 1u64);
        assert((m >> ju) == (m0 >> ju)) by (bit_vector) requires m == m0 | 1u64, 2 <= ju <= 62;
        assert(rb == r0b | 1u64) by (bit_vector) requires m == m0 | 1u64, rb == m & mask, r0b == m0 & mask, mask == sub(1u64 << ju, 1u64), 2 <= ju <= 62;
        assert(r0b > half ==> rb > half) by (bit_vector) requires rb == r0b | 1u64;
        assert(r0b == half ==> rb == add(half, 1u64)) by (bit_vector) requires rb == r0b | 1u64, half == 1u64 << sub(ju, 1u64), 2 <= ju <= 62;
        assert(r0b < half ==> rb < half) by (bit_vector) requires rb == r0b | 1u64, half == 1u64 << sub(ju, 1u64), 2 <= ju <= 62;
    } else {
        assert(m == m0);
    }
    assert(q == q0);
    // compare the two remainders with their halves
    let h = half as nat;
    assert(pej == 2 * (h * pe)) by (nonlinear_arith) requires pej == pe * pj, pj == 2 * h;
    if r0 > h {
        assert(2 * big_r > pej) by (nonlinear_arith) requires big_r == r0 * pe + low, r0 >= h + 1, pej == 2 * (h * pe), pe >= 1;
        assert(2 * r > pj);
    } else if r0 == h {
        if low != 0 {
            assert(2 * big_r > pej) by (nonlinear_arith) requires big_r == r0 * pe + low, r0 == h, pej == 2 * (h * pe), low >= 1;
            assert(2 * r > pj);
        } else {
            assert(2 * big_r == pej) by (nonlinear_arith) requires big_r == r0 * pe + low, r0 == h, pej == 2 * (h * pe), low == 0;
            assert(2 * r == pj);
        }
    } else {
        assert(2 * big_r < pej) by (nonlinear_arith) requires big_r == r0 * pe + low, r0 + 1 <= h, pej == 2 * (h * pe), low < pe;
        assert(2 * r < pj);
    }
    assert((q + 1) * pj * pe == (q + 1) * pej) by (nonlinear_arith) requires pej == pe * pj;
    assert(q * pj * pe == q * pej) by (nonlinear_arith) requires pej == pe * pj;
}
pub proof fn lemma_u64_pow2_no_overflow_(j: nat)
    requires j < 64
    ensures vstd::arithmetic::power2::pow2(j) <= 0x8000_0000_0000_0000
{
    vstd::arithmetic::power2::lemma2_to64();
    vstd::arithmetic::power2::lemma_pow2_unfold(64);
    if j < 63 { vstd::arithmetic::power2::lemma_pow2_strictly_increases(j, 63); }
}
