use vstd::prelude::*;
verus! {
pub struct BigUint { pub data: Vec<u64> }
impl BigUint { pub uninterp spec fn v(&self) -> nat; }

#[verifier::external_body]
fn lt(a: &BigUint, b: &BigUint) -> (r: bool) ensures r == (a.v() < b.v()) { unimplemented!() }

fn fixpoint<F>(x: BigUint, f: F) -> (r: BigUint)
where F: Fn(&BigUint) -> BigUint,
    requires forall|s: &BigUint| f.requires((s,)),
             forall|s: &BigUint, o: BigUint| f.ensures((s,), o) ==> o.v() <= s.v() + 1,
{
    let mut x = x;
    let mut xn = f(&x);
    let mut fuel = 10u8;
    while lt(&xn, &x) && fuel > 0
        invariant forall|s: &BigUint| f.requires((s,)),
        decreases fuel
    {
        x = xn;
        xn = f(&x);
        fuel = fuel - 1;
    }
    x
}

#[verifier::external_body]
fn half(a: &BigUint, b: &BigUint) -> (r: BigUint) ensures r.v() == (a.v() + b.v()) / 2 { unimplemented!() }

fn caller(n: &BigUint, g: BigUint) -> BigUint {
    fixpoint(g, move |s: &BigUint| -> (o: BigUint) ensures o.v() == (s.v() + n.v()) / 2 {
        let t = half(s, n);
        t
    })
}
} // verus!
fn main() {}
